package breaker

// White-box part of the C01 check (DESIGN.md §4 C01), compiled into package breaker with
// `go test -overlay`. It drives the PUBLIC API of a breaker built by NewBreaker and reads
// the 40 buckets of the wrapped googleBreaker through stat.Reduce after every call:
//
//	(3) exact accounting: after each call the whole bucket vector equals the reference
//	    model's (one mark of the right kind in the right bucket per admitted/rejected call,
//	    none for done-context calls and abandoned promises);
//	(1)(2)(4) as in the black-box part, plus the exact must-admit rule obtained by
//	    mirroring the anchored mechanism (weight from googleBreaker.k, lastPass);
//	(c) concurrent bursts with conservation of marks at quiescence.
//
// All helper identifiers carry the prefix vf so that the race-log reducer can tell
// harness frames from go-zero frames.

import (
	"context"
	"errors"
	"fmt"
	"runtime"
	"sort"
	"strings"
	"sync"
	"sync/atomic"
	"testing"
	"time"

	"github.com/zeromicro/go-zero/core/logx"
	"github.com/zeromicro/go-zero/core/mathx"

	kit "github.com/zeromicro/go-zero/internal/verifkit"
)

const (
	vfBucketDur = 250 * time.Millisecond
	vfNBuckets  = 40
	vfForcePass = time.Second
)

type vfOutcome int

const (
	vfOK vfOutcome = iota
	vfUnacc
	vfAcc
	vfPanic
	vfNilUnacc
)

var vfOutNames = []string{"ok", "unacc", "acc", "panic", "nil-unacc"}

type vfEntry int

const (
	vfEDo vfEntry = iota
	vfEDoAcc
	vfEDoFb
	vfEDoFbAcc
	vfEAllow
)

var vfEntNames = []string{"Do", "DoWithAcceptable", "DoWithFallback", "DoWithFallbackAcceptable", "Allow"}

type vfCtxMode int

const (
	vfCNone vfCtxMode = iota
	vfCLive
	vfCCancelled
	vfCExpired
)

var vfCtxNames = []string{"", "Ctx(live)", "Ctx(cancelled)", "Ctx(expired)"}

type vfCall struct {
	Gap     time.Duration
	E       vfEntry
	Ctx     vfCtxMode
	Out     vfOutcome
	Lat     time.Duration
	FbRet   int
	FbLat   time.Duration
	Abandon bool
}

func vfFamily(cl *vfCall) string {
	switch {
	case cl.E == vfEAllow:
		return "allow"
	case cl.E == vfEDoFb || cl.E == vfEDoFbAcc:
		return "do-fallback"
	}
	return "do"
}

func vfDesc(cl *vfCall) string {
	s := fmt.Sprintf("+%v %s%s out=%s", cl.Gap, vfEntNames[cl.E], vfCtxNames[cl.Ctx], vfOutNames[cl.Out])
	if cl.Lat > 0 {
		s += fmt.Sprintf(" lat=%v", cl.Lat)
	}
	if cl.E == vfEDoFb || cl.E == vfEDoFbAcc {
		s += fmt.Sprintf(" fb=%d", cl.FbRet)
		if cl.FbLat > 0 {
			s += fmt.Sprintf(" fblat=%v", cl.FbLat)
		}
	}
	if cl.Abandon {
		s += " abandon"
	}
	return s
}

func vfSuccess(cl *vfCall) bool {
	switch cl.E {
	case vfEDo, vfEDoFb:
		return cl.Out == vfOK || cl.Out == vfNilUnacc
	}
	return cl.Out == vfOK || cl.Out == vfAcc
}

type vfScriptErr struct{ id int }

func (e *vfScriptErr) Error() string { return fmt.Sprintf("scripted error #%d", e.id) }

type vfPanicTok struct{ id int }

type vfRes struct {
	reqRuns  int32
	fbRuns   int32
	fbArg    error
	ret      error
	want     error
	fbWant   error
	panicked bool
	panicVal any
	tok      *vfPanicTok
	allowErr error
	promise  bool
	tDecide  time.Duration
	tMark    time.Duration
}

var vfErrSeq atomic.Int64

func vfDoCall(b Breaker, cl *vfCall, now func() time.Duration, lat func(time.Duration)) (r vfRes) {
	var serr error
	if cl.Out == vfUnacc || cl.Out == vfAcc {
		serr = &vfScriptErr{int(vfErrSeq.Add(1))}
	}
	r.want = serr
	r.tok = &vfPanicTok{int(vfErrSeq.Add(1))}
	fbOwn := &vfScriptErr{int(vfErrSeq.Add(1))}
	req := func() error {
		atomic.AddInt32(&r.reqRuns, 1)
		lat(cl.Lat)
		r.tMark = now()
		if cl.Out == vfPanic {
			panic(r.tok)
		}
		return serr
	}
	acc := func(err error) bool { return cl.Out == vfOK || cl.Out == vfAcc }
	fb := func(err error) error {
		atomic.AddInt32(&r.fbRuns, 1)
		r.fbArg = err
		lat(cl.FbLat)
		switch cl.FbRet {
		case 1:
			r.fbWant = err
		case 2:
			r.fbWant = fbOwn
		}
		return r.fbWant
	}
	var ctx context.Context
	cancel := func() {}
	switch cl.Ctx {
	case vfCLive:
		ctx, cancel = context.WithCancel(context.Background())
	case vfCCancelled:
		ctx, cancel = context.WithCancel(context.Background())
		cancel()
	case vfCExpired:
		ctx, cancel = context.WithDeadline(context.Background(), time.Now().Add(-time.Hour))
	}
	defer cancel()
	defer func() {
		if v := recover(); v != nil {
			r.panicked = true
			r.panicVal = v
		}
	}()
	r.tDecide = now()
	r.tMark = r.tDecide
	switch cl.E {
	case vfEAllow:
		var p Promise
		var err error
		if cl.Ctx == vfCNone {
			p, err = b.Allow()
		} else {
			p, err = b.AllowCtx(ctx)
		}
		r.allowErr = err
		r.ret = err
		if err == nil {
			r.promise = p != nil
			if p != nil && !cl.Abandon {
				lat(cl.Lat)
				r.tMark = now()
				if vfSuccess(cl) {
					p.Accept()
				} else {
					p.Reject("scripted reject")
				}
			}
		}
	case vfEDo:
		if cl.Ctx == vfCNone {
			r.ret = b.Do(req)
		} else {
			r.ret = b.DoCtx(ctx, req)
		}
	case vfEDoAcc:
		if cl.Ctx == vfCNone {
			r.ret = b.DoWithAcceptable(req, acc)
		} else {
			r.ret = b.DoWithAcceptableCtx(ctx, req, acc)
		}
	case vfEDoFb:
		if cl.Ctx == vfCNone {
			r.ret = b.DoWithFallback(req, fb)
		} else {
			r.ret = b.DoWithFallbackCtx(ctx, req, fb)
		}
	case vfEDoFbAcc:
		if cl.Ctx == vfCNone {
			r.ret = b.DoWithFallbackAcceptable(req, fb, acc)
		} else {
			r.ret = b.DoWithFallbackAcceptableCtx(ctx, req, fb, acc)
		}
	}
	return r
}

type vfVerdict int

const (
	vfAdmitted vfVerdict = iota
	vfRejected
	vfNothing
	vfBroken
)

func vfClassify(cl *vfCall, r *vfRes, viol func(kind, what string)) vfVerdict {
	done := cl.Ctx == vfCCancelled || cl.Ctx == vfCExpired
	if done && r.reqRuns == 0 && r.fbRuns == 0 && !r.panicked && r.ret != nil &&
		(errors.Is(r.ret, context.Canceled) || errors.Is(r.ret, context.DeadlineExceeded)) {
		return vfNothing
	}
	if cl.E == vfEAllow {
		if r.panicked {
			viol("allow-panicked", fmt.Sprintf("Allow/Accept/Reject panicked with %v", r.panicVal))
			return vfBroken
		}
		if r.allowErr == nil {
			if !r.promise {
				viol("allow-nil-promise", "Allow returned neither a promise nor an error")
				return vfBroken
			}
			return vfAdmitted
		}
		if !errors.Is(r.allowErr, ErrServiceUnavailable) {
			viol("rejected-wrong-error", fmt.Sprintf("Allow refused with %v, not ErrServiceUnavailable", r.allowErr))
			return vfBroken
		}
		return vfRejected
	}
	hasFb := cl.E == vfEDoFb || cl.E == vfEDoFbAcc
	switch {
	case r.reqRuns > 1:
		viol("req-ran-more-than-once", fmt.Sprintf("req ran %d times", r.reqRuns))
		return vfBroken
	case r.reqRuns == 1:
		if r.fbRuns != 0 {
			viol("req-and-fallback", fmt.Sprintf("req ran and the fallback ran %d times", r.fbRuns))
			return vfBroken
		}
		if cl.Out == vfPanic {
			if !r.panicked {
				viol("panic-swallowed", fmt.Sprintf("req panicked but the call returned %v", r.ret))
				return vfBroken
			}
			if r.panicVal != any(r.tok) {
				viol("panic-changed", fmt.Sprintf("req panicked with %p, the caller recovered %v", r.tok, r.panicVal))
				return vfBroken
			}
			return vfAdmitted
		}
		if r.panicked {
			viol("unexpected-panic", fmt.Sprintf("the call panicked with %v although req returned normally", r.panicVal))
			return vfBroken
		}
		if r.ret != r.want {
			viol("error-changed", fmt.Sprintf("req returned %v, the call returned %v", r.want, r.ret))
			return vfBroken
		}
		return vfAdmitted
	}
	if r.panicked {
		viol("unexpected-panic", fmt.Sprintf("the call panicked with %v without running req", r.panicVal))
		return vfBroken
	}
	if hasFb {
		if r.fbRuns != 1 {
			viol("fallback-not-once", fmt.Sprintf("req did not run and the fallback ran %d times (returned %v)", r.fbRuns, r.ret))
			return vfBroken
		}
		if !errors.Is(r.fbArg, ErrServiceUnavailable) {
			viol("fallback-arg", fmt.Sprintf("fallback received %v, not ErrServiceUnavailable", r.fbArg))
			return vfBroken
		}
		if r.ret != r.fbWant {
			viol("fallback-result-changed", fmt.Sprintf("fallback returned %v, the call returned %v", r.fbWant, r.ret))
			return vfBroken
		}
		return vfRejected
	}
	if r.fbRuns != 0 {
		viol("fallback-ran-unasked", "a fallback ran on an entry point without fallback")
		return vfBroken
	}
	if !errors.Is(r.ret, ErrServiceUnavailable) {
		if done {
			viol("done-ctx-wrong-error", fmt.Sprintf("done context: nothing ran and the call returned %v", r.ret))
		} else {
			viol("rejected-wrong-error", fmt.Sprintf("req did not run and the call returned %v, not ErrServiceUnavailable", r.ret))
		}
		return vfBroken
	}
	return vfRejected
}

// ------------------------------------------------------------------ model

type vfModel struct {
	t0       time.Duration
	bk       map[int64]*[3]int64
	sureSeen bool
	lastPoss time.Duration
	mlp      time.Duration // mirror of googleBreaker.lastPass under the anchored mechanism
	mlpOK    bool          // the mirror has agreed with the real lastPass so far
}

func vfIdx(m *vfModel, t time.Duration) int64 { return int64((t - m.t0) / vfBucketDur) }

func vfMark(m *vfModel, kind int, t time.Duration) {
	i := vfIdx(m, t)
	b := m.bk[i]
	if b == nil {
		b = new([3]int64)
		m.bk[i] = b
	}
	b[kind]++
}

type vfPre struct {
	t           time.Duration
	A, N        int64
	legal, sure bool
	must        bool
	// mirror of accept(): drop ratio > 0 under the implementation's own weight
	throttling bool
	mustExact  bool // throttling, mirrored lastPass > 0 and more than 1 s ago
	zeroRatio  bool // throttling but the working-bucket factor makes the drop probability 0
}

func vfPreOf(m *vfModel, gb *googleBreaker, t time.Duration) vfPre {
	c := vfIdx(m, t)
	p := vfPre{t: t}
	var failing, working int64
	for i := c - vfNBuckets + 1; i <= c; i++ {
		b := m.bk[i]
		if b == nil {
			continue
		}
		p.A += b[0]
		p.N += b[1] + b[2]
		if b[1] > 0 {
			working = 0
		} else if b[0] > 0 {
			working++
		}
		if b[0] > 0 {
			failing = 0
		} else if b[1] > 0 {
			failing++
		}
	}
	p.legal = 10*p.N > 50+p.A
	p.sure = 2*p.N-10 > p.A
	p.must = m.sureSeen && t-m.lastPoss > vfForcePass
	total := p.A + p.N
	w := gb.k - (gb.k-minK)*float64(failing)/buckets
	ratio := (float64(total-protection) - mathx.AtLeast(w, minK)*float64(p.A)) / float64(total+1)
	p.throttling = ratio > 0
	p.mustExact = p.throttling && m.mlp > 0 && t-m.mlp > forcePassDuration
	p.zeroRatio = p.throttling && ratio*float64(buckets-working)/buckets <= 0
	return p
}

func vfClass(p vfPre) string {
	d := 10*p.N - 50 - p.A
	switch {
	case p.N == 0 && p.A == 0:
		return "empty"
	case d <= -10:
		return "below"
	case d <= 0:
		return "boundary-below"
	case d <= 10 && !p.sure:
		return "boundary-above"
	case !p.sure:
		return "between-weights"
	}
	return "throttling"
}

func vfIllegalKey(n int64) string {
	if n <= 5 {
		return "nonaccepted<=5"
	}
	return "nonaccepted<=5+10%accepted"
}

// ------------------------------------------------------------------ histories

type vfHist struct {
	c     *kit.Case
	vc    *kit.VClock
	b     Breaker
	gb    *googleBreaker
	m     *vfModel
	log   []string
	kind  string
	calls int64
	rej   int64
	legal int64
	must  int64
	sigH  []any
	drift bool
}

var vfNameSeq atomic.Int64

func vfUnwrap(b Breaker) *googleBreaker {
	cb, ok := b.(*circuitBreaker)
	if !ok {
		return nil
	}
	lt, ok := cb.throttle.(loggedThrottle)
	if !ok {
		return nil
	}
	gb, _ := lt.internalThrottle.(*googleBreaker)
	return gb
}

func vfNewHist(c *kit.Case, vc *kit.VClock, kind string) *vfHist {
	vc.Set(kit.VClockStart + time.Duration(c.R.Int63n(int64(3*time.Second))))
	h := &vfHist{c: c, vc: vc, kind: kind}
	h.b = NewBreaker(WithName(fmt.Sprintf("verif-c01w-%s-%d", c.ID, vfNameSeq.Add(1))))
	h.gb = vfUnwrap(h.b)
	h.m = &vfModel{t0: vc.Now(), bk: map[int64]*[3]int64{}, mlpOK: true}
	return h
}

func vfWitness(h *vfHist, extra string) map[string]any {
	return map[string]any{"family": h.kind, "bucket": vfBucketDur.String(),
		"history (gap before call, entry point, scripted outcome -> decision)": h.log, "detail": extra}
}

// vfVector reads the live buckets (oldest first) through stat.Reduce.
func vfVector(gb *googleBreaker) []bucket {
	var v []bucket
	gb.stat.Reduce(func(b *bucket) { v = append(v, *b) })
	return v
}

// vfCompare checks clause (3): the implementation's window equals the model's.
// Reduce yields the buckets from index c-39 up to the bucket of the latest Add.
func vfCompare(h *vfHist, t time.Duration, what string, cl *vfCall) bool {
	v := vfVector(h.gb)
	c := vfIdx(h.m, t)
	lo := c - vfNBuckets + 1
	var ms, mf, md, is, iff, id int64
	mism := ""
	for k := int64(0); k < vfNBuckets; k++ {
		var mb [3]int64
		if b := h.m.bk[lo+k]; b != nil {
			mb = *b
		}
		var ib bucket
		if int(k) < len(v) {
			ib = v[k]
		}
		ms, mf, md = ms+mb[0], mf+mb[1], md+mb[2]
		is, iff, id = is+ib.Success, iff+ib.Failure, id+ib.Drop
		if ib.Sum != ib.Success+ib.Failure+ib.Drop && mism == "" {
			mism = fmt.Sprintf("bucket %d: Sum=%d but Success+Failure+Drop=%d", lo+k, ib.Sum, ib.Success+ib.Failure+ib.Drop)
		}
		if (ib.Success != mb[0] || ib.Failure != mb[1] || ib.Drop != mb[2]) && mism == "" {
			mism = fmt.Sprintf("bucket %d (of window %d..%d): implementation success/failure/drop=%d/%d/%d, expected %d/%d/%d",
				lo+k, lo, c, ib.Success, ib.Failure, ib.Drop, mb[0], mb[1], mb[2])
		}
	}
	if len(v) > vfNBuckets {
		mism = fmt.Sprintf("Reduce visited %d buckets", len(v))
	}
	if mism == "" {
		return true
	}
	kind := "wrong-bucket"
	switch {
	case is+iff+id < ms+mf+md:
		kind = "missing-mark"
	case is+iff+id > ms+mf+md:
		kind = "extra-mark"
	case is != ms || iff != mf || id != md:
		kind = "wrong-kind"
	}
	h.c.Viol("C01/accounting/"+vfFamily(cl)+"/"+what+"/"+kind,
		fmt.Sprintf("after a call (%s, %s) the bucket window differs from one-mark-per-call accounting: %s; window totals implementation %d/%d/%d vs expected %d/%d/%d (success/failure/drop)",
			vfEntNames[cl.E]+vfCtxNames[cl.Ctx], what, mism, is, iff, id, ms, mf, md),
		vfWitness(h, mism))
	return false
}

func vfStep(h *vfHist, cl *vfCall) vfVerdict {
	h.vc.Advance(cl.Gap)
	t := h.vc.Now()
	p := vfPreOf(h.m, h.gb, t)
	lp0 := h.gb.lastPass.Load()
	if h.m.mlpOK && lp0 != h.m.mlp {
		h.m.mlpOK = false
		h.drift = true
	}
	r := vfDoCall(h.b, cl, h.vc.Now, func(d time.Duration) {
		if d > 0 {
			h.vc.Advance(d)
		}
	})
	desc := vfDesc(cl)
	v := vfClassify(cl, &r, func(kind, what string) {
		h.log = append(h.log, desc+" -> BROKEN")
		h.c.Viol("C01/exactly-once/"+vfFamily(cl)+"/"+kind, what, vfWitness(h, what))
	})
	h.calls++
	h.c.Obs("wb_calls", 1)
	h.c.Obs("wb_calls_window_"+vfClass(p), 1)
	if p.legal {
		h.legal++
	}
	if p.must || p.mustExact {
		h.must++
		h.c.Obs("wb_must_admit_situations", 1)
	}
	if p.mustExact {
		h.c.Obs("wb_must_admit_exact", 1)
	}
	what := vfOutNames[cl.Out]
	switch v {
	case vfAdmitted:
		h.log = append(h.log, fmt.Sprintf("%s -> admitted [A=%d N=%d]", desc, p.A, p.N))
		if p.sure {
			h.m.sureSeen = true
		}
		if p.legal {
			h.m.lastPoss = t
		}
		if p.throttling {
			h.m.mlp = t
		}
		if cl.E == vfEAllow && cl.Abandon {
			what = "abandoned"
		} else if vfSuccess(cl) {
			vfMark(h.m, 0, r.tMark)
		} else {
			vfMark(h.m, 1, r.tMark)
		}
		h.c.Obs("wb_admitted", 1)
	case vfRejected:
		what = "rejected"
		h.log = append(h.log, fmt.Sprintf("%s -> rejected [A=%d N=%d]", desc, p.A, p.N))
		h.rej++
		h.c.Obs("wb_rejected", 1)
		if !p.legal {
			h.c.Viol("C01/illegal-reject/"+vfIllegalKey(p.N),
				fmt.Sprintf("call rejected although the window holds accepted=%d, non-accepted=%d: %d does not exceed 5 + 10%% of %d", p.A, p.N, p.N, p.A),
				vfWitness(h, fmt.Sprintf("accepted=%d nonaccepted=%d at the rejected (last) call", p.A, p.N)))
		} else if !p.throttling || p.zeroRatio {
			// legal by the statement but impossible under the mirrored mechanism: the mirror is stale
			h.drift = true
		}
		if p.must {
			h.c.Viol("C01/must-admit-rejected/sequential",
				fmt.Sprintf("call rejected %v after the latest admission that can have been throttled (a throttled admission exists)", t-h.m.lastPoss),
				vfWitness(h, fmt.Sprintf("since_last_throttled_admission=%v", t-h.m.lastPoss)))
		} else if p.mustExact && h.m.mlpOK {
			h.c.Viol("C01/must-admit-rejected/exact-lastpass",
				fmt.Sprintf("call rejected while throttling although the previous throttled admission (lastPass) was %v ago", t-h.m.mlp),
				vfWitness(h, fmt.Sprintf("lastPass=%v now=%v", lp0, t)))
		}
		vfMark(h.m, 2, r.tDecide)
	case vfNothing:
		what = "done-ctx"
		h.log = append(h.log, desc+" -> context error, nothing ran")
		h.c.Obs("wb_done_ctx_short_circuit", 1)
	}
	if v != vfBroken {
		if vfCompare(h, h.vc.Now(), what, cl) {
			h.c.Obs("wb_vector_comparisons_equal", 1)
		}
	}
	h.sigH = append(h.sigH, cl.E, cl.Ctx, cl.Out, int64(cl.Gap), int64(cl.Lat), cl.Abandon, int(v))
	return v
}

func vfFinish(h *vfHist) {
	h.c.Obs("wb_histories", 1)
	if h.legal > 0 {
		h.c.Obs("wb_histories_reaching_legal_rejection", 1)
	}
	if h.drift {
		h.c.Obs("wb_mechanism_drift", 1)
		h.c.Inconclusive("white-box mirror of accept()/lastPass disagrees with the implementation (mechanism changed?); the exact must-admit rule was not applied to this history, statement-level rules still were")
	}
	h.c.Sig(h.legal > 0, append([]any{"wb", h.kind}, h.sigH...)...)
	if h.legal > 0 && h.rej > 0 {
		n := len(h.log)
		if n > 60 {
			n = 60
		}
		h.c.Sample("whitebox-"+h.kind, 1, map[string]any{"calls": h.calls, "rejections": h.rej, "calls_in_legal_state": h.legal,
			"must_admit": h.must, "first_calls": h.log[:n]})
	}
}

var vfGapSet = []time.Duration{0, 1, vfBucketDur - 1, vfBucketDur, vfBucketDur + 1, time.Second, time.Second + 1,
	2500 * time.Millisecond, 10*time.Second - 1, 10 * time.Second, 10*time.Second + 1, 25 * time.Second}

type vfGen struct {
	r        *kit.Rand
	pFail    float64
	pPanic   float64
	pAccErr  float64
	gapMode  int
	steady   time.Duration
	entMode  int
	pCtx     float64
	pDone    float64
	pLat     float64
	pAbandon float64
}

func vfNewGen(r *kit.Rand) *vfGen {
	g := &vfGen{r: r}
	g.pFail = kit.Choose(r, []float64{0, 0.05, 0.1, 0.3, 0.5, 0.7, 0.9, 0.95, 1})
	g.pPanic = kit.Choose(r, []float64{0, 0.1, 0.5})
	g.pAccErr = kit.Choose(r, []float64{0, 0.2, 0.6})
	g.gapMode = r.Pick(30, 25, 25, 8, 12)
	g.steady = time.Duration(r.Range(1, 120)) * time.Millisecond
	if r.Chance(0.6) {
		g.entMode = 0
	} else {
		g.entMode = 1 + r.Intn(5)
	}
	g.pCtx = kit.Choose(r, []float64{0, 0.3, 1})
	g.pDone = kit.Choose(r, []float64{0, 0, 0.05, 0.2})
	g.pLat = kit.Choose(r, []float64{0, 0.1, 0.5})
	g.pAbandon = kit.Choose(r, []float64{0, 0.05, 0.3})
	return g
}

func vfGap(g *vfGen) time.Duration {
	r := g.r
	mode := g.gapMode
	if mode == 4 {
		mode = r.Intn(4)
	}
	switch mode {
	case 0:
		return kit.Choose(r, []time.Duration{0, 0, 0, 1, 1000, time.Millisecond})
	case 1:
		return g.steady
	case 2:
		return vfGapSet[r.Pick(10, 6, 12, 12, 12, 10, 10, 8, 6, 6, 6, 2)]
	}
	return kit.Choose(r, []time.Duration{time.Second - 1, time.Second, time.Second + 1, 1100 * time.Millisecond, 2500 * time.Millisecond, 5 * time.Second})
}

func vfNext(g *vfGen) *vfCall {
	r := g.r
	cl := &vfCall{Gap: vfGap(g)}
	if g.entMode == 0 {
		cl.E = vfEntry(r.Pick(25, 20, 20, 20, 15))
	} else {
		cl.E = vfEntry(g.entMode - 1)
	}
	if r.Chance(g.pCtx) {
		cl.Ctx = vfCLive
		if r.Chance(g.pDone) {
			cl.Ctx = vfCCancelled
			if r.Bool() {
				cl.Ctx = vfCExpired
			}
		}
	}
	if r.Chance(g.pFail) {
		cl.Out = vfUnacc
		if r.Chance(g.pPanic) {
			cl.Out = vfPanic
		} else if r.Chance(0.1) {
			cl.Out = vfNilUnacc
		}
	} else {
		cl.Out = vfOK
		if r.Chance(g.pAccErr) {
			cl.Out = vfAcc
		}
	}
	if r.Chance(g.pLat) {
		cl.Lat = kit.Choose(r, []time.Duration{1, vfBucketDur - 1, vfBucketDur, 300 * time.Millisecond, time.Second + 1, 3 * time.Second, 10 * time.Second})
	}
	cl.FbRet = r.Intn(3)
	if r.Chance(0.1) {
		cl.FbLat = kit.Choose(r, []time.Duration{vfBucketDur, 2 * time.Second})
	}
	if cl.E == vfEAllow {
		cl.Abandon = r.Chance(g.pAbandon)
	}
	return cl
}

func vfPump(h *vfHist, g *vfGen, times15 bool) *vfCall {
	cl := vfNext(g)
	cl.Ctx = kit.Choose(g.r, []vfCtxMode{vfCNone, vfCLive})
	cl.Abandon = false
	cl.Lat, cl.FbLat = 0, 0
	p := vfPreOf(h.m, h.gb, h.vc.Now()+cl.Gap)
	above := p.legal
	if times15 {
		above = p.sure
	}
	if above {
		cl.Out = vfOK
	} else {
		cl.Out = vfUnacc
	}
	return cl
}

func vfRunRandom(c *kit.Case, vc *kit.VClock) {
	r := c.R
	h := vfNewHist(c, vc, "random")
	if h.gb == nil {
		c.Inconclusive("NewBreaker no longer wraps a googleBreaker the way the white-box test expects")
		return
	}
	L := 0
	switch r.Pick(35, 40, 25) {
	case 0:
		L = r.Range(1, 30)
	case 1:
		L = r.Range(30, 120)
	default:
		L = r.Range(120, 400)
	}
	phases := r.Range(1, 4)
	g := vfNewGen(r)
	pumpMode := r.Pick(70, 20, 10)
	for i := 0; i < L && !c.Violated(); i++ {
		if phases > 1 && i > 0 && i%(L/phases+1) == 0 {
			g = vfNewGen(r)
			pumpMode = r.Pick(60, 25, 15)
		}
		var cl *vfCall
		if pumpMode != 0 && r.Chance(0.85) {
			cl = vfPump(h, g, pumpMode == 2)
		} else {
			cl = vfNext(g)
		}
		if h.m.mlp > 0 && r.Chance(0.08) {
			target := h.m.mlp + vfForcePass + kit.Choose(r, []time.Duration{-1, 0, 1, time.Millisecond})
			if d := target - vc.Now(); d >= 0 {
				cl.Gap = d
			}
		} else if r.Chance(0.05) {
			el := vc.Now() - h.m.t0
			cl.Gap = vfBucketDur - el%vfBucketDur + kit.Choose(r, []time.Duration{-1, 0, 1})
		}
		vfStep(h, cl)
	}
	vfFinish(h)
}

// vfRunWeightFloor: all accepted calls in the oldest bucket of the window, then f buckets
// holding only failures (smallest weight of the anchored mechanism), accepted count placed
// on the statement's 5 + 10% boundary, then probes.
func vfRunWeightFloor(c *kit.Case, vc *kit.VClock) {
	r := c.R
	h := vfNewHist(c, vc, "weight-floor")
	if h.gb == nil {
		c.Inconclusive("NewBreaker no longer wraps a googleBreaker the way the white-box test expects")
		return
	}
	f := r.Range(6, 39)
	if r.Chance(0.5) {
		f = r.Range(30, 39)
	}
	per := make([]int, f)
	n := 0
	for i := range per {
		per[i] = 1
		if r.Chance(0.15) {
			per[i] = r.Range(2, 3)
		}
		n += per[i]
	}
	a := 10*(n-5) + kit.Choose(r, []int{-11, -3, -1, 0, 0, 1, 1, 5, 40})
	okEntry := func() *vfCall {
		cl := &vfCall{E: vfEntry(r.Intn(5)), Out: vfOK, FbRet: r.Intn(3)}
		if r.Chance(0.2) && cl.E != vfEDo && cl.E != vfEDoFb {
			cl.Out = vfAcc
		}
		return cl
	}
	for i := 0; i < a && !c.Violated(); i++ {
		vfStep(h, okEntry())
	}
	for i := 0; i < f && !c.Violated(); i++ {
		gap := vfBucketDur
		for j := 0; j < per[i] && !c.Violated(); j++ {
			vfStep(h, &vfCall{Gap: gap, E: vfEntry(r.Intn(5)), Out: kit.Choose(r, []vfOutcome{vfUnacc, vfUnacc, vfPanic}), FbRet: r.Intn(3)})
			gap = 0
		}
	}
	probes := r.Range(1, 6)
	for i := 0; i < probes && !c.Violated(); i++ {
		cl := okEntry()
		if r.Chance(0.3) {
			cl.Out = vfUnacc
		}
		cl.Gap = kit.Choose(r, []time.Duration{0, 0, 1, time.Millisecond})
		vfStep(h, cl)
	}
	c.Obs("wb_weight_floor_histories", 1)
	vfFinish(h)
}

var vfExhGaps = []time.Duration{0, vfBucketDur, 39 * vfBucketDur}
var vfExhOuts = []vfOutcome{vfOK, vfUnacc, vfAcc, vfPanic}

func vfRunExhaustive(c *kit.Case, vc *kit.VClock, preload, fam, L, idx int) {
	h := vfNewHist(c, vc, fmt.Sprintf("exhaustive-pre%d-fam%d-L%d", preload, fam, L))
	if h.gb == nil {
		c.Inconclusive("NewBreaker no longer wraps a googleBreaker the way the white-box test expects")
		return
	}
	for i := 0; i < preload; i++ {
		vfStep(h, &vfCall{E: vfEDo, Out: vfUnacc})
	}
	syms := make([]int, L)
	x := idx
	for i := L - 1; i >= 0; i-- {
		syms[i] = x % 12
		x /= 12
	}
	for _, s := range syms {
		if c.Violated() {
			break
		}
		cl := &vfCall{Gap: vfExhGaps[s%3], Out: vfExhOuts[s/3], FbRet: 2}
		switch fam {
		case 0:
			cl.E = vfEDoAcc
		case 1:
			cl.E, cl.Ctx = vfEDoFbAcc, vfCLive
		default:
			cl.E = vfEAllow
		}
		vfStep(h, cl)
	}
	vfFinish(h)
}

// ------------------------------------------------------------------ concurrent

type vfRec struct {
	g          int
	cl         *vfCall
	inv, ret   uint64
	tInv, tRet time.Duration
	v          vfVerdict
	kind       int
}

type vfConc struct {
	c    *kit.Case
	vc   *kit.VClock
	b    Breaker
	gb   *googleBreaker
	recs []vfRec
	desc map[string]any
}

func vfKindOf(cl *vfCall, v vfVerdict) int {
	switch v {
	case vfAdmitted:
		if cl.E == vfEAllow && cl.Abandon {
			return -1
		}
		if vfSuccess(cl) {
			return 0
		}
		return 1
	case vfRejected:
		return 2
	}
	return -1
}

func vfBurst(cr *vfConc, G, n int, g0 *vfGen, advancing bool, budget time.Duration) bool {
	c := cr.c
	type wres struct {
		recs  []vfRec
		viols []func()
	}
	out := make([]wres, G)
	gens := make([]*vfGen, G)
	for i := range gens {
		gg := *g0
		gg.r = kit.NewRand(c.R.Uint64())
		gens[i] = &gg
	}
	var start, adv, workers sync.WaitGroup
	start.Add(1)
	var stop atomic.Bool
	if advancing {
		steps := make([]time.Duration, 64)
		for i := range steps {
			steps[i] = kit.Choose(c.R, []time.Duration{time.Microsecond, time.Millisecond, 10 * time.Millisecond, vfBucketDur / 2, vfBucketDur})
		}
		adv.Add(1)
		go func() {
			defer adv.Done()
			start.Wait()
			spent := time.Duration(0)
			for i := 0; !stop.Load(); i++ {
				s := steps[i%len(steps)]
				if spent+s <= budget {
					cr.vc.Advance(s)
					spent += s
				}
				for k := 0; k < 20; k++ {
					runtime.Gosched()
				}
			}
		}()
	}
	for w := 0; w < G; w++ {
		workers.Add(1)
		go func(w int) {
			defer workers.Done()
			gn := gens[w]
			start.Wait()
			for i := 0; i < n; i++ {
				cl := vfNext(gn)
				cl.Gap, cl.FbLat = 0, 0
				rc := vfRec{g: w, cl: cl}
				rc.tInv = cr.vc.Now()
				rc.inv = kit.Stamp()
				r := vfDoCall(cr.b, cl, cr.vc.Now, func(d time.Duration) {
					if d > 0 {
						for k := 0; k < 3; k++ {
							runtime.Gosched()
						}
					}
				})
				rc.ret = kit.Stamp()
				rc.tRet = cr.vc.Now()
				desc := vfDesc(cl)
				rc.v = vfClassify(cl, &r, func(kind, what string) {
					out[w].viols = append(out[w].viols, func() {
						c.Viol("C01/exactly-once/"+vfFamily(cl)+"/"+kind, what+" (concurrent)", map[string]any{"call": desc, "setup": cr.desc})
					})
				})
				rc.kind = vfKindOf(cl, rc.v)
				out[w].recs = append(out[w].recs, rc)
			}
		}(w)
	}
	done := make(chan struct{})
	go func() { workers.Wait(); close(done) }()
	start.Done()
	ok := true
	select {
	case <-done:
	case <-time.After(120 * time.Second):
		ok = false
	}
	stop.Store(true)
	if !ok {
		c.Inconclusive("concurrent burst did not finish within the 120 s watchdog (machine overloaded?)")
		return false
	}
	adv.Wait()
	for w := range out {
		cr.recs = append(cr.recs, out[w].recs...)
		for _, f := range out[w].viols {
			f()
		}
	}
	return true
}

func vfProbe(cr *vfConc, cl *vfCall) {
	rc := vfRec{g: -1, cl: cl}
	rc.tInv = cr.vc.Now()
	rc.inv = kit.Stamp()
	r := vfDoCall(cr.b, cl, cr.vc.Now, func(time.Duration) {})
	rc.ret = kit.Stamp()
	rc.tRet = cr.vc.Now()
	desc := vfDesc(cl)
	rc.v = vfClassify(cl, &r, func(kind, what string) {
		cr.c.Viol("C01/exactly-once/"+vfFamily(cl)+"/"+kind, what+" (probe at quiescence)", map[string]any{"call": desc, "setup": cr.desc})
	})
	rc.kind = vfKindOf(cl, rc.v)
	cr.recs = append(cr.recs, rc)
}

// vfConserve checks at quiescence that every call left exactly its one mark.
func vfConserve(cr *vfConc, phase int) {
	var want [3]int64
	for _, rc := range cr.recs {
		if rc.kind >= 0 {
			want[rc.kind]++
		}
	}
	v := vfVector(cr.gb)
	var got [3]int64
	var sum int64
	for _, b := range v {
		got[0] += b.Success
		got[1] += b.Failure
		got[2] += b.Drop
		sum += b.Sum
	}
	cr.c.Obs("wb_conservation_checks", 1)
	if got != want || sum != want[0]+want[1]+want[2] {
		kind := "lost-marks"
		if sum > want[0]+want[1]+want[2] {
			kind = "extra-marks"
		} else if sum == want[0]+want[1]+want[2] {
			kind = "wrong-kind"
		}
		cr.c.Viol("C01/conservation/"+kind,
			fmt.Sprintf("at quiescence after phase %d the buckets hold success/failure/drop=%d/%d/%d (Sum %d); the %d calls made so far must have left %d/%d/%d",
				phase, got[0], got[1], got[2], sum, len(cr.recs), want[0], want[1], want[2]),
			vfConcWitness(cr, len(cr.recs)-1))
	}
}

func vfCountLess(sorted []uint64, x uint64) int64 {
	return int64(sort.Search(len(sorted), func(i int) bool { return sorted[i] >= x }))
}

func vfCheck(cr *vfConc) (rejections, legalStates, mustAdmit int64) {
	recs := cr.recs
	var nInv, nRet, aInv, aRet []uint64
	for i := range recs {
		switch recs[i].kind {
		case 1, 2:
			nInv = append(nInv, recs[i].inv)
			nRet = append(nRet, recs[i].ret)
		case 0:
			aInv = append(aInv, recs[i].inv)
			aRet = append(aRet, recs[i].ret)
		}
	}
	for _, s := range [][]uint64{nInv, nRet, aInv, aRet} {
		sort.Slice(s, func(i, j int) bool { return s[i] < s[j] })
	}
	type bnd struct{ nMax, nMin, aMax, aMin int64 }
	bs := make([]bnd, len(recs))
	for i := range recs {
		rc := &recs[i]
		b := bnd{nMax: vfCountLess(nInv, rc.ret), nMin: vfCountLess(nRet, rc.inv),
			aMax: vfCountLess(aInv, rc.ret), aMin: vfCountLess(aRet, rc.inv)}
		if rc.kind == 1 || rc.kind == 2 {
			b.nMax--
		}
		if rc.kind == 0 {
			b.aMax--
		}
		bs[i] = b
	}
	type adm struct {
		inv  uint64
		tRet time.Duration
	}
	var poss []adm
	minSureRet := ^uint64(0)
	for i := range recs {
		if recs[i].v != vfAdmitted {
			continue
		}
		b := bs[i]
		if 2*b.nMin-10 > b.aMax && recs[i].ret < minSureRet {
			minSureRet = recs[i].ret
		}
		if 10*b.nMax-50 > b.aMin {
			poss = append(poss, adm{recs[i].inv, recs[i].tRet})
		}
	}
	sort.Slice(poss, func(i, j int) bool { return poss[i].inv < poss[j].inv })
	for i := range recs {
		rc := &recs[i]
		b := bs[i]
		if rc.v != vfAdmitted && rc.v != vfRejected {
			continue
		}
		legal := 10*b.nMax > 50+b.aMin
		if legal {
			legalStates++
		}
		must := false
		if minSureRet < rc.inv {
			latest := time.Duration(-1 << 62)
			for j := 0; j < len(poss) && poss[j].inv < rc.ret; j++ {
				if poss[j].inv != rc.inv && poss[j].tRet > latest {
					latest = poss[j].tRet
				}
			}
			must = rc.tInv-latest > vfForcePass
		}
		if must {
			mustAdmit++
		}
		if rc.v != vfRejected {
			continue
		}
		rejections++
		if !legal {
			cr.c.Viol("C01/illegal-reject/"+vfIllegalKey(b.nMax),
				fmt.Sprintf("concurrent: call rejected although at most %d non-accepted calls had been invoked before it returned and at least %d accepted calls had returned before it was invoked", b.nMax, b.aMin),
				vfConcWitness(cr, i))
		}
		if must {
			cr.c.Viol("C01/must-admit-rejected/concurrent",
				"concurrent: call rejected although a surely-throttled admission had returned before it and every admission that can have been throttled lies more than 1 s (virtual) before its invocation",
				vfConcWitness(cr, i))
		}
	}
	return
}

func vfConcWitness(cr *vfConc, i int) map[string]any {
	recs := append([]vfRec(nil), cr.recs...)
	sort.Slice(recs, func(a, b int) bool { return recs[a].inv < recs[b].inv })
	var lines []string
	for _, rc := range recs {
		if rc.inv > cr.recs[i].ret {
			break
		}
		mark := []string{"none", "accepted", "failure", "rejection"}[rc.kind+1]
		lines = append(lines, fmt.Sprintf("g%d inv=%d ret=%d t=[%v,%v] %s -> %s", rc.g, rc.inv, rc.ret, rc.tInv, rc.tRet, vfDesc(rc.cl), mark))
	}
	if len(lines) > 600 {
		lines = lines[len(lines)-600:]
	}
	f := cr.recs[i]
	return map[string]any{"setup": cr.desc, "last_call": fmt.Sprintf("g%d inv=%d ret=%d %s", f.g, f.inv, f.ret, vfDesc(f.cl)),
		"calls invoked before that call returned (logical stamps)": lines}
}

func vfRunConcurrent(c *kit.Case, vc *kit.VClock) {
	r := c.R
	vc.Set(kit.VClockStart + time.Duration(r.Int63n(int64(3*time.Second))))
	cr := &vfConc{c: c, vc: vc}
	G := kit.Choose(r, []int{2, 2, 3, 4, 4, 8, 8, 16, 32})
	n := r.Range(5, 60)
	if G >= 16 {
		n = r.Range(5, 25)
	}
	advancing := r.Bool()
	phases := r.Range(1, 3)
	cr.desc = map[string]any{"goroutines": G, "calls_per_goroutine_per_phase": n,
		"clock": map[bool]string{false: "frozen", true: "advanced by a separate goroutine"}[advancing], "phases": phases}
	cr.b = NewBreaker(WithName(fmt.Sprintf("verif-c01w-%s-%d", c.ID, vfNameSeq.Add(1))))
	cr.gb = vfUnwrap(cr.b)
	if cr.gb == nil {
		c.Inconclusive("NewBreaker no longer wraps a googleBreaker the way the white-box test expects")
		return
	}
	for ph := 0; ph < phases && !c.Violated(); ph++ {
		g := vfNewGen(r)
		if ph == 0 || r.Chance(0.6) {
			g.pFail = kit.Choose(r, []float64{0.5, 0.8, 0.95, 1})
		}
		if !vfBurst(cr, G, n, g, advancing, 1500*time.Millisecond) {
			return
		}
		vfConserve(cr, ph)
		vfProbe(cr, &vfCall{E: vfEDo, Out: vfUnacc})
		vc.Advance(vfForcePass + kit.Choose(r, []time.Duration{1, time.Millisecond}))
		vfProbe(cr, &vfCall{E: vfEntry(r.Intn(5)), Out: vfUnacc, FbRet: r.Intn(3)})
		vfConserve(cr, ph)
	}
	rej, legal, must := vfCheck(cr)
	c.Obs("wb_concurrent_runs", 1)
	c.Obs("wb_concurrent_calls", int64(len(cr.recs)))
	c.Obs("wb_concurrent_rejections", rej)
	c.Obs("wb_concurrent_must_admit_situations", must)
	type ev struct {
		s uint64
		g int
		k byte
	}
	evs := make([]ev, 0, 2*len(cr.recs))
	for _, rc := range cr.recs {
		evs = append(evs, ev{rc.inv, rc.g, 'i'}, ev{rc.ret, rc.g, byte('0' + rc.v)})
	}
	sort.Slice(evs, func(i, j int) bool { return evs[i].s < evs[j].s })
	var sb strings.Builder
	for _, e := range evs {
		fmt.Fprintf(&sb, "%d%c", e.g, e.k)
	}
	c.Sig(legal > 0, "wb-concurrent", G, n, advancing, sb.String())
	if rej > 0 {
		c.Sample("whitebox-concurrent", 1, map[string]any{"setup": cr.desc, "calls": len(cr.recs), "rejections": rej, "must_admit": must})
	}
}

// ------------------------------------------------------------------ test

func TestVerifC01W(t *testing.T) {
	logx.Disable()
	vc := kit.InstallVClock()
	defer kit.UninstallVClock()

	kit.Run(t, "C01", "wb-random", kit.N(800, 15000), func(c *kit.Case) {
		for i := 0; i < 10 && !c.Violated(); i++ {
			vfRunRandom(c, vc)
			c.Evals(1)
		}
	})

	type vfExh struct{ preload, L int }
	exhs := []vfExh{{0, 4}, {7, 4}, {5, 3}}
	if kit.Thorough() {
		exhs = []vfExh{{0, 5}, {5, 5}, {7, 5}}
	}
	const batch = 500
	for _, e := range exhs {
		preload, L := e.preload, e.L
		total := 1
		for i := 0; i < L; i++ {
			total *= 12
		}
		for fam := 0; fam < 3; fam++ {
			famName := fmt.Sprintf("wb-exh-pre%d-fam%d-L%d", preload, fam, L)
			kit.Run(t, "C01", famName, (total+batch-1)/batch, func(c *kit.Case) {
				lo, hi := c.Index*batch, (c.Index+1)*batch
				if hi > total {
					hi = total
				}
				for idx := lo; idx < hi && !c.Violated(); idx++ {
					vfRunExhaustive(c, vc, preload, fam, L, idx)
					c.Evals(1)
				}
				if c.Index == 0 {
					c.Sample("whitebox-exhaustive", 1, map[string]any{"family": famName, "preload_failing_calls": preload, "alphabet": 12, "length": L, "histories": total})
				}
			})
		}
	}

	kit.Run(t, "C01", "wb-weight-floor", kit.N(300, 4000), func(c *kit.Case) { vfRunWeightFloor(c, vc) })

	kit.Run(t, "C01", "wb-concurrent", kit.N(600, 6000), func(c *kit.Case) { vfRunConcurrent(c, vc) })

	kit.End()
}
