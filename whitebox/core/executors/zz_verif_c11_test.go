package executors

// White-box part of the C11 check (DESIGN.md §4 C11): the unexported newTicker is
// replaced by a scripted ticker, so every tick of the flush timer is placed
// exactly, and the harness knows when the background flusher has finished
// processing it (the flusher asks the ticker for its channel again, or stops it).
//
//	script      one client, sequential Add/Flush/Wait/Tick/idle-jump scripts checked
//	            after every step against necessary conditions of the statement
//	concurrent  2-4 producers against a tick driver; offline exactly-once and
//	            Wait-barrier oracle over logical stamps (as in the black-box part)
//
// Mapped into core/executors with `go test -overlay`; nothing is written to /repo.

import (
	"bytes"
	"fmt"
	"hash/fnv"
	"runtime"
	"runtime/pprof"
	"sort"
	"strconv"
	"strings"
	"sync"
	"sync/atomic"
	"testing"
	"time"

	kit "github.com/zeromicro/go-zero/internal/verifkit"

	"github.com/zeromicro/go-zero/core/logx"
	"github.com/zeromicro/go-zero/core/timex"
)

const (
	vfIdleJump = 20 * time.Millisecond
	vfWatchdog = 40 * time.Second
)

// ---------------------------------------------------------------- scripted ticker

type vfTicker struct {
	mu      sync.Mutex
	iter    int
	ch      chan time.Time
	changed chan struct{} // closed when the flusher asks for the channel again
	stopped chan struct{}
	once    sync.Once
}

func vfNewTicker() *vfTicker {
	return &vfTicker{ch: make(chan time.Time), changed: make(chan struct{}), stopped: make(chan struct{})}
}

// Chan is evaluated by the flusher every time it enters its select: a fresh
// channel per iteration tells the harness which iteration took a tick.
func (t *vfTicker) Chan() <-chan time.Time {
	t.mu.Lock()
	defer t.mu.Unlock()
	t.iter++
	t.ch = make(chan time.Time)
	close(t.changed)
	t.changed = make(chan struct{})
	return t.ch
}

func (t *vfTicker) Stop() { t.once.Do(func() { close(t.stopped) }) }

func (t *vfTicker) curIter() int {
	t.mu.Lock()
	defer t.mu.Unlock()
	return t.iter
}

func (t *vfTicker) isStopped() bool {
	select {
	case <-t.stopped:
		return true
	default:
		return false
	}
}

// tick delivers one tick and returns after the flusher has processed it:
// "processed" (back in its select), "quit" (it stopped the ticker), "gone" (was
// already stopped), or "timeout".
func (t *vfTicker) tick() string {
	deadline := time.NewTimer(vfWatchdog)
	defer deadline.Stop()
	for {
		t.mu.Lock()
		ch, changed := t.ch, t.changed
		t.mu.Unlock()
		select {
		case <-t.stopped:
			return "gone"
		default:
		}
		select {
		case ch <- time.Now():
			select {
			case <-changed:
				return "processed"
			case <-t.stopped:
				return "quit"
			case <-deadline.C:
				return "timeout"
			}
		case <-changed: // the flusher moved on to another iteration, aim again
		case <-t.stopped:
			return "gone"
		case <-deadline.C:
			return "timeout"
		}
	}
}

// ---------------------------------------------------------------- container and recording

type vfTask struct {
	id  int
	via string
}

type vfExec struct {
	Enter, Exit uint64
	IDs         []int
	Via         string
	Panicked    bool
}

type vfEnv struct {
	pe      *PeriodicalExecutor
	mu      sync.Mutex
	tickers []*vfTicker
	execs   []*vfExec
	done    atomic.Int64
	poison  map[int]bool
	shape   func(b []*vfTask)
	// container state: touched only from AddTask/RemoveAll, i.e. under pe.lock
	thr   int
	tasks []*vfTask
	hit   bool
}

func (e *vfEnv) AddTask(v any) bool {
	e.tasks = append(e.tasks, v.(*vfTask))
	e.hit = len(e.tasks) >= e.thr
	return e.hit
}

func (e *vfEnv) RemoveAll() any {
	via := ""
	if e.hit {
		via = "threshold-add"
		e.hit = false
	} else {
		via = vfCallerClass()
	}
	b := e.tasks
	e.tasks = nil
	for _, t := range b {
		t.via = via
	}
	return b
}

func (e *vfEnv) Execute(v any) {
	b := v.([]*vfTask)
	r := &vfExec{}
	for _, t := range b {
		r.IDs = append(r.IDs, t.id)
	}
	if len(b) > 0 {
		r.Via = b[0].via
	}
	r.Enter = kit.Stamp()
	e.mu.Lock()
	e.execs = append(e.execs, r)
	e.mu.Unlock()
	defer func() {
		p := recover()
		s := kit.Stamp()
		e.mu.Lock()
		r.Exit = s
		r.Panicked = p != nil
		e.mu.Unlock()
		e.done.Add(int64(len(b)))
		if p != nil {
			panic(p)
		}
	}()
	if e.shape != nil && len(b) > 0 {
		e.shape(b)
	}
	for _, t := range b {
		if e.poison[t.id] {
			panic(fmt.Sprintf("verif: poisoned task t%d", t.id))
		}
	}
}

func vfCallerClass() string {
	var pcs [16]uintptr
	n := runtime.Callers(3, pcs[:])
	fr := runtime.CallersFrames(pcs[:n])
	cls := "unknown"
	for {
		f, more := fr.Next()
		switch {
		case strings.HasSuffix(f.Function, "(*PeriodicalExecutor).Wait"):
			return "wait-flush"
		case strings.Contains(f.Function, "(*PeriodicalExecutor).backgroundFlush"):
			return "background-flush"
		case strings.HasSuffix(f.Function, "(*PeriodicalExecutor).Flush"):
			cls = "explicit-flush"
		}
		if !more {
			break
		}
	}
	return cls
}

func vfNewEnv(thr int, poison map[int]bool) *vfEnv {
	e := &vfEnv{thr: thr, poison: poison}
	e.pe = NewPeriodicalExecutor(time.Millisecond, e)
	e.pe.newTicker = func(time.Duration) timex.Ticker {
		t := vfNewTicker()
		e.mu.Lock()
		e.tickers = append(e.tickers, t)
		e.mu.Unlock()
		return t
	}
	return e
}

func (e *vfEnv) tickerCount() int {
	e.mu.Lock()
	defer e.mu.Unlock()
	return len(e.tickers)
}

// liveTicker returns the most recent ticker if it has not been stopped.
func (e *vfEnv) liveTicker() *vfTicker {
	e.mu.Lock()
	defer e.mu.Unlock()
	if n := len(e.tickers); n > 0 && !e.tickers[n-1].isStopped() {
		return e.tickers[n-1]
	}
	return nil
}

func (e *vfEnv) snapshot() []vfExec {
	e.mu.Lock()
	defer e.mu.Unlock()
	out := make([]vfExec, len(e.execs))
	for i, r := range e.execs {
		out[i] = *r
	}
	return out
}

func (e *vfEnv) pendingIDs() (ids []int) {
	e.pe.Sync(func() {
		for _, t := range e.tasks {
			ids = append(ids, t.id)
		}
	})
	return
}

func (e *vfEnv) execLines() []string {
	var xs []string
	for _, x := range e.snapshot() {
		xs = append(xs, fmt.Sprintf("execute enter=%d exit=%d via=%s panicked=%v tasks=%v", x.Enter, x.Exit, x.Via, x.Panicked, x.IDs))
	}
	return xs
}

// ---------------------------------------------------------------- helpers

func vfWaitUntil(cond func() bool, max time.Duration) bool {
	start := time.Now()
	for i := 0; ; i++ {
		if cond() {
			return true
		}
		switch {
		case i < 50:
			runtime.Gosched()
		case i < 2000:
			time.Sleep(50 * time.Microsecond)
		default:
			time.Sleep(time.Millisecond)
		}
		if i&15 == 15 && time.Since(start) > max {
			return cond()
		}
	}
}

func vfWaitChan(ch <-chan struct{}, max time.Duration) bool {
	t := time.NewTimer(max)
	defer t.Stop()
	select {
	case <-ch:
		return true
	case <-t.C:
		return false
	}
}

func vfAsync(fn func()) <-chan struct{} {
	ch := make(chan struct{})
	go func() {
		defer close(ch)
		fn()
	}()
	return ch
}

// vfLabelled counts the goroutines carrying this case's pprof label (except the caller).
func vfLabelled(id string) int {
	var buf bytes.Buffer
	p := pprof.Lookup("goroutine")
	if p == nil || p.WriteTo(&buf, 1) != nil {
		return -1
	}
	want := `"verif_case":"` + id + `"`
	n := 0
	for _, blk := range strings.Split(buf.String(), "\n\n") {
		if !strings.Contains(blk, want) || strings.Contains(blk, "vfLabelled") {
			continue
		}
		k := 1
		if i := strings.Index(blk, " @"); i > 0 {
			if v, err := strconv.Atoi(strings.TrimSpace(blk[:i])); err == nil {
				k = v
			}
		}
		n += k
	}
	return n
}

// vfStacks returns the symbolic stacks of the labelled goroutines that are inside go-zero code.
func vfStacks(id string) []string {
	var buf bytes.Buffer
	p := pprof.Lookup("goroutine")
	if p == nil || p.WriteTo(&buf, 1) != nil {
		return nil
	}
	want := `"verif_case":"` + id + `"`
	var res []string
	for _, blk := range strings.Split(buf.String(), "\n\n") {
		if !strings.Contains(blk, want) || strings.Contains(blk, "vfStacks") {
			continue
		}
		var sb strings.Builder
		if i := strings.Index(blk, " @"); i > 0 {
			sb.WriteString(strings.TrimSpace(blk[:i]) + "x\n")
		}
		for _, ln := range strings.Split(blk, "\n") {
			if f := strings.Fields(ln); strings.HasPrefix(ln, "#") && len(f) >= 3 && !strings.HasPrefix(f[1], "labels") {
				name := f[2]
				if i := strings.Index(name, "+0x"); i >= 0 {
					name = name[:i]
				}
				sb.WriteString(name + "\n")
			}
		}
		if strings.Contains(sb.String(), "(*PeriodicalExecutor)") {
			res = append(res, sb.String())
		}
	}
	sort.Strings(res)
	return res
}

// vfDeadlocked: in three dumps a second apart the goroutines of the case that are
// inside the executor are identical, at least one is parked in Add/Wait/Flush, no
// background flusher exists and no Execute callback is running. Decided by state.
func vfDeadlocked(id string, e *vfEnv) []string {
	prev := ""
	var calls []string
	for d := 0; d < 3; d++ {
		if d > 0 {
			time.Sleep(time.Second)
		}
		for _, x := range e.snapshot() {
			if x.Exit == 0 {
				return nil
			}
		}
		st := vfStacks(id)
		calls = nil
		for _, g := range st {
			if strings.Contains(g, "backgroundFlush") {
				return nil
			}
			for _, api := range []string{"Add", "Wait", "Flush"} {
				if strings.Contains(g, "(*PeriodicalExecutor)."+api+"\n") {
					calls = append(calls, api+"\n"+g)
				}
			}
		}
		fp := strings.Join(st, "|")
		if len(calls) == 0 || (d > 0 && fp != prev) {
			return nil
		}
		prev = fp
	}
	return calls
}

// vfCall runs one API call of the sequential client under the watchdog; a call that
// provably can never return (vfDeadlocked) is a violation, the watchdog alone is not.
func vfCall(c *kit.Case, e *vfEnv, wit func() map[string]any, fn func()) bool {
	ch := vfAsync(fn)
	if vfWaitChan(ch, 3*time.Second) {
		return true
	}
	for start := time.Now(); time.Since(start) < vfWatchdog; {
		if calls := vfDeadlocked(c.ID, e); len(calls) > 0 {
			api := calls[0][:strings.Index(calls[0], "\n")]
			w := wit()
			w["parked"] = calls
			c.Viol("C11/stuck/"+api+"/no-flusher-alive",
				api+" can never return: parked with a stable stack, no background flusher goroutine exists, no callback is running", w)
			return false
		}
		if vfWaitChan(ch, 2*time.Second) {
			return true
		}
	}
	c.Inconclusive("script: API call did not return")
	return false
}

func vfGone(id string) bool {
	return vfWaitUntil(func() bool { return vfLabelled(id) == 0 }, vfWatchdog)
}

// vfRetire makes the flusher go idle and ticks until it has quit and its
// goroutine is gone. Quitting is not part of the statement: failing to get
// there is inconclusive, never a violation.
func vfRetire(c *kit.Case, e *vfEnv, vc *kit.VClock) bool {
	for i := 0; i < 8; i++ {
		t := e.liveTicker()
		if t == nil {
			if vfLabelled(c.ID) == 0 {
				return true
			}
			// a flusher was started but has not created its ticker yet, or is in its final flush
			vfWaitUntil(func() bool { return e.liveTicker() != nil || vfLabelled(c.ID) == 0 }, vfWatchdog)
			continue
		}
		vc.Advance(vfIdleJump)
		if r := t.tick(); r == "timeout" {
			c.Inconclusive("tick was not taken by the flusher")
			return false
		}
	}
	if e.liveTicker() == nil && vfGone(c.ID) {
		return true
	}
	c.Inconclusive("the flusher did not quit after the idle time was exceeded")
	return false
}

// ---------------------------------------------------------------- family: script

type vfOp struct {
	K string // add flush wait tick jump
	T int
}

func (o vfOp) String() string {
	if o.K == "add" {
		return "add(t" + strconv.Itoa(o.T) + ")"
	}
	return o.K
}

func vfRunScript(c *kit.Case, vc *kit.VClock) {
	r := c.R
	thr := kit.Choose(r, []int{1, 2, 3, 10})
	n := r.Range(4, 40)
	wTick, wJump := r.Range(5, 40), r.Range(0, 15)
	pPoison := 0.0
	if r.Chance(0.3) {
		pPoison = 0.05
	}
	poison := map[int]bool{}
	var ops []vfOp
	id := 0
	for i := 0; i < n; i++ {
		switch r.Pick(50, 8, 8, wTick, wJump) {
		case 0:
			if r.Chance(pPoison) {
				poison[id] = true
			}
			ops = append(ops, vfOp{"add", id})
			id++
		case 1:
			ops = append(ops, vfOp{K: "flush"})
		case 2:
			ops = append(ops, vfOp{K: "wait"})
		case 3:
			ops = append(ops, vfOp{K: "tick"})
		default:
			ops = append(ops, vfOp{K: "jump"})
		}
	}
	finalWait := r.Chance(0.5)
	e := vfNewEnv(thr, poison)
	var trace []string
	desc := map[string]any{"family": c.Family, "threshold": thr, "ops": fmt.Sprint(ops), "final_wait": finalWait, "poisoned": fmt.Sprint(poison)}
	wit := func() map[string]any {
		return map[string]any{"case": desc, "trace": trace, "executions": e.execLines()}
	}
	viol := func(key, what string) { c.Viol(key, what, wit()) }

	lazy := r.Bool() // do not wait for a handed-over batch to finish before the next step
	inflight := 0    // tasks of handed-over batches not yet known to be finished (lazy mode)
	var nLazy int64
	desc["lazy_after_handoff"] = lazy
	added := 0       // Adds returned
	pend := 0        // tasks the container must still hold if nothing flushed them
	ticksSince := 0  // consecutive processed ticks without an Add in between
	var pendAt int64 // number of added tasks when the first of those ticks was sent
	var nTicks, nQuits, nSkips int64
	// Every event the flusher processes (its start, a handed-over batch, a tick) is followed by
	// exactly one evaluation of ticker.Chan(): a flusher that was given n events and has asked for
	// its channel 1+n times is back in its select with nothing left to do. That is a state, so a
	// batch that is still not executed then was dropped, however long we would wait.
	exp := map[*vfTicker]int{}
	var handoffTicker *vfTicker
	given := func(t *vfTicker) {
		if exp[t] == 0 {
			exp[t] = 1
		}
		exp[t]++
	}
	settle := func(want int64, why string) bool {
		if e.done.Load() == want {
			return true
		}
		// only a batch handed to the flusher by a threshold-reaching Add completes asynchronously
		if vfWaitUntil(func() bool { return e.done.Load() >= want }, 3*time.Second) {
			return true
		}
		t := handoffTicker
		if t != nil && vfWaitUntil(func() bool { return e.done.Load() >= want || t.curIter() >= exp[t] }, vfWatchdog) {
			runtime.Gosched()
			if got := e.done.Load(); got < want {
				viol("C11/lost/periodical-scripted", fmt.Sprintf("%s: the flusher has processed every batch handed to it and is back in its loop, yet only %d of %d tasks were executed", why, got, want))
				return false
			}
			return true
		}
		c.Inconclusive("script: " + why + ": executions did not complete")
		return false
	}
	for _, o := range ops {
		if c.Violated() {
			break
		}
		trace = append(trace, o.String())
		switch o.K {
		case "add":
			if !vfCall(c, e, wit, func() { e.pe.Add(&vfTask{id: o.T}) }) {
				return
			}
			added++
			pend++
			ticksSince = 0
			if pend >= thr {
				// Add returned, so the flusher has taken the batch over; it runs it on its own
				vfWaitUntil(func() bool { return e.liveTicker() != nil }, vfWatchdog)
				if t := e.liveTicker(); t != nil {
					given(t)
					handoffTicker = t
				}
				if lazy {
					inflight += pend
					nLazy++
				} else if !settle(int64(added), "after the Add that reached the threshold") {
					return
				}
				pend = 0
			}
		case "flush":
			if !vfCall(c, e, wit, func() { e.pe.Flush() }) {
				return
			}
			pend = 0
			// Flush is not a barrier for a batch the flusher is still running
			if got := e.done.Load(); got < int64(added-inflight) {
				viol("C11/script/flush-left-tasks", fmt.Sprintf("Flush returned with %d of %d added tasks executed (one client, %d tasks in a batch handed to the flusher)", got, added, inflight))
			}
			if !settle(int64(added), "after Flush") {
				return
			}
			inflight = 0
		case "wait":
			if !vfCall(c, e, wit, func() { e.pe.Wait() }) {
				return
			}
			pend = 0
			inflight = 0
			// one client: its threshold-reaching Add returned only after the flusher registered the batch
			if got := e.done.Load(); got != int64(added) {
				viol("C11/script/wait-left-tasks", fmt.Sprintf("Wait returned with %d of %d added tasks executed (one client)", got, added))
			}
		case "jump":
			vc.Advance(vfIdleJump)
		case "tick":
			if !settle(int64(added-pend), "before a tick") {
				return
			}
			inflight = 0
			t := e.liveTicker()
			if t == nil {
				if added > 0 && vfLabelled(c.ID) > 0 {
					// a flusher exists but has not created its ticker yet
					vfWaitUntil(func() bool { return e.liveTicker() != nil || vfLabelled(c.ID) == 0 }, vfWatchdog)
					t = e.liveTicker()
				}
				if t == nil {
					trace[len(trace)-1] = "tick(no flusher)"
					continue
				}
			}
			if ticksSince == 0 {
				pendAt = int64(added)
			}
			res := t.tick()
			trace[len(trace)-1] = "tick->" + res
			switch res {
			case "timeout":
				c.Inconclusive("script: tick was not taken")
				return
			case "gone":
				continue
			case "quit":
				nQuits++
				if !vfGone(c.ID) {
					c.Inconclusive("script: flusher goroutine did not exit after stopping its ticker")
					return
				}
				// nobody is left to flush: whatever Add accepted must have been executed
				if got := e.done.Load(); got != int64(added) {
					if ids := e.pendingIDs(); len(ids) > 0 {
						viol("C11/stranded/periodical-scripted", fmt.Sprintf("the flusher quit and left tasks %v in the container (no goroutine of the executor remains)", ids))
					} else {
						viol("C11/lost/periodical-scripted", fmt.Sprintf("the flusher quit with %d of %d added tasks executed and an empty container", got, added))
					}
				}
				pend = 0
				ticksSince = 0
				continue
			}
			nTicks++
			ticksSince++
			given(t)
			got := e.done.Load()
			switch {
			case got == int64(added):
				pend = 0
			case got == int64(added-pend):
				nSkips++ // the tick after a handed-over batch does not flush, by design
				if ticksSince >= 2 && got < pendAt {
					viol("C11/script/two-ticks-left-tasks", fmt.Sprintf("two consecutive ticks were processed and tasks added before them are still not executed (%d of %d)", got, added))
				}
			default:
				viol("C11/script/unexpected-progress", fmt.Sprintf("after a processed tick %d tasks are executed; %d were added, %d should still be pending", got, added, pend))
			}
		}
	}
	if c.Violated() {
		vfRetire(c, e, vc)
		return
	}
	if finalWait {
		if !vfCall(c, e, wit, func() { e.pe.Wait() }) {
			return
		}
		trace = append(trace, "final-wait")
		if got := e.done.Load(); got != int64(added) {
			viol("C11/script/wait-left-tasks", fmt.Sprintf("final Wait returned with %d of %d added tasks executed", got, added))
		}
	}
	quiet := vfRetire(c, e, vc)
	trace = append(trace, "retire")
	// exactly once, never a phantom
	seen := map[int]int{}
	for _, x := range e.snapshot() {
		for _, t := range x.IDs {
			seen[t]++
		}
	}
	for t, k := range seen {
		if t < 0 || t >= added {
			viol("C11/phantom/periodical-scripted", fmt.Sprintf("task t%d was executed but never added", t))
		}
		if k > 1 {
			viol("C11/duplicate/periodical-scripted", fmt.Sprintf("task t%d was executed %d times", t, k))
		}
	}
	if quiet {
		var missing []int
		for t := 0; t < added; t++ {
			if seen[t] == 0 {
				missing = append(missing, t)
			}
		}
		if len(missing) > 0 {
			if ids := e.pendingIDs(); len(ids) > 0 {
				viol("C11/stranded/periodical-scripted", fmt.Sprintf("tasks %v were never executed and are still in the container although no goroutine of the executor remains", ids))
			} else {
				viol("C11/lost/periodical-scripted", fmt.Sprintf("tasks %v were never executed and are not in the container", missing))
			}
		}
	}
	var panics int64
	for _, x := range e.snapshot() {
		if x.Panicked {
			panics++
		}
	}
	c.Obs("script_histories", 1)
	c.Obs("script_ops", int64(len(ops)))
	c.Obs("script_ticks_processed", nTicks)
	c.Obs("script_ticks_skipped_after_handoff", nSkips)
	c.Obs("script_quits_on_tick", nQuits)
	c.Obs("script_tasks_executed", e.done.Load())
	c.Obs("script_flusher_starts", int64(e.tickerCount()))
	c.Obs("script_execute_panics", panics)
	c.Obs("script_steps_with_batch_in_flight", nLazy)
	c.Sig(nTicks+nQuits > 0, "script", thr, strings.Join(trace, ","))
	if c.Index < 2 {
		c.Sample("script", 2, map[string]any{"case": desc, "trace": trace})
	}
}

// ---------------------------------------------------------------- family: concurrent producers against scripted ticks

type vfEv struct {
	S  uint64
	A  int
	Op string
	T  int
}

type vfActor struct {
	id  int
	mu  sync.Mutex
	evs []vfEv
}

func (a *vfActor) rec(op string, t int) {
	s := kit.Stamp()
	a.mu.Lock()
	a.evs = append(a.evs, vfEv{s, a.id, op, t})
	a.mu.Unlock()
}

func vfRunConcurrent(c *kit.Case, vc *kit.VClock) {
	r := c.R
	thr := kit.Choose(r, []int{1, 2, 3, 10})
	producers := r.Range(2, 4)
	poison := map[int]bool{}
	progs := make([][]vfOp, producers)
	id := 0
	for p := range progs {
		for i := 0; i < r.Range(3, 12); i++ {
			switch r.Pick(70, 8, 16, 6) {
			case 0:
				if r.Chance(0.02) {
					poison[id] = true
				}
				progs[p] = append(progs[p], vfOp{"add", id})
				id++
			case 1:
				progs[p] = append(progs[p], vfOp{K: "flush"})
			case 2:
				progs[p] = append(progs[p], vfOp{K: "wait"})
			default:
				progs[p] = append(progs[p], vfOp{K: "yield"})
			}
		}
	}
	jumps := r.Chance(0.6)
	e := vfNewEnv(thr, poison)
	e.shape = func(b []*vfTask) {
		switch b[0].id % 5 {
		case 1:
			runtime.Gosched()
		case 2:
			time.Sleep(time.Duration(20+b[0].id*13%150) * time.Microsecond)
		}
	}
	desc := map[string]any{"family": c.Family, "threshold": thr, "programs": fmt.Sprint(progs), "idle_jumps": jumps, "poisoned": fmt.Sprint(poison)}
	actors := make([]*vfActor, producers+1)
	for i := range actors {
		actors[i] = &vfActor{id: i}
	}
	stop := make(chan struct{})
	var ticksSent atomic.Int64
	dr := r.Split("driver")
	driver := vfAsync(func() {
		for {
			select {
			case <-stop:
				return
			default:
			}
			if t := e.liveTicker(); t != nil {
				t.mu.Lock()
				ch := t.ch
				t.mu.Unlock()
				select {
				case ch <- time.Now():
					ticksSent.Add(1)
				case <-time.After(time.Duration(dr.Range(20, 300)) * time.Microsecond):
				}
			}
			if jumps && dr.Chance(0.2) {
				vc.Advance(vfIdleJump)
			}
			if dr.Chance(0.5) {
				time.Sleep(time.Duration(dr.Range(10, 200)) * time.Microsecond)
			} else {
				runtime.Gosched()
			}
		}
	})
	var wg sync.WaitGroup
	for p := range progs {
		a, prog := actors[p], progs[p]
		wg.Add(1)
		go func() {
			defer wg.Done()
			for _, o := range prog {
				switch o.K {
				case "add":
					a.rec("add.inv", o.T)
					e.pe.Add(&vfTask{id: o.T})
					a.rec("add.ret", o.T)
				case "flush":
					a.rec("flush.inv", -1)
					e.pe.Flush()
					a.rec("flush.ret", -1)
				case "wait":
					a.rec("wait.inv", -1)
					e.pe.Wait()
					a.rec("wait.ret", -1)
				default:
					runtime.Gosched()
				}
			}
		}()
	}
	prodDone := vfAsync(wg.Wait)
	ok := vfWaitChan(prodDone, 3*time.Second)
	if !ok {
		// never decided by elapsed time: either the state proves that a call cannot return, or we keep waiting
		for start := time.Now(); !ok && time.Since(start) < vfWatchdog; {
			if calls := vfDeadlocked(c.ID, e); len(calls) > 0 {
				api := calls[0][:strings.Index(calls[0], "\n")]
				c.Viol("C11/stuck/"+api+"/no-flusher-alive",
					api+" can never return: parked with a stable stack, no background flusher goroutine exists, no callback is running",
					map[string]any{"case": desc, "parked": calls, "executions": e.execLines()})
				go e.pe.Add(&vfTask{id: 1 << 20}) // rescue: restarts a flusher (leaks nothing we still look at)
				close(stop)
				<-driver
				vfWaitChan(prodDone, vfWatchdog)
				return
			}
			ok = vfWaitChan(prodDone, 2*time.Second)
		}
	}
	close(stop)
	<-driver
	if !ok {
		c.Inconclusive("concurrent: producers did not finish")
		return
	}
	main := actors[producers]
	fin := vfAsync(func() {
		main.rec("wait.inv", -1)
		e.pe.Wait()
		main.rec("wait.ret", -1)
	})
	if !vfWaitChan(fin, vfWatchdog) {
		c.Inconclusive("concurrent: final Wait did not return")
		return
	}
	quiet := vfRetire(c, e, vc)

	// ---- offline oracle
	var evs []vfEv
	for _, a := range actors {
		a.mu.Lock()
		evs = append(evs, a.evs...)
		a.mu.Unlock()
	}
	sort.Slice(evs, func(i, j int) bool { return evs[i].S < evs[j].S })
	execs := e.snapshot()
	wit := func(extra string) map[string]any {
		var lines []string
		for _, x := range evs {
			lines = append(lines, fmt.Sprintf("%d g%d %s t%d", x.S, x.A, x.Op, x.T))
		}
		return map[string]any{"case": desc, "detail": extra, "client_events": lines, "executions": e.execLines()}
	}
	addRet := map[int]uint64{}
	addInv := map[int]bool{}
	type wt struct {
		inv, ret uint64
		a        int
	}
	var waits []wt
	open := map[int]uint64{}
	for _, x := range evs {
		switch x.Op {
		case "add.inv":
			addInv[x.T] = true
		case "add.ret":
			addRet[x.T] = x.S
		case "wait.inv":
			open[x.A] = x.S
		case "wait.ret":
			waits = append(waits, wt{open[x.A], x.S, x.A})
		}
	}
	occ := map[int][]int{}
	for i, x := range execs {
		for _, t := range x.IDs {
			occ[t] = append(occ[t], i)
		}
	}
	reported := map[string]bool{}
	viol := func(key, what string) {
		if !reported[key] {
			reported[key] = true
			c.Viol(key, what, wit(what))
		}
	}
	for t, xs := range occ {
		if !addInv[t] {
			viol("C11/phantom/periodical-scripted", fmt.Sprintf("task t%d was executed but never added", t))
		}
		if len(xs) > 1 {
			viol("C11/duplicate/periodical-scripted", fmt.Sprintf("task t%d was executed %d times", t, len(xs)))
		}
	}
	late := false
	for _, w := range waits {
		for t, ar := range addRet {
			if ar >= w.inv || len(occ[t]) == 0 {
				continue
			}
			x := execs[occ[t][0]]
			if x.Exit == 0 || x.Exit > w.ret {
				late = true
				viol("C11/wait-barrier/batch-removed-by-"+x.Via,
					fmt.Sprintf("Wait (g%d, stamps %d..%d) returned before the Execute call for task t%d had returned (Add returned at %d; Execute enter=%d exit=%d; batch left the container via %s)",
						w.a, w.inv, w.ret, t, ar, x.Enter, x.Exit, x.Via))
			}
		}
	}
	if quiet {
		var missing []int
		for t := range addRet {
			if len(occ[t]) == 0 {
				missing = append(missing, t)
			}
		}
		sort.Ints(missing)
		if len(missing) > 0 {
			if ids := e.pendingIDs(); len(ids) > 0 {
				viol("C11/stranded/periodical-scripted", fmt.Sprintf("tasks %v never executed, still in the container, no goroutine of the executor remains", ids))
			} else {
				viol("C11/lost/periodical-scripted", fmt.Sprintf("tasks %v never executed and not in the container", missing))
			}
		}
	}
	hs := fnv.New64a()
	type se struct {
		s  uint64
		tx string
	}
	var seq []se
	for _, x := range evs {
		seq = append(seq, se{x.S, fmt.Sprintf("g%d:%s", x.A, x.Op)})
	}
	for _, x := range execs {
		seq = append(seq, se{x.Enter, "x:enter:" + x.Via}, se{x.Exit, "x:exit"})
	}
	sort.Slice(seq, func(i, j int) bool { return seq[i].s < seq[j].s })
	for _, s := range seq {
		hs.Write([]byte(s.tx + ";"))
	}
	nontrivial := false
	for _, w := range waits {
		for _, x := range evs {
			if x.A != w.a && x.S > w.inv && x.S < w.ret {
				nontrivial = true
			}
		}
		for _, x := range execs {
			if (x.Enter > w.inv && x.Enter < w.ret) || (x.Exit > w.inv && x.Exit < w.ret) {
				nontrivial = true
			}
		}
	}
	c.Obs("scripted_concurrent_histories", 1)
	c.Obs("scripted_concurrent_ticks_taken", ticksSent.Load())
	c.Obs("scripted_concurrent_waits", int64(len(waits)))
	c.Obs("scripted_concurrent_flusher_starts", int64(e.tickerCount()))
	if late {
		c.Obs("histories_with_early_wait_return", 1)
	}
	c.Sig(nontrivial, "wconc", thr, strconv.FormatUint(hs.Sum64(), 16))
	if c.Index == 0 {
		c.Sample("scripted-concurrent", 1, desc)
	}
}

// ---------------------------------------------------------------- test

func TestVerifC11W(t *testing.T) {
	logx.Disable()
	vc := kit.InstallVClock()
	defer kit.UninstallVClock()
	lab := func(fn func(c *kit.Case, vc *kit.VClock)) func(c *kit.Case) {
		return func(c *kit.Case) {
			runs := 1
			if kit.GetEnv().Only != "" {
				runs = 200 // --replay: repeat the case, schedules are not reproducible
			}
			for i := 0; i < runs; i++ {
				c.R = kit.NewRand(c.Seed)
				kit.WithLabel(c.ID, func() { fn(c, vc) })
			}
			if runs > 1 {
				c.Obs("replay_runs", int64(runs))
			}
		}
	}
	kit.Run(t, "C11", "script", kit.N(12000, 200000), lab(vfRunScript))
	kit.Run(t, "C11", "scripted-concurrent", kit.N(4000, 60000), lab(vfRunConcurrent))
	kit.End()
}
