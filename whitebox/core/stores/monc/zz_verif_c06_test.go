package monc

// White-box part of C06 for the Mongo flavour of the cache-aside store
// (DESIGN.md §4 C06), mapped into core/stores/monc with `go test -overlay`.
//
// monc.Model values are built by go-zero's own constructors (NewNodeModel,
// MustNewNodeModel, NewModel / MustNewModel with a one-node or two-node cache
// configuration, NewModelWithCache) over in-process miniredis stores, with the
// mongo client injected from an mtest mock (as the package's own tests do).
// The database is a harness-owned mon.Collection (a map of documents) that
// counts and gauges queries per document and fails on demand; it replaces the
// Collection of every Model of a case (several Models over one collection and
// one cache: one per logic package / per request).
//
//  1. mseq: generated sequential histories over 3 documents - FindOne,
//     FindOneNoCache, InsertOne / UpdateOne / UpdateByID / UpdateMany /
//     ReplaceOne / DeleteOne / FindOneAndDelete / FindOneAndReplace /
//     FindOneAndUpdate with the cache key(s), a *NoCache write followed by
//     DelCache, SetCache, GetCache, DelCache, clock advances on the expiry
//     envelopes, database errors, cache outages (error replies on every command
//     or on writing commands only; no database write happens during an outage:
//     the background re-invalidation is the subject of the white-box target in
//     core/stores/cache). After every operation all store keys are scanned with
//     contents and TTLs. Same clauses as the sqlc path.
//  2. mburst: 2-8 concurrent FindOne readers of 1-2 uncached keys spread over
//     1-4 Models on the same store, the first queries held by a gate until all
//     early readers are invoked: per-key query gauge <= 1 (also across Models),
//     every reader's result is the result of a query that started before the
//     reader returned, database errors reach only overlapping readers, nobody
//     invoked after a successful query completed queries again. One mode has a
//     store that refuses writes while reads work (nothing can be cached: every
//     reader still has to get the result of the query it shared).

import (
	"context"
	"database/sql"
	"encoding/json"
	"errors"
	"fmt"
	"sort"
	"strings"
	"sync"
	"sync/atomic"
	"testing"
	"time"

	"github.com/alicebob/miniredis/v2"
	"github.com/alicebob/miniredis/v2/server"
	red "github.com/redis/go-redis/v9"
	"go.mongodb.org/mongo-driver/bson"
	"go.mongodb.org/mongo-driver/mongo"
	"go.mongodb.org/mongo-driver/mongo/integration/mtest"
	mopt "go.mongodb.org/mongo-driver/mongo/options"

	kit "github.com/zeromicro/go-zero/internal/verifkit"

	"github.com/zeromicro/go-zero/core/logx"
	"github.com/zeromicro/go-zero/core/stores/cache"
	"github.com/zeromicro/go-zero/core/stores/mon"
	"github.com/zeromicro/go-zero/core/stores/redis"
	"github.com/zeromicro/go-zero/core/syncx"
)

const (
	vfErrReply = "ERR verif injected outage"
	vfUp       = int32(0)
	vfDownAll  = int32(1) // every command answered with an error
	vfDownW    = int32(2) // writing commands answered with an error, reads served
	vfDefE     = 7 * 24 * time.Hour
	vfDefNE    = time.Minute
	vfNDocs    = 3
	vfBurstDog = 120 * time.Second
)

var (
	vfErrDB = errors.New("verif: injected database error")
	vfClock *kit.VClock
	vfStat  = cache.NewStat("verif-c06m")
	vfAppSF = syncx.NewSingleFlight() // the barrier an application shares between the caches it builds itself
)

// ---------------------------------------------------------------- store nodes

type vfNode struct {
	name string
	mr   *miniredis.Miniredis
	rds  *redis.Redis
	down atomic.Int32
}

type vfDrvHook struct{}

var (
	vfEnvErrs    atomic.Int64
	vfLastEnvErr atomic.Value
)

func (vfDrvHook) DialHook(next red.DialHook) red.DialHook { return next }
func (vfDrvHook) ProcessHook(next red.ProcessHook) red.ProcessHook {
	return func(ctx context.Context, cmd red.Cmder) error {
		err := next(ctx, cmd)
		if err != nil && !errors.Is(err, red.Nil) {
			if _, isReply := err.(red.Error); !isReply && !errors.Is(err, context.Canceled) {
				vfEnvErrs.Add(1)
				vfLastEnvErr.Store(cmd.Name() + ": " + err.Error())
			}
		}
		return err
	}
}
func (vfDrvHook) ProcessPipelineHook(next red.ProcessPipelineHook) red.ProcessPipelineHook {
	return next
}

func (n *vfNode) hook(c *server.Peer, cmd string, _ ...string) bool {
	d := n.down.Load()
	switch strings.ToUpper(cmd) {
	case "GET", "PING":
		if d == vfDownAll {
			c.WriteError(vfErrReply)
			return true
		}
	case "SET", "SETEX", "SETNX", "PSETEX", "DEL", "UNLINK", "EXPIRE":
		if d != vfUp {
			c.WriteError(vfErrReply)
			return true
		}
	}
	return false
}

func (n *vfNode) getFails() bool { return n.down.Load() == vfDownAll }
func (n *vfNode) setFails() bool { return n.down.Load() != vfUp }

func vfNewNode(name string) (*vfNode, error) {
	mr, err := miniredis.Run()
	if err != nil {
		return nil, err
	}
	n := &vfNode{name: name, mr: mr}
	mr.Server().SetPreHook(n.hook)
	n.rds = redis.New(mr.Addr(), redis.WithHook(vfDrvHook{}))
	for i := 0; i < 3000; i++ {
		if n.rds.Ping() {
			return n, nil
		}
		time.Sleep(10 * time.Millisecond)
	}
	return nil, fmt.Errorf("node %s does not answer", name)
}

// ---------------------------------------------------------------- not-found shapes

// The shapes in which the collection reports an absent document (a decorated
// mon.Collection - tracing, repository layer - may wrap what the driver says).
// go-zero classifies the error with errors.Is against the configured not-found
// error (mongo.ErrNoDocuments for every monc constructor): the first five shapes
// mean "no such document" (FindOne returns the configured error, the marker is
// cached), the last two are negative controls - another package's not-found
// error, the same text under another identity - i.e. database errors: returned
// as they are, never cached.
var vfShapes = []string{"bare", "wrap1", "wrap2", "join", "is-method", "foreign", "lookalike"}

func vfNegShape(s string) bool { return s == "foreign" || s == "lookalike" }

// vfShapeClass is the shape as it appears in violation keys: bare | indirect | foreign | lookalike.
func vfShapeClass(s string) string {
	switch s {
	case "", "bare":
		return "bare"
	case "foreign", "lookalike":
		return s
	}
	return "indirect"
}

func vfGenShape(r *kit.Rand) string { return vfShapes[r.Pick(36, 14, 10, 10, 10, 10, 10)] }

type vfIsNF struct{ what string }

func (e *vfIsNF) Error() string        { return "verif: repository: " + e.what + " does not exist" }
func (e *vfIsNF) Is(target error) bool { return target == mongo.ErrNoDocuments }

var vfErrOther = errors.New("verif: audit log unavailable")

func vfShapeNF(shape, what string) error {
	switch shape {
	case "wrap1":
		return fmt.Errorf("find %s: %w", what, mongo.ErrNoDocuments)
	case "wrap2":
		return fmt.Errorf("repository: %w", fmt.Errorf("find %s: %w", what, mongo.ErrNoDocuments))
	case "join":
		return errors.Join(vfErrOther, mongo.ErrNoDocuments)
	case "is-method":
		return &vfIsNF{what}
	case "foreign":
		return sql.ErrNoRows
	case "lookalike":
		return errors.New(mongo.ErrNoDocuments.Error())
	}
	return mongo.ErrNoDocuments
}

// ---------------------------------------------------------------- the database

type vfDoc struct {
	ID  string `bson:"_id" json:"id"`
	Val int64  `bson:"val" json:"val"`
	Pad string `bson:"pad" json:"pad"`
}

type vfReaderKey struct{}

// vfQRec is one execution of FindOne by the database.
type vfQRec struct {
	Qid        int64  `json:"qid"`
	ID         string `json:"doc"`
	Owner      int    `json:"reader"`
	Start, End uint64
	Outcome    string `json:"outcome"` // row | notfound | error
	Val        int64  `json:"val"`
}

type vfQErr struct {
	qid   int64
	inner error // negative control: the not-found look-alike the query reported an absent document with
}

func (e *vfQErr) Error() string {
	if e.inner != nil {
		return fmt.Sprintf("verif: query %d: %v", e.qid, e.inner)
	}
	return fmt.Sprintf("verif: database error of query %d", e.qid)
}
func (e *vfQErr) Unwrap() error { return e.inner }

// vfColl is the harness-owned collection. Methods that are not overridden
// panic (nil embedded interface): the harness drives only these.
type vfColl struct {
	mon.Collection
	mu      sync.Mutex
	docs    map[string]*vfDoc
	fail    bool
	q       map[string]int // FindOne calls per document id
	version int64
	shape   string // the shape in which FindOne reports an absent document ("" = bare)
	lastNF  error  // what the last FindOne of the current op reported an absent document with

	// bursts
	burst  bool
	mode   string
	qseq   atomic.Int64
	recs   []*vfQRec
	gauges map[string]*kit.Gauge
	gate   chan struct{}
	gated  atomic.Int64
}

func vfID(filter any) string {
	switch f := filter.(type) {
	case bson.M:
		return fmt.Sprint(f["_id"])
	case bson.D:
		for _, e := range f {
			if e.Key == "_id" {
				return fmt.Sprint(e.Value)
			}
		}
	}
	panic(fmt.Sprintf("harness: filter %T", filter))
}

func vfSingle(d *vfDoc, err error) (*mongo.SingleResult, error) {
	if err != nil {
		return mongo.NewSingleResultFromDocument(bson.D{}, err, nil), err
	}
	if d == nil {
		return mongo.NewSingleResultFromDocument(bson.D{}, mongo.ErrNoDocuments, nil), mongo.ErrNoDocuments
	}
	return mongo.NewSingleResultFromDocument(*d, nil, nil), nil
}

func (c *vfColl) FindOne(ctx context.Context, filter any, _ ...*mopt.FindOneOptions) (*mongo.SingleResult, error) {
	id := vfID(filter)
	if c.burst {
		return c.burstFind(ctx, id)
	}
	c.mu.Lock()
	defer c.mu.Unlock()
	c.q[id]++
	if err := ctx.Err(); err != nil {
		return vfSingle(nil, err)
	}
	if c.fail {
		return vfSingle(nil, vfErrDB)
	}
	if c.docs[id] == nil {
		c.lastNF = vfShapeNF(c.shape, id)
		return vfSingle(nil, c.lastNF)
	}
	return vfSingle(c.docs[id], nil)
}

func (c *vfColl) burstFind(ctx context.Context, id string) (*mongo.SingleResult, error) {
	owner, _ := ctx.Value(vfReaderKey{}).(int)
	q := &vfQRec{Qid: c.qseq.Add(1), ID: id, Owner: owner}
	c.mu.Lock()
	c.recs = append(c.recs, q)
	g := c.gauges[id]
	c.mu.Unlock()
	q.Start = kit.Stamp()
	g.Enter()
	if c.gated.Add(-1) >= 0 {
		<-c.gate
	}
	var d *vfDoc
	var err error
	switch c.mode {
	case "error":
		q.Outcome, err = "error", &vfQErr{qid: q.Qid}
	case "notfound":
		if vfNegShape(c.shape) {
			q.Outcome, err = "error", &vfQErr{qid: q.Qid, inner: vfShapeNF(c.shape, id)}
		} else {
			q.Outcome, err = "notfound", vfShapeNF(c.shape, id)
		}
	default:
		q.Outcome, q.Val = "row", q.Qid
		d = &vfDoc{ID: id, Val: q.Qid, Pad: fmt.Sprintf("q%d", q.Qid)}
	}
	g.Exit()
	q.End = kit.Stamp()
	return vfSingle(d, err)
}

// write applies fn to the database unless it is failing.
func (c *vfColl) write(ctx context.Context, fn func()) error {
	c.mu.Lock()
	defer c.mu.Unlock()
	if err := ctx.Err(); err != nil {
		return err
	}
	if c.fail {
		return vfErrDB
	}
	fn()
	return nil
}

func (c *vfColl) bump(id string) {
	c.version++
	c.docs[id] = &vfDoc{ID: id, Val: c.version, Pad: fmt.Sprintf("pad-%d", c.version)}
}

func (c *vfColl) InsertOne(ctx context.Context, document any, _ ...*mopt.InsertOneOptions) (*mongo.InsertOneResult, error) {
	d := document.(*vfDoc)
	if err := c.write(ctx, func() { c.bump(d.ID) }); err != nil {
		return nil, err
	}
	return &mongo.InsertOneResult{InsertedID: d.ID}, nil
}

func (c *vfColl) update(ctx context.Context, ids ...string) (*mongo.UpdateResult, error) {
	n := int64(0)
	err := c.write(ctx, func() {
		for _, id := range ids {
			if c.docs[id] != nil {
				c.bump(id)
				n++
			}
		}
	})
	if err != nil {
		return nil, err
	}
	return &mongo.UpdateResult{MatchedCount: n, ModifiedCount: n}, nil
}

func (c *vfColl) UpdateOne(ctx context.Context, filter, _ any, _ ...*mopt.UpdateOptions) (*mongo.UpdateResult, error) {
	return c.update(ctx, vfID(filter))
}
func (c *vfColl) UpdateByID(ctx context.Context, id, _ any, _ ...*mopt.UpdateOptions) (*mongo.UpdateResult, error) {
	return c.update(ctx, fmt.Sprint(id))
}
func (c *vfColl) UpdateMany(ctx context.Context, filter, _ any, _ ...*mopt.UpdateOptions) (*mongo.UpdateResult, error) {
	return c.update(ctx, filter.([]string)...)
}
func (c *vfColl) ReplaceOne(ctx context.Context, filter, _ any, _ ...*mopt.ReplaceOptions) (*mongo.UpdateResult, error) {
	return c.update(ctx, vfID(filter))
}
func (c *vfColl) DeleteOne(ctx context.Context, filter any, _ ...*mopt.DeleteOptions) (*mongo.DeleteResult, error) {
	n := int64(0)
	err := c.write(ctx, func() {
		if id := vfID(filter); c.docs[id] != nil {
			delete(c.docs, id)
			n = 1
		}
	})
	if err != nil {
		return nil, err
	}
	return &mongo.DeleteResult{DeletedCount: n}, nil
}

func (c *vfColl) findAnd(ctx context.Context, filter any, del bool) (*mongo.SingleResult, error) {
	var old *vfDoc
	err := c.write(ctx, func() {
		id := vfID(filter)
		if d := c.docs[id]; d != nil {
			cp := *d
			old = &cp
			if del {
				delete(c.docs, id)
			} else {
				c.bump(id)
			}
		}
	})
	return vfSingle(old, err)
}
func (c *vfColl) FindOneAndDelete(ctx context.Context, filter any, _ ...*mopt.FindOneAndDeleteOptions) (*mongo.SingleResult, error) {
	return c.findAnd(ctx, filter, true)
}
func (c *vfColl) FindOneAndReplace(ctx context.Context, filter, _ any, _ ...*mopt.FindOneAndReplaceOptions) (*mongo.SingleResult, error) {
	return c.findAnd(ctx, filter, false)
}
func (c *vfColl) FindOneAndUpdate(ctx context.Context, filter, _ any, _ ...*mopt.FindOneAndUpdateOptions) (*mongo.SingleResult, error) {
	return c.findAnd(ctx, filter, false)
}

// ---------------------------------------------------------------- world

type vfWorld struct {
	uri, db, coll string
	nodes         []*vfNode // 0: single node; 1,2: the cluster
	seq           int
}

type vfConfig struct {
	Flavour string        `json:"flavour"` // node | cluster
	E       time.Duration `json:"expiry"`
	NE      time.Duration `json:"not_found_expiry"`
	HasE    bool          `json:"with_expiry_option"`
	HasNE   bool          `json:"with_not_found_expiry_option"`
}

func (c vfConfig) expiry() time.Duration {
	if c.E <= 0 {
		return vfDefE
	}
	return c.E
}
func (c vfConfig) nfExpiry() time.Duration {
	if c.NE <= 0 {
		return vfDefNE
	}
	return c.NE
}

var (
	vfAbsent = time.Duration(1<<63 - 1)
	vfExps   = []time.Duration{vfAbsent, vfAbsent, 0, -time.Second, 300 * time.Millisecond, time.Second, 2 * time.Second, 7 * time.Second, 20 * time.Second, 100 * time.Second, time.Hour}
	vfNFExps = []time.Duration{vfAbsent, vfAbsent, 0, -1, 999 * time.Millisecond, time.Second, 3 * time.Second, 10 * time.Second, 40 * time.Second}
)

func vfGenConfig(r *kit.Rand) vfConfig {
	cfg := vfConfig{Flavour: []string{"node", "cluster"}[r.Pick(3, 2)]}
	e, ne := kit.Choose(r, vfExps), kit.Choose(r, vfNFExps)
	if e != vfAbsent {
		cfg.E, cfg.HasE = e, true
	}
	if ne != vfAbsent {
		cfg.NE, cfg.HasNE = ne, true
	}
	return cfg
}

func (w *vfWorld) storeNodes(cfg vfConfig) []*vfNode {
	if cfg.Flavour == "cluster" {
		return w.nodes[1:]
	}
	return w.nodes[:1]
}

// mkModel builds one more Model over the case's store the way applications do.
// Either every Model of a case comes from the constructors that take go-zero's
// own barrier, or (shared != nil) every Model is built with NewModelWithCache
// around the one cache.Cache the application built itself: load suppression
// across Models is promised only where the barrier is the same.
func (w *vfWorld) mkModel(r *kit.Rand, cfg vfConfig, coll mon.Collection, shared *cache.Cache) (*Model, string, error) {
	var opts []cache.Option
	if cfg.HasE {
		opts = append(opts, cache.WithExpiry(cfg.E))
	}
	if cfg.HasNE {
		opts = append(opts, cache.WithNotFoundExpiry(cfg.NE))
	}
	var conf cache.CacheConf
	for _, n := range w.storeNodes(cfg) {
		conf = append(conf, cache.NodeConf{RedisConf: redis.RedisConf{Host: n.mr.Addr(), Type: redis.NodeType, NonBlock: true}, Weight: 100})
	}
	var m *Model
	var err error
	how := ""
	switch k := r.Pick(3, 3, 3); {
	case shared != nil:
		if *shared == nil {
			if cfg.Flavour == "node" {
				*shared = cache.NewNode(w.nodes[0].rds, vfAppSF, vfStat, mongo.ErrNoDocuments, opts...)
			} else {
				*shared = cache.New(conf, vfAppSF, vfStat, mongo.ErrNoDocuments, opts...)
			}
		}
		how = "NewModelWithCache(the application's cache)"
		m, err = NewModelWithCache(w.uri, w.db, w.coll, *shared)
	case cfg.Flavour == "node" && k == 0:
		how = "NewNodeModel(rds)"
		m, err = NewNodeModel(w.uri, w.db, w.coll, w.nodes[0].rds, opts...)
	case cfg.Flavour == "node" && k == 1:
		how = "MustNewNodeModel(rds)"
		m = MustNewNodeModel(w.uri, w.db, w.coll, w.nodes[0].rds, opts...)
	case cfg.Flavour == "node":
		how = "NewModel(one-node conf)"
		m, err = NewModel(w.uri, w.db, w.coll, conf, opts...)
	case k == 0:
		how = "MustNewModel(two-node conf)"
		m = MustNewModel(w.uri, w.db, w.coll, conf, opts...)
	default:
		how = "NewModel(two-node conf)"
		m, err = NewModel(w.uri, w.db, w.coll, conf, opts...)
	}
	if err != nil {
		return nil, how, err
	}
	m.Model.Collection = coll
	return m, how, nil
}

func (w *vfWorld) reset() {
	for _, n := range w.nodes {
		n.down.Store(vfUp)
		n.mr.FlushAll()
	}
	vfClock.Advance(11 * time.Second)
	vfEnvErrs.Store(0)
}

type vfEntry struct {
	Val  string        `json:"val"`
	TTL  time.Duration `json:"ttl"`
	Node string        `json:"node"`
}

func vfScan(nodes []*vfNode) map[string]vfEntry {
	out := map[string]vfEntry{}
	for _, n := range nodes {
		for _, k := range n.mr.Keys() {
			ttl := n.mr.TTL(k)
			v, err := n.mr.Get(k)
			if err != nil {
				continue
			}
			out[k] = vfEntry{Val: v, TTL: ttl, Node: n.name}
		}
	}
	return out
}

func vfEnvelope(e time.Duration) (lo, hi time.Duration) {
	n := int64(e)
	lo = time.Duration(n*95/(100*int64(time.Second))) * time.Second
	hi = time.Duration((n*105+100*int64(time.Second)-1)/(100*int64(time.Second))) * time.Second
	return
}

// ---------------------------------------------------------------- sequential histories

type vfKState struct {
	node     *vfNode
	polluted bool
	lo, hi   time.Duration
	class    string
}

type vfHist struct {
	w      *vfWorld
	c      *kit.Case
	cfg    vfConfig
	coll   *vfColl
	models []*Model
	made   []string
	nodes  []*vfNode
	prefix string
	ks     map[string]*vfKState
	prev   map[string]vfEntry
	log    []string
	bad    bool
	must   map[string]string // key -> violation key: the op has to leave an entry under the key

	hits, invalidated, expired, faults int
}

func (h *vfHist) id(i int) string    { return fmt.Sprintf("%sd%d", h.prefix, i) }
func (h *vfHist) key(i int) string   { return "cache:doc:" + h.id(i) }
func (h *vfHist) model(i int) *Model { return h.models[i%len(h.models)] }

func (h *vfHist) viol(key, what string, extra map[string]any) {
	if h.bad {
		return
	}
	if vfEnvErrs.Load() > 0 {
		h.c.Inconclusive(fmt.Sprintf("network-level driver error (%v); would have reported %s", vfLastEnvErr.Load(), key))
		h.c.Obs("env_errors", 1)
		h.bad = true
		return
	}
	wit := map[string]any{"config": h.cfg, "models": h.made, "ops": h.log, "failing_op_index": len(h.log) - 1, "before_op": h.prev,
		"db": h.dbString(), "db_failing": h.coll.fail}
	for k, v := range extra {
		wit[k] = v
	}
	var out []string
	for _, n := range h.nodes {
		out = append(out, fmt.Sprintf("%s=%d", n.name, n.down.Load()))
	}
	wit["outages(0 up,1 all commands fail,2 writes fail)"] = out
	h.c.Viol(key, what, wit)
	h.bad = true
}

func (h *vfHist) dbString() string {
	var s []string
	for i := 0; i < vfNDocs; i++ {
		if d := h.coll.docs[h.id(i)]; d != nil {
			s = append(s, fmt.Sprintf("%s=v%d", d.ID, d.Val))
		} else {
			s = append(s, h.id(i)+"=<absent>")
		}
	}
	return strings.Join(s, " ")
}

func vfNewHist(w *vfWorld, c *kit.Case, cfg vfConfig, nModels int) *vfHist {
	w.seq++
	w.reset()
	h := &vfHist{w: w, c: c, cfg: cfg, prefix: fmt.Sprintf("h%d:", w.seq), ks: map[string]*vfKState{}, prev: map[string]vfEntry{}}
	h.coll = &vfColl{docs: map[string]*vfDoc{}, q: map[string]int{}, gauges: map[string]*kit.Gauge{}}
	h.nodes = w.storeNodes(cfg)
	var appCache cache.Cache
	shared := &appCache
	if !c.R.Chance(0.25) {
		shared = nil
	}
	for i := 0; i < nModels; i++ {
		m, how, err := w.mkModel(c.R, cfg, h.coll, shared)
		if err != nil {
			c.Inconclusive("model: " + err.Error())
			h.bad = true
			return h
		}
		h.models, h.made = append(h.models, m), append(h.made, how)
	}
	// where does each key live
	for i := 0; i < vfNDocs; i++ {
		st := &vfKState{node: h.nodes[0]}
		h.ks[h.key(i)] = st
		if len(h.nodes) > 1 {
			if err := h.models[0].SetCache(h.key(i), 1); err != nil {
				c.Inconclusive("probe set failed: " + err.Error())
				h.bad = true
				return h
			}
			for _, n := range h.nodes {
				if n.mr.Exists(h.key(i)) {
					st.node = n
				}
			}
		}
	}
	for _, n := range h.nodes {
		n.mr.FlushAll()
	}
	return h
}

func (h *vfHist) want(i int) *vfDoc {
	if d := h.coll.docs[h.id(i)]; d != nil {
		cp := *d
		return &cp
	}
	return nil
}

func vfResStr(got vfDoc, err error) string {
	if err != nil {
		return "error: " + err.Error()
	}
	return fmt.Sprintf("{%s v%d}", got.ID, got.Val)
}

func vfSame(got vfDoc, err error, want *vfDoc) bool {
	if want == nil {
		return err != nil && errors.Is(err, ErrNotFound)
	}
	return err == nil && got == *want
}

func vfServedFrom(e vfEntry, got vfDoc, err error) bool {
	if e.Val == "*" {
		return err != nil && errors.Is(err, ErrNotFound)
	}
	var d vfDoc
	return err == nil && json.Unmarshal([]byte(e.Val), &d) == nil && d == got
}

func vfVP(e vfEntry) string {
	if e.Val == "*" {
		return "placeholder"
	}
	return "value"
}

type vfOp struct {
	K    string        `json:"k"`
	Doc  int           `json:"doc"`
	Mod  int           `json:"model"`
	How  string        `json:"how,omitempty"`
	D    time.Duration `json:"d,omitempty"`
	Good bool          `json:"good,omitempty"`
	On   bool          `json:"on,omitempty"`
	Kind int32         `json:"kind,omitempty"`
	Node int           `json:"node,omitempty"`
	NF   string        `json:"nf,omitempty"` // find: the shape in which the collection reports an absent document
}

func (o vfOp) String() string {
	if o.NF != "" && o.NF != "bare" {
		nf := o.NF
		o.NF = ""
		return o.String() + "~" + nf
	}
	switch o.K {
	case "find", "findnc", "get", "del":
		return fmt.Sprintf("%s(d%d)@m%d", o.K, o.Doc, o.Mod)
	case "write":
		return fmt.Sprintf("%s(d%d)@m%d", o.How, o.Doc, o.Mod)
	case "set":
		return fmt.Sprintf("set(d%d,good=%v)@m%d", o.Doc, o.Good, o.Mod)
	case "ff":
		return fmt.Sprintf("ff(%v)", o.D)
	case "dberr":
		return fmt.Sprintf("dberr(%v)", o.On)
	case "outage":
		return fmt.Sprintf("outage(node=%d,kind=%d)", o.Node, o.Kind)
	}
	return o.K
}

var vfWrites = []string{"InsertOne", "UpdateOne", "UpdateByID", "UpdateMany", "ReplaceOne", "DeleteOne", "FindOneAndDelete", "FindOneAndReplace", "FindOneAndUpdate", "UpdateOneNoCache+DelCache", "InsertOneNoCache+DelCache", "DeleteOneNoCache+DelCache"}

func vfGenOps(r *kit.Rand, cfg vfConfig, n int, faults bool) []vfOp {
	var ops []vfOp
	out, dbFail := false, false
	nlo, nhi := vfEnvelope(cfg.nfExpiry())
	elo, ehi := vfEnvelope(cfg.expiry())
	var ffs []time.Duration
	for _, d := range []time.Duration{time.Second, cfg.nfExpiry() / 2, nlo, nhi, cfg.expiry() / 2, elo, ehi, ehi + time.Second} {
		if d > 0 {
			ffs = append(ffs, d)
		}
	}
	for i := 0; i < n; i++ {
		o := vfOp{Doc: r.Intn(vfNDocs), Mod: r.Intn(4)}
		wW, wF := 20, 0
		if out {
			wW = 0 // no database write while the store is down (see the file comment)
		}
		if faults {
			wF = 6
		}
		if out || dbFail {
			wF = 25
		}
		switch r.Pick(34, 6, wW, 5, 5, wW/4, 10, wF) {
		case 0:
			o.K = "find"
			o.NF = vfGenShape(r)
		case 1:
			o.K = "findnc"
		case 2:
			o.K, o.How = "write", kit.Choose(r, vfWrites)
		case 3:
			o.K, o.Good = "set", r.Chance(0.6)
		case 4:
			o.K = "get"
		case 5:
			o.K = "del"
		case 6:
			o.K, o.D = "ff", kit.Choose(r, ffs)
		case 7:
			switch {
			case dbFail:
				o.K, o.On, dbFail = "dberr", false, false
			case out:
				o.K, o.Node, o.Kind, out = "outage", -1, vfUp, false
			case r.Chance(0.45):
				o.K, o.On, dbFail = "dberr", true, true
			default:
				o.K, o.Node, out = "outage", -1, true
				if cfg.Flavour == "cluster" && r.Chance(0.5) {
					o.Node = r.Intn(2)
				}
				o.Kind = []int32{vfDownAll, vfDownW}[r.Pick(3, 2)]
			}
		}
		ops = append(ops, o)
	}
	ops = append(ops, vfOp{K: "dberr", On: false}, vfOp{K: "outage", Node: -1, Kind: vfUp})
	for i := 0; i < vfNDocs; i++ {
		ops = append(ops, vfOp{K: "find", Doc: i, Mod: i})
	}
	return ops
}

func (h *vfHist) step(o vfOp) {
	h.log = append(h.log, o.String())
	h.coll.q = map[string]int{}
	h.coll.lastNF = nil
	h.must = map[string]string{}
	vfClock.Advance(11 * time.Second)
	ctx := context.Background()
	written := map[string]string{} // key -> class
	mustAbsent := map[string]string{}
	ff := false
	key, id := h.key(o.Doc), h.id(o.Doc)
	st := h.ks[key]
	m := h.model(o.Mod)
	pre, cached := h.prev[key]
	filter := bson.M{"_id": id}
	switch o.K {
	case "find", "findnc":
		var got vfDoc
		var err error
		if o.K == "find" {
			h.coll.shape = o.NF
			err = m.FindOne(ctx, key, &got, filter)
			h.coll.shape = ""
		} else {
			err = m.FindOneNoCache(ctx, &got, filter)
		}
		q := h.coll.q[id]
		res := map[string]any{"key": key, "result": vfResStr(got, err), "queries": h.coll.q}
		for k, n := range h.coll.q {
			if k != id && n > 0 {
				h.viol("C06/query/wrong-key", fmt.Sprintf("read of %s ran %d queries for %s", id, n, k), res)
			}
		}
		want := h.want(o.Doc)
		switch {
		case o.K == "findnc":
			h.c.Obs("m_nocache_reads", 1)
			switch {
			case h.coll.fail && !errors.Is(err, vfErrDB):
				h.viol("C06/dberr/not-returned/read-nocache", "FindOneNoCache during a database failure returned "+vfResStr(got, err), res)
			case !h.coll.fail && !vfSame(got, err, want):
				h.viol("C06/coherence/uncached-read-wrong/read-nocache", fmt.Sprintf("FindOneNoCache returned %s, database holds %v", vfResStr(got, err), want), res)
			}
			written[key] = "take"
		case st.node.getFails():
			h.c.Obs("m_reads_during_outage", 1)
			if err == nil {
				h.viol("C06/outage/read-succeeded/error-replies", "FindOne returned no error although the cache store fails", res)
			}
			if q > 0 {
				h.viol("C06/outage/db-queried/error-replies", fmt.Sprintf("FindOne ran %d database queries although the cache store fails", q), res)
			}
			if err != nil && errors.Is(err, ErrNotFound) && want != nil {
				h.viol("C06/outage/reported-as-not-found/error-replies", "cache outage answered with the not-found error although the document exists", res)
			}
		case err != nil && !errors.Is(err, ErrNotFound) && !errors.Is(err, vfErrDB) && st.node.setFails():
			// only writes fail: a read may still be answered with a store error (breaker opened by failed writes)
			h.c.Obs("m_store_errors_during_partial_outage", 1)
		case cached:
			h.hits++
			h.c.Obs("m_cached_reads_"+vfVP(pre), 1)
			if q > 0 {
				h.viol("C06/cached/db-queried/"+vfVP(pre), fmt.Sprintf("FindOne of cached %s ran %d database queries", key, q), res)
			}
			if !vfServedFrom(pre, got, err) {
				h.viol("C06/cached/not-served/"+vfVP(pre), fmt.Sprintf("FindOne of %s returned %s, cached entry is %q", key, vfResStr(got, err), pre.Val), res)
			} else if !st.polluted && !vfSame(got, err, want) {
				h.viol("C06/coherence/stale-"+vfVP(pre)+"/read", fmt.Sprintf("FindOne of %s returned %s, database holds %v", key, vfResStr(got, err), want), res)
			}
		case h.coll.fail:
			h.c.Obs("m_reads_with_db_error", 1)
			if !errors.Is(err, vfErrDB) {
				h.viol("C06/dberr/not-returned/read", "uncached FindOne during a database failure returned "+vfResStr(got, err), res)
			}
			mustAbsent[key] = "C06/dberr/cached/read"
		case want == nil && vfNegShape(o.NF):
			// negative control: "absent" said through an error that is not the configured not-found error
			// is a database error for this store: returned as it is, never cached
			h.c.Obs("m_uncached_reads", 1)
			h.c.Obs("m_absent_doc_reads_shape_"+o.NF, 1)
			res["query_reported"] = fmt.Sprint(h.coll.lastNF)
			if err == nil || h.coll.lastNF == nil || !errors.Is(err, h.coll.lastNF) || errors.Is(err, ErrNotFound) {
				h.viol("C06/dberr/not-returned/notfound-"+vfShapeClass(o.NF), fmt.Sprintf("the query for %s failed with %q, which is not the configured not-found error; FindOne returned %s", key, fmt.Sprint(h.coll.lastNF), vfResStr(got, err)), res)
			}
			mustAbsent[key] = "C06/dberr/cached/notfound-" + vfShapeClass(o.NF)
		default:
			h.c.Obs("m_uncached_reads", 1)
			ok := vfSame(got, err, want)
			if !ok {
				h.viol("C06/coherence/uncached-read-wrong/read", fmt.Sprintf("FindOne of %s returned %s, database holds %v", key, vfResStr(got, err), want), res)
			}
			if q != 1 {
				h.viol("C06/query/count/uncached-read", fmt.Sprintf("uncached FindOne ran %d database queries", q), res)
			}
			cls := "row"
			if want == nil {
				shape := o.NF
				if shape == "" {
					shape = "bare"
				}
				cls = "notfound-" + vfShapeClass(shape)
				h.c.Obs("m_absent_doc_reads_shape_"+shape, 1)
				res["query_reported"] = fmt.Sprint(h.coll.lastNF)
				// the unchanged tree returns the configured value itself whatever the query's error looked like
				if ok && err != ErrNotFound {
					h.viol("C06/notfound/not-the-configured-value/"+vfShapeClass(shape), fmt.Sprintf("the query reported the absent document as %q; FindOne returned %q (%T), which is not the configured not-found error itself", fmt.Sprint(h.coll.lastNF), err.Error(), err), res)
				}
			}
			// what the query returned is cached from now on (healthy store): the next read must not reach the database
			if ok && !st.node.setFails() {
				h.must[key] = "C06/uncached-read/not-cached/" + cls
			}
			written[key] = "take"
			st.polluted = false
		}
	case "get":
		var got vfDoc
		err := m.GetCache(key, &got)
		res := map[string]any{"key": key, "result": vfResStr(got, err)}
		switch {
		case st.node.getFails():
			if err == nil {
				h.viol("C06/outage/get-succeeded/error-replies", "GetCache returned no error although the cache store fails", res)
			}
		case err != nil && !errors.Is(err, ErrNotFound) && st.node.setFails():
		case cached && pre.Val != "*":
			if !vfServedFrom(pre, got, err) {
				h.viol("C06/get/cached-value-not-served", fmt.Sprintf("GetCache(%s) returned %s, cached entry is %q", key, vfResStr(got, err), pre.Val), res)
			}
			h.c.Obs("m_gets_served", 1)
		default:
			if err == nil || !errors.Is(err, ErrNotFound) {
				h.viol("C06/get/expected-not-found", fmt.Sprintf("GetCache(%s) returned %s, entry is %q", key, vfResStr(got, err), pre.Val), res)
			}
		}
	case "set":
		var val vfDoc
		good := false
		if d := h.want(o.Doc); d != nil && o.Good {
			val, good = *d, true
		} else {
			h.coll.version++
			val = vfDoc{ID: id, Val: -h.coll.version, Pad: "explicit"}
		}
		err := m.SetCache(key, val)
		if st.node.setFails() {
			if err == nil {
				h.viol("C06/outage/set-succeeded", "SetCache returned no error although the cache store fails", map[string]any{"key": key})
			}
			break
		}
		if err == nil {
			st.polluted = !good
		}
		written[key] = "set"
	case "del":
		err := m.DelCache(ctx, key)
		_ = err
		if cached {
			h.invalidated++
		}
		mustAbsent[key] = "C06/invalidate/key-survived/del"
	case "write":
		v0 := h.coll.version
		fail := h.coll.fail
		var err error
		keys := []string{key}
		switch o.How {
		case "InsertOne":
			_, err = m.InsertOne(ctx, key, &vfDoc{ID: id})
		case "UpdateOne":
			_, err = m.UpdateOne(ctx, key, filter, bson.M{"$inc": bson.M{"val": 1}})
		case "UpdateByID":
			_, err = m.UpdateByID(ctx, key, id, bson.M{"$inc": bson.M{"val": 1}})
		case "UpdateMany":
			o2 := (o.Doc + 1) % vfNDocs
			keys = append(keys, h.key(o2))
			_, err = m.UpdateMany(ctx, keys, []string{id, h.id(o2)}, bson.M{"$inc": bson.M{"val": 1}})
		case "ReplaceOne":
			_, err = m.ReplaceOne(ctx, key, filter, &vfDoc{ID: id})
		case "DeleteOne":
			_, err = m.DeleteOne(ctx, key, filter)
		case "FindOneAndDelete":
			var old vfDoc
			err = m.FindOneAndDelete(ctx, key, &old, filter)
		case "FindOneAndReplace":
			var old vfDoc
			err = m.FindOneAndReplace(ctx, key, &old, filter, &vfDoc{ID: id})
		case "FindOneAndUpdate":
			var old vfDoc
			err = m.FindOneAndUpdate(ctx, key, &old, filter, bson.M{"$inc": bson.M{"val": 1}})
		case "UpdateOneNoCache+DelCache":
			if _, err = m.UpdateOneNoCache(ctx, filter, bson.M{"$inc": bson.M{"val": 1}}); err == nil {
				err = m.DelCache(ctx, key)
			}
		case "InsertOneNoCache+DelCache":
			if _, err = m.InsertOneNoCache(ctx, &vfDoc{ID: id}); err == nil {
				err = m.DelCache(ctx, key)
			}
		case "DeleteOneNoCache+DelCache":
			if _, err = m.DeleteOneNoCache(ctx, filter); err == nil {
				err = m.DelCache(ctx, key)
			}
		}
		res := map[string]any{"keys": keys, "result": fmt.Sprint(err)}
		h.c.Obs("m_writes_"+o.How, 1)
		if fail {
			if !errors.Is(err, vfErrDB) {
				h.viol("C06/dberr/not-returned/exec", o.How+" during a database failure returned "+fmt.Sprint(err), res)
			}
			if h.coll.version != v0 {
				panic("harness: failing write mutated the database")
			}
			break
		}
		if err != nil && !errors.Is(err, ErrNotFound) {
			// FindOneAnd* on an absent document report not-found (the database's answer); anything else is unexpected
			h.viol("C06/exec/unexpected-error", o.How+" returned "+err.Error(), res)
		}
		if errors.Is(err, ErrNotFound) {
			// nothing was written; whether the (coherent) entry got invalidated nevertheless is not demanded
			break
		}
		for _, k := range keys {
			if _, was := h.prev[k]; was {
				h.invalidated++
			}
			mustAbsent[k] = "C06/invalidate/key-survived/write"
			h.ks[k].polluted = false
		}
	case "ff":
		for _, n := range h.w.nodes {
			n.mr.FastForward(o.D)
		}
		ff = true
	case "dberr":
		h.coll.fail = o.On
		h.faults++
	case "outage":
		h.faults++
		for i, n := range h.nodes {
			if o.Node < 0 || o.Node%len(h.nodes) == i {
				n.down.Store(o.Kind)
			}
		}
		vfClock.Advance(11 * time.Second)
	}
	h.checkScan(written, mustAbsent, ff)
}

func (h *vfHist) checkScan(written, mustAbsent map[string]string, ff bool) {
	post := vfScan(h.nodes)
	_, globalHi := vfEnvelope(h.cfg.expiry())
	keys := make([]string, 0, len(post))
	for k := range post {
		keys = append(keys, k)
	}
	sort.Strings(keys)
	for _, k := range keys {
		e := post[k]
		st := h.ks[k]
		if st == nil {
			st = &vfKState{node: h.nodes[0], hi: globalHi, class: "unmodelled"}
			h.ks[k] = st
		}
		if why, bad := mustAbsent[k]; bad {
			h.viol(why, fmt.Sprintf("key %s holds %q (ttl %v) after the op", k, e.Val, e.TTL), map[string]any{"after_op": post})
		}
		p, had := h.prev[k]
		rewritten := !ff && (!had || p.Val != e.Val || p.TTL != e.TTL)
		checkLo := false
		if rewritten {
			if _, ok := written[k]; ok {
				if e.Val == "*" {
					st.lo, st.hi = vfEnvelope(h.cfg.nfExpiry())
					st.class = "placeholder"
				} else {
					st.lo, st.hi = vfEnvelope(h.cfg.expiry())
					st.class = written[k]
				}
				checkLo = true
				h.c.Obs("m_entries_written", 1)
			} else {
				st.lo, st.hi, st.class = 0, globalHi, "unmodelled"
				h.c.Obs("m_unmodelled_writes", 1)
			}
		}
		switch {
		case e.TTL <= 0:
			h.viol("C06/ttl/persistent-key/"+st.class, fmt.Sprintf("key %s = %q has no TTL", k, e.Val), map[string]any{"after_op": post})
		case e.TTL > st.hi:
			h.viol("C06/ttl/above-envelope/"+st.class, fmt.Sprintf("key %s ttl %v > %v", k, e.TTL, st.hi), map[string]any{"after_op": post})
		case checkLo && e.TTL < st.lo:
			h.viol("C06/ttl/below-envelope/"+st.class, fmt.Sprintf("key %s ttl %v < %v", k, e.TTL, st.lo), map[string]any{"after_op": post})
		}
		h.c.Obs("ttl_checks", 1)
	}
	for k, why := range h.must {
		if e, ok := post[k]; !ok {
			h.viol(why, fmt.Sprintf("key %s holds nothing after the read that had to load it: the next read will query the database again", k), map[string]any{"after_op": post})
		} else {
			h.c.Obs("m_uncached_reads_cached_afterwards", 1)
			if e.Val == "*" {
				h.c.Obs("m_markers_written", 1)
			}
		}
	}
	h.must = nil
	for k := range h.prev {
		if _, still := post[k]; !still {
			if st := h.ks[k]; st != nil {
				st.polluted = false
			}
			if ff {
				h.expired++
			}
		}
	}
	h.prev = post
}

func vfSeq(w *vfWorld, c *kit.Case) {
	r := c.R
	cfg := vfGenConfig(r)
	h := vfNewHist(w, c, cfg, r.Range(1, 3))
	if h.bad {
		return
	}
	for i := 0; i < vfNDocs; i++ {
		if r.Chance(0.6) {
			h.coll.bump(h.id(i))
		}
	}
	ops := vfGenOps(r, cfg, r.Range(10, 30), r.Chance(0.6))
	for _, o := range ops {
		if h.bad {
			break
		}
		h.step(o)
	}
	for _, n := range h.nodes {
		n.down.Store(vfUp)
	}
	c.Obs("m_histories", 1)
	c.Obs("m_ops", int64(len(h.log)))
	c.Obs("m_invalidations_of_present_entries", int64(h.invalidated))
	c.Obs("m_entries_expired_by_clock", int64(h.expired))
	parts := []any{"mseq", cfg.Flavour, cfg.E, cfg.NE, cfg.HasE, cfg.HasNE, len(h.models)}
	for _, s := range h.log {
		parts = append(parts, s)
	}
	c.Sig(h.hits > 0 && (h.invalidated > 0 || h.expired > 0 || h.faults > 0), parts...)
	c.Sample("mseq", 2, map[string]any{"config": cfg, "models": h.made, "ops": h.log,
		"observed": fmt.Sprintf("hits=%d invalidated=%d expired=%d faults=%d", h.hits, h.invalidated, h.expired, h.faults)})
}

// ---------------------------------------------------------------- bursts

type vfReader struct {
	ID    int  `json:"reader"`
	Doc   int  `json:"doc"`
	Late  bool `json:"late"`
	Model int  `json:"model"`
	// what the caller does with the object it handed to FindOne once FindOne returned:
	// overwrite every field (Scribble), then read another document into it (ReuseBy)
	Scribble bool `json:"scribbles_over_its_result_after_return,omitempty"`
	ReuseBy  int  `json:"then_reads_another_document_into_it_as_reader,omitempty"`
	ReuseOf  int  `json:"reuses_the_object_of_reader"` // -1: an object of its own
	Inv, Ret uint64
	Got      vfDoc  `json:"got"`
	Err      string `json:"err"`
	err      error
}

func vfScribble(id int) vfDoc {
	return vfDoc{ID: fmt.Sprintf("scribbled-by-reader-%d", id), Val: int64(-7000000 - id), Pad: "scribbled over by the caller after its read had returned"}
}

func vfScribbled(d vfDoc) bool {
	return strings.HasPrefix(d.ID, "scribbled") || d.Val <= -7000000 || strings.HasPrefix(d.Pad, "scribbled")
}

func vfBurst(w *vfWorld, c *kit.Case) {
	r := c.R
	cfg := vfGenConfig(r)
	nModels := 1
	if r.Chance(0.6) {
		nModels = r.Range(2, 4)
	}
	h := vfNewHist(w, c, cfg, nModels)
	if h.bad {
		return
	}
	mode := []string{"row", "notfound", "error", "writes-fail"}[r.Pick(8, 3, 3, 4)]
	coll := h.coll
	coll.burst, coll.mode = true, mode
	if mode == "writes-fail" {
		coll.mode = "row"
		for _, n := range h.nodes {
			n.down.Store(vfDownW)
		}
	}
	coll.gate = make(chan struct{})
	coll.gated.Store(int64(r.Range(1, 2)))
	coll.shape = vfGenShape(r)
	nReaders := r.Range(2, 8)
	nKeys := 1 + r.Pick(3, 1)
	readers := make([]*vfReader, nReaders)
	delays := make([]time.Duration, nReaders)
	early := 0
	for i := range readers {
		rr := &vfReader{ID: i, Doc: r.Intn(nKeys), Late: i > 0 && r.Chance(0.25), Model: r.Intn(nModels), Scribble: r.Chance(0.75), ReuseOf: -1}
		if !rr.Late {
			early++
		}
		readers[i] = rr
		delays[i] = time.Duration(r.Intn(1500)) * time.Microsecond
		coll.gauges[h.id(rr.Doc)] = &kit.Gauge{}
	}
	hold := time.Duration(r.Intn(3000)) * time.Microsecond
	// some of the callers that scribble go on to read another document (one the burst does not read
	// otherwise) into the same object; these reads are readers of their own (appended)
	for i := 0; i < nReaders; i++ {
		if rr := readers[i]; rr.Scribble && r.Chance(0.4) {
			ru := &vfReader{ID: len(readers), Doc: vfNDocs - 1, Late: true, Model: rr.Model, Scribble: true, ReuseOf: rr.ID}
			rr.ReuseBy = ru.ID
			readers = append(readers, ru)
			coll.gauges[h.id(ru.Doc)] = &kit.Gauge{}
		}
	}
	vfClock.Advance(11 * time.Second)

	var invoked atomic.Int64
	var wg sync.WaitGroup
	released := make(chan struct{})
	var read func(rr *vfReader, tgt *vfDoc)
	read = func(rr *vfReader, tgt *vfDoc) {
		ctx := context.WithValue(context.Background(), vfReaderKey{}, rr.ID)
		rr.Inv = kit.Stamp()
		if rr.ReuseOf < 0 {
			invoked.Add(1)
		}
		rr.err = h.models[rr.Model].FindOne(ctx, h.key(rr.Doc), tgt, bson.M{"_id": h.id(rr.Doc)})
		rr.Got = *tgt // the result is taken out: the object is the caller's again
		rr.Ret = kit.Stamp()
		if rr.Scribble {
			*tgt = vfScribble(rr.ID)
		}
		if rr.ReuseBy > 0 {
			read(readers[rr.ReuseBy], tgt)
		}
	}
	for i, rr := range readers[:nReaders] {
		wg.Add(1)
		go func(i int, rr *vfReader) {
			defer wg.Done()
			if rr.Late {
				<-released
				time.Sleep(delays[i])
			} else if i%2 == 1 {
				time.Sleep(delays[i] / 4)
			}
			read(rr, new(vfDoc))
		}(i, rr)
	}
	go func() {
		for invoked.Load() < int64(early) {
			time.Sleep(50 * time.Microsecond)
		}
		time.Sleep(hold)
		close(coll.gate)
		close(released)
	}()
	done := make(chan struct{})
	go func() { wg.Wait(); close(done) }()
	select {
	case <-done:
	case <-time.After(vfBurstDog):
		c.Inconclusive("burst did not finish within the watchdog")
		<-done
		return
	}
	// one more, sequential, reader per key: served from the cache if anything could be cached
	if mode != "writes-fail" {
		seen := map[int]bool{}
		for _, rr := range readers[:len(readers):len(readers)] {
			if seen[rr.Doc] {
				continue
			}
			seen[rr.Doc] = true
			fr := &vfReader{ID: len(readers), Doc: rr.Doc, Late: true, Model: len(readers) % nModels, ReuseOf: -1}
			readers = append(readers, fr)
			read(fr, new(vfDoc))
		}
	}
	for _, n := range h.nodes {
		n.down.Store(vfUp)
	}
	qs := coll.recs
	sort.Slice(qs, func(i, j int) bool { return qs[i].Start < qs[j].Start })
	byQid := map[int64]*vfQRec{}
	for _, q := range qs {
		byQid[q.Qid] = q
	}
	for _, rr := range readers {
		if rr.err != nil {
			rr.Err = rr.err.Error()
		}
	}
	if vfEnvErrs.Load() > 0 {
		c.Inconclusive(fmt.Sprintf("network-level driver error during a burst (%v)", vfLastEnvErr.Load()))
		c.Obs("env_errors", 1)
		return
	}
	wit := map[string]any{"config": cfg, "mode": mode, "models": h.made, "readers": readers, "queries": qs}
	viol := func(key, what string) { c.Viol(key, what, wit) }

	for id, g := range coll.gauges {
		if g.Max() > 1 {
			where := ""
			for _, q1 := range qs {
				for _, q2 := range qs {
					if q1.ID == id && q2.ID == id && q1.Qid < q2.Qid && q1.Start < q2.End && q2.Start < q1.End &&
						readers[q1.Owner].Model != readers[q2.Owner].Model {
						where = "/across-models"
					}
				}
			}
			viol("C06/conc/queries-overlap/monc"+where, fmt.Sprintf("%d database queries for %s ran at the same time", g.Max(), id))
		}
	}
	followers, cross, lateHits, scribbleFollowers, reuseFollowers := 0, 0, 0, 0, 0
	follower := func(rr *vfReader, q *vfQRec) {
		followers++
		if readers[q.Owner].Model != rr.Model {
			cross++
		}
		if own := readers[q.Owner]; own.Scribble {
			scribbleFollowers++
			if own.ReuseBy > 0 {
				reuseFollowers++
			}
		}
	}
	for _, rr := range readers {
		id := h.id(rr.Doc)
		var qe *vfQErr
		switch {
		case rr.err == nil:
			var src *vfQRec
			for _, q := range qs {
				if q.Outcome == "row" && q.Val == rr.Got.Val && rr.Got.ID == q.ID {
					src = q
				}
			}
			switch {
			case src == nil && vfScribbled(rr.Got):
				viol("C06/conc/result-changed-by-another-caller-after-its-read-returned", fmt.Sprintf("reader %d returned %v: no query produced that, (part of) it is what another caller wrote into ITS OWN result object after its read had returned", rr.ID, rr.Got))
			case src == nil:
				viol("C06/conc/result-of-no-query", fmt.Sprintf("reader %d returned %v, which no query produced", rr.ID, rr.Got))
			case src.ID != id:
				viol("C06/conc/result-of-other-key", fmt.Sprintf("reader %d of %s returned the result of a query for %s", rr.ID, id, src.ID))
			case src.Start > rr.Ret:
				viol("C06/conc/result-of-later-query", fmt.Sprintf("reader %d returned the result of query %d which started after it returned", rr.ID, src.Qid))
			case src.Owner != rr.ID && rr.Inv < src.End:
				follower(rr, src)
			case src.Owner != rr.ID:
				lateHits++
			}
		case errors.As(rr.err, &qe):
			q := byQid[qe.qid]
			switch {
			case q == nil:
				viol("C06/conc/error-of-no-query", fmt.Sprintf("reader %d returned %v", rr.ID, rr.err))
			case q.ID != id:
				viol("C06/conc/result-of-other-key", fmt.Sprintf("reader %d of %s returned the error of a query for %s", rr.ID, id, q.ID))
			case q.Owner != rr.ID && !(rr.Inv < readers[q.Owner].Ret && q.Start < rr.Ret):
				viol("C06/conc/db-error-served-later", fmt.Sprintf("reader %d (invoked after reader %d had returned) got the error of query %d", rr.ID, q.Owner, q.Qid))
			case q.Owner != rr.ID:
				follower(rr, q)
			}
		case errors.Is(rr.err, ErrNotFound):
			if rr.err != ErrNotFound {
				viol("C06/notfound/not-the-configured-value/"+vfShapeClass(coll.shape), fmt.Sprintf("reader %d returned %q (%T), which is not the configured not-found error itself (the queries report an absent document in shape %s)", rr.ID, rr.err.Error(), rr.err, coll.shape))
			}
			ok := false
			for _, q := range qs {
				if q.Outcome == "notfound" && q.ID == id && q.Start < rr.Ret {
					ok = true
					if q.Owner != rr.ID && rr.Inv < q.End {
						follower(rr, q)
					}
				}
			}
			if !ok {
				viol("C06/conc/not-found-without-query", fmt.Sprintf("reader %d returned not-found, no query said so (mode %s)", rr.ID, mode))
			}
		case mode == "writes-fail":
			// a failing write may open the client's breaker: a store error instead of a result is accepted
			c.Obs("m_store_errors_during_partial_outage", 1)
		default:
			viol("C06/conc/unexpected-error", fmt.Sprintf("reader %d returned %v", rr.ID, rr.err))
		}
	}
	if mode != "writes-fail" {
		for _, q2 := range qs {
			r2 := readers[q2.Owner]
			for _, q1 := range qs {
				if q1 != q2 && q1.ID == q2.ID && q1.Outcome != "error" && q1.End < r2.Inv {
					viol("C06/conc/queried-although-cached/"+q1.Outcome, fmt.Sprintf("reader %d was invoked after query %d (%s) for %s had completed, yet ran query %d", r2.ID, q1.Qid, q1.Outcome, q1.ID, q2.Qid))
				}
			}
		}
	}
	// entries left behind
	post := vfScan(h.nodes)
	for k, e := range post {
		lo, hi := vfEnvelope(cfg.expiry())
		cls := "take"
		if e.Val == "*" {
			lo, hi = vfEnvelope(cfg.nfExpiry())
			cls = "placeholder"
		}
		switch {
		case mode == "error":
			viol("C06/dberr/cached/concurrent", fmt.Sprintf("key %s holds %q after a burst in which every query failed", k, e.Val))
		case mode == "notfound" && vfNegShape(coll.shape):
			viol("C06/dberr/cached/notfound-"+vfShapeClass(coll.shape), fmt.Sprintf("key %s holds %q after a burst in which every query failed with an error that is not the configured not-found error", k, e.Val))
		case e.TTL <= 0:
			viol("C06/ttl/persistent-key/"+cls, fmt.Sprintf("key %s = %q has no TTL", k, e.Val))
		case e.TTL > hi:
			viol("C06/ttl/above-envelope/"+cls, fmt.Sprintf("key %s ttl %v > %v", k, e.TTL, hi))
		case e.TTL < lo:
			viol("C06/ttl/below-envelope/"+cls, fmt.Sprintf("key %s ttl %v < %v", k, e.TTL, lo))
		}
		c.Obs("ttl_checks", 1)
	}
	type ev struct {
		s  uint64
		op string
	}
	var evs []ev
	owners := map[int]bool{}
	for _, q := range qs {
		owners[q.Owner] = true
		evs = append(evs, ev{q.Start, "qs" + q.Outcome[:1]}, ev{q.End, "qe"})
	}
	for _, rr := range readers {
		role := "f"
		if owners[rr.ID] {
			role = "o"
		}
		evs = append(evs, ev{rr.Inv, role + "inv"}, ev{rr.Ret, role + "ret"})
	}
	sort.Slice(evs, func(i, j int) bool { return evs[i].s < evs[j].s })
	parts := []any{"mburst", cfg.Flavour, mode, nModels}
	if mode == "notfound" {
		parts = append(parts, coll.shape)
		c.Obs("m_bursts_notfound_shape_"+coll.shape, 1)
	}
	c.Obs("m_burst_followers_of_a_caller_that_scribbles_over_its_result", int64(scribbleFollowers))
	c.Obs("m_burst_followers_of_a_caller_that_reuses_its_result_object", int64(reuseFollowers))
	for _, rr := range readers {
		if rr.ReuseOf >= 0 {
			c.Obs("m_burst_reads_into_a_reused_object", 1)
		}
	}
	for _, e := range evs {
		parts = append(parts, e.op)
	}
	c.Sig(followers > 0, parts...)
	c.Obs("m_bursts", 1)
	c.Obs("m_bursts_"+mode, 1)
	c.Obs("m_burst_readers", int64(len(readers)))
	c.Obs("m_burst_queries", int64(len(qs)))
	c.Obs("m_burst_followers_sharing_a_query", int64(followers))
	c.Obs("m_burst_late_readers_served_from_cache", int64(lateHits))
	if mode == "writes-fail" {
		c.Obs("m_burst_followers_sharing_a_query_store_refuses_writes", int64(followers))
	}
	if nModels > 1 {
		c.Obs("m_bursts_across_models", 1)
		c.Obs("m_burst_followers_sharing_a_query_across_models", int64(cross))
	}
	c.Sample("mburst-"+mode, 1, map[string]any{"config": cfg, "mode": mode, "models": h.made, "readers": len(readers), "queries": len(qs), "followers": followers, "followers_across_models": cross, "late_hits": lateHits})
}

// ---------------------------------------------------------------- test

func TestVerifC06M(t *testing.T) {
	logx.Disable()
	vfClock = kit.InstallVClock()
	defer kit.UninstallVClock()
	mt := mtest.New(t, mtest.NewOptions().ClientType(mtest.Mock))
	ran := false
	mt.Run("verif", func(mt *mtest.T) {
		ran = true
		mon.Inject(mt.Name(), mt.Client)
		w := &vfWorld{uri: mt.Name(), db: mt.DB.Name(), coll: mt.Coll.Name()}
		for _, name := range []string{"N", "A", "B"} {
			n, err := vfNewNode(name)
			if err != nil {
				t.Fatalf("node: %v", err)
			}
			w.nodes = append(w.nodes, n)
		}
		kit.Run(t, "C06", "mseq", kit.N(600, 9000), func(c *kit.Case) { vfSeq(w, c) })
		kit.Run(t, "C06", "mburst", kit.N(500, 8000), func(c *kit.Case) { vfBurst(w, c) })
	})
	if !ran {
		t.Fatalf("mtest did not run the body")
	}
	kit.End()
}
