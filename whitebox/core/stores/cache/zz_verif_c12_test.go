package cache

// C12, consumer "cache cleaner" on a hand-driven wheel (white-box: the package's wheel is swapped
// per case - production geometry 1 s x timingWheelSlots, production callback clean() - and the
// package's own 5-worker task runner runs the tasks).
//
// For the cleaner "every timer fires exactly once at its due tick" reads: a clean task added with
// AddCleanTask is called exactly once, one tick later; when it returns an error the cleaner re-arms
// it with the next delay of its schedule (nextDelay() of cleaner.go itself is the model's source for
// that delay: nothing is demanded that the code does not ask of its wheel) and it is called exactly
// once at that tick; Drain(clean) - what the shutdown listener does - calls every pending task
// exactly once; tasks added afterwards run as usual. The clean tasks here PANIC for a chosen number
// of calls (first call or retry): none, fewer than, exactly as many as, one more than, more than
// twice as many as the runner has workers (cleanWorkers). A call is the delivery; what becomes of a
// task after its own panic is not judged (the statement is silent). Every other task must be called
// at its tick all the same - in particular tasks added after the panics - and every operation
// returns: decided by state (goroutine dump: every goroutine with a TaskRunner frame is parked in
// TaskRunner.Schedule's channel send - nobody is left to free a slot), else by the kit's stuck-case
// detector.

import (
	"errors"
	"fmt"
	"runtime"
	"sort"
	"strings"
	"sync"
	"testing"
	"time"

	"github.com/zeromicro/go-zero/core/collection"
	kit "github.com/zeromicro/go-zero/internal/verifkit"
	"github.com/zeromicro/go-zero/core/logx"
)

type vf12Ticker struct{ c chan time.Time }

func (t *vf12Ticker) Chan() <-chan time.Time { return t.c }
func (t *vf12Ticker) Stop()                  {}

type vf12Task struct {
	id     int
	script []string // outcome of the i-th call: ok | err | panic (beyond the script: ok)
	calls  []string // "t<tick>" or "drain@t<tick>"
	added  int
	ncalls int      // written by the task itself (under the world's lock)
	// model (case goroutine only)
	due               int           // tick of the next call (0: none pending)
	delay             time.Duration // delay of the pending timer
	dead              bool          // has panicked: not judged any further
	done              bool          // returned nil, or the retry schedule is exhausted
	modelCalls        int           // calls the model has accounted for
	callsAtDrainStart int
	retries           int
}

type vf12World struct {
	c        *kit.Case
	tw       *collection.TimingWheel
	tk       *vf12Ticker
	stopOnce sync.Once
	mu       sync.Mutex
	tasks    []*vf12Task
	pendingC []int // ids called since the last collection
	ticks    int
	baseline int
	log      []string
	panics   int
	dead     bool // deadlock found: the case is over
	closed   bool // ... and calls made while the stopped wheel unwinds are no longer recorded
	inDrain  bool
}

func (w *vf12World) vfStop() { w.stopOnce.Do(w.tw.Stop) }

func (w *vf12World) vfWitness(extra string) map[string]any {
	w.mu.Lock()
	defer w.mu.Unlock()
	var ts []string
	for _, t := range w.tasks {
		ts = append(ts, fmt.Sprintf("task %d added at tick %d, outcomes %v, called at %v", t.id, t.added, t.script, t.calls))
	}
	return map[string]any{"clean_workers": cleanWorkers, "tasks": ts, "history": w.log, "ticks": w.ticks, "detail": extra}
}

var (
	vf12LeakMu      sync.Mutex
	vf12KnownParked = map[string]bool{}
	vf12BaseOnce    sync.Once
	vf12Base        int
	vf12RunnerDead  bool
)

func vf12AllStacks() string {
	buf := make([]byte, 1<<18)
	for {
		n := runtime.Stack(buf, true)
		if n < len(buf) {
			return string(buf[:n])
		}
		buf = make([]byte, 2*len(buf))
	}
}

// vf12Deadlock: see findDeadlock in harness/c12/drainpanic_test.go (same rules), read off ONE
// stop-the-world goroutine dump. Considered: every goroutine with a threading.(*TaskRunner) frame.
//
//	slots-lost             all of them (at least one) are parked in the channel send of
//	                       TaskRunner.Schedule: every worker that could give a slot back is gone or
//	                       waits for a slot itself.
//	task-waits-for-wheel   the run goroutine of the case's wheel is parked there (inside drainAll),
//	                       every other one is parked there as well or in the select of SetTimer
//	                       called from clean's worker - which addresses the package's wheel, i.e.
//	                       the case's: the workers wait for the wheel's loop, the loop for a worker.
//
// Code free of these defects never shows either state.
type vf12Deadlock struct {
	kind, where, dump string
	ids               []string
}

func vf12FindDeadlock(dump, wheel string) *vf12Deadlock {
	const fr = "threading.(*TaskRunner)"
	const mod = "github.com/zeromicro/go-zero/"
	callers := map[string]bool{}
	var sched, ops []string
	wheelParked := false
	for _, blk := range strings.Split(dump, "\n\n") {
		if !strings.Contains(blk, fr) {
			continue
		}
		lines := strings.Split(strings.TrimSpace(blk), "\n")
		if len(lines) < 2 || !strings.HasPrefix(lines[0], "goroutine ") {
			continue
		}
		hdr := lines[0]
		id := strings.Fields(hdr)[1]
		vf12LeakMu.Lock()
		old := vf12KnownParked[id]
		vf12LeakMu.Unlock()
		if old {
			continue
		}
		state := ""
		if i, j := strings.Index(hdr, "["), strings.LastIndex(hdr, "]"); i >= 0 && j > i {
			state = hdr[i+1 : j]
		}
		inner, caller := "", ""
		for _, ln := range lines[1:] {
			if strings.HasPrefix(ln, "\t") || strings.HasPrefix(ln, "created by ") {
				continue
			}
			if strings.HasPrefix(ln, "runtime.") || strings.HasPrefix(ln, "runtime/") || strings.HasPrefix(ln, "sync.") || strings.HasPrefix(ln, "internal/") {
				continue
			}
			name := ln
			if k := strings.LastIndex(name, "("); k > 0 {
				name = name[:k]
			}
			if inner == "" {
				inner = name
				continue
			}
			caller = name
			break
		}
		switch {
		case strings.HasPrefix(state, "chan send") && inner == mod+"core/threading.(*TaskRunner).Schedule":
			sched = append(sched, id)
			callers[strings.TrimPrefix(caller, mod)] = true
			if strings.Contains(blk, "collection.(*TimingWheel).run("+wheel) && strings.Contains(blk, "collection.(*TimingWheel).drainAll(") {
				wheelParked = true
			}
		case strings.HasPrefix(state, "select") && inner == mod+"core/collection.(*TimingWheel).SetTimer" && strings.HasPrefix(caller, mod+"core/stores/cache.clean."):
			ops = append(ops, id)
		default:
			return nil
		}
	}
	var cs []string
	for c := range callers {
		cs = append(cs, c)
	}
	sort.Strings(cs)
	switch {
	case len(sched) == 0:
		return nil
	case len(ops) == 0:
		return &vf12Deadlock{kind: "slots-lost", where: strings.Join(cs, " + "), dump: dump, ids: sched}
	case wheelParked:
		return &vf12Deadlock{kind: "task-waits-for-wheel", where: strings.Join(cs, " + "), dump: dump}
	}
	return nil
}

func vf12Leaked(ids []string) {
	vf12LeakMu.Lock()
	for _, id := range ids {
		vf12KnownParked[id] = true
	}
	vf12LeakMu.Unlock()
}

// vfWatched runs wait(abort) - synchronous calls into the wheel / the tick hand-over - on the case
// goroutine while a watcher looks for the runner deadlock in goroutine dumps (the pauses only pace
// the polling). On a deadlock the wheel is stopped and abort is closed, so that wait returns.
func (w *vf12World) vfWatched(wait func(abort <-chan struct{})) *vf12Deadlock {
	stop := make(chan struct{})
	abort := make(chan struct{})
	out := make(chan *vf12Deadlock, 1)
	wheel := fmt.Sprintf("%p", w.tw)
	go func() {
		pause := 20 * time.Millisecond
		for i := 0; i < 48; i++ {
			select {
			case <-stop:
				out <- nil
				return
			case <-time.After(pause):
			}
			if pause < 500*time.Millisecond {
				pause *= 2
			}
			if d := vf12FindDeadlock(vf12AllStacks(), wheel); d != nil {
				vf12Leaked(d.ids)
				w.vfStop()
				close(abort)
				<-stop
				out <- d
				return
			}
		}
		<-stop
		out <- nil
	}()
	wait(abort)
	close(stop)
	return <-out
}

// vfQuiesce waits until the goroutine count is back at the case's baseline (every callback
// goroutine and every worker has finished) - or until a dump shows that they never will.
func (w *vf12World) vfQuiesce(busy bool, target int) (bool, *vf12Deadlock) {
	wheel := fmt.Sprintf("%p", w.tw)
	for i := 0; i < 2000000; i++ {
		if runtime.NumGoroutine() <= target {
			// runtime.NumGoroutine sums per-P counters without stopping the world: while workers
			// are being started and are exiting on several Ps it can read too low for a moment.
			// Whenever clean tasks were due (or a drain ran) the census is confirmed by one atomic dump.
			if !busy || vf12Idle(vf12AllStacks()) {
				return true, nil
			}
			kit.Obs("wb_goroutine_census_read_low_caught_by_the_dump", 1)
		}
		if i < 200 {
			runtime.Gosched()
		} else {
			time.Sleep(20 * time.Microsecond)
		}
		if i >= 2000 && i%2000 == 0 {
			if d := vf12FindDeadlock(vf12AllStacks(), wheel); d != nil {
				vf12Leaked(d.ids)
				return false, d
			}
		}
	}
	return false, nil
}

// vf12Idle: no goroutine (other than those known to be parked for ever) is inside a task runner,
// clean(), a drain or the delivery of a tick's timers.
func vf12Idle(dump string) bool {
	for _, blk := range strings.Split(dump, "\n\n") {
		if !strings.Contains(blk, "threading.(*TaskRunner)") && !strings.Contains(blk, "collection.(*TimingWheel).drainAll") &&
			!strings.Contains(blk, "collection.(*TimingWheel).runTasks") && !strings.Contains(blk, "core/stores/cache.clean") {
			continue
		}
		f := strings.Fields(blk)
		if len(f) > 1 && f[0] == "goroutine" {
			vf12LeakMu.Lock()
			old := vf12KnownParked[f[1]]
			vf12LeakMu.Unlock()
			if old {
				continue
			}
		}
		return false
	}
	return true
}

func (w *vf12World) vfDeadlock(during string, d *vf12Deadlock) {
	w.dead = true
	w.vfStop()
	never := 0
	w.mu.Lock()
	w.closed = true
	for _, t := range w.tasks {
		if !t.dead && !t.done && t.due > 0 && t.ncalls == t.modelCalls { // pending and not called
			never++
		}
	}
	panics := w.panics
	w.mu.Unlock()
	wt := w.vfWitness(fmt.Sprintf("during %s; goroutines parked in TaskRunner.Schedule called from %s", during, d.where))
	wt["goroutine_dump"] = d.dump
	if d.kind == "task-waits-for-wheel" {
		defer func() {
			// stopped: the parked SetTimer calls return ErrClosed and the drain unwinds (its calls are no
			// longer recorded) - unless it loses its slots on the way (then the package's runner is dead)
			if ok, d2 := w.vfQuiesce(true, w.baseline-1); !ok {
				if d2 != nil {
					vf12RunnerDead = true
				} else {
					w.c.Inconclusive("cleaner (white-box): the goroutines of a stopped wheel did not finish")
				}
			}
		}()
		w.c.Viol("C12/consumer-cleaner/drain/missing/failed-tasks-set-their-timer-on-the-wheel-being-drained",
			fmt.Sprintf("%s never completes: the wheel's goroutine is parked in TaskRunner.Schedule inside drainAll waiting for a free drain worker; all drain workers are parked in clean() waiting for a free clean worker; all clean workers ran a task that failed and are parked in SetTimer on that same wheel (the retry), which only the wheel's goroutine can serve. %d pending clean tasks are never called", during, never), wt)
		return
	}
	vf12RunnerDead = true
	class := "fewer-panics-than-workers"
	if panics >= cleanWorkers {
		class = "after-as-many-panicking-tasks-as-workers"
	}
	w.c.Viol("C12/consumer-cleaner/task-never-ran/stuck-in-TaskRunner.Schedule/"+class,
		fmt.Sprintf("after %d clean tasks have panicked every goroutine that has a TaskRunner frame is parked in TaskRunner.Schedule (called from %s) waiting for a slot that no live goroutine holds: %d clean tasks that are due will never be called (%s)", panics, d.where, never, during), wt)
}

// vfSettle: the wheel's loop is back in its select and everything it started has finished.
func (w *vf12World) vfSettle(during string, busy bool, pre func(abort <-chan struct{})) bool {
	d := w.vfWatched(func(abort <-chan struct{}) {
		if pre != nil {
			pre(abort)
		}
		w.tw.RemoveTimer("vf12-sync")
	})
	if d == nil {
		var ok bool
		if ok, d = w.vfQuiesce(busy, w.baseline); !ok && d == nil {
			w.c.Inconclusive("cleaner (white-box): goroutines did not finish after " + during)
			w.dead = true
			return false
		}
	}
	if d != nil {
		w.vfDeadlock(during, d)
		return false
	}
	return true
}

func (w *vf12World) vfAdd(script []string) *vf12Task {
	t := &vf12Task{id: len(w.tasks), script: script, added: w.ticks, due: w.ticks + 1, delay: time.Second}
	w.mu.Lock()
	w.tasks = append(w.tasks, t)
	w.mu.Unlock()
	w.log = append(w.log, fmt.Sprintf("tick %d: AddCleanTask(task %d %v)", w.ticks, t.id, script))
	AddCleanTask(func() error {
		w.mu.Lock()
		if w.closed {
			w.mu.Unlock()
			return nil
		}
		t.ncalls++
		n := t.ncalls
		if w.inDrain {
			t.calls = append(t.calls, fmt.Sprintf("drain@t%d", w.ticks))
		} else {
			t.calls = append(t.calls, fmt.Sprintf("t%d", w.ticks+1)) // called while tick ticks+1 is being processed
		}
		w.pendingC = append(w.pendingC, t.id)
		out := "ok"
		if n <= len(t.script) {
			out = t.script[n-1]
		}
		if out == "panic" {
			w.panics++
		}
		w.mu.Unlock()
		switch out {
		case "panic":
			kit.Obs("wb_clean_task_panics", 1)
			panic("c12: poisoned clean task")
		case "err":
			return errors.New("c12: the store is down")
		}
		return nil
	}, fmt.Sprintf("c12w:%d:%d", w.c.Index, t.id))
	return t
}

// vfCollect compares the calls made since the last collection with the model: exactly the tasks
// in `want` are called, once each. T is the tick the model is at afterwards.
func (w *vf12World) vfCollect(T int, viaDrain bool) bool {
	w.mu.Lock()
	ids := w.pendingC
	w.pendingC = nil
	w.mu.Unlock()
	how := "tick"
	if viaDrain {
		how = "drain"
	}
	seen := map[int]int{}
	for _, id := range ids {
		seen[id]++
	}
	sorted := make([]int, 0, len(seen))
	for id := range seen {
		sorted = append(sorted, id)
	}
	sort.Ints(sorted)
	for _, id := range sorted {
		t := w.tasks[id]
		if t.dead {
			w.c.Obs("wb_calls_of_tasks_that_had_panicked_not_judged", int64(seen[id]))
			continue
		}
		expected := t.due > 0 && !t.done && (viaDrain || t.due == T)
		class := "first-run"
		if t.retries > 0 {
			class = "retry"
		}
		switch {
		case seen[id] > 1:
			w.c.Viol("C12/consumer-cleaner/task-ran-twice/"+how+"/"+class, fmt.Sprintf("clean task %d was called %d times at one %s (tick %d)", id, seen[id], how, T), w.vfWitness(""))
			return false
		case !expected && (t.done || t.due == 0):
			w.c.Viol("C12/consumer-cleaner/task-ran-without-pending-timer/"+how, fmt.Sprintf("clean task %d was called at tick %d although it has no pending timer (it succeeded, or its schedule is exhausted)", id, T), w.vfWitness(""))
			return false
		case !expected && t.due > T:
			w.c.Viol("C12/consumer-cleaner/task-ran-early/"+class, fmt.Sprintf("clean task %d was called at tick %d, its timer (%v) is due at tick %d", id, T, t.delay, t.due), w.vfWitness(""))
			return false
		case !expected:
			w.c.Viol("C12/consumer-cleaner/task-ran-late/"+class, fmt.Sprintf("clean task %d was called at tick %d, its timer (%v) was due at tick %d", id, T, t.delay, t.due), w.vfWitness(""))
			return false
		}
		// the call is the one the model expects: apply its outcome
		out := "ok"
		if t.modelCalls < len(t.script) {
			out = t.script[t.modelCalls]
		}
		t.modelCalls++
		if t.retries > 0 && !viaDrain {
			w.c.Obs("wb_retries_run_at_their_due_tick", 1)
		}
		if viaDrain {
			w.c.Obs("wb_tasks_delivered_by_drain", 1)
		}
		switch out {
		case "ok":
			t.done, t.due = true, 0
		case "panic":
			t.dead, t.due = true, 0
		default:
			if next, ok := nextDelay(t.delay); ok {
				t.delay = next
				t.due = T + int(next/time.Second)
				t.retries++
			} else {
				t.done, t.due = true, 0 // "retried but failed": the cleaner gives up
				w.c.Obs("wb_schedules_exhausted", 1)
			}
		}
	}
	// every task the model expects must have been called
	for _, t := range w.tasks {
		if t.dead || t.done || t.due == 0 {
			continue
		}
		if (viaDrain && t.modelCalls == t.callsAtDrainStart) || (!viaDrain && t.due == T) {
			class := "first-run"
			if t.retries > 0 {
				class = "retry"
			}
			after := "no-panics-before"
			if w.panicsBefore() >= cleanWorkers {
				after = "after-as-many-panicking-tasks-as-workers"
			} else if w.panicsBefore() > 0 {
				after = "after-fewer-panicking-tasks-than-workers"
			}
			if viaDrain {
				w.c.Viol("C12/consumer-cleaner/drain/missing/"+after, fmt.Sprintf("Drain(clean) at tick %d did not call pending clean task %d (timer %v due at tick %d)", T, t.id, t.delay, t.due), w.vfWitness(""))
			} else {
				w.c.Viol("C12/consumer-cleaner/task-not-run-at-due-tick/"+class+"/"+after, fmt.Sprintf("clean task %d was not called at tick %d at which its timer (%v) is due, although the tick has been processed and every goroutine it started has finished", t.id, T, t.delay), w.vfWitness(""))
			}
			return false
		}
	}
	return true
}

func (w *vf12World) panicsBefore() int {
	w.mu.Lock()
	defer w.mu.Unlock()
	return w.panics
}

func (w *vf12World) vfTick() bool {
	busy := false // does the model expect any call at this tick
	for _, t := range w.tasks {
		if !t.dead && !t.done && t.due == w.ticks+1 {
			busy = true
		}
	}
	ok := w.vfSettle(fmt.Sprintf("tick %d", w.ticks+1), busy, func(abort <-chan struct{}) {
		select {
		case w.tk.c <- time.Time{}:
		case <-abort:
		}
	})
	if !ok {
		return false
	}
	w.mu.Lock()
	w.ticks++ // read by the clean tasks (labels of their calls)
	w.mu.Unlock()
	w.c.Obs("wb_ticks", 1)
	return w.vfCollect(w.ticks, false)
}

// vfDrain does what the shutdown listener of cleaner.go does: Drain(clean).
func (w *vf12World) vfDrain() bool {
	pending := 0
	for _, t := range w.tasks {
		t.callsAtDrainStart = t.modelCalls
		if !t.dead && !t.done && t.due > 0 {
			pending++
		}
	}
	w.log = append(w.log, fmt.Sprintf("tick %d: Drain(clean) with %d tasks pending", w.ticks, pending))
	w.mu.Lock()
	w.inDrain = true
	w.mu.Unlock()
	if err := w.tw.Drain(clean); err != nil {
		w.c.Viol("C12/api-error/drain", err.Error(), w.vfWitness(""))
		return false
	}
	ok := w.vfSettle(fmt.Sprintf("Drain(clean) at tick %d (%d tasks pending)", w.ticks, pending), true, nil)
	w.mu.Lock()
	w.inDrain = false
	w.mu.Unlock()
	if !ok {
		return false
	}
	w.c.Obs("wb_drains_like_the_shutdown_listener", 1)
	w.c.Obs("wb_tasks_pending_at_drain", int64(pending))
	return w.vfCollect(w.ticks, true)
}

func vf12CleanerCase(c *kit.Case) {
	r := c.R
	W := cleanWorkers
	// ---- a wheel and a runner of its own for the case
	vf12BaseOnce.Do(func() {
		runtime.Gosched()
		time.Sleep(10 * time.Millisecond)
		vf12Base = runtime.NumGoroutine()
	})
	vf12LeakMu.Lock()
	before := vf12Base + len(vf12KnownParked)
	vf12LeakMu.Unlock()
	if vf12RunnerDead {
		// an earlier case of this process found the package's task runner without a free slot and
		// nobody to free one (reported there); the runner is a package variable that clean() reads
		// from its goroutines, so it is not replaced behind their back
		c.Obs("wb_cases_skipped_the_package_runner_is_dead", 1)
		return
	}
	for i := 0; runtime.NumGoroutine() > before || !vf12Idle(vf12AllStacks()); i++ {
		if i > 200000 {
			c.Inconclusive("cleaner (white-box): goroutine count did not return to the process baseline")
			return
		}
		time.Sleep(200 * time.Microsecond)
	}
	oldTW := timingWheel.Load()
	tk := &vf12Ticker{c: make(chan time.Time)}
	tw, err := collection.NewTimingWheelWithTicker(time.Second, timingWheelSlots, clean, tk)
	if err != nil {
		c.Viol("C12/ctor/valid-arguments-rejected", err.Error(), nil)
		return
	}
	timingWheel.Store(tw)
	w := &vf12World{c: c, tw: tw, tk: tk, baseline: before + 1}
	defer func() {
		w.vfStop()
		timingWheel.Store(oldTW)
		if !w.dead {
			for i := 0; i < 100000 && runtime.NumGoroutine() > before; i++ {
				time.Sleep(20 * time.Microsecond)
			}
		}
	}()

	// ---- plan
	var P int
	switch c.Index % 6 {
	case 0:
		P = W
	case 1:
		P = W + 1
	case 2:
		P = 2*W + 1
	case 3:
		P = 0
	case 4:
		P = r.Range(1, W-1)
	default:
		P = 3 * W
	}
	panicOnRetry := c.Index%2 == 1 && P > 0 // the store errors first, the RETRY panics (5 ticks later)
	long := 0                                // length of the longest error run
	switch {
	case c.Index%48 == 7:
		long = 5 // the whole schedule: 1 s, 5 s, 1 min, 5 min, 1 h, then the cleaner gives up
	case c.Index%12 == 3:
		long = 3
	case c.Index%4 == 2:
		long = 2
	}
	var scripts [][]string
	for i := 0; i < P; i++ {
		if panicOnRetry {
			scripts = append(scripts, []string{"err", "panic"})
		} else {
			scripts = append(scripts, []string{"panic"})
		}
	}
	for i, m := 0, r.Range(1, 8); i < m; i++ {
		scripts = append(scripts, []string{"ok"})
	}
	for i, m := 0, r.Range(0, 4); i < m; i++ {
		scripts = append(scripts, []string{"err", "ok"})
	}
	for i, m := 0, r.Range(0, 2); i < m; i++ {
		scripts = append(scripts, []string{"err", "panic"})
	}
	if long > 0 {
		s := []string{}
		for i := 0; i < long; i++ {
			s = append(s, "err")
		}
		scripts = append(scripts, append(s, "ok"))
		if long == 5 {
			scripts[len(scripts)-1] = s // never succeeds
		}
	}
	perm := r.Perm(len(scripts))
	waves := r.Range(1, 3)
	drainAt := -1 // wave after which Drain(clean) is called
	if r.Chance(0.5) {
		drainAt = r.Intn(waves)
	}
	drainBeforeTick := r.Bool() // Drain right after the adds (everything pending) or after one tick (retries pending)
	maxDue := func() int {
		m := 0
		for _, t := range w.tasks {
			if !t.dead && !t.done && t.due > m {
				m = t.due
			}
		}
		return m
	}
	for wave := 0; wave < waves && !w.dead; wave++ {
		lo, hi := wave*len(perm)/waves, (wave+1)*len(perm)/waves
		for _, i := range perm[lo:hi] {
			w.vfAdd(scripts[i])
		}
		if wave == drainAt {
			if !drainBeforeTick {
				if !w.vfTick() {
					return
				}
			}
			if !w.vfDrain() {
				return
			}
		}
		for i, m := 0, r.Range(1, 7); i < m; i++ {
			if !w.vfTick() {
				return
			}
		}
	}
	// ---- tasks added after the panics have happened: ticks until the short retries (5 s) are through
	for w.ticks < 8 || (panicOnRetry && w.panicsBefore() < P && w.ticks < maxDue()) {
		if !w.vfTick() {
			return
		}
	}
	late := r.Range(W+1, 2*W+2)
	for i := 0; i < late; i++ {
		s := []string{"ok"}
		if r.Chance(0.2) {
			s = []string{"err", "ok"}
		}
		w.vfAdd(s)
	}
	if drainAt >= 0 && r.Chance(0.3) {
		if !w.vfDrain() { // a second Drain, now after the panics
			return
		}
	}
	// ---- to the end of every pending schedule
	for guard := 0; guard < 4200; guard++ {
		end := maxDue()
		if end == 0 {
			break
		}
		if !w.vfTick() {
			return
		}
	}
	if !w.vfTick() || !w.vfTick() { // two more ticks: nothing is pending, nothing may be called
		return
	}
	for _, t := range w.tasks {
		if !t.dead && !t.done {
			c.Viol("C12/harness-flush-too-short", "internal: a clean task is still pending at the end of the case", w.vfWitness(""))
			return
		}
	}
	calls := 0
	for _, t := range w.tasks {
		calls += t.modelCalls
	}
	panics := w.panicsBefore()
	c.Obs("wb_cleaner_histories", 1)
	c.Obs("wb_clean_tasks", int64(len(w.tasks)))
	c.Obs("wb_clean_task_calls_at_their_due_tick", int64(calls))
	c.Obs("wb_tasks_added_after_the_panics_run_exactly_once", int64(late))
	if panics >= W {
		c.Obs("wb_histories_panics_ge_workers", 1)
	}
	if panics > W {
		c.Obs("wb_histories_panics_gt_workers", 1)
	}
	if panics > 2*W {
		c.Obs("wb_histories_panics_gt_2x_workers", 1)
	}
	if panicOnRetry {
		c.Obs("wb_histories_retry_panics", 1)
	}
	if long == 5 {
		c.Obs("wb_histories_full_retry_schedule", 1)
	}
	c.Sig(panics > 0 && late > 0, "wb-cleaner", P, panicOnRetry, long, waves, drainAt, drainBeforeTick, len(w.tasks), w.ticks)
	if c.Index < 2 {
		c.Sample("wb-cleaner-panic", 2, w.vfWitness(""))
	}
}

func TestVerifC12W(t *testing.T) {
	logx.Disable()
	kit.Run(t, "C12", "wb-cleaner-panic", kit.N(192, 6000), vf12CleanerCase)
	kit.End()
}
