package cache

// White-box part of C06 (DESIGN.md §4 C06), mapped into core/stores/cache with
// `go test -overlay`.
//
//  1. retry: the background re-invalidation (cleaner.go) decided in ticks. The
//     package's timing wheel is replaced, per case, by one built with
//     collection.NewTimingWheelWithTicker on a harness ticker whose channel is
//     unbuffered, with the production geometry (1 s interval, timingWheelSlots,
//     execute = clean for everything but the harness's marker). A tick is
//     complete when (a) the wheel's loop took it, (b) a marker timer set right
//     before the tick (therefore the last entry of the slot that tick scans; the
//     wheel executes a slot in order) has been executed, i.e. clean() has
//     returned for every task that was due, and (c) taskRunner.Wait() returned,
//     i.e. every retry - including re-arming its timer - has finished. No
//     wall-clock wait decides anything.
//     History: read(K) caches the rows; outage of some or all store nodes;
//     database writes followed by Del(keys...) through the cache (what
//     sqlc.CachedConn.Exec / monc.Model.UpdateOne do) - the DEL fails on the nodes
//     that are down and is handed to the cleaner; the outage lasts L ticks, L
//     placed on both sides of every documented retry instant (1 s, +5 s, +1 min,
//     +5 min, +1 h after the failed DEL); the store recovers; the wheel is ticked
//     until every documented retry is due.
//     Demanded (statement: coherent reads after a write with the key; the known
//     finding allows staleness only until the cleaner's retry): keys on healthy
//     nodes are invalidated by the call itself; once all documented retries were
//     due (and fewer than all of them fell into the outage) the stale entry is
//     gone and a read returns what the database holds; an entry cached after the
//     invalidation took place is served without a database query until the end
//     of the schedule (no retry fires again once it succeeded, none exists for a
//     key whose DEL succeeded). Several pending tasks - same keys on the nodes of
//     two independent stores, the same key invalidated twice - must each do
//     their work. Not demanded: the instants themselves, the number of attempts
//     (both only observed).
//  2. badentry: an entry that does not unmarshal into the reader's type (written
//     through Set with another type, or raw): no panic; a read that reports
//     success returned the database row; at most one query; no persistent key.
//  3. nodispatch: a cacheCluster whose dispatcher has no node (not constructible
//     through New; reach only): no panic, a read reporting success returned the
//     database row.

import (
	"context"
	"encoding/json"
	"errors"
	"fmt"
	"strconv"
	"strings"
	"sync"
	"sync/atomic"
	"testing"
	"time"

	"github.com/alicebob/miniredis/v2"
	"github.com/alicebob/miniredis/v2/server"
	red "github.com/redis/go-redis/v9"

	kit "github.com/zeromicro/go-zero/internal/verifkit"

	"github.com/zeromicro/go-zero/core/collection"
	"github.com/zeromicro/go-zero/core/hash"
	"github.com/zeromicro/go-zero/core/logx"
	"github.com/zeromicro/go-zero/core/stores/redis"
	"github.com/zeromicro/go-zero/core/syncx"
)

const (
	vfWatchdog = 300 * time.Second
	vfErrReply = "ERR verif injected outage"
	vfUp       = 0
	vfDownAll  = 1
	vfStaleKey = "C06/stale-after-failed-invalidate" // known finding: stale until the cleaner's retry
)

// vfInstants: ticks after the failed DEL at which cleaner.go documents a retry.
var vfInstants = []int{1, 6, 66, 366, 3966}

var (
	vfErrNF  = errors.New("verif: configured not-found error")
	vfClock  *kit.VClock
	vfBroken atomic.Bool // a case hit its watchdog: process-global state (wheel, task runner) is unknown
	vfStat   = NewStat("verif-c06w")
)

// ---------------------------------------------------------------- ticker / wheel

type vfTicker struct{ c chan time.Time }

func (t *vfTicker) Chan() <-chan time.Time { return t.c }
func (t *vfTicker) Stop()                  {}

type vfWheel struct {
	tk    *vfTicker
	tw    *collection.TimingWheel
	seq   int
	ticks int
	dead  <-chan time.Time // watchdog of the case
}

// vfCanary is the value of the harness's marker timer: the wheel hands every due
// entry of a slot to its execute function in order; everything but the marker
// goes to the production callback clean().
type vfCanary chan struct{}

func vfExecute(key, value any) {
	if ch, ok := value.(vfCanary); ok {
		close(ch)
		return
	}
	clean(key, value)
}

func vfNewWheel() (*vfWheel, error) {
	tk := &vfTicker{c: make(chan time.Time)}
	// production geometry: see init() in cleaner.go
	tw, err := collection.NewTimingWheelWithTicker(time.Second, timingWheelSlots, vfExecute, tk)
	if err != nil {
		return nil, err
	}
	timingWheel.Store(tw)
	return &vfWheel{tk: tk, tw: tw, dead: time.After(vfWatchdog)}, nil
}

// tick advances the wheel by one interval and returns when everything that
// tick started has finished (see the file comment).
func (w *vfWheel) tick() bool {
	vfClock.Advance(11 * time.Second) // the redis client's breaker window is empty at every tick
	done := make(vfCanary)
	w.seq++
	w.tw.SetTimer("vf-canary-"+strconv.Itoa(w.seq), done, time.Second)
	select {
	case w.tk.c <- time.Time{}:
	case <-w.dead:
		return false
	}
	select {
	case <-done:
	case <-w.dead:
		return false
	}
	taskRunner.Wait()
	w.ticks++
	return true
}

// ---------------------------------------------------------------- store nodes

type vfDel struct {
	keys   []string
	failed bool
	tick   int
	inOp   bool
}

type vfNode struct {
	name string
	mr   *miniredis.Miniredis
	rds  *redis.Redis
	down atomic.Int32

	mu   sync.Mutex
	dels []vfDel
}

var (
	vfInOp   atomic.Bool
	vfTickNo atomic.Int64
)

func (n *vfNode) hook(c *server.Peer, cmd string, args ...string) bool {
	switch strings.ToUpper(cmd) {
	case "GET", "PING", "SET", "SETEX", "SETNX", "PSETEX":
		if n.down.Load() != vfUp {
			c.WriteError(vfErrReply)
			return true
		}
	case "DEL", "UNLINK":
		failed := n.down.Load() != vfUp
		n.mu.Lock()
		n.dels = append(n.dels, vfDel{keys: append([]string(nil), args...), failed: failed, tick: int(vfTickNo.Load()), inOp: vfInOp.Load()})
		n.mu.Unlock()
		if failed {
			c.WriteError(vfErrReply)
			return true
		}
	}
	return false
}

// vfDrvHook sits innermost in the client's hook chain: a command that ends with a
// network-level error (not a server reply) is trouble of the environment - the
// harness never cuts connections here -, never behaviour of the cache.
type vfDrvHook struct{}

var (
	vfEnvErrs    atomic.Int64
	vfLastEnvErr atomic.Value
)

func (vfDrvHook) DialHook(next red.DialHook) red.DialHook { return next }
func (vfDrvHook) ProcessHook(next red.ProcessHook) red.ProcessHook {
	return func(ctx context.Context, cmd red.Cmder) error {
		err := next(ctx, cmd)
		if err != nil && !errors.Is(err, red.Nil) {
			if _, isReply := err.(red.Error); !isReply {
				vfEnvErrs.Add(1)
				vfLastEnvErr.Store(cmd.Name() + ": " + err.Error())
			}
		}
		return err
	}
}
func (vfDrvHook) ProcessPipelineHook(next red.ProcessPipelineHook) red.ProcessPipelineHook {
	return next
}

func (n *vfNode) takeDels() []vfDel {
	n.mu.Lock()
	d := n.dels
	n.dels = nil
	n.mu.Unlock()
	return d
}

func vfNewNode(name string, cluster bool) (*vfNode, error) {
	mr, err := miniredis.Run()
	if err != nil {
		return nil, err
	}
	n := &vfNode{name: name, mr: mr}
	mr.Server().SetPreHook(n.hook)
	if cluster {
		n.rds = redis.New(mr.Addr(), redis.Cluster(), redis.WithHook(vfDrvHook{}))
	} else {
		n.rds = redis.New(mr.Addr(), redis.WithHook(vfDrvHook{}))
	}
	for i := 0; i < 3000; i++ {
		if n.rds.Ping() {
			return n, nil
		}
		time.Sleep(10 * time.Millisecond)
	}
	return nil, fmt.Errorf("node %s does not answer", name)
}

// ---------------------------------------------------------------- stores

type vfRow struct {
	ID  int64  `json:"id"`
	Val int64  `json:"val"`
	Pad string `json:"pad"`
}

type vfStore struct {
	Name    string   `json:"name"`
	Flavour string   `json:"flavour"` // node | cluster2 | cluster3 | rcluster (one node, cluster-type client: per-key DEL)
	Nodes   []string `json:"nodes"`
	c       Cache
	nodes   []*vfNode
	db      map[string]*vfRow
	q       map[string]int
	version int64
	nfSeq   int // absent rows are reported in the shapes of vfShapedNF in rotation
}

// vfIsNF answers errors.Is for the configured not-found error without wrapping it.
type vfIsNF struct{ what string }

func (e *vfIsNF) Error() string        { return "verif: repository: " + e.what + " does not exist" }
func (e *vfIsNF) Is(target error) bool { return target == vfErrNF }

var vfNFShapeNames = []string{"bare", "wrap1", "wrap2", "join", "is-method"}

// vfShapedNF: the ways in which a query closure can say "no such row" to a cache that was
// configured with vfErrNF (go-zero classifies with errors.Is): the error itself, wrapped with
// %w once and twice, joined with another error, through an Is method. The oracle of every
// family is the same for all of them (the configured error comes back, the marker is cached).
func vfShapedNF(n int, what string) error {
	switch n % 5 {
	case 1:
		return fmt.Errorf("find %s: %w", what, vfErrNF)
	case 2:
		return fmt.Errorf("repository: %w", fmt.Errorf("find %s: %w", what, vfErrNF))
	case 3:
		return errors.Join(errors.New("verif: audit log unavailable"), vfErrNF)
	case 4:
		return &vfIsNF{what}
	}
	return vfErrNF
}

// vfCurCase is the case in progress (observation counters of the stores' query closures).
var vfCurCase *kit.Case

func (s *vfStore) query(key string) func(v any) error {
	return func(v any) error {
		s.q[key]++
		r := s.db[key]
		if r == nil {
			s.nfSeq++
			n := s.nfSeq
			if vfCurCase != nil {
				n += vfCurCase.Index // the rotation starts at another shape in every case
				vfCurCase.Obs("w_absent_row_queries_shape_"+vfNFShapeNames[n%5], 1)
			}
			return vfShapedNF(n, key)
		}
		*v.(*vfRow) = *r
		return nil
	}
}

// read: Take through the cache; returns the row, the error and the number of database queries it ran.
func (s *vfStore) read(key string) (vfRow, error, int) {
	var v vfRow
	s.q = map[string]int{}
	vfClock.Advance(11 * time.Second)
	vfInOp.Store(true)
	err := s.c.TakeCtx(context.Background(), &v, key, s.query(key))
	vfInOp.Store(false)
	return v, err, s.q[key]
}

func (s *vfStore) del(keys ...string) error {
	vfClock.Advance(11 * time.Second)
	vfInOp.Store(true)
	err := s.c.DelCtx(context.Background(), keys...)
	vfInOp.Store(false)
	return err
}

func (s *vfStore) same(got vfRow, err error, key string) bool {
	want := s.db[key]
	if want == nil {
		return err != nil && errors.Is(err, vfErrNF)
	}
	return err == nil && got == *want
}

func (s *vfStore) nodeOf(key string) *vfNode {
	for _, n := range s.nodes {
		if n.mr.Exists(key) {
			return n
		}
	}
	return nil
}

func (s *vfStore) want(key string) string {
	if s.db[key] == nil {
		return "<absent>"
	}
	return fmt.Sprint(*s.db[key])
}

func vfRes(v vfRow, err error) string {
	if err != nil {
		return "error: " + err.Error()
	}
	return fmt.Sprint(v)
}

type vfWorld struct {
	plain []*vfNode // 6 node-type stores
	rcl   []*vfNode // 2 cluster-type clients
}

func vfNewWorld() (*vfWorld, error) {
	w := &vfWorld{}
	for i := 0; i < 6; i++ {
		n, err := vfNewNode(fmt.Sprintf("N%d", i), false)
		if err != nil {
			return nil, err
		}
		w.plain = append(w.plain, n)
	}
	for i := 0; i < 2; i++ {
		n, err := vfNewNode(fmt.Sprintf("R%d", i), true)
		if err != nil {
			return nil, err
		}
		w.rcl = append(w.rcl, n)
	}
	return w, nil
}

func (w *vfWorld) all() []*vfNode { return append(append([]*vfNode(nil), w.plain...), w.rcl...) }

func (w *vfWorld) reset() {
	for _, n := range w.all() {
		n.down.Store(vfUp)
		n.mr.FlushAll()
		n.takeDels()
	}
	vfClock.Advance(11 * time.Second)
}

// mkStore builds store i of a case (node sets of the stores of a case are disjoint).
func (w *vfWorld) mkStore(i int, flavour string, barrier syncx.SingleFlight) *vfStore {
	s := &vfStore{Name: fmt.Sprintf("S%d", i), Flavour: flavour, db: map[string]*vfRow{}, q: map[string]int{}}
	opts := []Option{WithExpiry(time.Hour), WithNotFoundExpiry(time.Hour)}
	switch flavour {
	case "node":
		s.nodes = w.plain[3*i : 3*i+1]
		s.c = NewNode(s.nodes[0].rds, barrier, vfStat, vfErrNF, opts...)
	case "rcluster":
		s.nodes = w.rcl[i : i+1]
		s.c = NewNode(s.nodes[0].rds, barrier, vfStat, vfErrNF, opts...)
	case "cluster2", "cluster3":
		k := 2
		if flavour == "cluster3" {
			k = 3
		}
		s.nodes = w.plain[3*i : 3*i+k]
		var conf ClusterConf
		for _, n := range s.nodes {
			conf = append(conf, NodeConf{RedisConf: redis.RedisConf{Host: n.mr.Addr(), Type: redis.NodeType, NonBlock: true}, Weight: 100})
		}
		s.c = New(conf, barrier, vfStat, vfErrNF, opts...)
	default:
		panic("flavour " + flavour)
	}
	for _, n := range s.nodes {
		s.Nodes = append(s.Nodes, n.name)
	}
	return s
}

// ---------------------------------------------------------------- retry family

// vfKey is one key of one store during a retry case.
type vfKey struct {
	Store     string `json:"store"`
	Key       string `json:"key"`
	Node      string `json:"node"`
	Stale     string `json:"entry_whose_invalidation_failed,omitempty"`
	Tasks     int    `json:"failed_invalidations"`
	LastFail  int    `json:"tick_of_last_failed_invalidation"`
	KeyList   string `json:"key_list_of_the_failed_del,omitempty"`
	Resolved  int    `json:"stale_entry_gone_at_tick"` // -1: not (yet)
	Deletions int    `json:"deletions_by_the_cleaner"`
	st        *vfStore
	node      *vfNode
}

// vfCovered: how many documented retries of a task queued at tick `from` are due up to tick `upTo`.
func vfCovered(from, upTo int) int {
	n := 0
	for _, t := range vfInstants {
		if from+t <= upTo {
			n++
		}
	}
	return n
}

var vfOutages = []int{0, 0, 0, 1, 1, 1, 2, 4, 5, 5, 5, 6, 6, 6, 7, 30, 65, 65, 66, 66, 67, 200, 365, 366, 367}

func vfRetry(w *vfWorld, c *kit.Case) {
	r := c.R
	w.reset()
	wh, err := vfNewWheel()
	if err != nil {
		c.Inconclusive("timing wheel: " + err.Error())
		return
	}
	defer wh.tw.Stop()
	vfTickNo.Store(0)
	tick := func() bool {
		vfTickNo.Add(1)
		if !wh.tick() {
			vfBroken.Store(true)
			c.Inconclusive("a tick of the cleaner's timing wheel did not complete within the watchdog")
			return false
		}
		return true
	}

	// ---- configuration
	nStores := 1 + r.Pick(3, 2)
	var stores []*vfStore
	barrier := syncx.NewSingleFlight()
	for i := 0; i < nStores; i++ {
		fl := []string{"node", "cluster2", "cluster3", "rcluster"}[r.Pick(4, 3, 3, 2)]
		stores = append(stores, w.mkStore(i, fl, barrier))
	}
	nKeys := r.Range(1, 4)
	if r.Chance(0.12) {
		// many retries due at the same tick (more than the cleaner's workers): per-key tasks of a cluster-type client
		nKeys = r.Range(6, 10)
		stores[0] = w.mkStore(0, "rcluster", barrier)
		c.Obs("retry_cases_with_more_tasks_than_workers", 1)
	}
	var keys []string
	for k := 0; k < nKeys; k++ {
		keys = append(keys, fmt.Sprintf("w%d:k%d", c.Index, k))
	}
	L := kit.Choose(r, vfOutages)
	switch x := r.Intn(100); {
	case x < 3 || kit.Thorough() && x < 12:
		L = []int{3965, 3966, 3967}[r.Intn(3)]
	case x < 10:
		L = r.Range(8, 400)
	}
	last := vfInstants[len(vfInstants)-1]
	full := r.Chance(0.2) || L > 366 // tick to the end of the documented schedule (else: past the retry after the successful one)
	var log []string
	say := func(f string, a ...any) { log = append(log, fmt.Sprintf("[tick %d] ", wh.ticks)+fmt.Sprintf(f, a...)) }
	ks := map[string]*vfKey{} // store/key
	var order []*vfKey
	vfEnvErrs.Store(0)
	viol := func(key, what string) {
		if vfEnvErrs.Load() > 0 {
			c.Inconclusive(fmt.Sprintf("network-level driver error during the case (%v); would have reported %s", vfLastEnvErr.Load(), key))
			c.Obs("env_errors", 1)
			return
		}
		c.Viol(key, what, map[string]any{"stores": stores, "outage_ticks_after_last_write": L, "history": log, "keys": order,
			"documented_retry_instants_ticks_after_failed_del": vfInstants, "tick_now": wh.ticks})
	}

	// ---- populate: every key of every store is read once (row or not-found marker gets cached)
	for _, s := range stores {
		s.c.Del() // an Exec without keys: nothing to invalidate
		for _, k := range keys {
			if r.Chance(0.8) {
				s.version++
				s.db[k] = &vfRow{ID: int64(len(k)), Val: s.version, Pad: s.Name}
			}
			got, err, q := s.read(k)
			if !s.same(got, err, k) || q != 1 {
				viol("C06/coherence/uncached-read-wrong/read", fmt.Sprintf("first read of %s returned %s with %d queries, database holds %s", k, vfRes(got, err), q, s.want(k)))
				return
			}
			if err != nil && !s.c.IsNotFound(err) {
				c.Obs("retry_isnotfound_disagrees", 1)
			}
			n := s.nodeOf(k)
			if n == nil {
				viol("C06/cached/not-cached-after-read", fmt.Sprintf("%s is on no node of %s after a successful read", k, s.Name))
				return
			}
			kk := &vfKey{Store: s.Name, Key: k, Node: n.name, Resolved: -1, st: s, node: n}
			ks[s.Name+"/"+k] = kk
			order = append(order, kk)
		}
	}
	say("populated %d keys in %d stores", nKeys, nStores)

	// ---- outage: all nodes of a store, or one node of a cluster
	for _, s := range stores {
		if len(s.nodes) > 1 && r.Chance(0.6) {
			n := kit.Choose(r, s.nodes)
			n.down.Store(vfDownAll)
			say("outage of %s (one node of %s)", n.name, s.Name)
			c.Obs("retry_partial_cluster_outages", 1)
		} else {
			for _, n := range s.nodes {
				n.down.Store(vfDownAll)
			}
			say("outage of all nodes of %s", s.Name)
		}
	}

	// sweep: after a tick, which entries did the cleaner delete? A deleted entry is read again
	// (fresh, cached again); more deletions than failed invalidations of the key are spurious.
	unresolved := 0
	sweep := func() bool {
		for _, kk := range order {
			if kk.node.mr.Exists(kk.Key) {
				continue
			}
			kk.Deletions++
			if kk.Tasks > 0 && kk.Resolved < 0 {
				kk.Resolved = wh.ticks
				unresolved--
				ix := 0
				for i, t := range vfInstants {
					if kk.LastFail+t == wh.ticks {
						ix = i + 1
					}
				}
				c.Obs(fmt.Sprintf("retry_resolved_at_documented_instant_%d_of_last_write", ix), 1)
			}
			if kk.Deletions > kk.Tasks {
				cls := "key-whose-del-succeeded"
				if kk.Tasks > 0 {
					cls = "after-successful-retry"
				}
				viol("C06/cleaner/spurious-invalidation/"+cls, fmt.Sprintf("%s/%s was cached after its invalidation had taken place and nothing wrote it since, yet the cleaner deleted it again at tick %d (%d deletions, %d failed invalidations)", kk.Store, kk.Key, wh.ticks, kk.Deletions, kk.Tasks))
				return false
			}
			got, err, q := kk.st.read(kk.Key)
			if !kk.st.same(got, err, kk.Key) {
				viol("C06/coherence/stale-value/after-cleaner-retry", fmt.Sprintf("read of %s after the cleaner's retry returned %s, database holds %s", kk.Key, vfRes(got, err), kk.st.want(kk.Key)))
				return false
			}
			if q != 1 {
				c.Obs("retry_reads_after_retry_not_one_query", 1)
			}
			c.Obs("retry_entries_removed_by_background_retry", 1)
		}
		return true
	}

	// ---- writes with invalidation; the last one defines the start of the outage length
	type wplan struct {
		st   *vfStore
		keys []string
	}
	var plans []wplan
	for _, s := range stores {
		for i, n := 0, 1+r.Pick(3, 1); i < n; i++ {
			p := wplan{st: s}
			for _, ix := range r.Perm(nKeys)[:r.Range(1, nKeys)] {
				p.keys = append(p.keys, keys[ix])
			}
			plans = append(plans, p)
		}
	}
	if nStores == 2 && r.Chance(0.7) {
		// the same key list invalidated on both stores (two services / tenants with the same key scheme)
		plans = []wplan{{stores[0], keys}, {stores[1], keys}}
		c.Obs("retry_same_key_list_on_two_stores", 1)
	}
	for pi, p := range plans {
		s := p.st
		for _, k := range p.keys {
			switch m := r.Pick(5, 2); {
			case m == 1 && s.db[k] != nil:
				s.db[k] = nil
			default:
				s.version++
				s.db[k] = &vfRow{ID: int64(len(k)), Val: s.version, Pad: s.Name}
			}
		}
		for _, n := range s.nodes {
			n.takeDels()
		}
		if err := s.del(p.keys...); err != nil {
			c.Obs("retry_del_returned_error", 1)
		}
		say("%s: database write + Del(%s)", s.Name, strings.Join(p.keys, ","))
		if len(p.keys) > 1 {
			c.Obs("retry_multi_key_dels", 1)
		}
		for _, k := range p.keys {
			kk := ks[s.Name+"/"+k]
			if kk.node.down.Load() != vfUp {
				if kk.Tasks == 0 {
					kk.Stale, _ = kk.node.mr.Get(k)
					unresolved++
				}
				kk.Tasks++
				kk.LastFail = wh.ticks
				kk.KeyList = strings.Join(p.keys, ",")
				c.Obs("retry_failed_invalidations", 1)
				continue
			}
			if kk.node.mr.Exists(k) {
				viol("C06/invalidate/key-survived/healthy-node", fmt.Sprintf("Del(%s) through %s (%s) returned, %s is still cached on the healthy node %s", strings.Join(p.keys, ","), s.Name, s.Flavour, k, kk.Node))
				return
			}
			c.Obs("retry_keys_on_healthy_nodes_deleted_by_the_call", 1)
			got, err, q := s.read(k)
			if !s.same(got, err, k) || q != 1 {
				viol("C06/coherence/uncached-read-wrong/read", fmt.Sprintf("read of %s after its invalidation returned %s with %d queries, database holds %s", k, vfRes(got, err), q, s.want(k)))
				return
			}
		}
		if pi < len(plans)-1 {
			for i, n := 0, r.Pick(3, 2, 1, 1); i < n; i++ {
				if !tick() || !sweep() {
					return
				}
			}
		}
	}
	if unresolved == 0 {
		c.Obs("retry_cases_without_failed_invalidation", 1)
	}
	t0 := wh.ticks

	// ---- the outage lasts L more ticks
	attemptsDown := 0
	countAttempts := func() {
		for _, s := range stores {
			for _, n := range s.nodes {
				for _, d := range n.takeDels() {
					if d.inOp {
						continue
					}
					if d.failed {
						attemptsDown++
						c.Obs("retry_attempts_failed_during_outage", 1)
					} else {
						c.Obs("retry_attempts_executed", 1)
					}
				}
			}
		}
	}
	for i := 0; i < L; i++ {
		if !tick() || !sweep() {
			return
		}
	}
	countAttempts()
	for _, s := range stores {
		for _, n := range s.nodes {
			n.down.Store(vfUp)
		}
	}
	vfClock.Advance(11 * time.Second)
	up := wh.ticks
	say("stores recovered, %d ticks after the last write (%d retries of the cleaner failed meanwhile)", L, attemptsDown)
	c.Obs(fmt.Sprintf("retry_outage_covers_%d_documented_retries_of_last_write", vfCovered(t0, up)), 1)

	// a read between recovery and the retry: fresh, or exactly the entry whose invalidation failed (known finding)
	if unresolved > 0 && r.Chance(0.1) {
		var cand []*vfKey
		for _, kk := range order {
			if kk.Tasks > 0 && kk.Resolved < 0 {
				cand = append(cand, kk)
			}
		}
		kk := kit.Choose(r, cand)
		got, err, q := kk.st.read(kk.Key)
		switch {
		case kk.st.same(got, err, kk.Key):
			c.Obs("retry_reads_before_retry_fresh", 1)
		case q == 0 && vfServed(kk.Stale, got, err):
			c.Obs("retry_reads_before_retry_stale", 1)
			viol(vfStaleKey, fmt.Sprintf("read of %s returned %s from the entry whose invalidation failed; database holds %s", kk.Key, vfRes(got, err), kk.st.want(kk.Key)))
		default:
			viol("C06/tainted/neither-stale-nor-fresh", fmt.Sprintf("read of %s returned %s (%d queries); database holds %s, stale entry %q", kk.Key, vfRes(got, err), q, kk.st.want(kk.Key), kk.Stale))
			return
		}
	}

	// ---- tick on until every documented retry of every failed invalidation was due
	end := t0 + last + 2
	stopAt := end
	shortened := false
	for wh.ticks < stopAt {
		if !tick() || !sweep() {
			return
		}
		if unresolved == 0 && !full && !shortened {
			// go on past the instant at which a task that re-armed itself after its success would fire
			// (tasks of earlier writes are a few ticks ahead of those of the last one)
			shortened = true
			stopAt = wh.ticks + 8
			for _, t := range vfInstants[:4] {
				if t0+t > wh.ticks {
					stopAt = t0 + t + 8
					break
				}
			}
		}
	}
	countAttempts()
	say("ticked until %d ticks after the last write", wh.ticks-t0)
	c.Obs("retry_ticks", int64(wh.ticks))
	c.Obs("retry_cases", 1)
	if wh.ticks >= end {
		c.Obs("retry_cases_ticked_to_end_of_schedule", 1)
	}

	for _, kk := range order {
		if kk.Tasks == 0 || kk.Resolved >= 0 {
			continue
		}
		covered := vfCovered(kk.LastFail, up)
		if covered == len(vfInstants) {
			// every documented retry of the key's last task fell into the outage: the cleaner gives up
			c.Obs("retry_keys_given_up_outage_covers_all_retries", 1)
			continue
		}
		// classes: did any documented retry fall into the outage; was the very same key list, pending on
		// another store at the same time, invalidated there (tasks must not stand in for each other)
		cls := "outage-covers-some-retries"
		if covered == 0 {
			cls = "outage-covers-no-retry"
		}
		for _, o := range order {
			if o != kk && o.Store != kk.Store && o.Tasks > 0 && o.KeyList == kk.KeyList && o.Resolved >= 0 {
				cls += "/same-key-list-invalidated-on-another-store"
				break
			}
		}
		viol("C06/cleaner/entry-never-invalidated/"+cls,
			fmt.Sprintf("%s on %s still holds the entry %q whose invalidation failed at tick %d; the store recovered at tick %d (%d of the %d documented retries fell into the outage), it is tick %d now (1 tick = 1 s) and every documented retry was due; database holds %s",
				kk.Key, kk.Node, kk.Stale, kk.LastFail, up, covered, len(vfInstants), wh.ticks, kk.st.want(kk.Key)))
		return
	}

	// ---- every entry cached after its invalidation is still served without a query
	for _, kk := range order {
		if kk.Tasks > 0 && kk.Resolved < 0 {
			continue
		}
		got, err, q := kk.st.read(kk.Key)
		switch {
		case !kk.st.same(got, err, kk.Key):
			viol("C06/coherence/stale-value/after-cleaner-retry", fmt.Sprintf("final read of %s returned %s, database holds %s", kk.Key, vfRes(got, err), kk.st.want(kk.Key)))
			return
		case q > 0:
			viol("C06/cached/db-queried/after-cleaner-retry", fmt.Sprintf("final read of the cached key %s ran %d database queries", kk.Key, q))
			return
		}
		c.Obs("retry_entries_still_served_from_cache_at_the_end", 1)
	}
	for _, n := range w.all() {
		for _, k := range n.mr.Keys() {
			if n.mr.TTL(k) <= 0 {
				viol("C06/ttl/persistent-key/take", fmt.Sprintf("key %s on %s has no TTL", k, n.name))
				return
			}
			c.Obs("ttl_checks", 1)
		}
	}
	resolvedByRetry := 0
	var parts []any
	for _, s := range stores {
		parts = append(parts, s.Flavour)
	}
	parts = append(parts, nKeys, L, len(plans))
	var ids []string
	for _, kk := range order {
		if kk.Tasks > 0 {
			ids = append(ids, fmt.Sprintf("%s/%s:%d@%d", kk.Store, kk.Node, kk.Tasks, kk.Resolved-kk.LastFail))
			if kk.Resolved >= 0 {
				resolvedByRetry++
			}
		}
	}
	for _, id := range ids {
		parts = append(parts, id)
	}
	c.Sig(resolvedByRetry > 0 && attemptsDown > 0, parts...)
	c.Sample("retry", 2, map[string]any{"stores": stores, "outage_ticks_after_last_write": L, "history": log, "keys": order})
}

// vfServed: is (got, err) what the cached entry e holds?
func vfServed(e string, got vfRow, err error) bool {
	if e == "*" {
		return err != nil && errors.Is(err, vfErrNF)
	}
	var r vfRow
	return err == nil && json.Unmarshal([]byte(e), &r) == nil && r == got
}

// ---------------------------------------------------------------- badentry family

func vfBadEntry(w *vfWorld, c *kit.Case) {
	r := c.R
	w.reset()
	fl := []string{"node", "cluster2", "rcluster"}[r.Pick(3, 2, 1)]
	s := w.mkStore(0, fl, syncx.NewSingleFlight())
	key := fmt.Sprintf("b%d", c.Index)
	if r.Chance(0.7) {
		s.db[key] = &vfRow{ID: 7, Val: int64(c.Index) + 1, Pad: "db"}
	}
	how := r.Pick(3, 2, 2, 2, 2, 1)
	var err error
	desc := ""
	switch how {
	case 0:
		desc, err = `Set(key, "text")`, s.c.Set(key, "text")
	case 1:
		desc, err = `Set(key, []int{1,2})`, s.c.Set(key, []int{1, 2})
	case 2:
		desc, err = `Set(key, map{"id":"seven"})`, s.c.Set(key, map[string]any{"id": "seven", "val": 1})
	case 3:
		desc, err = `SetWithExpire(key, 12.5, 30s)`, s.c.SetWithExpire(key, 12.5, 30*time.Second)
	case 4:
		// raw garbage with a TTL (outside the statement: written behind the cache's back) - no panic only
		desc = `raw "{not json" with TTL 1h`
		for _, n := range s.nodes {
			n.mr.Set(key, "{not json")
			n.mr.SetTTL(key, time.Hour)
		}
	case 5:
		// a value that cannot be marshalled: the set must fail or write something with a TTL
		desc, err = `Set(key, chan)`, s.c.Set(key, make(chan int))
		if err == nil {
			c.Obs("badentry_unmarshallable_set_accepted", 1)
		} else {
			c.Obs("badentry_unmarshallable_set_refused", 1)
		}
		err = nil
	}
	wit := func(extra string) map[string]any {
		return map[string]any{"store": s, "key": key, "entry_written_by": desc, "db": s.want(key), "what": extra}
	}
	if err != nil {
		c.Inconclusive("set failed: " + err.Error())
		return
	}
	scanTTL := func(after string) bool {
		for _, n := range s.nodes {
			for _, k := range n.mr.Keys() {
				if n.mr.TTL(k) <= 0 {
					c.Viol("C06/ttl/persistent-key/after-broken-entry", fmt.Sprintf("key %s has no TTL after %s", k, after), wit(after))
					return false
				}
				c.Obs("ttl_checks", 1)
			}
		}
		return true
	}
	if !scanTTL(desc) {
		return
	}
	if r.Chance(0.3) {
		gerr := s.c.Get(key, &vfRow{})
		c.Obs("badentry_gets", 1)
		if gerr == nil {
			c.Obs("badentry_get_reported_success", 1)
		}
	}
	for i := 0; i < 2; i++ {
		var got vfRow
		var rerr error
		var q int
		if r.Chance(0.3) {
			s.q = map[string]int{}
			rerr = s.c.TakeWithExpire(&got, key, func(v any, _ time.Duration) error { return s.query(key)(v) })
			q = s.q[key]
		} else {
			got, rerr, q = s.read(key)
		}
		c.Obs("badentry_reads", 1)
		switch {
		case rerr == nil && (s.db[key] == nil || got != *s.db[key]):
			c.Viol("C06/coherence/broken-entry-read-reported-success", fmt.Sprintf("read %d of %s over an entry that does not unmarshal returned %v without error; database holds %s", i+1, key, got, s.want(key)), wit("read"))
			return
		case q > 1:
			c.Viol("C06/query/repeated/broken-entry", fmt.Sprintf("one read ran %d database queries", q), wit("read"))
			return
		case rerr == nil:
			c.Obs("badentry_reads_returned_db_row", 1)
		case errors.Is(rerr, vfErrNF):
			c.Obs("badentry_reads_not_found", 1)
		default:
			c.Obs("badentry_reads_error", 1)
		}
		if !scanTTL("the read") {
			return
		}
	}
	// the broken entry does not stay for ever: past every expiry a read is an ordinary uncached read
	for _, n := range s.nodes {
		n.mr.FastForward(2 * time.Hour)
	}
	got, rerr, _ := s.read(key)
	if !s.same(got, rerr, key) {
		c.Viol("C06/coherence/uncached-read-wrong/after-broken-entry-expired", fmt.Sprintf("read of %s after all entries expired returned %s, database holds %s", key, vfRes(got, rerr), s.want(key)), wit("read after expiry"))
		return
	}
	c.Obs("badentry_cases", 1)
	c.Sig(true, "badentry", fl, how, s.db[key] != nil)
	c.Sample("badentry", 2, wit(""))
}

// ---------------------------------------------------------------- nodispatch family

func vfNoDispatch(c *kit.Case) {
	cc := cacheCluster{dispatcher: hash.NewConsistentHash(), errNotFound: vfErrNF}
	key := fmt.Sprintf("e%d", c.Index)
	db := vfRow{ID: 1, Val: int64(c.Index), Pad: "db"}
	q := 0
	query := func(v any) error { q++; *v.(*vfRow) = db; return nil }
	var got vfRow
	check := func(api string, err error) {
		c.Obs("nodispatch_calls", 1)
		if err == nil && got != db {
			c.Viol("C06/coherence/read-without-node-reported-success", api+" on a cluster without nodes returned "+fmt.Sprint(got)+" without error", map[string]any{"api": api, "db": db})
		}
		got = vfRow{}
	}
	check("Take", cc.Take(&got, key, query))
	check("TakeWithExpire", cc.TakeWithExpire(&got, key, func(v any, _ time.Duration) error { return query(v) }))
	check("Get", cc.Get(key, &got))
	got = db
	cc.Set(key, db)
	cc.SetWithExpire(key, db, time.Minute)
	cc.Del(key)
	cc.Del(key, key+"x")
	cc.Del()
	cc.IsNotFound(vfErrNF)
	c.Obs("nodispatch_calls", 6)
	c.Sig(false, "nodispatch")
}

// ---------------------------------------------------------------- test

func TestVerifC06W(t *testing.T) {
	logx.Disable()
	vfClock = kit.InstallVClock()
	old := timingWheel.Load()
	defer func() {
		timingWheel.Store(old)
		kit.UninstallVClock()
	}()
	w, err := vfNewWorld()
	if err != nil {
		t.Fatalf("world: %v", err)
	}
	guarded := func(fn func(c *kit.Case)) func(c *kit.Case) {
		return func(c *kit.Case) {
			if vfBroken.Load() {
				c.Inconclusive("an earlier case of this process hit its watchdog")
				return
			}
			vfCurCase = c
			defer func() { vfCurCase = nil }()
			fn(c)
		}
	}
	kit.Run(t, "C06", "retry", kit.N(240, 4000), guarded(func(c *kit.Case) { vfRetry(w, c) }))
	kit.Run(t, "C06", "badentry", kit.N(96, 1200), guarded(func(c *kit.Case) { vfBadEntry(w, c) }))
	kit.Run(t, "C06", "nodispatch", kit.N(4, 16), func(c *kit.Case) { vfNoDispatch(c) })
	kit.End()
}
