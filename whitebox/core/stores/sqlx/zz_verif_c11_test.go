package sqlx

// White-box part of the C11 check for sqlx.BulkInserter (DESIGN.md §4 C11).
//
// NewBulkInserter hard-wires a flush interval of one REAL second, which makes
// time-driven flushes and idle quits of the flusher expensive to reach from outside
// (the black-box family "sqlx-faults" does a few per case). Here the very same
// BulkInserter / dbInserter is assembled with a 1 ms ticker (vfNewInserter mirrors the
// body of NewBulkInserter; nothing else is touched), and the virtual clock behind
// timex.Now decides when the background flusher goes idle, so that
//
//	sqlx-faults-fast  1-4 concurrent inserters, a scripted connection whose Exec
//	                  returns an error or PANICS for chosen batches, a sloppy / careful
//	                  / absent ResultHandler that dereferences the nil result of a failed
//	                  Exec or panics on purpose, each such batch directly followed by
//	                  more Inserts, explicit Flushes, time-driven flushes (awaited),
//	                  UpdateOrDelete, UpdateStmt (at quiet points), 1000-row bursts
//	                  (threshold hand-over), idle quit + restart of the flusher (awaited
//	                  in sequential cases, injected at random by a controller in
//	                  concurrent ones) and a final Flush
//
// are cheap. Oracle (same as the black-box family; the execute callback of the
// inserter is "one INSERT statement handed to the connection"): every statement the
// connection receives is ONE insert of a configured form (prefix exactly once, a value
// list, the statement's own suffix); every row whose Insert returned nil occurs in the
// value lists exactly once over the whole history - all faults are injected at or after
// the point of observation, so this includes the rows of failing batches, which must
// never come back in another batch's statement; no injected panic reaches the client.
// "Lost" is decided only once no goroutine of the executor is left.
//
// Mapped into core/stores/sqlx with `go test -overlay`; nothing is written to /repo.

import (
	"database/sql"
	"fmt"
	"hash/fnv"
	"runtime"
	"sort"
	"strconv"
	"strings"
	"sync"
	"sync/atomic"
	"testing"
	"time"

	kit "github.com/zeromicro/go-zero/internal/verifkit"

	"github.com/zeromicro/go-zero/core/executors"
	"github.com/zeromicro/go-zero/core/logx"
)

const (
	vfTick     = time.Millisecond
	vfIdleJump = 20 * time.Millisecond // > 10 intervals of virtual time
	vfWatchdog = 40 * time.Second
	vfKind     = "sqlx-bulkinserter"
)

// vfNewInserter is NewBulkInserter with another flush interval.
func vfNewInserter(conn SqlConn, stmt string) (*BulkInserter, error) {
	bkStmt, err := parseInsertStmt(stmt)
	if err != nil {
		return nil, err
	}
	inserter := &dbInserter{sqlConn: conn, stmt: bkStmt}
	return &BulkInserter{
		executor: executors.NewPeriodicalExecutor(vfTick, inserter),
		inserter: inserter,
		stmt:     bkStmt,
	}, nil
}

// ---------------------------------------------------------------- statements

type vfVariant struct{ full, prefix, suffix string }

var vfVariants = []vfVariant{
	{"insert into t (id, v) values (?, ?)", "insert into t (id, v) values", ""},
	{"INSERT INTO t(id,v) VALUES(?,?)", "INSERT INTO t(id,v) VALUES", ""},
	{"insert ignore into `t` (id, v) values (?, ?) on duplicate key update v = v + 1", "insert ignore into `t` (id, v) values", "on duplicate key update v = v + 1"},
	{"replace into t values (?, ?)   ", "replace into t values", ""},
	{"Insert Into t (id, v) Values (?, ?) ON DUPLICATE KEY UPDATE v = VALUES(v), id = id", "Insert Into t (id, v) Values", "ON DUPLICATE KEY UPDATE v = VALUES(v), id = id"},
}

var vfPayloads = []string{
	"a", "", "it's", `say "hi"`, `back\slash`, "), (", "values (1, 'x')", "insert into t (id, v) values", "line\nbreak", "naïve",
	"?", ":1 $2", "nul\x00sub\x1a", `\'`, "' , ('", "on duplicate key update", "(((", ")))", ",,,", "`tick`",
}

const (
	vfFateOK = iota
	vfFateExecErr
	vfFateExecPanic
	vfFateHandlerPanic
)

var vfFateNames = []string{"ok", "exec-error", "exec-panic", "handler-panic"}

type vfRow struct {
	id   int
	text string
	fate int
}

type vfParsed struct {
	Variant  int
	IDs      []int
	Segments int
	Bad      string
	At       int
}

func vfScanTuple(q string, pos int) (end, id int, ok bool) {
	depth := 0
	var quote byte
	end = -1
	for i := pos; i < len(q) && end < 0; i++ {
		ch := q[i]
		if quote != 0 {
			switch ch {
			case '\\':
				i++
			case quote:
				quote = 0
			}
			continue
		}
		switch ch {
		case '\'', '"', '`':
			quote = ch
		case '(':
			depth++
		case ')':
			depth--
			if depth == 0 {
				end = i + 1
			}
		}
	}
	if end < 0 {
		return 0, -1, false
	}
	inner := strings.TrimLeft(q[pos+1:end-1], " \t")
	k := 0
	for k < len(inner) && inner[k] >= '0' && inner[k] <= '9' {
		k++
	}
	id = -1
	if k > 0 && k < 10 {
		id, _ = strconv.Atoi(inner[:k])
	}
	return end, id, true
}

func vfSkipSpace(q string, pos int) int {
	for pos < len(q) && (q[pos] == ' ' || q[pos] == '\t' || q[pos] == '\n' || q[pos] == '\r') {
		pos++
	}
	return pos
}

// vfParseInsert decides whether q is one insert of a configured form; when it is not it
// keeps going where it can, so that rows of a glued-on statement are accounted for too.
func vfParseInsert(q string, vs []vfVariant) vfParsed {
	p := vfParsed{Variant: -1}
	bad := func(what string, at int) {
		if p.Bad == "" {
			p.Bad, p.At = what, at
		}
	}
	pos := 0
	for {
		v := -1
		for i := range vs {
			if strings.HasPrefix(q[pos:], vs[i].prefix) {
				v = i
			}
		}
		if v < 0 {
			bad("unknown-prefix", pos)
			return p
		}
		if p.Segments == 0 {
			p.Variant = v
		}
		p.Segments++
		pos = vfSkipSpace(q, pos+len(vs[v].prefix))
		if pos >= len(q) || q[pos] != '(' {
			bad("bad-value-list", pos)
			return p
		}
		for {
			end, id, ok := vfScanTuple(q, pos)
			if !ok {
				bad("bad-value-list", pos)
				return p
			}
			p.IDs = append(p.IDs, id)
			pos = vfSkipSpace(q, end)
			if pos < len(q) && q[pos] == ',' {
				pos = vfSkipSpace(q, pos+1)
				if pos >= len(q) || q[pos] != '(' {
					bad("bad-value-list", pos)
					return p
				}
				continue
			}
			break
		}
		rest := strings.TrimSpace(q[pos:])
		if rest == vs[v].suffix {
			return p
		}
		if vs[v].suffix != "" && strings.HasPrefix(rest, vs[v].suffix) {
			pos = vfSkipSpace(q, pos) + len(vs[v].suffix)
			pos = vfSkipSpace(q, pos)
		}
		glued := false
		for i := range vs {
			if strings.HasPrefix(q[pos:], vs[i].prefix) {
				glued = true
			}
		}
		if !glued {
			bad("bad-suffix", pos)
			return p
		}
		bad("concatenated-statements", pos)
	}
}

// ---------------------------------------------------------------- scripted connection

type vfStmtRec struct {
	Enter, Exit     uint64
	Text            string
	P               vfParsed
	Fate            int
	Via             string // background | client
	HandlerCalls    int
	HandlerPanicked string
}

type vfRes struct {
	rec *vfStmtRec
	n   int64
}

func (r *vfRes) LastInsertId() (int64, error) { return 0, nil }
func (r *vfRes) RowsAffected() (int64, error) { return r.n, nil }

type vfErr struct{ rec *vfStmtRec }

func (e *vfErr) Error() string { return "verif: server has gone away" }

type vfConn struct {
	SqlConn
	rows    []*vfRow
	handler string
	shape   bool

	mu     sync.Mutex
	recs   []*vfStmtRec
	seen   map[int]int
	inExec int
	hcalls int64
}

func vfCallerClass() string {
	var pcs [24]uintptr
	n := runtime.Callers(3, pcs[:])
	fr := runtime.CallersFrames(pcs[:n])
	for {
		f, more := fr.Next()
		if strings.Contains(f.Function, "(*PeriodicalExecutor).backgroundFlush") {
			return "background"
		}
		if !more {
			return "client"
		}
	}
}

func (f *vfConn) Exec(q string, _ ...any) (sql.Result, error) {
	p := vfParseInsert(q, vfVariants)
	rec := &vfStmtRec{Text: q, P: p, Via: vfCallerClass()}
	for _, id := range p.IDs {
		if id < 0 || id >= len(f.rows) {
			continue
		}
		if ft := f.rows[id].fate; rec.Fate == vfFateOK && ft != vfFateOK && (ft != vfFateHandlerPanic || f.handler != "") {
			rec.Fate = ft
		}
	}
	f.mu.Lock()
	rec.Enter = kit.Stamp()
	f.recs = append(f.recs, rec)
	for _, id := range p.IDs {
		f.seen[id]++
	}
	f.inExec++
	f.mu.Unlock()
	defer func() {
		f.mu.Lock()
		f.inExec--
		rec.Exit = kit.Stamp()
		f.mu.Unlock()
	}()
	if f.shape {
		switch len(p.IDs) % 5 {
		case 0, 1:
			for i := 0; i <= len(p.IDs)%3; i++ {
				runtime.Gosched()
			}
		case 2:
			time.Sleep(time.Duration(20+len(q)%200) * time.Microsecond)
		}
	}
	switch rec.Fate {
	case vfFateExecPanic:
		panic("verif: poisoned statement")
	case vfFateExecErr:
		return nil, &vfErr{rec}
	}
	return &vfRes{rec, int64(len(p.IDs))}, nil
}

func (f *vfConn) resultHandler() ResultHandler {
	return func(res sql.Result, err error) {
		atomic.AddInt64(&f.hcalls, 1)
		if f.handler == "sloppy" {
			if e, ok := err.(*vfErr); ok {
				f.mu.Lock()
				e.rec.HandlerCalls++
				e.rec.HandlerPanicked = "nil-result-dereferenced"
				f.mu.Unlock()
			}
			if n, _ := res.RowsAffected(); n < 0 { // res is a nil interface after a failed Exec
				return
			}
		} else if err != nil {
			if e, ok := err.(*vfErr); ok {
				f.mu.Lock()
				e.rec.HandlerCalls++
				f.mu.Unlock()
			}
			return
		}
		r, ok := res.(*vfRes)
		if !ok {
			return
		}
		f.mu.Lock()
		r.rec.HandlerCalls++
		boom := r.rec.Fate == vfFateHandlerPanic
		if boom {
			r.rec.HandlerPanicked = "on-purpose"
		}
		f.mu.Unlock()
		if boom {
			panic("verif: poisoned result handler")
		}
	}
}

func (f *vfConn) seenRows() int {
	f.mu.Lock()
	defer f.mu.Unlock()
	return len(f.seen)
}

func (f *vfConn) quiet() bool {
	f.mu.Lock()
	defer f.mu.Unlock()
	return f.inExec == 0
}

// ---------------------------------------------------------------- helpers

func vfWaitUntil(cond func() bool, max time.Duration) bool {
	start := time.Now()
	for i := 0; ; i++ {
		if cond() {
			return true
		}
		switch {
		case i < 50:
			runtime.Gosched()
		case i < 2000:
			time.Sleep(50 * time.Microsecond)
		default:
			time.Sleep(time.Millisecond)
		}
		if i&15 == 15 && time.Since(start) > max {
			return cond()
		}
	}
}

func vfAsync(fn func()) <-chan struct{} {
	ch := make(chan struct{})
	go func() {
		defer close(ch)
		fn()
	}()
	return ch
}

func vfWaitChan(ch <-chan struct{}, max time.Duration) bool {
	select {
	case <-ch:
		return true
	default:
	}
	t := time.NewTimer(max)
	defer t.Stop()
	select {
	case <-ch:
		return true
	case <-t.C:
		return false
	}
}

// vfRetire advances the virtual clock until no goroutine of the case is left (the
// flusher quits on the first tick that finds it idle for more than ten intervals).
func vfRetire(id string, vc *kit.VClock, base int) bool {
	i := 0
	return vfWaitUntil(func() bool {
		vc.Advance(vfIdleJump)
		i++
		if runtime.NumGoroutine() <= base || i%200 == 0 {
			return len(kit.LabelledGoroutines(id)) == 0
		}
		return false
	}, vfWatchdog)
}

type vfEv struct {
	S  uint64
	A  int
	Op string
	T  int
}

type vfActor struct {
	id  int
	mu  sync.Mutex
	evs []vfEv
}

func (a *vfActor) rec(op string, t int) {
	s := kit.Stamp()
	a.mu.Lock()
	a.evs = append(a.evs, vfEv{s, a.id, op, t})
	a.mu.Unlock()
}

func (a *vfActor) escaped(api string) {
	if p := recover(); p != nil {
		if s, ok := p.(string); ok && strings.HasPrefix(s, "verif harness:") {
			panic(p)
		}
		a.rec("panic-escaped."+api, -1)
	}
}

type vfOp struct {
	K     string // ins | flush | yield | tickwait | uod | upd | idle
	Lo, N int
	V     int
}

func (o vfOp) String() string {
	switch o.K {
	case "ins":
		return fmt.Sprintf("ins[%d..%d)", o.Lo, o.Lo+o.N)
	case "upd":
		return "upd#" + strconv.Itoa(o.V)
	}
	return o.K
}

func vfClip(s string) string {
	if len(s) > 700 {
		return s[:350] + fmt.Sprintf(" ...[%d bytes]... ", len(s)-700) + s[len(s)-350:]
	}
	return s
}

func vfClipInts(xs []int) string {
	if len(xs) > 40 {
		return fmt.Sprintf("%v ... %v (%d rows)", xs[:20], xs[len(xs)-20:], len(xs))
	}
	return fmt.Sprint(xs)
}

func vfBucket(n int) int {
	switch {
	case n <= 3:
		return n
	case n < 10:
		return 5
	case n < 1000:
		return 100
	}
	return 1000
}

// ---------------------------------------------------------------- the family

func vfRunFaults(c *kit.Case, vc *kit.VClock) {
	r := c.R
	base := runtime.NumGoroutine()

	producers := 1 + r.Pick(40, 25, 20, 15)
	handler := []string{"", "sloppy", "careful"}[r.Pick(30, 40, 30)]
	pFault := kit.Choose(r, []float64{0.15, 0.35, 0.7})
	variant := r.Intn(len(vfVariants))
	allowBurst := r.Chance(0.05)
	jumps := producers > 1 && r.Chance(0.6)

	var rows []*vfRow
	newRows := func(n int, faulty bool) (lo int) {
		lo = len(rows)
		for i := 0; i < n; i++ {
			rows = append(rows, &vfRow{id: lo + i, text: kit.Choose(r, vfPayloads)})
		}
		if faulty {
			rows[lo+r.Intn(n)].fate = 1 + r.Pick(35, 30, 35)
		}
		return lo
	}
	progs := make([][]vfOp, producers)
	for p := range progs {
		steps := r.Range(8, 40)
		idles := 0
		burstAt := -1
		if allowBurst && p == 0 {
			burstAt = r.Intn(steps)
		}
		for i := 0; i < steps; i++ {
			k := r.Pick(40, 20, 4, 14, 5, 5, 6)
			if i == burstAt {
				k = 7
			}
			switch {
			case k == 0:
				n := r.Range(1, 6)
				progs[p] = append(progs[p], vfOp{K: "ins", Lo: newRows(n, r.Chance(pFault)), N: n})
			case k == 1:
				progs[p] = append(progs[p], vfOp{K: "flush"})
			case k == 2:
				progs[p] = append(progs[p], vfOp{K: "yield"})
			case k == 3:
				n := r.Range(1, 4)
				progs[p] = append(progs[p], vfOp{K: "ins", Lo: newRows(n, r.Chance(pFault)), N: n}, vfOp{K: "tickwait"})
			case k == 4:
				progs[p] = append(progs[p], vfOp{K: "uod"})
			case k == 5 && producers == 1:
				progs[p] = append(progs[p], vfOp{K: "upd", V: r.Intn(len(vfVariants))})
			case k == 6 && producers == 1 && idles < 3:
				idles++
				progs[p] = append(progs[p], vfOp{K: "idle"})
			case k == 7:
				n := r.Range(1000, 1100)
				progs[p] = append(progs[p], vfOp{K: "ins", Lo: newRows(n, r.Chance(0.6)), N: n})
			default:
				progs[p] = append(progs[p], vfOp{K: "flush"})
			}
		}
	}

	conn := &vfConn{rows: rows, handler: handler, shape: producers > 1 || r.Chance(0.3), seen: map[int]int{}}
	bi, err := vfNewInserter(conn, vfVariants[variant].full)
	if err != nil {
		panic("verif harness: " + err.Error())
	}
	if handler != "" {
		bi.SetResultHandler(conn.resultHandler())
	}
	var faulty []string
	for _, x := range rows {
		if x.fate != vfFateOK {
			faulty = append(faulty, fmt.Sprintf("row%d:%s", x.id, vfFateNames[x.fate]))
		}
	}
	desc := map[string]any{"family": c.Family, "target": vfKind, "producers": producers, "statement": vfVariants[variant].full,
		"result_handler": handler, "idle_jumps_by_controller": jumps, "programs": fmt.Sprint(progs), "faulty_rows": faulty}

	var amu sync.Mutex
	var actors []*vfActor
	newActor := func() *vfActor {
		amu.Lock()
		defer amu.Unlock()
		a := &vfActor{id: len(actors)}
		actors = append(actors, a)
		return a
	}
	var inserted atomic.Int64
	accepted := make([]atomic.Bool, len(rows))
	var nUpd, nUod, nTickOK, nTickGivenUp, nIdle int64
	allSeen := func() bool { return int64(conn.seenRows()) >= inserted.Load() && conn.quiet() }
	exec := func(a *vfActor, o vfOp) {
		switch o.K {
		case "ins":
			for i := o.Lo; i < o.Lo+o.N; i++ {
				func() {
					defer a.escaped("insert")
					a.rec("insert.inv", i)
					if err := bi.Insert(i, rows[i].text); err != nil {
						panic("verif harness: Insert refused a well-formed row: " + err.Error())
					}
					accepted[i].Store(true)
					inserted.Add(1)
					a.rec("insert.ret", i)
				}()
			}
		case "flush":
			func() {
				defer a.escaped("flush")
				a.rec("flush.inv", -1)
				bi.Flush()
				a.rec("flush.ret", -1)
			}()
		case "uod":
			func() {
				defer a.escaped("update-or-delete")
				a.rec("update-or-delete.inv", -1)
				bi.UpdateOrDelete(func() { a.rec("update-or-delete.fn", -1) })
				a.rec("update-or-delete.ret", -1)
			}()
			atomic.AddInt64(&nUod, 1)
		case "upd":
			func() {
				defer a.escaped("update-stmt")
				a.rec("update-stmt.inv", o.V)
				if err := bi.UpdateStmt(vfVariants[o.V].full); err != nil {
					panic("verif harness: UpdateStmt refused a documented form: " + err.Error())
				}
				a.rec("update-stmt.ret", o.V)
			}()
		case "tickwait":
			// time-driven flush: only the flusher's ticker moves the rows. Giving up is not a
			// verdict, the oracle decides at the end, by state.
			pending := !allSeen()
			if !vfWaitUntil(allSeen, 5*time.Second) {
				atomic.AddInt64(&nTickGivenUp, 1)
			} else if pending {
				atomic.AddInt64(&nTickOK, 1)
			}
		default:
			runtime.Gosched()
		}
	}

	blocked := func(what string) {
		c.Inconclusive("watchdog: " + what)
	}
	if producers == 1 {
		a := newActor()
		for _, o := range progs[0] {
			o := o
			switch o.K {
			case "idle":
				if vfWaitUntil(allSeen, 5*time.Second) && vfRetire(c.ID, vc, base) {
					nIdle++
				}
				continue
			case "upd":
				// only at a quiet point (container empty, no Exec in progress): UpdateStmt /
				// SetResultHandler racing with a batch in flight is not what C11 is about
				if !vfWaitChan(vfAsync(func() { exec(a, vfOp{K: "flush"}) }), vfWatchdog) {
					blocked("Flush did not return")
					return
				}
				if !vfWaitUntil(allSeen, 5*time.Second) {
					continue
				}
				nUpd++
			}
			if !vfWaitChan(vfAsync(func() { exec(a, o) }), vfWatchdog) {
				blocked(o.K + " did not return")
				return
			}
		}
	} else {
		stop := make(chan struct{})
		var ctl <-chan struct{}
		var nJumps atomic.Int64
		if jumps {
			cr := r.Split("controller")
			ctl = vfAsync(func() {
				for {
					select {
					case <-stop:
						return
					default:
					}
					if cr.Chance(0.5) {
						vc.Advance(vfIdleJump)
						nJumps.Add(1)
					}
					time.Sleep(time.Duration(cr.Range(50, 900)) * time.Microsecond)
				}
			})
		}
		var wg sync.WaitGroup
		for p := range progs {
			a := newActor()
			prog := progs[p]
			wg.Add(1)
			go func() {
				defer wg.Done()
				for _, o := range prog {
					exec(a, o)
				}
			}()
		}
		ok := vfWaitChan(vfAsync(wg.Wait), vfWatchdog)
		close(stop)
		if ctl != nil {
			<-ctl
		}
		c.Obs("sqlx_fast_idle_jumps_injected", nJumps.Load())
		if !ok {
			blocked("inserters did not finish")
			return
		}
	}
	main := newActor()
	if !vfWaitChan(vfAsync(func() { exec(main, vfOp{K: "flush"}) }), vfWatchdog) {
		blocked("final Flush did not return")
		return
	}
	quiescent := vfRetire(c.ID, vc, base)
	if !quiescent {
		c.Inconclusive("executor goroutines did not go away after the history ended")
	}

	// ------------------------------------------------------------ oracle
	conn.mu.Lock()
	recs := make([]vfStmtRec, len(conn.recs))
	for i, x := range conn.recs {
		recs[i] = *x
	}
	seen := make(map[int]int, len(conn.seen))
	for k, v := range conn.seen {
		seen[k] = v
	}
	conn.mu.Unlock()
	sort.Slice(recs, func(i, j int) bool { return recs[i].Enter < recs[j].Enter })

	witness := func(extra map[string]any) map[string]any {
		var evs []vfEv
		for _, a := range actors {
			a.mu.Lock()
			evs = append(evs, a.evs...)
			a.mu.Unlock()
		}
		sort.Slice(evs, func(i, j int) bool { return evs[i].S < evs[j].S })
		var lines []string
		for i, e := range evs {
			if i >= 500 {
				lines = append(lines, fmt.Sprintf("... %d more", len(evs)-i))
				break
			}
			lines = append(lines, fmt.Sprintf("%d g%d %s %d", e.S, e.A, e.Op, e.T))
		}
		var st []string
		for i, x := range recs {
			if i >= 200 {
				st = append(st, "...")
				break
			}
			st = append(st, fmt.Sprintf("exec enter=%d exit=%d via=%s fate=%s handler_calls=%d handler_panic=%q rows=%s malformed=%q",
				x.Enter, x.Exit, x.Via, vfFateNames[x.Fate], x.HandlerCalls, x.HandlerPanicked, vfClipInts(x.P.IDs), x.P.Bad))
		}
		w := map[string]any{"case": desc, "client_events": lines, "statements": st}
		for k, v := range extra {
			w[k] = v
		}
		return w
	}

	// containment
	for _, a := range actors {
		a.mu.Lock()
		for _, e := range a.evs {
			if strings.HasPrefix(e.Op, "panic-escaped.") {
				a.mu.Unlock()
				c.Viol("C11/panic-escaped/"+vfKind+"/"+strings.TrimPrefix(e.Op, "panic-escaped."),
					"a panic injected below the inserter (Exec / result handler) came out of an API call of the client", witness(nil))
				a.mu.Lock()
				break
			}
		}
		a.mu.Unlock()
	}

	// one well-formed insert per Exec
	reported := map[string]bool{}
	var lastPanicExit uint64
	lastPanicKind, lastPanicVia := "", ""
	var nErr, nExecPanic, nHandlerPanic, nNilDeref, nAfterPanic, nAfterPanicSameSide, nBig, nBg, nClient int64
	nontrivial := false
	hs := fnv.New64a()
	for i, x := range recs {
		panicked := ""
		switch {
		case x.Fate == vfFateExecPanic:
			panicked = "exec-panic"
			nExecPanic++
		case x.HandlerPanicked == "on-purpose":
			panicked = "handler-panic"
			nHandlerPanic++
		case x.HandlerPanicked != "":
			panicked = "handler-nil-result"
			nNilDeref++
		}
		if x.Fate == vfFateExecErr {
			nErr++
		}
		if len(x.P.IDs) >= 1000 {
			nBig++
		}
		if x.Via == "background" {
			nBg++
		} else {
			nClient++
		}
		after := ""
		if lastPanicExit != 0 && x.Enter > lastPanicExit {
			after = lastPanicKind
			nAfterPanic++
			if x.Via == lastPanicVia {
				nAfterPanicSameSide++
			}
			nontrivial = true
		}
		fmt.Fprintf(hs, "%s/%s/%d/%s/%v;", vfFateNames[x.Fate], x.HandlerPanicked, vfBucket(len(x.P.IDs)), x.Via, after != "")
		if x.P.Bad != "" || x.P.Segments != 1 {
			what := x.P.Bad
			if what == "" {
				what = "bad-value-list"
			}
			key := "C11/malformed-statement/" + vfKind + "/" + what
			if !reported[key] {
				reported[key] = true
				prev := "none"
				if i > 0 {
					prev = fmt.Sprintf("fate=%s handler_panic=%q text=%s", vfFateNames[recs[i-1].Fate], recs[i-1].HandlerPanicked, vfClip(recs[i-1].Text))
				}
				c.Viol(key, fmt.Sprintf("the connection received a statement that is not ONE insert of a configured form (%s at offset %d, %d insert prefixes in the text); most recent panicked batch before it: %q",
					what, x.P.At, x.P.Segments, after),
					witness(map[string]any{"statement": vfClip(x.Text), "rows_in_statement": vfClipInts(x.P.IDs), "previous_statement": prev, "statement_index": i}))
			}
		}
		if panicked != "" && x.Exit > lastPanicExit {
			lastPanicExit, lastPanicKind, lastPanicVia = x.Exit, panicked, x.Via
		}
	}

	// exactly once over the whole history
	var dup, phantom, lost []int
	for id, n := range seen {
		if id < 0 || id >= len(rows) || !accepted[id].Load() {
			// also rows whose Insert never returned normally (escaped panic) may be seen: only
			// ids that were never given to Insert are phantoms
			if id < 0 || id >= len(rows) {
				phantom = append(phantom, id)
			}
			continue
		}
		if n > 1 {
			dup = append(dup, id)
		}
	}
	for id := range rows {
		if accepted[id].Load() && seen[id] == 0 {
			lost = append(lost, id)
		}
	}
	sort.Ints(dup)
	sort.Ints(phantom)
	if len(dup) > 0 {
		var where []string
		for i, x := range recs {
			for _, id := range x.P.IDs {
				if id == dup[0] {
					where = append(where, fmt.Sprintf("statement %d (via %s, fate %s)", i, x.Via, vfFateNames[x.Fate]))
				}
			}
		}
		c.Viol("C11/duplicate/"+vfKind, fmt.Sprintf("rows %s were handed to the connection more than once (row %d: %v)", vfClipInts(dup), dup[0], where),
			witness(map[string]any{"rows": vfClipInts(dup)}))
	}
	if len(phantom) > 0 {
		c.Viol("C11/phantom/"+vfKind, fmt.Sprintf("rows %s were handed to the connection but never given to Insert in this history", vfClipInts(phantom)),
			witness(map[string]any{"rows": vfClipInts(phantom)}))
	}
	if quiescent && len(lost) > 0 {
		c.Viol("C11/lost/"+vfKind, fmt.Sprintf("rows %s: Insert returned nil, final Flush returned, no goroutine of the executor is left, and the rows were never handed to the connection", vfClipInts(lost)),
			witness(map[string]any{"rows": vfClipInts(lost)}))
	}

	c.Sig(nontrivial, "sqlx-faults-fast", producers, handler, variant, hs.Sum64())
	c.Obs("sqlx_fast_histories", 1)
	c.Obs("sqlx_fast_rows_inserted", inserted.Load())
	c.Obs("sqlx_fast_statements", int64(len(recs)))
	c.Obs("sqlx_fast_statements_from_background_flusher", nBg)
	c.Obs("sqlx_fast_statements_from_client_flush", nClient)
	c.Obs("sqlx_fast_batches_exec_error", nErr)
	c.Obs("sqlx_fast_batches_exec_panic", nExecPanic)
	c.Obs("sqlx_fast_batches_handler_panic", nHandlerPanic)
	c.Obs("sqlx_fast_batches_handler_nil_result_dereferenced", nNilDeref)
	c.Obs("sqlx_fast_statements_after_a_panicked_batch", nAfterPanic)
	c.Obs("sqlx_fast_statements_after_a_panicked_batch_same_goroutine_kind", nAfterPanicSameSide)
	c.Obs("sqlx_fast_threshold_batches", nBig)
	c.Obs("sqlx_fast_result_handler_calls", atomic.LoadInt64(&conn.hcalls))
	c.Obs("sqlx_fast_update_stmt_at_quiet_point", nUpd)
	c.Obs("sqlx_fast_update_or_delete", atomic.LoadInt64(&nUod))
	c.Obs("sqlx_fast_time_driven_flush_awaited", atomic.LoadInt64(&nTickOK))
	c.Obs("sqlx_fast_time_driven_flush_given_up", atomic.LoadInt64(&nTickGivenUp))
	c.Obs("sqlx_fast_flusher_idle_quit_then_restart", nIdle)
	if c.Index < 2 {
		c.Sample(c.Family, 2, desc)
	}
}

func TestVerifC11S(t *testing.T) {
	logx.Disable()
	vc := kit.InstallVClock()
	defer kit.UninstallVClock()
	kit.Run(t, "C11", "sqlx-faults-fast", kit.N(800, 24000), func(c *kit.Case) {
		runs := 1
		if kit.GetEnv().Only != "" {
			runs = 100 // --replay: schedules are not reproducible, so the case is repeated
		}
		for i := 0; i < runs; i++ {
			c.R = kit.NewRand(c.Seed)
			kit.WithLabel(c.ID, func() { vfRunFaults(c, vc) })
		}
	})
	kit.End()
}
