package load

// C02 white-box, concurrent bursts: 2-32 goroutines call Allow / Pass / Fail on one shedder
// while the virtual clock and the CPU verdict are frozen (so the capacity estimate, which
// ignores the current bucket, and the overloaded/hot status are constant during a burst).
// Every Allow is judged with happens-before bounds from logical stamps taken at the call
// boundary: flyingMax = admits that may have happened - resolutions that surely happened,
// flyingMin the other way round; the moving average stays in the convex hull of its value at
// the start of the burst and the in-flight values possible during it. At quiescence after
// every burst: flying == admitted - resolved exactly, avgFlying inside its hull, capacity
// estimate equal to the model's. Between bursts the clock is advanced and sequential, exactly
// judged probes are made.

import (
	"fmt"
	"math"
	"sort"
	"sync"
	"time"

	kit "github.com/zeromicro/go-zero/internal/verifkit"
)

type vfEv struct {
	allow    bool
	shed     bool
	pass     bool
	inv, ret uint64
	g        int
}

type vfWorker struct {
	g    int
	held []vfHeld
	ev   []vfEv
	ops  []byte // 'A' allow, 'P' pass, 'F' fail (resolutions fall back to Allow when nothing is held)
	bad  string
	done []vfDone
}

func vfWork(w *vfWorker, sh Shedder, now time.Duration) {
	for _, op := range w.ops {
		if op != 'A' && len(w.held) == 0 {
			op = 'A'
		}
		if op == 'A' {
			e := vfEv{allow: true, g: w.g, inv: kit.Stamp()}
			p, err := sh.Allow()
			e.ret = kit.Stamp()
			e.shed = err != nil
			if err != nil && err != ErrServiceOverloaded {
				w.bad = "Allow returned " + err.Error()
			}
			if err == nil && p == nil {
				w.bad = "Allow returned neither promise nor error"
				e.shed = true
			}
			if !e.shed {
				w.held = append(w.held, vfHeld{p: p, start: now, id: -1})
			}
			w.ev = append(w.ev, e)
			continue
		}
		h := w.held[0]
		w.held = w.held[1:]
		e := vfEv{pass: op == 'P', g: w.g, inv: kit.Stamp()}
		if e.pass {
			h.p.Pass()
		} else {
			h.p.Fail()
		}
		e.ret = kit.Stamp()
		w.ev = append(w.ev, e)
		w.done = append(w.done, vfDone{h.start, e.pass})
	}
}

// vfDone: start time and kind of a resolution (needed for the model's latency sums)
type vfDone struct {
	start time.Duration
	pass  bool
}

func vfCountLess(sorted []uint64, x uint64) int64 {
	return int64(sort.Search(len(sorted), func(i int) bool { return sorted[i] >= x }))
}

func vfSorted(xs []uint64) []uint64 {
	sort.Slice(xs, func(i, j int) bool { return xs[i] < xs[j] })
	return xs
}

type vfBurstCfg struct {
	G      int
	Ops    int
	AllowP float64
	PassP  float64
	Cpu    int64
	Gap    time.Duration
}

// vfBurst runs one concurrent burst on s and judges it; returns false if the case must stop.
func vfBurst(s *vfSeq, r *kit.Rand, bc vfBurstCfg, avgLo, avgHi *float64, burstNo int) bool {
	t := s.vc.Advance(bc.Gap)
	vfCPU.Store(bc.Cpu)
	over := bc.Cpu >= s.cfg.Th
	hot := vfHotMay(s.m, t)
	trigger := over || hot
	capLo, capv, _, _, _ := vfCap(s.m, t)
	F0 := s.m.flying

	ws := make([]*vfWorker, bc.G)
	for g := range ws {
		w := &vfWorker{g: g, ops: make([]byte, bc.Ops)}
		for i := range w.ops {
			switch {
			case r.Chance(bc.AllowP):
				w.ops[i] = 'A'
			case r.Chance(bc.PassP):
				w.ops[i] = 'P'
			default:
				w.ops[i] = 'F'
			}
		}
		ws[g] = w
	}
	for i, h := range s.held { // promises carried over are spread over the workers
		w := ws[i%bc.G]
		w.held = append(w.held, h)
	}
	s.held = nil
	start := make(chan struct{})
	var wg sync.WaitGroup
	for _, w := range ws {
		wg.Add(1)
		go func(w *vfWorker) {
			defer wg.Done()
			<-start
			vfWork(w, s.sh, t)
		}(w)
	}
	close(start)
	done := make(chan struct{})
	go func() { wg.Wait(); close(done) }()
	select {
	case <-done:
	case <-time.After(120 * time.Second):
		s.c.Inconclusive("concurrent burst did not finish within the 120 s watchdog")
		return false
	}

	var evs []vfEv
	var admInv, admRet, resInv, resRet []uint64
	for _, w := range ws {
		if w.bad != "" {
			s.c.Viol("C02/api/unexpected-result", w.bad, vfWitness(s, "concurrent burst"))
		}
		for _, h := range w.held {
			if h.id < 0 {
				h.id = s.next
				s.next++
			}
			s.held = append(s.held, h)
		}
		for _, e := range w.ev {
			evs = append(evs, e)
			switch {
			case e.allow && !e.shed:
				admInv, admRet = append(admInv, e.inv), append(admRet, e.ret)
			case !e.allow:
				resInv, resRet = append(resInv, e.inv), append(resRet, e.ret)
			}
		}
	}
	vfSorted(admInv)
	vfSorted(admRet)
	vfSorted(resInv)
	vfSorted(resRet)
	A, R := int64(len(admInv)), int64(len(resInv))
	// after k resolutions avg_k >= 0.9^k*avg_0 + (1-0.9^k)*(least in-flight value after a resolution), same for the upper side
	d := math.Pow(0.9, float64(R))
	endLo := *avgLo*d + math.Max(0, float64(F0-R))*(1-d)
	endHi := *avgHi*d + float64(F0+A-1)*(1-d)
	lo := math.Min(*avgLo, endLo)
	sort.Slice(evs, func(i, j int) bool { return evs[i].inv < evs[j].inv })
	desc := fmt.Sprintf("burst %d: +%v cpu=%d (over=%v hot=%v) %d goroutines x %d ops, capacity %.4g, in flight at start %d, avg in [%.4g,%.4g]",
		burstNo, bc.Gap, bc.Cpu, over, hot, bc.G, bc.Ops, capv, F0, *avgLo, *avgHi)
	s.log = append(s.log, desc)
	var sheds, legal, must int64
	for i := range evs {
		e := &evs[i]
		if !e.allow {
			continue
		}
		self := int64(0)
		if !e.shed {
			self = 1
		}
		fmax := F0 + vfCountLess(admInv, e.ret) - self - vfCountLess(resRet, e.inv)
		fmin := F0 + vfCountLess(admRet, e.inv) - vfCountLess(resInv, e.ret)
		if trigger && float64(fmax) > vfLowBound*capLo {
			legal++
		}
		mustShed := over && float64(fmin) > capv*(1+vfEps) && lo > capv*(1+vfEps)
		if mustShed {
			must++
		}
		wit := func() map[string]any {
			w := vfWitness(s, desc)
			w["allow"] = map[string]any{"goroutine": e.g, "inv": e.inv, "ret": e.ret, "shed": e.shed, "in_flight_min": fmin, "in_flight_max": fmax}
			w["events"] = vfEvDump(evs)
			return w
		}
		if e.shed {
			sheds++
			if !trigger {
				s.c.Viol("C02/shed-without-overload/concurrent", "Allow shed in a burst during which the CPU was below the threshold and the shedder was not hot", wit())
			}
			if float64(fmax) <= vfLowBound*capLo*(1-vfEps) {
				k := "some-in-flight"
				if fmax <= 0 {
					k = "nothing-in-flight"
				}
				s.c.Viol("C02/shed-below-10pct-capacity/concurrent-"+k, fmt.Sprintf("Allow shed although at most %d requests can have been in flight (10%% of capacity %.4g not exceeded)", fmax, capLo), wit())
			}
		} else if mustShed {
			s.c.Viol("C02/no-shed-above-full-capacity/concurrent", fmt.Sprintf("Allow admitted although CPU overloaded, at least %d in flight and average >= %.4g, capacity %.4g", fmin, lo, capv), wit())
		}
	}
	// model update (exact: the clock was frozen at t)
	allows := 0
	for _, e := range evs {
		if e.allow {
			allows++
		}
	}
	if allows > 0 {
		if over {
			s.m.lastOver, s.m.everOver = t, true
		} else {
			vfNoteBelow(s.m, t)
		}
	}
	if sheds > 0 {
		s.m.dropped, s.m.dropMay = true, true
	}
	s.m.drops += sheds
	s.m.admitted += A
	s.m.flying += A
	for _, w := range ws {
		for _, d := range w.done {
			av := s.m.avg
			vfApplyResolve(s.m, t, d.start, d.pass)
			s.m.avg = av
		}
	}
	*avgLo, *avgHi = endLo, endHi
	kit.Obs("conc_bursts", 1)
	kit.Obs("conc_allows", int64(allows))
	kit.Obs("conc_sheds", sheds)
	kit.Obs("conc_resolutions", R)
	kit.Obs("conc_allow_where_shedding_legal", legal)
	kit.Obs("conc_allow_where_shedding_required", must)
	if legal > 0 {
		s.nontrivial = true
	}
	fmt.Fprintf(&s.sig, "B%s;", kit.InterleavingSig(vfToEvents(evs), func(e kit.Event) string { return e.Op }))

	// quiescence checks
	if s.as != nil {
		s.as.avgFlyingLock.Lock()
		avg := s.as.avgFlying
		s.as.avgFlyingLock.Unlock()
		if avg < endLo-1e-7*(1+math.Abs(endLo)) || avg > endHi+1e-7*(1+math.Abs(endHi)) {
			s.c.Viol("C02/whitebox/avg-flying-out-of-bounds/concurrent", fmt.Sprintf("avgFlying=%.6g outside [%.6g,%.6g]", avg, endLo, endHi), vfWitness(s, desc))
		} else {
			*avgLo, *avgHi, s.m.avg = avg, avg, avg
		}
		vfCheckState(s, "burst")
	}
	return !s.c.Violated()
}

func vfToEvents(evs []vfEv) []kit.Event {
	type se struct {
		s  uint64
		op string
	}
	var all []se
	for _, e := range evs {
		k := "R"
		if e.allow {
			k = "A"
			if e.shed {
				k = "S"
			}
		}
		all = append(all, se{e.inv, k + "i"}, se{e.ret, k + "r"})
	}
	sort.Slice(all, func(i, j int) bool { return all[i].s < all[j].s })
	out := make([]kit.Event, len(all))
	for i, a := range all {
		out[i] = kit.Event{S: a.s, Op: a.op}
	}
	return out
}

func vfEvDump(evs []vfEv) []string {
	out := make([]string, 0, len(evs))
	for _, e := range evs {
		k := "Fail"
		switch {
		case e.allow && e.shed:
			k = "Allow->SHED"
		case e.allow:
			k = "Allow->admitted"
		case e.pass:
			k = "Pass"
		}
		out = append(out, fmt.Sprintf("g%d [%d,%d] %s", e.g, e.inv, e.ret, k))
		if len(out) >= 400 {
			out = append(out, "... (truncated)")
			break
		}
	}
	return out
}
