package load

// White-box part of the C02 check (DESIGN.md §4 C02), compiled into package load with
// `go test -overlay`. This file holds the reference model that mirrors the STATEMENT:
//
//	capacity estimate = max(1, peak per-bucket pass count x minimum average latency [ms] x
//	                    buckets-per-second / 1000) over the sliding window (the `buckets`
//	                    most recent buckets, keyed by floor((t-t0)/bucketDuration), without
//	                    the current one; defaults 1 pass and 1000 ms when nothing was recorded)
//	in flight         = admitted - resolved
//	moving average    = 0.9*avg + 0.1*inFlight, updated at every resolution
//	hot               = a request was shed before and the last Allow that saw the CPU at or
//	                    above the threshold is less than 1 s ago (the episode ends at the first
//	                    Allow that finds the CPU below the threshold 1 s or more after it)
//
// and the verdicts
//
//	(1a) shed although CPU below threshold and not hot                       -> violation
//	(1b) shed although inFlight <= 10% of the capacity estimate                -> violation
//	(2)  admitted although CPU overloaded, inFlight > capacity, avg > capacity -> violation
//	(M)  where the real stat.CpuUsage() (which enters overloadFactor) is pinned, the decision
//	     must equal (overloaded or hot) and inFlight > capacity*factor and avg > capacity*factor
//	(3)  white-box flying == admitted - resolved after every step, never negative
//
// All helper identifiers carry the prefix vf (race-log reducer convention).

import (
	"fmt"
	"math"
	"time"

	"github.com/zeromicro/go-zero/core/stat"
)

const (
	vfEps      = 1e-9
	vfCoolOff  = time.Second
	vfLowBound = 0.1
)

type vfCfg struct {
	Window  time.Duration
	Buckets int
	Th      int64
	Group   bool // built through ShedderGroup.GetShedder
	Default bool // built with no options at all (5 s / 50 buckets / 900)
}

func (c vfCfg) String() string {
	s := fmt.Sprintf("window=%v buckets=%d threshold=%d", c.Window, c.Buckets, c.Th)
	if c.Default {
		s += " (defaults)"
	}
	if c.Group {
		s += " via ShedderGroup"
	}
	return s
}

// latencies enter the estimate in milliseconds; the statement does not say how a fraction of a
// millisecond is measured or how the per-bucket average is rounded, so the model keeps the sum
// of floor(ms) and of ceil(ms) and derives a lower and an upper capacity estimate (they coincide
// whenever all latencies are whole milliseconds, which is the common case in the workload).
type vfBucket struct {
	pass  int64
	rtLo  int64
	rtHi  int64
	rtCnt int64
}

type vfModel struct {
	cfg   vfCfg
	t0    time.Duration
	bd    time.Duration
	scale float64
	b     map[int64]*vfBucket

	flying   int64
	avg      float64
	dropped  bool // shedding episode in progress (ends at an Allow with the CPU below the threshold >= 1 s after the last overload)
	dropMay  bool // same, but the episode ends only > 1 s after: at exactly 1 s the statement leaves both answers open
	everOver bool
	lastOver time.Duration

	admitted, resolved, drops int64
}

func vfNewModel(cfg vfCfg, t0 time.Duration) *vfModel {
	bd := cfg.Window / time.Duration(cfg.Buckets)
	return &vfModel{cfg: cfg, t0: t0, bd: bd, b: map[int64]*vfBucket{},
		scale: float64(time.Second) / float64(bd) / 1000}
}

func vfIdx(m *vfModel, t time.Duration) int64 { return int64((t - m.t0) / m.bd) }

// vfCap returns the lower and upper capacity estimate at time t and their factors.
func vfCap(m *vfModel, t time.Duration) (capLo, capHi float64, maxPass int64, rtLo, rtHi float64) {
	cur := vfIdx(m, t)
	maxPass, rtLo, rtHi = 1, 1000, 1000
	for i := cur - int64(m.cfg.Buckets) + 1; i < cur; i++ {
		bk := m.b[i]
		if bk == nil {
			continue
		}
		if bk.pass > maxPass {
			maxPass = bk.pass
		}
		if bk.rtCnt > 0 {
			lo := float64(bk.rtLo) / float64(bk.rtCnt)
			hi := float64(bk.rtHi) / float64(bk.rtCnt)
			lo, hi = math.Min(lo, math.Round(lo)), math.Max(hi, math.Round(hi))
			rtLo, rtHi = math.Min(rtLo, lo), math.Min(rtHi, hi)
		}
	}
	capLo = math.Max(1, float64(maxPass)*rtLo*m.scale)
	capHi = math.Max(1, float64(maxPass)*rtHi*m.scale)
	return
}

func vfPrune(m *vfModel, t time.Duration) {
	if len(m.b) < 4*m.cfg.Buckets+8 {
		return
	}
	lo := vfIdx(m, t) - int64(m.cfg.Buckets)
	for k := range m.b {
		if k < lo {
			delete(m.b, k)
		}
	}
}

func vfHot(m *vfModel, t time.Duration) bool {
	return m.dropped && m.everOver && t-m.lastOver < vfCoolOff
}

// vfHotMay is the permissive reading used for "sheds only when": exactly 1 s counts as within the second.
func vfHotMay(m *vfModel, t time.Duration) bool {
	return m.dropMay && m.everOver && t-m.lastOver <= vfCoolOff
}

func vfNoteBelow(m *vfModel, t time.Duration) {
	if m.dropped && m.everOver && !vfHot(m, t) {
		m.dropped = false
	}
	if m.dropMay && m.everOver && !vfHotMay(m, t) {
		m.dropMay = false
	}
}

// vfFactor mirrors the anchored overloadFactor for a given real CPU reading.
func vfFactor(th, cpu int64) float64 {
	f := (1000 - float64(cpu)) / (1000 - float64(th))
	if f < vfLowBound {
		return vfLowBound
	}
	if f > 1 {
		return 1
	}
	return f
}

// vfPre is the model state an Allow at time t is judged against.
type vfPre struct {
	T       time.Duration
	Over    bool
	Hot     bool // surely hot (< 1 s)
	HotMay  bool // possibly hot (<= 1 s)
	Flying  int64
	Avg     float64
	CapLo   float64
	CapHi   float64
	MaxPass int64
	MinRtLo float64
	MinRtHi float64
	Pinned  bool
	Cpu     int64
	Factor  float64
}

func vfPreOf(m *vfModel, t time.Duration, over bool) vfPre {
	lo, hi, mp, rl, rh := vfCap(m, t)
	return vfPre{T: t, Over: over, Hot: vfHot(m, t), HotMay: vfHotMay(m, t), Flying: m.flying, Avg: m.avg, CapLo: lo, CapHi: hi, MaxPass: mp, MinRtLo: rl, MinRtHi: rh}
}

type vfFinding struct{ key, what string }

// vfJudge decides one Allow (shed = it returned ErrServiceOverloaded) against the pre-state.
func vfJudge(p vfPre, shed bool) []vfFinding {
	var out []vfFinding
	fl := float64(p.Flying)
	if shed {
		if !p.Over && !p.HotMay {
			out = append(out, vfFinding{"C02/shed-without-overload/cpu-below-threshold-and-not-hot",
				"Allow shed although the CPU verdict was 'below threshold' and no overloaded Allow of a shedding episode lies within the preceding second"})
		}
		if fl <= vfLowBound*p.CapLo*(1-vfEps) {
			k := "some-in-flight"
			if p.Flying <= 0 {
				k = "nothing-in-flight"
			}
			out = append(out, vfFinding{"C02/shed-below-10pct-capacity/" + k,
				fmt.Sprintf("Allow shed with %d in flight <= 10%% of the capacity estimate %.4g", p.Flying, p.CapLo)})
		}
	} else if p.Over && fl > p.CapHi*(1+vfEps) && p.Avg > p.CapHi*(1+vfEps) {
		out = append(out, vfFinding{"C02/no-shed-above-full-capacity/cpu-overloaded",
			fmt.Sprintf("Allow admitted although the CPU is overloaded, %d in flight and average %.4g both exceed the capacity estimate %.4g", p.Flying, p.Avg, p.CapHi)})
	}
	if p.Pinned && len(out) == 0 {
		limLo, limHi := p.CapLo*p.Factor, p.CapHi*p.Factor
		near := func(x, lim float64) bool { return math.Abs(x-lim) <= vfEps*(1+lim) }
		if !near(fl, limLo) && !near(p.Avg, limLo) && !near(fl, limHi) && !near(p.Avg, limHi) {
			trig := "overloaded"
			if !p.Over {
				trig = "hot"
			}
			mayShed := (p.Over || p.HotMay) && p.Avg > limLo && fl > limLo
			mustShed := (p.Over || p.Hot) && p.Avg > limHi && fl > limHi
			if shed && !mayShed {
				out = append(out, vfFinding{"C02/mechanism/shed-below-factor-capacity/" + trig,
					fmt.Sprintf("Allow shed although in flight %d / average %.4g do not both exceed capacity %.4g x factor %.4g (real cpu %d pinned)", p.Flying, p.Avg, p.CapLo, p.Factor, p.Cpu)})
			}
			if !shed && mustShed {
				out = append(out, vfFinding{"C02/mechanism/no-shed-above-factor-capacity/" + trig,
					fmt.Sprintf("Allow admitted although %s, in flight %d and average %.4g both exceed capacity %.4g x factor %.4g (real cpu %d pinned)", trig, p.Flying, p.Avg, p.CapHi, p.Factor, p.Cpu)})
			}
		}
	}
	return out
}

// vfApplyAllow advances the model over an Allow with the observed decision.
func vfApplyAllow(m *vfModel, p vfPre, shed bool) {
	if p.Over {
		m.lastOver, m.everOver = p.T, true
	} else {
		vfNoteBelow(m, p.T) // the episode ends: CPU below threshold, 1 s or more after the last overload
	}
	if shed {
		m.dropped, m.dropMay = true, true
		m.drops++
		return
	}
	m.flying++
	m.admitted++
}

// vfApplyResolve advances the model over Pass (pass=true) or Fail of a promise admitted at start.
func vfApplyResolve(m *vfModel, t, start time.Duration, pass bool) {
	m.flying--
	m.resolved++
	m.avg = m.avg*0.9 + float64(m.flying)*0.1
	if !pass {
		return
	}
	ms := float64(t-start) / float64(time.Millisecond)
	i := vfIdx(m, t)
	bk := m.b[i]
	if bk == nil {
		bk = &vfBucket{}
		m.b[i] = bk
	}
	bk.pass++
	bk.rtLo += int64(math.Floor(ms))
	bk.rtHi += int64(math.Ceil(ms))
	bk.rtCnt++
	vfPrune(m, t)
}

// vfPin reads the real CPU usage that enters overloadFactor; call before and after an
// Allow: the factor is pinned when both readings give the same factor and less than one
// refresh interval (less than 50 ms of the 250 ms) of wall time passed in between (so that at most one refresh
// happened and the value read inside is one of the two).
type vfPinner struct {
	v0 int64
	w0 time.Time
}

func vfPinStart() vfPinner { return vfPinner{v0: stat.CpuUsage(), w0: time.Now()} }

func vfPinEnd(pn vfPinner, th int64, p *vfPre) {
	v1 := stat.CpuUsage()
	f0, f1 := vfFactor(th, pn.v0), vfFactor(th, v1)
	if f0 == f1 && time.Since(pn.w0) < 50*time.Millisecond {
		p.Pinned, p.Cpu, p.Factor = true, v1, f0
	}
}
