package load

// C02 white-box, sequential histories: one goroutine drives Allow / Pass / Fail on a real
// adaptive shedder under the virtual clock and a scripted CPU verdict; every step is judged
// against the reference model of zz_verif_c02_model_test.go and the unexported state
// (flying, avgFlying, maxFlight) is compared with the model after every step.

import (
	"fmt"
	"math"
	"strings"
	"sync/atomic"
	"time"

	kit "github.com/zeromicro/go-zero/internal/verifkit"
)

// scripted CPU load (millicpu) the injected systemOverloadChecker compares with the threshold
var (
	vfCPU          atomic.Int64
	vfCheckerCalls atomic.Int64
)

func vfChecker(th int64) bool {
	vfCheckerCalls.Add(1)
	return vfCPU.Load() >= th
}

type vfHeld struct {
	p     Promise
	start time.Duration
	id    int
}

type vfSeq struct {
	c    *kit.Case
	vc   *kit.VClock
	cfg  vfCfg
	sh   Shedder
	as   *adaptiveShedder
	m    *vfModel
	held []vfHeld
	next int
	log  []string
	sig  strings.Builder

	nontrivial bool
	gapNote    string
}

func vfUnwrap(s Shedder) *adaptiveShedder {
	switch v := s.(type) {
	case *adaptiveShedder:
		return v
	case nopCloser:
		return vfUnwrap(v.Shedder)
	}
	return nil
}

func vfBuild(cfg vfCfg) Shedder {
	var opts []ShedderOption
	if !cfg.Default {
		opts = []ShedderOption{WithWindow(cfg.Window), WithBuckets(cfg.Buckets), WithCpuThreshold(cfg.Th)}
	}
	if cfg.Group {
		g := NewShedderGroup(opts...)
		s := g.GetShedder("k")
		g.GetShedder("other") // a different key is a different shedder
		return s
	}
	return NewAdaptiveShedder(opts...)
}

func vfNewSeq(c *kit.Case, vc *kit.VClock, cfg vfCfg) *vfSeq {
	if cfg.Default {
		cfg.Window, cfg.Buckets, cfg.Th = 5*time.Second, 50, 900
	}
	s := &vfSeq{c: c, vc: vc, cfg: cfg}
	t0 := vc.Now()
	s.sh = vfBuild(cfg)
	s.as = vfUnwrap(s.sh)
	s.m = vfNewModel(cfg, t0)
	fmt.Fprintf(&s.sig, "%v|", cfg)
	return s
}

func vfWitness(s *vfSeq, extra string) map[string]any {
	return map[string]any{"config": s.cfg.String(), "t0": s.m.t0.String(), "bucket": s.m.bd.String(),
		"history": append([]string(nil), s.log...), "detail": extra,
		"how_to_read": "+gap = virtual time advanced before the step; cpu = scripted load the injected systemOverloadChecker compares with the threshold; #n = promise of the n-th admitted Allow"}
}

func vfReport(s *vfSeq, fs []vfFinding, p vfPre) {
	for _, f := range fs {
		s.c.Viol(f.key, f.what, vfWitness(s, fmt.Sprintf("pre-state of the last Allow: %+v", p)))
	}
}

// vfCheckState compares the unexported state with the model (conservation and estimates).
func vfCheckState(s *vfSeq, after string) {
	if s.as == nil {
		return
	}
	fl := atomic.LoadInt64(&s.as.flying)
	if fl != s.m.flying {
		mode := "sequential"
		if after == "burst" {
			mode = "concurrent-quiescence"
		}
		k := "C02/conservation/flying-differs/" + mode
		if fl < 0 {
			k = "C02/conservation/flying-negative/" + mode
		}
		s.c.Viol(k, fmt.Sprintf("after %s: flying=%d but admitted-resolved=%d (admitted %d, resolved %d)", after, fl, s.m.flying, s.m.admitted, s.m.resolved), vfWitness(s, ""))
	}
	s.as.avgFlyingLock.Lock()
	avg := s.as.avgFlying
	s.as.avgFlyingLock.Unlock()
	if math.Abs(avg-s.m.avg) > 1e-7*(1+math.Abs(s.m.avg)) {
		s.c.Viol("C02/whitebox/avg-flying-differs", fmt.Sprintf("after %s: avgFlying=%.9g, model (0.9*avg+0.1*inFlight per resolution)=%.9g", after, avg, s.m.avg), vfWitness(s, ""))
	}
	lo, hi, mp, rl, rh := vfCap(s.m, s.vc.Now())
	got := s.as.maxFlight()
	if got < lo*(1-1e-7) || got > hi*(1+1e-7) {
		s.c.Viol("C02/whitebox/capacity-estimate-differs", fmt.Sprintf("maxFlight()=%.9g (maxPass %d, minRt %.4g), statement's estimate from the observed history in [%.9g,%.9g] (peak pass %d x min avg latency [%.4g,%.4g] ms x %.6g)",
			got, s.as.maxPass(), s.as.minRt(), lo, hi, mp, rl, rh, s.m.scale), vfWitness(s, ""))
	}
}

func vfGapStr(s *vfSeq, gap time.Duration) string {
	g := "+" + gap.String()
	if s.gapNote != "" {
		g += "(" + s.gapNote + ")"
	}
	return g
}

// vfAllow performs one Allow after advancing the clock by gap with the scripted cpu value.
func vfAllow(s *vfSeq, gap time.Duration, cpu int64) (shed bool) {
	t := s.vc.Advance(gap)
	vfCPU.Store(cpu)
	over := cpu >= s.cfg.Th
	p := vfPreOf(s.m, t, over)
	pn := vfPinStart()
	pr, err := s.sh.Allow()
	vfPinEnd(pn, s.cfg.Th, &p)
	shed = err != nil
	res := "admitted"
	if shed {
		res = "SHED"
	} else {
		res += fmt.Sprintf(" #%d", s.next)
	}
	s.log = append(s.log, fmt.Sprintf("%s cpu=%d Allow -> %s", vfGapStr(s, gap), cpu, res))
	if shed && err != ErrServiceOverloaded {
		s.c.Viol("C02/api/unexpected-error", "Allow returned an error other than ErrServiceOverloaded: "+err.Error(), vfWitness(s, ""))
	}
	if !shed && pr == nil {
		s.c.Viol("C02/api/nil-promise", "Allow returned neither a promise nor an error", vfWitness(s, ""))
		shed = true
	}
	fs := vfJudge(p, shed)
	if len(fs) > 0 {
		vfReport(s, fs, p)
	}
	legal := (p.Over || p.HotMay) && float64(p.Flying) > vfLowBound*p.CapLo
	must := p.Over && float64(p.Flying) > p.CapHi && p.Avg > p.CapHi
	if legal {
		s.nontrivial = true
		kit.Obs("allow_in_state_where_shedding_is_legal", 1)
	}
	if must {
		kit.Obs("allow_in_state_where_shedding_is_required", 1)
	}
	if p.Hot && !p.Over {
		kit.Obs("allow_while_hot_cpu_below", 1)
		if shed {
			kit.Obs("shed_while_hot_cpu_below", 1)
		}
	}
	if p.Pinned {
		kit.Obs("allow_factor_pinned", 1)
		if p.Over || p.Hot {
			kit.Obs("exact_decision_checked", 1)
			if p.Factor < 1 {
				kit.Obs("exact_decision_factor_below_1", 1)
			}
		}
	} else {
		kit.Obs("allow_factor_not_pinned", 1)
	}
	if shed {
		kit.Obs("sheds", 1)
	} else {
		kit.Obs("admits", 1)
	}
	vfApplyAllow(s.m, p, shed)
	if !shed {
		s.held = append(s.held, vfHeld{p: pr, start: t, id: s.next})
		s.next++
	}
	cls := 0
	if legal {
		cls = 1
	}
	if must {
		cls = 2
	}
	fmt.Fprintf(&s.sig, "A%d%v%v%v%s;", cls, shed, p.Over, p.Hot, s.gapNote)
	if shed {
		vfCheckState(s, "shed")
	} else {
		vfCheckState(s, "admit")
	}
	return shed
}

// vfResolve resolves held promise number i (index into s.held) after advancing by gap.
func vfResolve(s *vfSeq, gap time.Duration, i int, pass bool) {
	t := s.vc.Advance(gap)
	h := s.held[i]
	s.held = append(s.held[:i], s.held[i+1:]...)
	op := "Fail"
	if pass {
		op = "Pass"
		h.p.Pass()
		kit.Obs("passes", 1)
	} else {
		h.p.Fail()
		kit.Obs("fails", 1)
	}
	s.log = append(s.log, fmt.Sprintf("%s %s #%d (latency %v)", vfGapStr(s, gap), op, h.id, t-h.start))
	vfApplyResolve(s.m, t, h.start, pass)
	fmt.Fprintf(&s.sig, "%c%s;", op[0], s.gapNote)
	vfCheckState(s, strings.ToLower(op))
}

// vfFinishSeq resolves everything, checks quiescence and probes: with nothing in flight no
// request may be shed even under an overloaded CPU.
func vfFinishSeq(s *vfSeq, r *kit.Rand) {
	s.gapNote = ""
	for len(s.held) > 0 {
		vfResolve(s, time.Duration(r.Intn(3))*time.Millisecond, r.Intn(len(s.held)), r.Chance(0.6))
	}
	if s.as != nil {
		if fl := atomic.LoadInt64(&s.as.flying); fl != 0 {
			s.c.Viol("C02/conservation/nonzero-at-quiescence", fmt.Sprintf("flying=%d after every admitted request was resolved", fl), vfWitness(s, ""))
		}
	}
	for i := 0; i < 3 && !s.c.Violated(); i++ {
		if !vfAllow(s, time.Duration(r.Intn(2))*time.Millisecond, s.cfg.Th+int64(r.Intn(50))) {
			vfResolve(s, 0, len(s.held)-1, r.Bool())
		}
	}
	kit.Obs("histories", 1)
	kit.Obs("steps", int64(len(s.log)))
	s.c.Sig(s.nontrivial, s.sig.String())
}
