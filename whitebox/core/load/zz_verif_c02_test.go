package load

// C02 white-box: test function and the remaining families (concurrent driver, disabled).

import (
	"fmt"
	"testing"
	"time"

	"github.com/zeromicro/go-zero/core/logx"

	kit "github.com/zeromicro/go-zero/internal/verifkit"
)

// vfRunConc: bursts of concurrent Allow/Pass/Fail separated by clock advances and sequential probes.
func vfRunConc(c *kit.Case, vc *kit.VClock) {
	r := c.R
	vc.Advance(time.Duration(r.Intn(500)) * time.Millisecond)
	cfg := vfCfg{Window: kit.Choose(r, []time.Duration{time.Second, 5 * time.Second}), Buckets: kit.Choose(r, []int{1, 5, 50}),
		Th: kit.Choose(r, vfThresholds), Group: r.Chance(0.15)}
	s := vfNewSeq(c, vc, cfg)
	if s.as == nil {
		c.Inconclusive("NewAdaptiveShedder did not return an *adaptiveShedder")
		return
	}
	if r.Chance(0.5) { // warm-up that shapes the capacity estimate
		for k := r.Range(1, 8); k > 0; k-- {
			if !vfAllow(s, 0, s.cfg.Th-1) {
				vfResolve(s, time.Duration(r.Range(1, 30))*time.Millisecond, len(s.held)-1, true)
			}
		}
		vfAllow(s, vfGap(s, r, 3), s.cfg.Th-1)
	}
	avgLo, avgHi := s.m.avg, s.m.avg
	for b, n := 0, r.Range(2, 5); b < n; b++ {
		bc := vfBurstCfg{G: kit.Choose(r, []int{2, 3, 4, 8, 16, 32}), AllowP: kit.Choose(r, []float64{1, 0.8, 0.6, 0.4}),
			PassP: kit.Choose(r, []float64{0, 0.5, 1})}
		bc.Ops = r.Range(3, 24)
		if bc.G*bc.Ops > 480 {
			bc.Ops = 480 / bc.G
		}
		if r.Chance(0.6) {
			bc.Cpu = s.cfg.Th + int64(r.Intn(60))
		} else {
			bc.Cpu = s.cfg.Th - 1 - int64(r.Intn(60))
		}
		bc.Gap = vfGap(s, r, kit.Choose(r, []int{0, 1, 2, 3, 4, 4, 7}))
		s.gapNote = ""
		if !vfBurst(s, r, bc, &avgLo, &avgHi, b) {
			return
		}
		for k := r.Intn(4); k > 0 && !c.Violated(); k-- {
			cpu := s.cfg.Th - 1
			if r.Bool() {
				cpu = s.cfg.Th + 3
			}
			vfAllow(s, vfGap(s, r, kit.Choose(r, []int{0, 1, 4, 3})), cpu)
			avgLo, avgHi = s.m.avg, s.m.avg
		}
		avgLo, avgHi = s.m.avg, s.m.avg
	}
	vfFinishSeq(s, r)
	if s.nontrivial {
		c.Sample("wb-conc-nontrivial", 1, vfWitness(s, "concurrent bursts (per-burst summaries in the history)"))
	}
}

// vfRunDisabled: with shedding disabled NewAdaptiveShedder (directly and through a group) never
// sheds, whatever the CPU verdict and the number of unresolved requests. enabled is restored.
func vfRunDisabled(c *kit.Case) {
	r := c.R
	enabled.Set(false)
	defer enabled.Set(true)
	cfg := vfRandCfg(r)
	if cfg.Default {
		cfg.Th = 900
	}
	sh := vfBuild(cfg)
	var held []Promise
	n := r.Range(20, 200)
	for i := 0; i < n; i++ {
		vfCPU.Store(cfg.Th + int64(r.Intn(100)))
		p, err := sh.Allow()
		if err != nil || p == nil {
			c.Viol("C02/disabled/shed", fmt.Sprintf("a shedder built while shedding is disabled refused the %d-th Allow (%d unresolved): %v", i+1, len(held), err),
				map[string]any{"config": cfg.String(), "allows": i + 1, "unresolved": len(held)})
			return
		}
		held = append(held, p)
		if r.Chance(0.2) {
			k := r.Intn(len(held))
			if r.Bool() {
				held[k].Pass()
			} else {
				held[k].Fail()
			}
			held = append(held[:k], held[k+1:]...)
		}
	}
	kit.Obs("disabled_allows", int64(n))
	c.Sig(false, "disabled", cfg.String(), n)
}

func TestVerifC02W(t *testing.T) {
	logx.Disable()
	vc := kit.InstallVClock()
	defer kit.UninstallVClock()
	orig := systemOverloadChecker
	systemOverloadChecker = vfChecker
	defer func() { systemOverloadChecker = orig }()

	kit.Run(t, "C02", "wb-random", kit.N(5000, 150000), func(c *kit.Case) { vfRunRandom(c, vc) })
	kit.Run(t, "C02", "wb-ramp", kit.N(5000, 150000), func(c *kit.Case) { vfRunRamp(c, vc) })
	kit.Run(t, "C02", "wb-conc", kit.N(1200, 30000), func(c *kit.Case) { vfRunConc(c, vc) })
	kit.Run(t, "C02", "wb-disabled", kit.N(40, 400), func(c *kit.Case) { vfRunDisabled(c) })
	kit.Obs("checker_calls", vfCheckerCalls.Load())

	kit.End()
}
