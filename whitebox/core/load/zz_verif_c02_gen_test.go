package load

// C02 white-box: generators of sequential histories (random phases, aimed edges, ramps).

import (
	"time"

	kit "github.com/zeromicro/go-zero/internal/verifkit"
)

var (
	vfWindows    = []time.Duration{time.Second, 5 * time.Second, time.Second, 5 * time.Second, 200 * time.Millisecond, 3 * time.Second, 10 * time.Second}
	vfBucketSets = []int{1, 5, 50, 2, 3, 10, 50, 5}
	vfThresholds = []int64{100, 500, 900, 999, -99000, 900, 0}
)

func vfRandCfg(r *kit.Rand) vfCfg {
	if r.Chance(0.08) {
		return vfCfg{Default: true, Group: r.Chance(0.3)}
	}
	c := vfCfg{Window: kit.Choose(r, vfWindows), Buckets: kit.Choose(r, vfBucketSets), Th: kit.Choose(r, vfThresholds), Group: r.Chance(0.15)}
	return c
}

const (
	vfCpuBelow = iota
	vfCpuOver
	vfCpuFlip
	vfCpuBurst
)

type vfPhase struct {
	steps   int
	target  int64 // in-flight level the phase steers to
	cpuMode int
	gapMode int
	passP   float64
	pick    int // 0 oldest, 1 newest, 2 random
}

func vfCpuFor(s *vfSeq, r *kit.Rand, ph *vfPhase, step int) int64 {
	below := s.cfg.Th - 1 - int64(r.Intn(3))*int64(r.Intn(400))
	over := s.cfg.Th + int64(r.Intn(3))*int64(r.Intn(100))
	switch ph.cpuMode {
	case vfCpuBelow:
		return below
	case vfCpuOver:
		return over
	case vfCpuFlip:
		if r.Chance(0.5) {
			return over
		}
		return below
	}
	if (step/4)%2 == 0 { // bursts of four
		return over
	}
	return below
}

// vfGap draws the virtual-time advance before a step; aimed modes land on / around bucket
// edges, the 1 s cool-off edge and the window-expiry edge.
func vfGap(s *vfSeq, r *kit.Rand, mode int) time.Duration {
	now := s.vc.Now()
	bd := s.m.bd
	s.gapNote = ""
	jit := time.Duration(r.Intn(3) - 1) // -1ns, 0, +1ns
	switch mode {
	case 0:
		return 0
	case 1:
		return time.Duration(r.Intn(1000)) * time.Microsecond
	case 2: // sub-bucket
		return time.Duration(r.Int63n(int64(bd)))
	case 3: // next bucket edge -1ns / exactly / +1ns
		e := s.m.t0 + time.Duration(vfIdx(s.m, now)+1)*bd
		if g := e - now + jit; g >= 0 {
			s.gapNote = "bucket-edge"
			kit.Obs("steps_aimed_at_bucket_edge", 1)
			return g
		}
		return 0
	case 4: // cool-off edge
		if s.m.everOver {
			if g := s.m.lastOver + vfCoolOff - now + jit; g >= 0 {
				s.gapNote = "cooloff-edge"
				kit.Obs("steps_aimed_at_cooloff_edge", 1)
				return g
			}
		}
		return time.Duration(r.Intn(300)) * time.Millisecond
	case 5: // around a whole window (expiry of everything recorded)
		k := int64(s.cfg.Buckets) - int64(r.Intn(3))
		if k < 1 {
			k = 1
		}
		e := s.m.t0 + time.Duration(vfIdx(s.m, now)+k)*bd
		if g := e - now + jit; g >= 0 {
			s.gapNote = "window-edge"
			return g
		}
		return 0
	case 6: // latencies 0-2 s
		return time.Duration(r.Intn(2000)) * time.Millisecond
	}
	return kit.Choose(r, []time.Duration{time.Nanosecond, time.Millisecond, 10 * time.Millisecond, 100 * time.Millisecond,
		250 * time.Millisecond, 999 * time.Millisecond, time.Second, 1001 * time.Millisecond, 2 * time.Second, 7 * time.Second})
}

func vfPickHeld(s *vfSeq, r *kit.Rand, pick int) int {
	switch pick {
	case 0:
		return 0
	case 1:
		return len(s.held) - 1
	}
	return r.Intn(len(s.held))
}

func vfRandPhase(s *vfSeq, r *kit.Rand) vfPhase {
	_, capv, _, _, _ := vfCap(s.m, s.vc.Now())
	mult := kit.Choose(r, []float64{0, 0.05, 0.1, 0.1, 0.3, 1, 1, 1.5, 3})
	tgt := int64(capv*mult) + int64(r.Intn(4)) - 1
	if tgt > 120 {
		tgt = int64(r.Intn(120))
	}
	if tgt < 0 {
		tgt = 0
	}
	gm := r.Pick(3, 4, 3, 3, 3, 1, 2, 2)
	return vfPhase{steps: r.Range(4, 60), target: tgt, cpuMode: r.Pick(3, 4, 2, 2), gapMode: gm, passP: kit.Choose(r, []float64{0, 0.5, 0.9, 1}), pick: r.Intn(3)}
}

// vfRunPhase steers the in-flight count towards ph.target with a mix of Allow and resolutions.
func vfRunPhase(s *vfSeq, r *kit.Rand, ph vfPhase) {
	for i := 0; i < ph.steps && !s.c.Violated(); i++ {
		gap := vfGap(s, r, ph.gapMode)
		if r.Chance(0.15) {
			gap = vfGap(s, r, r.Intn(8))
		}
		fl := int64(len(s.held))
		var allow bool
		switch {
		case fl == 0:
			allow = true
		case fl < ph.target:
			allow = r.Chance(0.75)
		case fl > ph.target:
			allow = r.Chance(0.25)
		default:
			allow = r.Bool()
		}
		if allow {
			vfAllow(s, gap, vfCpuFor(s, r, &ph, i))
		} else {
			vfResolve(s, gap, vfPickHeld(s, r, ph.pick), r.Chance(ph.passP))
		}
	}
}

// vfRunRandom: one random history of several phases.
func vfRunRandom(c *kit.Case, vc *kit.VClock) {
	r := c.R
	vc.Advance(time.Duration(r.Intn(1000)) * time.Millisecond)
	s := vfNewSeq(c, vc, vfRandCfg(r))
	for n := r.Range(2, 7); n > 0 && !c.Violated(); n-- {
		vfRunPhase(s, r, vfRandPhase(s, r))
	}
	vfFinishSeq(s, r)
	if s.nontrivial {
		c.Sample("wb-seq-nontrivial", 1, vfWitness(s, "a history that reached a state in which shedding was legal"))
	} else {
		c.Sample("wb-seq-trivial", 1, vfWitness(s, ""))
	}
}

// vfChurn keeps the in-flight count at its level for n resolutions (Allow, then resolve the
// oldest) so that the moving average converges to it; CPU stays below the threshold.
func vfChurn(s *vfSeq, r *kit.Rand, n int, gap time.Duration, passP float64) {
	for i := 0; i < n && !s.c.Violated(); i++ {
		s.gapNote = ""
		if !vfAllow(s, gap, s.cfg.Th-1) && len(s.held) > 0 {
			vfResolve(s, gap, 0, r.Chance(passP))
		}
	}
}

// vfRunRamp: the scenario the statement is about. Fill up to a level relative to the capacity
// estimate while the CPU is fine, let the average follow, switch the CPU to overloaded and probe;
// then cool the CPU down and probe around the 1 s cool-off edge while requests are still in flight.
func vfRunRamp(c *kit.Case, vc *kit.VClock) {
	r := c.R
	vc.Advance(time.Duration(r.Intn(777)) * time.Millisecond)
	cfg := vfRandCfg(r)
	if cfg.Default || cfg.Window/time.Duration(cfg.Buckets) < 20*time.Millisecond {
		cfg = vfCfg{Window: kit.Choose(r, []time.Duration{time.Second, 5 * time.Second}), Buckets: kit.Choose(r, []int{1, 5, 50}), Th: kit.Choose(r, vfThresholds), Group: cfg.Group}
	}
	s := vfNewSeq(c, vc, cfg)
	// optional warm-up: short passes lower minRt, many passes in one bucket raise the peak
	if r.Chance(0.6) {
		for b := r.Range(1, 3); b > 0; b-- {
			for k := r.Range(1, 6); k > 0; k-- {
				if !vfAllow(s, 0, s.cfg.Th-1) {
					vfResolve(s, time.Duration(r.Range(1, 40))*time.Millisecond, len(s.held)-1, true)
				}
			}
			vfAllow(s, vfGap(s, r, 3), s.cfg.Th-1)
		}
	}
	_, capv, _, _, _ := vfCap(s.m, vc.Now())
	level := int64(capv*kit.Choose(r, []float64{0.05, 0.1, 0.5, 1, 1.2, 2})) + int64(r.Intn(4)) - 1
	if level > 100 {
		level = int64(r.Range(1, 100))
	}
	for int64(len(s.held)) < level && !c.Violated() {
		s.gapNote = ""
		vfAllow(s, time.Duration(r.Intn(2))*time.Microsecond, s.cfg.Th-1)
	}
	vfChurn(s, r, r.Range(0, 45), time.Duration(r.Intn(3))*time.Microsecond, kit.Choose(r, []float64{0, 0, 0.5}))
	// overloaded probes (some are shed once above the envelope)
	for k := r.Range(1, 6); k > 0 && !c.Violated(); k-- {
		s.gapNote = ""
		vfAllow(s, time.Duration(r.Intn(400))*time.Millisecond, s.cfg.Th+int64(r.Intn(80)))
	}
	// CPU recovers; probe before / at / after the cool-off edge with the flight still up
	for k := r.Range(2, 6); k > 0 && !c.Violated(); k-- {
		vfAllow(s, vfGap(s, r, kit.Choose(r, []int{4, 4, 1, 7})), s.cfg.Th-1-int64(r.Intn(50)))
	}
	if r.Bool() { // drop to nothing in flight while the average is still high, CPU overloaded
		for len(s.held) > 0 && !c.Violated() {
			s.gapNote = ""
			vfResolve(s, 0, 0, r.Chance(0.3))
		}
		for k := 3; k > 0 && !c.Violated(); k-- {
			if !vfAllow(s, time.Duration(r.Intn(3))*time.Millisecond, s.cfg.Th+5) {
				vfResolve(s, 0, len(s.held)-1, false)
			}
		}
	}
	vfFinishSeq(s, r)
	if s.nontrivial {
		c.Sample("wb-ramp-nontrivial", 1, vfWitness(s, "ramp scenario"))
	}
}
