package collection

// White-box part of C16 (DESIGN.md §4 C16), mapped into core/collection with
// `go test -overlay`.
//
//  1. Cache expiry decided in ticks: the Cache's own timing wheel (1 s real
//     ticker) is stopped and replaced by one built with NewTimingWheelWithTicker
//     on a harness ticker whose channel is unbuffered, with the *same* interval,
//     slot count and execute callback as the wheel NewCache built (they are read
//     from it, not re-stated here). A tick send completes when the wheel's loop
//     takes it; a following synchronous no-op (RemoveTimer of an unused key)
//     completes when the loop is back in its select; then the harness waits until
//     the goroutine count is back at the baseline, i.e. the expiry callbacks
//     (cache.Del) have finished. After every operation and every tick the content
//     of the cache (Cache.data, read under Cache.lock — reading does not touch
//     the recency order) is compared with the model.
//     Expiry envelope: the cache arms the timer with expire·f, f in [0.95,1.05]
//     (the documented deviation), the wheel fires after
//     floor(delay/interval) ticks; allowed: [floor(0.95e)-1, floor(1.05e)+1] ticks.
//     Third round: the values stored are of every kind (zz_verif_c16_values_test.go: NaN, typed nils,
//     pointers, []byte, maps, funcs, structs with slice fields, the same value again, equal but not
//     identical values); contents are compared by identity / kind-aware deep comparison, and an entry
//     that outlives its envelope is reported with the class of its value in the key.
//  2. SafeMap around its generation switches: deletion counters are advanced
//     close to maxDeletion by direct assignment (standing for that many Set/Del
//     pairs of a fresh key — only in states where none of these pairs could have
//     triggered a switch), then random operations through the real API cross the
//     thresholds; compared with a Go map after every operation.

import (
	"errors"
	"fmt"
	"reflect"
	"runtime"
	"sync/atomic"
	"testing"
	"time"

	kit "github.com/zeromicro/go-zero/internal/verifkit"

	"github.com/zeromicro/go-zero/core/logx"
)

type vfTicker struct {
	c    chan time.Time
	slow atomic.Bool
}

// Chan is called by the wheel's loop every time it comes back to its select. With slow set the loop dawdles
// here (a legal schedule: the wheel goroutine is merely descheduled for a moment), so that the requests other
// goroutines have for the wheel pile up and the select chooses among them. No verdict depends on the pause.
func (t *vfTicker) Chan() <-chan time.Time {
	if t.slow.Load() {
		for i := 0; i < 10; i++ {
			runtime.Gosched()
		}
		time.Sleep(100 * time.Microsecond)
	}
	return t.c
}
func (t *vfTicker) Stop()                  {}

// vfGoroutines is the number of goroutines expected while nothing of the case
// under way is running (each Cache leaves its statLoop goroutine behind).
var vfGoroutines int

// vfCalibrated: the baseline is taken inside the first case, not before the first kit.Run: the toolkit may start
// service goroutines of its own when the first case is armed (the stuck-case detector does), and those stay.
var vfCalibrated bool

func vfCalibrate() {
	if vfCalibrated {
		return
	}
	vfCalibrated = true
	n := runtime.NumGoroutine()
	for i := 0; i < 50; i++ { // a goroutine count that stays the same over a few yields
		runtime.Gosched()
		time.Sleep(200 * time.Microsecond)
		if m := runtime.NumGoroutine(); m != n {
			n, i = m, 0
		}
	}
	vfGoroutines = n
}

func vfQuiesce(target int) bool {
	for i := 0; i < 2000000; i++ {
		if runtime.NumGoroutine() <= target {
			return true
		}
		if i < 200 {
			runtime.Gosched()
		} else {
			time.Sleep(20 * time.Microsecond)
		}
	}
	return false
}

type vfEntry struct {
	val     any
	cv      vfVal
	setTick int
	lo, hi  int // fires at the s-th tick after setTick, lo <= s <= hi
	expire  time.Duration
	renewed bool
}

type vfCacheRun struct {
	c        *kit.Case
	cache    *Cache
	tk       *vfTicker
	tw       *TimingWheel
	baseline int
	interval time.Duration
	limit    int
	expire   time.Duration
	ticks    int
	model    map[string]*vfEntry
	order    []string // most recently used first
	gone     map[string]string
	ops      []string
	bad      bool
	nextV    int
	h        uint64
	// statistics
	expiries, renewals, evictions, evictAfterExpiry, envelopeEarlyHalf, envelopeLateHalf int64
	takeHits, takeLoads, takeFails                                                       int64
	// values of every kind (zz_verif_c16_values_test.go)
	r             *kit.Rand
	last          *vfVal
	vs            vfValStats
	expiredByCls  map[string]int64
}

// vfNewVal draws the next value to store under k: a fresh one of some kind, the same value the key (or the key
// written before) holds, or a value equal but not identical to it.
func (cr *vfCacheRun) vfNewVal(k string) vfVal {
	cr.nextV++
	var v vfVal
	if cr.r == nil {
		v = vfMkFresh("int", cr.nextV)
	} else {
		prev := cr.last
		if cur, ok := cr.model[k]; ok && cr.r.Chance(0.7) {
			prev = &cur.cv
		}
		v = vfMkVal(cr.r, cr.nextV, prev)
	}
	cr.vs.note(v)
	cr.last = &v
	return v
}

// vfClassSuffix keeps the established keys for plain comparable scalars and names the class of the value otherwise.
func vfClassSuffix(v vfVal) string {
	if v.class == vfClScalar || v.class == vfClNil {
		return ""
	}
	return "/value-kind=" + v.class
}

func (cr *vfCacheRun) noteExpired(e *vfEntry) {
	cr.expiries++
	if cr.expiredByCls == nil {
		cr.expiredByCls = map[string]int64{}
	}
	cr.expiredByCls[e.cv.class]++
}

func (cr *vfCacheRun) vfValObs(prefix string) {
	cr.vs.obs(cr.c, prefix)
	cr.c.Obs(prefix+"_expiries_of_comparable_scalar_value", cr.expiredByCls[vfClScalar])
	cr.c.Obs(prefix+"_expiries_of_nan_value", cr.expiredByCls[vfClNaN])
	cr.c.Obs(prefix+"_expiries_of_untyped_nil_value", cr.expiredByCls[vfClNil])
	cr.c.Obs(prefix+"_expiries_of_typed_nil_or_zero_value", cr.expiredByCls[vfClZero])
	cr.c.Obs(prefix+"_expiries_of_pointer_or_channel_value", cr.expiredByCls[vfClReference])
	cr.c.Obs(prefix+"_expiries_of_value_of_uncomparable_dynamic_type", cr.expiredByCls[vfClUncomparable])
}

func (cr *vfCacheRun) op(s string) {
	cr.ops = append(cr.ops, s)
	for i := 0; i < len(s); i++ {
		cr.h ^= uint64(s[i])
		cr.h *= 1099511628211
	}
	cr.h *= 31
}

func (cr *vfCacheRun) wit() map[string]any {
	ops := cr.ops
	w := map[string]any{"limit": cr.limit, "default_expire": cr.expire.String(), "ticks_so_far": cr.ticks, "ops_total": len(ops)}
	if len(ops) > 600 {
		w["ops_first"] = ops[:100]
		ops = ops[len(ops)-500:]
	}
	w["ops"] = ops
	pend := map[string]string{}
	for k, e := range cr.model {
		pend[k] = fmt.Sprintf("value=%v set at tick %d expire=%v allowed expiry ticks [%d,%d] after set", e.cv, e.setTick, e.expire, e.lo, e.hi)
	}
	w["model_entries"] = pend
	w["model_lru_most_recent_first"] = append([]string(nil), cr.order...)
	return w
}

func (cr *vfCacheRun) viol(key, what string) {
	cr.bad = true
	cr.c.Viol(key, what, cr.wit())
}

// vfDeviation is the documented jitter of the cache's expiry ("[0.95, 1.05] * seconds"); stated here
// as a literal on purpose, so that the envelope does not follow a change of the package constant.
const vfDeviation = 0.05

func (cr *vfCacheRun) envelope(e time.Duration) (lo, hi int) {
	lo = int(time.Duration((1-vfDeviation)*float64(e))/cr.interval) - 1
	if lo < 0 {
		lo = 0
	}
	hi = int(time.Duration((1+vfDeviation)*float64(e))/cr.interval) + 1
	return
}

func (cr *vfCacheRun) touch(k string) {
	if cr.limit <= 0 {
		return
	}
	for i, x := range cr.order {
		if x == k {
			copy(cr.order[1:i+1], cr.order[:i])
			cr.order[0] = k
			return
		}
	}
	cr.order = append([]string{k}, cr.order...)
}

func (cr *vfCacheRun) drop(k, why string) {
	delete(cr.model, k)
	cr.gone[k] = why
	for i, x := range cr.order {
		if x == k {
			cr.order = append(cr.order[:i], cr.order[i+1:]...)
			break
		}
	}
}

func (cr *vfCacheRun) mset(k string, v vfVal, e time.Duration) {
	lo, hi := cr.envelope(e)
	if old, ok := cr.model[k]; ok {
		cr.renewals++
		_ = old
	}
	cr.model[k] = &vfEntry{val: v.v, cv: v, setTick: cr.ticks, lo: lo, hi: hi, expire: e}
	delete(cr.gone, k)
	cr.touch(k)
	if cr.limit > 0 && len(cr.order) > cr.limit {
		victim := cr.order[len(cr.order)-1]
		cr.drop(victim, "evicted")
		cr.evictions++
		if cr.expiries > 0 {
			cr.evictAfterExpiry++
		}
	}
}

func (cr *vfCacheRun) why(k string) string {
	if w, ok := cr.gone[k]; ok {
		return w
	}
	return "never-set"
}

// settle waits for asynchronous work of the cache (expiry callbacks) to finish
// and compares the content of the cache with the model.
func (cr *vfCacheRun) settle(afterTick bool) {
	cr.tw.RemoveTimer(-1)
	if !vfQuiesce(cr.baseline) {
		cr.c.Inconclusive("expiry callback goroutines did not finish")
		cr.bad = true
		return
	}
	cr.cache.lock.Lock()
	snap := make(map[string]any, len(cr.cache.data))
	for k, v := range cr.cache.data {
		snap[k] = v
	}
	cr.cache.lock.Unlock()
	for k, e := range cr.model {
		n := cr.ticks - e.setTick
		v, present := snap[k]
		switch {
		case present && n >= e.hi:
			cr.viol("C16/cache/expiry/too-late"+vfClassSuffix(e.cv), fmt.Sprintf("key %s = %v (expire %v, set at tick %d) is still cached after %d ticks; it must be gone after at most %d", k, e.cv, e.expire, e.setTick, n, e.hi))
		case present && !vfSame(v, e.val):
			cr.viol("C16/cache/state/not-latest-value"+vfClassSuffix(e.cv), fmt.Sprintf("key %s holds %s, latest value set is %v (reference kinds are compared by identity)", k, vfDescr(v), e.cv))
		case !present && !afterTick:
			if n < e.lo || n > 0 {
				// no tick since the last comparison: nothing can have expired (an immediate expiry is possible
				// only right after a Set with an envelope starting at 0 ticks, i.e. n == 0 and lo == 0)
				cr.viol("C16/cache/state/live-key-missing", fmt.Sprintf("key %s=%v vanished during an operation that neither deleted it nor was due to evict it (limit %d)", k, e.cv, cr.limit))
				break
			}
			cr.noteExpired(e)
			cr.drop(k, "expired")
		case !present && n < e.lo:
			cr.viol("C16/cache/expiry/too-early", fmt.Sprintf("key %s (expire %v, set at tick %d) vanished after %d ticks; it was neither deleted nor due for eviction and cannot expire before tick %d after set", k, e.expire, e.setTick, n, e.lo))
		case !present:
			cr.noteExpired(e)
			if 2*n < e.lo+e.hi {
				cr.envelopeEarlyHalf++
			} else {
				cr.envelopeLateHalf++
			}
			cr.drop(k, "expired")
		}
		if cr.bad {
			return
		}
	}
	for k, v := range snap {
		if _, ok := cr.model[k]; !ok {
			cr.viol("C16/cache/state/dead-key-present/"+cr.why(k), fmt.Sprintf("key %s=%s is cached although it is %s", k, vfDescr(v), cr.why(k)))
			return
		}
	}
	if cr.limit > 0 && len(snap) > cr.limit {
		cr.viol("C16/cache/over-limit", fmt.Sprintf("%d entries with limit %d", len(snap), cr.limit))
	}
}

func (cr *vfCacheRun) tick() {
	cr.tk.c <- time.Time{}
	cr.ticks++
	cr.settle(true)
}

var vfErrLoad = errors.New("c16: loader failed")

func vfCacheHistory(c *kit.Case, r *kit.Rand, sample bool) {
	vfCalibrate()
	if !vfQuiesce(vfGoroutines) {
		c.Inconclusive("goroutine count did not return to the expected baseline before the case")
		vfGoroutines = runtime.NumGoroutine()
	}
	expiries := []time.Duration{1, 2, 3, 5, 10, 20, 30, 60, 100, 299, 300, 301, 400, 650}
	pickE := func() time.Duration {
		if r.Chance(0.6) {
			return time.Duration(kit.Choose(r, expiries[:8])) * time.Second
		}
		return time.Duration(kit.Choose(r, expiries)) * time.Second
	}
	limit := kit.Choose(r, []int{0, 0, 1, 2, 3, 3, 5, 8})
	nkeys := limit + r.Range(1, 3)
	if limit == 0 {
		nkeys = r.Range(1, 5)
	}
	expire := pickE()
	cache, err := NewCache(expire, WithLimit(limit))
	if err != nil {
		c.Viol("C16/cache/new-error", err.Error(), nil)
		return
	}
	old := cache.timingWheel
	old.Stop()
	vfGoroutines++ // the cache's statLoop stays
	if !vfQuiesce(vfGoroutines) {
		c.Inconclusive("the cache's own timing wheel did not stop")
		vfGoroutines = runtime.NumGoroutine()
		return
	}
	tk := &vfTicker{c: make(chan time.Time)}
	tw, err := NewTimingWheelWithTicker(old.interval, old.numSlots, old.execute, tk)
	if err != nil {
		c.Viol("C16/cache/new-error", err.Error(), nil)
		return
	}
	cache.timingWheel = tw
	cr := &vfCacheRun{c: c, cache: cache, tk: tk, tw: tw, baseline: vfGoroutines + 1, interval: old.interval, limit: limit, expire: expire,
		model: map[string]*vfEntry{}, gone: map[string]string{}, h: 14695981039346656037, r: r}
	defer func() {
		if p := recover(); p != nil {
			cr.viol("C16/cache/panic", fmt.Sprintf("Cache panicked: %v", p))
		}
		tw.Stop()
		if !vfQuiesce(vfGoroutines) {
			vfGoroutines = runtime.NumGoroutine()
		}
	}()
	keys := make([]string, nkeys)
	for i := range keys {
		keys[i] = fmt.Sprintf("k%d", i)
	}
	maxTicks := 2500
	// burst mode: operations are issued back to back, without waiting for the wheel and for detached
	// goroutines to settle after each one (applications do not wait either); the sequential model is
	// the same, the comparison happens at the next tick
	burst := r.Chance(0.4)
	if burst {
		c.Obs("wb_cache_burst_histories", 1)
	}
	L := r.Range(10, 120)
	wSet, wGet, wDel, wTake, wTick := r.Range(10, 40), r.Range(5, 30), r.Range(1, 10), r.Range(3, 20), r.Range(15, 50)
	for i := 0; i < L && !cr.bad; i++ {
		k := kit.Choose(r, keys)
		switch r.Pick(wSet, wGet, wDel, wTake, wTick) {
		case 0:
			v := cr.vfNewVal(k)
			if r.Chance(0.4) {
				e := pickE()
				cr.op(fmt.Sprintf("SetWithExpire(%s,%v,%v)", k, v, e))
				cache.SetWithExpire(k, v.v, e)
				cr.mset(k, v, e)
			} else {
				cr.op(fmt.Sprintf("Set(%s,%v)", k, v))
				cache.Set(k, v.v)
				cr.mset(k, v, expire)
			}
		case 1:
			cr.op("Get(" + k + ")")
			got, ok := cache.Get(k)
			e, wok := cr.model[k]
			switch {
			case wok && !ok:
				cr.viol("C16/cache/get/live-key-missing", fmt.Sprintf("Get(%s) missed; the key holds %v and is neither deleted, evicted nor expired", k, e.cv))
			case !wok && ok:
				cr.viol("C16/cache/get/dead-key-present/"+cr.why(k), fmt.Sprintf("Get(%s) returned %s although the key is %s", k, vfDescr(got), cr.why(k)))
			case wok && !vfSame(got, e.val):
				cr.viol("C16/cache/get/not-latest-value"+vfClassSuffix(e.cv), fmt.Sprintf("Get(%s) returned %s, latest value set is %v (reference kinds are compared by identity)", k, vfDescr(got), e.cv))
			}
			if wok {
				cr.vs.compared(e.val)
				cr.touch(k)
			}
		case 2:
			cr.op("Del(" + k + ")")
			cache.Del(k)
			if _, ok := cr.model[k]; ok {
				cr.drop(k, "deleted")
			}
		case 3:
			loadV := cr.vfNewVal(k)
			fail := r.Chance(0.3)
			cr.op(fmt.Sprintf("Take(%s, loader=>%s)", k, map[bool]string{false: loadV.String(), true: "error"}[fail]))
			calls := 0
			got, gerr := cache.Take(k, func() (any, error) {
				calls++
				if fail {
					return nil, vfErrLoad
				}
				return loadV.v, nil
			})
			e, hit := cr.model[k]
			switch {
			case hit:
				cr.takeHits++
				if calls > 0 {
					cr.viol("C16/cache/take/loader-called-on-hit", fmt.Sprintf("Take(%s) called the loader although the key is cached with %v", k, e.cv))
				} else if gerr != nil || !vfSame(got, e.val) {
					cr.viol("C16/cache/take/not-latest-value"+vfClassSuffix(e.cv), fmt.Sprintf("Take(%s) returned (%s,%v), latest value set is %v (reference kinds are compared by identity)", k, vfDescr(got), gerr, e.cv))
				}
				cr.vs.compared(e.val)
				cr.touch(k)
			case calls != 1:
				cr.viol("C16/cache/take/loader-calls-on-miss", fmt.Sprintf("Take(%s) on a %s key called the loader %d times", k, cr.why(k), calls))
			case fail:
				cr.takeFails++
				if gerr == nil {
					cr.viol("C16/cache/take/load-error-swallowed", fmt.Sprintf("Take(%s): loader failed, Take returned (%s,nil)", k, vfDescr(got)))
				} else if v, ok := cache.Get(k); ok { // on a correct cache this Get misses and changes nothing
					cr.viol("C16/cache/take/failed-load-cached", fmt.Sprintf("Take(%s): the loader failed, yet the key is cached afterwards with %s", k, vfDescr(v)))
				}
			default:
				cr.takeLoads++
				if gerr != nil || !vfSame(got, loadV.v) {
					cr.viol("C16/cache/take/wrong-result-after-load"+vfClassSuffix(loadV), fmt.Sprintf("Take(%s): loader returned %v, Take returned (%s,%v)", k, loadV, vfDescr(got), gerr))
				}
				cr.vs.compared(loadV.v)
				cr.mset(k, loadV, expire)
			}
		default:
			n := 1
			switch r.Pick(4, 3, 3, 2) {
			case 1:
				n = r.Range(2, 12)
			case 2:
				// run up to the edge of some entry's expiry envelope
				for _, k := range keys {
					if e, ok := cr.model[k]; ok {
						n = e.setTick + kit.Choose(r, []int{e.lo, e.lo + 1, e.hi - 1, e.hi}) - cr.ticks
						break
					}
				}
			case 3:
				n = r.Range(10, 350)
			}
			if n < 1 {
				n = 1
			}
			if cr.ticks+n > maxTicks {
				n = 1
			}
			cr.op(fmt.Sprintf("Tick x%d", n))
			for j := 0; j < n && !cr.bad; j++ {
				cr.tick()
			}
			continue
		}
		if !cr.bad && !burst {
			cr.settle(false)
		}
	}
	// run every remaining entry past its envelope: each must expire inside it
	if !cr.bad {
		max := 0
		for _, e := range cr.model {
			if d := e.setTick + e.hi - cr.ticks; d > max {
				max = d
			}
		}
		cr.op(fmt.Sprintf("Tick x%d (flush)", max))
		for j := 0; j < max && !cr.bad; j++ {
			cr.tick()
		}
		if !cr.bad && len(cr.model) > 0 {
			cr.viol("C16/cache/expiry/too-late", "entries left after every envelope had passed")
		}
	}
	c.Obs("wb_cache_histories", 1)
	c.Obs("wb_cache_ops", int64(len(cr.ops)))
	c.Obs("wb_cache_ticks", int64(cr.ticks))
	c.Obs("wb_cache_expiries_observed_inside_envelope", cr.expiries)
	c.Obs("wb_cache_expiries_in_lower_half_of_envelope", cr.envelopeEarlyHalf)
	c.Obs("wb_cache_expiries_in_upper_half_of_envelope", cr.envelopeLateHalf)
	c.Obs("wb_cache_expiry_renewed_by_set_of_cached_key", cr.renewals)
	c.Obs("wb_cache_model_evictions", cr.evictions)
	c.Obs("wb_cache_evictions_after_an_expiry", cr.evictAfterExpiry)
	c.Obs("wb_cache_take_hits", cr.takeHits)
	c.Obs("wb_cache_take_loads", cr.takeLoads)
	cr.vfValObs("wb_cache")
	// non-trivial: an entry expired by ticks and a pending expiry was renewed by a Set of the cached key
	c.Sig(cr.expiries > 0 && cr.renewals > 0, "wb-cache", limit, int64(expire), cr.h)
	if sample {
		c.Sample("wb-cache-expiry", 2, cr.wit())
	}
}

// ---------------------------------------------------------------- SafeMap near the thresholds

type vfSM struct {
	c     *kit.Case
	m     *SafeMap
	model map[any]any
	ops   []string
	setup []string
	bad   bool
	nextV int
	h     uint64
	// statistics (observed on the real object)
	switchOld, switchNew, setsIntoNew, delsFromNew, movesOldToNew int64
}

func (s *vfSM) op(x string) {
	s.ops = append(s.ops, x)
	for i := 0; i < len(x); i++ {
		s.h ^= uint64(x[i])
		s.h *= 1099511628211
	}
	s.h *= 31
}

func (s *vfSM) viol(kind, what string) {
	s.bad = true
	ops := s.ops
	if len(ops) > 300 {
		ops = ops[len(ops)-300:]
	}
	s.c.Viol("C16/safemap/"+kind+"/near-generation-switch", what, map[string]any{
		"setup": s.setup, "ops": ops, "ops_total": len(s.ops),
		"internal": fmt.Sprintf("deletionOld=%d deletionNew=%d len(dirtyOld)=%d len(dirtyNew)=%d", s.m.deletionOld, s.m.deletionNew, len(s.m.dirtyOld), len(s.m.dirtyNew))})
}

func (s *vfSM) check(k any) {
	want, wok := s.model[k]
	got, gok := s.m.Get(k)
	switch {
	case wok && !gok:
		s.viol("get/live-key-missing", fmt.Sprintf("Get(%v) found nothing; the map holds %v", k, want))
	case !wok && gok:
		s.viol("get/absent-key-present", fmt.Sprintf("Get(%v) returned %v; the key was deleted or never set", k, got))
	case wok && got != want:
		s.viol("get/not-latest-value", fmt.Sprintf("Get(%v) returned %v, latest value set is %v", k, got, want))
	}
	if !s.bad {
		if sz := s.m.Size(); sz != len(s.model) {
			s.viol("size", fmt.Sprintf("Size() = %d, the map holds %d entries", sz, len(s.model)))
		}
	}
}

func (s *vfSM) set(k any, log bool) {
	s.nextV++
	if log {
		s.op(fmt.Sprintf("Set(%v,%d)", k, s.nextV))
	}
	if s.m.deletionOld > maxDeletion {
		s.setsIntoNew++
		if _, ok := s.m.dirtyOld[k]; ok {
			s.movesOldToNew++
		}
	}
	s.m.Set(k, s.nextV)
	s.model[k] = s.nextV
	if log {
		s.check(k)
	}
}

func (s *vfSM) del(k any) {
	s.op(fmt.Sprintf("Del(%v)", k))
	po, pn := reflect.ValueOf(s.m.dirtyOld).Pointer(), reflect.ValueOf(s.m.dirtyNew).Pointer()
	if _, ok := s.m.dirtyNew[k]; ok {
		s.delsFromNew++
	}
	s.m.Del(k)
	delete(s.model, k)
	if reflect.ValueOf(s.m.dirtyOld).Pointer() != po {
		s.switchOld++
	} else if reflect.ValueOf(s.m.dirtyNew).Pointer() != pn {
		s.switchNew++
	}
	s.check(k)
}

func (s *vfSM) rangeAll() {
	s.op("Range(all)")
	seen := make(map[any]bool, len(s.model))
	s.m.Range(func(k, v any) bool {
		want, ok := s.model[k]
		switch {
		case seen[k]:
			s.viol("range/key-visited-twice", fmt.Sprintf("Range visited key %v twice", k))
		case !ok:
			s.viol("range/absent-key-visited", fmt.Sprintf("Range visited %v=%v; the key was deleted or never set", k, v))
		case v != want:
			s.viol("range/not-latest-value", fmt.Sprintf("Range visited %v=%v, latest value set is %v", k, v, want))
		}
		seen[k] = true
		return !s.bad
	})
	if !s.bad && len(seen) != len(s.model) {
		s.viol("range/live-key-not-visited", fmt.Sprintf("Range visited %d of %d entries", len(seen), len(s.model)))
	}
}

// ops runs n random operations over the given filler keys plus a few hot keys.
func (s *vfSM) run(r *kit.Rand, n int, fillerLo, fillerHi *int) {
	hot := []any{"a", "b", "c", 7}
	for i := 0; i < n && !s.bad; i++ {
		switch r.Pick(22, 12, 18, 16, 10, 12, 4, 6) {
		case 0:
			s.set(kit.Choose(r, hot), true)
		case 1:
			s.del(kit.Choose(r, hot))
		case 2: // delete a filler (shrinks the first generation below copyThreshold)
			if *fillerLo < *fillerHi {
				s.del(*fillerLo)
				*fillerLo++
			}
		case 3: // overwrite a filler (moves it between the generations)
			if *fillerLo < *fillerHi {
				s.set(*fillerLo+r.Intn(*fillerHi-*fillerLo), true)
			}
		case 4: // fresh key
			*fillerHi++
			s.set(*fillerHi-1, true)
		case 5: // set and delete a throw-away key: one more deletion
			s.set("tmp", true)
			s.del("tmp")
		case 6:
			s.op("Get")
			s.check(kit.Choose(r, hot))
			if *fillerLo < *fillerHi {
				s.check(*fillerLo + r.Intn(*fillerHi-*fillerLo))
			}
		default:
			s.rangeAll()
		}
	}
}

func vfSafeMapHistory(c *kit.Case, r *kit.Rand, sample bool) {
	s := &vfSM{c: c, m: NewSafeMap(), model: map[any]any{}, h: 14695981039346656037}
	defer func() {
		if p := recover(); p != nil {
			s.viol("panic", fmt.Sprintf("SafeMap panicked: %v", p))
		}
	}()
	// stage 1: F entries in the first generation, deletion counter just below maxDeletion
	f := kit.Choose(r, []int{0, 1, 5, copyThreshold - 3, copyThreshold - 1, copyThreshold, copyThreshold + 1, copyThreshold + 2, copyThreshold + 5, copyThreshold + 30, 2 * copyThreshold})
	lo, hi := 1000000, 1000000
	for i := 0; i < f; i++ {
		s.set(hi, false)
		hi++
	}
	d0 := maxDeletion - r.Range(1, 8)
	s.m.deletionOld = d0 // stands for d0 Set/Del pairs of a fresh key: none of them can trigger a switch while the counter stays < maxDeletion
	s.setup = append(s.setup, fmt.Sprintf("Set %d filler keys %d..%d; then %d x (Set(fresh),Del(fresh)) [by assignment: deletionOld=%d]", f, lo, hi-1, d0, d0))
	s.op(fmt.Sprintf("setup F=%d d0=%d", f, d0))
	s.run(r, r.Range(10, 70), &lo, &hi)
	// stage 2: if the map now routes writes to the second generation and the first one is too big to be merged,
	// bring the second generation's deletion counter close to maxDeletion, too
	if !s.bad && s.m.deletionOld > maxDeletion && len(s.m.dirtyOld) >= copyThreshold && s.m.deletionNew < maxDeletion-10 && r.Chance(0.7) {
		g := kit.Choose(r, []int{0, 0, 3, copyThreshold - 2, copyThreshold, copyThreshold + 2})
		for i := 0; i < g; i++ {
			hi++
			s.set(hi-1, false)
		}
		d1 := maxDeletion - r.Range(1, 8)
		if d1 > s.m.deletionNew {
			// d1-deletionNew Set/Del pairs of a fresh key: they go to the second generation (deletionOld > maxDeletion),
			// cannot merge the first (len(dirtyOld) >= copyThreshold) and stay below maxDeletion
			s.setup = append(s.setup, fmt.Sprintf("Set %d more fresh keys; then %d x (Set(fresh),Del(fresh)) [by assignment: deletionNew=%d]", g, d1-s.m.deletionNew, d1))
			s.m.deletionNew = d1
		}
		s.op(fmt.Sprintf("setup2 G=%d d1=%d", g, d1))
		s.run(r, r.Range(10, 70), &lo, &hi)
	}
	if !s.bad {
		s.rangeAll()
	}
	c.Obs("wb_safemap_histories", 1)
	c.Obs("wb_safemap_ops", int64(len(s.ops)))
	c.Obs("wb_safemap_switches_first_generation_replaced", s.switchOld)
	c.Obs("wb_safemap_switches_second_generation_folded_back", s.switchNew)
	c.Obs("wb_safemap_sets_routed_to_second_generation", s.setsIntoNew)
	c.Obs("wb_safemap_sets_moving_key_first_to_second", s.movesOldToNew)
	c.Obs("wb_safemap_dels_from_second_generation", s.delsFromNew)
	// non-trivial: a generation switch happened, or a key changed generation
	c.Sig(s.switchOld+s.switchNew > 0 || s.movesOldToNew > 0, "wb-safemap", f, d0, s.h)
	if sample {
		c.Sample("wb-safemap", 1, map[string]any{"setup": s.setup, "ops": s.ops})
	}
}

func TestVerifC16W(t *testing.T) {
	logx.Disable()
	runtime.Gosched()
	time.Sleep(10 * time.Millisecond)
	vfGoroutines = runtime.NumGoroutine()

	const cb = 5
	kit.Run(t, "C16", "wb-cache-expiry", kit.N(480, 6400), func(c *kit.Case) {
		for h := 0; h < cb && !c.Violated(); h++ {
			vfCacheHistory(c, c.R, c.Index == 0 && h < 2)
		}
		c.Evals(cb)
	})
	const sb = 20
	kit.Run(t, "C16", "wb-safemap-thresholds", kit.N(300, 4800), func(c *kit.Case) {
		for h := 0; h < sb && !c.Violated(); h++ {
			vfSafeMapHistory(c, c.R, c.Index == 0 && h == 0)
		}
		c.Evals(sb)
	})
	vfExtFamilies(t)
	kit.End()
}
