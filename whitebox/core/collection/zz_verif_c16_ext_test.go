package collection

// White-box part of C16, second round (same harness as zz_verif_c16_test.go: the Cache's timing wheel runs on
// a scripted ticker, expiry is judged in ticks).
//
//  1. wb-cache-evict-reset: caches WithLimit whose keys are set again right after the LRU evicted them, in
//     bursts (no settling between operations) and with a wheel loop that is slow to come back to its select
//     (vfTicker.Chan() dawdles: a legal schedule, the wheel goroutine is merely descheduled for a moment), so
//     that whatever go-zero hands to the wheel from detached goroutines piles up next to the synchronous
//     requests of the following operations and the select chooses among them. The model is the sequential
//     one; after the burst every entry must expire inside its envelope of ticks, counted from its most recent
//     Set. Cache.size() is compared with the limit after every single operation.
//  2. wb-safemap-range: SafeMap in the state where both generations hold entries; Range stopped at every
//     position around the border between the generations (the number of entries in each generation is read
//     from the object), and Range callbacks that read the map.

import (
	"fmt"
	"runtime"
	"testing"
	"time"

	kit "github.com/zeromicro/go-zero/internal/verifkit"
)

// vfNewCacheRun builds a Cache whose timing wheel runs on a harness ticker (see vfCacheHistory).
func vfNewCacheRun(c *kit.Case, limit int, expire time.Duration) (*vfCacheRun, func()) {
	vfCalibrate()
	if !vfQuiesce(vfGoroutines) {
		c.Inconclusive("goroutine count did not return to the expected baseline before the case")
		vfGoroutines = runtime.NumGoroutine()
	}
	cache, err := NewCache(expire, WithLimit(limit))
	if err != nil {
		c.Viol("C16/cache/new-error", err.Error(), nil)
		return nil, nil
	}
	old := cache.timingWheel
	old.Stop()
	vfGoroutines++ // the cache's statLoop stays
	if !vfQuiesce(vfGoroutines) {
		c.Inconclusive("the cache's own timing wheel did not stop")
		vfGoroutines = runtime.NumGoroutine()
		return nil, nil
	}
	tk := &vfTicker{c: make(chan time.Time)}
	tw, err := NewTimingWheelWithTicker(old.interval, old.numSlots, old.execute, tk)
	if err != nil {
		c.Viol("C16/cache/new-error", err.Error(), nil)
		return nil, nil
	}
	cache.timingWheel = tw
	cr := &vfCacheRun{c: c, cache: cache, tk: tk, tw: tw, baseline: vfGoroutines + 1, interval: old.interval, limit: limit, expire: expire,
		model: map[string]*vfEntry{}, gone: map[string]string{}, h: 14695981039346656037, r: c.R}
	return cr, func() {
		tk.slow.Store(false)
		tw.Stop()
		if !vfQuiesce(vfGoroutines) {
			vfGoroutines = runtime.NumGoroutine()
		}
	}
}

// vfSizeCheck: "never holds more than its limit", read through the cache's own size() after every operation.
func (cr *vfCacheRun) vfSizeCheck() {
	if cr.bad || cr.limit <= 0 {
		return
	}
	if n := cr.cache.size(); n > cr.limit {
		cr.viol("C16/cache/over-limit", fmt.Sprintf("the cache holds %d entries right after an operation, limit %d", n, cr.limit))
	}
}

func (cr *vfCacheRun) vfSet(k string, e time.Duration, withExpire bool) {
	v := cr.vfNewVal(k)
	if withExpire {
		cr.op(fmt.Sprintf("SetWithExpire(%s,%v,%v)", k, v, e))
		cr.cache.SetWithExpire(k, v.v, e)
	} else {
		e = cr.expire
		cr.op(fmt.Sprintf("Set(%s,%v)", k, v))
		cr.cache.Set(k, v.v)
	}
	cr.mset(k, v, e)
}

func (cr *vfCacheRun) vfGet(k string) {
	cr.op("Get(" + k + ")")
	got, ok := cr.cache.Get(k)
	e, wok := cr.model[k]
	switch {
	case wok && !ok:
		cr.viol("C16/cache/get/live-key-missing", fmt.Sprintf("Get(%s) missed; the key holds %v and is neither deleted, evicted nor expired", k, e.cv))
	case !wok && ok:
		cr.viol("C16/cache/get/dead-key-present/"+cr.why(k), fmt.Sprintf("Get(%s) returned %s although the key is %s", k, vfDescr(got), cr.why(k)))
	case wok && !vfSame(got, e.val):
		cr.viol("C16/cache/get/not-latest-value"+vfClassSuffix(e.cv), fmt.Sprintf("Get(%s) returned %s, latest value set is %v (reference kinds are compared by identity)", k, vfDescr(got), e.cv))
	}
	if wok {
		cr.vs.compared(e.val)
		cr.touch(k)
	}
}

func (cr *vfCacheRun) vfDel(k string) {
	cr.op("Del(" + k + ")")
	cr.cache.Del(k)
	if _, ok := cr.model[k]; ok {
		cr.drop(k, "deleted")
	}
}

func (cr *vfCacheRun) vfTake(k string, fail bool) {
	loadV := cr.vfNewVal(k)
	cr.op(fmt.Sprintf("Take(%s, loader=>%s)", k, map[bool]string{false: loadV.String(), true: "error"}[fail]))
	calls := 0
	got, gerr := cr.cache.Take(k, func() (any, error) {
		calls++
		if fail {
			return nil, vfErrLoad
		}
		return loadV.v, nil
	})
	e, hit := cr.model[k]
	switch {
	case hit:
		cr.takeHits++
		if calls > 0 {
			cr.viol("C16/cache/take/loader-called-on-hit", fmt.Sprintf("Take(%s) called the loader although the key is cached with %v", k, e.cv))
		} else if gerr != nil || !vfSame(got, e.val) {
			cr.viol("C16/cache/take/not-latest-value"+vfClassSuffix(e.cv), fmt.Sprintf("Take(%s) returned (%s,%v), latest value set is %v (reference kinds are compared by identity)", k, vfDescr(got), gerr, e.cv))
		}
		cr.vs.compared(e.val)
		cr.touch(k)
	case calls != 1:
		cr.viol("C16/cache/take/loader-calls-on-miss", fmt.Sprintf("Take(%s) on a %s key called the loader %d times", k, cr.why(k), calls))
	case fail:
		cr.takeFails++
		if gerr == nil {
			cr.viol("C16/cache/take/load-error-swallowed", fmt.Sprintf("Take(%s): loader failed, Take returned (%s,nil)", k, vfDescr(got)))
		} else if v, ok := cr.cache.Get(k); ok { // on a correct cache this Get misses and changes nothing
			cr.viol("C16/cache/take/failed-load-cached", fmt.Sprintf("Take(%s): the loader failed, yet the key is cached afterwards with %s", k, vfDescr(v)))
		}
	default:
		cr.takeLoads++
		if gerr != nil || !vfSame(got, loadV.v) {
			cr.viol("C16/cache/take/wrong-result-after-load"+vfClassSuffix(loadV), fmt.Sprintf("Take(%s): loader returned %v, Take returned (%s,%v)", k, loadV, vfDescr(got), gerr))
		}
		cr.vs.compared(loadV.v)
		cr.mset(k, loadV, cr.expire)
	}
}

func vfEvictResetHistory(c *kit.Case, r *kit.Rand, sample bool) {
	limit := kit.Choose(r, []int{1, 1, 2, 2, 3, 4, 6, 8})
	nkeys := limit + r.Range(1, 3)
	secs := []time.Duration{1, 2, 3, 5, 10, 20}
	expire := kit.Choose(r, secs) * time.Second
	cr, done := vfNewCacheRun(c, limit, expire)
	if cr == nil {
		return
	}
	defer func() {
		if p := recover(); p != nil {
			cr.viol("C16/cache/panic", fmt.Sprintf("Cache panicked: %v", p))
		}
		done()
	}()
	keys := make([]string, nkeys)
	for i := range keys {
		keys[i] = fmt.Sprintf("k%d", i)
	}
	slow := r.Chance(0.85)
	var resets, bursts int64
	rounds := r.Range(1, 3)
	for rd := 0; rd < rounds && !cr.bad; rd++ {
		bursts++
		cr.op(fmt.Sprintf("-- burst (no settling between operations; wheel loop slow: %v)", slow))
		cr.tk.slow.Store(slow)
		// fill up to the limit
		for i := 0; i < limit && !cr.bad; i++ {
			cr.vfSet(keys[i], 0, false)
			cr.vfSizeCheck()
		}
		steps := r.Range(limit+2, 50)
		lastVictim := ""
		for i := 0; i < steps && !cr.bad; i++ {
			evBefore := cr.evictions
			victimBefore := ""
			if len(cr.order) > 0 {
				victimBefore = cr.order[len(cr.order)-1]
			}
			switch r.Pick(70, 8, 6, 4, 8, 4) {
			case 0: // set the key the LRU evicted last (else some absent key, else any key)
				k := lastVictim
				if k == "" {
					for _, x := range keys {
						if _, ok := cr.model[x]; !ok {
							k = x
							break
						}
					}
				}
				if k == "" {
					k = kit.Choose(r, keys)
				}
				if k == lastVictim && k != "" {
					resets++
				}
				if r.Chance(0.25) {
					cr.vfSet(k, kit.Choose(r, secs)*time.Second, true)
				} else {
					cr.vfSet(k, 0, false)
				}
			case 1:
				cr.vfSet(kit.Choose(r, keys), 0, false)
			case 2:
				cr.vfGet(kit.Choose(r, keys))
			case 3:
				cr.vfDel(kit.Choose(r, keys))
			case 4: // Take of the key evicted last: a miss that loads it back
				k := lastVictim
				if k == "" {
					k = kit.Choose(r, keys)
				} else if _, ok := cr.model[k]; !ok {
					resets++
				}
				cr.vfTake(k, false)
			default:
				cr.vfTake(kit.Choose(r, keys), r.Chance(0.5))
			}
			lastVictim = ""
			if cr.evictions > evBefore {
				lastVictim = victimBefore
			}
			cr.vfSizeCheck()
		}
		cr.tk.slow.Store(false)
		if cr.bad {
			break
		}
		cr.settle(false)
		// some ticks (possibly up to the edge of an envelope), then either another burst or the final flush
		n := 0
		switch r.Pick(3, 2, 2) {
		case 0:
			n = r.Range(1, 3)
		case 1:
			for _, k := range keys {
				if e, ok := cr.model[k]; ok {
					n = e.setTick + kit.Choose(r, []int{e.lo, e.hi - 1}) - cr.ticks
					break
				}
			}
		default:
			n = r.Range(1, 25)
		}
		if n > 0 && rd+1 < rounds {
			cr.op(fmt.Sprintf("Tick x%d", n))
			for j := 0; j < n && !cr.bad; j++ {
				cr.tick()
			}
		}
	}
	// run every remaining entry past its envelope: each must expire inside it
	if !cr.bad {
		max := 0
		for _, e := range cr.model {
			if d := e.setTick + e.hi - cr.ticks; d > max {
				max = d
			}
		}
		cr.op(fmt.Sprintf("Tick x%d (flush)", max))
		for j := 0; j < max && !cr.bad; j++ {
			cr.tick()
		}
		if !cr.bad && len(cr.model) > 0 {
			cr.viol("C16/cache/expiry/too-late", "entries left after every envelope had passed")
		}
	}
	c.Obs("wb_evictreset_histories", 1)
	c.Obs("wb_evictreset_bursts", bursts)
	c.Obs("wb_evictreset_ops", int64(len(cr.ops)))
	c.Obs("wb_evictreset_ticks", int64(cr.ticks))
	c.Obs("wb_evictreset_model_evictions", cr.evictions)
	c.Obs("wb_evictreset_keys_set_again_right_after_their_eviction", resets)
	c.Obs("wb_evictreset_expiries_observed_inside_envelope", cr.expiries)
	cr.vfValObs("wb_evictreset")
	if slow {
		c.Obs("wb_evictreset_histories_with_slow_wheel_loop", 1)
	}
	// non-trivial: keys came back right after their eviction and entries expired by ticks afterwards
	c.Sig(resets > 0 && cr.expiries > 0, "wb-evict-reset", limit, int64(expire), slow, cr.h)
	if sample {
		c.Sample("wb-cache-evict-reset", 1, cr.wit())
	}
}

// ---------------------------------------------------------------- SafeMap: Range over two populated generations

// rangeStop: f returns false at the n-th call; Range must call f exactly min(n, size) times, each time with a live pair.
func (s *vfSM) vfRangeStop(n int) {
	s.op(fmt.Sprintf("Range(stop at call %d) [len(dirtyOld)=%d len(dirtyNew)=%d]", n, len(s.m.dirtyOld), len(s.m.dirtyNew)))
	calls := 0
	seen := map[any]bool{}
	s.m.Range(func(k, v any) bool {
		calls++
		if want, ok := s.model[k]; !ok || want != v || seen[k] {
			s.viol("range/absent-or-stale-pair-visited", fmt.Sprintf("Range visited %v=%v (visited before: %v), model has (%v,%v)", k, v, seen[k], want, ok))
		}
		seen[k] = true
		return calls < n
	})
	want := n
	if len(s.model) < n {
		want = len(s.model)
	}
	if !s.bad && calls != want {
		s.viol("range/stop-ignored", fmt.Sprintf("Range called f %d times, want %d (f returned false at call %d, %d entries)", calls, want, n, len(s.model)))
	}
}

// vfRangeNested: a full Range whose callback reads the map (Get, Size) at every `every`-th pair.
func (s *vfSM) vfRangeNested(every int) (nested int64) {
	s.op(fmt.Sprintf("Range(all; Get+Size inside the callback at every %d-th pair)", every))
	seen := make(map[any]bool, len(s.model))
	n := 0
	s.m.Range(func(k, v any) bool {
		want, ok := s.model[k]
		if seen[k] || !ok || v != want {
			s.viol("range/absent-or-stale-pair-visited", fmt.Sprintf("Range visited %v=%v (visited before: %v), model has (%v,%v)", k, v, seen[k], want, ok))
		}
		seen[k] = true
		n++
		if !s.bad && n%every == 0 {
			nested++
			if got, gok := s.m.Get(k); !gok || got != want {
				s.viol("range/get-inside-callback", fmt.Sprintf("Get(%v) from inside the Range callback returned (%v,%v), the map holds %v", k, got, gok, want))
			} else if sz := s.m.Size(); sz != len(s.model) {
				s.viol("range/size-inside-callback", fmt.Sprintf("Size() from inside the Range callback = %d, the map holds %d entries", sz, len(s.model)))
			}
		}
		return !s.bad
	})
	if !s.bad && len(seen) != len(s.model) {
		s.viol("range/live-key-not-visited", fmt.Sprintf("Range visited %d of %d entries", len(seen), len(s.model)))
	}
	return nested
}

func vfSafeMapRangeHistory(c *kit.Case, r *kit.Rand, sample bool) {
	s := &vfSM{c: c, m: NewSafeMap(), model: map[any]any{}, h: 14695981039346656037}
	defer func() {
		if p := recover(); p != nil {
			s.viol("panic", fmt.Sprintf("SafeMap panicked: %v", p))
		}
	}()
	f := kit.Choose(r, []int{copyThreshold, copyThreshold + 1, copyThreshold + 3, copyThreshold + 30, 2 * copyThreshold})
	lo, hi := 1000000, 1000000
	for i := 0; i < f; i++ {
		s.set(hi, false)
		hi++
	}
	d0 := maxDeletion - r.Range(1, 4)
	s.m.deletionOld = d0 // stands for d0 Set/Del pairs of a fresh key: none of them can trigger a switch while the counter stays < maxDeletion
	s.setup = append(s.setup, fmt.Sprintf("Set %d filler keys %d..%d; then %d x (Set(fresh),Del(fresh)) [by assignment: deletionOld=%d]", f, lo, hi-1, d0, d0))
	s.op(fmt.Sprintf("setup F=%d d0=%d", f, d0))
	// through the real API: pairs of Set/Del of a throw-away key until the first generation stops taking new keys
	for i := 0; i < 12 && !s.bad && s.m.deletionOld <= maxDeletion; i++ {
		s.set("tmp", true)
		s.del("tmp")
	}
	hot := []any{"a", "b", "c", "d", 7, int64(8)}
	var stops, stopsInSecond, stopsAtBorder, nested int64
	stopAt := func(n int) {
		if n < 1 || s.bad {
			return
		}
		o, y := len(s.m.dirtyOld), len(s.m.dirtyNew)
		stops++
		if o > 0 && y > 0 && n > o && n <= o+y {
			stopsInSecond++
		}
		if y > 0 && (n == o || n == o+1) {
			stopsAtBorder++
		}
		s.vfRangeStop(n)
	}
	L := r.Range(15, 60)
	for i := 0; i < L && !s.bad; i++ {
		switch r.Pick(25, 8, 10, 8, 6, 30, 6, 4) {
		case 0:
			s.set(kit.Choose(r, hot), true)
		case 1:
			s.del(kit.Choose(r, hot))
		case 2: // overwrite a filler (moves it to the second generation)
			if lo < hi {
				s.set(lo+r.Intn(hi-lo), true)
			}
		case 3: // fresh key
			hi++
			s.set(hi-1, true)
		case 4: // delete a filler (may shrink the first generation below copyThreshold: the generations are merged)
			if lo < hi {
				s.del(lo)
				lo++
			}
		case 5:
			o, y := len(s.m.dirtyOld), len(s.m.dirtyNew)
			stopAt(kit.Choose(r, []int{1, o - 1, o, o + 1, o + 2, o + (y+1)/2, o + y - 1, o + y, o + y + 1}))
		case 6:
			nested += s.vfRangeNested(r.Range(1, 50))
		default:
			s.rangeAll()
		}
	}
	if !s.bad {
		o, y := len(s.m.dirtyOld), len(s.m.dirtyNew)
		for _, n := range []int{o, o + 1, o + y} {
			stopAt(n)
		}
	}
	if !s.bad {
		s.rangeAll()
	}
	c.Obs("wb_safemap_range_histories", 1)
	c.Obs("wb_safemap_range_ops", int64(len(s.ops)))
	c.Obs("wb_safemap_range_stops", stops)
	c.Obs("wb_safemap_range_stops_inside_second_generation", stopsInSecond)
	c.Obs("wb_safemap_range_stops_at_generation_border", stopsAtBorder)
	c.Obs("wb_safemap_range_reads_inside_callback", nested)
	c.Obs("wb_safemap_switches_first_generation_replaced", s.switchOld)
	c.Obs("wb_safemap_sets_routed_to_second_generation", s.setsIntoNew)
	// non-trivial: a Range was stopped inside the second generation while the first one held entries
	c.Sig(stopsInSecond > 0, "wb-safemap-range", f, d0, s.h)
	if sample {
		c.Sample("wb-safemap-range", 1, map[string]any{"setup": s.setup, "ops": s.ops})
	}
}

func vfExtFamilies(t *testing.T) {
	const eb = 4
	kit.Run(t, "C16", "wb-cache-evict-reset", kit.N(160, 2400), func(c *kit.Case) {
		for h := 0; h < eb && !c.Violated(); h++ {
			vfEvictResetHistory(c, c.R, c.Index == 0 && h == 0)
		}
		c.Evals(eb)
	})
	const sb = 10
	kit.Run(t, "C16", "wb-safemap-range", kit.N(120, 2400), func(c *kit.Case) {
		for h := 0; h < sb && !c.Violated(); h++ {
			vfSafeMapRangeHistory(c, c.R, c.Index == 0 && h == 0)
		}
		c.Evals(sb)
	})
}
