package internal

// Runtime monitor for the registry part of C13 (DESIGN.md §4 C13, concurrency /
// multiplicity extension), in-package: the REAL Registry.Monitor / Unmonitor, the real
// watch goroutines (watch -> watchStream -> handleWatchEvents, compaction -> load ->
// handleChanges) and the real cluster.reload run against a small scripted EtcdClient;
// the listeners are plain recording UpdateListeners (key -> value as told by OnAdd /
// OnDelete), so what is judged is exactly what the registry tells its listeners.
//
//	wb-dispatch  2..6 listeners on ONE watch; events are delivered through the watch
//	             channel while listeners are removed (Unmonitor) from INSIDE another
//	             listener's OnAdd/OnDelete (deterministic placement in the dispatch loop)
//	             or by a concurrent goroutine; compaction reloads in between.
//	wb-reload    2..6 DIFFERENT watch keys (prefix-related names, the same key with and
//	             without exactMatch) on ONE cluster; registrations change while nothing is
//	             delivered (an outage), then cluster.reload(cli) - what the connection
//	             state watcher calls on reconnect - and later events on every key.
//
// Quiescence is causal: the scripted client's channel is unbuffered and go-zero handles
// a stream sequentially, so once go-zero has RECEIVED an empty (progress) response sent
// behind an event, the event has been dispatched completely; reload is over once go-zero
// has issued as many Watch calls as keys are watched (each reload goroutine loads, then
// watches). Then every listener that is still registered must hold exactly the
// registered keys of its range, and must have been told about every change.

import (
	"context"
	"errors"
	"fmt"
	"sort"
	"strings"
	"sync"
	"testing"
	"time"

	"github.com/zeromicro/go-zero/core/logx"
	kit "github.com/zeromicro/go-zero/internal/verifkit"
	pb "go.etcd.io/etcd/api/v3/etcdserverpb"
	"go.etcd.io/etcd/api/v3/mvccpb"
	clientv3 "go.etcd.io/etcd/client/v3"
	"google.golang.org/grpc"
	"google.golang.org/grpc/credentials/insecure"
)

const vfWatchdog = 40 * time.Second

type vfRange struct{ key, end string }

func (w vfRange) vfMatch(k string) bool {
	if w.end == "" {
		return k == w.key
	}
	return k >= w.key && k < w.end
}

func vfRangeOf(key string, exact bool) vfRange {
	if exact {
		return vfRange{key: key}
	}
	return vfRange{key: key + "/", end: key + "0"}
}

type vfWatch struct {
	rng vfRange
	ctx context.Context
	ch  chan clientv3.WatchResponse
	rev int64
}

type vfCli struct {
	mu      sync.Mutex
	kv      map[string]string
	rev     int64
	conn    *grpc.ClientConn
	watches []*vfWatch
	gets    []vfRange
	note    chan struct{}
	calls   []string
	onGet   func() // runs at the start of the next Get, on go-zero's goroutine, outside the lock; one-shot
}

var vfErrUnused = errors.New("not scripted")

func (f *vfCli) ActiveConnection() *grpc.ClientConn { return f.conn }
func (f *vfCli) Close() error                       { return nil }
func (f *vfCli) Ctx() context.Context               { return context.Background() }
func (f *vfCli) Grant(context.Context, int64) (*clientv3.LeaseGrantResponse, error) {
	return nil, vfErrUnused
}
func (f *vfCli) KeepAlive(context.Context, clientv3.LeaseID) (<-chan *clientv3.LeaseKeepAliveResponse, error) {
	return nil, vfErrUnused
}
func (f *vfCli) Put(context.Context, string, string, ...clientv3.OpOption) (*clientv3.PutResponse, error) {
	return nil, vfErrUnused
}
func (f *vfCli) Revoke(context.Context, clientv3.LeaseID) (*clientv3.LeaseRevokeResponse, error) {
	return nil, vfErrUnused
}

func (f *vfCli) vfPoke() {
	select {
	case f.note <- struct{}{}:
	default:
	}
}

func (f *vfCli) Get(_ context.Context, key string, opts ...clientv3.OpOption) (*clientv3.GetResponse, error) {
	o := clientv3.OpGet(key, opts...)
	rng := vfRange{string(o.KeyBytes()), string(o.RangeBytes())}
	f.mu.Lock()
	hook := f.onGet
	f.onGet = nil
	f.mu.Unlock()
	if hook != nil {
		hook()
	}
	f.mu.Lock()
	defer f.mu.Unlock()
	var keys []string
	for k := range f.kv {
		if rng.vfMatch(k) {
			keys = append(keys, k)
		}
	}
	sort.Strings(keys)
	resp := &clientv3.GetResponse{Header: &pb.ResponseHeader{Revision: f.rev}, Count: int64(len(keys))}
	for _, k := range keys {
		resp.Kvs = append(resp.Kvs, &mvccpb.KeyValue{Key: []byte(k), Value: []byte(f.kv[k])})
	}
	f.gets = append(f.gets, rng)
	f.calls = append(f.calls, fmt.Sprintf("Get[%q,%q) -> %d key(s) at revision %d", rng.key, rng.end, len(keys), f.rev))
	f.vfPoke()
	return resp, nil
}

func (f *vfCli) Watch(ctx context.Context, key string, opts ...clientv3.OpOption) clientv3.WatchChan {
	o := clientv3.OpGet(key, opts...)
	w := &vfWatch{rng: vfRange{string(o.KeyBytes()), string(o.RangeBytes())}, ctx: ctx, ch: make(chan clientv3.WatchResponse), rev: o.Rev()}
	f.mu.Lock()
	f.watches = append(f.watches, w)
	f.calls = append(f.calls, fmt.Sprintf("Watch[%q,%q) from revision %d", w.rng.key, w.rng.end, w.rev))
	f.mu.Unlock()
	f.vfPoke()
	return w.ch
}

func (f *vfCli) vfCounts() (gets, watches int) {
	f.mu.Lock()
	defer f.mu.Unlock()
	return len(f.gets), len(f.watches)
}

func (f *vfCli) vfWaitWatches(n int) bool {
	t := time.NewTimer(vfWatchdog)
	defer t.Stop()
	for {
		if _, w := f.vfCounts(); w >= n {
			return true
		}
		select {
		case <-f.note:
		case <-t.C:
			return false
		}
	}
}

// vfLatest: the most recent Watch call for exactly this range.
func (f *vfCli) vfLatest(rng vfRange) *vfWatch {
	f.mu.Lock()
	defer f.mu.Unlock()
	for i := len(f.watches) - 1; i >= 0; i-- {
		if f.watches[i].rng == rng {
			return f.watches[i]
		}
	}
	return nil
}

const (
	vfSent = iota
	vfNoWatch
	vfTimeout
)

// vfSendLatest hands resp to the watch go-zero is being served on for rng: the most recent
// Watch call for that range, re-evaluated whenever go-zero makes another call (a goroutine
// that was on its way out may have made one more Watch call that nobody reads from).
func (f *vfCli) vfSendLatest(rng vfRange, resp clientv3.WatchResponse) int {
	t := time.NewTimer(vfWatchdog)
	defer t.Stop()
	for {
		w := f.vfLatest(rng)
		if w == nil {
			return vfNoWatch
		}
		select {
		case w.ch <- resp:
			return vfSent
		case <-w.ctx.Done():
			if f.vfLatest(rng) == w {
				return vfNoWatch // go-zero cancelled this watch and has not asked for another one
			}
		case <-f.note:
		case <-t.C:
			return vfTimeout
		}
	}
}

func vfSend(w *vfWatch, resp clientv3.WatchResponse) int {
	if w == nil {
		return vfNoWatch
	}
	t := time.NewTimer(vfWatchdog)
	defer t.Stop()
	select {
	case w.ch <- resp:
		return vfSent
	case <-w.ctx.Done():
		return vfNoWatch // go-zero cancelled this watch and has not asked for another one
	case <-t.C:
		return vfTimeout
	}
}

type vfOp struct {
	del  bool
	k, v string
}

func (o vfOp) String() string {
	if o.del {
		return "DEL " + o.k
	}
	return "PUT " + o.k + "=" + o.v
}

// vfStore applies ops to the store only and returns the effective events.
func (f *vfCli) vfStore(ops ...vfOp) []*clientv3.Event {
	f.mu.Lock()
	defer f.mu.Unlock()
	var evs []*clientv3.Event
	for _, o := range ops {
		if o.del {
			if _, ok := f.kv[o.k]; !ok {
				continue
			}
			f.rev++
			delete(f.kv, o.k)
			evs = append(evs, &clientv3.Event{Type: mvccpb.DELETE, Kv: &mvccpb.KeyValue{Key: []byte(o.k), ModRevision: f.rev}})
		} else {
			f.rev++
			f.kv[o.k] = o.v
			evs = append(evs, &clientv3.Event{Type: mvccpb.PUT, Kv: &mvccpb.KeyValue{Key: []byte(o.k), Value: []byte(o.v), ModRevision: f.rev}})
		}
	}
	return evs
}

func (f *vfCli) vfCurrent(rng vfRange) map[string]string {
	f.mu.Lock()
	defer f.mu.Unlock()
	m := map[string]string{}
	for k, v := range f.kv {
		if rng.vfMatch(k) {
			m[k] = v
		}
	}
	return m
}

func (f *vfCli) vfCallLog() []string {
	f.mu.Lock()
	defer f.mu.Unlock()
	c := f.calls
	if len(c) > 40 {
		c = c[len(c)-40:]
	}
	return append([]string(nil), c...)
}

// vfL is a recording UpdateListener.
type vfL struct {
	name    string
	key     string
	exact   bool
	rng     vfRange
	mu      sync.Mutex
	kv      map[string]string
	calls   int
	hook    func() // runs inside the next OnAdd/OnDelete, after it was recorded; one-shot
	hookRan int
	closed  bool // harness side: Unmonitor has been called for it
	base    int  // calls at the previous quiescent point
	prev    string
	bar     int // number of the last barrier event it was called for
	barSig  chan struct{}
}

const vfBarrierKey = "~barrier-"

// vfSawBarrier: the listener has been called for barrier event n.
func (l *vfL) vfSawBarrier(n int) bool {
	l.mu.Lock()
	defer l.mu.Unlock()
	return l.bar >= n
}

func (l *vfL) vfFire() {
	l.mu.Lock()
	h := l.hook
	l.hook = nil
	if h != nil {
		l.hookRan++
	}
	l.mu.Unlock()
	if h != nil {
		h()
	}
}

func (l *vfL) OnAdd(kv KV) {
	l.mu.Lock()
	l.kv[kv.Key] = kv.Val
	l.calls++
	l.mu.Unlock()
	l.vfFire()
}

func (l *vfL) OnDelete(kv KV) {
	if strings.HasPrefix(kv.Key, vfBarrierKey) {
		// the harness's barrier: the removal of a key that was never registered; not a
		// notification the statement speaks about, so it is neither counted nor acted upon
		n := 0
		fmt.Sscanf(kv.Key[len(vfBarrierKey):], "%d", &n)
		l.mu.Lock()
		l.bar = n
		l.mu.Unlock()
		select {
		case l.barSig <- struct{}{}:
		default:
		}
		return
	}
	l.mu.Lock()
	delete(l.kv, kv.Key)
	l.calls++
	l.mu.Unlock()
	l.vfFire()
}

func (l *vfL) vfSnap() (map[string]string, int) {
	l.mu.Lock()
	defer l.mu.Unlock()
	m := make(map[string]string, len(l.kv))
	for k, v := range l.kv {
		m[k] = v
	}
	return m, l.calls
}

var (
	vfCliMu   sync.Mutex
	vfClients = map[string]*vfCli{}
	vfConn    *grpc.ClientConn
	vfSeq     int
)

type vfHist struct {
	c     *kit.Case
	r     *kit.Rand
	f     *vfCli
	ep    []string
	cl    *cluster
	ls    []*vfL
	steps []string
	class string
	dead  bool
	pool  []string
	vals  []string
	nl    int
	fresh int
	nbar  int
}

func vfNewHist(c *kit.Case) *vfHist {
	vfSeq++
	ep := fmt.Sprintf("c13-wbreg-%d-%s-%d.verif:2379", kit.GetEnv().Seed, c.Family, vfSeq)
	f := &vfCli{kv: map[string]string{}, rev: 100, conn: vfConn, note: make(chan struct{}, 1)}
	vfCliMu.Lock()
	vfClients[ep] = f
	vfCliMu.Unlock()
	return &vfHist{c: c, r: c.R, f: f, ep: []string{ep}}
}

func (h *vfHist) vfNote(class, format string, a ...any) {
	h.class = class
	h.steps = append(h.steps, fmt.Sprintf(format, a...))
}

func (h *vfHist) vfInconclusive(why string) {
	h.dead = true
	h.c.Inconclusive(why + " (history: " + strings.Join(h.steps, "; ") + ")")
}

func (h *vfHist) vfOpen() []*vfL {
	var out []*vfL
	for _, l := range h.ls {
		if !l.closed {
			out = append(out, l)
		}
	}
	return out
}

func (h *vfHist) vfRanges() []vfRange {
	seen := map[vfRange]bool{}
	var out []vfRange
	for _, l := range h.vfOpen() {
		if !seen[l.rng] {
			seen[l.rng] = true
			out = append(out, l.rng)
		}
	}
	return out
}

func (h *vfHist) vfMonitor(key string, exact bool) *vfL {
	if h.dead {
		return nil
	}
	h.nl++
	l := &vfL{name: fmt.Sprintf("L%d", h.nl), key: key, exact: exact, rng: vfRangeOf(key, exact), kv: map[string]string{}, barSig: make(chan struct{}, 1)}
	first := true
	for _, o := range h.vfOpen() {
		if o.rng == l.rng {
			first = false
		}
	}
	_, w0 := h.f.vfCounts()
	h.vfNote("monitor", "Monitor(%q, exact=%v) -> %s", key, exact, l.name)
	if err := GetRegistry().Monitor(h.ep, key, exact, l); err != nil {
		panic("c13 white-box harness: Monitor: " + err.Error())
	}
	if first && !h.f.vfWaitWatches(w0+1) {
		h.vfInconclusive("watchdog: no Watch call after Monitor")
		return nil
	}
	h.ls = append(h.ls, l)
	if h.cl == nil {
		h.cl, _ = GetRegistry().getCluster(h.ep)
	}
	h.c.Obs("wbreg_listeners", 1)
	return l
}

func (h *vfHist) vfUnmonitor(l *vfL) {
	GetRegistry().Unmonitor(h.ep, l.key, l.exact, l)
}

// vfDeliver sends the events (already in the store) as ONE watch response to the latest
// watch of every range that matches, followed by a barrier response: the removal of a key
// that was never registered. go-zero handles a stream sequentially and calls the listeners
// from the handling, so once every registered listener of the range has been called for
// the barrier, every earlier response has been dispatched completely and all that is left
// of the barrier's own handling is the return to the receive loop. afterEvents (may be
// nil) runs once go-zero has received the barrier response (= has handled the events).
// It returns the ranges for which go-zero has no watch at all.
func (h *vfHist) vfDeliver(evs []*clientv3.Event, afterEvents func()) (noWatch []vfRange, ok bool) {
	h.nbar++
	n := h.nbar
	var sent []vfRange
	for _, rng := range h.vfRanges() {
		var mine []*clientv3.Event
		for _, e := range evs {
			if rng.vfMatch(string(e.Kv.Key)) {
				mine = append(mine, e)
			}
		}
		if len(mine) > 0 {
			switch h.f.vfSendLatest(rng, clientv3.WatchResponse{Header: pb.ResponseHeader{Revision: h.f.rev}, Events: mine}) {
			case vfNoWatch:
				noWatch = append(noWatch, rng)
				continue
			case vfTimeout:
				h.vfInconclusive("watchdog: go-zero did not receive a watch response")
				return nil, false
			}
		}
		bar := &clientv3.Event{Type: mvccpb.DELETE, Kv: &mvccpb.KeyValue{Key: []byte(fmt.Sprintf("%s%d", vfBarrierKey, n))}}
		switch h.f.vfSendLatest(rng, clientv3.WatchResponse{Header: pb.ResponseHeader{Revision: h.f.rev}, Events: []*clientv3.Event{bar}}) {
		case vfNoWatch:
			noWatch = append(noWatch, rng)
		case vfTimeout:
			h.vfInconclusive("watchdog: go-zero did not receive the barrier response behind the events")
			return nil, false
		default:
			sent = append(sent, rng)
		}
	}
	if afterEvents != nil {
		afterEvents()
	}
	t := time.NewTimer(vfWatchdog)
	defer t.Stop()
	for _, rng := range sent {
		for _, l := range h.vfOpen() {
			if l.rng != rng {
				continue
			}
			for !l.vfSawBarrier(n) {
				select {
				case <-l.barSig:
				case <-t.C:
					h.vfInconclusive(fmt.Sprintf("watchdog: listener %s was not called for the barrier event", l.name))
					return nil, false
				}
			}
		}
	}
	return noWatch, true
}

func vfValues(m map[string]string) string {
	seen := map[string]bool{}
	var vs []string
	for _, v := range m {
		if !seen[v] {
			seen[v] = true
			vs = append(vs, v)
		}
	}
	sort.Strings(vs)
	return strings.Join(vs, ",")
}

// vfCheck compares every registered listener with the store (quiescent point).
func (h *vfHist) vfCheck(noWatch []vfRange) {
	if h.dead {
		return
	}
	h.c.Obs("wbreg_sync_points", 1)
	unserved := map[vfRange]bool{}
	for _, r := range noWatch {
		unserved[r] = true
	}
	for _, l := range h.vfOpen() {
		want := h.f.vfCurrent(l.rng)
		got, calls := l.vfSnap()
		var diff []string
		for k, v := range want {
			if gv, ok := got[k]; !ok {
				diff = append(diff, "missing-entry "+k+"="+v)
			} else if gv != v {
				diff = append(diff, "stale-entry "+k+"="+gv+" (registered: "+v+")")
			}
		}
		for k, v := range got {
			if _, ok := want[k]; !ok {
				diff = append(diff, "stale-entry "+k+"="+v+" (not registered)")
			}
		}
		sort.Strings(diff)
		witness := func() map[string]any {
			type ld struct {
				Name, Key     string
				Exact, Closed bool
			}
			var all []ld
			for _, o := range h.ls {
				all = append(all, ld{o.name, o.key, o.exact, o.closed})
			}
			return map[string]any{"endpoints": h.ep, "listeners": all, "listener": l.name, "watched_key": l.key, "exact_match": l.exact, "steps": h.steps,
				"told_by_the_registry": got, "registered_now": want, "difference": diff, "etcd_calls": h.f.vfCallLog(),
				"no_watch_for_this_key": unserved[l.rng]}
		}
		if len(diff) > 0 {
			h.dead = true
			kind := strings.SplitN(diff[0], " ", 2)[0]
			extra := ""
			if unserved[l.rng] {
				extra = " (go-zero has no watch for this key: its last one was cancelled and no other was asked for)"
			}
			h.c.Viol("C13/wb-registry-"+kind+"/"+h.class, fmt.Sprintf("listener %s of key %q (exact=%v): %s after %q%s", l.name, l.key, l.exact, diff[0], h.steps[len(h.steps)-1], extra), witness())
			return
		}
		view := vfValues(want)
		if view != l.prev && calls == l.base {
			h.dead = true
			h.c.Viol("C13/wb-registry-notification-missing/"+h.class, fmt.Sprintf("listener %s of key %q was not called although the registered values changed from [%s] to [%s]", l.name, l.key, l.prev, view), witness())
			return
		}
		l.prev, l.base = view, calls
	}
}

func (h *vfHist) vfRandomOp() vfOp {
	k := kit.Choose(h.r, h.pool)
	h.f.mu.Lock()
	_, ok := h.f.kv[k]
	h.f.mu.Unlock()
	if ok && h.r.Chance(0.3) {
		return vfOp{del: true, k: k}
	}
	return vfOp{k: k, v: kit.Choose(h.r, h.vals)}
}

func (h *vfHist) vfFreshOp(prefix string) vfOp {
	h.fresh++
	return vfOp{k: fmt.Sprintf("%s/n%d", prefix, h.fresh), v: fmt.Sprintf("10.8.%d.%d:80", h.fresh/250, h.fresh%250)}
}

func vfOpsString(ops []vfOp) string {
	var s []string
	for _, o := range ops {
		s = append(s, o.String())
	}
	return strings.Join(s, ", ")
}

func (h *vfHist) vfEvents(class string, ops ...vfOp) {
	if h.dead {
		return
	}
	h.vfNote(class, "one watch response per watch: [%s]", vfOpsString(ops))
	nw, ok := h.vfDeliver(h.f.vfStore(ops...), nil)
	if ok {
		h.vfCheck(nw)
	}
}

// vfCompact: operations reach the store only, then every watch is told that its
// revision has been compacted (-> load -> handleChanges -> watch again).
func (h *vfHist) vfCompact(ops ...vfOp) {
	if h.dead {
		return
	}
	h.vfNote("compaction-reload", "missed: [%s]; then every watch is answered 'compacted' -> load snapshot", vfOpsString(ops))
	h.f.vfStore(ops...)
	for _, rng := range h.vfRanges() {
		_, w0 := h.f.vfCounts()
		switch vfSend(h.f.vfLatest(rng), clientv3.WatchResponse{Header: pb.ResponseHeader{Revision: h.f.rev}, Canceled: true, CompactRevision: h.f.rev}) {
		case vfTimeout:
			h.vfInconclusive("watchdog: go-zero did not receive the compaction response")
			return
		case vfNoWatch:
			continue
		}
		if !h.f.vfWaitWatches(w0 + 1) {
			h.vfInconclusive("watchdog: no Watch call after a compaction response")
			return
		}
	}
	h.c.Obs("wbreg_compaction_reloads", 1)
	nw, ok := h.vfDeliver(nil, nil)
	if ok {
		h.vfCheck(nw)
	}
}

func (h *vfHist) vfFinish(fam string) {
	for _, l := range h.vfOpen() {
		l.closed = true
		h.vfUnmonitor(l)
	}
	h.c.Obs("wbreg_histories", 1)
	parts := []any{fam}
	for _, s := range h.steps {
		parts = append(parts, s)
	}
	h.c.Sig(len(h.ls) >= 2 && len(h.steps) >= 4, parts...)
	if h.c.Index < 2 {
		h.c.Sample(fam, 2, map[string]any{"steps": h.steps})
	}
}

// ---- wb-dispatch

func vfDispatchHistory(c *kit.Case) {
	h := vfNewHist(c)
	r := c.R
	key := "svc"
	for i := 1; i <= 4; i++ {
		h.pool = append(h.pool, fmt.Sprintf("svc/%d", i))
	}
	h.pool = append(h.pool, "svcx/1", "svc")
	for i := 1; i <= 3; i++ {
		h.vals = append(h.vals, fmt.Sprintf("10.0.0.%d:8080", i))
	}
	for i, n := 0, r.Range(0, 3); i < n; i++ {
		o := h.vfRandomOp()
		h.steps = append(h.steps, "(before) "+o.String())
		h.f.vfStore(o)
	}
	for i, n := 0, r.Range(2, 6); i < n; i++ {
		h.vfMonitor(key, false)
	}
	h.vfCheck(nil)
	for i, steps := 0, r.Range(5, 18); i < steps && !h.dead; i++ {
		open := h.vfOpen()
		pick := r.Pick(25, 8, 30, 10, 8, 14)
		if len(open) < 2 && (pick == 2 || pick == 3) {
			pick = 5
		}
		if (len(open) >= 6 || h.nl >= 14) && pick == 5 {
			pick = 0
		}
		switch pick {
		case 0:
			h.vfEvents("event", h.vfRandomOp())
		case 1:
			h.vfEvents("event", h.vfRandomOp(), h.vfFreshOp(key), h.vfRandomOp())
		case 2: // Unmonitor from inside a listener's callback
			ti := r.Intn(len(open))
			vi := r.Intn(len(open))
			if r.Chance(0.6) {
				vi = r.Intn(ti + 1)
			}
			t, v := open[ti], open[vi]
			t.mu.Lock()
			ran0 := t.hookRan
			t.hook = func() { h.vfUnmonitor(v) }
			t.mu.Unlock()
			ops := []vfOp{h.vfFreshOp(key)}
			for j, n := 0, r.Range(0, 2); j < n; j++ {
				ops = append(ops, h.vfRandomOp())
			}
			h.vfNote("peer-removed-in-callback", "one watch response [%s]; from inside %s's callback for its first event (listener #%d of %d): Unmonitor(%s) (listener #%d)",
				vfOpsString(ops), t.name, ti+1, len(open), v.name, vi+1)
			nw, ok := h.vfDeliver(h.f.vfStore(ops...), func() {
				t.mu.Lock()
				ran := t.hookRan > ran0
				t.hook = nil
				t.mu.Unlock()
				if ran {
					v.closed = true
					c.Obs("wbreg_unmonitor_in_callback", 1)
					if vi <= ti && ti+1 < len(open)-1 {
						c.Obs("wbreg_unmonitor_in_callback_shifting_an_unserved_listener", 1)
					}
				}
			})
			if ok {
				h.vfCheck(nw)
			}
		case 3: // Unmonitor by a concurrent goroutine while responses are delivered
			v := open[r.Intn(len(open)-1)]
			nb := r.Range(2, 4)
			at := r.Intn(nb)
			start, done := make(chan struct{}), make(chan struct{})
			v.closed = true // from now on nothing is expected of it
			go func() {
				defer close(done)
				<-start
				h.vfUnmonitor(v)
			}()
			h.vfNote("peer-removed-concurrently", "Unmonitor(%s) by another goroutine, released before response #%d of %d", v.name, at+1, nb)
			var nw []vfRange
			ok := true
			released := false
			for b := 0; b < nb && ok; b++ {
				if b == at {
					released = true
					close(start)
				}
				ops := []vfOp{h.vfFreshOp(key), h.vfRandomOp()}
				h.steps[len(h.steps)-1] += " [" + vfOpsString(ops) + "]"
				nw, ok = h.vfDeliver(h.f.vfStore(ops...), nil)
			}
			if !released {
				close(start)
			}
			<-done
			c.Obs("wbreg_unmonitor_concurrent", 1)
			if ok {
				// one more barrier: the goroutine has returned, everything is dispatched
				nw, ok = h.vfDeliver(nil, nil)
			}
			if ok {
				h.vfCheck(nw)
			}
		case 4:
			var ops []vfOp
			for j, n := 0, r.Range(0, 4); j < n; j++ {
				ops = append(ops, h.vfRandomOp())
			}
			h.vfCompact(ops...)
		case 5:
			h.vfMonitor(key, false)
			h.vfCheck(nil)
		}
	}
	h.vfFinish("wb-dispatch")
}

// ---- wb-reload

var vfKeyPool = []string{"svc", "svc2", "svc/a", "svc/a/b", "svcx", "other", "svc/b", "sv"}

func vfReloadHistory(c *kit.Case) {
	h := vfNewHist(c)
	r := c.R
	nk := r.Range(2, 6)
	var keys []string
	for _, i := range r.Perm(len(vfKeyPool))[:nk] {
		keys = append(keys, vfKeyPool[i])
	}
	sort.Strings(keys)
	for _, k := range keys {
		h.pool = append(h.pool, k+"/1", k+"/2", k+"/3", k)
	}
	h.pool = append(h.pool, "zzz/1")
	for i := 1; i <= 4; i++ {
		h.vals = append(h.vals, fmt.Sprintf("10.3.0.%d:8080", i))
	}
	for i, n := 0, r.Range(0, 5); i < n; i++ {
		o := h.vfRandomOp()
		h.steps = append(h.steps, "(before) "+o.String())
		h.f.vfStore(o)
	}
	for _, k := range keys {
		h.vfMonitor(k, false)
		if r.Chance(0.25) {
			h.vfMonitor(k, true)
		}
		if r.Chance(0.2) {
			h.vfMonitor(k, false)
		}
	}
	h.vfCheck(nil)
	reloads := 0
	reload := func() {
		if h.dead {
			return
		}
		var ops []vfOp
		for j, n := 0, r.Range(1, 5); j < n; j++ {
			ops = append(ops, h.vfRandomOp())
		}
		ops = append(ops, h.vfFreshOp(kit.Choose(r, keys)))
		nkeys := len(h.vfRanges())
		h.vfNote("multi-key-reload", "outage: [%s] reach the store only; then cluster.reload(cli) with %d watched keys", vfOpsString(ops), nkeys)
		h.f.vfStore(ops...)
		_, w0 := h.f.vfCounts()
		h.cl.reload(h.f)
		if !h.f.vfWaitWatches(w0 + nkeys) {
			h.vfInconclusive("watchdog: cluster.reload did not issue a Watch per watched key")
			return
		}
		reloads++
		c.Obs("wbreg_reloads", 1)
		c.Obs("wbreg_keys_across_reloads", int64(nkeys))
		nw, ok := h.vfDeliver(nil, nil)
		if ok {
			h.vfCheck(nw)
		}
	}
	for i, steps := 0, r.Range(4, 12); i < steps && !h.dead; i++ {
		switch r.Pick(40, 12, 25, 10, 6, 6) {
		case 0:
			h.vfEvents("multi-key-event", h.vfRandomOp())
		case 1:
			h.vfEvents("multi-key-event", h.vfRandomOp(), h.vfRandomOp(), h.vfFreshOp(kit.Choose(r, keys)))
		case 2:
			reload()
		case 3:
			var ops []vfOp
			for j, n := 0, r.Range(0, 4); j < n; j++ {
				ops = append(ops, h.vfRandomOp())
			}
			h.vfCompact(ops...)
			if !h.dead {
				h.class = "multi-key-compaction-reload"
			}
		case 4:
			if open := h.vfOpen(); len(h.vfRanges()) > 2 {
				l := kit.Choose(r, open)
				h.vfNote("multi-key-unmonitor", "Unmonitor(%s) (key %q exact=%v)", l.name, l.key, l.exact)
				l.closed = true
				h.vfUnmonitor(l)
				nw, ok := h.vfDeliver(nil, nil)
				if ok {
					h.vfCheck(nw)
				}
			}
		case 5:
			if h.nl < 12 {
				h.vfMonitor(kit.Choose(r, keys), r.Chance(0.2))
				h.vfCheck(nil)
			}
		}
	}
	if reloads == 0 {
		reload()
		if !h.dead {
			h.vfEvents("multi-key-event-after-reload", h.vfFreshOp(kit.Choose(r, keys)), h.vfRandomOp())
		}
	}
	h.vfFinish("wb-reload")
}

// ---- wb-reload-during-dispatch
//
// cluster.reload (run by the connection state watcher on every reconnect, on a goroutine
// of its own) while a watch goroutine of the cluster is busy:
//
//	event-being-dispatched  the reload is started from inside a listener's callback for the
//	                        first event of a watch response with further events behind it;
//	load-in-flight          the reload is started while the snapshot Get of a compaction
//	                        reload is in flight (from inside the scripted Get).
//
// In both cases the busy goroutine is released as soon as the reload goroutine is waiting
// for the cluster's watch goroutines (its stack shows WaitGroup.Wait under cluster.reload;
// decided from the goroutine's state) or has finished. Then either the reload finishes -
// every listener must then hold exactly the registered keys, and later events arrive -
// or the set of goroutines working for this cluster stops changing (three identical
// labelled dumps) with the reload still waiting for the watch goroutines and a watch
// goroutine blocked on the cluster's lock: a deadlock; no listener of the cluster will
// ever be told anything again, and Monitor / Unmonitor on it block.
func vfReloadBusyHistory(c *kit.Case) {
	h := vfNewHist(c)
	r := c.R
	key := "svc"
	id := fmt.Sprintf("c13-wbrdd-%d-%s", kit.GetEnv().Seed, c.ID)
	for i := 1; i <= 3; i++ {
		h.pool = append(h.pool, fmt.Sprintf("svc/%d", i))
		h.vals = append(h.vals, fmt.Sprintf("10.0.0.%d:8080", i))
	}
	for i, n := 0, r.Range(0, 3); i < n; i++ {
		o := h.vfRandomOp()
		h.steps = append(h.steps, "(before) "+o.String())
		h.f.vfStore(o)
	}
	// the watch goroutines inherit the label of the goroutine that calls Monitor
	kit.WithLabel(id, func() {
		for i, n := 0, r.Range(1, 3); i < n; i++ {
			h.vfMonitor(key, false)
		}
	})
	h.vfCheck(nil)
	if h.dead {
		return
	}
	for i, n := 0, r.Range(0, 3); i < n; i++ {
		h.vfEvents("event", h.vfRandomOp())
	}
	if h.dead {
		return
	}
	place := []string{"event-being-dispatched", "load-in-flight"}[r.Pick(3, 2)]
	reloadDone := make(chan struct{})
	gaveUp := false
	released := make(chan struct{}) // the busy goroutine has been released (startReload returned)
	startReload := func() {
		defer close(released)
		go kit.WithLabel(id+"-reload", func() {
			defer close(reloadDone)
			h.cl.reload(h.f)
		})
		for i := 0; i < 4000; i++ {
			select {
			case <-reloadDone:
				return
			default:
			}
			for _, g := range kit.LabelledGoroutines(id + "-reload") {
				if strings.Contains(g.Stack, "(*WaitGroup).Wait") && strings.Contains(g.Stack, "(*cluster).reload") {
					return
				}
			}
			time.Sleep(500 * time.Microsecond)
		}
		gaveUp = true
	}
	_, w0 := h.f.vfCounts()
	wantWatches := w0 + 1
	var ops []vfOp
	switch place {
	case "event-being-dispatched":
		t := h.vfOpen()[0]
		ops = []vfOp{h.vfFreshOp(key), h.vfFreshOp(key)}
		if r.Bool() {
			ops = append(ops, h.vfRandomOp())
		}
		t.mu.Lock()
		t.hook = startReload
		t.mu.Unlock()
		h.vfNote("reload/"+place, "one watch response [%s]; from inside %s's callback for its first event: go cluster.reload(cli); the callback returns once the reload is waiting for the watch goroutines",
			vfOpsString(ops), t.name)
		evs := h.f.vfStore(ops...)
		if vfSend(h.f.vfLatest(t.rng), clientv3.WatchResponse{Header: pb.ResponseHeader{Revision: h.f.rev}, Events: evs}) != vfSent {
			h.vfInconclusive("watchdog: go-zero did not receive the watch response")
			return
		}
	default:
		ops = []vfOp{h.vfFreshOp(key), h.vfRandomOp()}
		h.vfNote("reload/"+place, "missed: [%s]; the watch is answered 'compacted'; from inside the snapshot Get that follows: go cluster.reload(cli); the Get returns once the reload is waiting for the watch goroutines",
			vfOpsString(ops))
		h.f.vfStore(ops...)
		h.f.mu.Lock()
		h.f.onGet = startReload
		h.f.mu.Unlock()
		if vfSend(h.f.vfLatest(vfRangeOf(key, false)), clientv3.WatchResponse{Header: pb.ResponseHeader{Revision: h.f.rev}, Canceled: true, CompactRevision: h.f.rev}) != vfSent {
			h.vfInconclusive("watchdog: go-zero did not receive the compaction response")
			return
		}
	}
	c.Obs("wbreg_reloads_while_busy", 1)
	c.Obs("wbreg_reloads_while_busy_"+place, 1)
	wd := time.NewTimer(vfWatchdog)
	defer wd.Stop()
	select {
	case <-released:
	case <-wd.C:
		h.vfInconclusive("watchdog: the point at which the reload was to be started was not reached")
		return
	}
	// the reload goroutine either finishes, or everything that works for this cluster stops
	// changing while it is still waiting for the watch goroutines
	var waiting []kit.Goroutine
	finished, stuck := false, false
	prev, same := "", 0
	for look := 0; look < 400 && !finished && !stuck; look++ {
		select {
		case <-reloadDone:
			finished = true
			continue
		default:
		}
		waiting = waiting[:0]
		var fp []string
		for _, lb := range []string{id, id + "-reload"} {
			for _, g := range kit.LabelledGoroutines(lb) {
				fp = append(fp, fmt.Sprintf("%d*%s", g.Count, g.Stack))
				if strings.Contains(g.Stack, "(*WaitGroup).Wait") && strings.Contains(g.Stack, "(*cluster).reload") {
					waiting = append(waiting, g)
				}
			}
		}
		sort.Strings(fp)
		cur := strings.Join(fp, "|")
		if cur == prev && len(waiting) > 0 {
			same++
			stuck = same >= 3
		} else {
			prev, same = cur, 0
		}
		if !stuck {
			time.Sleep(100 * time.Millisecond)
		}
	}
	if gaveUp {
		h.vfInconclusive("the reload goroutine was neither finished nor waiting for the watch goroutines after 4000 looks")
		return
	}
	if !finished && !stuck {
		h.vfInconclusive("watchdog: the goroutines of this cluster kept changing state while cluster.reload did not return")
		return
	}
	if stuck {
		leaked := waiting
		var blocked []string
		for _, g := range kit.LabelledGoroutines(id) {
			if strings.Contains(g.Stack, "(*RWMutex).") && strings.Contains(g.Stack, "(*cluster).") {
				blocked = append(blocked, g.Stack)
			}
		}
		held := !h.cl.lock.TryRLock()
		if !held {
			h.cl.lock.RUnlock()
		}
		if len(blocked) == 0 || !held {
			h.vfInconclusive("cluster.reload does not return, but no watch goroutine is blocked on the cluster's lock: " + leaked[0].Stack)
			return
		}
		h.dead = true
		c.Viol("C13/reload-deadlock/"+place,
			"cluster.reload holds the cluster's lock while it waits for the watch goroutines to end, and a watch goroutine needs that lock to finish what it is doing: neither ever proceeds; no listener of this cluster is told about any later change (registered now: "+
				fmt.Sprint(h.f.vfCurrent(vfRangeOf(key, false)))+"), and Monitor/Unmonitor on the cluster block",
			map[string]any{"endpoints": h.ep, "steps": h.steps, "reload_goroutine": leaked[0].Stack, "watch_goroutines_blocked_on_the_cluster_lock": blocked,
				"cluster_lock_held": held, "placement": place})
		return
	}
	// the reload finished: one load+watch per watched key
	if place == "load-in-flight" {
		wantWatches = w0 + 1 // the interrupted goroutine leaves, the reload's goroutine watches
	}
	if !h.f.vfWaitWatches(wantWatches) {
		h.vfInconclusive("watchdog: cluster.reload returned but no Watch call followed")
		return
	}
	c.Obs("wbreg_reloads_while_busy_finished", 1)
	h.class = "reload/" + place
	nw, ok := h.vfDeliver(nil, nil)
	if ok {
		h.vfCheck(nw)
	}
	for i, n := 0, r.Range(1, 3); i < n && !h.dead; i++ {
		h.vfEvents("event-after-reload/"+place, h.vfFreshOp(key), h.vfRandomOp())
	}
	h.vfFinish("wb-reload-during-dispatch")
}

func TestVerifC13I(t *testing.T) {
	logx.Disable()
	var err error
	vfConn, err = grpc.NewClient("passthrough:///c13-wb-never-dialled", grpc.WithTransportCredentials(insecure.NewCredentials()))
	if err != nil {
		t.Fatal(err)
	}
	NewClient = func(endpoints []string) (EtcdClient, error) {
		vfCliMu.Lock()
		defer vfCliMu.Unlock()
		f := vfClients[endpoints[0]]
		if f == nil {
			return nil, fmt.Errorf("c13 white-box harness: unknown endpoint %v", endpoints)
		}
		return f, nil
	}
	kit.Run(t, "C13", "wb-dispatch", kit.N(700, 40000), vfDispatchHistory)
	kit.Run(t, "C13", "wb-reload", kit.N(500, 30000), vfReloadHistory)
	kit.Run(t, "C13", "wb-reload-during-dispatch", kit.N(16, 300), vfReloadBusyHistory)
	kit.End()
}
