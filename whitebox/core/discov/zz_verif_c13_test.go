package discov

// Runtime monitor for the snapshot cache of the subscriber's container (C13, DESIGN.md
// §4 C13, concurrency extension), in-package: the REAL container is driven directly
// through OnAdd / OnDelete (what the registry calls for every watch event and reload
// difference) WHILE other goroutines call getValues() continuously (what
// Subscriber.Values() is, and what the resolver's listener does after every event).
//
// Verdicts are taken at quiescence only: every applier has returned, every poller has
// been stopped and has finished; then a FRESH getValues() must be exactly the set of
// values of the reference model (plain: values of the registered keys; Exclusive():
// adding (k,v) makes k the only key of v - events are applied by ONE goroutine in these
// cases, so "most recently registered" is well defined). If the view is wrong but right
// again after one further event the snapshot had not been invalidated:
// C13/stale-snapshot/container-polled-during-events. No wall-clock threshold is used.

import (
	"fmt"
	"sort"
	"strings"
	"sync"
	"sync/atomic"
	"testing"

	"github.com/zeromicro/go-zero/core/discov/internal"
	"github.com/zeromicro/go-zero/core/logx"
	kit "github.com/zeromicro/go-zero/internal/verifkit"
)

// vfModel: key -> value, plus the keys of every value, so that "did the set of values
// change" costs nothing per event.
type vfModel struct {
	excl  bool
	kv    map[string]string
	byVal map[string]map[string]bool
}

func vfNewModel(excl bool) *vfModel {
	return &vfModel{excl: excl, kv: map[string]string{}, byVal: map[string]map[string]bool{}}
}

func (m *vfModel) vfView() map[string]bool {
	v := make(map[string]bool, len(m.byVal))
	for x := range m.byVal {
		v[x] = true
	}
	return v
}

// vfDrop removes key k; true: its value is no longer registered at all.
func (m *vfModel) vfDrop(k string) bool {
	v, ok := m.kv[k]
	if !ok {
		return false
	}
	delete(m.kv, k)
	delete(m.byVal[v], k)
	if len(m.byVal[v]) == 0 {
		delete(m.byVal, v)
		return true
	}
	return false
}

// vfAdd / vfDel report whether the set of registered values changed.
func (m *vfModel) vfAdd(k, v string) bool {
	changed := false
	if old, ok := m.kv[k]; ok && old != v {
		changed = m.vfDrop(k)
	}
	if m.excl {
		for o := range m.byVal[v] {
			if o != k {
				delete(m.kv, o)
				delete(m.byVal[v], o)
			}
		}
	}
	if m.byVal[v] == nil {
		m.byVal[v] = map[string]bool{}
		changed = true
	}
	m.byVal[v][k] = true
	m.kv[k] = v
	return changed
}

func (m *vfModel) vfDel(k string) bool { return m.vfDrop(k) }

type vfEv struct {
	del  bool
	k, v string
}

func (e vfEv) String() string {
	if e.del {
		return "OnDelete(" + e.k + ")"
	}
	return "OnAdd(" + e.k + "=" + e.v + ")"
}

func vfDiff(want map[string]bool, got []string) []string {
	var out []string
	seen := map[string]bool{}
	for _, g := range got {
		if seen[g] {
			out = append(out, "duplicate-value "+g)
		}
		seen[g] = true
		if !want[g] {
			out = append(out, "stale-value "+g)
		}
	}
	for w := range want {
		if !seen[w] {
			out = append(out, "missing-value "+w)
		}
	}
	sort.Strings(out)
	return out
}

func vfContainerPolled(c *kit.Case) {
	r := c.R
	excl := r.Chance(0.3)
	var n int
	switch r.Pick(5, 4, 3, 1) {
	case 0:
		n = r.Range(0, 6)
	case 1:
		n = r.Range(10, 60)
	case 2:
		n = r.Range(150, 400)
	default:
		n = r.Range(700, 1500)
	}
	lisReads := r.Bool()
	ct := newContainer(excl)
	m := vfNewModel(excl)
	val := func(i int) string { return fmt.Sprintf("10.%d.%d.%d:80", 1+i/62500, (i/250)%250, i%250) }
	var notified atomic.Int64
	ct.addListener(func() {
		notified.Add(1)
		if lisReads {
			ct.getValues()
		}
	})
	for i := 0; i < n; i++ {
		k := fmt.Sprintf("svc/%d", i)
		v := val(i)
		if i%11 == 10 {
			v = val(i - 1) // a value shared by two keys
		}
		ct.OnAdd(internal.KV{Key: k, Val: v})
		m.vfAdd(k, v)
	}
	fresh := n
	steps := []string{fmt.Sprintf("newContainer(exclusive=%v); %d entries added; the listener calls getValues(): %v", excl, n, lisReads)}
	rounds := r.Range(2, 7)
	var polls, events int64
	for round := 0; round < rounds; round++ {
		np := r.Range(1, 4)
		appliers := 1
		if !excl && r.Chance(0.3) {
			appliers = 2 // the watch goroutine and a Monitor() replay: disjoint keys, fresh values
		}
		// the events of this round, generated before anything runs
		evs := make([][]vfEv, appliers)
		var keys []string
		for k := range m.kv {
			keys = append(keys, k)
		}
		sort.Strings(keys)
		used := map[string]bool{}
		for a := 0; a < appliers; a++ {
			for j, cnt := 0, r.Range(1, 8); j < cnt; j++ {
				switch {
				case len(keys) > 0 && r.Chance(0.3):
					k := kit.Choose(r, keys)
					if used[k] {
						continue
					}
					used[k] = true
					evs[a] = append(evs[a], vfEv{del: true, k: k})
				case len(keys) > 0 && r.Chance(0.2):
					k := kit.Choose(r, keys)
					if used[k] {
						continue
					}
					used[k] = true
					fresh++
					evs[a] = append(evs[a], vfEv{k: k, v: val(fresh)}) // re-registered with another value
				case appliers == 1 && len(keys) > 0 && r.Chance(0.15):
					fresh++
					k := fmt.Sprintf("svc/%d", fresh)
					evs[a] = append(evs[a], vfEv{k: k, v: m.kv[kit.Choose(r, keys)]}) // a further key for a registered value
				default:
					fresh++
					evs[a] = append(evs[a], vfEv{k: fmt.Sprintf("svc/%d", fresh), v: val(fresh)})
				}
			}
		}
		demanded := int64(0)
		var ds []string
		for a := range evs {
			var es []string
			for _, e := range evs[a] {
				var changed bool
				if e.del {
					changed = m.vfDel(e.k)
				} else {
					changed = m.vfAdd(e.k, e.v)
				}
				if appliers == 1 && changed {
					demanded++
				}
				es = append(es, e.String())
			}
			ds = append(ds, "["+strings.Join(es, ", ")+"]")
		}
		steps = append(steps, fmt.Sprintf("round %d: %d goroutine(s) polling getValues() while %d goroutine(s) apply %s; all joined", round+1, np, appliers, strings.Join(ds, " || ")))
		n0 := notified.Load()
		var stop atomic.Bool
		var pwg, awg sync.WaitGroup
		var pp atomic.Value
		for p := 0; p < np; p++ {
			pwg.Add(1)
			go func() {
				defer pwg.Done()
				cnt := int64(0)
				defer func() {
					atomic.AddInt64(&polls, cnt)
					if v := recover(); v != nil {
						pp.Store(fmt.Sprint(v))
					}
				}()
				for !stop.Load() {
					ct.getValues()
					cnt++
				}
			}()
		}
		for a := range evs {
			awg.Add(1)
			go func(es []vfEv) {
				defer awg.Done()
				defer func() {
					if v := recover(); v != nil {
						pp.Store(fmt.Sprint(v))
					}
				}()
				for _, e := range es {
					if e.del {
						ct.OnDelete(internal.KV{Key: e.k})
					} else {
						ct.OnAdd(internal.KV{Key: e.k, Val: e.v})
					}
				}
			}(evs[a])
			events += int64(len(evs[a]))
		}
		awg.Wait()
		stop.Store(true)
		pwg.Wait()
		c.Obs("container_poll_rounds", 1)
		if v := pp.Load(); v != nil {
			c.Viol("C13/panic/container-polled-during-events", "go-zero panicked: "+v.(string), map[string]any{"steps": steps})
			return
		}
		want := m.vfView()
		got := append([]string(nil), ct.getValues()...)
		if d := vfDiff(want, got); len(d) > 0 {
			fresh++
			hk, hv := fmt.Sprintf("svc/%d", fresh), val(fresh)
			ct.OnAdd(internal.KV{Key: hk, Val: hv})
			m.vfAdd(hk, hv)
			healed := len(vfDiff(m.vfView(), ct.getValues())) == 0
			kind := "container-" + strings.SplitN(d[0], " ", 2)[0]
			if healed {
				kind = "stale-snapshot"
			}
			if len(d) > 8 {
				d = append(d[:8], fmt.Sprintf("... %d more", len(d)-8))
			}
			c.Viol("C13/"+kind+"/container-polled-during-events",
				fmt.Sprintf("after every applier and every poller had finished, a fresh getValues() (%d values) differs from the %d registered values: %s; right again after one further event: %v",
					len(got), len(want), strings.Join(d, ", "), healed),
				map[string]any{"exclusive": excl, "steps": steps, "difference": d, "right_after_one_more_event": healed})
			return
		}
		if got := notified.Load() - n0; got < demanded {
			c.Viol("C13/notification-missing/container-polled-during-events",
				fmt.Sprintf("the listener was called %d time(s) during a round in which the view changed %d time(s)", got, demanded),
				map[string]any{"exclusive": excl, "steps": steps})
			return
		}
	}
	c.Obs("container_poll_histories", 1)
	c.Obs("container_getvalues_calls_during_events", polls)
	c.Obs("container_events_applied", events)
	if n >= 150 {
		c.Obs("container_poll_histories_over_150_values", 1)
	}
	c.Sig(events >= 2, "container-polled", excl, lisReads, n, strings.Join(steps[1:], ";"))
	if c.Index < 2 {
		c.Sample("container-polled", 1, map[string]any{"exclusive": excl, "entries_before": n, "steps": steps})
	}
}

func TestVerifC13D(t *testing.T) {
	logx.Disable()
	kit.Run(t, "C13", "container-polled", kit.N(700, 40000), vfContainerPolled)
	kit.End()
}
