package internal

// Runtime monitor for the resolver clause of C13 (DESIGN.md §4 C13), in-package:
// (&discovBuilder{}).Build runs on the real discov.Subscriber/registry against a
// small scripted etcd (installed through discov.VerifSetEtcdClientFactory) with a
// recording resolver.ClientConn. After every step the address list most recently
// passed to UpdateState must be the set of registered values (all of them, no
// duplicates) when there are at most 32, else 32 distinct registered values.
// subset() is additionally checked directly.
//
// Synchronisation: a plain discov.Subscriber created AFTER the resolver on the same
// watch observes a marker PUT (listeners are served in registration order, the
// stream is handled sequentially); a mismatch is re-evaluated on a state that has
// stopped changing before it is reported. Keys never change their value in place
// here (that defect of the subscriber is covered by the black-box part).

import (
	"context"
	"errors"
	"fmt"
	"net/url"
	"sort"
	"sync"
	"testing"
	"time"

	"github.com/zeromicro/go-zero/core/discov"
	"github.com/zeromicro/go-zero/core/logx"
	kit "github.com/zeromicro/go-zero/internal/verifkit"
	pb "go.etcd.io/etcd/api/v3/etcdserverpb"
	"go.etcd.io/etcd/api/v3/mvccpb"
	clientv3 "go.etcd.io/etcd/client/v3"
	"google.golang.org/grpc"
	"google.golang.org/grpc/credentials/insecure"
	"google.golang.org/grpc/resolver"
	"google.golang.org/grpc/serviceconfig"
)

const vfWatchdog = 40 * time.Second

type vfOp struct {
	del  bool
	k, v string
}

type vfLogEv struct {
	rev int64
	vfOp
}

type vfItem struct {
	resp     clientv3.WatchResponse
	terminal bool
	done     chan struct{} // closed by the pump once go-zero received the response
}

type vfStream struct {
	ch   chan clientv3.WatchResponse
	q    []vfItem
	wake chan struct{}
	dead bool
	// holding: responses are kept back (in order) until vfRelease: lets a history choose
	// the moment at which go-zero gets to see the events replayed by a fresh watch
	holding bool
	held    []vfItem
}

// vfEtcd: revisioned store + retained event log + compaction; one watched range.
type vfEtcd struct {
	mu         sync.Mutex
	rev        int64
	compactRev int64
	loadRev    int64
	kv         map[string]string
	log        []vfLogEv
	cur        *vfStream
	stalled    bool
	gets       int
	watches    int
	note       chan struct{}
	conn       *grpc.ClientConn
	// reload bookkeeping: consecutive Watch calls answered "compacted" since the last
	// Get; once go-zero has made vfRefusalsWithoutLoad of them the reload is provably not
	// happening (the unchanged tree makes one, then loads): the next call is parked so
	// that go-zero stops spinning, and the history is decided from the calls, not from a
	// watchdog
	refused int
	stuck   bool
	calls   []string
	// build-inject family: operations that reach the store right after the snapshot of
	// the next Get was taken (so they arrive through the replay of the following Watch),
	// and whether that Watch's stream starts in the holding state
	afterSnap []vfOp
	holdNext  bool
}

const vfRefusalsWithoutLoad = 5

func (f *vfEtcd) vfCall(format string, a ...any) {
	if len(f.calls) == 16 {
		f.calls = append(f.calls[:0], f.calls[1:]...)
	}
	f.calls = append(f.calls, fmt.Sprintf("#%d ", f.gets+f.watches)+fmt.Sprintf(format, a...))
}

var vfErrUnused = errors.New("not scripted")

func (f *vfEtcd) ActiveConnection() *grpc.ClientConn { return f.conn }
func (f *vfEtcd) Close() error                       { return nil }
func (f *vfEtcd) Ctx() context.Context               { return context.Background() }
func (f *vfEtcd) Grant(context.Context, int64) (*clientv3.LeaseGrantResponse, error) {
	return nil, vfErrUnused
}
func (f *vfEtcd) KeepAlive(context.Context, clientv3.LeaseID) (<-chan *clientv3.LeaseKeepAliveResponse, error) {
	return nil, vfErrUnused
}
func (f *vfEtcd) Put(context.Context, string, string, ...clientv3.OpOption) (*clientv3.PutResponse, error) {
	return nil, vfErrUnused
}
func (f *vfEtcd) Revoke(context.Context, clientv3.LeaseID) (*clientv3.LeaseRevokeResponse, error) {
	return nil, vfErrUnused
}

func (f *vfEtcd) vfPoke() {
	select {
	case f.note <- struct{}{}:
	default:
	}
}

func vfMatch(key string, o clientv3.Op) bool {
	k, end := string(o.KeyBytes()), string(o.RangeBytes())
	if end == "" {
		return key == k
	}
	return key >= k && key < end
}

func (f *vfEtcd) Get(_ context.Context, key string, opts ...clientv3.OpOption) (*clientv3.GetResponse, error) {
	o := clientv3.OpGet(key, opts...)
	f.mu.Lock()
	defer f.mu.Unlock()
	var keys []string
	for k := range f.kv {
		if vfMatch(k, o) {
			keys = append(keys, k)
		}
	}
	sort.Strings(keys)
	resp := &clientv3.GetResponse{Header: &pb.ResponseHeader{Revision: f.rev}}
	for _, k := range keys {
		resp.Kvs = append(resp.Kvs, &mvccpb.KeyValue{Key: []byte(k), Value: []byte(f.kv[k])})
	}
	f.gets++
	f.loadRev = f.rev
	f.refused = 0
	if f.compactRev > 0 {
		f.vfCall("Get(range) -> %d key(s) at revision %d", len(keys), f.rev)
	}
	if f.afterSnap != nil {
		ops := f.afterSnap
		f.afterSnap = nil
		f.vfApplyLocked(ops...)
	}
	f.vfPoke()
	return resp, nil
}

func vfEvent(e vfLogEv) *clientv3.Event {
	if e.del {
		return &clientv3.Event{Type: mvccpb.DELETE, Kv: &mvccpb.KeyValue{Key: []byte(e.k), ModRevision: e.rev}}
	}
	return &clientv3.Event{Type: mvccpb.PUT, Kv: &mvccpb.KeyValue{Key: []byte(e.k), Value: []byte(e.v), ModRevision: e.rev}}
}

func (f *vfEtcd) Watch(ctx context.Context, key string, opts ...clientv3.OpOption) clientv3.WatchChan {
	o := clientv3.OpGet(key, opts...)
	start := o.Rev()
	f.mu.Lock()
	st := &vfStream{ch: make(chan clientv3.WatchResponse), wake: make(chan struct{}, 1)}
	f.cur = st
	f.watches++
	f.stalled = false
	switch {
	case f.stuck || (start != 0 && start < f.compactRev && f.refused >= vfRefusalsWithoutLoad):
		f.stuck = true
		st.dead = true // parked: neither refused nor served
		f.vfCall("Watch(rev=%d) -> (not answered: still below compact revision %d and no Get since the compaction was reported; the harness gives up on this watch)", start, f.compactRev)
	case start != 0 && start < f.compactRev:
		st.q = append(st.q, vfItem{resp: clientv3.WatchResponse{Header: pb.ResponseHeader{Revision: f.rev}, Canceled: true, CompactRevision: f.compactRev}, terminal: true})
		st.dead = true
		f.refused++
		f.vfCall("Watch(rev=%d) -> canceled: required revision has been compacted (compact revision %d)", start, f.compactRev)
	case start != 0:
		if f.compactRev > 0 {
			f.vfCall("Watch(rev=%d) -> served", start)
		}
		for _, e := range f.log {
			if e.rev >= start && vfMatch(e.k, o) {
				st.q = append(st.q, vfItem{resp: clientv3.WatchResponse{Header: pb.ResponseHeader{Revision: e.rev}, Events: []*clientv3.Event{vfEvent(e)}}})
			}
		}
	}
	if f.holdNext && !st.dead {
		f.holdNext = false
		st.holding = true
		st.held, st.q = st.q, nil
	}
	f.mu.Unlock()
	go f.vfPump(ctx, st)
	f.vfPoke()
	return st.ch
}

// vfRelease lets the held responses of the current stream through, in order.
func (f *vfEtcd) vfRelease() {
	f.mu.Lock()
	defer f.mu.Unlock()
	if st := f.cur; st != nil && st.holding {
		st.holding = false
		held := st.held
		st.held = nil
		for _, it := range held {
			st.vfPush(it)
		}
	}
}

func (f *vfEtcd) vfPump(ctx context.Context, st *vfStream) {
	for {
		f.mu.Lock()
		var it *vfItem
		if len(st.q) > 0 {
			x := st.q[0]
			st.q = st.q[1:]
			it = &x
		}
		f.mu.Unlock()
		if it == nil {
			select {
			case <-st.wake:
				continue
			case <-ctx.Done():
				f.mu.Lock()
				st.dead = true
				f.mu.Unlock()
				return
			}
		}
		select {
		case st.ch <- it.resp:
		case <-ctx.Done():
			f.mu.Lock()
			st.dead = true
			f.mu.Unlock()
			return
		}
		if it.done != nil {
			close(it.done)
		}
		if it.terminal {
			close(st.ch)
			return
		}
	}
}

// vfProbe queues a progress notification behind everything already queued on the live
// stream; the returned channel is closed once go-zero has RECEIVED it, i.e. (a stream
// is handled sequentially, listeners are called from the handling) once every earlier
// response has been handled completely. nil: no live stream.
func (f *vfEtcd) vfProbe() chan struct{} {
	f.mu.Lock()
	defer f.mu.Unlock()
	if f.cur == nil || f.cur.dead || f.stalled {
		return nil
	}
	done := make(chan struct{})
	f.cur.vfPush(vfItem{resp: clientv3.WatchResponse{Header: pb.ResponseHeader{Revision: f.rev}}, done: done})
	return done
}

func (st *vfStream) vfPush(it vfItem) {
	if st.holding {
		st.held = append(st.held, it)
		return
	}
	st.q = append(st.q, it)
	select {
	case st.wake <- struct{}{}:
	default:
	}
}

// vfApply executes store operations and delivers them as one watch response.
func (f *vfEtcd) vfApply(ops ...vfOp) {
	f.mu.Lock()
	defer f.mu.Unlock()
	f.vfApplyLocked(ops...)
}

func (f *vfEtcd) vfApplyLocked(ops ...vfOp) {
	var evs []*clientv3.Event
	for _, o := range ops {
		if o.del {
			if _, ok := f.kv[o.k]; !ok {
				continue
			}
			delete(f.kv, o.k)
		} else {
			f.kv[o.k] = o.v
		}
		f.rev++
		e := vfLogEv{rev: f.rev, vfOp: o}
		f.log = append(f.log, e)
		evs = append(evs, vfEvent(e))
	}
	if len(evs) > 0 && !f.stalled && f.cur != nil && !f.cur.dead {
		f.cur.vfPush(vfItem{resp: clientv3.WatchResponse{Header: pb.ResponseHeader{Revision: f.rev}, Events: evs}})
	}
}

// vfBreak ends the stream: compact=false -> go-zero re-watches from the last load and
// gets the retained events replayed; compact=true -> the re-watch is answered
// "compacted" and go-zero loads a snapshot.
func (f *vfEtcd) vfBreak(compact bool) (watches int) {
	f.mu.Lock()
	defer f.mu.Unlock()
	watches = f.watches + 1
	if compact {
		for f.loadRev+1 >= f.rev {
			f.rev++
			f.log = append(f.log, vfLogEv{rev: f.rev, vfOp: vfOp{k: "~pad", v: "x"}})
		}
		f.compactRev = f.rev
		keep := f.log[:0]
		for _, e := range f.log {
			if e.rev >= f.compactRev {
				keep = append(keep, e)
			}
		}
		f.log = keep
	}
	if f.cur != nil && !f.cur.dead {
		f.cur.dead = true
		f.vfCall("(live stream) <- canceled by the scripted etcd, channel closed (compacted=%v)", compact)
		f.cur.vfPush(vfItem{resp: clientv3.WatchResponse{Header: pb.ResponseHeader{Revision: f.rev}, Canceled: true}, terminal: true})
	}
	return
}

func (f *vfEtcd) vfWaitCalls(gets, watches int) bool {
	t := time.NewTimer(vfWatchdog)
	defer t.Stop()
	for {
		f.mu.Lock()
		ok := f.gets >= gets && f.watches >= watches
		f.mu.Unlock()
		if ok {
			return true
		}
		select {
		case <-f.note:
		case <-t.C:
			return false
		}
	}
}

// vfWaitLive waits until go-zero has re-established a watch that is being served
// (not answered "compacted"): its recovery, whatever it consisted of, is then over.
// vfStuck (go-zero keeps asking for a compacted revision without loading) is decided
// from the calls; only vfTimeout is a watchdog.
func (f *vfEtcd) vfWaitLive(watches int) int {
	t := time.NewTimer(vfWatchdog)
	defer t.Stop()
	for {
		f.mu.Lock()
		stuck := f.stuck
		ok := f.watches >= watches && f.cur != nil && !f.cur.dead
		f.mu.Unlock()
		switch {
		case stuck:
			return vfStuck
		case ok:
			return vfLive
		}
		select {
		case <-f.note:
		case <-t.C:
			return vfTimeout
		}
	}
}

const (
	vfLive = iota
	vfStuck
	vfTimeout
)

// reports of the causally decided "no reload" outcome per child process
var vfReloadMissingReports int

func (f *vfEtcd) vfView(prefix string) map[string]bool {
	f.mu.Lock()
	defer f.mu.Unlock()
	m := map[string]bool{}
	for k, v := range f.kv {
		if len(k) > len(prefix) && k[:len(prefix)+1] == prefix+"/" {
			m[v] = true
		}
	}
	return m
}

// vfRec records what is published.
type vfRec struct {
	resolver.ClientConn
	mu    sync.Mutex
	calls int
	last  []string
	sig   chan struct{}
	hook  func(call int) // set before Build, never changed afterwards
}

func (r *vfRec) vfRecord(vals []string) int {
	v := append([]string(nil), vals...)
	r.mu.Lock()
	r.calls++
	n := r.calls
	r.last = v
	r.mu.Unlock()
	select {
	case r.sig <- struct{}{}:
	default:
	}
	return n
}

func (r *vfRec) UpdateState(s resolver.State) error {
	addrs := make([]string, 0, len(s.Addresses))
	for _, a := range s.Addresses {
		addrs = append(addrs, a.Addr)
	}
	// the list counts as published at this point; whatever the hook does happens while
	// the caller (Build, or go-zero's watch goroutine) is still inside UpdateState. No
	// lock is held: go-zero may call UpdateState again from another goroutine meanwhile.
	if n := r.vfRecord(addrs); r.hook != nil {
		r.hook(n)
	}
	return nil
}
func (r *vfRec) ReportError(error)              {}
func (r *vfRec) NewAddress([]resolver.Address)  {}
func (r *vfRec) NewServiceConfig(string)        {}
func (r *vfRec) ParseServiceConfig(string) *serviceconfig.ParseResult {
	return nil
}

func (r *vfRec) vfSnapshot() (int, []string) {
	r.mu.Lock()
	defer r.mu.Unlock()
	return r.calls, r.last
}

const (
	vfSeen = iota
	vfHandled
	vfNever
)

// outcomes "go-zero handled the marker's response and the observer was not shown it"
// in this process; from the fifth on the question is put at once and nothing is reported
var vfHandledUnseen int

// vfWaitFor waits until the observer has been shown the marker (vfSeen); or until
// go-zero has provably finished handling the response that carried it - it received a
// progress notification queued behind it - without showing it (vfHandled: decided from
// the order of responses, not from elapsed time; the timer below only decides when
// the notification is sent); or until the watchdog fires (vfNever).
func (r *vfRec) vfWaitFor(marker string, f *vfEtcd) int {
	seen := func() bool {
		_, last := r.vfSnapshot()
		for _, v := range last {
			if v == marker {
				return true
			}
		}
		return false
	}
	t := time.NewTimer(vfWatchdog)
	defer t.Stop()
	d := time.Second
	if vfHandledUnseen >= 5 {
		d = 0
	}
	n := time.NewTimer(d)
	defer n.Stop()
	ask := n.C
	var done chan struct{}
	for {
		if seen() {
			return vfSeen
		}
		select {
		case <-r.sig:
		case <-ask:
			ask = nil
			done = f.vfProbe()
		case <-done:
			if seen() {
				return vfSeen
			}
			return vfHandled
		case <-t.C:
			return vfNever
		}
	}
}

func (r *vfRec) vfStable() {
	prev, _ := r.vfSnapshot()
	for i := 0; i < 40; i++ {
		time.Sleep(250 * time.Millisecond)
		cur, _ := r.vfSnapshot()
		if cur == prev {
			return
		}
		prev = cur
	}
}

// vfGuard runs a call into go-zero and returns what it panicked with, if it did.
func vfGuard(fn func()) (p any) {
	defer func() { p = recover() }()
	fn()
	return nil
}

var (
	vfMu     sync.Mutex
	vfStores = map[string]*vfEtcd{}
	vfConn   *grpc.ClientConn
	vfSeq    int
)

func vfResolverHistory(c *kit.Case) {
	r := c.R
	vfSeq++
	ep := fmt.Sprintf("c13wb-%d-%d.verif:2379", kit.GetEnv().Seed, vfSeq)
	f := &vfEtcd{rev: 100, kv: map[string]string{}, note: make(chan struct{}, 1), conn: vfConn}
	vfMu.Lock()
	vfStores[ep] = f
	vfMu.Unlock()
	n := r.Range(1, 12)
	if r.Chance(0.45) {
		n = r.Range(25, 80)
	}
	var steps []string
	put := func(i int) vfOp {
		v := i
		if i%7 == 6 { // some values are shared by two keys
			v = i - 1
		}
		return vfOp{k: fmt.Sprintf("svc/%d", i), v: fmt.Sprintf("10.3.%d.%d:80", v/200, v%200)}
	}
	present := map[int]bool{}
	for i, m := 0, r.Range(0, n); i < m; i++ {
		j := r.Intn(n)
		present[j] = true
		f.vfApply(put(j))
	}
	steps = append(steps, fmt.Sprintf("(before Build) %d registrations", len(present)))
	rec := &vfRec{sig: make(chan struct{}, 1)}
	u, _ := url.Parse("discov://" + ep + "/svc")
	var rs resolver.Resolver
	var err error
	if p := vfGuard(func() { rs, err = (&discovBuilder{}).Build(resolver.Target{URL: *u}, rec, resolver.BuildOptions{}) }); p != nil {
		c.Viol("C13/resolver-wb-panic/build", fmt.Sprintf("discovBuilder.Build panicked: %v", p), map[string]any{"steps": steps})
		return
	}
	if err != nil {
		panic("c13 whitebox: Build: " + err.Error())
	}
	defer rs.Close()
	if !f.vfWaitCalls(1, 1) {
		c.Inconclusive("watchdog: no Get+Watch after Build")
		return
	}
	syncSub, err := discov.NewSubscriber([]string{ep}, "svc")
	if err != nil {
		panic("c13 whitebox: NewSubscriber: " + err.Error())
	}
	defer syncSub.Close()
	srec := &vfRec{sig: make(chan struct{}, 1)}
	syncSub.AddListener(func() {
		var v []string
		if p := vfGuard(func() { v = syncSub.Values() }); p == nil {
			srec.vfRecord(v)
		}
	})
	markerN, markerKey := 0, ""
	over, upto := 0, 0
	check := func(step string) bool {
		steps = append(steps, step)
		markerN++
		mv := fmt.Sprintf("marker-%d", markerN)
		if markerKey != "" {
			f.vfApply(vfOp{del: true, k: markerKey})
		}
		markerKey = fmt.Sprintf("svc/~m%d", markerN)
		f.vfApply(vfOp{k: markerKey, v: mv})
		switch srec.vfWaitFor(mv, f) {
		case vfNever:
			c.Inconclusive("watchdog: marker not observed after " + step)
			return false
		case vfHandled:
			// the synchronising subscriber will not be shown the marker; what the resolver
			// has published by now is final as well (its listener runs before this one): the
			// ordinary comparison below decides, on a state that stopped changing
			c.Obs("wb_syncs_decided_by_probe", 1)
			vfHandledUnseen++
			if vfHandledUnseen > 5 {
				c.Obs("wb_reports_suppressed_marker_unseen", 1)
				return false
			}
			rec.vfStable()
		}
		exp := f.vfView("svc")
		eval := func() (string, []string) {
			_, last := rec.vfSnapshot()
			seen := map[string]bool{}
			for _, a := range last {
				if seen[a] {
					return "duplicate-address", last
				}
				seen[a] = true
				if !exp[a] {
					return "stale-address", last
				}
			}
			want := len(exp)
			if want > subsetSize {
				want = subsetSize
			}
			if len(last) != want {
				if len(exp) <= subsetSize {
					return "missing-address", last
				}
				return "subset-size", last
			}
			return "", last
		}
		kind, last := eval()
		if kind != "" {
			rec.vfStable()
			kind, last = eval()
		}
		sz := "upto32"
		if len(exp) > subsetSize {
			sz = "over32"
			over++
		} else {
			upto++
		}
		if kind != "" {
			var es []string
			for v := range exp {
				es = append(es, v)
			}
			sort.Strings(es)
			c.Viol("C13/resolver-wb-"+kind+"/"+sz, fmt.Sprintf("discov resolver published %d addresses for %d registered values (%s) after %s", len(last), len(exp), kind, step),
				map[string]any{"steps": steps, "registered_values": es, "published": last})
			return false
		}
		return true
	}
	if !check("BUILD") {
		return
	}
	for s, m := 0, r.Range(4, 14); s < m; s++ {
		switch r.Pick(5, 4, 3) {
		case 0:
			var ops []vfOp
			for j, q := 0, r.Range(1, 10); j < q; j++ {
				i := r.Intn(n)
				if !present[i] {
					present[i] = true
					ops = append(ops, put(i))
				}
			}
			f.vfApply(ops...)
			if !check(fmt.Sprintf("PUT %d keys", len(ops))) {
				return
			}
		case 1:
			var ops []vfOp
			for j, q := 0, r.Range(1, 10); j < q; j++ {
				i := r.Intn(n)
				if present[i] {
					present[i] = false
					ops = append(ops, vfOp{del: true, k: fmt.Sprintf("svc/%d", i)})
				}
			}
			f.vfApply(ops...)
			if !check(fmt.Sprintf("DEL %d keys", len(ops))) {
				return
			}
		case 2:
			f.mu.Lock()
			f.stalled = true
			f.mu.Unlock()
			q := r.Range(0, 8)
			for j := 0; j < q; j++ {
				i := r.Intn(n)
				if present[i] {
					present[i] = false
					f.vfApply(vfOp{del: true, k: fmt.Sprintf("svc/%d", i)})
				} else {
					present[i] = true
					f.vfApply(put(i))
				}
			}
			compact := r.Bool()
			f.mu.Lock()
			g0 := f.gets
			f.mu.Unlock()
			w := f.vfBreak(compact)
			switch f.vfWaitLive(w) {
			case vfStuck:
				// no reload, no served watch: a registration made now cannot reach the resolver
				c.Obs("wb_compactions_not_followed_by_load", 1)
				vfReloadMissingReports++
				if vfReloadMissingReports > 5 {
					c.Obs("wb_reports_suppressed_reload_missing", 1)
					return
				}
				steps = append(steps, fmt.Sprintf("PARTITION{%d ops missed} then stream broken (compacted=true)", q))
				markerN++
				mv := fmt.Sprintf("marker-%d", markerN)
				f.vfApply(vfOp{k: fmt.Sprintf("svc/~m%d", markerN), v: mv})
				steps = append(steps, "PUT marker "+mv+" (registered after go-zero stopped at the compaction)")
				_, sv := srec.vfSnapshot()
				_, pub := rec.vfSnapshot()
				for _, v := range sv {
					if v == mv {
						c.Inconclusive("go-zero did not reload after the compaction, yet the marker is visible")
						return
					}
				}
				f.mu.Lock()
				calls := append([]string(nil), f.calls...)
				f.mu.Unlock()
				var es []string
				for v := range f.vfView("svc") {
					es = append(es, v)
				}
				sort.Strings(es)
				c.Viol("C13/resolver-wb-reload-missing/compaction-not-followed-by-load",
					fmt.Sprintf("after a compaction go-zero re-issued Watch %d times at a compacted revision (each answered \"compacted\") without a Get: no reload, no served watch; subscriber view and published addresses cannot follow the registrations", vfRefusalsWithoutLoad),
					map[string]any{"steps": steps, "etcd_calls_on_this_watch": calls, "registered_values": es, "subscriber_values": sv, "published": pub})
				return
			case vfTimeout:
				c.Inconclusive("watchdog: watch not re-established")
				return
			}
			f.mu.Lock()
			g1 := f.gets
			f.mu.Unlock()
			if compact && g1 > g0 {
				c.Obs("wb_compactions_followed_by_load", 1)
			}
			c.Obs("wb_resolver_reloads", 1)
			if !check(fmt.Sprintf("PARTITION{%d ops missed} then stream broken (compacted=%v)", q, compact)) {
				return
			}
		}
	}
	calls, _ := rec.vfSnapshot()
	c.Obs("wb_resolver_histories", 1)
	c.Obs("wb_resolver_update_state_calls", int64(calls))
	c.Obs("wb_resolver_checks_over_32_values", int64(over))
	c.Obs("wb_resolver_checks_upto_32_values", int64(upto))
	sig := []any{n}
	for _, s := range steps {
		sig = append(sig, s)
	}
	c.Sig(over > 0 && upto > 0 || calls > 5, sig...)
	if c.Index < 2 {
		c.Sample("resolver-whitebox", 2, map[string]any{"keys": n, "steps": steps})
	}
}

// ---- registry events that arrive WHILE the resolver is being built / is publishing
//
// The recording ClientConn is the one place inside Build (and inside go-zero's watch
// goroutine, for later publications) where the harness runs on go-zero's own stack,
// so it is used to put registry events at exact points:
//
//	event-during-build           ops applied to the store from inside the FIRST UpdateState
//	                             (between the initial publication and whatever Build does next)
//	replayed-event-during-build  ops reach the store right after the snapshot of Build's Get was
//	                             taken (between load and watch); the stream replaying them is held
//	                             and released from inside the first UpdateState
//	replayed-event-after-build   the same, released once Build has returned
//	event-during-later-publish   ops applied from inside a later UpdateState (the one caused by a
//	                             preceding registration), i.e. while a publication is in flight
//
// Barrier: a progress notification queued behind the events on the unbuffered channel;
// once go-zero has received it the events have been handled and every listener has
// been called (the stream is handled sequentially, listeners run inside the handling).
// For the two during-build placements the barrier is awaited INSIDE UpdateState, so
// Build cannot proceed before go-zero has consumed the events. No registry event
// follows. The LAST list passed to UpdateState must then be the registered values.
// "Never published" is thereby decided from the order of responses, not from a
// timer; a mismatch is re-evaluated on a state that stopped changing.

var vfPlacements = []string{"event-during-build", "replayed-event-during-build", "replayed-event-after-build", "event-during-later-publish"}

var vfStaleReports int

func vfAwait(done chan struct{}) bool {
	if done == nil {
		return false
	}
	t := time.NewTimer(vfWatchdog)
	defer t.Stop()
	select {
	case <-done:
		return true
	case <-t.C:
		return false
	}
}

func vfBuildInjectCase(c *kit.Case) {
	r := c.R
	vfSeq++
	ep := fmt.Sprintf("c13wbinj-%d-%d.verif:2379", kit.GetEnv().Seed, vfSeq)
	f := &vfEtcd{rev: 100, kv: map[string]string{}, note: make(chan struct{}, 1), conn: vfConn}
	vfMu.Lock()
	vfStores[ep] = f
	vfMu.Unlock()
	n := r.Range(1, 6)
	if r.Chance(0.2) {
		n = r.Range(12, 26) // plus at most 4 new values: the view stays <= 32
	}
	val := func(i int) string { return fmt.Sprintf("10.4.0.%d:80", i) }
	var steps []string
	reg := map[string]string{}
	for i := 0; i < n; i++ {
		if r.Chance(0.6) {
			k, v := fmt.Sprintf("svc/%d", i), val(i)
			if i > 0 && r.Chance(0.15) {
				v = val(i - 1) // a value shared by two keys
			}
			reg[k] = v
			f.vfApply(vfOp{k: k, v: v})
		}
	}
	{
		var ks []string
		for k, v := range reg {
			ks = append(ks, k+"="+v)
		}
		sort.Strings(ks)
		steps = append(steps, fmt.Sprintf("(before Build) registered %v", ks))
	}
	fresh := n
	genOps := func(m int) []vfOp {
		var ops []vfOp
		for len(ops) < m {
			var keys []string
			for k := range reg {
				keys = append(keys, k)
			}
			sort.Strings(keys)
			switch {
			case len(keys) > 0 && r.Chance(0.35):
				k := kit.Choose(r, keys)
				delete(reg, k)
				ops = append(ops, vfOp{del: true, k: k})
			case len(keys) > 0 && r.Chance(0.2): // a further key for a value that is registered already
				fresh++
				k := fmt.Sprintf("svc/%d", fresh)
				reg[k] = reg[kit.Choose(r, keys)]
				ops = append(ops, vfOp{k: k, v: reg[k]})
			default:
				fresh++
				k := fmt.Sprintf("svc/%d", fresh)
				reg[k] = val(fresh)
				ops = append(ops, vfOp{k: k, v: reg[k]})
			}
		}
		return ops
	}
	descr := func(ops []vfOp) string {
		var ds []string
		for _, o := range ops {
			if o.del {
				ds = append(ds, "DEL "+o.k)
			} else {
				ds = append(ds, "PUT "+o.k+"="+o.v)
			}
		}
		return fmt.Sprint(ds)
	}
	viewOf := func() map[string]bool {
		m := map[string]bool{}
		for _, v := range reg {
			m[v] = true
		}
		return m
	}
	before := viewOf()
	pl := r.Pick(5, 3, 2, 3)
	place := vfPlacements[pl]
	var first []vfOp // event-during-later-publish: the registration whose publication is used
	if pl == 3 {
		fresh++
		k := fmt.Sprintf("svc/%d", fresh)
		reg[k] = val(fresh)
		first = []vfOp{{k: k, v: reg[k]}}
	}
	ops := genOps(r.Pick(0, 5, 3, 1))
	after := viewOf()
	changed := len(before) != len(after)
	for v := range after {
		if !before[v] {
			changed = true
		}
	}

	rec := &vfRec{sig: make(chan struct{}, 1)}
	var hookMu sync.Mutex
	barrier := "" // why the barrier could not be established (watchdog), if so
	hookRan := make(chan struct{})
	fail := func(why string) {
		hookMu.Lock()
		if barrier == "" {
			barrier = why
		}
		hookMu.Unlock()
	}
	switch pl {
	case 0:
		steps = append(steps, "BUILD; from inside the 1st UpdateState: "+descr(ops)+" delivered on the watch stream, then a progress notification received by go-zero; UpdateState returns")
		rec.hook = func(call int) {
			if call != 1 {
				return
			}
			defer close(hookRan)
			if !f.vfWaitCalls(1, 1) {
				fail("watchdog: no Watch while Build was inside the 1st UpdateState")
				return
			}
			f.vfApply(ops...)
			if !vfAwait(f.vfProbe()) {
				fail("watchdog: go-zero did not receive the progress notification behind the injected events")
			}
		}
	case 1, 2:
		f.mu.Lock()
		f.afterSnap = ops
		f.holdNext = true
		f.mu.Unlock()
		if pl == 1 {
			steps = append(steps, "BUILD; right after the snapshot of its Get: "+descr(ops)+" (replayed by the Watch that follows, stream held); from inside the 1st UpdateState: stream released, then a progress notification received by go-zero; UpdateState returns")
			rec.hook = func(call int) {
				if call != 1 {
					return
				}
				defer close(hookRan)
				if !f.vfWaitCalls(1, 1) {
					fail("watchdog: no Watch while Build was inside the 1st UpdateState")
					return
				}
				f.vfRelease()
				if !vfAwait(f.vfProbe()) {
					fail("watchdog: go-zero did not receive the progress notification behind the replayed events")
				}
			}
		} else {
			steps = append(steps, "BUILD; right after the snapshot of its Get: "+descr(ops)+" (replayed by the Watch that follows, stream held until Build has returned)")
		}
	case 3:
		steps = append(steps, "BUILD")
		rec.hook = func(call int) {
			if call != 2 {
				return
			}
			// on go-zero's watch goroutine: only queue the events, the barrier is awaited outside
			f.vfApply(ops...)
			close(hookRan)
		}
	}
	u, _ := url.Parse("discov://" + ep + "/svc")
	var rs resolver.Resolver
	var err error
	if p := vfGuard(func() { rs, err = (&discovBuilder{}).Build(resolver.Target{URL: *u}, rec, resolver.BuildOptions{}) }); p != nil {
		c.Viol("C13/resolver-wb-panic/build", fmt.Sprintf("discovBuilder.Build panicked: %v", p), map[string]any{"steps": steps})
		return
	}
	if err != nil {
		panic("c13 whitebox: Build: " + err.Error())
	}
	defer rs.Close()
	switch pl {
	case 0, 1:
		select {
		case <-hookRan:
		default:
			// Build returned without having called UpdateState: there was no point to inject at
			// (an initial publication is demanded by the resolver-wb family, not here)
			c.Obs("wb_build_without_initial_publication", 1)
			c.Inconclusive("Build returned without an initial UpdateState: no point to inject at (" + place + ")")
			return
		}
	case 2:
		if !f.vfWaitCalls(1, 1) {
			c.Inconclusive("watchdog: no Get+Watch after Build")
			return
		}
		steps = append(steps, "stream released, then a progress notification received by go-zero")
		f.vfRelease()
		if !vfAwait(f.vfProbe()) {
			fail("watchdog: go-zero did not receive the progress notification behind the replayed events")
		}
	case 3:
		if !f.vfWaitCalls(1, 1) {
			c.Inconclusive("watchdog: no Get+Watch after Build")
			return
		}
		steps = append(steps, descr(first)+"; from inside the UpdateState it causes (2nd): "+descr(ops)+" queued on the watch stream; then a progress notification received by go-zero")
		f.vfApply(first...)
		// behind `first`: once received, the publication caused by `first` (and with it the hook) is over
		if !vfAwait(f.vfProbe()) {
			fail("watchdog: go-zero did not receive the progress notification behind the first registration")
			break
		}
		select {
		case <-hookRan:
			// behind the events queued by the hook
			if !vfAwait(f.vfProbe()) {
				fail("watchdog: go-zero did not receive the progress notification behind the injected events")
			}
		default:
			// no 2nd UpdateState although go-zero is past the registration: the ops were never
			// injected; the comparison below is against the store as it is (with the first
			// registration only), which the last publication does not match
			steps = append(steps, "(no 2nd UpdateState happened: nothing was injected)")
		}
	}
	hookMu.Lock()
	why := barrier
	hookMu.Unlock()
	if why != "" {
		c.Inconclusive(why + " (" + place + ")")
		return
	}
	// go-zero has consumed every event; no registry event follows
	exp := f.vfView("svc")
	eval := func() (string, []string) {
		_, last := rec.vfSnapshot()
		seen := map[string]bool{}
		for _, a := range last {
			if seen[a] {
				return "duplicate-address", last
			}
			seen[a] = true
			if !exp[a] {
				return "stale-address", last
			}
		}
		if len(last) != len(exp) {
			return "missing-address", last
		}
		return "", last
	}
	c.Obs("wb_build_inject_cases", 1)
	c.Obs("wb_build_inject_"+place, 1)
	if changed {
		c.Obs("wb_build_inject_cases_changing_the_view", 1)
	}
	kind, last := eval()
	if kind != "" {
		c.Obs("wb_stale_publications", 1)
		vfStaleReports++
		if vfStaleReports > 5 {
			c.Obs("wb_reports_suppressed_stale_publication", 1)
			return
		}
		rec.vfStable()
		kind, last = eval()
	}
	if kind != "" {
		var es []string
		for v := range exp {
			es = append(es, v)
		}
		sort.Strings(es)
		var sv []string
		if dr, ok := rs.(*discovResolver); ok {
			vfGuard(func() { sv = append(sv, dr.sub.Values()...) })
			sort.Strings(sv)
		}
		calls, _ := rec.vfSnapshot()
		c.Viol("C13/resolver-wb-stale-publication/"+place,
			fmt.Sprintf("the last address list published through UpdateState (%d calls) has a %s: published %v, registered values %v (the resolver's subscriber says %v); go-zero has received every event and none follows",
				calls, kind, last, es, sv),
			map[string]any{"placement": place, "steps": steps, "registered_values": es, "published_last": last, "update_state_calls": calls, "resolver_subscriber_values": sv})
		return
	}
	c.Sig(changed, "build-inject", place, steps)
	if c.Index < 4 {
		c.Sample("resolver-build-inject", 2, map[string]any{"placement": place, "steps": steps, "published_last": last})
	}
}

func vfSubsetCase(c *kit.Case) {
	r := c.R
	for rep := 0; rep < 200; rep++ {
		n := r.Range(0, 100)
		if r.Chance(0.3) {
			n = r.Range(30, 34)
		}
		in := make([]string, n)
		orig := map[string]int{}
		for i := range in {
			in[i] = fmt.Sprintf("a%d", i)
			orig[in[i]]++
		}
		out := subset(in, subsetSize)
		want := n
		if want > subsetSize {
			want = subsetSize
		}
		seen := map[string]bool{}
		bad := ""
		for _, v := range out {
			if seen[v] {
				bad = "duplicate"
			}
			seen[v] = true
			if orig[v] == 0 {
				bad = "foreign-element"
			}
		}
		if len(out) != want {
			bad = "size"
		}
		if bad != "" && !c.Violated() {
			sz := "upto32"
			if n > subsetSize {
				sz = "over32"
			}
			c.Viol("C13/subset-"+bad+"/"+sz, fmt.Sprintf("subset of %d distinct values to %d returned %d values (%s)", n, subsetSize, len(out), bad), map[string]any{"n": n, "out": out})
		}
		c.Obs("wb_subset_calls", 1)
	}
	c.Evals(200)
	c.Sig(true, "subset", c.Index)
}

func TestVerifC13W(t *testing.T) {
	logx.Disable()
	var err error
	vfConn, err = grpc.NewClient("passthrough:///c13-never-dialled", grpc.WithTransportCredentials(insecure.NewCredentials()))
	if err != nil {
		t.Fatal(err)
	}
	discov.VerifSetEtcdClientFactory(func(endpoints []string) (any, error) {
		vfMu.Lock()
		defer vfMu.Unlock()
		f := vfStores[endpoints[0]]
		if f == nil {
			return nil, fmt.Errorf("c13 whitebox: unknown endpoint %v", endpoints)
		}
		return f, nil
	})
	kit.Run(t, "C13", "resolver-wb", kit.N(1500, 40000), vfResolverHistory)
	kit.Run(t, "C13", "build-inject-wb", kit.N(1600, 40000), vfBuildInjectCase)
	kit.Run(t, "C13", "subset-wb", kit.N(20, 400), vfSubsetCase)
	kit.End()
}
