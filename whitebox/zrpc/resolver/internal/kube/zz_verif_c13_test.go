package kube

// Runtime monitor for the Kubernetes clause of C13 (DESIGN.md §4 C13): after every
// informer callback the list most recently handed to the update function must
// set-equal the addresses of the current Endpoints object, without duplicates, and
// a callback that changes that set must publish.
//
// Histories follow what a name-filtered shared informer delivers for ONE Endpoints
// object (kubebuilder.go filters by metadata.name): optionally the direct
// handler.Update(obj) that kubeBuilder.Build performs before starting the informer,
// followed by the informer's initial OnAdd (of the same or of a newer version of the
// object); then OnAdd when the object is absent, OnUpdate with a new
// ResourceVersion (content changed or not), OnUpdate with the SAME ResourceVersion
// (a resync: identical object), OnDelete with the last known state or with a
// cache.DeletedFinalStateUnknown tombstone, and non-Endpoints objects (ignored).

import (
	"fmt"
	"sort"
	"strconv"
	"strings"
	"sync"
	"sync/atomic"
	"testing"

	"github.com/zeromicro/go-zero/core/logx"
	kit "github.com/zeromicro/go-zero/internal/verifkit"
	v1 "k8s.io/api/core/v1"
	metav1 "k8s.io/apimachinery/pkg/apis/meta/v1"
	"k8s.io/client-go/tools/cache"
)

type vfKube struct {
	c        *kit.Case
	h        *EventHandler
	obj      *v1.Endpoints
	rv       int
	calls    int
	last     []string
	steps    []string
	reported map[string]bool
}

func vfAddrs(e *v1.Endpoints) map[string]bool {
	m := map[string]bool{}
	if e == nil {
		return m
	}
	for _, s := range e.Subsets {
		for _, a := range s.Addresses {
			m[a.IP] = true
		}
	}
	return m
}

func vfSorted(m map[string]bool) []string {
	s := make([]string, 0, len(m))
	for k := range m {
		s = append(s, k)
	}
	sort.Strings(s)
	return s
}

func (k *vfKube) vfRandObj() *v1.Endpoints {
	r := k.c.R
	k.rv++
	e := &v1.Endpoints{ObjectMeta: metav1.ObjectMeta{Name: "svc", Namespace: "ns", ResourceVersion: strconv.Itoa(k.rv)}}
	pool := r.Range(1, 8)
	for i, n := 0, r.Pick(2, 5, 3, 1); i < n; i++ {
		var s v1.EndpointSubset
		for j, m := 0, r.Pick(1, 3, 3, 2, 1); j < m; j++ {
			s.Addresses = append(s.Addresses, v1.EndpointAddress{IP: fmt.Sprintf("10.2.0.%d", r.Range(1, pool))})
		}
		if r.Chance(0.3) {
			s.NotReadyAddresses = append(s.NotReadyAddresses, v1.EndpointAddress{IP: fmt.Sprintf("10.2.9.%d", r.Range(1, 3))})
		}
		s.Ports = []v1.EndpointPort{{Port: 8080}}
		e.Subsets = append(e.Subsets, s)
	}
	return e
}

func vfDescr(e *v1.Endpoints) string {
	if e == nil {
		return "<none>"
	}
	var subs [][]string
	for _, s := range e.Subsets {
		var ips []string
		for _, a := range s.Addresses {
			ips = append(ips, a.IP)
		}
		subs = append(subs, ips)
	}
	return fmt.Sprintf("rv=%s subsets=%v", e.ResourceVersion, subs)
}

// vfStep runs one callback and checks the published list afterwards.
func (k *vfKube) vfStep(class, descr string, after *v1.Endpoints, fn func()) {
	if k.c.Violated() {
		return // the handler's state is already off: later mismatches would only be echoes
	}
	before := vfAddrs(k.obj)
	calls0 := k.calls
	k.steps = append(k.steps, descr)
	fn()
	k.obj = after
	want := vfAddrs(k.obj)
	k.c.Obs("kube_callbacks", 1)
	flag := func(kind, what string) {
		key := "C13/kube-" + kind + "/" + class
		if k.reported[key] {
			return
		}
		k.reported[key] = true
		k.c.Viol(key, what, map[string]any{"steps": k.steps, "current_endpoint_addresses": vfSorted(want), "last_published": k.last, "update_calls": k.calls})
	}
	seen := map[string]bool{}
	for _, a := range k.last {
		if seen[a] {
			flag("duplicate-address", "address "+a+" published twice")
		}
		seen[a] = true
		if !want[a] {
			flag("stale-address", "published address "+a+" is not an address of the current Endpoints object after "+descr)
		}
	}
	for a := range want {
		if !seen[a] {
			flag("missing-address", "address "+a+" of the current Endpoints object is not in the published list after "+descr)
		}
	}
	changed := len(before) != len(want)
	for a := range want {
		if !before[a] {
			changed = true
		}
	}
	if changed {
		k.c.Obs("kube_address_set_changes", 1)
		if k.calls == calls0 && !k.c.Violated() { // a wrong list is reported as such, once
			flag("not-published", "the address set changed but the update function was not called during "+descr)
		}
	}
}

func vfKubeHistory(c *kit.Case) {
	r := c.R
	k := &vfKube{c: c, reported: map[string]bool{}}
	k.h = NewEventHandler(func(addrs []string) {
		k.calls++
		k.last = append([]string(nil), addrs...)
	})
	sig := []any{}
	// start-up as in kubeBuilder.Build
	switch r.Pick(3, 3, 2) {
	case 0:
	case 1:
		o := k.vfRandObj()
		k.vfStep("direct-update", "Update("+vfDescr(o)+") [kubeBuilder's initial fetch]", o, func() { k.h.Update(o) })
		cp := o.DeepCopy()
		k.vfStep("initial-add-same", "OnAdd(same object, isInInitialList=true)", cp, func() { k.h.OnAdd(cp, true) })
	case 2:
		o := k.vfRandObj()
		k.vfStep("direct-update", "Update("+vfDescr(o)+") [kubeBuilder's initial fetch]", o, func() { k.h.Update(o) })
		n := k.vfRandObj()
		k.vfStep("initial-add-newer", "OnAdd("+vfDescr(n)+", isInInitialList=true) [the object changed between the fetch and the informer's list]", n, func() { k.h.OnAdd(n, true) })
		c.Obs("kube_initial_add_of_newer_version", 1)
	}
	for i, n := 0, r.Range(3, 25); i < n; i++ {
		switch r.Pick(20, 30, 12, 12, 4, 6) {
		case 0:
			if k.obj == nil {
				o := k.vfRandObj()
				k.vfStep("add", "OnAdd("+vfDescr(o)+")", o, func() { k.h.OnAdd(o, false) })
			}
		case 1:
			if k.obj != nil {
				old, o := k.obj, k.vfRandObj()
				if r.Chance(0.2) { // new version, same content
					o.Subsets = old.DeepCopy().Subsets
				}
				k.vfStep("update-new-version", "OnUpdate(old, "+vfDescr(o)+")", o, func() { k.h.OnUpdate(old, o) })
			}
		case 2:
			if k.obj != nil {
				old, o := k.obj, k.obj.DeepCopy()
				k.vfStep("update-same-version", "OnUpdate(old, identical copy with the same ResourceVersion) [resync]", o, func() { k.h.OnUpdate(old, o) })
				c.Obs("kube_resyncs", 1)
			}
		case 3:
			if k.obj != nil {
				old := k.obj
				k.vfStep("delete", "OnDelete(last known state)", nil, func() { k.h.OnDelete(old) })
			}
		case 4:
			if k.obj != nil {
				old := k.obj
				k.vfStep("delete-tombstone", "OnDelete(cache.DeletedFinalStateUnknown{Obj: last known state})", nil,
					func() { k.h.OnDelete(cache.DeletedFinalStateUnknown{Key: "ns/svc", Obj: old}) })
				c.Obs("kube_tombstone_deletes", 1)
			}
		case 5:
			cur := k.obj
			switch r.Intn(3) {
			case 0:
				k.vfStep("junk", "OnAdd(non-Endpoints object)", cur, func() { k.h.OnAdd("junk", false) })
			case 1:
				k.vfStep("junk", "OnDelete(non-Endpoints object)", cur, func() { k.h.OnDelete(42) })
			default:
				if cur != nil && r.Bool() {
					// only the NEW object is of a foreign type
					k.vfStep("junk", "OnUpdate(last known state, non-Endpoints object)", cur, func() { k.h.OnUpdate(cur, &v1.Pod{}) })
					c.Obs("kube_updates_to_foreign_object", 1)
				} else {
					k.vfStep("junk", "OnUpdate(non-Endpoints objects)", cur, func() { k.h.OnUpdate("a", &v1.Pod{}) })
				}
			}
		}
	}
	for _, s := range k.steps {
		sig = append(sig, s)
	}
	c.Obs("kube_histories", 1)
	c.Obs("kube_update_calls", int64(k.calls))
	c.Sig(len(k.steps) >= 3 && k.calls >= 2, sig...)
	if c.Index < 2 {
		c.Sample("kube", 2, map[string]any{"steps": k.steps, "last_published": k.last})
	}
}

// vfKubeConcurrent: informer callbacks and direct Update calls for ONE Endpoints object
// arrive from several goroutines at once (kubeBuilder calls handler.Update from Build
// while the informer, started just before, may already deliver OnAdd / OnUpdate). Which of
// them the handler serialises last is not known to the harness, so nothing is asserted
// about the concurrent phase itself (only "no panic"). Then, with every goroutine joined, ONE further callback is made sequentially; after it
// the list most recently handed to the update function must set-equal the addresses of
// the object that callback carries ("always publishes exactly the current addresses").
func vfKubeConcurrent(c *kit.Case) {
	r := c.R
	k := &vfKube{c: c, reported: map[string]bool{}}
	var mu sync.Mutex
	var last []string
	calls := 0
	h := NewEventHandler(func(addrs []string) {
		mu.Lock()
		calls++
		last = append([]string(nil), addrs...)
		mu.Unlock()
	})
	k.h = h
	var steps []string
	cur := k.vfRandObj()
	h.Update(cur)
	steps = append(steps, "Update("+vfDescr(cur)+")")
	for round, rounds := 0, r.Range(1, 4); round < rounds; round++ {
		ng := r.Range(2, 4)
		type call struct {
			descr string
			fn    func()
		}
		var plan [][]call
		for g := 0; g < ng; g++ {
			var cs []call
			for j, n := 0, r.Range(1, 4); j < n; j++ {
				o := k.vfRandObj()
				switch r.Pick(4, 3, 3, 1) {
				case 0:
					cs = append(cs, call{"Update(" + vfDescr(o) + ")", func() { h.Update(o) }})
				case 1:
					cs = append(cs, call{"OnAdd(" + vfDescr(o) + ")", func() { h.OnAdd(o, false) }})
				case 2:
					old := k.vfRandObj()
					cs = append(cs, call{"OnUpdate(" + vfDescr(old) + ", " + vfDescr(o) + ")", func() { h.OnUpdate(old, o) }})
				default:
					cs = append(cs, call{"OnDelete(" + vfDescr(o) + ")", func() { h.OnDelete(o) }})
				}
			}
			plan = append(plan, cs)
		}
		var ds []string
		for _, cs := range plan {
			var d []string
			for _, x := range cs {
				d = append(d, x.descr)
			}
			ds = append(ds, "["+strings.Join(d, "; ")+"]")
		}
		steps = append(steps, fmt.Sprintf("%d goroutines concurrently: %s; all joined", ng, strings.Join(ds, " || ")))
		var wg sync.WaitGroup
		var pp atomic.Value
		for _, cs := range plan {
			wg.Add(1)
			go func(cs []call) {
				defer wg.Done()
				defer func() {
					if v := recover(); v != nil {
						pp.Store(fmt.Sprint(v))
					}
				}()
				for _, x := range cs {
					x.fn()
				}
			}(cs)
		}
		wg.Wait()
		c.Obs("kube_concurrent_rounds", 1)
		if v := pp.Load(); v != nil {
			c.Viol("C13/kube-panic/concurrent-callbacks", "go-zero panicked: "+v.(string), map[string]any{"steps": steps})
			return
		}
		final := k.vfRandObj()
		var fd string
		switch r.Pick(3, 3, 2) {
		case 0:
			fd = "Update(" + vfDescr(final) + ")"
			h.Update(final)
		case 1:
			fd = "OnAdd(" + vfDescr(final) + ")"
			h.OnAdd(final, false)
		default:
			old := k.vfRandObj()
			fd = "OnUpdate(" + vfDescr(old) + ", " + vfDescr(final) + ")"
			h.OnUpdate(old, final)
		}
		steps = append(steps, "then sequentially: "+fd)
		cur = final
		want := vfAddrs(final)
		mu.Lock()
		got := append([]string(nil), last...)
		ncalls := calls
		mu.Unlock()
		var diff []string
		seen := map[string]bool{}
		for _, a := range got {
			if seen[a] {
				diff = append(diff, "duplicate-address "+a)
			}
			seen[a] = true
			if !want[a] {
				diff = append(diff, "stale-address "+a)
			}
		}
		for a := range want {
			if !seen[a] {
				diff = append(diff, "missing-address "+a)
			}
		}
		if len(diff) > 0 {
			sort.Strings(diff)
			kind := strings.SplitN(diff[0], " ", 2)[0]
			c.Viol("C13/kube-"+kind+"/after-concurrent-callbacks",
				fmt.Sprintf("after concurrent callbacks had all returned and %s was delivered sequentially, the last published list %v differs from the addresses of that object %v: %s",
					fd, got, vfSorted(want), strings.Join(diff, ", ")),
				map[string]any{"steps": steps, "last_published": got, "current_endpoint_addresses": vfSorted(want), "update_calls": ncalls})
			return
		}
	}
	c.Obs("kube_concurrent_histories", 1)
	sig := []any{"kube-concurrent"}
	for _, s := range steps {
		sig = append(sig, s)
	}
	c.Sig(true, sig...)
	if c.Index < 1 {
		c.Sample("kube-concurrent", 1, map[string]any{"steps": steps})
	}
}

func TestVerifC13K(t *testing.T) {
	logx.Disable()
	kit.Run(t, "C13", "kube", kit.N(20000, 600000), vfKubeHistory)
	kit.Run(t, "C13", "kube-concurrent", kit.N(1500, 40000), vfKubeConcurrent)
	kit.End()
}
