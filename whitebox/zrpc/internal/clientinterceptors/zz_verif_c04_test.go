package clientinterceptors

// White-box part of the C04 check (DESIGN.md §4 C04): the zRPC client TimeoutInterceptor
// and the WithCallTimeout call option. The package is internal, so this file is compiled
// into it through `go test -overlay`. Helpers are plain functions/closures named vf….
//
// The invoker is harness-owned: it records the context it is run under (deadline, and
// whether a caller-side cancellation reaches it), fills the reply, optionally cancels the
// caller's context or waits for its own context to expire, and returns an error or
// panics. The client interceptor legitimately waits for its invoker, so there is no
// "does not wait" check here.

import (
	"context"
	"errors"
	"fmt"
	"sync/atomic"
	"testing"
	"time"

	kit "github.com/zeromicro/go-zero/internal/verifkit"

	"github.com/zeromicro/go-zero/core/logx"
	"google.golang.org/grpc"
)

type vfPlan struct {
	Default     time.Duration `json:"default_timeout"`
	HasCallOpt  bool          `json:"has_call_option"`
	CallOpt     time.Duration `json:"call_option_timeout,omitempty"`
	OptPos      int           `json:"call_option_position"`
	OtherOpts   int           `json:"other_call_options"`
	ParentAfter time.Duration `json:"parent_deadline_after,omitempty"`
	Mode        string        `json:"mode"` // return | cancel-then-return | wait-ctx | pre-cancelled | grid: cancel-then-wait | pre-cancelled-wait
	Ret         string        `json:"ret"`  // nil | err | panic
	// grid family
	ParentKind  string `json:"parent_kind,omitempty"`
	WorkKind    string `json:"work_kind,omitempty"`
	ParentValue bool   `json:"parent_value,omitempty"`
	PanicAfter  bool   `json:"panic_after_wait,omitempty"` // Ret panic: panic only after the context was seen done
}

// vfCancelSeenPatience: how long an invoker waits for a caller-side cancellation to show up in its
// context (observation only: the statement speaks about deadlines); shortened after the first miss.
var vfCancelMissed atomic.Bool

type vfCtxKey struct{}

func vfEff(pl vfPlan) time.Duration {
	if pl.HasCallOpt {
		return pl.CallOpt
	}
	return pl.Default
}

type vfReply struct{ Tag string }

type vfObs struct {
	calls    int
	t1       time.Time
	seenDl   time.Time
	seenOk   bool
	method   string
	req      any
	reply    any
	nopts    int
	ctxErr   string // after a caller-side cancel inside the invoker
	waited   error  // wait-ctx: ctx.Err() once done
	waitedAt time.Time
	cc       *grpc.ClientConn
	value    bool
	// cancelMissed: the caller's cancellation did not show up in the invoker's context within the watchdog
	cancelMissed bool
}

func vfViol(c *kit.Case, kind, class, what string, w any) {
	c.Viol("C04/zrpc-client/"+kind+"/"+class, what, w)
}

func vfFmtDl(t time.Time, ok bool) string {
	if !ok {
		return "none"
	}
	return t.Format(time.RFC3339Nano)
}

func vfOne(c *kit.Case, pl vfPlan, tag string) string {
	base := context.Background()
	var parentDl time.Time
	hasParentDl := false
	var cancels []context.CancelFunc
	if pl.ParentAfter > 0 {
		parentDl = time.Now().Add(pl.ParentAfter)
		hasParentDl = true
		cx, cf := context.WithDeadline(base, parentDl)
		base = cx
		cancels = append(cancels, cf)
	}
	if pl.ParentValue {
		base = context.WithValue(base, vfCtxKey{}, tag)
	}
	parent, cancel := context.WithCancel(base)
	defer func() {
		cancel()
		for _, cf := range cancels {
			cf()
		}
	}()
	var opts []grpc.CallOption
	for i := 0; i < pl.OtherOpts; i++ {
		opts = append(opts, grpc.WaitForReady(i%2 == 0))
	}
	if pl.HasCallOpt {
		pos := pl.OptPos % (len(opts) + 1)
		opts = append(opts[:pos], append([]grpc.CallOption{WithCallTimeout(pl.CallOpt)}, opts[pos:]...)...)
	}
	var workErr error
	if pl.Ret == "err" {
		workErr = errors.New("verif-err-" + tag)
	}
	var o vfObs
	reply := &vfReply{}
	req := "req-" + tag
	method := "/verif.Svc/" + tag
	cc := new(grpc.ClientConn)
	invoker := func(ctx context.Context, m string, rq, rp any, conn *grpc.ClientConn, os ...grpc.CallOption) error {
		o.calls++
		o.t1 = time.Now()
		o.seenDl, o.seenOk = ctx.Deadline()
		o.method, o.req, o.reply, o.nopts, o.cc = m, rq, rp, len(os), conn
		o.value = ctx.Value(vfCtxKey{}) == any(tag)
		if r, ok := rp.(*vfReply); ok {
			r.Tag = tag
		}
		switch pl.Mode {
		case "cancel-then-return":
			cancel()
			if err := ctx.Err(); err != nil {
				o.ctxErr = err.Error()
			} else {
				o.ctxErr = "nil"
			}
		case "wait-ctx", "cancel-then-wait", "pre-cancelled-wait":
			if pl.Mode == "cancel-then-wait" {
				cancel()
			}
			callerCancelled := pl.Mode == "cancel-then-wait" || pl.Mode == "pre-cancelled-wait"
			if eff := vfEff(pl); !callerCancelled && (!o.seenOk || (eff > 0 && o.seenDl.After(o.t1.Add(eff)))) {
				break // no deadline / a deadline later than configured is reported by the oracle: do not sit it out
			}
			wd := 30 * time.Second
			if callerCancelled {
				wd = 2 * time.Second
				if vfCancelMissed.Load() {
					wd = 10 * time.Millisecond
				}
			}
			t := time.NewTimer(wd)
			select {
			case <-ctx.Done():
				o.waited = ctx.Err()
				o.waitedAt = time.Now()
			case <-t.C:
				if callerCancelled {
					vfCancelMissed.Store(true)
					o.cancelMissed = true
				}
			}
			t.Stop()
			if o.waited != nil && !pl.PanicAfter {
				return o.waited
			}
		}
		if pl.Ret == "panic" {
			panic("verif-panic-" + tag)
		}
		return workErr
	}
	if pl.Mode == "pre-cancelled" || pl.Mode == "pre-cancelled-wait" {
		cancel()
	}
	var got error
	var panicVal any
	panicked := false
	t0 := time.Now()
	func() {
		defer func() {
			if p := recover(); p != nil {
				panicked, panicVal = true, p
			}
		}()
		got = TimeoutInterceptor(pl.Default)(parent, method, req, reply, cc, invoker, opts...)
	}()
	tRet := time.Now()
	eff := vfEff(pl)
	wit := map[string]any{"plan": pl, "effective_timeout": eff.String(), "returned": fmt.Sprint(got), "invoker_error": fmt.Sprint(workErr), "invoker_calls": o.calls,
		"deadline_seen": vfFmtDl(o.seenDl, o.seenOk), "caller_deadline": vfFmtDl(parentDl, hasParentDl), "invoker_started": o.t1.Format(time.RFC3339Nano),
		"panicked": panicked, "panic_value": fmt.Sprint(panicVal), "elapsed": tRet.Sub(t0).String(), "waited_ctx_err": fmt.Sprint(o.waited)}
	cfg := "default"
	if pl.HasCallOpt {
		cfg = "call-option"
	}
	if eff <= 0 {
		cfg += "-nonpositive"
	}
	if o.calls != 1 {
		vfViol(c, "invoker-calls", fmt.Sprintf("%d/%s", o.calls, cfg), "the invoker was not called exactly once", wit)
		return "broken"
	}
	// (1) deadline shrink; per-call option overrides the default; <= 0 leaves the deadline untouched
	c.Obs("zc_deadline_checks", 1)
	if eff > 0 {
		switch {
		case !o.seenOk:
			vfViol(c, "deadline", "none-seen/"+cfg, "the invoker ran under a context without a deadline although a positive timeout applies", wit)
		case hasParentDl && o.seenDl.After(parentDl):
			vfViol(c, "deadline", "later-than-caller/"+cfg, "the invoker saw a deadline later than the caller's", wit)
		case o.seenDl.After(o.t1.Add(eff)):
			vfViol(c, "deadline", "later-than-now+timeout/"+cfg, fmt.Sprintf("the invoker saw a deadline %s after it started, the effective timeout is %s", o.seenDl.Sub(o.t1), eff), wit)
		}
	} else {
		c.Obs("zc_nonpositive_timeout", 1)
		if o.seenOk != hasParentDl || (o.seenOk && !o.seenDl.Equal(parentDl)) {
			vfViol(c, "deadline", "changed-although-timeout<=0/"+cfg, fmt.Sprintf("timeout %s <= 0 must leave the caller's deadline untouched: caller's %s, invoker saw %s", eff, vfFmtDl(parentDl, hasParentDl), vfFmtDl(o.seenDl, o.seenOk)), wit)
		}
	}
	if o.ctxErr == "nil" {
		c.Obs("zc_invoker_ctx_not_cancelled_by_caller_cancel", 1)
	}
	// pass-through of the call
	if o.method != method || o.req != any(req) || o.reply != any(reply) || o.cc != cc || o.nopts != len(opts) {
		vfViol(c, "call-not-passed-through", cfg, "method/req/reply/conn/options seen by the invoker differ from the caller's", wit)
	}
	// (2) the caller observes exactly the invoker's outcome
	outcome := "complete"
	callerCancelled := pl.Mode == "cancel-then-wait" || pl.Mode == "pre-cancelled-wait"
	if o.waited != nil {
		// the invoker's context may only be done once the caller cancelled or a deadline passed
		earliest := t0.Add(eff)
		if hasParentDl && (eff <= 0 || parentDl.Before(earliest)) {
			earliest = parentDl
		}
		c.Obs("zc_context_done_observed", 1)
		switch {
		case callerCancelled:
			if !errors.Is(o.waited, context.Canceled) && !(errors.Is(o.waited, context.DeadlineExceeded) && (eff > 0 || hasParentDl) && !o.waitedAt.Before(earliest)) {
				vfViol(c, "timeout-result", "not-canceled/"+cfg, "the caller cancelled (no deadline had passed), yet the context error is not Canceled", wit)
			}
		default:
			if (eff > 0 || hasParentDl) && o.waitedAt.Before(earliest) {
				vfViol(c, "timeout-result-without-expiry", cfg, fmt.Sprintf("the invoker's context was done after %s, before any deadline could have passed (effective timeout %s)", o.waitedAt.Sub(t0), eff), wit)
			}
			if !errors.Is(o.waited, context.DeadlineExceeded) {
				vfViol(c, "timeout-result", "not-deadline-exceeded/"+cfg, "nobody cancelled, yet the context error is not DeadlineExceeded", wit)
			}
		}
	}
	switch {
	case pl.Ret == "panic" && (o.waited == nil || pl.PanicAfter):
		outcome = "panic"
		if !panicked {
			vfViol(c, "panic", "lost/"+cfg, "the invoker's panic did not reach the caller", wit)
		} else if s, ok := panicVal.(string); !ok || s != "verif-panic-"+tag {
			vfViol(c, "panic", "value-lost/"+cfg, "the invoker's panic value was changed", wit)
		}
	case panicked:
		vfViol(c, "panic", "unexpected/"+cfg, "the interceptor panicked although the invoker did not", wit)
	case o.waited != nil:
		outcome = "timeout"
		if got != o.waited {
			vfViol(c, "mixture", "context-error-not-returned/"+cfg, "the invoker returned its context's error, the caller got something else", wit)
		}
	default:
		if got != workErr {
			vfViol(c, "mixture", "error-changed/"+cfg, fmt.Sprintf("the invoker returned %v, the caller got %v", workErr, got), wit)
		}
		if reply.Tag != tag {
			vfViol(c, "mixture", "reply-lost/"+cfg, "the reply filled by the invoker did not reach the caller", wit)
		}
	}
	c.Obs("zc_outcome_"+outcome, 1)
	if pl.ParentValue && o.value {
		c.Obs("zc_caller_value_visible_to_invoker", 1)
	}
	if o.cancelMissed {
		c.Obs("zc_caller_cancel_not_seen_by_invoker", 1)
	}
	return outcome
}

func vfCase(c *kit.Case) {
	r := c.R
	n := 60
	for i := 0; i < n; i++ {
		durs := []time.Duration{0, -time.Second, -1, time.Hour, 2 * time.Hour, 30 * time.Minute}
		pl := vfPlan{Default: kit.Choose(r, durs), HasCallOpt: r.Chance(0.5), CallOpt: kit.Choose(r, durs), OptPos: r.Intn(4), OtherOpts: r.Intn(4),
			ParentAfter: kit.Choose(r, []time.Duration{0, 0, 20 * time.Minute, 45 * time.Minute, 4 * time.Hour}),
			Mode:        kit.Choose(r, []string{"return", "return", "cancel-then-return", "pre-cancelled"}),
			Ret:         kit.Choose(r, []string{"nil", "err", "err", "panic"})}
		out := vfOne(c, pl, fmt.Sprintf("k%d-%d", c.Index, i))
		nontrivial := pl.HasCallOpt && (pl.CallOpt > 0) != (pl.Default > 0) || (pl.ParentAfter > 0 && vfEff(pl) > pl.ParentAfter)
		c.Sig(nontrivial, "zrpc-client", pl.Default, pl.HasCallOpt, pl.CallOpt, pl.OptPos%(pl.OtherOpts+1), pl.OtherOpts, pl.ParentAfter, pl.Mode, pl.Ret, out)
		if nontrivial {
			c.Sample("zrpc-client", 1, map[string]any{"plan": pl, "outcome": out})
		}
	}
	c.Evals(int64(n))
}

func vfTimerCase(c *kit.Case) {
	r := c.R
	n := 6
	for i := 0; i < n; i++ {
		timeout := time.Duration(1000+r.Intn(9000)) * time.Microsecond
		pl := vfPlan{Mode: "wait-ctx", Ret: "nil", OtherOpts: r.Intn(3), OptPos: r.Intn(3)}
		switch r.Intn(3) {
		case 0:
			pl.Default = timeout
		case 1:
			pl.Default, pl.HasCallOpt, pl.CallOpt = time.Hour, true, timeout
		case 2:
			pl.Default, pl.HasCallOpt, pl.CallOpt = time.Microsecond, true, timeout // the longer per-call value must win
		}
		if r.Chance(0.3) {
			pl.ParentAfter = timeout/2 + time.Microsecond
		}
		out := vfOne(c, pl, fmt.Sprintf("kt%d-%d", c.Index, i))
		c.Sig(true, "zrpc-client-timer", pl.HasCallOpt, pl.Default > pl.CallOpt, pl.ParentAfter > 0, timeout/(500*time.Microsecond), out)
	}
	c.Evals(int64(n))
}

// vfGridCase: caller's context ∈ {no deadline, real deadline earlier than now+timeout, deadline (1 h) later
// than a real short timeout, already cancelled, cancelled during the call, value-carrying} × invoker ∈
// {returns at once, honours its context (returns its error once it is done), panics before / after the
// expiry}; the timeout comes from the default or from the per-call option. (An invoker that ignores its
// context has no row: the client interceptor legitimately waits for its invoker.)
func vfGridCase(c *kit.Case) {
	r := c.R
	n := 0
	for _, pk := range []string{"none", "earlier", "later", "cancelled-before", "cancelled-during", "value"} {
		for _, wk := range []string{"fast", "honours", "panic-before", "panic-after"} {
			short := time.Duration(1000+r.Intn(5000)) * time.Microsecond
			far := time.Hour
			pl := vfPlan{ParentKind: pk, WorkKind: wk, OtherOpts: r.Intn(3), OptPos: r.Intn(3), Ret: kit.Choose(r, []string{"nil", "err"})}
			base := pk
			if pk == "value" {
				pl.ParentValue = true
				base = kit.Choose(r, []string{"none", "earlier", "later", "later", "cancelled-during"})
			}
			var eff time.Duration
			switch base {
			case "none":
				eff = short
			case "earlier":
				eff, pl.ParentAfter = kit.Choose(r, []time.Duration{far, 3 * short, 0, -time.Second}), short
			case "later":
				eff, pl.ParentAfter = short, far
			case "cancelled-before", "cancelled-during":
				eff = kit.Choose(r, []time.Duration{far, far, 0})
				if r.Bool() {
					pl.ParentAfter = kit.Choose(r, []time.Duration{far / 2, 2 * far})
				}
			}
			switch r.Intn(3) {
			case 0:
				pl.Default = eff
			case 1:
				pl.Default, pl.HasCallOpt, pl.CallOpt = 2*far, true, eff
			default:
				pl.Default, pl.HasCallOpt, pl.CallOpt = time.Microsecond, true, eff
			}
			switch base {
			case "cancelled-before":
				pl.Mode = map[string]string{"fast": "pre-cancelled", "honours": "pre-cancelled-wait", "panic-before": "pre-cancelled", "panic-after": "pre-cancelled-wait"}[wk]
			case "cancelled-during":
				pl.Mode = map[string]string{"fast": "cancel-then-return", "honours": "cancel-then-wait", "panic-before": "return", "panic-after": "cancel-then-wait"}[wk]
			default:
				pl.Mode = map[string]string{"fast": "return", "honours": "wait-ctx", "panic-before": "return", "panic-after": "wait-ctx"}[wk]
			}
			if wk == "panic-before" {
				pl.Ret = "panic"
			}
			if wk == "panic-after" {
				// the invoker sees its context done and panics instead of returning the context's error
				pl.Ret, pl.PanicAfter = "panic", true
			}
			out := vfOne(c, pl, fmt.Sprintf("kg%d-%d", c.Index, n))
			n++
			c.Obs("zcg_cells", 1)
			c.Obs("zcg_"+pk+"_"+out, 1)
			c.Sig(true, "zrpc-client-grid", pk, wk, pl.Mode, pl.Ret, pl.HasCallOpt, pl.Default > pl.CallOpt, pl.ParentAfter > 0, vfEff(pl) > 0, pl.ParentAfter > vfEff(pl), out)
		}
	}
	c.Evals(int64(n))
}

func TestVerifC04C(t *testing.T) {
	logx.Disable()
	kit.Run(t, "C04", "zrpc-client", kit.N(3000, 40000), vfCase)
	kit.Run(t, "C04", "zrpc-client-timer", kit.N(300, 5000), vfTimerCase)
	kit.Run(t, "C04", "zrpc-client-grid", kit.N(400, 5000), vfGridCase)
	kit.End()
}
