package clientinterceptors

// C01 (DESIGN.md §4 C01), integration site zrpc client: BreakerInterceptor. The package is
// internal, so this file is compiled into it through `go test -overlay`.
//
// The interceptor is driven with scripted invoker outcomes under the virtual clock; the same
// admission model as harness/c01 (a private copy, helpers prefixed vf) is stepped per call with
// the classification the site documents (zrpc/internal/codes.Acceptable): the gRPC status codes
// DeadlineExceeded, Internal, Unavailable, DataLoss, Unimplemented, ResourceExhausted are
// failures, every other code, every error that carries no status and nil are successes, a panic
// is a failure. Checked per call:
//
//	(1) a rejection only in a window state where the statement allows it (non-accepted >
//	    5 + 10 % of accepted), never for a must-admit call (more than 1 s after the latest
//	    admission that can have been throttled, once a surely-throttled admission exists);
//	(2) admitted => the invoker ran exactly once and its error (identity) / its panic value come
//	    back unchanged; rejected => the invoker did not run and breaker.ErrServiceUnavailable
//	    comes back; done context => either nothing ran and the context's error came back (nothing
//	    is recorded), or the call obeys the admitted/rejected rules;
//	(3) through the model: a success class counted as failure makes the breaker reject where the
//	    model says it may not (families zrpc-client, zrpc-client-flood: one success class only);
//	    a failure class counted as success shows as missing effectiveness (family
//	    zrpc-client-effect: after a 60-call warm-up at least 80 % of 1000 calls that all fail
//	    with ONE failure class must be rejected);
//	(4) one breaker per cc.Target()+method: every (target, method) pair has its own model.

import (
	"context"
	"errors"
	"fmt"
	"sync/atomic"
	"testing"
	"time"

	kit "github.com/zeromicro/go-zero/internal/verifkit"

	"github.com/zeromicro/go-zero/core/breaker"
	"github.com/zeromicro/go-zero/core/logx"
	"google.golang.org/grpc"
	"google.golang.org/grpc/codes"
	"google.golang.org/grpc/credentials/insecure"
	"google.golang.org/grpc/status"
)

const (
	vfBucketDur = 250 * time.Millisecond
	vfNBuckets  = 40
	vfForcePass = time.Second
)

// ------------------------------------------------------------------ admission model (copy of harness/c01)

type vfModel struct {
	t0       time.Duration
	bk       map[int64]*[3]int64 // bucket index -> accepted, failed, rejected
	sureSeen bool
	lastPoss time.Duration
}

func vfNewModel(t0 time.Duration) *vfModel { return &vfModel{t0: t0, bk: map[int64]*[3]int64{}} }

func (m *vfModel) idx(t time.Duration) int64 { return int64((t - m.t0) / vfBucketDur) }

func (m *vfModel) mark(kind int, t time.Duration) {
	i := m.idx(t)
	b := m.bk[i]
	if b == nil {
		b = new([3]int64)
		m.bk[i] = b
	}
	b[kind]++
}

type vfPre struct {
	t     time.Duration
	A, N  int64
	legal bool // rejection allowed by the statement: N > 5 + 10% of A
	sure  bool // total-5-1.5*A > 0
	must  bool
}

func (m *vfModel) pre(t time.Duration) vfPre {
	c := m.idx(t)
	p := vfPre{t: t}
	for i := c - vfNBuckets + 1; i <= c; i++ {
		if b := m.bk[i]; b != nil {
			p.A += b[0]
			p.N += b[1] + b[2]
		}
	}
	p.legal = 10*p.N > 50+p.A
	p.sure = 2*p.N-10 > p.A
	p.must = m.sureSeen && t-m.lastPoss > vfForcePass
	return p
}

func (p vfPre) illegalKey() string {
	if p.N <= 5 {
		return "nonaccepted<=5"
	}
	return "nonaccepted<=5+10%accepted"
}

func (m *vfModel) admitted(p vfPre) {
	if p.sure {
		m.sureSeen = true
	}
	if p.legal {
		m.lastPoss = p.t
	}
}

// ------------------------------------------------------------------ scripted outcomes

// vfStatusErr is an error of a foreign type that carries a gRPC status (what go-zero's own
// breakerinterceptor_test uses); comparable, so identity can be checked with ==.
type vfStatusErr struct {
	st *status.Status
	id int64
}

func (e *vfStatusErr) GRPCStatus() *status.Status { return e.st }
func (e *vfStatusErr) Error() string              { return fmt.Sprintf("verif status error #%d", e.id) }

type vfPanicTok struct{ id int64 }

type vfOutcome struct {
	name  string
	fail  bool // how the site documents an ADMITTED call with this outcome is recorded
	panic bool
	mk    func(id int64) error
	// error-value shapes (zz_verif_c01_shapesites_test.go): the key a misclassification is reported
	// under (C01/zrpc-client/misclassified/status-<Code>/<shape class>), the reference classification
	// in words, and the shape class
	key, ref, class string
}

var vfErrSeq atomic.Int64

func vfStatusOutcome(c codes.Code, fail bool) vfOutcome {
	return vfOutcome{name: "status-" + c.String(), fail: fail, mk: func(id int64) error {
		return status.Error(c, fmt.Sprintf("verif scripted #%d", id))
	}}
}

var vfFailCodes = []codes.Code{codes.DeadlineExceeded, codes.Internal, codes.Unavailable, codes.DataLoss,
	codes.Unimplemented, codes.ResourceExhausted}

var vfOkCodes = []codes.Code{codes.Canceled, codes.Unknown, codes.InvalidArgument, codes.NotFound, codes.AlreadyExists,
	codes.PermissionDenied, codes.FailedPrecondition, codes.Aborted, codes.OutOfRange, codes.Unauthenticated}

var vfFailOuts, vfOkOuts []vfOutcome

func init() {
	for _, c := range vfFailCodes {
		vfFailOuts = append(vfFailOuts, vfStatusOutcome(c, true))
	}
	vfFailOuts = append(vfFailOuts,
		vfOutcome{name: "foreign-error-with-status-Internal", fail: true, mk: func(id int64) error {
			return &vfStatusErr{st: status.New(codes.Internal, "verif"), id: id}
		}},
		vfOutcome{name: "panic", fail: true, panic: true},
		// a status error wrapped with %w: grpc's status.Code looks through the wrapping, and so does the
		// site's predicate on the unchanged tree (a handler returning fmt.Errorf("...: %w", st) is ordinary Go)
		vfOutcome{name: "wrapped-status-Unavailable", fail: true, mk: func(id int64) error {
			return fmt.Errorf("verif wrapped #%d: %w", id, status.Error(codes.Unavailable, "verif"))
		}},
		vfOutcome{name: "wrapped-status-Internal", fail: true, mk: func(id int64) error {
			return fmt.Errorf("verif wrapped #%d: %w", id, status.Error(codes.Internal, "verif"))
		}},
	)
	vfOkOuts = append(vfOkOuts, vfOutcome{name: "nil", mk: func(int64) error { return nil }})
	for _, c := range vfOkCodes {
		vfOkOuts = append(vfOkOuts, vfStatusOutcome(c, false))
	}
	vfOkOuts = append(vfOkOuts,
		vfOutcome{name: "plain-error", mk: func(id int64) error { return fmt.Errorf("verif plain error #%d", id) }},
		vfOutcome{name: "context.Canceled", mk: func(int64) error { return context.Canceled }},
		vfOutcome{name: "context.DeadlineExceeded-without-status", mk: func(int64) error { return context.DeadlineExceeded }},
		vfOutcome{name: "breaker.ErrServiceUnavailable-from-invoker", mk: func(int64) error { return breaker.ErrServiceUnavailable }},
		vfOutcome{name: "foreign-error-with-status-NotFound", mk: func(id int64) error {
			return &vfStatusErr{st: status.New(codes.NotFound, "verif"), id: id}
		}},
		vfOutcome{name: "wrapped-status-NotFound", mk: func(id int64) error {
			return fmt.Errorf("verif wrapped #%d: %w", id, status.Error(codes.NotFound, "verif"))
		}},
	)
}

// ------------------------------------------------------------------ sites and calls

type vfSite struct {
	label  string
	cc     *grpc.ClientConn
	method string
	m      *vfModel // created at the first call: the named breaker is created lazily
}

type vfHist struct {
	c     *kit.Case
	vc    *kit.VClock
	kind  string
	sites []*vfSite
	union *vfModel // all marks of all sites (only used to label a violation as window sharing)
	log   []string
	calls int64
	rej   int64
	legal int64
	must  int64
	sig   []any
	// relabel: when set (shape floods), the key of every illegal rejection
	relabel string
}

const (
	vfCtxNone = iota // context.Background()
	vfCtxLive
	vfCtxCancelled
	vfCtxExpired
)

var vfCtxNames = []string{"background", "live", "cancelled", "expired"}

const (
	vfAdmitted = iota
	vfRejected
	vfNothing
	vfBroken
)

func (h *vfHist) witness(detail string) map[string]any {
	var sites []string
	for _, s := range h.sites {
		sites = append(sites, fmt.Sprintf("%s: target=%q method=%q", s.label, s.cc.Target(), s.method))
	}
	return map[string]any{"family": h.kind, "sites": sites, "bucket": vfBucketDur.String(),
		"history (gap before call, site, context, invoker outcome -> decision [window of the site before the call])": h.log,
		"detail": detail}
}

var vfMethodSeq atomic.Int64

// step makes one call through BreakerInterceptor on the given site and judges it.
func (h *vfHist) step(si int, gap time.Duration, out vfOutcome, ctxMode int, lat time.Duration) int {
	c, vc := h.c, h.vc
	s := h.sites[si]
	vc.Advance(gap)
	t := vc.Now()
	if s.m == nil {
		s.m = vfNewModel(t)
	}
	if h.union == nil {
		h.union = vfNewModel(t)
	}
	p := s.m.pre(t)
	id := vfErrSeq.Add(1)
	var want error
	if !out.panic {
		want = out.mk(id)
	}
	tok := &vfPanicTok{id}
	req, reply := &struct{ id int64 }{id}, &struct{ id int64 }{}
	runs := 0
	argsOK := true
	tMark := t
	var ctx context.Context
	cancel := func() {}
	switch ctxMode {
	case vfCtxNone:
		ctx = context.Background()
	case vfCtxLive:
		ctx, cancel = context.WithCancel(context.Background())
	case vfCtxCancelled:
		ctx, cancel = context.WithCancel(context.Background())
		cancel()
	default:
		ctx, cancel = context.WithDeadline(context.Background(), time.Now().Add(-time.Hour))
	}
	defer cancel()
	invoker := func(ictx context.Context, method string, rq, rp any, cc *grpc.ClientConn, opts ...grpc.CallOption) error {
		runs++
		if method != s.method || rq != any(req) || rp != any(reply) || cc != s.cc {
			argsOK = false
		}
		if lat > 0 {
			vc.Advance(lat)
		}
		tMark = vc.Now()
		if out.panic {
			panic(tok)
		}
		return want
	}
	var ret error
	var panicked bool
	var panicVal any
	func() {
		defer func() {
			if v := recover(); v != nil {
				panicked, panicVal = true, v
			}
		}()
		ret = BreakerInterceptor(ctx, s.method, req, reply, s.cc, invoker)
	}()

	desc := fmt.Sprintf("+%v %s ctx=%s invoker:%s", gap, s.label, vfCtxNames[ctxMode], out.name)
	if lat > 0 {
		desc += fmt.Sprintf(" lat=%v", lat)
	}
	viol := func(kind, what string) {
		h.log = append(h.log, desc+" -> BROKEN")
		c.Viol("C01/exactly-once/zrpc-client/"+kind, what, h.witness(what))
	}
	done := ctxMode == vfCtxCancelled || ctxMode == vfCtxExpired
	v := vfBroken
	switch {
	case done && runs == 0 && !panicked && ret != nil &&
		(errors.Is(ret, context.Canceled) || errors.Is(ret, context.DeadlineExceeded)):
		v = vfNothing
	case runs > 1:
		viol("invoker-ran-more-than-once", fmt.Sprintf("the invoker ran %d times for one call", runs))
	case runs == 1 && !argsOK:
		viol("invoker-arguments-changed", "the invoker did not receive the caller's method/req/reply/cc")
	case runs == 1 && out.panic:
		switch {
		case !panicked:
			viol("panic-swallowed", fmt.Sprintf("the invoker panicked but the call returned %v", ret))
		case panicVal != any(tok):
			viol("panic-changed", fmt.Sprintf("the invoker panicked with %p, the caller recovered %v", tok, panicVal))
		default:
			v = vfAdmitted
		}
	case runs == 1:
		switch {
		case panicked:
			viol("unexpected-panic", fmt.Sprintf("the call panicked with %v although the invoker returned normally", panicVal))
		case ret != want:
			viol("error-changed", fmt.Sprintf("the invoker returned %v, the call returned %v", want, ret))
		default:
			v = vfAdmitted
		}
	case panicked:
		viol("unexpected-panic", fmt.Sprintf("the call panicked with %v without running the invoker", panicVal))
	case !errors.Is(ret, breaker.ErrServiceUnavailable):
		if done {
			viol("done-ctx-wrong-error", fmt.Sprintf("done context: nothing ran and the call returned %v", ret))
		} else {
			viol("rejected-wrong-error", fmt.Sprintf("the invoker did not run and the call returned %v, not ErrServiceUnavailable", ret))
		}
	default:
		v = vfRejected
	}

	h.calls++
	c.Obs("zrpc_client_calls", 1)
	if p.legal {
		h.legal++
	}
	if p.must {
		h.must++
		c.Obs("zrpc_client_must_admit_situations", 1)
	}
	switch v {
	case vfAdmitted:
		h.log = append(h.log, fmt.Sprintf("%s -> admitted [A=%d N=%d]", desc, p.A, p.N))
		s.m.admitted(p)
		kindIdx := 0
		if out.fail {
			kindIdx = 1
		}
		s.m.mark(kindIdx, tMark)
		h.union.mark(kindIdx, tMark)
		c.Obs("zrpc_client_admitted", 1)
		if out.panic {
			c.Obs("zrpc_client_panics_reraised", 1)
		}
	case vfRejected:
		h.log = append(h.log, fmt.Sprintf("%s -> rejected [A=%d N=%d]", desc, p.A, p.N))
		h.rej++
		c.Obs("zrpc_client_rejected", 1)
		if !p.legal {
			up := h.union.pre(t)
			if up.legal && len(h.sites) > 1 {
				c.Viol("C01/identity/zrpc-client/window-shared-across-"+s.label,
					fmt.Sprintf("call on %s rejected although the window of that target+method holds accepted=%d, non-accepted=%d; only together with the calls on the other target/method (accepted=%d, non-accepted=%d) would a rejection be allowed", s.label, p.A, p.N, up.A, up.N),
					h.witness("one breaker per cc.Target()+method"))
			} else if h.relabel != "" {
				c.Viol(h.relabel,
					fmt.Sprintf("BreakerInterceptor rejected a call although the window holds accepted=%d, non-accepted=%d: invoker outcomes of this shape are recorded as failures", p.A, p.N),
					h.witness(fmt.Sprintf("accepted=%d nonaccepted=%d at the rejected (last) call", p.A, p.N)))
			} else {
				c.Viol("C01/illegal-reject/zrpc-client/"+p.illegalKey(),
					fmt.Sprintf("BreakerInterceptor rejected a call although the window holds accepted=%d, non-accepted=%d: %d does not exceed 5 + 10%% of %d", p.A, p.N, p.N, p.A),
					h.witness(fmt.Sprintf("accepted=%d nonaccepted=%d at the rejected (last) call", p.A, p.N)))
			}
		}
		if p.must {
			c.Viol("C01/must-admit-rejected/zrpc-client",
				fmt.Sprintf("BreakerInterceptor rejected a call %v after the latest admission that can have been throttled", t-s.m.lastPoss),
				h.witness(fmt.Sprintf("since_last_throttled_admission=%v", t-s.m.lastPoss)))
		}
		s.m.mark(2, t)
		h.union.mark(2, t)
	case vfNothing:
		h.log = append(h.log, desc+" -> context error, nothing ran")
		c.Obs("zrpc_client_done_ctx_short_circuit", 1)
	}
	h.sig = append(h.sig, si, out.name, ctxMode, int64(gap), int64(lat), v)
	return v
}

func (h *vfHist) finish() {
	c := h.c
	c.Obs("zrpc_client_histories", 1)
	if h.legal > 0 {
		c.Obs("zrpc_client_histories_reaching_legal_rejection", 1)
	}
	c.Sig(h.legal > 0, append([]any{h.kind}, h.sig...)...)
	if h.legal > 0 && h.rej > 0 {
		n := len(h.log)
		if n > 40 {
			n = 40
		}
		c.Sample(h.kind, 1, map[string]any{"calls": h.calls, "rejections": h.rej, "calls_in_legal_state": h.legal,
			"must_admit": h.must, "first_calls": h.log[:n]})
	}
}

var vfConns [2]*grpc.ClientConn

// vfNewHist picks fresh method names (named breakers are process-global) on the two shared
// lazily dialled connections: site 0 = (target A, m1), 1 = (target A, m2), 2 = (target B, m1).
func vfNewHist(c *kit.Case, vc *kit.VClock, kind string, nSites int) *vfHist {
	vc.Set(kit.VClockStart + time.Duration(c.R.Int63n(int64(3*time.Second))))
	n := vfMethodSeq.Add(1)
	m1 := fmt.Sprintf("/verif.C01.s%d/%s-%d/M1", kit.GetEnv().Seed, kit.KeyPart(c.ID), n)
	m2 := fmt.Sprintf("/verif.C01.s%d/%s-%d/M2", kit.GetEnv().Seed, kit.KeyPart(c.ID), n)
	all := []*vfSite{
		{label: "targetA+method1", cc: vfConns[0], method: m1},
		{label: "targetA+method2", cc: vfConns[0], method: m2},
		{label: "targetB+method1", cc: vfConns[1], method: m1},
	}
	return &vfHist{c: c, vc: vc, kind: kind, sites: all[:nSites]}
}

var vfGapSet = []time.Duration{0, 1, vfBucketDur - 1, vfBucketDur, vfBucketDur + 1, time.Second, time.Second + 1,
	2500 * time.Millisecond, 10*time.Second - 1, 10 * time.Second, 10*time.Second + 1, 25 * time.Second}

func vfGap(r *kit.Rand, mode int, steady time.Duration) time.Duration {
	if mode == 4 {
		mode = r.Intn(4)
	}
	switch mode {
	case 0:
		return kit.Choose(r, []time.Duration{0, 0, 0, 1, 1000, time.Millisecond})
	case 1:
		return steady
	case 2:
		return vfGapSet[r.Pick(10, 6, 12, 12, 12, 10, 10, 8, 6, 6, 6, 2)]
	}
	return kit.Choose(r, []time.Duration{time.Second - 1, time.Second, time.Second + 1, 1100 * time.Millisecond, 2500 * time.Millisecond, 5 * time.Second})
}

// vfRandom: random history over 1-3 sites; site 0 carries most of the (mostly failing) traffic,
// the others see mostly successes, so that a shared window shows as a rejection on a healthy site.
func vfRandom(c *kit.Case, vc *kit.VClock) {
	r := c.R
	nSites := r.Pick(40, 30, 30) + 1
	h := vfNewHist(c, vc, "zrpc-client", nSites)
	L := r.Range(20, 220)
	pFail := kit.Choose(r, []float64{0.3, 0.6, 0.9, 1})
	pPanic := kit.Choose(r, []float64{0, 0.1, 0.4})
	pCtx := kit.Choose(r, []float64{0, 0.3, 1})
	pDone := kit.Choose(r, []float64{0, 0.05, 0.2})
	pLat := kit.Choose(r, []float64{0, 0.1})
	pShape := kit.Choose(r, []float64{0, 0.3, 0.6})
	gapMode := r.Pick(30, 25, 25, 8, 12)
	steady := time.Duration(r.Range(1, 120)) * time.Millisecond
	for i := 0; i < L && !c.Violated(); i++ {
		si := 0
		if nSites > 1 && r.Chance(0.3) {
			si = 1 + r.Intn(nSites-1)
		}
		pf := pFail
		if si > 0 {
			pf = 0.03
		}
		var out vfOutcome
		if r.Chance(pf) {
			out = vfFailOuts[r.Intn(len(vfFailOuts)-1)]
			if r.Chance(pPanic) {
				out = vfFailOuts[len(vfFailOuts)-1]
			} else if r.Chance(pShape) { // a failing status in one of the errors.As shapes
				out = kit.Choose(r, vfStFailOuts)
			}
		} else {
			out = kit.Choose(r, vfOkOuts)
			if r.Chance(0.4) {
				out = vfOkOuts[0]
			} else if r.Chance(pShape) { // negative controls, non-failing statuses in the same shapes
				out = kit.Choose(r, vfStOkOuts)
			}
		}
		if out.key != "" {
			c.Obs("zrpc_client_shape_calls_in_random_histories", 1)
		}
		ctxMode := vfCtxNone
		if r.Chance(pCtx) {
			ctxMode = vfCtxLive
			if r.Chance(pDone) {
				ctxMode = vfCtxCancelled + r.Intn(2)
			}
		}
		gap := vfGap(r, gapMode, steady)
		if m := h.sites[si].m; m != nil && m.sureSeen && r.Chance(0.08) {
			target := m.lastPoss + vfForcePass + kit.Choose(r, []time.Duration{-1, 0, 1, time.Millisecond})
			if d := target - vc.Now(); d >= 0 {
				gap = d
			}
		}
		var lat time.Duration
		if r.Chance(pLat) {
			lat = kit.Choose(r, []time.Duration{1, vfBucketDur, time.Second + 1})
		}
		h.step(si, gap, out, ctxMode, lat)
	}
	if nSites > 1 {
		c.Obs("zrpc_client_multi_site_histories", 1)
	}
	h.finish()
}

// vfEffect: every call fails with ONE failure class; after the warm-up the overwhelming majority
// must be rejected (a class that is recorded as success would never open the breaker).
func vfEffect(c *kit.Case, vc *kit.VClock) {
	out := vfFailOuts[c.Index%len(vfFailOuts)]
	h := vfNewHist(c, vc, "zrpc-client-effect", 1)
	rej := 0
	const warm, n = 60, 1000
	for i := 0; i < warm+n && !c.Violated(); i++ {
		ctxMode := vfCtxNone
		if c.R.Chance(0.3) {
			ctxMode = vfCtxLive
		}
		if h.step(0, 10*time.Millisecond, out, ctxMode, 0) == vfRejected && i >= warm {
			rej++
		}
	}
	c.Obs("zrpc_client_effectiveness_runs", 1)
	c.Obs("zrpc_client_effectiveness_rejected", int64(rej))
	if !c.Violated() && rej*100 < n*80 {
		c.Viol("C01/effectiveness/zrpc-client/"+out.name,
			fmt.Sprintf("after a 60-call warm-up, %d consecutive calls whose invoker fails with %s at 100 per virtual second: only %d rejected", n, out.name, rej),
			map[string]any{"calls": n, "rejected": rej, "failure_class": out.name, "statistical": true, "first_calls": h.log[:80]})
	}
	c.Sample("zrpc-client-effect", 1, map[string]any{"failure_class": out.name, "failing_calls": n, "rejected": rej})
	h.finish()
}

// vfFlood: every call ends with ONE success class (a few genuine failures first, fewer than the
// statement's floor of 5): no call may ever be rejected.
func vfFlood(c *kit.Case, vc *kit.VClock) {
	r := c.R
	out := vfOkOuts[c.Index%len(vfOkOuts)]
	h := vfNewHist(c, vc, "zrpc-client-flood", 1)
	pre := r.Intn(6) // 0..5 real failures: still never more than 5 non-accepted
	for i := 0; i < pre && !c.Violated(); i++ {
		h.step(0, time.Millisecond, vfFailOuts[r.Intn(len(vfFailOuts))], vfCtxNone, 0)
	}
	n := r.Range(80, 200)
	gap := kit.Choose(r, []time.Duration{0, time.Millisecond, 10 * time.Millisecond, 60 * time.Millisecond})
	for i := 0; i < n && !c.Violated(); i++ {
		h.step(0, gap, out, r.Intn(2), 0)
	}
	c.Obs("zrpc_client_success_class_floods", 1)
	c.Sig(true, "zrpc-client-flood", out.name, pre, n, int64(gap), h.rej)
	h.finish()
}

func TestVerifC01ZC(t *testing.T) {
	logx.Disable()
	vc := kit.InstallVClock()
	defer kit.UninstallVClock()
	for i, tgt := range []string{"passthrough:///verif-c01-target-a", "passthrough:///verif-c01-target-b"} {
		cc, err := grpc.NewClient(tgt, grpc.WithTransportCredentials(insecure.NewCredentials()))
		if err != nil {
			t.Fatalf("grpc.NewClient(%q): %v", tgt, err)
		}
		defer cc.Close()
		vfConns[i] = cc
	}
	if vfConns[0].Target() == vfConns[1].Target() {
		t.Fatalf("the two connections report the same target %q", vfConns[0].Target())
	}

	kit.Run(t, "C01", "zrpc-client", kit.N(600, 8000), func(c *kit.Case) { vfRandom(c, vc) })
	kit.Run(t, "C01", "zrpc-client-effect", kit.N(2*len(vfFailOuts), 20*len(vfFailOuts)), func(c *kit.Case) { vfEffect(c, vc) })
	kit.Run(t, "C01", "zrpc-client-flood", kit.N(2*len(vfOkOuts), 20*len(vfOkOuts)), func(c *kit.Case) { vfFlood(c, vc) })

	// shapes of status errors (zz_verif_c01_shapesites_test.go): codes.Acceptable classifies by
	// status.Code(err), i.e. by the status found with errors.As semantics
	if err := vfStSelfCheck(); err != nil {
		t.Fatalf("zrpc client status shapes: %v", err)
	}
	kit.Run(t, "C01", "zrpc-client-shape-effect", kit.N(2*len(vfStFailOuts), 20*len(vfStFailOuts)), func(c *kit.Case) { vfShapeEffect(c, vc) })
	kit.Run(t, "C01", "zrpc-client-shape-flood", kit.N(2*len(vfStOkOuts), 20*len(vfStOkOuts)), func(c *kit.Case) { vfShapeFlood(c, vc) })
	kit.End()
}
