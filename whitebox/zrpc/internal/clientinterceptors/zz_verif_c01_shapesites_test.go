package clientinterceptors

// C01, error-value shapes at the zrpc client BreakerInterceptor.
//
// The site's predicate is zrpc/internal/codes.Acceptable: it names no sentinel errors, it
// classifies by status.Code(err) - the gRPC status found with errors.As semantics (the error
// itself, or the first error with a GRPCStatus method in its Unwrap tree; Unknown if there is
// none). For two failing and two non-failing status codes the invoker returns the status error in
// every shape through which errors.As still finds it (two levels of %w, errors.Join in both
// orders, several %w, a foreign Unwrap() []error type, a foreign GRPCStatus method inside an
// OpError-like wrapper, the statuses grpc itself derives from context errors) and negative
// controls (same text without a status, a GRPCStatus method that returns nil). Failing shapes get
// one all-failing effectiveness run each, non-failing ones one never-rejected flood each. A
// misclassified shape is reported as C01/zrpc-client/misclassified/status-<Code>/<shape class>.

import (
	"context"
	"errors"
	"fmt"
	"time"

	kit "github.com/zeromicro/go-zero/internal/verifkit"

	"google.golang.org/grpc/codes"
	"google.golang.org/grpc/status"
)

const (
	vfShapeWarmN   = 60
	vfShapeN = 400 // >= 80 % of these must be rejected; see harness/c01/c01_shapes_sites_test.go for the bound
)

// vfStOpErr wraps ONE error the way *net.OpError does.
type vfStOpErr struct {
	op  string
	err error
}

func (e *vfStOpErr) Error() string { return e.op + ": " + e.err.Error() }
func (e *vfStOpErr) Unwrap() error { return e.err }

// vfStMultiErr carries several errors (Unwrap() []error), like errors.Join but of a foreign type.
type vfStMultiErr struct {
	errs []error
	id   int64
}

func (e *vfStMultiErr) Error() string   { return fmt.Sprintf("verif: multi error #%d %v", e.id, e.errs) }
func (e *vfStMultiErr) Unwrap() []error { return e.errs }

// vfStNilStatusErr has the GRPCStatus method but carries no status.
type vfStNilStatusErr struct{ id int64 }

func (e *vfStNilStatusErr) GRPCStatus() *status.Status { return nil }
func (e *vfStNilStatusErr) Error() string {
	return fmt.Sprintf("verif error #%d whose GRPCStatus method returns nil", e.id)
}

func vfStOther(id int64) error { return fmt.Errorf("verif: unrelated error #%d", id) }

type vfStShape struct {
	name, class string
	carries     bool // status.Code(mk(st)) == the code of st (else codes.Unknown)
	mk          func(st error, id int64) error
}

var vfStShapes = []vfStShape{
	{name: "wrapped-%w-twice", class: "wrapped", carries: true, mk: func(st error, id int64) error {
		return fmt.Errorf("verif outer #%d: %w", id, fmt.Errorf("verif inner: %w", st))
	}},
	{name: "errors.Join(other,status)", class: "multi", carries: true, mk: func(st error, id int64) error {
		return errors.Join(vfStOther(id), st)
	}},
	{name: "errors.Join(status,other)", class: "multi", carries: true, mk: func(st error, id int64) error {
		return errors.Join(st, vfStOther(id))
	}},
	{name: "Errorf(%w-and-%w,other,status)", class: "multi", carries: true, mk: func(st error, id int64) error {
		return fmt.Errorf("verif #%d: %w and %w", id, vfStOther(id), st)
	}},
	{name: "custom-Unwrap()[]error", class: "multi", carries: true, mk: func(st error, id int64) error {
		return &vfStMultiErr{errs: []error{vfStOther(id), st}, id: id}
	}},
	{name: "foreign-GRPCStatus-method-inside-OpError-like-wrapper", class: "method", carries: true, mk: func(st error, id int64) error {
		s, _ := status.FromError(st)
		return &vfStOpErr{op: fmt.Sprintf("verif call #%d", id), err: &vfStatusErr{st: s, id: id}}
	}},
	{name: "control-same-text-no-status", class: "control", mk: func(st error, id int64) error {
		return errors.New(st.Error())
	}},
	{name: "control-GRPCStatus-method-returns-nil", class: "control", mk: func(st error, id int64) error {
		return &vfStNilStatusErr{id: id}
	}},
}

var (
	vfStFailCodes = []codes.Code{codes.DeadlineExceeded, codes.ResourceExhausted}
	vfStOkCodes   = []codes.Code{codes.NotFound, codes.Canceled}
)

func vfStSelfCheck() error {
	for _, c := range append(append([]codes.Code{}, vfStFailCodes...), vfStOkCodes...) {
		for _, sh := range vfStShapes {
			e := sh.mk(status.Error(c, "verif"), 1)
			want := codes.Unknown
			if sh.carries {
				want = c
			}
			if got := status.Code(e); got != want {
				return fmt.Errorf("status shape %s of %v: status.Code says %v, the table says %v", sh.name, c, got, want)
			}
		}
	}
	if got := status.Code(status.FromContextError(context.DeadlineExceeded).Err()); got != codes.DeadlineExceeded {
		return fmt.Errorf("status.FromContextError(context.DeadlineExceeded) has code %v", got)
	}
	if got := status.Code(status.FromContextError(context.Canceled).Err()); got != codes.Canceled {
		return fmt.Errorf("status.FromContextError(context.Canceled) has code %v", got)
	}
	return nil
}

var vfStFailOuts, vfStOkOuts []vfOutcome

func init() {
	const site = "zrpc-client"
	for _, fails := range []bool{true, false} {
		cs := vfStOkCodes
		if fails {
			cs = vfStFailCodes
		}
		for _, c := range cs {
			for _, sh := range vfStShapes {
				c, sh := c, sh
				out := vfOutcome{name: "shape:status-" + c.String() + "/" + sh.name, class: sh.class,
					fail: fails && sh.carries,
					key:  "C01/" + site + "/misclassified/status-" + c.String() + "/" + sh.class,
					mk: func(id int64) error {
						return sh.mk(status.Error(c, fmt.Sprintf("verif scripted #%d", id)), id)
					}}
				switch {
				case !sh.carries:
					out.ref = "status.Code(err) is Unknown (the error carries no status), so an admitted call is a success"
				case fails:
					out.ref = "status.Code(err) is " + c.String() + ", so an admitted call is a failure"
				default:
					out.ref = "status.Code(err) is " + c.String() + ", so an admitted call is a success"
				}
				if out.fail {
					vfStFailOuts = append(vfStFailOuts, out)
				} else {
					vfStOkOuts = append(vfStOkOuts, out)
				}
			}
		}
	}
	// what a real grpc invoker returns when the call's context ended: the status grpc derives from the context error
	vfStFailOuts = append(vfStFailOuts, vfOutcome{name: "shape:status-DeadlineExceeded/real-status.FromContextError", fail: true, class: "bare",
		key: "C01/" + site + "/misclassified/status-DeadlineExceeded/bare",
		ref: "status.Code(err) is DeadlineExceeded, so an admitted call is a failure",
		mk:  func(int64) error { return status.FromContextError(context.DeadlineExceeded).Err() }})
	vfStOkOuts = append(vfStOkOuts, vfOutcome{name: "shape:status-Canceled/real-status.FromContextError", class: "bare",
		key: "C01/" + site + "/misclassified/status-Canceled/bare",
		ref: "status.Code(err) is Canceled, so an admitted call is a success",
		mk:  func(int64) error { return status.FromContextError(context.Canceled).Err() }})
}

// ------------------------------------------------------------------ families

func vfShapeObs(c *kit.Case, out *vfOutcome, calls int64) {
	c.Obs("zrpc_client_shape_calls", calls)
	c.Obs("zrpc_client_shape_calls_"+out.class, calls)
}

// vfShapeEffect: every call's invoker returns ONE shape that must be recorded as a failure.
func vfShapeEffect(c *kit.Case, vc *kit.VClock) {
	out := vfStFailOuts[c.Index%len(vfStFailOuts)]
	h := vfNewHist(c, vc, "zrpc-client-shape-effect", 1)
	rej := 0
	for i := 0; i < vfShapeWarmN+vfShapeN && !c.Violated(); i++ {
		ctxMode := vfCtxNone
		if c.R.Chance(0.3) {
			ctxMode = vfCtxLive
		}
		if h.step(0, 10*time.Millisecond, out, ctxMode, 0) == vfRejected && i >= vfShapeWarmN {
			rej++
		}
	}
	c.Obs("zrpc_client_shape_effectiveness_runs", 1)
	vfShapeObs(c, &out, vfShapeWarmN+vfShapeN)
	if !c.Violated() && rej*100 < vfShapeN*80 {
		c.Viol(out.key,
			fmt.Sprintf("after a %d-call warm-up, %d consecutive calls whose invoker returns %s at 100 per virtual second: only %d rejected - they are recorded as successes (%s)", vfShapeWarmN, vfShapeN, out.name, rej, out.ref),
			map[string]any{"calls": vfShapeN, "rejected": rej, "shape": out.name, "reference": out.ref, "statistical": true, "first_calls": h.log[:80]})
	}
	c.Sig(true, "zrpc-client-shape-effect", out.name, rej)
	if c.Index == 0 {
		c.Sample("zrpc-client-shape-effect", 1, map[string]any{"shape": out.name, "reference": out.ref, "failing_calls": vfShapeN, "rejected": rej})
	}
	h.finish()
}

// vfShapeFlood: at most 5 genuine failures, then 60-120 calls whose invoker returns ONE shape that
// must be recorded as a success: no call may ever be rejected.
func vfShapeFlood(c *kit.Case, vc *kit.VClock) {
	r := c.R
	out := vfStOkOuts[c.Index%len(vfStOkOuts)]
	h := vfNewHist(c, vc, "zrpc-client-shape-flood", 1)
	h.relabel = out.key
	pre := r.Intn(6)
	for i := 0; i < pre && !c.Violated(); i++ {
		h.step(0, time.Millisecond, vfFailOuts[r.Intn(len(vfFailOuts))], vfCtxNone, 0)
	}
	n := r.Range(60, 120)
	gap := kit.Choose(r, []time.Duration{0, time.Millisecond, 10 * time.Millisecond, 60 * time.Millisecond})
	for i := 0; i < n && !c.Violated(); i++ {
		h.step(0, gap, out, r.Intn(2), 0)
	}
	if c.Violated() {
		c.Sample("shape-misclassified", 2, map[string]any{"site": "zrpc-client", "shape": out.name, "reference": out.ref})
	}
	c.Obs("zrpc_client_shape_success_floods", 1)
	vfShapeObs(c, &out, int64(n))
	c.Sig(true, "zrpc-client-shape-flood", out.name, pre, n, int64(gap), h.rej)
	if c.Index == 0 {
		c.Sample("zrpc-client-shape-flood", 1, map[string]any{"shape": out.name, "reference": out.ref, "calls": n, "rejected": h.rej})
	}
	h.finish()
}
