package serverinterceptors

// C01 (DESIGN.md §4 C01), integration site zrpc server: UnaryBreakerInterceptor and
// StreamBreakerInterceptor (with convertError and serverSideAcceptable). The package is internal,
// so this file is compiled into it through `go test -overlay`; helpers are prefixed vfC01.
//
// The interceptors are driven with scripted handler outcomes under the virtual clock; a private
// copy of the admission model of harness/c01 is stepped per call with the classification the
// site documents: the gRPC status codes DeadlineExceeded, Internal, Unavailable, DataLoss,
// Unimplemented, ResourceExhausted, context.DeadlineExceeded and breaker.ErrServiceUnavailable
// themselves are failures, every other code, every other error and nil are successes, a panic is
// a failure. Checked per call:
//
//	(1) a rejection only in a window state where the statement allows it, never for a
//	    must-admit call;
//	(2) admitted => the handler ran exactly once and its response and error (identity) / its
//	    panic value come back unchanged (an error that IS breaker.ErrServiceUnavailable may also
//	    come back as a status with code Unavailable: convertError); rejected => the handler did
//	    not run and a gRPC status with code Unavailable comes back; done context (unary only, the
//	    stream interceptor has no context of its own) => either nothing ran and the context's
//	    error came back, or the call obeys the admitted/rejected rules;
//	(3) through the model: success class counted as failure => rejection where the model forbids
//	    it (families zrpc-server, zrpc-server-flood); failure class counted as success => missing
//	    effectiveness (family zrpc-server-effect, one failure class per run, >= 80 % of 1000);
//	(4) one breaker per FullMethod: every FullMethod has its own model.

import (
	"context"
	"errors"
	"fmt"
	"sync/atomic"
	"testing"
	"time"

	kit "github.com/zeromicro/go-zero/internal/verifkit"

	"github.com/zeromicro/go-zero/core/breaker"
	"github.com/zeromicro/go-zero/core/logx"
	"google.golang.org/grpc"
	"google.golang.org/grpc/codes"
	"google.golang.org/grpc/metadata"
	"google.golang.org/grpc/status"
)

const (
	vfC01BucketDur = 250 * time.Millisecond
	vfC01NBuckets  = 40
	vfC01ForcePass = time.Second
)

// ------------------------------------------------------------------ admission model (copy of harness/c01)

type vfC01Model struct {
	t0       time.Duration
	bk       map[int64]*[3]int64 // bucket index -> accepted, failed, rejected
	sureSeen bool
	lastPoss time.Duration
}

func vfC01NewModel(t0 time.Duration) *vfC01Model {
	return &vfC01Model{t0: t0, bk: map[int64]*[3]int64{}}
}

func (m *vfC01Model) idx(t time.Duration) int64 { return int64((t - m.t0) / vfC01BucketDur) }

func (m *vfC01Model) mark(kind int, t time.Duration) {
	i := m.idx(t)
	b := m.bk[i]
	if b == nil {
		b = new([3]int64)
		m.bk[i] = b
	}
	b[kind]++
}

type vfC01Pre struct {
	t     time.Duration
	A, N  int64
	legal bool // rejection allowed by the statement: N > 5 + 10% of A
	sure  bool // total-5-1.5*A > 0
	must  bool
}

func (m *vfC01Model) pre(t time.Duration) vfC01Pre {
	c := m.idx(t)
	p := vfC01Pre{t: t}
	for i := c - vfC01NBuckets + 1; i <= c; i++ {
		if b := m.bk[i]; b != nil {
			p.A += b[0]
			p.N += b[1] + b[2]
		}
	}
	p.legal = 10*p.N > 50+p.A
	p.sure = 2*p.N-10 > p.A
	p.must = m.sureSeen && t-m.lastPoss > vfC01ForcePass
	return p
}

func (p vfC01Pre) illegalKey() string {
	if p.N <= 5 {
		return "nonaccepted<=5"
	}
	return "nonaccepted<=5+10%accepted"
}

func (m *vfC01Model) admitted(p vfC01Pre) {
	if p.sure {
		m.sureSeen = true
	}
	if p.legal {
		m.lastPoss = p.t
	}
}

// ------------------------------------------------------------------ scripted outcomes

type vfC01StatusErr struct {
	st *status.Status
	id int64
}

func (e *vfC01StatusErr) GRPCStatus() *status.Status { return e.st }
func (e *vfC01StatusErr) Error() string              { return fmt.Sprintf("verif status error #%d", e.id) }

type vfC01PanicTok struct{ id int64 }

type vfC01Outcome struct {
	name   string
	fail   bool // how the site documents an ADMITTED call with this outcome is recorded
	panic  bool
	isUnav bool // the error IS breaker.ErrServiceUnavailable (convertError may turn it into a status)
	mk     func(id int64) error
	// error-value shapes (zz_verif_c01_shapesites_test.go): the key a misclassification is reported
	// under (C01/zrpc-server/misclassified/<sentinel>/<shape class>), the reference classification in
	// words, and the shape class
	key, ref, class string
}

var vfC01ErrSeq atomic.Int64

func vfC01StatusOutcome(c codes.Code, fail bool) vfC01Outcome {
	return vfC01Outcome{name: "status-" + c.String(), fail: fail, mk: func(id int64) error {
		return status.Error(c, fmt.Sprintf("verif scripted #%d", id))
	}}
}

var vfC01FailCodes = []codes.Code{codes.DeadlineExceeded, codes.Internal, codes.Unavailable, codes.DataLoss,
	codes.Unimplemented, codes.ResourceExhausted}

var vfC01OkCodes = []codes.Code{codes.Canceled, codes.Unknown, codes.InvalidArgument, codes.NotFound, codes.AlreadyExists,
	codes.PermissionDenied, codes.FailedPrecondition, codes.Aborted, codes.OutOfRange, codes.Unauthenticated}

var vfC01FailOuts, vfC01OkOuts []vfC01Outcome

func init() {
	for _, c := range vfC01FailCodes {
		vfC01FailOuts = append(vfC01FailOuts, vfC01StatusOutcome(c, true))
	}
	vfC01FailOuts = append(vfC01FailOuts,
		vfC01Outcome{name: "foreign-error-with-status-Internal", fail: true, mk: func(id int64) error {
			return &vfC01StatusErr{st: status.New(codes.Internal, "verif"), id: id}
		}},
		vfC01Outcome{name: "context.DeadlineExceeded", fail: true, mk: func(int64) error { return context.DeadlineExceeded }},
		vfC01Outcome{name: "breaker.ErrServiceUnavailable-from-handler", fail: true, isUnav: true,
			mk: func(int64) error { return breaker.ErrServiceUnavailable }},
		vfC01Outcome{name: "panic", fail: true, panic: true},
		// a status error wrapped with %w: grpc's status.Code looks through the wrapping, and so does the
		// site's predicate on the unchanged tree
		vfC01Outcome{name: "wrapped-status-Unavailable", fail: true, mk: func(id int64) error {
			return fmt.Errorf("verif wrapped #%d: %w", id, status.Error(codes.Unavailable, "verif"))
		}},
		vfC01Outcome{name: "wrapped-status-Internal", fail: true, mk: func(id int64) error {
			return fmt.Errorf("verif wrapped #%d: %w", id, status.Error(codes.Internal, "verif"))
		}},
	)
	vfC01OkOuts = append(vfC01OkOuts, vfC01Outcome{name: "nil", mk: func(int64) error { return nil }})
	for _, c := range vfC01OkCodes {
		vfC01OkOuts = append(vfC01OkOuts, vfC01StatusOutcome(c, false))
	}
	vfC01OkOuts = append(vfC01OkOuts,
		vfC01Outcome{name: "plain-error", mk: func(id int64) error { return fmt.Errorf("verif plain error #%d", id) }},
		vfC01Outcome{name: "context.Canceled", mk: func(int64) error { return context.Canceled }},
		vfC01Outcome{name: "foreign-error-with-status-NotFound", mk: func(id int64) error {
			return &vfC01StatusErr{st: status.New(codes.NotFound, "verif"), id: id}
		}},
		vfC01Outcome{name: "wrapped-status-NotFound", mk: func(id int64) error {
			return fmt.Errorf("verif wrapped #%d: %w", id, status.Error(codes.NotFound, "verif"))
		}},
	)
}

// ------------------------------------------------------------------ sites and calls

type vfC01Stream struct{ ctx context.Context }

func (s *vfC01Stream) SetHeader(metadata.MD) error  { return nil }
func (s *vfC01Stream) SendHeader(metadata.MD) error { return nil }
func (s *vfC01Stream) SetTrailer(metadata.MD)       {}
func (s *vfC01Stream) Context() context.Context     { return s.ctx }
func (s *vfC01Stream) SendMsg(any) error            { return nil }
func (s *vfC01Stream) RecvMsg(any) error            { return nil }

type vfC01Site struct {
	label  string
	method string // FullMethod
	stream bool
	m      *vfC01Model // created at the first call: the named breaker is created lazily
}

type vfC01Hist struct {
	c     *kit.Case
	vc    *kit.VClock
	kind  string
	sites []*vfC01Site
	union *vfC01Model
	log   []string
	calls int64
	rej   int64
	legal int64
	must  int64
	sig   []any
	// relabel: when set (shape floods), the key of every illegal rejection
	relabel string
}

const (
	vfC01CtxNone = iota
	vfC01CtxLive
	vfC01CtxCancelled
	vfC01CtxExpired
)

var vfC01CtxNames = []string{"background", "live", "cancelled", "expired"}

const (
	vfC01Admitted = iota
	vfC01Rejected
	vfC01Nothing
	vfC01Broken
)

func (h *vfC01Hist) witness(detail string) map[string]any {
	var sites []string
	for _, s := range h.sites {
		sites = append(sites, fmt.Sprintf("%s: FullMethod=%q stream=%v", s.label, s.method, s.stream))
	}
	return map[string]any{"family": h.kind, "sites": sites, "bucket": vfC01BucketDur.String(),
		"history (gap before call, site, context, handler outcome -> decision [window of the site before the call])": h.log,
		"detail": detail}
}

var vfC01MethodSeq atomic.Int64

// step makes one call through the unary/stream breaker interceptor of the site and judges it.
func (h *vfC01Hist) step(si int, gap time.Duration, out vfC01Outcome, ctxMode int, lat time.Duration, withResp bool) int {
	c, vc := h.c, h.vc
	s := h.sites[si]
	if s.stream {
		ctxMode = vfC01CtxNone
	}
	vc.Advance(gap)
	t := vc.Now()
	if s.m == nil {
		s.m = vfC01NewModel(t)
	}
	if h.union == nil {
		h.union = vfC01NewModel(t)
	}
	p := s.m.pre(t)
	id := vfC01ErrSeq.Add(1)
	var want error
	if !out.panic {
		want = out.mk(id)
	}
	var wantResp any
	if withResp && !s.stream {
		wantResp = &struct{ id int64 }{id}
	}
	tok := &vfC01PanicTok{id}
	req := &struct{ id int64 }{id}
	srv := &struct{ id int64 }{-id}
	runs := 0
	argsOK := true
	tMark := t
	var ctx context.Context
	cancel := func() {}
	switch ctxMode {
	case vfC01CtxNone:
		ctx = context.Background()
	case vfC01CtxLive:
		ctx, cancel = context.WithCancel(context.Background())
	case vfC01CtxCancelled:
		ctx, cancel = context.WithCancel(context.Background())
		cancel()
	default:
		ctx, cancel = context.WithDeadline(context.Background(), time.Now().Add(-time.Hour))
	}
	defer cancel()
	work := func() error {
		runs++
		if lat > 0 {
			vc.Advance(lat)
		}
		tMark = vc.Now()
		if out.panic {
			panic(tok)
		}
		return want
	}
	var ret error
	var resp any
	var panicked bool
	var panicVal any
	func() {
		defer func() {
			if v := recover(); v != nil {
				panicked, panicVal = true, v
			}
		}()
		if s.stream {
			st := &vfC01Stream{ctx: ctx}
			ret = StreamBreakerInterceptor(srv, st, &grpc.StreamServerInfo{FullMethod: s.method, IsServerStream: true},
				func(sv any, ss grpc.ServerStream) error {
					if sv != any(srv) || ss != grpc.ServerStream(st) {
						argsOK = false
					}
					return work()
				})
		} else {
			resp, ret = UnaryBreakerInterceptor(ctx, req, &grpc.UnaryServerInfo{Server: srv, FullMethod: s.method},
				func(hctx context.Context, rq any) (any, error) {
					if rq != any(req) {
						argsOK = false
					}
					err := work()
					return wantResp, err
				})
		}
	}()

	desc := fmt.Sprintf("+%v %s ctx=%s handler:%s", gap, s.label, vfC01CtxNames[ctxMode], out.name)
	if wantResp != nil {
		desc += "+response"
	}
	if lat > 0 {
		desc += fmt.Sprintf(" lat=%v", lat)
	}
	viol := func(kind, what string) {
		h.log = append(h.log, desc+" -> BROKEN")
		c.Viol("C01/exactly-once/zrpc-server/"+kind, what, h.witness(what))
	}
	done := ctxMode == vfC01CtxCancelled || ctxMode == vfC01CtxExpired
	v := vfC01Broken
	switch {
	case done && runs == 0 && !panicked && ret != nil &&
		(errors.Is(ret, context.Canceled) || errors.Is(ret, context.DeadlineExceeded)):
		v = vfC01Nothing
	case runs > 1:
		viol("handler-ran-more-than-once", fmt.Sprintf("the handler ran %d times for one call", runs))
	case runs == 1 && !argsOK:
		viol("handler-arguments-changed", "the handler did not receive the caller's request / server / stream")
	case runs == 1 && out.panic:
		switch {
		case !panicked:
			viol("panic-swallowed", fmt.Sprintf("the handler panicked but the call returned %v", ret))
		case panicVal != any(tok):
			viol("panic-changed", fmt.Sprintf("the handler panicked with %p, the caller recovered %v", tok, panicVal))
		default:
			v = vfC01Admitted
		}
	case runs == 1:
		switch {
		case panicked:
			viol("unexpected-panic", fmt.Sprintf("the call panicked with %v although the handler returned normally", panicVal))
		case ret != want && !(out.isUnav && status.Code(ret) == codes.Unavailable):
			viol("error-changed", fmt.Sprintf("the handler returned %v, the call returned %v", want, ret))
		case resp != wantResp:
			viol("response-changed", fmt.Sprintf("the handler returned response %p, the call returned %v", wantResp, resp))
		default:
			v = vfC01Admitted
		}
	case panicked:
		viol("unexpected-panic", fmt.Sprintf("the call panicked with %v without running the handler", panicVal))
	case status.Code(ret) != codes.Unavailable:
		if done {
			viol("done-ctx-wrong-error", fmt.Sprintf("done context: nothing ran and the call returned %v", ret))
		} else {
			viol("rejected-wrong-error", fmt.Sprintf("the handler did not run and the call returned %v, not a status with code Unavailable", ret))
		}
	default:
		v = vfC01Rejected
	}

	h.calls++
	c.Obs("zrpc_server_calls", 1)
	if s.stream {
		c.Obs("zrpc_server_stream_calls", 1)
	} else {
		c.Obs("zrpc_server_unary_calls", 1)
	}
	if p.legal {
		h.legal++
	}
	if p.must {
		h.must++
		c.Obs("zrpc_server_must_admit_situations", 1)
	}
	switch v {
	case vfC01Admitted:
		h.log = append(h.log, fmt.Sprintf("%s -> admitted [A=%d N=%d]", desc, p.A, p.N))
		s.m.admitted(p)
		kindIdx := 0
		if out.fail {
			kindIdx = 1
		}
		s.m.mark(kindIdx, tMark)
		h.union.mark(kindIdx, tMark)
		c.Obs("zrpc_server_admitted", 1)
		if out.panic {
			c.Obs("zrpc_server_panics_reraised", 1)
		}
	case vfC01Rejected:
		h.log = append(h.log, fmt.Sprintf("%s -> rejected [A=%d N=%d]", desc, p.A, p.N))
		h.rej++
		c.Obs("zrpc_server_rejected", 1)
		if s.stream {
			c.Obs("zrpc_server_stream_rejected", 1)
		}
		if !p.legal {
			up := h.union.pre(t)
			if up.legal && len(h.sites) > 1 {
				c.Viol("C01/identity/zrpc-server/window-shared-across-methods",
					fmt.Sprintf("call on %s rejected although the window of that FullMethod holds accepted=%d, non-accepted=%d; only together with the calls on the other methods (accepted=%d, non-accepted=%d) would a rejection be allowed", s.label, p.A, p.N, up.A, up.N),
					h.witness("one breaker per FullMethod"))
			} else if h.relabel != "" {
				c.Viol(h.relabel,
					fmt.Sprintf("the breaker interceptor rejected a call although the window holds accepted=%d, non-accepted=%d: handler outcomes of this shape are recorded as failures", p.A, p.N),
					h.witness(fmt.Sprintf("accepted=%d nonaccepted=%d at the rejected (last) call", p.A, p.N)))
			} else {
				c.Viol("C01/illegal-reject/zrpc-server/"+p.illegalKey(),
					fmt.Sprintf("the breaker interceptor rejected a call although the window holds accepted=%d, non-accepted=%d: %d does not exceed 5 + 10%% of %d", p.A, p.N, p.N, p.A),
					h.witness(fmt.Sprintf("accepted=%d nonaccepted=%d at the rejected (last) call", p.A, p.N)))
			}
		}
		if p.must {
			c.Viol("C01/must-admit-rejected/zrpc-server",
				fmt.Sprintf("the breaker interceptor rejected a call %v after the latest admission that can have been throttled", t-s.m.lastPoss),
				h.witness(fmt.Sprintf("since_last_throttled_admission=%v", t-s.m.lastPoss)))
		}
		s.m.mark(2, t)
		h.union.mark(2, t)
	case vfC01Nothing:
		h.log = append(h.log, desc+" -> context error, nothing ran")
		c.Obs("zrpc_server_done_ctx_short_circuit", 1)
	}
	h.sig = append(h.sig, si, s.stream, out.name, ctxMode, int64(gap), int64(lat), v)
	return v
}

func (h *vfC01Hist) finish() {
	c := h.c
	c.Obs("zrpc_server_histories", 1)
	if h.legal > 0 {
		c.Obs("zrpc_server_histories_reaching_legal_rejection", 1)
	}
	c.Sig(h.legal > 0, append([]any{h.kind}, h.sig...)...)
	if h.legal > 0 && h.rej > 0 {
		n := len(h.log)
		if n > 40 {
			n = 40
		}
		c.Sample(h.kind, 1, map[string]any{"calls": h.calls, "rejections": h.rej, "calls_in_legal_state": h.legal,
			"must_admit": h.must, "first_calls": h.log[:n]})
	}
}

// vfC01NewHist picks fresh FullMethods (named breakers are process-global). streams[i] says
// whether site i is driven through the stream interceptor.
func vfC01NewHist(c *kit.Case, vc *kit.VClock, kind string, streams []bool) *vfC01Hist {
	vc.Set(kit.VClockStart + time.Duration(c.R.Int63n(int64(3*time.Second))))
	n := vfC01MethodSeq.Add(1)
	h := &vfC01Hist{c: c, vc: vc, kind: kind}
	for i, st := range streams {
		k := "unary"
		if st {
			k = "stream"
		}
		h.sites = append(h.sites, &vfC01Site{
			label:  fmt.Sprintf("method%d(%s)", i+1, k),
			method: fmt.Sprintf("/verif.C01.s%d.%s%d.n%d/M%d", kit.GetEnv().Seed, c.Family, c.Index, n, i+1),
			stream: st,
		})
	}
	return h
}

var vfC01GapSet = []time.Duration{0, 1, vfC01BucketDur - 1, vfC01BucketDur, vfC01BucketDur + 1, time.Second, time.Second + 1,
	2500 * time.Millisecond, 10*time.Second - 1, 10 * time.Second, 10*time.Second + 1, 25 * time.Second}

func vfC01Gap(r *kit.Rand, mode int, steady time.Duration) time.Duration {
	if mode == 4 {
		mode = r.Intn(4)
	}
	switch mode {
	case 0:
		return kit.Choose(r, []time.Duration{0, 0, 0, 1, 1000, time.Millisecond})
	case 1:
		return steady
	case 2:
		return vfC01GapSet[r.Pick(10, 6, 12, 12, 12, 10, 10, 8, 6, 6, 6, 2)]
	}
	return kit.Choose(r, []time.Duration{time.Second - 1, time.Second, time.Second + 1, 1100 * time.Millisecond, 2500 * time.Millisecond, 5 * time.Second})
}

// vfC01Random: random history over 1-3 FullMethods; method 1 carries most of the (mostly failing)
// traffic, the others see mostly successes.
func vfC01Random(c *kit.Case, vc *kit.VClock) {
	r := c.R
	nSites := r.Pick(40, 30, 30) + 1
	streams := make([]bool, nSites)
	for i := range streams {
		streams[i] = r.Chance(0.4)
	}
	h := vfC01NewHist(c, vc, "zrpc-server", streams)
	L := r.Range(20, 220)
	pFail := kit.Choose(r, []float64{0.3, 0.6, 0.9, 1})
	pPanic := kit.Choose(r, []float64{0, 0.1, 0.4})
	pCtx := kit.Choose(r, []float64{0, 0.3, 1})
	pDone := kit.Choose(r, []float64{0, 0.05, 0.2})
	pLat := kit.Choose(r, []float64{0, 0.1})
	pShape := kit.Choose(r, []float64{0, 0.3, 0.6})
	gapMode := r.Pick(30, 25, 25, 8, 12)
	steady := time.Duration(r.Range(1, 120)) * time.Millisecond
	for i := 0; i < L && !c.Violated(); i++ {
		si := 0
		if nSites > 1 && r.Chance(0.3) {
			si = 1 + r.Intn(nSites-1)
		}
		pf := pFail
		if si > 0 {
			pf = 0.03
		}
		var out vfC01Outcome
		if r.Chance(pf) {
			out = vfC01FailOuts[r.Intn(len(vfC01FailOuts)-1)]
			if r.Chance(pPanic) {
				out = vfC01FailOuts[len(vfC01FailOuts)-1]
			} else if r.Chance(pShape) { // context.DeadlineExceeded / ErrServiceUnavailable / a failing status in one of the errors.Is / errors.As shapes
				out = kit.Choose(r, vfC01ShFailOuts)
			}
		} else {
			out = kit.Choose(r, vfC01OkOuts)
			if r.Chance(0.4) {
				out = vfC01OkOuts[0]
			} else if r.Chance(pShape) { // negative controls, non-failing statuses in the same shapes
				out = kit.Choose(r, vfC01ShOkOuts)
			}
		}
		if out.key != "" {
			c.Obs("zrpc_server_shape_calls_in_random_histories", 1)
		}
		ctxMode := vfC01CtxNone
		if r.Chance(pCtx) {
			ctxMode = vfC01CtxLive
			if r.Chance(pDone) {
				ctxMode = vfC01CtxCancelled + r.Intn(2)
			}
		}
		gap := vfC01Gap(r, gapMode, steady)
		if m := h.sites[si].m; m != nil && m.sureSeen && r.Chance(0.08) {
			target := m.lastPoss + vfC01ForcePass + kit.Choose(r, []time.Duration{-1, 0, 1, time.Millisecond})
			if d := target - vc.Now(); d >= 0 {
				gap = d
			}
		}
		var lat time.Duration
		if r.Chance(pLat) {
			lat = kit.Choose(r, []time.Duration{1, vfC01BucketDur, time.Second + 1})
		}
		h.step(si, gap, out, ctxMode, lat, r.Chance(0.7))
	}
	if nSites > 1 {
		c.Obs("zrpc_server_multi_site_histories", 1)
	}
	h.finish()
}

// vfC01Effect: every call fails with ONE failure class (index: class x unary/stream).
func vfC01Effect(c *kit.Case, vc *kit.VClock) {
	out := vfC01FailOuts[c.Index%len(vfC01FailOuts)]
	stream := (c.Index/len(vfC01FailOuts))%2 == 1
	h := vfC01NewHist(c, vc, "zrpc-server-effect", []bool{stream})
	rej := 0
	const warm, n = 60, 1000
	for i := 0; i < warm+n && !c.Violated(); i++ {
		ctxMode := vfC01CtxNone
		if c.R.Chance(0.3) {
			ctxMode = vfC01CtxLive
		}
		if h.step(0, 10*time.Millisecond, out, ctxMode, 0, false) == vfC01Rejected && i >= warm {
			rej++
		}
	}
	kind := "unary"
	if stream {
		kind = "stream"
	}
	c.Obs("zrpc_server_effectiveness_runs", 1)
	c.Obs("zrpc_server_effectiveness_rejected", int64(rej))
	if !c.Violated() && rej*100 < n*80 {
		c.Viol("C01/effectiveness/zrpc-server/"+out.name,
			fmt.Sprintf("after a 60-call warm-up, %d consecutive %s calls whose handler fails with %s at 100 per virtual second: only %d rejected", n, kind, out.name, rej),
			map[string]any{"calls": n, "rejected": rej, "failure_class": out.name, "interceptor": kind, "statistical": true, "first_calls": h.log[:80]})
	}
	c.Sample("zrpc-server-effect", 1, map[string]any{"failure_class": out.name, "interceptor": kind, "failing_calls": n, "rejected": rej})
	h.finish()
}

// vfC01Flood: every call ends with ONE success class (at most 5 genuine failures first): no call
// may ever be rejected.
func vfC01Flood(c *kit.Case, vc *kit.VClock) {
	r := c.R
	out := vfC01OkOuts[c.Index%len(vfC01OkOuts)]
	stream := (c.Index/len(vfC01OkOuts))%2 == 1
	h := vfC01NewHist(c, vc, "zrpc-server-flood", []bool{stream})
	pre := r.Intn(6)
	for i := 0; i < pre && !c.Violated(); i++ {
		h.step(0, time.Millisecond, vfC01FailOuts[r.Intn(len(vfC01FailOuts))], vfC01CtxNone, 0, false)
	}
	n := r.Range(80, 200)
	gap := kit.Choose(r, []time.Duration{0, time.Millisecond, 10 * time.Millisecond, 60 * time.Millisecond})
	for i := 0; i < n && !c.Violated(); i++ {
		h.step(0, gap, out, r.Intn(2), 0, r.Bool())
	}
	c.Obs("zrpc_server_success_class_floods", 1)
	c.Sig(true, "zrpc-server-flood", out.name, stream, pre, n, int64(gap), h.rej)
	h.finish()
}

func TestVerifC01ZS(t *testing.T) {
	logx.Disable()
	vc := kit.InstallVClock()
	defer kit.UninstallVClock()

	kit.Run(t, "C01", "zrpc-server", kit.N(600, 8000), func(c *kit.Case) { vfC01Random(c, vc) })
	kit.Run(t, "C01", "zrpc-server-effect", kit.N(2*len(vfC01FailOuts), 20*len(vfC01FailOuts)), func(c *kit.Case) { vfC01Effect(c, vc) })
	kit.Run(t, "C01", "zrpc-server-flood", kit.N(2*len(vfC01OkOuts), 20*len(vfC01OkOuts)), func(c *kit.Case) { vfC01Flood(c, vc) })

	// error-value shapes of the sentinels / status codes serverSideAcceptable names (zz_verif_c01_shapes_test.go,
	// zz_verif_c01_shapesites_test.go); index: shape x unary/stream
	if err := vfC01ShSelfCheck(vfC01ShSens...); err != nil {
		t.Fatalf("zrpc server sentinels: %v", err)
	}
	if err := vfC01StSelfCheck(); err != nil {
		t.Fatalf("zrpc server status shapes: %v", err)
	}
	if vfC01ShDialTimeout == nil {
		kit.Obs("real_net_errors_unavailable", 1)
	}
	kit.Run(t, "C01", "zrpc-server-shape-effect", kit.N(2*len(vfC01ShFailOuts), 20*len(vfC01ShFailOuts)), func(c *kit.Case) { vfC01ShapeEffect(c, vc) })
	kit.Run(t, "C01", "zrpc-server-shape-flood", kit.N(2*len(vfC01ShOkOuts), 20*len(vfC01ShOkOuts)), func(c *kit.Case) { vfC01ShapeFlood(c, vc) })
	kit.End()
}
