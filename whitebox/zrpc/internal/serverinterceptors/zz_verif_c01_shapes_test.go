package serverinterceptors

// C01, error-value SHAPES at the integration sites (this file is kept identical, apart from the
// package clause, to whitebox/zrpc/internal/serverinterceptors/zz_verif_c01_shapes_test.go; all
// names carry the prefix vfC01Sh).
//
// The statement says an admitted call "is recorded ... as success or failure according to the
// acceptability predicate". The predicates of the integration sites (core/stores/redis acceptable,
// core/stores/sqlx commonSqlConn.acceptable, zrpc serverSideAcceptable) name SENTINEL errors and
// are defined through errors.Is. errors.Is is more than "== somewhere along a %w chain": an error
// is related to a sentinel also through errors.Join / several %w / an Unwrap() []error method
// (a tree, not a chain) and through an Is(target) bool method that answers for the sentinel
// without wrapping it (that is how the *net.OpError of a dial that ran out of time answers
// errors.Is(err, context.DeadlineExceeded)). This file builds, for any sentinel, one error value
// per such shape plus negative controls; the reference classification of every value is
// errors.Is(value, sentinel) - vfC01ShSelfCheck verifies that the table agrees with the standard
// library before any case runs (a disagreement is a harness error, not a violation).

import (
	"context"
	"errors"
	"fmt"
	"net"
	"time"
)

// vfC01ShShape is one way an error value can (or can not) be related to a sentinel.
type vfC01ShShape struct {
	name    string // precise shape: goes into descriptions, signatures and witnesses
	class   string // coarse class used in violation keys: bare | wrapped | multi | is-method | control
	related bool   // the reference: errors.Is(mk(s, id), s)
	only    error  // non-nil: the shape exists for this sentinel only (real errors of the net package)
	mk      func(s error, id int64) error
}

// vfC01ShIsErr does not wrap anything; its Is method answers for `target` (or for nothing).
type vfC01ShIsErr struct {
	target error
	answer bool
	id     int64
}

func (e *vfC01ShIsErr) Error() string { return fmt.Sprintf("verif: error #%d with an Is method", e.id) }
func (e *vfC01ShIsErr) Is(t error) bool {
	return e.answer && t == e.target
}

// vfC01ShOpErr wraps ONE error the way *net.OpError does (Unwrap() error).
type vfC01ShOpErr struct {
	op  string
	err error
}

func (e *vfC01ShOpErr) Error() string { return e.op + ": " + e.err.Error() }
func (e *vfC01ShOpErr) Unwrap() error { return e.err }

// vfC01ShMultiErr carries several errors (Unwrap() []error), like errors.Join but of a foreign type.
type vfC01ShMultiErr struct {
	errs []error
	id   int64
}

func (e *vfC01ShMultiErr) Error() string   { return fmt.Sprintf("verif: multi error #%d %v", e.id, e.errs) }
func (e *vfC01ShMultiErr) Unwrap() []error { return e.errs }

func vfC01ShOther(id int64) error { return fmt.Errorf("verif: unrelated error #%d", id) }

// real errors of the net package, made without touching the network and without waiting: a dial
// whose deadline has already passed / whose context is already cancelled fails before any socket
// is opened with *net.OpError{Err: timeoutError / canceledError}; those answer errors.Is for
// context.DeadlineExceeded / context.Canceled through their Is methods. nil if this platform's
// net package does not behave like that (the shape is then left out and counted as unavailable).
var (
	vfC01ShDialTimeout  = vfC01ShMakeDialTimeout()
	vfC01ShDialCanceled = vfC01ShMakeDialCanceled()
)

func vfC01ShMakeDialTimeout() error {
	d := net.Dialer{Deadline: time.Now().Add(-time.Hour)}
	conn, err := d.Dial("tcp", "127.0.0.1:9")
	if err == nil {
		conn.Close()
		return nil
	}
	if errors.Is(err, context.DeadlineExceeded) && !vfC01ShChainHas(err, context.DeadlineExceeded) {
		return err
	}
	return nil
}

func vfC01ShMakeDialCanceled() error {
	ctx, cancel := context.WithCancel(context.Background())
	cancel()
	var d net.Dialer
	conn, err := d.DialContext(ctx, "tcp", "127.0.0.1:9")
	if err == nil {
		conn.Close()
		return nil
	}
	if errors.Is(err, context.Canceled) && !vfC01ShChainHas(err, context.Canceled) {
		return err
	}
	return nil
}

// vfC01ShChainHas: is s reachable by == along the single-error Unwrap chain (what a hand-written
// walk sees). Used only to make sure the "real" errors are of the interesting kind.
func vfC01ShChainHas(err, s error) bool {
	for ; err != nil; err = errors.Unwrap(err) {
		if err == s {
			return true
		}
	}
	return false
}

var vfC01ShShapes = []vfC01ShShape{
	{name: "bare", class: "bare", related: true, mk: func(s error, id int64) error { return s }},
	{name: "wrapped-%w", class: "wrapped", related: true, mk: func(s error, id int64) error {
		return fmt.Errorf("verif #%d: %w", id, s)
	}},
	{name: "wrapped-%w-twice", class: "wrapped", related: true, mk: func(s error, id int64) error {
		return fmt.Errorf("verif outer #%d: %w", id, fmt.Errorf("verif inner: %w", s))
	}},
	{name: "errors.Join(other,sentinel)", class: "multi", related: true, mk: func(s error, id int64) error {
		return errors.Join(vfC01ShOther(id), s)
	}},
	{name: "errors.Join(sentinel,other)", class: "multi", related: true, mk: func(s error, id int64) error {
		return errors.Join(s, vfC01ShOther(id))
	}},
	{name: "errors.Join(wrapped-sentinel,other)", class: "multi", related: true, mk: func(s error, id int64) error {
		return errors.Join(fmt.Errorf("verif #%d: %w", id, s), vfC01ShOther(id))
	}},
	{name: "Errorf(%w-and-%w,other,sentinel)", class: "multi", related: true, mk: func(s error, id int64) error {
		return fmt.Errorf("verif #%d: %w and %w", id, vfC01ShOther(id), s)
	}},
	{name: "custom-Unwrap()[]error", class: "multi", related: true, mk: func(s error, id int64) error {
		return &vfC01ShMultiErr{errs: []error{vfC01ShOther(id), s}, id: id}
	}},
	{name: "custom-Is-method", class: "is-method", related: true, mk: func(s error, id int64) error {
		return &vfC01ShIsErr{target: s, answer: true, id: id}
	}},
	{name: "custom-Is-method-inside-OpError-like-wrapper", class: "is-method", related: true, mk: func(s error, id int64) error {
		return &vfC01ShOpErr{op: fmt.Sprintf("verif dial #%d", id), err: &vfC01ShIsErr{target: s, answer: true, id: id}}
	}},
	{name: "real-net-dial-timeout", class: "is-method", related: true, only: context.DeadlineExceeded,
		mk: func(s error, id int64) error { return vfC01ShDialTimeout }},
	{name: "real-net-dial-cancelled", class: "is-method", related: true, only: context.Canceled,
		mk: func(s error, id int64) error { return vfC01ShDialCanceled }},
	// negative controls: NOT related to the sentinel
	{name: "control-same-text-unrelated", class: "control", related: false, mk: func(s error, id int64) error {
		return errors.New(s.Error())
	}},
	{name: "control-Is-method-answers-false", class: "control", related: false, mk: func(s error, id int64) error {
		return &vfC01ShIsErr{target: s, answer: false, id: id}
	}},
}

// vfC01ShSentinel is one sentinel of a site's predicate.
type vfC01ShSentinel struct {
	name   string
	err    error
	accept bool     // how the site records an admitted call whose error is related to it: true = success
	only   []string // non-empty: only these shapes (by name) are generated for it
}

// vfC01ShCombo is one (sentinel, shape) pair with the class the site must record it as.
type vfC01ShCombo struct {
	sen  vfC01ShSentinel
	sh   vfC01ShShape
	fail bool
}

func (cb *vfC01ShCombo) name() string { return cb.sen.name + "/" + cb.sh.name }

// key: C01/<site>/misclassified/<sentinel>/<shape class>
func (cb *vfC01ShCombo) key(site string) string {
	return "C01/" + site + "/misclassified/" + cb.sen.name + "/" + cb.sh.class
}

func (cb *vfC01ShCombo) mk(id int64) error { return cb.sh.mk(cb.sen.err, id) }

func (cb *vfC01ShCombo) what() string {
	rel := "errors.Is(err, " + cb.sen.name + ") is true"
	if !cb.sh.related {
		rel = "errors.Is(err, " + cb.sen.name + ") is false"
	}
	as := "success"
	if cb.fail {
		as = "failure"
	}
	return fmt.Sprintf("error shape %s: %s, so the site's predicate classifies an admitted call as %s", cb.sh.name, rel, as)
}

func vfC01ShAvailable(sh *vfC01ShShape) bool {
	switch sh.name {
	case "real-net-dial-timeout":
		return vfC01ShDialTimeout != nil
	case "real-net-dial-cancelled":
		return vfC01ShDialCanceled != nil
	}
	return true
}

// vfC01ShCombos splits every (sentinel, shape) pair into the pairs the site must record as success
// and those it must record as failure. unrelatedFail is the site's class for an error related to
// none of its sentinels (redis, sqlx: failure; zrpc server: success).
func vfC01ShCombos(unrelatedFail bool, sens ...vfC01ShSentinel) (ok, fail []vfC01ShCombo) {
	for _, sen := range sens {
		for _, sh := range vfC01ShShapes {
			if sh.only != nil && sh.only != sen.err {
				continue
			}
			if !vfC01ShAvailable(&sh) {
				continue
			}
			if len(sen.only) > 0 {
				found := false
				for _, n := range sen.only {
					found = found || n == sh.name
				}
				if !found {
					continue
				}
			}
			cb := vfC01ShCombo{sen: sen, sh: sh}
			if sh.related {
				cb.fail = !sen.accept
			} else {
				cb.fail = unrelatedFail
			}
			if cb.fail {
				fail = append(fail, cb)
			} else {
				ok = append(ok, cb)
			}
		}
	}
	return
}

// vfC01ShSelfCheck: the table must agree with the standard library (reference classification =
// errors.Is), a related value must not be related to any OTHER sentinel of the site, every value
// must be comparable (identity is checked with ==) and the same-text control must really have the
// sentinel's text.
func vfC01ShSelfCheck(sens ...vfC01ShSentinel) (err error) {
	defer func() {
		if r := recover(); r != nil {
			err = fmt.Errorf("shape table: %v", r)
		}
	}()
	for _, sen := range sens {
		for _, sh := range vfC01ShShapes {
			if (sh.only != nil && sh.only != sen.err) || !vfC01ShAvailable(&sh) {
				continue
			}
			e := sh.mk(sen.err, 1)
			if e == nil {
				return fmt.Errorf("shape %s of %s is nil", sh.name, sen.name)
			}
			if errors.Is(e, sen.err) != sh.related {
				return fmt.Errorf("shape %s of %s: errors.Is says %v, the table says %v", sh.name, sen.name, !sh.related, sh.related)
			}
			for _, o := range sens {
				if o.err != sen.err && errors.Is(e, o.err) {
					return fmt.Errorf("shape %s of %s is also related to %s", sh.name, sen.name, o.name)
				}
			}
			_ = map[error]bool{e: true} // panics if the dynamic type is not comparable
			if sh.name == "control-same-text-unrelated" && e.Error() != sen.err.Error() {
				return fmt.Errorf("same-text control of %s has text %q", sen.name, e.Error())
			}
		}
	}
	return nil
}
