package serverinterceptors

// White-box part of the C04 check (DESIGN.md §4 C04): UnaryTimeoutInterceptor.
// The package is internal, so this file is compiled into it through `go test -overlay`.
// Every helper is a plain function or closure named vf… (the driver's race-log reducer
// tells harness frames from go-zero frames by that prefix).
//
// The wrapped handler is a harness-owned script: observe ctx.Deadline(), optionally
// cancel the caller's context (inline / from a second goroutine / followed by blocking
// until the interceptor has returned: causal release, DESIGN §3.5), then return
// (resp, err) or panic. An outcome is legal iff the events making it possible carry
// logical stamps smaller than the interceptor's return stamp; real timers (1–20 ms) are
// used by the timer family only and both outcomes are legal at the boundary.

import (
	"context"
	"errors"
	"fmt"
	"runtime"
	"strings"
	"sync"
	"sync/atomic"
	"testing"
	"time"

	kit "github.com/zeromicro/go-zero/internal/verifkit"

	"github.com/zeromicro/go-zero/core/logx"
	"google.golang.org/grpc"
	"google.golang.org/grpc/codes"
	"google.golang.org/grpc/status"
)

const (
	vfBasePatience = 5 * time.Second
	vfJoinWatchdog = 60 * time.Second
	// watchdog for the interceptor call itself (own goroutine); firing => inconclusive and the
	// remaining cases of this process are skipped
	vfWrapWatchdog = 40 * time.Second
)

var vfWaitBroken atomic.Bool

var vfStuck atomic.Bool

var vfLeakReports atomic.Int32

func vfSkipIfStuck(c *kit.Case) bool {
	if vfStuck.Load() {
		c.Inconclusive("skipped: an earlier interceptor call in this process never returned")
		return true
	}
	return false
}

func vfPatience() time.Duration {
	if vfWaitBroken.Load() {
		return 30 * time.Millisecond
	}
	return vfBasePatience
}

func vfBlockUntil(ch <-chan struct{}, p time.Duration) bool {
	select {
	case <-ch:
		return true
	default:
	}
	t := time.NewTimer(p)
	defer t.Stop()
	select {
	case <-ch:
		return true
	case <-t.C:
		return false
	}
}

type vfPlan struct {
	Mode        string        `json:"mode"` // none | pre | inline | concurrent | wait-ctx (returns once its context is done; cancelled from a second goroutine) | block | timer | timer-block
	Method      string        `json:"method"`
	Default     time.Duration `json:"default_timeout"`
	PerMethod   time.Duration `json:"per_method_timeout,omitempty"` // configured for /verif.Svc/Slow only
	ParentAfter time.Duration `json:"parent_deadline_after,omitempty"`
	Work        time.Duration `json:"work,omitempty"`
	Ret         string        `json:"ret"` // ok | err | status-err | nil-nil | panic
	Jitter      int           `json:"jitter,omitempty"`
	// grid family
	ParentKind  string `json:"parent_kind,omitempty"` // none | earlier | later | cancelled-before | cancelled-during | value
	WorkKind    string `json:"work_kind,omitempty"`   // fast | honours | ignores | panic-before | panic-after
	ParentValue bool   `json:"parent_value,omitempty"`
	PreCancel   bool   `json:"pre_cancel,omitempty"`
}

type vfCtxKey struct{}

const vfSlowMethod = "/verif.Svc/Slow"

func vfEff(pl vfPlan) time.Duration {
	if pl.Method == vfSlowMethod && pl.PerMethod != 0 {
		return pl.PerMethod
	}
	return pl.Default
}

type vfResp struct{ Tag string }

type vfExec struct {
	pl       vfPlan
	tag      string
	workResp any
	workErr  error
	cancel   context.CancelFunc
	cancelS  atomic.Uint64
	wrapRet  chan struct{}
	workDone chan struct{}
	flag     chan struct{}
	cEnd     chan struct{}
	giveUp   chan struct{}
	patience time.Duration

	// written by the handler goroutine before close(workDone)
	t1           time.Time
	seenDl       time.Time
	seenOk       bool
	reqSeen      any
	valueSeen    bool
	ctxErrAfter  string
	workRetS     uint64
	workPanicS   uint64
	blockTimeout bool

	// written by the calling goroutine
	t0, tRet    time.Time
	parentDl    time.Time
	hasParentDl bool
	retS        uint64
	gotResp     any
	gotErr      error
	panicked    bool
	panicVal    any
}

func vfNewExec(pl vfPlan, tag string) *vfExec {
	x := &vfExec{pl: pl, tag: tag, wrapRet: make(chan struct{}), workDone: make(chan struct{}), flag: make(chan struct{}),
		cEnd: make(chan struct{}), giveUp: make(chan struct{}), patience: vfPatience()}
	switch pl.Ret {
	case "ok":
		x.workResp = &vfResp{Tag: tag}
	case "err":
		x.workErr = errors.New("verif-err-" + tag)
	case "status-err":
		x.workErr = status.Error(codes.Unavailable, "verif-err-"+tag)
	case "both":
		x.workResp = &vfResp{Tag: tag}
		x.workErr = errors.New("verif-err-" + tag)
	}
	return x
}

func vfHandler(x *vfExec) grpc.UnaryHandler {
	return func(ctx context.Context, req any) (any, error) {
		defer close(x.workDone)
		x.t1 = time.Now()
		x.seenDl, x.seenOk = ctx.Deadline()
		x.reqSeen = req
		x.valueSeen = ctx.Value(vfCtxKey{}) == any(x.tag)
		switch x.pl.Mode {
		case "timer-wait-ctx":
			// work that honours its context: goes on once it is done (real deadline, nobody cancels)
			t := time.NewTimer(x.patience)
			select {
			case <-ctx.Done():
			case <-x.wrapRet:
			case <-t.C:
				x.blockTimeout = true
			}
			t.Stop()
		case "inline":
			x.cancelS.Store(kit.Stamp())
			x.cancel()
			if err := ctx.Err(); err != nil {
				x.ctxErrAfter = err.Error()
			} else {
				x.ctxErrAfter = "nil"
			}
		case "concurrent":
			close(x.flag)
			for i := 0; i < x.pl.Jitter; i++ {
				runtime.Gosched()
			}
		case "block":
			x.cancelS.Store(kit.Stamp())
			x.cancel()
			if !vfBlockUntil(x.wrapRet, x.patience) {
				x.blockTimeout = true
			}
		case "timer-block":
			if !vfBlockUntil(x.wrapRet, x.patience) {
				x.blockTimeout = true
			}
		case "timer":
			if x.pl.Work > 0 {
				time.Sleep(x.pl.Work)
			}
		case "wait-ctx":
			close(x.flag)
			select {
			case <-ctx.Done():
			case <-x.wrapRet:
			}
		}
		if x.pl.Ret == "panic" {
			x.workPanicS = kit.Stamp()
			panic("verif-panic-" + x.tag)
		}
		x.workRetS = kit.Stamp()
		return x.workResp, x.workErr
	}
}

func vfRun(x *vfExec) bool {
	base := context.Background()
	var cancels []context.CancelFunc
	if x.pl.ParentAfter > 0 {
		x.parentDl = time.Now().Add(x.pl.ParentAfter)
		x.hasParentDl = true
		c, cf := context.WithDeadline(base, x.parentDl)
		base = c
		cancels = append(cancels, cf)
	}
	if x.pl.ParentValue {
		base = context.WithValue(base, vfCtxKey{}, x.tag)
	}
	parent, cancel := context.WithCancel(base)
	x.cancel = cancel
	defer func() {
		cancel()
		for _, cf := range cancels {
			cf()
		}
	}()
	if x.pl.Mode == "concurrent" || x.pl.Mode == "wait-ctx" {
		go func() {
			defer close(x.cEnd)
			select {
			case <-x.flag:
			case <-x.giveUp:
				return
			}
			x.cancelS.Store(kit.Stamp())
			cancel()
		}()
	} else {
		close(x.cEnd)
	}
	if x.pl.Mode == "pre" || x.pl.PreCancel {
		x.cancelS.Store(kit.Stamp())
		cancel()
	}
	confs := []MethodTimeoutConf{{FullMethod: "", Timeout: time.Nanosecond}, {FullMethod: "/verif.Svc/Other", Timeout: time.Nanosecond}}
	if x.pl.PerMethod != 0 {
		confs = append(confs, MethodTimeoutConf{FullMethod: vfSlowMethod, Timeout: x.pl.PerMethod})
	}
	icpt := UnaryTimeoutInterceptor(x.pl.Default, confs...)
	info := &grpc.UnaryServerInfo{FullMethod: x.pl.Method}
	h := vfHandler(x)
	req := "req-" + x.tag
	x.t0 = time.Now()
	go func() {
		defer func() {
			if p := recover(); p != nil {
				x.panicked = true
				x.panicVal = p
			}
			x.retS = kit.Stamp()
			x.tRet = time.Now()
			close(x.wrapRet)
		}()
		x.gotResp, x.gotErr = icpt(parent, req, info, h)
	}()
	wt := time.NewTimer(vfWrapWatchdog)
	select {
	case <-x.wrapRet:
		wt.Stop()
	case <-wt.C:
		vfStuck.Store(true)
		close(x.giveUp)
		return false
	}
	t := time.NewTimer(vfJoinWatchdog)
	defer t.Stop()
	select {
	case <-x.workDone:
	case <-t.C:
		vfStuck.Store(true)
		close(x.giveUp)
		return false
	}
	close(x.giveUp)
	select {
	case <-x.cEnd:
	case <-t.C:
		vfStuck.Store(true)
		return false
	}
	return true
}

func vfFmtDl(t time.Time, ok bool) string {
	if !ok {
		return "none"
	}
	return t.Format(time.RFC3339Nano)
}

func vfClip(s string, n int) string {
	if len(s) <= n {
		return s
	}
	return s[:n] + "…"
}

func vfWitness(x *vfExec) map[string]any {
	return map[string]any{"plan": x.pl, "effective_timeout": vfEff(x.pl).String(), "returned_resp": fmt.Sprint(x.gotResp), "returned_err": fmt.Sprint(x.gotErr),
		"work_resp": fmt.Sprint(x.workResp), "work_err": fmt.Sprint(x.workErr), "wrapper_panicked": x.panicked, "wrapper_panic_value": vfClip(fmt.Sprint(x.panicVal), 300),
		"cancel_stamp": x.cancelS.Load(), "work_return_stamp": x.workRetS, "work_panic_stamp": x.workPanicS, "wrapper_return_stamp": x.retS,
		"deadline_seen": vfFmtDl(x.seenDl, x.seenOk), "caller_deadline": vfFmtDl(x.parentDl, x.hasParentDl), "work_started": x.t1.Format(time.RFC3339Nano),
		"elapsed_at_return": x.tRet.Sub(x.t0).String(), "block_patience_ran_out": x.blockTimeout}
}

func vfViol(c *kit.Case, kind, class, what string, w any) {
	c.Viol("C04/zrpc-server/"+kind+"/"+class, what, w)
}

type vfVerdict struct {
	Outcome   string
	Contended bool
	Sig       string
}

func vfEvaluate(c *kit.Case, x *vfExec) vfVerdict {
	var v vfVerdict
	mode := x.pl.Mode
	eff := vfEff(x.pl)
	cancelS := x.cancelS.Load()
	cancelled := cancelS != 0 && cancelS < x.retS
	earliest := x.t0.Add(eff)
	if x.hasParentDl && x.parentDl.Before(earliest) {
		earliest = x.parentDl
	}
	deadlinePassed := !x.tRet.Before(earliest)
	workReturned := x.workRetS != 0 && x.workRetS < x.retS
	workPanicked := x.workPanicS != 0 && x.workPanicS < x.retS

	// (1) deadline shrink, per-method timeout overrides the default
	c.Obs("zs_deadline_checks", 1)
	cfg := "default"
	if x.pl.Method == vfSlowMethod && x.pl.PerMethod != 0 {
		cfg = "per-method"
	}
	switch {
	case !x.seenOk:
		vfViol(c, "deadline", "none-seen/"+cfg, "the handler ran under a context without any deadline", vfWitness(x))
	case x.hasParentDl && x.seenDl.After(x.parentDl):
		vfViol(c, "deadline", "later-than-caller/"+cfg, "the handler saw a deadline later than the caller's", vfWitness(x))
	case x.seenDl.After(x.t1.Add(eff)):
		vfViol(c, "deadline", "later-than-now+timeout/"+cfg, fmt.Sprintf("the handler saw a deadline %s after it started, the effective timeout is %s", x.seenDl.Sub(x.t1), eff), vfWitness(x))
	}
	if x.reqSeen != "req-"+x.tag {
		vfViol(c, "request-not-passed", mode, "the handler did not receive the caller's request", vfWitness(x))
	}
	if x.ctxErrAfter == "nil" {
		c.Obs("zs_work_ctx_not_cancelled_by_caller_cancel", 1)
	}

	// (2) all-or-nothing
	st, isStatus := status.FromError(x.gotErr)
	switch {
	case x.panicked:
		v.Outcome = "panic"
		if !workPanicked {
			vfViol(c, "panic", "unexpected/"+mode, "the interceptor panicked although the handler had not panicked", vfWitness(x))
		} else if !strings.Contains(fmt.Sprint(x.panicVal), "verif-panic-"+x.tag) {
			vfViol(c, "panic", "value-lost/"+mode, "the re-raised panic does not carry the handler's panic value", vfWitness(x))
		}
	case x.pl.Ret != "panic" && x.gotResp == x.workResp && x.gotErr == x.workErr && workReturned:
		v.Outcome = "complete"
	case x.gotResp == nil && x.gotErr != nil && x.gotErr != x.workErr && isStatus && st.Code() == codes.Canceled:
		v.Outcome = "timeout"
		if !cancelled {
			vfViol(c, "timeout-result-without-expiry", "canceled/"+mode, "status Canceled although the caller's context had not been cancelled", vfWitness(x))
		}
	case x.gotResp == nil && x.gotErr != nil && x.gotErr != x.workErr && isStatus && st.Code() == codes.DeadlineExceeded:
		v.Outcome = "timeout"
		if !deadlinePassed {
			vfViol(c, "timeout-result-without-expiry", "deadline/"+mode, fmt.Sprintf("status DeadlineExceeded after %s, before any deadline could have passed (effective timeout %s)", x.tRet.Sub(x.t0), eff), vfWitness(x))
		}
	default:
		v.Outcome = "mixture"
		kind := "other"
		timeoutErr := x.gotErr != nil && x.gotErr != x.workErr && isStatus && (st.Code() == codes.Canceled || st.Code() == codes.DeadlineExceeded)
		switch {
		case x.gotResp != nil && x.gotResp == x.workResp && timeoutErr:
			kind = "work-resp-with-timeout-error"
		case x.gotResp == x.workResp && x.gotErr == x.workErr && !workReturned:
			kind = "work-result-before-work-returned"
		case x.gotResp == x.workResp && x.gotErr != x.workErr:
			kind = "work-resp-with-other-error"
		case x.gotResp != x.workResp && x.gotErr == x.workErr:
			kind = "work-error-with-other-resp"
		}
		vfViol(c, "mixture", kind+"/"+mode, fmt.Sprintf("the interceptor returned (%v, %v): neither the handler's pair (%v, %v) nor (nil, status Canceled|DeadlineExceeded)", x.gotResp, x.gotErr, x.workResp, x.workErr), vfWitness(x))
	}
	c.Obs("zs_outcome_"+v.Outcome, 1)
	c.Obs("zs_outcome_"+v.Outcome+"_"+mode, 1)
	if cancelS != 0 && cancelS < x.retS && ((x.workRetS > cancelS && x.workRetS < x.retS) || (x.workPanicS > cancelS && x.workPanicS < x.retS)) {
		v.Contended = true
	}
	if cancelS == 0 && deadlinePassed && v.Outcome != "timeout" {
		v.Contended = true
	}
	if cancelS == 0 && v.Outcome == "timeout" && x.pl.Mode == "timer" && x.pl.Work > 0 && x.pl.Work < 2*eff {
		v.Contended = true
	}
	if v.Contended {
		c.Obs("zs_contended", 1)
	}
	seq := "r"
	if workReturned || workPanicked {
		seq = "w<r"
	}
	if cancelS != 0 {
		if cancelS < x.workRetS || cancelS < x.workPanicS {
			seq += ";x<w"
		} else {
			seq += ";w<x"
		}
		if cancelS < x.retS {
			seq += ";x<r"
		}
	}
	v.Sig = seq
	return v
}

func vfWaitCheck(c *kit.Case, x *vfExec) {
	if !x.blockTimeout {
		return
	}
	if vfWaitBroken.Load() {
		c.Obs("zs_wait_dependency_after_first_report", 1)
		return
	}
	y := vfNewExec(x.pl, x.tag)
	y.patience = 2 * vfBasePatience
	switch {
	case !vfRun(y):
		c.Inconclusive("does-not-wait re-run could not be joined")
	case y.blockTimeout:
		vfWaitBroken.Store(true)
		vfViol(c, "waits-for-work", x.pl.Mode, fmt.Sprintf("the interceptor did not return while the handler was blocked although the context was done: patience %s and again %s ran out, it returned only after the handler was released", vfBasePatience, 2*vfBasePatience), vfWitness(x))
	default:
		c.Inconclusive("interceptor did not return within patience once, not reproduced with doubled patience")
	}
}

func vfLeakKey(stack string) string {
	var keep []string
	for _, ln := range strings.Split(stack, "\n") {
		if !strings.Contains(ln, "verif_case") {
			keep = append(keep, ln)
		}
	}
	return kit.KeyPart(kit.TopFrames(strings.Join(keep, "\n"), 2))
}

func vfCensus(c *kit.Case) {
	if vfStuck.Load() {
		return // an unjoined interceptor call is reported as inconclusive, not as a leak
	}
	if vfLeakReports.Load() >= 3 {
		c.Obs("zs_census_skipped_after_leak_reports", 1)
		return
	}
	for i := 0; i < 2000 && len(kit.LabelledGoroutines(c.ID)) != 0; i++ {
		time.Sleep(time.Millisecond)
	}
	leaked, conclusive := kit.Census(c.ID, 500*time.Millisecond, 5, 40*time.Second)
	if !conclusive {
		c.Inconclusive("goroutine census did not stabilise")
		return
	}
	if len(leaked) > 0 {
		vfLeakReports.Add(1)
	}
	for _, g := range leaked {
		vfViol(c, "leak", vfLeakKey(g.Stack), fmt.Sprintf("%d goroutine(s) still parked with an identical stack after the handler returned", g.Count), map[string]any{"stack": g.Stack})
	}
}

func vfFar(r *kit.Rand) (def, per, parent time.Duration) {
	def = kit.Choose(r, []time.Duration{time.Hour, 2 * time.Hour})
	per = kit.Choose(r, []time.Duration{0, 30 * time.Minute, 3 * time.Hour})
	parent = kit.Choose(r, []time.Duration{0, 0, 20 * time.Minute, 45 * time.Minute, 4 * time.Hour})
	return
}

func vfCancelCase(c *kit.Case) {
	if vfSkipIfStuck(c) {
		return
	}
	r := c.R
	evals := int64(0)
	kit.WithLabel(c.ID, func() {
		i := 0
		for _, ret := range []string{"ok", "err", "status-err", "both", "nil-nil", "panic"} {
			for _, mode := range []string{"none", "pre", "inline", "concurrent", "concurrent", "block", "wait-ctx"} {
				def, per, parent := vfFar(r)
				pl := vfPlan{Mode: mode, Method: kit.Choose(r, []string{vfSlowMethod, "/verif.Svc/Fast"}), Default: def, PerMethod: per, ParentAfter: parent, Ret: ret, Jitter: r.Pick(4, 2, 1, 1)}
				i++
				x := vfNewExec(pl, fmt.Sprintf("s%d-%d", c.Index, i))
				if !vfRun(x) {
					c.Inconclusive("could not join the interceptor call or the handler (mode " + mode + ")")
					return
				}
				v := vfEvaluate(c, x)
				vfWaitCheck(c, x)
				evals++
				c.Sig(v.Contended, "zrpc-server", ret, pl.Mode, v.Outcome, v.Sig, pl.Method, pl.PerMethod != 0, pl.ParentAfter != 0)
				if v.Contended {
					c.Sample("zrpc-server-contended", 1, map[string]any{"plan": pl, "outcome": v.Outcome, "order": v.Sig})
				}
			}
		}
	})
	c.Evals(evals)
	vfCensus(c)
}

func vfTimerCase(c *kit.Case) {
	if vfSkipIfStuck(c) {
		return
	}
	r := c.R
	const par = 8
	xs := make([]*vfExec, par)
	oks := make([]bool, par)
	for i := range xs {
		timeout := time.Duration(1000+r.Intn(19000)) * time.Microsecond
		f := []float64{0, 0.5, 0.9 + 0.2*r.Float64(), 0.9 + 0.2*r.Float64(), 0.9 + 0.2*r.Float64(), 1.02, 1.5}[r.Intn(7)]
		pl := vfPlan{Mode: "timer", Method: vfSlowMethod, Ret: kit.Choose(r, []string{"ok", "ok", "err", "both", "panic"})}
		switch r.Intn(3) {
		case 0:
			pl.Default, pl.PerMethod = time.Hour, timeout // the per-method value must be the one applied
		case 1:
			pl.Default, pl.PerMethod = timeout/8, timeout // also when it is the longer one
		default:
			pl.Default, pl.PerMethod = timeout, 0
			pl.Method = "/verif.Svc/Fast"
		}
		pl.Work = time.Duration(float64(timeout)*f) / (10 * time.Microsecond) * (10 * time.Microsecond)
		if r.Chance(0.15) {
			pl.Mode, pl.Work = "timer-block", 0
		}
		switch r.Pick(5, 2, 2) {
		case 1:
			pl.ParentAfter = timeout/2 + time.Microsecond
		case 2:
			pl.ParentAfter = timeout*3 + time.Millisecond
		}
		xs[i] = vfNewExec(pl, fmt.Sprintf("st%d-%d", c.Index, i))
	}
	kit.WithLabel(c.ID, func() {
		var wg sync.WaitGroup
		for i := range xs {
			wg.Add(1)
			go func(i int) {
				defer wg.Done()
				oks[i] = vfRun(xs[i])
			}(i)
		}
		wg.Wait()
	})
	evals := int64(0)
	for i, x := range xs {
		if !oks[i] {
			c.Inconclusive("could not join the handler (timer)")
			continue
		}
		v := vfEvaluate(c, x)
		vfWaitCheck(c, x)
		evals++
		c.Sig(v.Contended, "zrpc-server-timer", x.pl.Mode, x.pl.Ret, v.Outcome, v.Sig, vfEff(x.pl)/(500*time.Microsecond), x.pl.Work/(500*time.Microsecond), x.pl.ParentAfter != 0)
	}
	c.Evals(evals)
	vfCensus(c)
}

// ---------------------------------------------------------------- configuration grid
//
// caller's context ∈ {no deadline, real deadline earlier than now+timeout, deadline (1 h) later than a
// real short timeout, already cancelled, cancelled during the work, value-carrying} × handler ∈
// {returns at once, overruns and honours its context, overruns and ignores it until the interceptor
// has returned (causal release), panics before / after the expiry}; default and per-method timeouts.

var vfGridParents = []string{"none", "earlier", "later", "cancelled-before", "cancelled-during", "value"}
var vfGridWorks = []string{"fast", "honours", "ignores", "panic-before", "panic-after"}

func vfGridPlan(r *kit.Rand, pk, wk string) vfPlan {
	short := time.Duration(2000+r.Intn(10000)) * time.Microsecond
	far := time.Hour
	pl := vfPlan{ParentKind: pk, WorkKind: wk, Jitter: r.Pick(4, 2, 1, 1)}
	base := pk
	if pk == "value" {
		pl.ParentValue = true
		base = kit.Choose(r, []string{"none", "earlier", "later", "later", "cancelled-during"})
	}
	var eff time.Duration
	timerDriven := true
	switch base {
	case "none":
		eff = short
	case "earlier":
		eff, pl.ParentAfter = kit.Choose(r, []time.Duration{far, 3 * short}), short
	case "later":
		eff, pl.ParentAfter = short, far
	case "cancelled-before":
		eff, pl.PreCancel = far, true
		if r.Bool() {
			pl.ParentAfter = kit.Choose(r, []time.Duration{far / 2, 2 * far})
		}
	case "cancelled-during":
		timerDriven, eff = false, far
		if r.Bool() {
			pl.ParentAfter = kit.Choose(r, []time.Duration{far / 2, 2 * far})
		}
	}
	// the effective timeout comes from the default or from the per-method table
	switch r.Intn(3) {
	case 0:
		pl.Method, pl.Default = "/verif.Svc/Fast", eff
	case 1:
		pl.Method, pl.Default, pl.PerMethod = vfSlowMethod, 2*far, eff // per-method shorter than the default
	default:
		pl.Method, pl.Default, pl.PerMethod = vfSlowMethod, time.Millisecond, eff // per-method longer than the default
	}
	pl.Ret = kit.Choose(r, []string{"ok", "ok", "err", "both", "nil-nil"})
	if timerDriven {
		switch wk {
		case "fast":
			pl.Mode = "timer"
		case "honours":
			pl.Mode = "timer-wait-ctx"
		case "ignores":
			pl.Mode = "timer-block"
		case "panic-before":
			pl.Mode, pl.Ret = "timer", "panic"
		case "panic-after":
			pl.Mode, pl.Ret = "timer-block", "panic"
		}
	} else {
		switch wk {
		case "fast":
			pl.Mode = "concurrent"
		case "honours":
			pl.Mode = "wait-ctx"
		case "ignores":
			pl.Mode = "block"
		case "panic-before":
			pl.Mode, pl.Ret = "none", "panic"
		case "panic-after":
			pl.Mode, pl.Ret = "block", "panic"
		}
	}
	return pl
}

func vfGridCase(c *kit.Case) {
	if vfSkipIfStuck(c) {
		return
	}
	r := c.R
	var xs []*vfExec
	for _, pk := range vfGridParents {
		for _, wk := range vfGridWorks {
			xs = append(xs, vfNewExec(vfGridPlan(r, pk, wk), fmt.Sprintf("sg%d-%d", c.Index, len(xs))))
		}
	}
	oks := make([]bool, len(xs))
	kit.WithLabel(c.ID, func() {
		var wg sync.WaitGroup
		for i := range xs {
			wg.Add(1)
			go func(i int) {
				defer wg.Done()
				oks[i] = vfRun(xs[i])
			}(i)
		}
		wg.Wait()
	})
	evals := int64(0)
	for i, x := range xs {
		if !oks[i] {
			c.Inconclusive("could not join the handler (grid)")
			continue
		}
		v := vfEvaluate(c, x)
		evals++
		pl := x.pl
		c.Obs("zsg_cells", 1)
		c.Obs("zsg_outcome_"+v.Outcome, 1)
		c.Obs("zsg_"+pl.ParentKind+"_"+v.Outcome, 1)
		causal := pl.WorkKind == "ignores" || pl.WorkKind == "panic-after"
		if causal {
			c.Obs("zsg_causal_release_checks", 1)
			if !x.blockTimeout {
				c.Obs("zsg_returned_while_handler_blocked", 1)
				c.Obs("zsg_returned_while_handler_blocked_"+pl.ParentKind, 1)
			}
		}
		if pl.ParentValue && x.valueSeen {
			c.Obs("zsg_caller_value_visible_to_handler", 1)
		}
		if x.hasParentDl && x.seenOk && x.seenDl.Equal(x.parentDl) {
			c.Obs("zsg_deadline_is_callers", 1)
		}
		c.Sig(v.Contended || causal, "zrpc-server-grid", pl.ParentKind, pl.WorkKind, pl.Mode, pl.Ret, pl.Method, pl.PerMethod != 0, pl.PerMethod > pl.Default, pl.ParentAfter != 0, pl.ParentAfter > vfEff(pl), v.Outcome, v.Sig)
		if x.blockTimeout {
			if vfWaitBroken.Load() {
				c.Obs("zs_wait_dependency_after_first_report", 1)
				continue
			}
			y := vfNewExec(pl, x.tag)
			y.patience = 2 * vfBasePatience
			switch {
			case !vfRun(y):
				c.Inconclusive("does-not-wait re-run could not be joined (grid)")
			case y.blockTimeout:
				vfWaitBroken.Store(true)
				c.Viol("C04/zrpc-server-grid/waits-for-work/parent-"+pl.ParentKind+"/work-"+pl.WorkKind,
					fmt.Sprintf("the interceptor did not return (or the handler's context was not done) at the earlier of the caller's deadline and now+timeout while the handler was blocked: patience %s and again %s ran out", vfBasePatience, 2*vfBasePatience), vfWitness(x))
			default:
				c.Inconclusive("interceptor did not return within patience once, not reproduced with doubled patience (grid)")
			}
		}
	}
	c.Sample("zrpc-server-grid", 1, map[string]any{"cells": len(xs), "example_plan": xs[12].pl})
	c.Evals(evals)
	vfCensus(c)
}

func TestVerifC04S(t *testing.T) {
	logx.Disable()
	kit.Run(t, "C04", "zrpc-server-cancel", kit.N(6000, 80000), vfCancelCase)
	kit.Run(t, "C04", "zrpc-server-timer", kit.N(800, 12000), vfTimerCase)
	kit.Run(t, "C04", "zrpc-server-grid", kit.N(160, 2000), vfGridCase)
	// accumulation: many calls whose handlers stay parked past their deadlines (zz_verif_c04_many_test.go)
	kit.Run(t, "C04", "zrpc-server-many", kit.N(16, 160), vfManyCase)
	kit.End()
}
