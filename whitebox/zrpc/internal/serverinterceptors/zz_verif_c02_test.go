package serverinterceptors

// C02 (DESIGN.md §4 C02, clause 5), compiled into zrpc/internal/serverinterceptors with
// `go test -overlay`: UnarySheddingInterceptor resolves the promise of every admitted request
// exactly once — when the handler returns a response, returns an error (including deadline
// errors) and when it panics; a refused request never reaches the handler and is answered with
// codes.ResourceExhausted. Observed through a harness load.Shedder, sequentially and from many
// goroutines; plus end-to-end with a real adaptive shedder (threshold far below 0, so every
// CPU reading counts as overloaded; one bucket, so the capacity estimate is the constant 1):
// once every request is over nothing is in flight and no probe may be shed.

import (
	"context"
	"errors"
	"fmt"
	"sync"
	"sync/atomic"
	"testing"
	"time"

	"github.com/zeromicro/go-zero/core/load"
	"github.com/zeromicro/go-zero/core/logx"
	"github.com/zeromicro/go-zero/core/stat"
	"google.golang.org/grpc"
	"google.golang.org/grpc/codes"
	"google.golang.org/grpc/status"

	kit "github.com/zeromicro/go-zero/internal/verifkit"
)

type vfC02Promise struct {
	pass, fail atomic.Int32
	id         int
}

func (p *vfC02Promise) Pass() { p.pass.Add(1) }
func (p *vfC02Promise) Fail() { p.fail.Add(1) }

type vfC02Shedder struct {
	mu       sync.Mutex
	promises []*vfC02Promise
	refuse   atomic.Bool
}

func (s *vfC02Shedder) Allow() (load.Promise, error) {
	if s.refuse.Load() {
		return nil, load.ErrServiceOverloaded
	}
	p := &vfC02Promise{}
	s.mu.Lock()
	p.id = len(s.promises)
	s.promises = append(s.promises, p)
	s.mu.Unlock()
	return p, nil
}

var vfC02Kinds = []string{"ok", "ok-nil-response", "error", "status-internal", "status-unavailable", "deadline-exceeded",
	"wrapped-deadline-exceeded", "status-deadline-exceeded", "canceled", "panic-string", "panic-error", "response-and-error"}

func vfC02Behave(kind string) (any, error) {
	switch kind {
	case "ok":
		return "resp", nil
	case "ok-nil-response":
		return nil, nil
	case "error":
		return nil, errors.New("verif: scripted error")
	case "status-internal":
		return nil, status.Error(codes.Internal, "verif")
	case "status-unavailable":
		return nil, status.Error(codes.Unavailable, "verif")
	case "deadline-exceeded":
		return nil, context.DeadlineExceeded
	case "wrapped-deadline-exceeded":
		return nil, fmt.Errorf("verif: %w", context.DeadlineExceeded)
	case "status-deadline-exceeded":
		return nil, status.Error(codes.DeadlineExceeded, "verif")
	case "canceled":
		return nil, context.Canceled
	case "panic-string":
		panic("verif: scripted panic")
	case "panic-error":
		panic(errors.New("verif: scripted panic"))
	}
	return "resp", errors.New("verif: response and error")
}

type vfC02Res struct {
	resp     any
	err      error
	panicked bool
}

func vfC02Call(ic grpc.UnaryServerInterceptor, kind string, calls *atomic.Int64) (res vfC02Res) {
	defer func() {
		if r := recover(); r != nil {
			res.panicked = true
		}
	}()
	res.resp, res.err = ic(context.Background(), kind, &grpc.UnaryServerInfo{FullMethod: "/verif/C02"}, func(ctx context.Context, req any) (any, error) {
		calls.Add(1)
		return vfC02Behave(req.(string))
	})
	return
}

var vfC02Metrics = stat.NewMetrics("verif-c02-rpc")

func vfC02Seq(c *kit.Case) {
	r := c.R
	sh := &vfC02Shedder{}
	ic := UnarySheddingInterceptor(sh, vfC02Metrics)
	var log []string
	n := r.Range(5, 40)
	for i := 0; i < n && !c.Violated(); i++ {
		kind := kit.Choose(r, vfC02Kinds)
		refuse := r.Chance(0.25)
		sh.refuse.Store(refuse)
		var calls atomic.Int64
		before := len(sh.promises)
		res := vfC02Call(ic, kind, &calls)
		log = append(log, fmt.Sprintf("%s refuse=%v -> err=%v panicked=%v handler-calls=%d", kind, refuse, res.err, res.panicked, calls.Load()))
		wit := map[string]any{"requests": log}
		if refuse {
			kit.Obs("rpc_refused", 1)
			if calls.Load() != 0 {
				c.Viol("C02/interceptor/refused-request-reached-handler", "the handler ran although Allow returned ErrServiceOverloaded", wit)
			}
			if status.Code(res.err) != codes.ResourceExhausted {
				c.Viol("C02/interceptor/refused-request-wrong-status", fmt.Sprintf("refused request answered with %v", res.err), wit)
			}
			continue
		}
		if calls.Load() != 1 {
			c.Viol("C02/interceptor/admitted-request-handler-calls", fmt.Sprintf("the handler ran %d times for an admitted request", calls.Load()), wit)
		}
		if len(sh.promises) != before+1 {
			c.Viol("C02/interceptor/allow-calls", fmt.Sprintf("Allow was called %d times for one request", len(sh.promises)-before), wit)
			continue
		}
		p := sh.promises[before]
		ps, fl := p.pass.Load(), p.fail.Load()
		class := "return"
		switch {
		case res.panicked:
			class = "panic"
		case res.err != nil:
			class = "error"
		}
		if ps+fl != 1 {
			k := "never-resolved"
			if ps+fl > 1 {
				k = "resolved-more-than-once"
			}
			c.Viol("C02/interceptor/promise-"+k+"/on-"+class, fmt.Sprintf("promise of an admitted request: Pass x%d, Fail x%d (behaviour %s)", ps, fl, kind), wit)
		}
		kit.Obs("rpc_admitted_on_"+class, 1)
		if fl == 1 {
			kit.Obs("rpc_resolved_by_fail", 1)
		} else if ps == 1 {
			kit.Obs("rpc_resolved_by_pass", 1)
		}
	}
	c.Evals(int64(n))
	c.Sig(false, "rpc-seq", log)
	c.Sample("rpc-interceptor-stub", 1, map[string]any{"requests": log})
}

func vfC02Conc(c *kit.Case) {
	r := c.R
	var sh load.Shedder
	stub := &vfC02Shedder{}
	sh = stub
	real := r.Chance(0.5)
	if real {
		sh = load.NewAdaptiveShedder(load.WithWindow(time.Second), load.WithBuckets(1), load.WithCpuThreshold(-99000))
	}
	ic := UnarySheddingInterceptor(sh, vfC02Metrics)
	G, per := kit.Choose(r, []int{2, 4, 8, 16, 32}), r.Range(3, 20)
	kinds := make([][]string, G)
	for g := range kinds {
		for i := 0; i < per; i++ {
			kinds[g] = append(kinds[g], kit.Choose(r, vfC02Kinds))
		}
	}
	var calls, refused atomic.Int64
	var wg sync.WaitGroup
	for g := 0; g < G; g++ {
		wg.Add(1)
		go func(ks []string) {
			defer wg.Done()
			for _, k := range ks {
				if res := vfC02Call(ic, k, &calls); !res.panicked && status.Code(res.err) == codes.ResourceExhausted {
					refused.Add(1)
				}
			}
		}(kinds[g])
	}
	fin := make(chan struct{})
	go func() { wg.Wait(); close(fin) }()
	select {
	case <-fin:
	case <-time.After(120 * time.Second):
		c.Inconclusive("concurrent interceptor calls did not finish within the 120 s watchdog")
		return
	}
	total := int64(G * per)
	wit := map[string]any{"goroutines": G, "requests_each": per, "behaviours": kinds, "real_shedder": real}
	if !real {
		if int64(len(stub.promises)) != total || calls.Load() != total {
			c.Viol("C02/interceptor/concurrent-call-counts", fmt.Sprintf("%d requests: %d promises handed out, handler ran %d times", total, len(stub.promises), calls.Load()), wit)
		}
		for _, p := range stub.promises {
			if ps, fl := p.pass.Load(), p.fail.Load(); ps+fl != 1 {
				k := "never-resolved"
				if ps+fl > 1 {
					k = "resolved-more-than-once"
				}
				c.Viol("C02/interceptor/promise-"+k+"/concurrent", fmt.Sprintf("promise #%d: Pass x%d, Fail x%d", p.id, ps, fl), wit)
				break
			}
		}
	} else {
		if calls.Load()+refused.Load() != total {
			c.Viol("C02/interceptor/concurrent-call-counts", fmt.Sprintf("%d requests: handler ran %d times, %d refused", total, calls.Load(), refused.Load()), wit)
		}
		// every request is over: nothing is in flight, so no probe may be shed although the CPU counts as overloaded
		for i := 0; i < 12; i++ {
			var pc atomic.Int64
			if res := vfC02Call(ic, "ok", &pc); pc.Load() != 1 || res.err != nil {
				c.Viol("C02/interceptor/shed-with-nothing-in-flight", fmt.Sprintf("probe %d after all %d requests finished was refused: %v (a promise was not resolved on some path)", i+1, total, res.err), wit)
				break
			}
		}
		kit.Obs("rpc_real_shedder_runs", 1)
		kit.Obs("rpc_real_shedder_refused", refused.Load())
	}
	kit.Obs("rpc_concurrent_requests", total)
	c.Evals(total)
	c.Sig(false, "rpc-conc", G, per, kinds, real)
}

func TestVerifC02I(t *testing.T) {
	logx.Disable()
	vc := kit.InstallVClock()
	defer kit.UninstallVClock()
	_ = vc

	kit.Run(t, "C02", "rpc-seq", kit.N(200, 4000), vfC02Seq)
	kit.Run(t, "C02", "rpc-conc", kit.N(150, 3000), vfC02Conc)

	kit.End()
}
