package serverinterceptors

// C01, error-value shapes at the zrpc server breaker interceptors.
//
// serverSideAcceptable names two sentinels - context.DeadlineExceeded and
// breaker.ErrServiceUnavailable (errors related to them are failures) - and hands everything else
// to zrpc/internal/codes.Acceptable, which classifies by status.Code(err): the gRPC status found by
// errors.As semantics (the error itself, or the first error with a GRPCStatus method in its Unwrap
// tree). For every sentinel x shape of zz_verif_c01_shapes_test.go, and for two failing and two
// non-failing status codes x the shapes below, the handler returns that value: shapes that must be
// recorded as failures get one all-failing effectiveness run each (unary and stream), shapes that
// must be recorded as successes (the negative controls, the non-failing codes) one never-rejected
// flood each. A misclassified shape is reported as
// C01/zrpc-server/misclassified/<sentinel or status-Code>/<shape class>.

import (
	"context"
	"errors"
	"fmt"
	"time"

	kit "github.com/zeromicro/go-zero/internal/verifkit"

	"github.com/zeromicro/go-zero/core/breaker"
	"google.golang.org/grpc/codes"
	"google.golang.org/grpc/status"
)

const (
	vfC01ShapeWarmN   = 60
	vfC01ShapeN = 400 // >= 80 % of these must be rejected; see harness/c01/c01_shapes_sites_test.go for the bound
)

var vfC01ShSens = []vfC01ShSentinel{
	{name: "context.DeadlineExceeded", err: context.DeadlineExceeded},
	{name: "breaker.ErrServiceUnavailable", err: breaker.ErrServiceUnavailable},
}

// ------------------------------------------------------------------ shapes of status errors

// vfC01NilStatusErr has the GRPCStatus method but carries no status.
type vfC01NilStatusErr struct{ id int64 }

func (e *vfC01NilStatusErr) GRPCStatus() *status.Status { return nil }
func (e *vfC01NilStatusErr) Error() string {
	return fmt.Sprintf("verif error #%d whose GRPCStatus method returns nil", e.id)
}

type vfC01StShape struct {
	name, class string
	carries     bool // status.Code(mk(st)) == the code of st (else codes.Unknown)
	mk          func(st error, id int64) error
}

var vfC01StShapes = []vfC01StShape{
	{name: "wrapped-%w-twice", class: "wrapped", carries: true, mk: func(st error, id int64) error {
		return fmt.Errorf("verif outer #%d: %w", id, fmt.Errorf("verif inner: %w", st))
	}},
	{name: "errors.Join(other,status)", class: "multi", carries: true, mk: func(st error, id int64) error {
		return errors.Join(vfC01ShOther(id), st)
	}},
	{name: "errors.Join(status,other)", class: "multi", carries: true, mk: func(st error, id int64) error {
		return errors.Join(st, vfC01ShOther(id))
	}},
	{name: "Errorf(%w-and-%w,other,status)", class: "multi", carries: true, mk: func(st error, id int64) error {
		return fmt.Errorf("verif #%d: %w and %w", id, vfC01ShOther(id), st)
	}},
	{name: "custom-Unwrap()[]error", class: "multi", carries: true, mk: func(st error, id int64) error {
		return &vfC01ShMultiErr{errs: []error{vfC01ShOther(id), st}, id: id}
	}},
	{name: "foreign-GRPCStatus-method-inside-OpError-like-wrapper", class: "method", carries: true, mk: func(st error, id int64) error {
		s, _ := status.FromError(st)
		return &vfC01ShOpErr{op: fmt.Sprintf("verif call #%d", id), err: &vfC01StatusErr{st: s, id: id}}
	}},
	{name: "control-same-text-no-status", class: "control", mk: func(st error, id int64) error {
		return errors.New(st.Error())
	}},
	{name: "control-GRPCStatus-method-returns-nil", class: "control", mk: func(st error, id int64) error {
		return &vfC01NilStatusErr{id: id}
	}},
}

var (
	vfC01StFailCodes = []codes.Code{codes.DeadlineExceeded, codes.ResourceExhausted}
	vfC01StOkCodes   = []codes.Code{codes.NotFound, codes.Canceled}
)

func vfC01StSelfCheck() error {
	for _, c := range append(append([]codes.Code{}, vfC01StFailCodes...), vfC01StOkCodes...) {
		for _, sh := range vfC01StShapes {
			e := sh.mk(status.Error(c, "verif"), 1)
			want := codes.Unknown
			if sh.carries {
				want = c
			}
			if got := status.Code(e); got != want {
				return fmt.Errorf("status shape %s of %v: status.Code says %v, the table says %v", sh.name, c, got, want)
			}
			if errors.Is(e, context.DeadlineExceeded) || errors.Is(e, breaker.ErrServiceUnavailable) {
				return fmt.Errorf("status shape %s of %v is related to a sentinel", sh.name, c)
			}
		}
	}
	return nil
}

var vfC01ShFailOuts, vfC01ShOkOuts []vfC01Outcome

func init() {
	const site = "zrpc-server"
	ok, fail := vfC01ShCombos(false, vfC01ShSens...)
	add := func(cbs []vfC01ShCombo) {
		for i := range cbs {
			cb := &cbs[i]
			out := vfC01Outcome{name: "shape:" + cb.name(), fail: cb.fail, mk: cb.mk, key: cb.key(site), ref: cb.what(), class: cb.sh.class,
				isUnav: cb.sh.related && cb.sen.err == breaker.ErrServiceUnavailable}
			if cb.fail {
				vfC01ShFailOuts = append(vfC01ShFailOuts, out)
			} else {
				vfC01ShOkOuts = append(vfC01ShOkOuts, out)
			}
		}
	}
	add(fail)
	add(ok)
	// a sentinel joined with an error that carries a NON-failing status: the sentinel decides
	for _, sen := range vfC01ShSens {
		sen := sen
		vfC01ShFailOuts = append(vfC01ShFailOuts, vfC01Outcome{
			name: "shape:" + sen.name + "/errors.Join(status-NotFound,sentinel)", fail: true, class: "multi",
			isUnav: sen.err == breaker.ErrServiceUnavailable,
			key:    "C01/" + site + "/misclassified/" + sen.name + "/multi",
			ref:    "errors.Is(err, " + sen.name + ") is true although the error also carries the status NotFound, so an admitted call is a failure",
			mk: func(id int64) error {
				return errors.Join(status.Error(codes.NotFound, fmt.Sprintf("verif #%d", id)), sen.err)
			}})
	}
	for _, fails := range []bool{true, false} {
		cs := vfC01StOkCodes
		if fails {
			cs = vfC01StFailCodes
		}
		for _, c := range cs {
			for _, sh := range vfC01StShapes {
				c, sh := c, sh
				out := vfC01Outcome{name: "shape:status-" + c.String() + "/" + sh.name, class: sh.class,
					fail: fails && sh.carries,
					key:  "C01/" + site + "/misclassified/status-" + c.String() + "/" + sh.class,
					mk: func(id int64) error {
						return sh.mk(status.Error(c, fmt.Sprintf("verif scripted #%d", id)), id)
					}}
				switch {
				case !sh.carries:
					out.ref = "status.Code(err) is Unknown (the error carries no status), so an admitted call is a success"
				case fails:
					out.ref = "status.Code(err) is " + c.String() + ", so an admitted call is a failure"
				default:
					out.ref = "status.Code(err) is " + c.String() + ", so an admitted call is a success"
				}
				if out.fail {
					vfC01ShFailOuts = append(vfC01ShFailOuts, out)
				} else {
					vfC01ShOkOuts = append(vfC01ShOkOuts, out)
				}
			}
		}
	}
}

// ------------------------------------------------------------------ families

func vfC01ShapeObs(c *kit.Case, out *vfC01Outcome, calls int64) {
	c.Obs("zrpc_server_shape_calls", calls)
	c.Obs("zrpc_server_shape_calls_"+out.class, calls)
}

// vfC01ShapeEffect: every call's handler returns ONE shape that must be recorded as a failure.
func vfC01ShapeEffect(c *kit.Case, vc *kit.VClock) {
	out := vfC01ShFailOuts[c.Index%len(vfC01ShFailOuts)]
	stream := (c.Index/len(vfC01ShFailOuts))%2 == 1
	h := vfC01NewHist(c, vc, "zrpc-server-shape-effect", []bool{stream})
	rej := 0
	for i := 0; i < vfC01ShapeWarmN+vfC01ShapeN && !c.Violated(); i++ {
		ctxMode := vfC01CtxNone
		if c.R.Chance(0.3) {
			ctxMode = vfC01CtxLive
		}
		if h.step(0, 10*time.Millisecond, out, ctxMode, 0, false) == vfC01Rejected && i >= vfC01ShapeWarmN {
			rej++
		}
	}
	kind := "unary"
	if stream {
		kind = "stream"
	}
	c.Obs("zrpc_server_shape_effectiveness_runs", 1)
	c.Obs("zrpc_server_shape_effectiveness_runs_"+kind, 1)
	vfC01ShapeObs(c, &out, vfC01ShapeWarmN+vfC01ShapeN)
	if !c.Violated() && rej*100 < vfC01ShapeN*80 {
		c.Viol(out.key,
			fmt.Sprintf("after a %d-call warm-up, %d consecutive %s calls whose handler returns %s at 100 per virtual second: only %d rejected - they are recorded as successes (%s)", vfC01ShapeWarmN, vfC01ShapeN, kind, out.name, rej, out.ref),
			map[string]any{"calls": vfC01ShapeN, "rejected": rej, "shape": out.name, "reference": out.ref, "interceptor": kind, "statistical": true, "first_calls": h.log[:80]})
	}
	c.Sig(true, "zrpc-server-shape-effect", out.name, stream, rej)
	if c.Index == 0 {
		c.Sample("zrpc-server-shape-effect", 1, map[string]any{"shape": out.name, "reference": out.ref, "interceptor": kind, "failing_calls": vfC01ShapeN, "rejected": rej})
	}
	h.finish()
}

// vfC01ShapeFlood: at most 5 genuine failures, then 60-120 calls whose handler returns ONE shape
// that must be recorded as a success: no call may ever be rejected.
func vfC01ShapeFlood(c *kit.Case, vc *kit.VClock) {
	r := c.R
	out := vfC01ShOkOuts[c.Index%len(vfC01ShOkOuts)]
	stream := (c.Index/len(vfC01ShOkOuts))%2 == 1
	h := vfC01NewHist(c, vc, "zrpc-server-shape-flood", []bool{stream})
	h.relabel = out.key
	pre := r.Intn(6)
	for i := 0; i < pre && !c.Violated(); i++ {
		h.step(0, time.Millisecond, vfC01FailOuts[r.Intn(len(vfC01FailOuts))], vfC01CtxNone, 0, false)
	}
	n := r.Range(60, 120)
	gap := kit.Choose(r, []time.Duration{0, time.Millisecond, 10 * time.Millisecond, 60 * time.Millisecond})
	for i := 0; i < n && !c.Violated(); i++ {
		h.step(0, gap, out, r.Intn(2), 0, r.Bool())
	}
	if c.Violated() {
		c.Sample("shape-misclassified", 2, map[string]any{"site": "zrpc-server", "shape": out.name, "reference": out.ref, "stream": stream})
	}
	c.Obs("zrpc_server_shape_success_floods", 1)
	vfC01ShapeObs(c, &out, int64(n))
	c.Sig(true, "zrpc-server-shape-flood", out.name, stream, pre, n, int64(gap), h.rej)
	if c.Index == 0 {
		c.Sample("zrpc-server-shape-flood", 1, map[string]any{"shape": out.name, "reference": out.ref, "calls": n, "rejected": h.rej})
	}
	h.finish()
}
