package serverinterceptors

// zrpc-server-many: accumulation (the in-package twin of harness/c04/many_test.go). MANY calls
// through ONE UnaryTimeoutInterceptor whose handlers ignore the deadline and stay parked on a
// channel that the harness closes only after it has observed that EVERY call has returned
// (causal release, DESIGN §3.5): the handlers of the earlier / concurrent calls are all still
// running past their deadlines while the later calls are made. "The zRPC-server wrapper returns at
// that deadline without waiting for work that ignores it" - also not for the work of OTHER calls.
//
// Phases: "concurrent" (all at once) and "accumulated" (one call after the other, every earlier
// handler still parked). A call that has not returned within the patience while the handlers are
// parked and returns once they are released is re-run with the whole accumulation and doubled
// patience; reproduced => waits-for-work. Calls that returned while the handlers were parked must
// carry (nil, status Canceled|DeadlineExceeded), and only if the expiry had happened.

import (
	"context"
	"fmt"
	"sync/atomic"
	"time"

	kit "github.com/zeromicro/go-zero/internal/verifkit"

	"google.golang.org/grpc"
	"google.golang.org/grpc/codes"
	"google.golang.org/grpc/status"
)

type vfManyCall struct {
	Idx         int           `json:"idx"`
	Expiry      string        `json:"expiry"` // timer | per-method-timer | parent-earlier | parent-later | pre | inline | external
	Method      string        `json:"method"`
	Timeout     time.Duration `json:"effective_timeout"`
	ParentAfter time.Duration `json:"parent_deadline_after,omitempty"`
	Tag         string        `json:"tag"`

	parent      context.Context
	cancel      context.CancelFunc
	cleanup     []context.CancelFunc
	parentDl    time.Time
	hasParentDl bool

	started  chan struct{}
	returned chan struct{}
	workDone chan struct{}
	cancelS  atomic.Uint64
	workRetS atomic.Uint64
	heldTO   atomic.Bool

	t0, tRet time.Time
	retS     uint64
	gotResp  any
	gotErr   error
	panicVal any
}

func vfManyExpiryClass(mc *vfManyCall) string {
	switch mc.Expiry {
	case "pre", "inline", "external":
		return "cancel"
	}
	return "timer"
}

type vfManyHold struct {
	release  chan struct{}
	releaseS atomic.Uint64
}

const vfManyHoldWatchdog = 120 * time.Second

// the two configured timeouts of the shared interceptor (real, short) - calls whose expiry is logical
// run through a second interceptor instance with 1 h timeouts
const (
	vfManyDefault = 7 * time.Millisecond
	vfManySlow    = 3 * time.Millisecond
)

func vfManyGen(r *kit.Rand, n int, prefix string, sequential bool) []*vfManyCall {
	calls := make([]*vfManyCall, n)
	for i := range calls {
		mc := &vfManyCall{Idx: i, Tag: fmt.Sprintf("%s-%d", prefix, i), Method: "/verif.Svc/Any", started: make(chan struct{}), returned: make(chan struct{}), workDone: make(chan struct{})}
		short := time.Duration(1000+r.Intn(9000)) * time.Microsecond
		w := []int{2, 2, 2, 2, 2, 3, 2}
		if sequential {
			short = time.Duration(500+r.Intn(2000)) * time.Microsecond
			w = []int{1, 2, 1, 1, 3, 4, 2}
		}
		switch r.Pick(w...) {
		case 0:
			mc.Expiry, mc.Timeout = "timer", vfManyDefault
		case 1:
			mc.Expiry, mc.Timeout, mc.Method = "per-method-timer", vfManySlow, vfSlowMethod
		case 2:
			mc.Expiry, mc.Timeout, mc.ParentAfter = "parent-earlier", time.Hour, short
		case 3:
			mc.Expiry, mc.Timeout, mc.ParentAfter = "parent-later", vfManyDefault, time.Hour
		case 4:
			mc.Expiry, mc.Timeout = "pre", time.Hour
		case 5:
			mc.Expiry, mc.Timeout = "inline", time.Hour
		case 6:
			mc.Expiry, mc.Timeout = "external", time.Hour
		}
		calls[i] = mc
	}
	return calls
}

type vfManyRun struct {
	calls     []*vfManyCall
	hold      *vfManyHold
	suspects  []*vfManyCall
	lateAfter []*vfManyCall
	notMade   int
	joined    bool
}

func vfManyDo(calls []*vfManyCall, phase string, p time.Duration) *vfManyRun {
	run := &vfManyRun{calls: calls, hold: &vfManyHold{release: make(chan struct{})}}
	h := run.hold
	// ONE interceptor for all calls with real timeouts, ONE for all calls whose expiry is placed logically
	short := UnaryTimeoutInterceptor(vfManyDefault, MethodTimeoutConf{FullMethod: vfSlowMethod, Timeout: vfManySlow})
	far := UnaryTimeoutInterceptor(time.Hour, MethodTimeoutConf{FullMethod: vfSlowMethod, Timeout: 2 * time.Hour})
	launch := func(mc *vfManyCall) {
		base := context.Background()
		if mc.ParentAfter > 0 {
			mc.parentDl = time.Now().Add(mc.ParentAfter)
			mc.hasParentDl = true
			cx, cf := context.WithDeadline(base, mc.parentDl)
			base = cx
			mc.cleanup = append(mc.cleanup, cf)
		}
		mc.parent, mc.cancel = context.WithCancel(base)
		if mc.Expiry == "pre" {
			mc.cancelS.Store(kit.Stamp())
			mc.cancel()
		}
		if mc.Expiry == "external" {
			go func() {
				t := time.NewTimer(p / 2)
				select {
				case <-mc.started:
				case <-t.C:
				case <-h.release:
				}
				t.Stop()
				mc.cancelS.Store(kit.Stamp())
				mc.cancel()
			}()
		}
		handler := func(ctx context.Context, req any) (any, error) {
			defer close(mc.workDone)
			close(mc.started)
			if mc.Expiry == "inline" {
				mc.cancelS.Store(kit.Stamp())
				mc.cancel()
			}
			t := time.NewTimer(vfManyHoldWatchdog)
			select {
			case <-h.release:
			case <-t.C:
				mc.heldTO.Store(true)
			}
			t.Stop()
			mc.workRetS.Store(kit.Stamp())
			return &vfResp{Tag: mc.Tag}, nil
		}
		go func() {
			defer func() {
				if pv := recover(); pv != nil {
					mc.panicVal = pv
				}
				mc.retS = kit.Stamp()
				mc.tRet = time.Now()
				close(mc.returned)
			}()
			ic := far
			if mc.Timeout < time.Hour {
				ic = short
			}
			mc.t0 = time.Now()
			mc.gotResp, mc.gotErr = ic(mc.parent, mc.Tag, &grpc.UnaryServerInfo{FullMethod: mc.Method}, handler)
		}()
	}
	made := len(calls)
	if phase == "concurrent" {
		for _, mc := range calls {
			launch(mc)
		}
		t := time.NewTimer(p)
		expired := false
		for _, mc := range calls {
			if expired {
				select {
				case <-mc.returned:
				default:
					run.suspects = append(run.suspects, mc)
				}
				continue
			}
			select {
			case <-mc.returned:
			case <-t.C:
				expired = true
				run.suspects = append(run.suspects, mc)
			}
		}
		t.Stop()
	} else {
		for i, mc := range calls {
			launch(mc)
			if !vfBlockUntil(mc.returned, p) {
				run.suspects = append(run.suspects, mc)
				made = i + 1
				break
			}
		}
	}
	run.notMade = len(calls) - made
	run.calls = calls[:made]
	h.releaseS.Store(kit.Stamp())
	close(h.release)
	t := time.NewTimer(vfWrapWatchdog)
	defer t.Stop()
	for _, mc := range run.calls {
		select {
		case <-mc.returned:
		case <-t.C:
			vfStuck.Store(true)
			return run
		}
	}
	t2 := time.NewTimer(vfJoinWatchdog)
	defer t2.Stop()
	for _, mc := range run.calls {
		select {
		case <-mc.workDone:
		case <-t2.C:
			return run
		}
	}
	for _, mc := range run.calls {
		mc.cancel()
		for _, cf := range mc.cleanup {
			cf()
		}
	}
	for _, mc := range run.suspects {
		if mc.retS > h.releaseS.Load() {
			run.lateAfter = append(run.lateAfter, mc)
		}
	}
	run.joined = true
	return run
}

func vfManyWitness(mc *vfManyCall, run *vfManyRun, phase string) map[string]any {
	started := false
	select {
	case <-mc.started:
		started = true
	default:
	}
	return map[string]any{"phase": phase, "call": mc, "calls_made": len(run.calls), "calls_not_made_any_more": run.notMade,
		"calls_not_returned_within_patience": len(run.suspects), "of_these_returned_after_release": len(run.lateAfter),
		"returned_resp": fmt.Sprint(mc.gotResp), "returned_err": fmt.Sprint(mc.gotErr), "wrapper_panic_value": vfClip(fmt.Sprint(mc.panicVal), 300),
		"cancel_stamp": mc.cancelS.Load(), "wrapper_return_stamp": mc.retS, "release_stamp": run.hold.releaseS.Load(), "work_return_stamp": mc.workRetS.Load(),
		"own_handler_started": started, "elapsed_at_return": mc.tRet.Sub(mc.t0).String()}
}

func vfManyViol(c *kit.Case, kind, class, what string, w any) {
	c.Viol("C04/zrpc-server-many/"+kind+"/"+class, what, w)
}

func vfManyCase(c *kit.Case) {
	if vfSkipIfStuck(c) {
		return
	}
	r := c.R
	phase := []string{"concurrent", "accumulated"}[c.Index%2]
	n := r.Range(150, 400)
	if kit.Thorough() {
		n = r.Range(150, 1200)
	}
	seedCalls := r.Split("calls")
	mk := func() []*vfManyCall {
		return vfManyGen(kit.NewRand(seedCalls.At(0)), n, fmt.Sprintf("zm%d", c.Index), phase == "accumulated")
	}
	var run *vfManyRun
	kit.WithLabel(c.ID, func() { run = vfManyDo(mk(), phase, vfPatience()) })
	if !run.joined {
		c.Inconclusive("zrpc-server-many: could not join every call and every handler")
		return
	}
	c.Obs("zsm_runs_"+phase, 1)
	c.Obs("zsm_calls", int64(len(run.calls)))
	evals := int64(0)
	outcomes := map[string]int{}
	for _, mc := range run.calls {
		if mc.heldTO.Load() {
			c.Inconclusive("zrpc-server-many: a parked handler was never released")
			return
		}
		if mc.retS > run.hold.releaseS.Load() {
			continue
		}
		evals++
		cs := mc.cancelS.Load()
		cancelled := cs != 0 && cs < mc.retS
		dl := mc.t0.Add(mc.Timeout)
		if mc.hasParentDl && mc.parentDl.Before(dl) {
			dl = mc.parentDl
		}
		deadlinePassed := !mc.tRet.Before(dl)
		cls := mc.Expiry
		o := "timeout"
		st, isStatus := status.FromError(mc.gotErr)
		switch {
		case mc.panicVal != nil:
			o = "panic"
			vfManyViol(c, "panic", "unexpected/"+cls, "the interceptor panicked although the handler had not (it was still parked)", vfManyWitness(mc, run, phase))
		case mc.gotResp == nil && mc.gotErr != nil && isStatus && st.Code() == codes.Canceled:
			if !cancelled {
				vfManyViol(c, "timeout-result-without-expiry", "canceled/"+cls, "status Canceled although the caller's context had not been cancelled", vfManyWitness(mc, run, phase))
			}
		case mc.gotResp == nil && mc.gotErr != nil && isStatus && st.Code() == codes.DeadlineExceeded:
			if !deadlinePassed {
				vfManyViol(c, "timeout-result-without-expiry", "deadline/"+cls, fmt.Sprintf("status DeadlineExceeded after %s, before any deadline could have passed (effective timeout %s)", mc.tRet.Sub(mc.t0), mc.Timeout), vfManyWitness(mc, run, phase))
			}
		default:
			o = "mixture"
			kind := "other"
			if mc.gotResp != nil {
				kind = "resp-before-handler-returned"
			}
			vfManyViol(c, "mixture", kind+"/"+cls, fmt.Sprintf("the interceptor returned (%v, %v) while the handler was still parked: not (nil, Canceled|DeadlineExceeded)", mc.gotResp, mc.gotErr), vfManyWitness(mc, run, phase))
		}
		outcomes[mc.Expiry+"/"+o]++
		c.Obs("zsm_returned_while_all_handlers_parked", 1)
		c.Obs("zsm_returned_while_all_handlers_parked_"+mc.Expiry, 1)
		c.Obs("zsm_outcome_"+o, 1)
	}
	if len(run.calls) > 128 && len(run.suspects) == 0 {
		c.Obs("zsm_runs_with_more_than_128_parked_handlers", 1)
	}
	switch {
	case len(run.lateAfter) > 0 && vfWaitBroken.Load():
		c.Obs("zs_wait_dependency_after_first_report", 1)
	case len(run.lateAfter) > 0:
		mc := run.lateAfter[0]
		wit := vfManyWitness(mc, run, phase)
		var again *vfManyRun
		kit.WithLabel(c.ID, func() { again = vfManyDo(mk(), phase, 2*vfBasePatience) })
		switch {
		case !again.joined:
			c.Inconclusive("zrpc-server-many: does-not-wait re-run could not be joined")
		case len(again.lateAfter) > 0:
			vfWaitBroken.Store(true)
			vfManyViol(c, "waits-for-work", phase+"/"+vfManyExpiryClass(mc), fmt.Sprintf("a call did not return while the handlers of the other calls were parked although its context was done: patience %s and again %s ran out, it returned only after they were released", vfBasePatience, 2*vfBasePatience), wit)
		default:
			c.Inconclusive("zrpc-server-many: a call did not return within patience once, not reproduced with doubled patience")
		}
	case len(run.suspects) > 0 && vfWaitBroken.Load():
		c.Obs("zs_wait_dependency_after_first_report", 1)
	case len(run.suspects) > 0:
		c.Inconclusive("zrpc-server-many: calls had not returned within the patience but had before the handlers were released")
	}
	c.Sig(len(run.calls) > 128 && len(run.suspects) == 0, "zsm", phase, len(run.calls)/25, len(run.suspects) > 0, len(outcomes))
	c.Sample("zrpc-server-many", 1, map[string]any{"phase": phase, "calls": len(run.calls), "outcomes": outcomes, "first_calls": run.calls[:3]})
	c.Evals(evals)
	vfCensus(c)
}
