package main

import (
	"fmt"
	"os"
	"path/filepath"
	"strconv"
	"syscall"
	"time"
)

// acquireMachineSlot limits the number of test children that run at the same time on this machine, across
// all vcheck processes (several checks started at once, e.g. by parallel builders or a sweep script, would
// otherwise run 16 children each and overload the machine far enough for watchdogs to fire). A slot is an
// flock on one of N files under $VERIF_SCRATCH/verif-slots; the kernel drops the lock when the holder dies.
// N = VERIF_MACHINE_SLOTS (default 16 = the driver's own per-check limit, so a single check never waits).
// The child's watchdog (timeout(1)) only starts after the slot was obtained. Any failure of the mechanism
// itself (directory not writable, flock unsupported) disables it for this child: it never fails a run.
func acquireMachineSlot() func() {
	n := 16
	if v, err := strconv.Atoi(os.Getenv("VERIF_MACHINE_SLOTS")); err == nil {
		n = v
	}
	if n <= 0 {
		return func() {}
	}
	base := os.Getenv("VERIF_SCRATCH")
	if base == "" {
		base = "/var/tmp"
	}
	dir := filepath.Join(base, "verif-slots")
	if err := os.MkdirAll(dir, 0o777); err != nil {
		return func() {}
	}
	start := os.Getpid() % n
	for {
		for i := 0; i < n; i++ {
			k := (start + i) % n
			f, err := os.OpenFile(filepath.Join(dir, fmt.Sprintf("slot-%d", k)), os.O_CREATE|os.O_RDWR, 0o666)
			if err != nil {
				return func() {}
			}
			err = syscall.Flock(int(f.Fd()), syscall.LOCK_EX|syscall.LOCK_NB)
			if err == nil {
				return func() {
					syscall.Flock(int(f.Fd()), syscall.LOCK_UN)
					f.Close()
				}
			}
			f.Close()
			if err != syscall.EWOULDBLOCK && err != syscall.EAGAIN {
				return func() {}
			}
		}
		time.Sleep(250 * time.Millisecond)
	}
}
