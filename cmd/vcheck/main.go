// vcheck is the driver of the runtime-monitoring checks (see /verif/DESIGN.md §1).
//
//	vcheck <ID> <quick|thorough>
//	vcheck <ID> --replay <file>
//
// It builds the property's test binaries from /repo's current working tree with
// -race -tags verif, runs them as child processes (one per shard), merges the
// JSONL they emit, de-duplicates race reports, matches violations against
// known_findings.json, writes evidence/<ID>.json and exits
// 0 (held on what was observed) / 1 (violation) / 2 (broken or inconclusive run).
package main

import (
	"bufio"
	"encoding/json"
	"fmt"
	"os"
	"os/exec"
	"path/filepath"
	"regexp"
	"sort"
	"strconv"
	"strings"
	"sync"
	"time"
)

// repo is the tree under test: /repo, or $VERIF_REPO for scratch worktrees (mutation testing only;
// evidence and replays are then written under $VERIF_REPO/.verif-out instead of /verif).
var repo = "/repo"

var altRepo bool

type tierInt struct {
	Quick    int `json:"quick"`
	Thorough int `json:"thorough"`
}

func (t tierInt) get(tier string) int {
	if tier == "thorough" {
		return t.Thorough
	}
	return t.Quick
}

type target struct {
	Name     string   `json:"name"`
	Kind     string   `json:"kind"`  // black | white | goctl
	Pkg      string   `json:"pkg"`   // black: dir under harness (./c12); white: go-zero import path relative to /repo (./core/breaker); goctl: dir under goctlharness
	Files    []string `json:"files"` // white: overlay test files relative to /verif
	Run      string   `json:"run"`   // -test.run regexp
	Shards   tierInt  `json:"shards"`
	TimeoutS tierInt  `json:"timeout_s"`
	NoRace   bool     `json:"no_race"`
	Optional bool     `json:"optional"` // build failure => inconclusive part, not a broken run
	Tiers    []string `json:"tiers"`    // empty = both
	Env      []string `json:"env"`
	// schedule amplifier (amp.go): go-zero package dirs whose synchronisation points get a
	// random yield in a second binary; AmpShards = number of EXTRA children run with it
	// (they repeat shards 0..AmpShards-1 of the case list under widened interleavings).
	Amplify   []string `json:"amplify"`
	AmpShards tierInt  `json:"amp_shards"`
	AmpRate   int      `json:"amp_rate"` // yield at about 1 in AmpRate visits (default 8)
	// AmpFamilies: the amplified children run only these case families (the concurrent ones; widening
	// schedules is pointless for sequential histories and slows them down a lot). Empty = all.
	AmpFamilies []string `json:"amp_families"`
}

type floor struct {
	Evaluations        int64 `json:"evaluations"`
	DistinctNontrivial int   `json:"distinct_nontrivial"`
}

type propCfg struct {
	Property        string           `json:"property"`
	Level           string           `json:"level"`
	Rule            string           `json:"rule"`
	Assumptions     []string         `json:"assumptions"`
	Targets         []target         `json:"targets"`
	Floor           map[string]floor `json:"floor"`
	RaceIsViolation bool             `json:"race_is_violation"`
	RacePkgs        []string         `json:"race_pkgs"` // go-zero package path fragments whose races count
	CrashIsViol     bool             `json:"crash_is_violation"`
	RequiredObs     map[string]int64 `json:"required_obs"` // obs counter -> minimum (quick tier); missing => broken run
}

type finding struct {
	Property string `json:"property"`
	Key      string `json:"key"`
	Status   string `json:"status"`
	Commit   string `json:"commit,omitempty"`
	What     string `json:"what"`
}

type viol struct {
	ID      string          `json:"id"`
	Family  string          `json:"family"`
	Index   int             `json:"index"`
	Seed    uint64          `json:"seed"`
	Key     string          `json:"key"`
	What    string          `json:"what"`
	Witness json.RawMessage `json:"witness"`
	Target  string          `json:"target"`
	count   int
}

var verifDir string

func main() {
	if len(os.Args) < 3 {
		fmt.Fprintln(os.Stderr, "usage: vcheck <ID> <quick|thorough> | vcheck <ID> --replay <file>")
		os.Exit(2)
	}
	exe, _ := os.Executable()
	verifDir = filepath.Dir(filepath.Dir(exe))
	if v := os.Getenv("VERIF_DIR"); v != "" {
		verifDir = v
	}
	if v := os.Getenv("VERIF_REPO"); v != "" && v != "/repo" {
		repo = v
		altRepo = true
	}
	id := os.Args[1]
	tier := os.Args[2]
	replay := ""
	if tier == "--replay" {
		if len(os.Args) < 4 {
			fmt.Fprintln(os.Stderr, "missing replay file")
			os.Exit(2)
		}
		replay = os.Args[3]
		tier = "quick"
	}
	if tier != "quick" && tier != "thorough" {
		fmt.Fprintln(os.Stderr, "tier must be quick or thorough")
		os.Exit(2)
	}
	if t := os.Getenv("VERIF_TIER"); replay == "" && (t == "quick" || t == "thorough") && len(os.Args) == 2 {
		tier = t
	}
	os.Exit(run(id, tier, replay))
}

func goEnv() []string {
	env := os.Environ()
	env = append(env, "GOFLAGS=-mod=mod", "GOPROXY=off", "GOSUMDB=off", "GOTOOLCHAIN=local", "CGO_ENABLED=1")
	return env
}

func broken(format string, a ...any) int {
	fmt.Printf("BROKEN-RUN: "+format+"\n", a...)
	return 2
}

var curID string

func run(id, tier, replay string) int {
	start := time.Now()
	curID = id
	var cfg propCfg
	b, err := os.ReadFile(filepath.Join(verifDir, "props", id+".json"))
	if err != nil {
		return broken("no config for %s: %v", id, err)
	}
	if err := json.Unmarshal(b, &cfg); err != nil {
		return broken("bad config: %v", err)
	}
	seed := uint64(1)
	if v, err := strconv.ParseUint(os.Getenv("VERIF_SEED"), 10, 64); err == nil {
		seed = v
	}

	scratchRoot := os.Getenv("VERIF_SCRATCH")
	if scratchRoot == "" {
		scratchRoot = "/var/tmp"
	}
	scratch, err := os.MkdirTemp(scratchRoot, "vcheck-"+id+"-")
	if err != nil {
		return broken("scratch: %v", err)
	}
	defer os.RemoveAll(scratch)

	var only struct {
		Target string `json:"target"`
		Family string `json:"family"`
		Index  int    `json:"index"`
		Seed   uint64 `json:"run_seed"`
		Tier   string `json:"tier"`
	}
	if replay != "" {
		rb, err := os.ReadFile(replay)
		if err != nil {
			return broken("replay file: %v", err)
		}
		if err := json.Unmarshal(rb, &only); err != nil {
			return broken("replay file: %v", err)
		}
		seed = only.Seed
		if only.Tier != "" {
			tier = only.Tier
		}
	}

	// ---- build
	type built struct {
		t   target
		bin string
		amp bool
	}
	ampInfo := map[string]int64{}
	buildSecs := map[string]float64{}
	var bins []built
	var inconclusive []string
	for i, t := range cfg.Targets {
		if len(t.Tiers) > 0 && !contains(t.Tiers, tier) {
			continue
		}
		if replay != "" && only.Target != "" && only.Target != t.Name {
			continue
		}
		bin := filepath.Join(scratch, fmt.Sprintf("t%d.test", i))
		tb := time.Now()
		msg, err := build(t, bin, scratch, i, nil)
		buildSecs["build_s_"+t.Name] = time.Since(tb).Seconds()
		if err != nil {
			if t.Optional {
				inconclusive = append(inconclusive, fmt.Sprintf("target %s did not build (internals renamed?): %s", t.Name, firstLines(msg, 6)))
				fmt.Printf("INCONCLUSIVE property=%s target=%s build failed\n", id, t.Name)
				continue
			}
			fmt.Println(msg)
			return broken("build of target %s failed", t.Name)
		}
		bins = append(bins, built{t, bin, false})
		if len(t.Amplify) > 0 && t.AmpShards.get(tier) > 0 && replay == "" {
			ov, files, points, skipped := ampOverlay(t.Amplify, filepath.Join(scratch, fmt.Sprintf("amp%d", i)))
			abin := filepath.Join(scratch, fmt.Sprintf("t%da.test", i))
			tb := time.Now()
			msg, err := build(t, abin, scratch, i, ov)
			buildSecs["build_s_"+t.Name+"_amplified"] = time.Since(tb).Seconds()
			if err != nil {
				// the amplified variant is an extra: its failure to build is recorded, never a verdict
				inconclusive = append(inconclusive, fmt.Sprintf("target %s: amplified variant did not build: %s", t.Name, firstLines(msg, 8)))
				fmt.Printf("INCONCLUSIVE property=%s target=%s amplified build failed\n", id, t.Name)
			} else {
				bins = append(bins, built{t, abin, true})
				ampInfo["amp_files_instrumented"] += int64(files)
				ampInfo["amp_sync_points_instrumented"] += int64(points)
			}
			for _, sk := range skipped {
				inconclusive = append(inconclusive, "amplifier skipped "+sk)
			}
		}
	}
	if len(bins) == 0 {
		return broken("nothing to run")
	}

	// ---- run shards
	type shardRes struct {
		target string
		out    string
		log    string
		race   string
		err    error
		killed bool
	}
	var results []shardRes
	var mu sync.Mutex
	var wg sync.WaitGroup
	sem := make(chan struct{}, 16)
	for _, bt := range bins {
		shards := bt.t.Shards.get(tier)
		if shards <= 0 {
			shards = 1
		}
		if replay != "" {
			shards = 1
		}
		nrun := shards
		if bt.amp {
			nrun = bt.t.AmpShards.get(tier)
			ampInfo["amp_children"] += int64(nrun)
		}
		to := bt.t.TimeoutS.get(tier)
		if to <= 0 {
			to = 600
		}
		for s := 0; s < nrun; s++ {
			wg.Add(1)
			go func(bt built, s, shards, to int) {
				defer wg.Done()
				sem <- struct{}{}
				defer func() { <-sem }()
				releaseSlot := acquireMachineSlot()
				defer releaseSlot()
				tag := fmt.Sprintf("%s.%d", filepath.Base(bt.bin), s)
				s = s % shards
				r := shardRes{target: bt.t.Name,
					out:  filepath.Join(scratch, tag+".jsonl"),
					log:  filepath.Join(scratch, tag+".log"),
					race: filepath.Join(scratch, tag+".race")}
				runRe := bt.t.Run
				if runRe == "" {
					runRe = "^TestVerif"
				}
				cmd := exec.Command("timeout", "-s", "QUIT", "-k", "20", strconv.Itoa(to), bt.bin,
					"-test.run", runRe, "-test.timeout", "0", "-test.count", "1")
				if coverOn() && !bt.amp {
					cmd.Args = append(cmd.Args, "-test.coverprofile", filepath.Join(scratch, tag+".cov"))
				}
				cmd.Dir = scratch
				env := append(os.Environ(),
					"VERIF_SEED="+strconv.FormatUint(seed, 10), "VERIF_TIER="+tier,
					"VERIF_SHARD="+strconv.Itoa(s), "VERIF_SHARDS="+strconv.Itoa(shards),
					"VERIF_OUT="+r.out, "VERIF_SCRATCH_DIR="+scratch,
					"GORACE=halt_on_error=0 log_path="+r.race,
					"GOTRACEBACK=all")
				if replay != "" {
					env = append(env, "VERIF_ONLY="+only.Family+"/"+strconv.Itoa(only.Index))
				}
				env = append(env, bt.t.Env...)
				if bt.amp {
					rate := bt.t.AmpRate
					if rate <= 0 {
						rate = 8
					}
					env = append(env, "VERIF_AMP="+strconv.Itoa(rate))
					if len(bt.t.AmpFamilies) > 0 {
						env = append(env, "VERIF_FAMILIES="+strings.Join(bt.t.AmpFamilies, ","))
					}
				}
				cmd.Env = env
				lf, _ := os.Create(r.log)
				cmd.Stdout, cmd.Stderr = lf, lf
				err := cmd.Run()
				lf.Close()
				if ee, ok := err.(*exec.ExitError); ok {
					if ee.ExitCode() == 124 || ee.ExitCode() == 137 {
						r.killed = true
					}
				}
				r.err = err
				mu.Lock()
				results = append(results, r)
				mu.Unlock()
			}(bt, s, shards, to)
		}
	}
	wg.Wait()

	// ---- merge
	var evaluations int64
	sigs := map[string]bool{}
	obs := map[string]int64{}
	var samples []json.RawMessage
	sampleByClass := map[string]int{}
	viols := map[string]*viol{}
	var harnessErrors []string
	brokenRun := false
	children := 0
	for _, r := range results {
		children++
		f, err := os.Open(r.out)
		if err != nil {
			harnessErrors = append(harnessErrors, fmt.Sprintf("%s: no output (%v): %s", r.target, r.err, tail(r.log, 30)))
			brokenRun = true
			continue
		}
		sc := bufio.NewScanner(f)
		sc.Buffer(make([]byte, 1<<20), 64<<20)
		ended := false
		var lastCase, lastDone string
		var lastCaseLine []byte
		for sc.Scan() {
			var m map[string]json.RawMessage
			if json.Unmarshal(sc.Bytes(), &m) != nil {
				continue
			}
			var t string
			json.Unmarshal(m["t"], &t)
			switch t {
			case "case":
				json.Unmarshal(m["id"], &lastCase)
				lastCaseLine = append(lastCaseLine[:0], sc.Bytes()...)
			case "done":
				json.Unmarshal(m["id"], &lastDone)
				var n int64
				json.Unmarshal(m["n"], &n)
				evaluations += n
			case "sig":
				var s string
				json.Unmarshal(m["sig"], &s)
				sigs[s] = true
			case "obs":
				var k string
				var n int64
				json.Unmarshal(m["k"], &k)
				json.Unmarshal(m["n"], &n)
				obs[k] += n
			case "sample":
				var cl string
				json.Unmarshal(m["class"], &cl)
				if sampleByClass[cl] < 2 && len(samples) < 12 {
					sampleByClass[cl]++
					samples = append(samples, json.RawMessage(append([]byte(nil), sc.Bytes()...)))
				}
			case "viol":
				var v viol
				json.Unmarshal(sc.Bytes(), &v)
				v.Target = r.target
				if old, ok := viols[v.Key]; ok {
					old.count++
				} else {
					v.count = 1
					viols[v.Key] = &v
				}
			case "inconclusive":
				var why, cid string
				json.Unmarshal(m["why"], &why)
				json.Unmarshal(m["id"], &cid)
				if len(inconclusive) < 50 {
					inconclusive = append(inconclusive, cid+": "+why)
				}
				obs["inconclusive"]++
			case "harness-error":
				harnessErrors = append(harnessErrors, string(sc.Bytes()))
				brokenRun = true
			case "end":
				ended = true
			}
		}
		f.Close()
		if !ended {
			// the child died: attribute to the last case without done
			if lastCase != "" && lastCase != lastDone && cfg.CrashIsViol && !r.killed {
				crash := classifyCrash(r.log)
				var cl struct {
					Family string `json:"family"`
					Index  int    `json:"index"`
					Seed   uint64 `json:"seed"`
				}
				json.Unmarshal(lastCaseLine, &cl)
				key := id + "/crash/" + crash
				w, _ := json.Marshal(map[string]any{"last_case": lastCase, "log_tail": tail(r.log, 40)})
				if old, ok := viols[key]; ok {
					old.count++
				} else {
					viols[key] = &viol{ID: lastCase, Family: cl.Family, Index: cl.Index, Seed: cl.Seed, Key: key,
						What: "child process died while running this case: " + crash, Witness: w, Target: r.target, count: 1}
				}
			} else if r.killed {
				inconclusive = append(inconclusive, fmt.Sprintf("%s: child hit the watchdog during %s", r.target, lastCase))
				brokenRun = true
				harnessErrors = append(harnessErrors, fmt.Sprintf("%s: watchdog; log tail: %s", r.target, tail(r.log, 60)))
			} else {
				brokenRun = true
				harnessErrors = append(harnessErrors, fmt.Sprintf("%s: child died without end line (%v), last case %s: %s", r.target, r.err, lastCase, tail(r.log, 60)))
			}
		} else if r.err != nil && strings.Contains(tail(r.log, 400), "race detected during execution of test") {
			// the testing package fails a binary whose race detector reported anything; the
			// reports themselves are turned into violations / known findings by collectRaces,
			// and harness errors are reported through harness-error lines, so this is not an
			// infrastructure failure.
		} else if r.err != nil {
			// test binary failed (t.Error) although it ended: harness assertion
			brokenRun = true
			harnessErrors = append(harnessErrors, fmt.Sprintf("%s: test binary exit: %v: %s", r.target, r.err, tail(r.log, 40)))
		}
	}

	for k, v := range ampInfo {
		obs[k] += v
	}

	// ---- race reports
	races, harnessRaces := collectRaces(scratch, cfg)
	raceKeys := make([]string, 0, len(races))
	for k := range races {
		raceKeys = append(raceKeys, k)
	}
	sort.Strings(raceKeys)
	if cfg.RaceIsViolation {
		for _, k := range raceKeys {
			key := id + "/race/" + k
			w, _ := json.Marshal(map[string]any{"report": races[k]})
			viols[key] = &viol{ID: id + "/race", Key: key, What: "data race in go-zero code: " + k, Witness: w, count: 1}
		}
	}
	if len(harnessRaces) > 0 {
		brokenRun = true
		harnessErrors = append(harnessErrors, "data race inside harness code: "+harnessRaces[0])
	}

	// ---- known findings
	var known []finding
	if kb, err := os.ReadFile(filepath.Join(verifDir, "known_findings.json")); err == nil {
		json.Unmarshal(kb, &known)
	}
	// provisional per-property files written while a check is being built
	if extra, _ := filepath.Glob(filepath.Join(verifDir, "known_findings.d", "*.json")); len(extra) > 0 {
		for _, f := range extra {
			var more []finding
			if kb, err := os.ReadFile(f); err == nil && json.Unmarshal(kb, &more) == nil {
				known = append(known, more...)
			}
		}
	}
	isKnown := func(key string) *finding {
		for i := range known {
			if known[i].Property == id && known[i].Status == "known" && known[i].Key == key {
				return &known[i]
			}
		}
		return nil
	}
	keys := make([]string, 0, len(viols))
	for k := range viols {
		keys = append(keys, k)
	}
	sort.Strings(keys)
	var knownSeen []string
	nViol := 0
	outDir := verifDir
	if altRepo {
		outDir = filepath.Join(repo, ".verif-out")
	}
	os.MkdirAll(filepath.Join(outDir, "replays"), 0o755)
	for _, k := range keys {
		v := viols[k]
		if f := isKnown(k); f != nil {
			fmt.Printf("KNOWN-FINDING: property=%s key=%s (%d occurrences) %s\n", id, k, v.count, f.What)
			knownSeen = append(knownSeen, k)
			continue
		}
		nViol++
		rp := filepath.Join(outDir, "replays", fmt.Sprintf("%s-%d-%s.json", id, seed, sanitize(k)))
		rb, _ := json.MarshalIndent(map[string]any{
			"property": id, "key": k, "what": v.What, "case": v.ID, "target": v.Target, "family": v.Family, "index": v.Index,
			"case_seed": v.Seed, "run_seed": seed, "tier": tier, "occurrences": v.count, "witness": v.Witness,
			"replay_cmd": fmt.Sprintf("bin/vcheck %s --replay %s", id, rp),
		}, "", " ")
		os.WriteFile(rp, rb, 0o644)
		fmt.Printf("VIOLATION property=%s replay=%s\n", id, rp)
		fmt.Printf("  key=%s occurrences=%d what=%s\n", k, v.count, v.What)
	}

	// ---- evidence
	distinct := 0
	for s := range sigs {
		if strings.HasPrefix(s, "N") {
			distinct++
		}
	}
	if replay != "" {
		fmt.Printf("replay: evaluations=%d violations(distinct keys)=%d known=%d\n", evaluations, nViol, len(knownSeen))
		for _, e := range harnessErrors {
			fmt.Println("harness:", firstLines(e, 30))
		}
		if nViol > 0 {
			return 1
		}
		return 0
	}
	if coverOn() {
		coverReport(id, scratch, outDir)
	}
	fl := cfg.Floor[tier]
	lowCoverage := ""
	if evaluations < fl.Evaluations || distinct < fl.DistinctNontrivial {
		lowCoverage = fmt.Sprintf("coverage below floor: evaluations=%d (floor %d) distinct_nontrivial=%d (floor %d)",
			evaluations, fl.Evaluations, distinct, fl.DistinctNontrivial)
	}
	for k, min := range cfg.RequiredObs {
		if obs[k] < min {
			lowCoverage += fmt.Sprintf(" required observation %q=%d below %d;", k, obs[k], min)
		}
	}
	if len(samples) == 0 {
		samples = append(samples, json.RawMessage(`"no sample emitted"`))
	}
	level := cfg.Level
	if level == "" {
		level = "exploration"
	}
	ev := map[string]any{
		"property_id": id, "tier": tier, "seed": seed, "level": level,
		"coverage": map[string]any{
			"evaluations":         evaluations,
			"distinct_nontrivial": distinct,
			"rule":                cfg.Rule,
			"samples":             samples,
			"observed":            obs,
			"distinct_signatures": len(sigs),
			"races_deduped":       raceKeys,
			"inconclusive":        inconclusive,
			"known_findings_seen": knownSeen,
			"children":            children,
			"harness_errors":      len(harnessErrors),
		},
		"assumptions": cfg.Assumptions,
		"wall_s":      time.Since(start).Seconds(),
		"violations":  nViol,
	}
	eb, _ := json.MarshalIndent(ev, "", " ")
	os.MkdirAll(filepath.Join(outDir, "evidence"), 0o755)
	if err := os.WriteFile(filepath.Join(outDir, "evidence", id+".json"), eb, 0o644); err != nil {
		return broken("cannot write evidence: %v", err)
	}
	for k, v := range buildSecs {
		fmt.Printf("  %s %.1f\n", k, v)
	}
	fmt.Printf("%s %s seed=%d: evaluations=%d distinct_nontrivial=%d signatures=%d violations=%d known=%d races=%d inconclusive=%d wall=%.1fs\n",
		id, tier, seed, evaluations, distinct, len(sigs), nViol, len(knownSeen), len(raceKeys), len(inconclusive), time.Since(start).Seconds())
	okeys := make([]string, 0, len(obs))
	for k := range obs {
		okeys = append(okeys, k)
	}
	sort.Strings(okeys)
	for _, k := range okeys {
		fmt.Printf("  observed %-40s %d\n", k, obs[k])
	}
	for _, s := range inconclusive {
		fmt.Println("INCONCLUSIVE", firstLines(s, 3))
	}
	if nViol > 0 {
		return 1
	}
	if brokenRun {
		for _, e := range harnessErrors {
			fmt.Println("harness:", firstLines(e, 60))
		}
		return broken("infrastructure failure (not a verdict)")
	}
	if lowCoverage != "" {
		return broken("%s", lowCoverage)
	}
	return 0
}

func build(t target, bin, scratch string, idx int, ampOv map[string]string) (string, error) {
	var cmd *exec.Cmd
	args := []string{"test", "-c", "-vet=off", "-tags", "verif", "-o", bin}
	if !t.NoRace {
		args = append(args, "-race")
	}
	if coverOn() && ampOv == nil {
		args = append(args, "-cover", "-covermode=atomic", "-coverpkg="+coverPkgs(curID))
	}
	switch t.Kind {
	case "black", "goctl":
		dir := filepath.Join(verifDir, "harness")
		if t.Kind == "goctl" {
			dir = filepath.Join(verifDir, "goctlharness")
			if err := prepGoctlSum(dir); err != nil {
				return err.Error(), err
			}
		} else if err := prepSum(dir); err != nil {
			return err.Error(), err
		}
		if altRepo {
			mf, err := altModfile(dir, scratch, t.Kind)
			if err != nil {
				return err.Error(), err
			}
			args = append(args, "-modfile="+mf)
		}
		if ampOv != nil {
			ob, _ := json.Marshal(map[string]any{"Replace": ampOv})
			ovPath := filepath.Join(scratch, fmt.Sprintf("ampoverlay%d.json", idx))
			os.WriteFile(ovPath, ob, 0o644)
			args = append(args, "-overlay", ovPath)
		}
		args = append(args, t.Pkg)
		cmd = exec.Command("go", args...)
		cmd.Dir = dir
	case "white":
		ov := map[string]string{}
		kitFiles, _ := filepath.Glob(filepath.Join(verifDir, "harness", "kit", "*.go"))
		for _, kf := range kitFiles {
			if strings.HasSuffix(kf, "_test.go") {
				continue
			}
			ov[filepath.Join(repo, "internal", "verifkit", filepath.Base(kf))] = kf
		}
		pkgDir := filepath.Join(repo, t.Pkg)
		for _, f := range t.Files {
			ov[filepath.Join(pkgDir, filepath.Base(f))] = filepath.Join(verifDir, f)
		}
		name := "overlay"
		for k, v := range ampOv {
			ov[k] = v
			name = "overlayamp"
		}
		ob, _ := json.Marshal(map[string]any{"Replace": ov})
		ovPath := filepath.Join(scratch, fmt.Sprintf("%s%d.json", name, idx))
		os.WriteFile(ovPath, ob, 0o644)
		args = append(args, "-overlay", ovPath, "./"+strings.TrimPrefix(t.Pkg, "./"))
		cmd = exec.Command("go", args...)
		cmd.Dir = repo
	default:
		return "unknown target kind " + t.Kind, fmt.Errorf("bad kind")
	}
	cmd.Env = goEnv()
	outb, err := cmd.CombinedOutput()
	if err == nil {
		if _, serr := os.Stat(bin); serr != nil {
			return "no test binary produced (no test files?)", serr
		}
	}
	return string(outb), err
}

var sumMu sync.Mutex

// altModfile writes a copy of the harness go.mod (and go.sum) whose replace
// directives point at $VERIF_REPO instead of /repo.
func altModfile(dir, scratch, kind string) (string, error) {
	b, err := os.ReadFile(filepath.Join(dir, "go.mod"))
	if err != nil {
		return "", err
	}
	s := strings.ReplaceAll(string(b), "=> /repo", "=> "+repo)
	mf := filepath.Join(scratch, kind+"-alt.mod")
	if err := os.WriteFile(mf, []byte(s), 0o644); err != nil {
		return "", err
	}
	sum, _ := os.ReadFile(filepath.Join(dir, "go.sum"))
	return mf, os.WriteFile(filepath.Join(scratch, kind+"-alt.sum"), sum, 0o644)
}

// prepSum regenerates harness/go.sum = /repo/go.sum + go.sum.extra
func prepSum(dir string) error {
	sumMu.Lock()
	defer sumMu.Unlock()
	a, err := os.ReadFile(filepath.Join(repo, "go.sum"))
	if err != nil {
		return err
	}
	b, _ := os.ReadFile(filepath.Join(dir, "go.sum.extra"))
	want := append(append([]byte{}, a...), b...)
	if cur, err := os.ReadFile(filepath.Join(dir, "go.sum")); err == nil && string(cur) == string(want) {
		return nil
	}
	return os.WriteFile(filepath.Join(dir, "go.sum"), want, 0o644)
}

func prepGoctlSum(dir string) error {
	sumMu.Lock()
	defer sumMu.Unlock()
	a, err := os.ReadFile(filepath.Join(repo, "go.sum"))
	if err != nil {
		return err
	}
	c, err := os.ReadFile(filepath.Join(repo, "tools", "goctl", "go.sum"))
	if err != nil {
		return err
	}
	b, _ := os.ReadFile(filepath.Join(dir, "go.sum.extra"))
	seen := map[string]bool{}
	var sb strings.Builder
	for _, blob := range [][]byte{a, c, b} {
		for _, ln := range strings.Split(string(blob), "\n") {
			if ln == "" || seen[ln] {
				continue
			}
			seen[ln] = true
			sb.WriteString(ln + "\n")
		}
	}
	if cur, err := os.ReadFile(filepath.Join(dir, "go.sum")); err == nil && string(cur) == sb.String() {
		return nil
	}
	return os.WriteFile(filepath.Join(dir, "go.sum"), []byte(sb.String()), 0o644)
}

// ---------------------------------------------------------------- races

var frameRe = regexp.MustCompile(`^\s+(\S+)\(`)

// collectRaces parses GORACE logs. Returns de-duplicated go-zero races
// (key = outermost-in-package frame pair) and races entirely inside harness code.
func collectRaces(scratch string, cfg propCfg) (map[string]string, []string) {
	files, _ := filepath.Glob(filepath.Join(scratch, "*.race.*"))
	races := map[string]string{}
	var harness []string
	for _, f := range files {
		b, err := os.ReadFile(f)
		if err != nil {
			continue
		}
		for _, blk := range strings.Split(string(b), "==================") {
			if !strings.Contains(blk, "WARNING: DATA RACE") {
				continue
			}
			// split into the two access stacks (first two paragraphs)
			paras := strings.Split(strings.TrimSpace(blk), "\n\n")
			var tops []string
			allHarness := true
			for i, p := range paras {
				if i >= 2 {
					break
				}
				top := ""
				for _, ln := range strings.Split(p, "\n") {
					m := frameRe.FindStringSubmatch(ln)
					if m == nil {
						continue
					}
					fn := m[1]
					if strings.Contains(fn, "github.com/zeromicro/go-zero/") && !strings.Contains(fn, "verifkit") &&
						!strings.Contains(fn, "TestVerif") && !strings.Contains(fn, ".verif") && !strings.Contains(fn, ".vf") {
						if len(cfg.RacePkgs) == 0 || matchAny(fn, cfg.RacePkgs) {
							if top == "" {
								top = strings.TrimPrefix(fn, "github.com/zeromicro/go-zero/")
							}
						}
					}
				}
				if top != "" {
					allHarness = false
				}
				tops = append(tops, top)
			}
			if allHarness {
				harness = append(harness, firstLines(blk, 40))
				continue
			}
			// a race counts against go-zero only if BOTH accesses are in go-zero code
			if len(tops) == 2 && tops[0] != "" && tops[1] != "" {
				sort.Strings(tops)
				k := stripLambda(tops[0]) + "|" + stripLambda(tops[1])
				if _, ok := races[k]; !ok {
					races[k] = firstLines(blk, 60)
				}
			} else {
				// one side in the harness/test code: the harness shares state with go-zero
				// without synchronisation - that is a harness problem.
				harness = append(harness, firstLines(blk, 40))
			}
		}
	}
	return races, harness
}

func stripLambda(s string) string { return s }

func matchAny(s string, pats []string) bool {
	for _, p := range pats {
		if strings.Contains(s, p) {
			return true
		}
	}
	return false
}

// ---------------------------------------------------------------- util

func classifyCrash(log string) string {
	b, _ := os.ReadFile(log)
	s := string(b)
	for _, ln := range strings.Split(s, "\n") {
		if strings.HasPrefix(ln, "fatal error:") || strings.HasPrefix(ln, "panic:") {
			ln = regexp.MustCompile(`0x[0-9a-f]+`).ReplaceAllString(ln, "0x?")
			ln = regexp.MustCompile(`\d+`).ReplaceAllString(ln, "N")
			if len(ln) > 100 {
				ln = ln[:100]
			}
			return sanitize(ln)
		}
	}
	if strings.Contains(s, "os.Exit") || strings.Contains(s, "exit status") {
		return "exit"
	}
	return "unknown-exit"
}

func sanitize(s string) string {
	s = regexp.MustCompile(`[^A-Za-z0-9._=-]+`).ReplaceAllString(s, "_")
	if len(s) > 120 {
		s = s[:120]
	}
	return s
}

func tail(path string, n int) string {
	b, err := os.ReadFile(path)
	if err != nil {
		return ""
	}
	lines := strings.Split(string(b), "\n")
	if len(lines) > n {
		lines = lines[len(lines)-n:]
	}
	return strings.Join(lines, "\n")
}

func firstLines(s string, n int) string {
	lines := strings.Split(s, "\n")
	if len(lines) > n {
		lines = lines[:n]
	}
	return strings.Join(lines, "\n")
}

func contains(xs []string, s string) bool {
	for _, x := range xs {
		if x == s {
			return true
		}
	}
	return false
}
