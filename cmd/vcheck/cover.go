package main

// Reach audit (development aid, VERIF_COVER=1): the children are built with statement coverage
// over the packages of the property's anchor files; the merged profile says which statements of
// the anchored code the workload executed at all. A statement the workload never executes cannot
// be watched by any monitor, so the uncovered ranges are the blind spots of the check.
// Registered commands never set VERIF_COVER (coverage instrumentation slows the children down
// and needs a second build); the result of the last audit is kept under /verif/coverage/.

import (
	"bufio"
	"encoding/json"
	"fmt"
	"os"
	"path/filepath"
	"sort"
	"strconv"
	"strings"
)

const gozeroMod = "github.com/zeromicro/go-zero/"

func coverOn() bool { return os.Getenv("VERIF_COVER") != "" }

func anchorFiles(id string) []string {
	f, err := os.Open(filepath.Join(verifDir, "properties.jsonl"))
	if err != nil {
		return nil
	}
	defer f.Close()
	sc := bufio.NewScanner(f)
	sc.Buffer(make([]byte, 1<<20), 16<<20)
	for sc.Scan() {
		var p struct {
			ID      string `json:"id"`
			Anchors struct {
				Files []string `json:"files"`
			} `json:"anchors"`
		}
		if json.Unmarshal(sc.Bytes(), &p) == nil && p.ID == id {
			return p.Anchors.Files
		}
	}
	return nil
}

func coverPkgs(id string) string {
	seen := map[string]bool{}
	var out []string
	for _, f := range anchorFiles(id) {
		if !strings.HasSuffix(f, ".go") {
			continue
		}
		p := gozeroMod + filepath.Dir(f)
		if !seen[p] {
			seen[p] = true
			out = append(out, p)
		}
	}
	sort.Strings(out)
	return strings.Join(out, ",")
}

type covBlock struct {
	stmts int
	count int64
}

// coverReport merges the children's profiles and writes <outDir>/coverage/<id>.txt.
func coverReport(id, scratch, outDir string) {
	profs, _ := filepath.Glob(filepath.Join(scratch, "*.cov"))
	blocks := map[string]map[string]*covBlock{} // file -> "sl.sc,el.ec" -> block
	for _, p := range profs {
		f, err := os.Open(p)
		if err != nil {
			continue
		}
		sc := bufio.NewScanner(f)
		sc.Buffer(make([]byte, 1<<20), 16<<20)
		for sc.Scan() {
			l := sc.Text()
			if strings.HasPrefix(l, "mode:") {
				continue
			}
			i := strings.LastIndex(l, ":")
			if i < 0 {
				continue
			}
			file := l[:i]
			fs := strings.Fields(l[i+1:])
			if len(fs) != 3 {
				continue
			}
			n, _ := strconv.Atoi(fs[1])
			c, _ := strconv.ParseInt(fs[2], 10, 64)
			m := blocks[file]
			if m == nil {
				m = map[string]*covBlock{}
				blocks[file] = m
			}
			b := m[fs[0]]
			if b == nil {
				b = &covBlock{stmts: n}
				m[fs[0]] = b
			}
			b.count += c
		}
		f.Close()
	}
	anch := map[string]bool{}
	for _, f := range anchorFiles(id) {
		anch[gozeroMod+f] = true
	}
	var sb strings.Builder
	fmt.Fprintf(&sb, "reach audit for %s (%d profiles merged)\n", id, len(profs))
	files := make([]string, 0, len(blocks))
	for f := range blocks {
		files = append(files, f)
	}
	sort.Strings(files)
	for _, f := range files {
		mark := " "
		if anch[f] {
			mark = "*"
		}
		tot, cov := 0, 0
		type rng struct{ sl, el int }
		var unc []rng
		for k, b := range blocks[f] {
			tot += b.stmts
			if b.count > 0 {
				cov += b.stmts
			} else if b.stmts > 0 {
				var sl, scn, el, ecn int
				fmt.Sscanf(strings.ReplaceAll(strings.ReplaceAll(k, ".", " "), ",", " "), "%d %d %d %d", &sl, &scn, &el, &ecn)
				unc = append(unc, rng{sl, el})
			}
		}
		sort.Slice(unc, func(i, j int) bool { return unc[i].sl < unc[j].sl })
		pct := 100.0
		if tot > 0 {
			pct = 100 * float64(cov) / float64(tot)
		}
		fmt.Fprintf(&sb, "%s %-90s %4d/%4d %5.1f%%", mark, strings.TrimPrefix(f, gozeroMod), cov, tot, pct)
		if anch[f] && len(unc) > 0 {
			sb.WriteString("  uncovered:")
			for _, r := range unc {
				if r.sl == r.el {
					fmt.Fprintf(&sb, " %d", r.sl)
				} else {
					fmt.Fprintf(&sb, " %d-%d", r.sl, r.el)
				}
			}
		}
		sb.WriteString("\n")
	}
	os.MkdirAll(filepath.Join(outDir, "coverage"), 0o755)
	os.WriteFile(filepath.Join(outDir, "coverage", id+".txt"), []byte(sb.String()), 0o644)
	fmt.Print(sb.String())
}
