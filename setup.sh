#!/bin/sh
# setup_cmd: builds the driver and warms the race-instrumented build cache. Offline.
set -e
cd "$(dirname "$0")"
export GOFLAGS=-mod=mod GOPROXY=off GOSUMDB=off GOTOOLCHAIN=local
mkdir -p bin evidence replays
go build -o bin/vcheck ./cmd/vcheck
cat /repo/go.sum harness/go.sum.extra > harness/go.sum
(cd harness && go build -race -tags verif ./... ) || true
echo setup done
