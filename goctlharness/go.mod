module verifgoctl

go 1.21

require (
	github.com/zeromicro/go-zero v1.8.2
	github.com/zeromicro/go-zero/tools/goctl v0.0.0
	verifharness v0.0.0
)

require (
	github.com/fatih/color v1.18.0 // indirect
	github.com/fatih/structtag v1.2.0 // indirect
	github.com/gookit/color v1.5.4 // indirect
	github.com/mattn/go-colorable v0.1.13 // indirect
	github.com/mattn/go-isatty v0.0.20 // indirect
	github.com/spaolacci/murmur3 v1.1.0 // indirect
	go.opentelemetry.io/otel v1.24.0 // indirect
	go.opentelemetry.io/otel/trace v1.24.0 // indirect
	go.uber.org/automaxprocs v1.6.0 // indirect
	golang.org/x/sys v0.30.0 // indirect
	golang.org/x/text v0.22.0 // indirect
)

replace github.com/zeromicro/go-zero => /repo

replace github.com/zeromicro/go-zero/tools/goctl => /repo/tools/goctl

replace github.com/gookit/color => /verif/standins/color

replace github.com/fatih/structtag => /verif/standins/structtag

replace verifharness => /verif/harness
