module verifgoctl

go 1.21

require (
	github.com/zeromicro/go-zero v1.8.2
	github.com/zeromicro/go-zero/tools/goctl v0.0.0
	verifharness v0.0.0
)

require (
	github.com/fatih/structtag v1.2.0 // indirect
	github.com/gookit/color v1.5.4 // indirect
	golang.org/x/text v0.22.0 // indirect
)

replace github.com/zeromicro/go-zero => /repo

replace github.com/zeromicro/go-zero/tools/goctl => /repo/tools/goctl

replace github.com/gookit/color => /verif/standins/color

replace github.com/fatih/structtag => /verif/standins/structtag

replace verifharness => /verif/harness
