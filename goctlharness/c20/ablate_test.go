// Cause attribution by ablation.
//
// When an oracle fails on an input, the harness neutralises one peculiarity of
// the input at a time (a '%' inside a token, a tab inside a literal, a comment
// between two tokens of a statement, ...) and re-runs the same oracle. The
// first neutralisation that makes the failure disappear names the cause, which
// becomes part of the violation key. Keys are therefore derived from the
// witness, identical at every seed, one per (oracle, root cause) - and a
// failure that none of the known peculiarities explains keeps the cause
// "plain" plus a structural detail, so that it never hides behind a known key.
package c20

import (
	"strings"
)

// lx is a lexeme of the harness's own, deliberately simple tokenizer (it does
// not share code with go-zero's scanner).
type lx struct {
	kind       byte // 'l' line comment, 'b' block comment, 's' "string", 'r' `raw`, 'w' word, 'p' punctuation
	start, end int
}

func isWordByte(c byte) bool {
	return c == '_' || c == '@' || c >= 0x80 || (c >= '0' && c <= '9') || (c >= 'a' && c <= 'z') || (c >= 'A' && c <= 'Z')
}

func lex(src string) []lx {
	var out []lx
	n := len(src)
	for i := 0; i < n; {
		c := src[i]
		switch {
		case c == ' ' || c == '\t' || c == '\n' || c == '\r' || c == '\f' || c == '\v':
			i++
		case c == '/' && i+1 < n && src[i+1] == '/':
			j := strings.IndexByte(src[i:], '\n')
			if j < 0 {
				j = n - i
			}
			out = append(out, lx{'l', i, i + j})
			i += j
		case c == '/' && i+1 < n && src[i+1] == '*':
			j := strings.Index(src[i+2:], "*/")
			e := n
			if j >= 0 {
				e = i + 2 + j + 2
			}
			out = append(out, lx{'b', i, e})
			i = e
		case c == '"' || c == '`':
			j := strings.IndexByte(src[i+1:], c)
			e := n
			if j >= 0 {
				e = i + 1 + j + 1
			}
			k := byte('s')
			if c == '`' {
				k = 'r'
			}
			out = append(out, lx{k, i, e})
			i = e
		case isWordByte(c):
			j := i
			for j < n && isWordByte(src[j]) {
				j++
			}
			out = append(out, lx{'w', i, j})
			i = j
		default:
			out = append(out, lx{'p', i, i + 1})
			i++
		}
	}
	return out
}

func isComment(k byte) bool { return k == 'l' || k == 'b' }
func isLiteral(k byte) bool { return k == 's' || k == 'r' }

// rewrite maps the text of selected lexemes.
func rewrite(src string, fn func(l lx, text string) string) string {
	var sb strings.Builder
	last := 0
	for _, l := range lex(src) {
		sb.WriteString(src[last:l.start])
		sb.WriteString(fn(l, src[l.start:l.end]))
		last = l.end
	}
	sb.WriteString(src[last:])
	return sb.String()
}

// starThenSlash: inside a block comment a '*' is followed, later, by a '/' that
// is not the terminator.
func starThenSlash(text string) bool {
	if len(text) < 4 {
		return false
	}
	body := text[2 : len(text)-1] // keep the terminator's '*', drop its '/'
	i := strings.IndexByte(body, '*')
	return i >= 0 && strings.IndexByte(body[i:], '/') >= 0
}

// commentPosition tells where a comment sits on its line.
func commentPosition(src string, l lx) string {
	ls := strings.LastIndexByte(src[:l.start], '\n') + 1
	alone := strings.TrimSpace(src[ls:l.start]) == ""
	rest := src[l.end:]
	if le := strings.IndexByte(rest, '\n'); le >= 0 {
		rest = rest[:le]
	}
	rest = strings.TrimSpace(rest)
	// skip further comments on the same line
	for strings.HasPrefix(rest, "/*") {
		k := strings.Index(rest[2:], "*/")
		if k < 0 {
			rest = ""
			break
		}
		rest = strings.TrimSpace(rest[2+k+2:])
	}
	tokenFollows := rest != "" && !strings.HasPrefix(rest, "//")
	switch {
	case tokenFollows && alone:
		return "before-token-on-its-line"
	case tokenFollows:
		return "between-tokens-on-a-line"
	case alone:
		return "own-line"
	}
	return "end-of-line"
}

// positionOfComment finds the first comment whose text (white space ignored)
// equals want and classifies its position.
func positionOfComment(src, want string) string {
	ls := lex(src)
	w := stripSpace(want)
	for _, l := range ls {
		if isComment(l.kind) && stripSpace(src[l.start:l.end]) == w {
			return commentPosition(src, l)
		}
	}
	return "unlocated"
}

type ablation struct {
	name  string
	apply func(src string) string // returns src unchanged when not applicable
}

var textAblations = []ablation{
	{"percent-sign-in-token", func(src string) string {
		if !strings.Contains(src, "%") {
			return src
		}
		return strings.ReplaceAll(src, "%", "P")
	}},
	{"star-then-slash-in-block-comment", func(src string) string {
		return rewrite(src, func(l lx, t string) string {
			if l.kind == 'b' && starThenSlash(t) && len(t) >= 4 {
				return t[:2] + strings.ReplaceAll(t[2:len(t)-2], "/", "|") + t[len(t)-2:]
			}
			return t
		})
	}},
	{"tab-vt-ff-in-token", func(src string) string {
		return rewrite(src, func(l lx, t string) string {
			if isComment(l.kind) || isLiteral(l.kind) {
				return strings.NewReplacer("\t", "T", "\v", "V", "\f", "F").Replace(t)
			}
			return t
		})
	}},
	{"trailing-blank-in-line-comment", func(src string) string {
		return rewrite(src, func(l lx, t string) string {
			if l.kind == 'l' {
				return strings.TrimRight(t, " \t\r\f\v")
			}
			return t
		})
	}},
	{"line-break-in-token", func(src string) string {
		return rewrite(src, func(l lx, t string) string {
			if l.kind == 'b' || isLiteral(l.kind) {
				return strings.NewReplacer("\r\n", "N", "\n", "N", "\r", "N").Replace(t)
			}
			return t
		})
	}},
	{"carriage-return", func(src string) string { return strings.ReplaceAll(src, "\r", "") }},
	{"declares-nothing", neutralizeEmpty},
	{"semicolon", func(src string) string {
		return rewrite(src, func(l lx, t string) string {
			if l.kind == 'p' && t == ";" {
				return " "
			}
			return t
		})
	}},
	{"comment-between-tokens-on-a-line", func(src string) string {
		ls := lex(src)
		var sb strings.Builder
		last := 0
		for _, l := range ls {
			if !isComment(l.kind) {
				continue
			}
			pos := commentPosition(src, l)
			if pos == "between-tokens-on-a-line" || pos == "before-token-on-its-line" {
				sb.WriteString(src[last:l.start])
				sb.WriteString(" ")
				last = l.end
			}
		}
		sb.WriteString(src[last:])
		return sb.String()
	}},
	{"blank-inside-path", joinPathWords},
}

// joinPathWords: the parser glues a word that follows a path after white space onto the path
// (`get /a b` is read as `/ab`, `get /3 map` as `/3map`). The neutralisation puts a '-' (a legal
// separator of path words) where such a blank stands, so that the two words stay two tokens.
func joinPathWords(src string) string {
	ls := lex(src)
	var sb strings.Builder
	last := 0
	inPath := false // the lexemes up to ls[i] form a path that ends in a word
	for i, l := range ls {
		t := src[l.start:l.end]
		tight := i > 0 && ls[i-1].end == l.start
		switch {
		case l.kind == 'p' && t == "/":
			inPath = false
			if i+1 < len(ls) && ls[i+1].start == l.end && (ls[i+1].kind == 'w' || src[ls[i+1].start] == ':') {
				inPath = true // becomes a path once a word follows tightly
			}
		case inPath && tight && (l.kind == 'w' || t == ":" || t == "-"):
			// still inside the path
		case inPath && !tight && l.kind == 'w' && ls[i-1].kind == 'w' && t != "returns" && !strings.HasPrefix(t, "@") &&
			strings.Trim(src[ls[i-1].end:l.start], " \t") == "" && // blanks on one line, nothing else
			!(i+1 < len(ls) && src[ls[i+1].start] == ':'): // not the key of the next key-value pair
			sb.WriteString(src[last:ls[i-1].end])
			sb.WriteString("-")
			last = l.start
		default:
			inPath = false
		}
	}
	sb.WriteString(src[last:])
	return sb.String()
}

// neutralizeEmpty gives every zero string a content and removes empty
// parenthesised groups together with their introducing keyword.
func neutralizeEmpty(src string) string {
	ls := lex(src)
	drop := map[int]bool{}
	var code []int // indices of non-comment lexemes
	for i, l := range ls {
		if !isComment(l.kind) {
			code = append(code, i)
		}
	}
	intro := map[string]bool{"@server": true, "@doc": true, "info": true, "import": true, "type": true, "returns": true}
	for k := 0; k+1 < len(code); k++ {
		a, b := ls[code[k]], ls[code[k+1]]
		if src[a.start:a.end] == "(" && src[b.start:b.end] == ")" {
			drop[code[k]], drop[code[k+1]] = true, true
			if k > 0 {
				p := ls[code[k-1]]
				if intro[src[p.start:p.end]] {
					drop[code[k-1]] = true
				}
			}
		}
	}
	var sb strings.Builder
	last := 0
	for i, l := range ls {
		t := src[l.start:l.end]
		sb.WriteString(src[last:l.start])
		last = l.end
		switch {
		case drop[i]:
			sb.WriteString(" ")
		case t == `""`:
			sb.WriteString(`"z"`)
		case t == "``":
			sb.WriteString("`z`")
		default:
			sb.WriteString(t)
		}
	}
	sb.WriteString(src[last:])
	return sb.String()
}

// removeComments deletes the comments selected by keep==false.
func removeComments(src string, drop func(text string) bool) string {
	return rewrite(src, func(l lx, t string) string {
		if isComment(l.kind) && drop(t) {
			if l.kind == 'l' {
				return ""
			}
			return " "
		}
		return t
	})
}

// genCtx is what the harness knows about a generated input beyond its text.
type genCtx struct {
	p        *program
	seed     uint64
	lc       layoutCfg
	comments []placed
}

// attribute names the cause of the failure of `oracle` on src.
func attribute(src, oracle string, o checkOpts, g *genCtx) string {
	fails := func(s string) bool {
		res := check([]byte(s), o)
		if oracle != "valid-source-rejected" && !res.accepted {
			return true // the neutralised text is not even accepted: that is no cure
		}
		for _, f := range res.raw {
			// oracles of one kind count as the same failure: a text that stops parsing to the
			// same description and starts being unparsable has not been cured
			if f.Oracle != "" && kindOf[f.Oracle] == kindOf[oracle] {
				return true
			}
		}
		return false
	}
	type cand struct {
		name string
		text string
	}
	var cands []cand
	all := src
	for _, a := range textAblations {
		if s := a.apply(src); s != src {
			cands = append(cands, cand{a.name, s})
		}
		all = a.apply(all)
	}
	if g != nil {
		// comments the generator put between two tokens of one statement
		inside := map[string]bool{}
		for _, pc := range g.comments {
			if strings.HasPrefix(pc.Where, "inline@") || strings.HasSuffix(pc.Where, "@free") {
				inside[pc.ID] = true
			}
		}
		if len(inside) > 0 {
			s := removeComments(src, func(t string) bool {
				for id := range inside {
					if strings.Contains(t, id) {
						return true
					}
				}
				return false
			})
			cands = append(cands, cand{"comment-inside-statement", s})
		}
		if g.lc.mode == layExotic {
			lc := g.lc
			lc.noInsideComments, lc.noFreeBreaks = true, true
			if s, _ := render(g.p, g.seed, lc); s != src {
				cands = append(cands, cand{"line-break-inside-statement", s})
			}
			lc = g.lc
			lc.noSameLine = true
			if s, _ := render(g.p, g.seed, lc); s != src {
				cands = append(cands, cand{"list-items-sharing-a-line", s})
			}
			lc = g.lc
			lc.noInsideComments, lc.noFreeBreaks, lc.noSameLine, lc.semis, lc.crlf = true, true, true, false, false
			all, _ = render(g.p, g.seed, lc)
			for _, a := range textAblations {
				all = a.apply(all)
			}
		}
	}
	for _, c := range cands {
		if !fails(c.text) {
			return c.name
		}
	}
	// several peculiarities at once: neutralise them cumulatively; the one that
	// finally cures the failure names the cause
	cur := src
	for _, a := range textAblations {
		if s := a.apply(cur); s != cur {
			cur = s
			if !fails(cur) {
				return a.name
			}
		}
	}
	if g != nil && g.lc.mode == layExotic && all != cur {
		if !fails(all) {
			return "line-break-inside-statement"
		}
		cur = all
	}
	if s := removeComments(cur, func(string) bool { return true }); s != cur {
		if !fails(s) {
			return "other-comment"
		}
	}
	return "plain"
}
