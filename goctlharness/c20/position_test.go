// Where a comment or a line break sits: statement kind and token gap.
//
// The harness reads the structure of a VALID source with a small recursive-descent
// labeller of its own (over the harness's own lexer, no code shared with go-zero):
// every non-comment token gets the kind of its innermost construct (syntax, info,
// info-kv, import, import-group, type-decl, type-group, type-group-item, struct,
// nested-struct, struct-field, at-server, at-server-kv, service, service-item, at-doc,
// at-doc-group, at-doc-kv, at-handler, route, route-request, route-response; constructs
// the formatter is entitled to skip because they declare nothing carry the prefix
// empty-) and its role inside it (type, name, assign, lparen, key, colon, value, ...).
//
// A FEATURE is a place where the text departs from the one-item-per-line layout:
//
//	inner gap   two consecutive tokens of one statement with a comment and/or a line
//	            break between them                       -> <kind>:<role>|<role>
//	list gap    the boundary between two items of a list (statements, fields,
//	            key-values, routes): the comments on the line of the previous token
//	                                                     -> after:<kind>.<role>
//	            and the comments on lines of their own before the next token
//	                                                     -> before:<kind>.<role>
//
// plus HOW it sits (the variant): line-eol, line-own, block-inline, block-eol, block-own,
// block-own-then-token, mblock-* (a block comment spanning lines), multi-* (several
// comments), break, blank-line.
//
// Attribution stays by ablation, now per position: every feature is neutralised (an inner
// gap becomes one blank, comments of a list gap are deleted); when that cures the failed
// oracle, each feature is put back alone - the ones that make the oracle fail again are
// the culprits, one violation key each. Features that fail only together are reported as
// one key naming all of them.
package c20

import (
	"fmt"
	"os"
	"sort"
	"strings"
)

type pcons struct {
	kind   string
	parent int
	item   bool // an item of the list its parent holds
}

type ptok struct {
	start, end int
	line       int // line of the first byte
	text       string
	role       string
	cons       int
}

type pstruct struct {
	src  string
	toks []ptok
	cons []pcons
}

type labeller struct {
	src   string
	cl    []lx // code lexemes
	all   []lx // all lexemes
	i     int
	ps    *pstruct
	stack []int
	err   error
}

func lineOf(src string, off int) int { return strings.Count(src[:off], "\n") }

// scannerLine: the line number as go-zero's scanner counts it - only line breaks in the white
// space between tokens count, not those inside block comments and raw strings. The parser's
// "member name or embedded type" decision compares these numbers, so the labeller must too.
func (l *labeller) scannerLine(off int) int {
	n := strings.Count(l.src[:off], "\n")
	for _, x := range l.all {
		if x.start >= off {
			break
		}
		if x.kind != 'w' && x.kind != 'p' && x.kind != 'l' {
			e := x.end
			if e > off {
				e = off
			}
			n -= strings.Count(l.src[x.start:e], "\n")
		}
	}
	return n
}

func (l *labeller) fail(f string, a ...any) {
	if l.err == nil {
		at := len(l.src)
		if l.i < len(l.cl) {
			at = l.cl[l.i].start
		}
		l.err = fmt.Errorf("labeller: %s at offset %d (line %d)", fmt.Sprintf(f, a...), at, lineOf(l.src, at)+1)
	}
}

func (l *labeller) eof() bool { return l.err != nil || l.i >= len(l.cl) }

func (l *labeller) peekText() string {
	if l.eof() {
		return ""
	}
	return l.src[l.cl[l.i].start:l.cl[l.i].end]
}

func (l *labeller) peekKind() byte {
	if l.eof() {
		return 0
	}
	return l.cl[l.i].kind
}

func (l *labeller) open(kind string, item bool) int {
	parent := -1
	if len(l.stack) > 0 {
		parent = l.stack[len(l.stack)-1]
	}
	l.ps.cons = append(l.ps.cons, pcons{kind: kind, parent: parent, item: item})
	id := len(l.ps.cons) - 1
	l.stack = append(l.stack, id)
	return id
}

func (l *labeller) close() { l.stack = l.stack[:len(l.stack)-1] }

// take consumes n lexemes as one token.
func (l *labeller) take(role string, n int) {
	if l.err != nil {
		return
	}
	if l.i+n > len(l.cl) {
		l.fail("unexpected end, wanted %s", role)
		return
	}
	s, e := l.cl[l.i].start, l.cl[l.i+n-1].end
	l.ps.toks = append(l.ps.toks, ptok{start: s, end: e, line: lineOf(l.src, s), text: l.src[s:e], role: role,
		cons: l.stack[len(l.stack)-1]})
	l.i += n
}

func (l *labeller) expect(text, role string) {
	if l.peekText() != text {
		l.fail("expected %q, got %q", text, l.peekText())
		return
	}
	l.take(role, 1)
}

func (l *labeller) expectKind(kinds string, role string) {
	if l.eof() || !strings.ContainsRune(kinds, rune(l.peekKind())) {
		l.fail("expected a %s (%s), got %q", role, kinds, l.peekText())
		return
	}
	l.take(role, 1)
}

// tightRun counts the lexemes from l.i on that follow each other without white space and
// are words or one of the punctuation characters in punct.
func (l *labeller) tightRun(punct string) int {
	n := 0
	for k := l.i; k < len(l.cl); k++ {
		c := l.cl[k]
		if k > l.i && c.start != l.cl[k-1].end {
			break
		}
		t := l.src[c.start:c.end]
		if c.kind == 'w' || (c.kind == 'p' && strings.Contains(punct, t)) {
			n++
			continue
		}
		break
	}
	return n
}

func zeroLit(t string) bool { return t == `""` || t == "``" }

// labelSource reads the structure of a valid source.
func labelSource(src string) (*pstruct, error) {
	l := &labeller{src: src, ps: &pstruct{src: src}}
	l.all = lex(src)
	for _, x := range l.all {
		if !isComment(x.kind) {
			l.cl = append(l.cl, x)
		}
	}
	// interface{} and ... are single tokens
	var m []lx
	for k := 0; k < len(l.cl); k++ {
		c := l.cl[k]
		t := src[c.start:c.end]
		if t == "interface" && k+2 < len(l.cl) && src[c.end:l.cl[k+2].end] == "{}" {
			m = append(m, lx{'w', c.start, l.cl[k+2].end})
			k += 2
			continue
		}
		if t == "." && k+2 < len(l.cl) && src[c.start:l.cl[k+2].end] == "..." {
			m = append(m, lx{'w', c.start, l.cl[k+2].end})
			k += 2
			continue
		}
		m = append(m, c)
	}
	l.cl = m
	l.open("file", false)
	for !l.eof() {
		l.statement()
	}
	if l.err != nil {
		return nil, l.err
	}
	l.markEmpty()
	return l.ps, nil
}

func (l *labeller) statement() {
	switch l.peekText() {
	case "syntax":
		l.open("syntax", true)
		l.take("syntax", 1)
		l.expect("=", "assign")
		l.expectKind("s", "value")
		l.close()
	case "info":
		l.open("info", true)
		l.take("info", 1)
		l.kvGroup("info-kv", false)
		l.close()
	case "import":
		if l.i+1 < len(l.cl) && l.src[l.cl[l.i+1].start:l.cl[l.i+1].end] == "(" {
			l.open("import-group", true)
			l.take("import", 1)
			l.take("lparen", 1)
			for !l.eof() && l.peekText() != ")" {
				l.open("import-group-item", true)
				l.expectKind("s", "value")
				l.close()
			}
			l.expect(")", "rparen")
			l.close()
			return
		}
		l.open("import", true)
		l.take("import", 1)
		l.expectKind("s", "value")
		l.close()
	case "type":
		if l.i+1 < len(l.cl) && l.src[l.cl[l.i+1].start:l.cl[l.i+1].end] == "(" {
			l.open("type-group", true)
			l.take("type", 1)
			l.take("lparen", 1)
			for !l.eof() && l.peekText() != ")" {
				l.open("type-group-item", true)
				l.typeExpr()
				l.close()
			}
			l.expect(")", "rparen")
			l.close()
			return
		}
		l.open("type-decl", true)
		l.take("type", 1)
		l.typeExpr()
		l.close()
	case "@server", "service":
		l.open("service", true)
		if l.peekText() == "@server" {
			l.open("at-server", true)
			l.take("atserver", 1)
			l.kvGroup("at-server-kv", true)
			l.close()
		}
		l.expect("service", "service")
		if n := l.tightRun("-"); n > 0 {
			l.take("name", n)
		} else {
			l.fail("service name expected")
		}
		l.expect("{", "lbrace")
		for !l.eof() && l.peekText() != "}" {
			l.serviceItem()
		}
		l.expect("}", "rbrace")
		l.close()
	default:
		l.fail("unexpected %q at statement level", l.peekText())
	}
}

// kvGroup: '(' { key ':' value } ')'
func (l *labeller) kvGroup(kvKind string, serverValues bool) {
	l.expect("(", "lparen")
	for !l.eof() && l.peekText() != ")" {
		l.open(kvKind, true)
		l.expectKind("w", "key")
		l.expect(":", "colon")
		switch {
		case l.peekKind() == 's' || l.peekKind() == 'r':
			l.take("value", 1)
		case serverValues:
			if n := l.tightRun("/,-"); n > 0 {
				l.take("value", n)
			} else {
				l.fail("value expected")
			}
		default:
			l.fail("string value expected")
		}
		l.close()
	}
	l.expect(")", "rparen")
}

func (l *labeller) typeExpr() {
	l.expectKind("w", "name")
	if l.peekText() == "=" {
		l.take("assign", 1)
	}
	l.dataType(false)
}

func (l *labeller) dataType(nested bool) {
	if l.err != nil {
		return
	}
	switch t := l.peekText(); {
	case t == "{":
		k := "struct"
		if nested {
			k = "nested-struct"
		}
		l.open(k, false)
		l.take("lbrace", 1)
		for !l.eof() && l.peekText() != "}" {
			l.field()
		}
		l.expect("}", "rbrace")
		l.close()
	case t == "[":
		l.take("lbrack", 1)
		if l.peekText() != "]" {
			l.expectKind("w", "len")
		}
		l.expect("]", "rbrack")
		l.dataType(nested)
	case t == "*":
		l.take("star", 1)
		l.dataType(nested)
	case t == "map":
		l.take("map", 1)
		l.expect("[", "lbrack")
		l.dataType(nested)
		l.expect("]", "rbrack")
		l.dataType(nested)
	case l.peekKind() == 'w':
		l.take("type", 1)
	default:
		l.fail("data type expected, got %q", t)
	}
}

func (l *labeller) field() {
	l.open("struct-field", true)
	defer l.close()
	if l.peekText() == "*" {
		l.take("star", 1)
		l.expectKind("w", "type")
	} else {
		if l.peekKind() != 'w' {
			l.fail("member expected, got %q", l.peekText())
			return
		}
		cur := l.cl[l.i]
		embedded := false
		if l.i+1 < len(l.cl) {
			nx := l.cl[l.i+1]
			embedded = l.scannerLine(nx.start) > l.scannerLine(cur.start) || nx.kind == 'r'
		}
		if embedded {
			l.take("type", 1)
		} else {
			l.take("name", 1)
			for l.peekText() == "," {
				l.take("comma", 1)
				l.expectKind("w", "name")
			}
			l.dataType(true)
		}
	}
	if l.peekKind() == 'r' {
		l.take("tag", 1)
	}
}

func (l *labeller) serviceItem() {
	l.open("service-item", true)
	defer l.close()
	if l.peekText() == "@doc" {
		if l.i+1 < len(l.cl) && l.src[l.cl[l.i+1].start:l.cl[l.i+1].end] == "(" {
			l.open("at-doc-group", true)
			l.take("atdoc", 1)
			l.kvGroup("at-doc-kv", false)
			l.close()
		} else {
			l.open("at-doc", true)
			l.take("atdoc", 1)
			l.expectKind("s", "value")
			l.close()
		}
	}
	l.open("at-handler", true)
	l.expect("@handler", "athandler")
	l.expectKind("w", "name")
	l.close()
	// the formatter treats the four shapes of a route (with / without request, with / without
	// response) in branches of their own: the shape is part of the kind (route, route+req, route+resp,
	// route+req+resp; req0 / resp0: a body that declares nothing, `()`)
	rid := l.open("route", true)
	l.expectKind("w", "method")
	if l.peekText() != "/" {
		l.fail("path expected")
	} else {
		l.take("path", l.tightRun("/:-"))
	}
	form := "route"
	if l.peekText() == "(" {
		if l.body("route-request") {
			form += "+req0"
		} else {
			form += "+req"
		}
	}
	if l.peekText() == "returns" {
		l.take("returns", 1)
		if l.body("route-response") {
			form += "+resp0"
		} else {
			form += "+resp"
		}
	}
	if l.peekText() == ";" {
		l.take("semi", 1)
	}
	l.ps.cons[rid].kind = form
	for i := rid + 1; i < len(l.ps.cons); i++ { // the bodies: route+req+resp-request, ...
		l.ps.cons[i].kind = form + strings.TrimPrefix(l.ps.cons[i].kind, "route")
	}
	l.close()
}

// body reads a request / response body and reports whether it is empty.
func (l *labeller) body(kind string) bool {
	l.open(kind, false)
	defer l.close()
	l.expect("(", "lparen")
	n := 0
	if l.peekText() == "[" {
		l.take("lbrack", 1)
		l.expect("]", "rbrack")
		n++
	}
	if l.peekText() == "*" {
		l.take("star", 1)
		n++
	}
	if l.peekKind() == 'w' {
		l.take("type", 1)
		n++
	}
	l.expect(")", "rparen")
	return n == 0
}

// markEmpty gives the constructs that declare nothing (and everything inside them) the prefix empty-.
func (l *labeller) markEmpty() {
	ps := l.ps
	n := len(ps.cons)
	nKV, nNonZero, nTok := make([]int, n), make([]int, n), make([]int, n)
	for _, t := range ps.toks {
		nTok[t.cons]++
		if t.role == "value" {
			for c := t.cons; c >= 0; c = ps.cons[c].parent {
				nKV[c]++
				if !zeroLit(t.text) {
					nNonZero[c]++
				}
			}
		}
	}
	empty := make([]bool, n)
	for i, c := range ps.cons {
		switch c.kind {
		case "info", "import", "import-group", "at-server", "at-doc", "at-doc-group":
			empty[i] = nNonZero[i] == 0
		default:
			if strings.HasSuffix(c.kind, "-request") || strings.HasSuffix(c.kind, "-response") {
				empty[i] = nTok[i] == 2
			}
		case "type-group":
			empty[i] = true
			for _, d := range ps.cons {
				if d.parent == i {
					empty[i] = false
				}
			}
		}
	}
	for i := range ps.cons {
		for c := i; c >= 0; c = ps.cons[c].parent {
			if empty[c] {
				ps.cons[i].kind = "empty-" + ps.cons[i].kind
				break
			}
		}
	}
}

// ---------------------------------------------------------------- features

type feature struct {
	pos     string // <kind>:<role>|<role>  |  after:<kind>.<role>  |  before:<kind>.<role>
	variant string
	start   int // byte range of the text the feature occupies
	end     int
	inner   bool
	gs, ge  int    // the gap (end of the previous token, start of the next) the feature lies in
	cs      []lx   // the comments it holds
	all     []lx   // all comments of the gap
	neutral string // replacement text that removes the feature
}

func (f feature) commentTexts(src string) []string {
	var out []string
	for _, c := range f.cs {
		out = append(out, src[c.start:c.end])
	}
	return out
}

func (ps *pstruct) ancestors(c int) []int {
	var out []int
	for ; c >= 0; c = ps.cons[c].parent {
		out = append(out, c)
	}
	return out
}

// common returns the deepest construct that contains both tokens, and whether the gap between
// them is a boundary between list items (one of them lies inside an item of that construct).
func (ps *pstruct) common(a, b ptok) (int, bool) {
	aa, bb := ps.ancestors(a.cons), ps.ancestors(b.cons)
	in := map[int]bool{}
	for _, c := range aa {
		in[c] = true
	}
	com := 0
	for _, c := range bb {
		if in[c] {
			com = c
			break
		}
	}
	list := false
	for _, chain := range [][]int{aa, bb} {
		for _, c := range chain {
			if c == com {
				break
			}
			if ps.cons[c].parent == com && ps.cons[c].item {
				list = true
			}
		}
	}
	return com, list
}

func (ps *pstruct) tokName(t ptok) string { return ps.cons[t.cons].kind + "." + t.role }

// nlOutside counts the line breaks of src[from:to] that are not inside one of the comments.
func nlOutside(src string, from, to int, comments []lx) int {
	if from >= to {
		return 0
	}
	return strings.Count(stripComments(src, from, to, comments), "\n")
}

// variantOf names how the comments sel (a subset of all, the comments of the gap [gs,ge)) sit:
// <line|block|mblock|multi>-<inline|eol|own|own-then-token>[-spread]. Line breaks inside comments do
// not count (go-zero's scanner does not count them either).
func variantOf(src string, gs, ge int, all, sel []lx, tokenAfter bool) string {
	kind := "multi"
	if len(sel) == 1 {
		switch {
		case sel[0].kind == 'l':
			kind = "line"
		case strings.Contains(src[sel[0].start:sel[0].end], "\n"):
			kind = "mblock"
		default:
			kind = "block"
		}
	}
	onPrev := gs > 0 && nlOutside(src, gs, sel[0].start, all) == 0
	follows := tokenAfter && nlOutside(src, sel[len(sel)-1].end, ge, all) == 0
	v := kind + "-" + shapeName(onPrev, follows)
	if len(sel) > 1 && strings.Contains(src[sel[0].start:sel[len(sel)-1].end], "\n") {
		v += "-spread"
	}
	return v
}

// features lists the features of src. ps must be the structure of src.
func (ps *pstruct) features() []feature {
	src := ps.src
	var out []feature
	var all []lx
	for _, x := range lex(src) {
		if isComment(x.kind) {
			all = append(all, x)
		}
	}
	ci := 0
	nt := len(ps.toks)
	for g := 0; g <= nt; g++ { // gap before token g (g == nt: after the last token)
		gs, ge := 0, len(src)
		if g > 0 {
			gs = ps.toks[g-1].end
		}
		if g < nt {
			ge = ps.toks[g].start
		}
		var cs []lx
		for ci < len(all) && all[ci].start < ge {
			if all[ci].start >= gs {
				cs = append(cs, all[ci])
			}
			ci++
		}
		inner := false
		var com int
		if g > 0 && g < nt {
			var list bool
			com, list = ps.common(ps.toks[g-1], ps.toks[g])
			inner = !list
		}
		if inner {
			nl := nlOutside(src, gs, ge, cs)
			if len(cs) == 0 && nl == 0 {
				continue
			}
			f := feature{pos: ps.cons[com].kind + ":" + ps.toks[g-1].role + "|" + ps.toks[g].role, start: gs, end: ge, inner: true,
				gs: gs, ge: ge, cs: cs, all: cs, neutral: " "}
			if len(cs) == 0 {
				f.variant = "break"
				if nl > 1 {
					f.variant = "blank-line"
				}
			} else {
				f.variant = variantOf(src, gs, ge, cs, cs, true)
			}
			out = append(out, f)
			continue
		}
		if len(cs) == 0 {
			continue
		}
		// list gap / file edge: the comments on the previous token's line, and the others
		split := 0
		if g > 0 {
			for split < len(cs) && nlOutside(src, gs, cs[split].start, cs) == 0 {
				split++
			}
		}
		if split > 0 {
			grp := cs[:split]
			f := feature{pos: "after:" + ps.tokName(ps.toks[g-1]), start: gs, end: grp[len(grp)-1].end, gs: gs, ge: ge, cs: grp, all: cs}
			f.variant = variantOf(src, gs, ge, cs, grp, g < nt)
			f.neutral = stripComments(src, f.start, f.end, grp)
			out = append(out, f)
		}
		if split < len(cs) {
			grp := cs[split:]
			name := "before:eof"
			if g < nt {
				name = "before:" + ps.tokName(ps.toks[g])
			}
			// the feature starts at the beginning of the first comment's line
			st := strings.LastIndexByte(src[:grp[0].start], '\n') + 1
			if st < gs {
				st = gs
			}
			if split > 0 && st < cs[split-1].end {
				st = cs[split-1].end
			}
			f := feature{pos: name, start: st, end: ge, gs: gs, ge: ge, cs: grp, all: cs}
			f.variant = variantOf(src, gs, ge, cs, grp, g < nt)
			// neutral: drop the comment lines, keep the indentation of the token's line
			tail := src[grp[len(grp)-1].end:ge]
			if i := strings.LastIndexByte(tail, '\n'); i >= 0 {
				f.neutral = tail[i+1:]
			} else {
				f.neutral = src[st:grp[0].start]
			}
			out = append(out, f)
		}
	}
	return out
}

func shapeName(onPrevLine, tokenFollows bool) string {
	switch {
	case onPrevLine && tokenFollows:
		return "inline"
	case onPrevLine:
		return "eol"
	case tokenFollows:
		return "own-then-token"
	}
	return "own"
}

// stripComments returns src[from:to] without the given comments (which lie inside the range).
func stripComments(src string, from, to int, cs []lx) string {
	var sb strings.Builder
	last := from
	for _, c := range cs {
		if c.start < from || c.end > to {
			continue
		}
		sb.WriteString(src[last:c.start])
		last = c.end
	}
	sb.WriteString(src[last:to])
	return sb.String()
}

// withFeatures returns src with the features selected by keep left in place and all others neutralised.
func withFeatures(src string, fs []feature, keep func(i int) bool) string {
	var sb strings.Builder
	last := 0
	for i, f := range fs {
		if f.start < last {
			continue // cannot happen: features do not overlap
		}
		sb.WriteString(src[last:f.start])
		if keep(i) {
			sb.WriteString(src[f.start:f.end])
		} else {
			sb.WriteString(f.neutral)
		}
		last = f.end
	}
	sb.WriteString(src[last:])
	return sb.String()
}

// ---------------------------------------------------------------- attribution per position

// posUnit is one attributed place: a position and the way the comment / line break sits there.
type posUnit struct {
	pos, variant string
	text         string
}

// posClass is one attributed unit, or a set of features that fail only together.
type posClass struct {
	units []posUnit
}

// variantGroup names the variant at a level of detail: 0 nothing, 1 the side (same-line: the comment
// starts on the line of the previous token; own-line; break), 2 the shape (inline, eol, own,
// own-then-token, break, blank-line), 3 the full name.
func variantGroup(variant string, level int) string {
	shape := variant
	for _, p := range []string{"line-", "block-", "mblock-", "multi-"} {
		shape = strings.TrimPrefix(shape, p)
	}
	shape = strings.TrimSuffix(shape, "-spread")
	switch level {
	case 0:
		return ""
	case 1:
		switch shape {
		case "inline", "eol":
			return "same-line"
		case "own", "own-then-token":
			return "own-line"
		}
		return "break"
	case 2:
		return shape
	}
	return variant
}

// unitName: the variant is part of a class name only as far as the unchanged tree's behaviour at that
// position differs between the ways a comment / line break can sit there (posVariantLevel is
// generated, see TestVerifC20PosTable in posfamily_test.go).
func unitName(kind string, u posUnit) string {
	if g := variantGroup(u.variant, posVariantLevel[kind+"/"+u.pos]); g != "" {
		return u.pos + "/" + g
	}
	return u.pos
}

func (pc posClass) name(kind string) string {
	if len(pc.units) == 1 {
		return unitName(kind, pc.units[0])
	}
	var names []string
	for _, u := range pc.units {
		names = append(names, u.pos+"/"+u.variant)
	}
	sort.Strings(names)
	names = dedupStrings(names)
	if len(names) > 3 {
		return fmt.Sprintf("together:%d-positions", len(names))
	}
	return "together:" + strings.Join(names, "+")
}

// nonPositionalAblations: peculiarities of the text that have keys of their own; when the text
// still fails with every feature neutralised they are neutralised first (the coarse ablation
// found its cure cumulatively, on such a text).
var nonPositionalAblations = map[string]bool{"percent-sign-in-token": true, "star-then-slash-in-block-comment": true,
	"tab-vt-ff-in-token": true, "trailing-blank-in-line-comment": true, "carriage-return": true, "blank-inside-path": true}

// positionalRaw attributes a failed oracle on src to positions by ablation. It returns nil when
// the structure of src cannot be read or when neutralising every feature does not cure the
// failure (the cause is then not where comments and line breaks sit).
func positionalRaw(src, oracle string, o checkOpts, g *genCtx) []posClass {
	texts := []string{src}
	abl := func(s string) string {
		for _, a := range textAblations {
			if nonPositionalAblations[a.name] {
				s = a.apply(s)
			}
		}
		return s
	}
	if s := abl(src); s != src {
		texts = append(texts, s)
	}
	if g != nil && g.lc.mode == layExotic {
		lc := g.lc
		lc.noSameLine, lc.semis, lc.crlf = true, false, false
		if s, _ := render(g.p, g.seed, lc); s != src {
			texts = append(texts, s, abl(s))
		}
	}
	for _, s := range texts {
		if pcs := positionalOn(s, oracle, o); pcs != nil {
			return pcs
		}
	}
	return nil
}

func featureUnit(src string, f feature) posUnit {
	t := "<line break>"
	if len(f.cs) > 0 {
		t = strings.Join(f.commentTexts(src), " ")
	}
	return posUnit{pos: f.pos, variant: f.variant, text: t}
}

func positionalOn(src, oracle string, o checkOpts) []posClass {
	ps, err := labelSource(src)
	if err != nil {
		return nil
	}
	fs := ps.features()
	if len(fs) == 0 {
		return nil
	}
	kind := kindOf[oracle]
	budget := 300
	// fails reports whether the oracle kind fails on s, and the comments reported lost
	fails := func(s string) (bool, []string) {
		budget--
		res := check([]byte(s), o)
		if !res.accepted {
			return true, nil
		}
		bad := false
		var lost []string
		for _, f := range res.raw {
			if f.Oracle != "" && kindOf[f.Oracle] == kind {
				bad = true
				if l, ok := f.Witness["lost"].([]string); ok && f.Oracle == "comment-lost" {
					lost = l
				}
			}
		}
		return bad, lost
	}
	if bad, _ := fails(withFeatures(src, fs, func(int) bool { return false })); bad {
		return nil
	}
	var out []posClass
	culprit := make([]bool, len(fs))
	for i := range fs {
		if budget <= 0 {
			break
		}
		i := i
		bad, lost := fails(withFeatures(src, fs, func(k int) bool { return k == i }))
		if !bad {
			continue
		}
		culprit[i] = true
		f := fs[i]
		n := 0
		if kind == "comments-altered" && len(lost) > 0 {
			// one unit per lost comment, named by how that comment sits
			left := map[string]int{}
			for _, l := range lost {
				left[stripSpace(l)]++
			}
			for _, c := range f.cs {
				t := src[c.start:c.end]
				if left[stripSpace(t)] > 0 {
					left[stripSpace(t)]--
					out = append(out, posClass{units: []posUnit{{pos: f.pos, variant: variantOf(src, f.gs, f.ge, f.all, []lx{c}, f.ge < len(src)), text: t}}})
					n++
				}
			}
		}
		if n == 0 {
			out = append(out, posClass{units: []posUnit{featureUnit(src, f)}})
		}
	}
	// features that fail only together
	for round := 0; round < 3 && budget > 0; round++ {
		if bad, _ := fails(withFeatures(src, fs, func(k int) bool { return !culprit[k] })); !bad {
			break
		}
		in := make([]bool, len(fs))
		for k := range fs {
			in[k] = !culprit[k]
		}
		for k := range fs {
			if !in[k] || budget <= 0 {
				continue
			}
			in[k] = false
			if bad, _ := fails(withFeatures(src, fs, func(j int) bool { return in[j] })); !bad {
				in[k] = true
			}
		}
		var members []posUnit
		for k := range fs {
			if in[k] {
				culprit[k] = true
				members = append(members, featureUnit(src, fs[k]))
			}
		}
		if len(members) == 0 {
			break
		}
		out = append(out, posClass{units: members})
	}
	if len(out) == 0 {
		return nil
	}
	return out
}

func dedupStrings(s []string) []string {
	var out []string
	for i, x := range s {
		if i == 0 || x != s[i-1] {
			out = append(out, x)
		}
	}
	return out
}

// positionalCauses: the causes (found by the coarse ablation) that stand for "where a comment or
// a line break sits"; a failure attributed to one of them is refined per position.
var positionalCauses = map[string]bool{
	"comment-inside-statement":         true,
	"comment-between-tokens-on-a-line": true,
	"line-break-inside-statement":      true,
	"semicolon":                        true,
	"declares-nothing":                 true,
	"line-break-in-token":              true, // a block comment spanning lines; refined only when a position explains it
	"other-comment":                    true,
	"plain":                            true,
}

// coarseKeyRetired: the causes whose coarse key is no longer emitted for the positional kinds.
var coarseKeyRetired = map[string]bool{"comment-inside-statement": true, "comment-between-tokens-on-a-line": true,
	"line-break-inside-statement": true}

// positionalEverywhere: refine the coarse comment-placement causes per position for every input, not
// only for the positions family (VERIF_C20_POS_EVERYWHERE=1; experimental: the classes are not closed yet).
var positionalEverywhere = os.Getenv("VERIF_C20_POS_EVERYWHERE") != ""

// positionalKinds: the oracle kinds whose keys carry positions.
var positionalKinds = map[string]bool{"comments-altered": true, "not-idempotent": true}
