// Mutators producing (mostly) invalid variants of valid programs.
package c20

import (
	"strconv"
	"strings"

	"verifharness/kit"
)

var tokenPool = []string{"(", ")", "{", "}", "[", "]", "*", "/", "-", ":", ";", ",", ".", "...", "=", "@", "@doc", "@handler",
	"@server", "@foo", "type", "service", "info", "syntax", "import", "returns", "map", "any", "interface{}", "interface",
	"struct", "func", "get", "post", `"s"`, "`r`", `"`, "`", "//", "/*", "*/", "1", "3s", "1m2", "5µ", "x", "Foo", "-api",
	"\x00", "\n", "#", "$", "é", "\\", "0x1", "1.5", "'c'", "<", ">", "!", "\ufeff"}

// structural mutations on the token stream; returns the mutated program text
// rendered canonically-ish and the name of the mutation.
func mutateTokens(p *program, r *kit.Rand) (string, string) {
	toks := append([]tok(nil), p.toks...)
	n := len(toks)
	name := ""
	k := r.Pick(1, 4, 3, 3, 3, 3, 3, 4, 2, 2, 2, 4, 2)
	if k >= 7 && k <= 9 && len(p.els) == 0 {
		k = 1
	}
	switch k {
	case 0:
		name = "none"
	case 1:
		name = "delete-token"
		i := r.Intn(n)
		toks = append(toks[:i], toks[i+1:]...)
	case 2:
		name = "duplicate-token"
		i := r.Intn(n)
		toks = append(toks[:i+1], toks[i:]...)
	case 3:
		name = "swap-tokens"
		i, j := r.Intn(n), r.Intn(n)
		if r.Bool() && i+1 < n {
			j = i + 1
		}
		toks[i].s, toks[j].s = toks[j].s, toks[i].s
	case 4:
		name = "replace-token"
		toks[r.Intn(n)].s = kit.Choose(r, tokenPool)
	case 5:
		name = "insert-token"
		i := r.Intn(n + 1)
		g := kit.Choose(r, []gap{gTight, gGlue, gSpace, gFree, gLine})
		toks = append(toks[:i], append([]tok{{g, kit.Choose(r, tokenPool), -1}}, toks[i:]...)...)
	case 6:
		name = "delete-token-range"
		i := r.Intn(n)
		j := i + r.Range(1, 6)
		if j > n {
			j = n
		}
		toks = append(toks[:i], toks[j:]...)
	case 7:
		e := p.els[r.Intn(len(p.els))]
		name = "delete-element:" + e.kind
		toks = append(toks[:e.start], toks[e.end:]...)
	case 8:
		e := p.els[r.Intn(len(p.els))]
		name = "duplicate-element:" + e.kind
		dup := append([]tok(nil), p.toks[e.start:e.end]...)
		toks = append(toks[:e.end], append(dup, toks[e.end:]...)...)
	case 9:
		a, b := p.els[r.Intn(len(p.els))], p.els[r.Intn(len(p.els))]
		name = "transplant-element:" + a.kind + "->" + b.kind
		src := append([]tok(nil), p.toks[a.start:a.end]...)
		toks = append(toks[:b.start], append(src, toks[b.end:]...)...)
	case 10:
		name = "change-gap"
		i := r.Intn(n)
		toks[i].g = kit.Choose(r, []gap{gTight, gGlue, gSpace, gLine})
	case 11:
		// a Go keyword / API keyword where a word stands (mostly: where an identifier is required),
		// or a plain identifier where a keyword is required
		name = "keyword-for-word"
		var pos []int
		for i, t := range toks {
			if isWordToken(t.s) {
				pos = append(pos, i)
			}
		}
		if len(pos) == 0 {
			name = "none"
			break
		}
		toks[pos[r.Intn(len(pos))]].s = kit.Choose(r, substWords)
	case 12:
		// cut the program at a token and end it with a lexeme the scanner itself fails at
		name = "cut-and-poison"
		i := r.Intn(n)
		toks = append(toks[:i:i], tok{gFree, kit.Choose(r, cutEndings[1:]), -1})
	}
	q := &program{toks: toks}
	lc := layoutCfg{mode: layCanonical}
	if r.Chance(0.3) {
		lc = layoutCfg{mode: layCommon, commentP: 0.15}
	}
	s, _ := render(q, r.Uint64(), lc)
	return s, name
}

func isWordToken(s string) bool {
	if s == "" {
		return false
	}
	for i := 0; i < len(s); i++ {
		c := s[i]
		if !(c == '_' || (c >= '0' && c <= '9') || (c >= 'a' && c <= 'z') || (c >= 'A' && c <= 'Z')) {
			return false
		}
	}
	return true
}

// byte-level mutations of a source text
func mutateBytes(src string, r *kit.Rand) (string, string) {
	b := []byte(src)
	n := len(b)
	if n == 0 {
		return src, "none"
	}
	switch r.Pick(4, 3, 3, 3, 2, 2, 2, 1, 1) {
	case 0:
		i := r.Intn(n + 1)
		return string(b[:i]), "truncate"
	case 1:
		i := r.Intn(n)
		return string(b[:i]) + string(b[i+1:]), "delete-byte"
	case 2:
		i := r.Intn(n + 1)
		junk := []string{"\x00", "\xff", "\xc3", "\u2028", "\ufeff", "\r", "\f", "\v", "\x7f", "€", "𝄞", "\"", "`", "/*", "*/", "//", "@", "\\", "'"}
		return string(b[:i]) + kit.Choose(r, junk) + string(b[i:]), "insert-junk"
	case 3:
		i := r.Intn(n)
		b[i] = byte(r.Intn(256))
		return string(b), "random-byte"
	case 4:
		i := r.Intn(n)
		j := i + r.Range(1, 40)
		if j > n {
			j = n
		}
		return string(b[:i]) + string(b[j:]), "delete-span"
	case 5:
		// unbalance: remove or add one bracket
		br := "(){}[]"
		var pos []int
		for i, c := range b {
			if strings.IndexByte(br, c) >= 0 {
				pos = append(pos, i)
			}
		}
		if len(pos) > 0 && r.Bool() {
			i := pos[r.Intn(len(pos))]
			return string(b[:i]) + string(b[i+1:]), "drop-bracket"
		}
		i := r.Intn(n + 1)
		return string(b[:i]) + string(br[r.Intn(len(br))]) + string(b[i:]), "add-bracket"
	case 6:
		i := r.Intn(n)
		j := i + r.Range(1, 60)
		if j > n {
			j = n
		}
		return string(b[:j]) + string(b[i:j]) + string(b[j:]), "duplicate-span"
	case 7:
		return strings.ReplaceAll(src, "\n", " "), "join-lines"
	default:
		return strings.ReplaceAll(src, " ", "\n"), "split-at-blanks"
	}
}


// validLayouts are VALID sources in layouts the grammar generator produces only rarely
// (a few per thousand programs): comments and line breaks between the closing brace of a nested
// struct and the field's tag, tags on their own line, comment-only struct bodies. They are
// checked with the full oracle of valid sources (format succeeds, meaning preserved, idempotent).
var validLayouts = []string{
	"type Outer {\n\tInner {\n\t\tA int `json:\"a\"`\n\t} // the nested part\n\t`json:\"inner\"`\n\tB string `json:\"b\"`\n}\n",
	"type (\n\tOuter {\n\t\tItems []{\n\t\t\tID int64 `json:\"id\"`\n\t\t} // one entry per item\n\t\t`json:\"items,optional\"`\n\t}\n)\n",
	"type Outer {\n\tMeta {} // nothing yet\n\t`json:\"meta\"`\n\tB string `json:\"b\"`\n}\n",
	"type Outer {\n\tInner {\n\t\tA int `json:\"a\"`\n\t}\n\t`json:\"inner\"`\n}\n",
	"type Outer {\n\tM map[string]{\n\t\tA int `json:\"a\"`\n\t} // per key\n\t`json:\"m\"`\n\tLast bool `json:\"last\"`\n}\n",
	"type Outer {\n\tArr [3]{\n\t\tA int `json:\"a\"`\n\t} /* three of them */ `json:\"arr\"`\n}\n",
	"type Outer {\n\tInner {\n\t\tDeep {\n\t\t\tA int `json:\"a\"`\n\t\t} // deep\n\t\t`json:\"deep\"`\n\t} // inner\n\t`json:\"inner\"`\n}\n",
	"syntax = \"v1\"\n\ntype Req {\n\tInner {\n\t\tA int `json:\"a\"`\n\t} // c\n\t`json:\"inner\"`\n}\n\nservice x {\n\t@handler h\n\tpost /a (Req)\n}\n",
}

// handWritten are small sources aimed at edges of scanner and parser (all
// invalid or degenerate).
var handWritten = []string{
	"", " ", "\n", "\t\n \r\n", "\x00", "//", "// only a comment", "/**/", "/* unterminated", "/*/", "/", "/ /", "*", "@", "@x",
	"@doc", "@handler", "@server", "@server(", "@server()", "@server() service", `"`, `"abc`, "`", "`abc", "syntax", "syntax =",
	`syntax = v1`, `syntax "v1"`, "info", "info(", "info()", "info(a)", "info(a:)", "info(a:b)", `info(a:"b"`, "import", "import (", "import ()",
	`import "a" "b"`, "type", "type (", "type ()", "type T", "type T {", "type T {}", "type T }", "type T { A }", "type T { A", "type T { A int",
	"type T { A int `t`", "type T { * }", "type T { *A", "type T { A, }", "type T { A, B }", "type T { A [ }", "type T { A [] }", "type T { A [1 }",
	"type T { A [...] }", "type T { A map }", "type T { A map[ }", "type T { A map[string }", "type T { A map[string] }", "type T { A * }",
	"type T = ", "type T map", "type type {}", "type T { type int }", "type T { A func }", "type ( T {} ", "type ( T ) ", "type T []", "type T [...",
	"service", "service x", "service x {", "service x { }", "service x-", "service x-y {}", "service x-api", "service x { @handler }",
	"service x { @handler h }", "service x { @handler h get }", "service x { @handler h get (R) }", "service x { @handler h get returns (R) }",
	"service x { @handler h get ; }", "service x { @handler h get / ( }", "service x { @handler h get / () }", "service x { @handler h get / (R }",
	"service x { @handler h get / returns }", "service x { @handler h get / returns ( }", "service x { @handler h get / returns () }",
	"service x { @handler h get /: }", "service x { @handler h get /:/ }", "service x { @handler h get /a- }", "service x { @handler h get /a-/b }",
	"service x { @handler h get // }", "service x { @handler h get /a//b }", "service x { @handler h get /a /*c*/ /b }",
	"service x { @handler h get / // c\n a }", "service x { @doc }", "service x { @doc ( }", "service x { @doc () }", `service x { @doc "d" }`,
	`service x { @doc "d" @handler }`, "service x { @doc() @handler h get / }", "service x { get / }", "service x { @handler h @handler g get / }",
	"service x { @handler h foo / }", "service x { @handler h get / (R) (S) }", "service x { @handler h get / returns (R) returns (S) }",
	"service x { @handler h get /a (R) returns (S) ;; }", "@server() x", "@server(a) service x {}", "@server(a:) service x {}",
	"@server(a:/) service x {}", "@server(a:/b/) service x {}", "@server(a:b-) service x {}", "@server(a:b,) service x {}", "@server(a:b/) service x {}",
	"@server(a:1s2) service x {}", "@server(a:1x) service x {}", "@server(:b) service x {}", "@server(a:b c) service x {}", "@server(a:b", "@server(a:*) service x{}",
	"1", "1s", "1m1", "1h1m1s1ms1µs1ns", "1µ", "1n", "1ms1", "..", "...", ".", "a.b", "interface{", "interface{}", "interface", "}", ")", "]", "{", "(", "[", ";", ":", ",", "=", "-",
	"syntax = \"v1\"\x00type", "type T {\n A int\x00}", "\ufeffsyntax = \"v1\"", "syntax = \"v1\" /*", "syntax = \"v1\" //", "type T { A int // c", "type T { A int /* c",
	// malformed and compound duration literals (every branch of the scanner's duration automaton)
	"1nx", "1µx", "1µs5x", "1µs5n", "1ms5x", "1ms5nx", "1s5x", "1s5mx", "1s5m", "1m5x", "1m5mx", "1m5m", "1h5x", "1h5", "1h5h", "1m5", "1s5",
	"@server(a:1nx) service x {}", "@server(a:1µs5x) service x {}", "@server(a:1ms5x) service x {}", "@server(a:1s5mx) service x {}",
	"@server(a:1m5mx) service x {}", "@server(a:1h5x) service x {}", "@server(a:1h5m3s2ms1µs1ns) service x {}", "@server(a:1s5) service x {}",
	// a word after a blank behind a path
	"service x { @handler h get /a b }", "service x { @handler h get /3 map (R) }", "service x { @handler h get /a b-c/d (R) }", "service x { @handler h get /1 s }",
	// a Go keyword in every name position of a member list
	"type T { A, func string }", "type T { A, B, select int64 }", "type T {\n\tA, type string\n}", "type ( T { X { A, go int } } )",
	"type T { func, A string }", "type T { A func }", "type T { A, B }", "type T { A,, B int }", "type T { A, 1 int }", "type T { A, *B int }",
	"type T { A, B, }", "type T { A,\nB int }", "type T { map string }", "type T { A map }", "type func {}", "type T = func", "type T { *func }",
	"type T {\n\tA `t`\n}", "type T {\n\tA\n}", "type T {\n\t*A `t`\n}", "type T {\n\tA\n\tB\n}", "type T {\nA /*\n*/ int\n}", "type T {\nA `a\nb`\n}",
}

// deepNesting builds sources whose nesting depth is d.
func deepNesting(shape, d int) (string, string) {
	switch shape % 9 {
	case 0:
		return "type T " + strings.Repeat("[]", d) + "int\n", "slice-depth"
	case 1:
		return "type T " + strings.Repeat("*", d) + "int\n", "pointer-depth"
	case 2:
		return "type T {\n\tA " + strings.Repeat("map[string]", d) + "int\n}\n", "map-value-depth"
	case 3:
		return "type T {\n\tA " + strings.Repeat("map[", d) + "int" + strings.Repeat("]int", d) + "\n}\n", "map-key-depth"
	case 4:
		var sb strings.Builder
		sb.WriteString("type T ")
		for i := 0; i < d; i++ {
			sb.WriteString("{\n" + strings.Repeat("\t", i+1) + "F" + strconv.Itoa(i) + " ")
		}
		sb.WriteString("int")
		for i := d - 1; i >= 0; i-- {
			sb.WriteString("\n" + strings.Repeat("\t", i) + "}")
		}
		sb.WriteString("\n")
		return sb.String(), "struct-depth"
	case 5:
		return "type T " + strings.Repeat("{", d) + "\n", "open-braces"
	case 6:
		return strings.Repeat("(", d) + strings.Repeat(")", d), "parens"
	case 7:
		return "service x {\n\t@handler h\n\tget " + strings.Repeat("/a-b", d) + "\n}\n", "path-length"
	default:
		return "type T {\n\tA " + strings.Repeat("[3]", d) + "int `json:\"a\"`\n}\n", "array-depth"
	}
}
