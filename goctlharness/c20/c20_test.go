// Package c20: goctl API formatter — meaning preservation, idempotence, and
// error-not-crash behaviour of scanner and parser (DESIGN.md §4 C20).
//
// Every evaluation hands one source text to the real format.Source /
// parser.Parse / scanner.NextToken of /repo/tools/goctl under recover(), a trap
// for log.Fatal, and a generous watchdog, and decides:
//
//	valid source (grammar generator, repository corpus accepted by the parser)
//	  => formatting succeeds; the formatted text parses; the reflective digest
//	     of both ASTs (token types and texts, structure; no positions, no
//	     comments) is equal; the non-comment token streams are equal up to ';';
//	     no comment disappears or appears (white space inside comments ignored);
//	     formatting the formatted text returns it byte for byte.
//	any source (mutants, hand-written edge cases, deep nesting)
//	  => an error or a result, never a panic, a process exit or a hang; and
//	     when the parser accepts the text, the same oracles as above.
package c20

import (
	"embed"
	"fmt"
	"hash/fnv"
	"os"
	"runtime"
	"runtime/debug"
	"sort"
	"strings"
	"testing"

	"github.com/zeromicro/go-zero/core/logx"

	"verifharness/kit"
)

//go:embed testdata/corpus/*.api
var corpusFS embed.FS

type corpusFile struct {
	name string
	src  string
}

func loadCorpus() []corpusFile {
	ents, err := corpusFS.ReadDir("testdata/corpus")
	if err != nil {
		panic(err)
	}
	var out []corpusFile
	for _, e := range ents {
		b, err := corpusFS.ReadFile("testdata/corpus/" + e.Name())
		if err != nil {
			panic(err)
		}
		out = append(out, corpusFile{e.Name(), string(b)})
	}
	sort.Slice(out, func(i, j int) bool { return out[i].name < out[j].name })
	return out
}

func hashOf(s string) uint64 {
	h := fnv.New64a()
	h.Write([]byte(s))
	return h.Sum64()
}

// per-process bookkeeping so that a defect that fires thousands of times does
// not produce thousands of full witnesses or shrink runs
var (
	fullWitness = map[string]int{}
	shrunk      = map[string]int{}
)

// report attributes causes, minimises the first witness of each key and emits the violations.
func report(c *kit.Case, res outcome, src string, o checkOpts, g *genCtx, extra map[string]any) {
	if len(res.raw) == 0 {
		return
	}
	for i, f := range classify(src, res, o, g) {
		w := f.Witness
		if fullWitness[f.Key] >= 3 {
			w = map[string]any{"input": clip(src, 300), "note": "full witness attached to earlier occurrences of this key"}
		} else {
			fullWitness[f.Key]++
			for k, v := range extra {
				w[k] = v
			}
			if i == 0 && shrunk[f.Key] < 1 && !strings.HasPrefix(f.Key, "C20/hang/") && !o.posFirst {
				shrunk[f.Key]++
				if m := shrink(src, f.raw, o); m != src {
					w["minimized_input"] = m
				}
			}
		}
		c.Obs("oracle_failed_"+strings.SplitN(strings.TrimPrefix(f.Key, "C20/"), "/", 2)[0], 1)
		c.Viol(f.Key, f.What, w)
	}
}

// shrink removes chunks of lines while the same oracle keeps failing with the
// same structural detail (for a rejected valid source: while the same error
// class is reported and the text without the suspected lines stays rejected).
// Bounded by a fixed number of evaluations.
func shrink(src string, rf rawFinding, o checkOpts) string {
	budget := 100
	still := func(s string) bool {
		if budget <= 0 {
			return false
		}
		budget--
		for _, f := range check([]byte(s), o).raw {
			if f.Oracle == rf.Oracle && f.Key == rf.Key && f.Detail == rf.Detail {
				return true
			}
		}
		return false
	}
	cur := strings.Split(src, "\n")
	for chunk := len(cur) / 2; chunk >= 1; chunk /= 2 {
		for i := 0; i+chunk <= len(cur); {
			cand := append(append([]string(nil), cur[:i]...), cur[i+chunk:]...)
			if len(cand) > 0 && still(strings.Join(cand, "\n")) {
				cur = cand
			} else {
				i += chunk
			}
		}
	}
	return strings.Join(cur, "\n")
}

func obsFeatures(c *kit.Case, p *program) {
	for k, n := range p.feat {
		c.Obs("construct_"+k, int64(n))
	}
}

func tally(c *kit.Case, prefix string, res outcome) {
	if res.accepted {
		c.Obs(prefix+"_accepted", 1)
		c.Obs("ast_leaves_compared", int64(res.nStmts))
		c.Obs("comments_compared", int64(res.nComments))
		if res.idemDone {
			c.Obs("idempotence_checked", 1)
		}
	} else {
		c.Obs(prefix+"_rejected_with_error", 1)
	}
	if res.inconcl != "" {
		c.Inconclusive(res.inconcl)
	}
}

func TestVerifC20(t *testing.T) {
	logx.Disable()
	installFatalTrap()
	// A shard works sequentially (one input at a time; the caller waits for the guarded goroutine) on
	// inputs of a few KB: with the default settings most of its CPU time went into garbage-collector
	// cycles over a tiny heap contended by 16 Ps (measured: 5x the CPU time of the same work).
	if runtime.GOMAXPROCS(0) > 3 {
		runtime.GOMAXPROCS(3)
	}
	debug.SetGCPercent(800)
	corpus := loadCorpus()

	// debugging aid: VERIF_C20_FILE=<path> checks that one file and prints what the oracles say
	if f := os.Getenv("VERIF_C20_FILE"); f != "" {
		src, err := os.ReadFile(f)
		if err != nil {
			t.Fatal(err)
		}
		res := check(src, checkOpts{valid: os.Getenv("VERIF_C20_VALID") != "", degenerate: os.Getenv("VERIF_C20_STRICT") == ""})
		fmt.Printf("accepted=%v ast_leaves=%d comments=%d\n", res.accepted, res.nStmts, res.nComments)
		if res.accepted {
			fmt.Printf("--- formatted\n%s--- end\n", res.formatted)
		} else if fr := runFormat(src); fr.err != nil {
			fmt.Printf("error: %v\n", fr.err)
		}
		o := checkOpts{valid: os.Getenv("VERIF_C20_VALID") != "", degenerate: os.Getenv("VERIF_C20_STRICT") == ""}
		for _, fd := range classify(string(src), res, o, nil) {
			fmt.Printf("FINDING %s\n  %s\n", fd.Key, fd.What)
			if os.Getenv("VERIF_C20_SHRINK") != "" {
				fmt.Printf("  minimized:\n%s\n", shrink(string(src), fd.raw, o))
			}
		}
		kit.End()
		return
	}

	// ---- the repository's own .api files: as they are, with CRLF line ends, and re-formatted
	kit.Run(t, "C20", "corpus", len(corpus)*3, func(c *kit.Case) {
		cf := corpus[c.Index%len(corpus)]
		src := cf.src
		variant := []string{"as-is", "crlf", "formatted-again"}[c.Index/len(corpus)]
		switch variant {
		case "crlf":
			src = strings.ReplaceAll(strings.ReplaceAll(src, "\r\n", "\n"), "\n", "\r\n")
		case "formatted-again":
			if f := runFormat([]byte(src)); f.crash == nil && f.hang == nil && f.err == nil {
				src = f.out
			}
		}
		// validity of a corpus file is decided by the real parser
		o := checkOpts{valid: false, degenerate: true}
		res := check([]byte(src), o)
		tally(c, "corpus", res)
		c.Sig(res.accepted && res.nStmts >= 10, "corpus", hashOf(src))
		report(c, res, src, o, nil, map[string]any{"file": cf.name, "variant": variant})
		if res.accepted {
			c.Sample("corpus", 1, map[string]any{"file": cf.name, "variant": variant, "bytes": len(src), "ast_leaves": res.nStmts, "comments": res.nComments})
		}
	})

	// ---- grammar-generated valid programs
	type family struct {
		name string
		n    int
		cfg  func(r *kit.Rand) (genCfg, layoutCfg)
	}
	families := []family{
		{"valid-plain", kit.N(1150, 22000), func(r *kit.Rand) (genCfg, layoutCfg) {
			lc := layoutCfg{mode: layCommon, commentP: kit.Choose(r, []float64{0, 0.1, 0.3, 0.6})}
			if r.Chance(0.1) {
				lc.mode = layCanonical
			}
			return genCfg{maxStmts: r.Range(1, 8), maxFields: r.Range(1, 8), maxDepth: 2, maxTypeNst: 3}, lc
		}},
		{"valid-odd-literals", kit.N(650, 12000), func(r *kit.Rand) (genCfg, layoutCfg) {
			return genCfg{maxStmts: r.Range(1, 6), maxFields: r.Range(1, 6), maxDepth: 2, maxTypeNst: 3, oddNames: true, oddStrings: true, multiRaw: r.Chance(0.3)},
				layoutCfg{mode: layCommon, commentP: kit.Choose(r, []float64{0.1, 0.3, 0.5}), oddText: true, multiBlk: true, crlf: r.Chance(0.1)}
		}},
		{"valid-exotic-layout", kit.N(650, 12000), func(r *kit.Rand) (genCfg, layoutCfg) {
			return genCfg{maxStmts: r.Range(1, 6), maxFields: r.Range(1, 6), maxDepth: 3, maxTypeNst: 4},
				layoutCfg{mode: layExotic, commentP: kit.Choose(r, []float64{0, 0.1, 0.3}), multiBlk: r.Bool(), crlf: r.Chance(0.1), semis: r.Bool()}
		}},
		{"valid-declares-nothing", kit.N(350, 6000), func(r *kit.Rand) (genCfg, layoutCfg) {
			return genCfg{maxStmts: r.Range(1, 6), maxFields: r.Range(1, 5), maxDepth: 2, maxTypeNst: 3, degenerate: true},
				layoutCfg{mode: layCommon, commentP: kit.Choose(r, []float64{0, 0.2})}
		}},
	}
	for _, fam := range families {
		fam := fam
		kit.Run(t, "C20", fam.name, fam.n, func(c *kit.Case) {
			gc, lc := fam.cfg(c.R)
			p := generate(c.R, gc)
			seed := c.R.Uint64()
			src, comments := render(p, seed, lc)
			o := checkOpts{valid: true, degenerate: p.degenerate}
			res := check([]byte(src), o)
			obsFeatures(c, p)
			tally(c, "valid", res)
			for _, pc := range comments {
				c.Obs("comment_"+pc.Where, 1)
			}
			c.Sig(res.accepted && res.nStmts >= 10 && (len(comments) > 0 || lc.mode != layCanonical), fam.name, hashOf(src))
			report(c, res, src, o, &genCtx{p: p, seed: seed, lc: lc, comments: comments}, map[string]any{"family": fam.name})
			if res.accepted && res.nStmts >= 20 && len(comments) >= 2 {
				c.Sample(fam.name, 1, map[string]any{"source": clip(src, 1500), "formatted": clip(res.formatted, 1500), "ast_leaves": res.nStmts, "comments": len(comments)})
			}
		})
	}

	// ---- invalid variants: token-level mutations of generated programs
	const perCase = 20
	kit.Run(t, "C20", "mutants-token", kit.N(250, 5000), func(c *kit.Case) {
		p := generate(c.R, genCfg{maxStmts: c.R.Range(1, 4), maxFields: c.R.Range(1, 4), maxDepth: 2, maxTypeNst: 3, degenerate: c.R.Chance(0.2)})
		for k := 0; k < perCase; k++ {
			src, mut := mutateTokens(p, c.R)
			if c.R.Chance(0.15) {
				var m2 string
				src, m2 = mutateBytes(src, c.R)
				mut += "+" + m2
			}
			o := checkOpts{degenerate: true, mutant: true}
			res := check([]byte(src), o)
			tally(c, "mutant", res)
			c.Obs("mutation_"+strings.SplitN(mut, ":", 2)[0], 1)
			c.Sig(!res.accepted, "mutant", hashOf(src))
			report(c, res, src, o, nil, map[string]any{"mutation": mut})
			if !res.accepted && k == 0 {
				c.Sample("mutants-token", 1, map[string]any{"mutation": mut, "source": clip(src, 600)})
			}
		}
		c.Evals(perCase)
	})

	// ---- invalid variants: byte-level mutations of generated programs and corpus files
	kit.Run(t, "C20", "mutants-byte", kit.N(200, 4000), func(c *kit.Case) {
		var base string
		if c.R.Chance(0.3) {
			base = kit.Choose(c.R, corpus).src
			if len(base) > 3000 {
				i := c.R.Intn(len(base) - 3000)
				base = base[i : i+3000]
			}
		} else {
			p := generate(c.R, genCfg{maxStmts: c.R.Range(1, 4), maxFields: c.R.Range(1, 4), maxDepth: 2, maxTypeNst: 3, oddStrings: c.R.Bool()})
			base, _ = render(p, c.R.Uint64(), layoutCfg{mode: c.R.Intn(2), commentP: 0.2, multiBlk: true})
		}
		for k := 0; k < perCase; k++ {
			src, mut := mutateBytes(base, c.R)
			for c.R.Chance(0.3) {
				var m2 string
				src, m2 = mutateBytes(src, c.R)
				mut += "+" + m2
			}
			o := checkOpts{degenerate: true, mutant: true}
			res := check([]byte(src), o)
			tally(c, "mutant", res)
			c.Obs("mutation_"+strings.SplitN(mut, "+", 2)[0], 1)
			c.Sig(!res.accepted, "mutant", hashOf(src))
			report(c, res, src, o, nil, map[string]any{"mutation": mut})
		}
		c.Evals(perCase)
	})

	// ---- hand-written edge cases of scanner and parser (each alone, and embedded after a valid prefix)
	kit.Run(t, "C20", "edge-cases", len(handWritten)*2, func(c *kit.Case) {
		src := handWritten[c.Index%len(handWritten)]
		if c.Index >= len(handWritten) {
			src = "syntax = \"v1\"\n\ntype Pre {\n\tA int `json:\"a\"`\n}\n\n" + src
		}
		o := checkOpts{degenerate: true}
		res := check([]byte(src), o)
		tally(c, "edge", res)
		c.Sig(!res.accepted, "edge", hashOf(src))
		report(c, res, src, o, nil, nil)
		c.Sample("edge-cases", 1, map[string]any{"source": src, "accepted": res.accepted})
	})

	// ---- hand-written VALID sources in rarely generated layouts (full oracle of valid sources)
	kit.Run(t, "C20", "valid-layouts", len(validLayouts)*2, func(c *kit.Case) {
		src := validLayouts[c.Index%len(validLayouts)]
		if c.Index >= len(validLayouts) {
			src = strings.ReplaceAll(src, "\n", "\r\n")
		}
		o := checkOpts{valid: true}
		res := check([]byte(src), o)
		tally(c, "valid-layouts", res)
		c.Obs("valid_layout_sources", 1)
		c.Sig(res.accepted, "valid-layouts", hashOf(src))
		report(c, res, src, o, nil, map[string]any{"family": "valid-layouts"})
	})

	// ---- deep nesting / long inputs
	// The formatter's cost grows roughly cubically with struct nesting (a -race
	// build needs ~6 s for depth 64, minutes for depth 400): depths are chosen so
	// that every case returns well inside the watchdog.
	depths := []int{1, 2, 3, 5, 8, 12, 16, 24, 32, 48, 64, 100, 200, 400}
	if kit.Thorough() {
		depths = append(depths, 800, 1500, 3000)
	}
	kit.Run(t, "C20", "deep-nesting", len(depths)*9, func(c *kit.Case) {
		d := depths[c.Index%len(depths)]
		shapeIdx := c.Index / len(depths)
		if shapeIdx == 4 && d > 48 { // struct-depth
			d = 20 + d%29
		}
		src, shape := deepNesting(shapeIdx, d)
		o := checkOpts{degenerate: true}
		res := check([]byte(src), o)
		tally(c, "deep", res)
		c.Obs("deep_"+shape, 1)
		c.Sig(true, "deep", shape, d)
		report(c, res, src, o, nil, map[string]any{"shape": shape, "depth": d})
	})

	// ---- extension families (ext_test.go): keyword substitution, cuts, file I/O, node and token API
	runExtFamilies(t)

	// ---- bounded-exhaustive: every statement kind x token gap x way a comment / line break sits there (posfamily_test.go)
	runPosFamily(t)

	kit.End()
}

