package c20

import (
	"bytes"
	"testing"

	"github.com/zeromicro/go-zero/tools/goctl/pkg/parser/api/format"
	"verifharness/kit"
)

func TestVerifC20(t *testing.T) {
	var b bytes.Buffer
	err := format.Source([]byte("syntax = \"v1\"\n"), &b)
	t.Log(err, b.String())
	kit.End()
}
