// Grammar-based producer of valid .api programs (DESIGN.md §4 C20).
//
// The generator emits a token stream; every token carries the kind of gap that
// must separate it from its predecessor. A separate layout step (layout_test.go)
// turns the stream into text, choosing whitespace, line breaks and comments
// within what the gap kind allows. The grammar implemented here was read off
// tools/goctl/pkg/parser/api/parser/parser.go and cross-checked against the
// repository's own format/testdata and parser/testdata (which use every
// construct emitted here, including comments between arbitrary tokens and line
// breaks between `@doc`/`@handler`/route parts).
package c20

import (
	"strconv"
	"strings"

	"verifharness/kit"
)

// gap is the kind of separation required before a token.
type gap uint8

const (
	gTight gap = iota // nothing may be inserted (inside composite lexemes: paths, a-b, a/b, a,b)
	gGlue             // nothing needed, same line ("[" "]", "*" T, "(" T ")", key ":")
	gSpace            // same line, at least one blank (field name -> type -> tag)
	gFree             // at least one blank; a line break is legal here
	gFreeOpt          // nothing needed; a line break is legal here
	gLine             // boundary between items of a list (statements, fields, key-values, routes)
	gLineStrict       // same, but the line break is mandatory (after an embedded `Foo` field)
	gOpen             // after the opening bracket of a multi-line block, before its first item
	gClose            // before the closing bracket of a multi-line block
)

type tok struct {
	g  gap
	s  string
	el int // innermost syntactic element (index into program.els), -1 if none
}

type element struct {
	kind       string
	start, end int // token range [start,end)
}

type program struct {
	toks []tok
	els  []element
	feat map[string]int // construct name -> how often it was emitted
	// degenerate: contains statements that declare nothing (empty groups, zero
	// strings, empty bodies) which the formatter is allowed to skip.
	degenerate bool
}

type genCfg struct {
	maxStmts   int
	maxFields  int
	maxDepth   int  // nested anonymous structs
	maxTypeNst int  // nesting of [] * map in one type expression
	degenerate bool // allow constructs that declare nothing
	oddNames   bool // identifiers that are API keywords / contain digits and underscores
	oddStrings bool // '%', tabs, backslashes, comment markers inside string literals
	multiRaw   bool // raw strings spanning several lines
}

type gen struct {
	r     *kit.Rand
	cfg   genCfg
	p     *program
	stack []int
	uniq  int
}

func (g *gen) t(gp gap, s string) {
	el := -1
	if len(g.stack) > 0 {
		el = g.stack[len(g.stack)-1]
	}
	g.p.toks = append(g.p.toks, tok{gp, s, el})
}

func (g *gen) open(kind string) {
	g.p.els = append(g.p.els, element{kind: kind, start: len(g.p.toks)})
	g.stack = append(g.stack, len(g.p.els)-1)
	g.p.feat[kind]++
}

func (g *gen) close() {
	i := g.stack[len(g.stack)-1]
	g.stack = g.stack[:len(g.stack)-1]
	g.p.els[i].end = len(g.p.toks)
}

func (g *gen) f(name string) { g.p.feat[name]++ }

var goKeywords = map[string]bool{"break": true, "case": true, "chan": true, "const": true, "continue": true,
	"default": true, "defer": true, "else": true, "fallthrough": true, "for": true, "func": true, "go": true,
	"goto": true, "if": true, "import": true, "interface": true, "map": true, "package": true, "range": true,
	"return": true, "select": true, "struct": true, "switch": true, "type": true, "var": true}

// words that steer the parser when they appear as identifiers
var apiWords = map[string]bool{"syntax": true, "info": true, "service": true, "returns": true, "any": true,
	"api": true, "get": true, "head": true, "post": true, "put": true, "patch": true, "delete": true,
	"connect": true, "options": true, "trace": true}

var nameStems = []string{"User", "Order", "Item", "Req", "Resp", "Login", "Page", "Info", "Data", "List", "Id",
	"Name", "Age", "Token", "Query", "Result", "Detail", "Config", "Status", "Meta", "X", "A", "Foo", "Bar", "Baz"}

var lowerStems = []string{"user", "order", "item", "list", "detail", "login", "ping", "search", "v", "api2", "x",
	"a", "foo", "bar", "get_it", "update", "create", "remove", "id", "name"}

var baseTypes = []string{"bool", "uint8", "uint16", "uint32", "uint64", "int8", "int16", "int32", "int64",
	"float32", "float64", "complex64", "complex128", "string", "int", "uint", "uintptr", "byte", "rune"}

func (g *gen) upperIdent() string {
	s := kit.Choose(g.r, nameStems)
	switch g.r.Pick(5, 3, 2, 1) {
	case 1:
		s += kit.Choose(g.r, nameStems)
	case 2:
		s += strconv.Itoa(g.r.Intn(100))
	case 3:
		s += "_" + kit.Choose(g.r, nameStems) + kit.Choose(g.r, nameStems) + kit.Choose(g.r, nameStems)
	}
	if g.cfg.oddNames && g.r.Chance(0.05) {
		s = "_" + s
	}
	return s
}

func (g *gen) lowerIdent() string {
	s := kit.Choose(g.r, lowerStems)
	switch g.r.Pick(5, 3, 2) {
	case 1:
		s += kit.Choose(g.r, nameStems)
	case 2:
		s += strconv.Itoa(g.r.Intn(1000))
	}
	if goKeywords[s] || apiWords[s] {
		s += "x"
	}
	return s
}

// Words that are Go keywords or steer the API parser elsewhere. The parser refuses Go keywords
// only as type names, member names and data type names (curTokenIsKeyword); every other IDENT
// position (handler and service names, keys, @server values, body types, path words) takes any
// word, and the API words (syntax, info, service, returns, get, ...) are ordinary identifiers
// wherever the grammar expects an IDENT.
var (
	looseWords  = []string{"type", "func", "returns", "service", "get", "post", "any", "map", "import", "info", "syntax",
		"interface", "go", "api", "select", "struct", "var", "range", "return", "package", "chan", "const", "default", "goto",
		"if", "for", "delete", "put", "head", "options", "trace", "connect", "patch", "switch", "case", "break", "continue",
		"defer", "else", "fallthrough"}
	strictWords = []string{"returns", "service", "get", "post", "any", "info", "syntax", "api", "put", "delete", "head",
		"patch", "options", "trace", "connect"}
)

// looseIdent: an identifier for a position where the parser accepts every word.
func (g *gen) looseIdent(base string) string {
	if g.cfg.oddNames && g.r.Chance(0.3) {
		g.f("name-keyword-where-legal")
		return kit.Choose(g.r, looseWords)
	}
	return base
}

// strictIdent: an identifier for a type name, member name or data type name (no Go keyword).
func (g *gen) strictIdent(base string) string {
	if g.cfg.oddNames && g.r.Chance(0.12) {
		g.f("name-api-word")
		return kit.Choose(g.r, strictWords)
	}
	return base
}

func (g *gen) anyIdent() string {
	if g.r.Bool() {
		return g.upperIdent()
	}
	return g.lowerIdent()
}

var stringAlphabet = []string{"a", "b", "z", "Q", "0", "9", " ", " ", "-", "_", ".", ",", ":", ";", "/", "(", ")",
	"{", "}", "[", "]", "@", "#", "=", "+", "*", "é", "中", "'", "!", "?", "<", ">", "|", "&", "$", "^", "~"}

// stringBody returns the inside of an interpreted string literal. The scanner
// ends a string at the next '"' whatever precedes it, so '"' never appears.
func (g *gen) stringBody() string {
	n := g.r.Pick(1, 4, 4, 2, 1)
	var sb strings.Builder
	words := []string{"type", "title", "here", "demo", "v1", "user login", "api", "desc", "hello world", "x"}
	switch n {
	case 0:
		if g.r.Chance(0.4) {
			// whitespace-only content: a value, not a zero string (must survive formatting)
			g.f("str-blank-only")
			return kit.Choose(g.r, []string{" ", "  ", "   "})
		}
		return kit.Choose(g.r, []string{"x", "v1", "a"})
	case 1:
		return kit.Choose(g.r, words)
	case 2:
		return kit.Choose(g.r, words) + " " + kit.Choose(g.r, words)
	}
	k := g.r.Range(1, 24)
	for i := 0; i < k; i++ {
		sb.WriteString(kit.Choose(g.r, stringAlphabet))
	}
	s := sb.String()
	if g.cfg.oddStrings {
		switch g.r.Pick(6, 2, 2, 1, 1, 1, 1, 1) {
		case 1:
			g.f("str-percent")
			s += kit.Choose(g.r, []string{"100%", "%d items", "%s", "50% off", "%", "%%", "%v%"})
		case 2:
			g.f("str-backslash")
			s += kit.Choose(g.r, []string{`\n`, `\t`, `\\`, `C:\dir`, `\`})
		case 3:
			g.f("str-comment-marker")
			s += kit.Choose(g.r, []string{"// not a comment", "/* nor this */", "http://x/y", "*/"})
		case 4:
			g.f("str-backquote")
			s += "`q`"
		case 5:
			g.f("str-tab")
			s += "a\tb"
		case 6:
			g.f("str-spaces")
			s = "  " + s + "   x  "
		case 7:
			g.f("str-at")
			s += kit.Choose(g.r, []string{"@doc", "@handler x", "@server("})
		}
	}
	return s
}

func (g *gen) str() string { return `"` + g.stringBody() + `"` }

func (g *gen) rawBody() string {
	s := strings.ReplaceAll(g.stringBody(), "`", "'")
	if g.cfg.multiRaw && g.r.Chance(0.5) {
		g.f("raw-multiline")
		ind := kit.Choose(g.r, []string{"", " ", "  ", "\t", "    "})
		s += kit.Choose(g.r, []string{"\n", " \n", "\n\n"}) + ind + strings.ReplaceAll(g.stringBody(), "`", "'")
	}
	return s
}

// infoValue: STRING or RAW_STRING
func (g *gen) infoValue() string {
	if g.cfg.degenerate && g.r.Chance(0.15) {
		g.p.degenerate = true
		g.f("zero-string")
		return kit.Choose(g.r, []string{`""`, "``"})
	}
	if g.r.Chance(0.2) {
		g.f("raw-string-value")
		return "`" + g.rawBody() + "`"
	}
	return g.str()
}

func (g *gen) tag() string {
	keys := []string{"json", "form", "path", "header", "xml", "validate"}
	n := g.r.Pick(0, 6, 3, 1)
	var parts []string
	for i := 0; i < n; i++ {
		v := g.lowerIdent()
		switch g.r.Pick(5, 2, 1, 1, 1) {
		case 1:
			v += ",optional"
		case 2:
			v += ",default=1,range=[0:10]"
		case 3:
			v += ",options=a|b|c"
		case 4:
			v = "-"
		}
		parts = append(parts, kit.Choose(g.r, keys)+`:"`+v+`"`)
	}
	sep := " "
	if g.r.Chance(0.1) {
		sep = "  "
	}
	s := strings.Join(parts, sep)
	if g.cfg.oddStrings && g.r.Chance(0.06) {
		g.f("tag-odd")
		s = kit.Choose(g.r, []string{s + " ", " " + s, s + ` doc:"100%"`, s + ` re:"a\tb"`, `json:"x"	form:"y"`, "x"})
	}
	if g.cfg.multiRaw && g.r.Chance(0.3) {
		g.f("raw-multiline")
		s += "\n" + kit.Choose(g.r, []string{"", " ", "  ", "\t"}) + `yaml:"y"`
	}
	return "`" + s + "`"
}

// ---------------------------------------------------------------- statements

func (g *gen) program() {
	n := g.r.Range(1, g.cfg.maxStmts)
	// the usual order first (syntax, info, imports), then types and services mixed
	if g.r.Chance(0.7) {
		g.syntaxStmt()
		n--
	}
	if g.r.Chance(0.35) {
		g.infoStmt()
		n--
	}
	for g.r.Chance(0.3) {
		g.importStmt()
		n--
	}
	for i := 0; i < n || len(g.p.toks) == 0; i++ {
		switch g.r.Pick(5, 4, 6, 1, 1, 1) {
		case 0:
			g.typeLit()
		case 1:
			g.typeGroup()
		case 2:
			g.service()
		case 3:
			g.importStmt()
		case 4:
			g.infoStmt()
		case 5:
			g.syntaxStmt() // the parser does not restrict position or number
		}
	}
}

func (g *gen) first() gap {
	if len(g.p.toks) == 0 {
		return gOpen
	}
	return gLine
}

func (g *gen) syntaxStmt() {
	g.open("syntax")
	g.t(g.first(), "syntax")
	g.t(gFreeOpt, "=")
	g.t(gFreeOpt, kit.Choose(g.r, []string{`"v1"`, `"v2"`, `"v1"`}))
	g.close()
}

func (g *gen) infoStmt() {
	g.open("info")
	g.t(g.first(), "info")
	g.t(gFreeOpt, "(")
	n := g.r.Range(1, 5)
	if g.cfg.degenerate && g.r.Chance(0.1) {
		n = 0
		g.p.degenerate = true
		g.f("empty-info")
	}
	keys := []string{"title", "desc", "author", "email", "version", "date", "Title", "x"}
	for i := 0; i < n; i++ {
		g.open("kv")
		gp := gLine
		if i == 0 {
			gp = gOpen
		}
		k := kit.Choose(g.r, keys)
		if g.r.Chance(0.2) {
			k = g.lowerIdent()
		}
		g.t(gp, g.looseIdent(k))
		g.t(gGlue, ":")
		g.t(gFreeOpt, g.infoValue())
		g.close()
	}
	g.t(gClose, ")")
	g.close()
}

func (g *gen) importPath() string {
	if g.cfg.degenerate && g.r.Chance(0.1) {
		g.p.degenerate = true
		g.f("zero-string")
		return `""`
	}
	if g.r.Chance(0.03) {
		g.f("import-blank-only")
		return kit.Choose(g.r, []string{`" "`, `"  "`})
	}
	s := g.lowerIdent()
	if g.r.Chance(0.3) {
		s = g.lowerIdent() + "/" + s
	}
	return `"` + s + `.api"`
}

func (g *gen) importStmt() {
	if g.r.Bool() {
		g.open("import-lit")
		g.t(g.first(), "import")
		g.t(gFree, g.importPath())
		g.close()
		return
	}
	g.open("import-group")
	g.t(g.first(), "import")
	g.t(gFreeOpt, "(")
	n := g.r.Range(1, 4)
	if g.cfg.degenerate && g.r.Chance(0.15) {
		n = 0
		g.p.degenerate = true
		g.f("empty-import-group")
	}
	for i := 0; i < n; i++ {
		gp := gLine
		if i == 0 {
			gp = gOpen
		}
		g.t(gp, g.importPath())
	}
	g.t(gClose, ")")
	g.close()
}

func (g *gen) typeLit() {
	g.open("type-lit")
	g.t(g.first(), "type")
	g.typeExpr(gFree)
	g.close()
}

func (g *gen) typeGroup() {
	g.open("type-group")
	g.t(g.first(), "type")
	g.t(gFreeOpt, "(")
	n := g.r.Range(1, 4)
	if g.cfg.degenerate && g.r.Chance(0.15) {
		n = 0
		g.p.degenerate = true
		g.f("empty-type-group")
	}
	for i := 0; i < n; i++ {
		gp := gLine
		if i == 0 {
			gp = gOpen
		}
		g.typeExpr(gp)
	}
	g.t(gClose, ")")
	g.close()
}

// typeExpr: Name [=] DataType
func (g *gen) typeExpr(gp gap) {
	g.open("type-expr")
	g.t(gp, g.strictIdent(g.upperIdent()))
	sp := gFree
	if g.r.Chance(0.12) {
		g.f("type-assign")
		g.t(gFreeOpt, "=")
		sp = gFreeOpt
	}
	if g.r.Chance(0.8) {
		g.structType(sp, 0)
	} else {
		g.f("type-alias")
		g.dataType(sp, 0, false)
	}
	g.close()
}

// structType: "{" fields "}"
func (g *gen) structType(gp gap, depth int) {
	g.open("struct")
	if gp == gFree && g.r.Bool() {
		gp = gFreeOpt // `T{` is as good as `T {`
	}
	g.t(gp, "{")
	n := g.r.Range(0, g.cfg.maxFields)
	if depth > 0 && n == 0 {
		n = 1
	}
	if n == 0 {
		g.f("empty-struct")
		g.t(gFreeOpt, "}")
		g.close()
		return
	}
	prevEmbeddedIdent := false
	for i := 0; i < n; i++ {
		gp := gLine
		if i == 0 {
			gp = gOpen
		} else if prevEmbeddedIdent {
			gp = gLineStrict
		}
		prevEmbeddedIdent = g.field(gp, depth)
	}
	// an embedded `Foo` is recognised by the NEXT token sitting on a later line
	if prevEmbeddedIdent {
		g.t(gLineStrict, "}")
	} else {
		g.t(gClose, "}")
	}
	g.close()
}

// field emits one struct member; it reports whether the member is an embedded
// plain identifier without tag (the next token must then start a new line).
func (g *gen) field(gp gap, depth int) bool {
	g.open("field")
	defer g.close()
	nestedStruct := false
	switch g.r.Pick(12, 2, 1, 1, 2) {
	case 1: // several names
		g.f("field-multi-name")
		k := g.r.Range(2, 4)
		g.open("field-names")
		for i := 0; i < k; i++ {
			if i == 0 {
				g.t(gp, g.strictIdent(g.upperIdent()))
			} else {
				g.t(gGlue, ",")
				g.t(gGlue, g.strictIdent(g.upperIdent()))
			}
		}
		g.close()
		g.dataType(gSpace, 0, false)
	case 2: // *Embedded
		g.f("field-embedded-ptr")
		g.t(gp, "*")
		if g.r.Chance(0.15) {
			g.f("field-embedded-ptr-any")
			g.t(gGlue, "any")
		} else {
			g.t(gGlue, g.strictIdent(g.upperIdent()))
		}
	case 3: // Embedded
		g.f("field-embedded")
		if g.r.Chance(0.12) {
			g.f("field-embedded-any")
			g.t(gp, "any")
		} else {
			g.t(gp, g.strictIdent(g.upperIdent()))
		}
		if g.r.Chance(0.3) {
			g.f("field-embedded-tag")
			g.open("tag")
			g.t(gSpace, g.tag())
			g.close()
			return false
		}
		return true
	case 4: // nested anonymous struct (possibly behind [] / [N] / map)
		if depth >= g.cfg.maxDepth {
			g.t(gp, g.strictIdent(g.upperIdent()))
			g.dataType(gSpace, 0, false)
			break
		}
		g.f("field-nested-struct")
		nestedStruct = true
		g.t(gp, g.strictIdent(g.upperIdent()))
		switch g.r.Pick(6, 2, 1, 1) {
		case 0:
			g.structType(gSpace, depth+1)
		case 1:
			g.f("nested-struct-slice")
			g.t(gSpace, "[")
			g.t(gGlue, "]")
			g.structType(gGlue, depth+1)
		case 2:
			g.f("nested-struct-array")
			g.t(gSpace, "[")
			g.t(gGlue, strconv.Itoa(g.r.Range(1, 9)))
			g.t(gGlue, "]")
			g.structType(gGlue, depth+1)
		case 3:
			g.f("nested-struct-map")
			g.t(gSpace, "map")
			g.t(gGlue, "[")
			g.t(gGlue, "string")
			g.t(gGlue, "]")
			g.structType(gGlue, depth+1)
		}
	default:
		g.t(gp, g.strictIdent(g.upperIdent()))
		g.dataType(gSpace, 0, false)
	}
	if g.r.Chance(0.7) {
		g.open("tag")
		if nestedStruct && g.r.Chance(0.35) {
			// after the closing brace of a nested struct the tag may follow on the next line
			// (and a comment may sit behind the brace)
			g.f("tag-after-nested-struct-free")
			g.t(gFree, g.tag())
		} else {
			g.t(gSpace, g.tag())
		}
		g.close()
	}
	return false
}

// dataType emits a type expression that contains no struct.
func (g *gen) dataType(gp gap, nest int, afterStar bool) {
	g.open("datatype")
	defer g.close()
	w := []int{10, 2, 2, 3, 3, 1, 1, 2}
	if nest >= g.cfg.maxTypeNst {
		w = []int{10, 2, 2, 0, 0, 0, 0, 0}
	}
	switch g.r.Pick(w...) {
	case 0:
		if g.r.Chance(0.6) {
			g.t(gp, kit.Choose(g.r, baseTypes))
		} else {
			g.t(gp, g.strictIdent(g.upperIdent()))
		}
	case 1:
		g.f("dt-any")
		g.t(gp, "any")
	case 2:
		g.f("dt-interface")
		g.t(gp, "interface{}")
	case 3:
		g.f("dt-pointer")
		g.t(gp, "*")
		g.dataType(gGlue, nest+1, true)
	case 4:
		g.f("dt-slice")
		g.t(gp, "[")
		g.t(gGlue, "]")
		g.dataType(gGlue, nest+1, false)
	case 5:
		g.f("dt-array")
		g.t(gp, "[")
		g.t(gGlue, strconv.Itoa(g.r.Range(0, 64)))
		g.t(gGlue, "]")
		g.dataType(gGlue, nest+1, false)
	case 6:
		g.f("dt-array-ellipsis")
		g.t(gp, "[")
		g.t(gGlue, "...")
		g.t(gGlue, "]")
		g.dataType(gGlue, nest+1, false)
	case 7:
		g.f("dt-map")
		g.t(gp, "map")
		g.t(gGlue, "[")
		g.dataType(gGlue, nest+1, false)
		g.t(gGlue, "]")
		g.dataType(gGlue, nest+1, false)
	}
}

var methods = []string{"get", "head", "post", "put", "patch", "delete", "connect", "options", "trace"}

func (g *gen) service() {
	g.open("service")
	defer g.close()
	gp := g.first()
	if g.r.Chance(0.6) {
		g.atServer(gp)
		gp = gLine
	}
	g.t(gp, "service")
	g.open("service-name")
	g.t(gFree, g.looseIdent(g.lowerIdent()))
	if g.r.Chance(0.4) {
		g.f("service-name-api")
		g.t(gTight, "-")
		g.t(gTight, "api")
	}
	g.close()
	g.t(gFreeOpt, "{")
	n := g.r.Range(0, 5)
	if n == 0 {
		g.f("empty-service")
		g.t(gFreeOpt, "}")
		return
	}
	for i := 0; i < n; i++ {
		gp := gLine
		if i == 0 {
			gp = gOpen
		}
		g.serviceItem(gp)
	}
	g.t(gClose, "}")
}

// Path items, as the unchanged parser reads them (parsePathExpr/parsePathItem and the scanner):
//
//	item  = [ ":" ] first { "-" IDENT }
//	first = IDENT | INT | INT IDENT
//
// IDENT is [A-Za-z_][A-Za-z0-9_]* - every word, Go keywords and API words included, except that a
// bare `returns` ends the path. A word that starts with digits is scanned as INT followed by IDENT
// (`2fa` = INT(2) IDENT(fa)) and glued together again by parsePathItem; when the letter after the
// digits is one of n, µ, m, s, h the scanner reads a duration instead, and the path is rejected.
// After "-" only IDENT is legal (no digit may follow a dash); ".", "--", "//" are rejected.
var pathKeywordWords = []string{"type", "service", "get", "post", "put", "delete", "head", "patch", "options", "trace",
	"connect", "info", "syntax", "import", "map", "any", "interface", "func", "go", "goto", "select", "struct", "var",
	"range", "return", "package", "default", "if", "for", "api", "chan", "const", "case", "break", "else", "switch",
	"continue", "defer", "fallthrough"}

// letters that may follow the leading digits of a path word (not a duration unit)
const digitTailStart = "abcdefgijklopqrtuvwxyzABCDEFGHIJKLMNOPQRSTUVWXYZ_"

func (g *gen) digitLeadingWord() string {
	s := strconv.Itoa(g.r.Range(0, 999))
	if g.r.Chance(0.15) {
		s = "0" + s
	}
	s += string(digitTailStart[g.r.Intn(len(digitTailStart))])
	s += kit.Choose(g.r, []string{"", "a", "fa", "d", "legged", "x2", "_", "_v1", "D", "0", "returns", "s5m", "type"})
	return s
}

// pathIdent: an IDENT of the path alphabet; afterDash/afterColon tell the position.
func (g *gen) pathIdent(bareFirst bool) string {
	switch g.r.Pick(10, 3, 2, 2, 1) {
	case 1:
		g.f("path-keyword-word")
		return kit.Choose(g.r, pathKeywordWords)
	case 2:
		g.f("path-underscore-word")
		return kit.Choose(g.r, []string{"_", "__", "_a", "a_", "a_b", "_1", "a__b_", "_type", "v_1_2"})
	case 3:
		g.f("path-upper-word")
		return g.upperIdent()
	case 4:
		if !bareFirst { // a bare `returns` would end the path
			g.f("path-returns-word")
			return "returns"
		}
	}
	return g.lowerIdent()
}

// pathFirst: the first piece of a path item.
func (g *gen) pathFirst(afterColon bool) {
	switch g.r.Pick(12, 3, 2, 1) {
	case 1:
		g.f("path-digit-leading-word")
		g.t(gTight, g.digitLeadingWord())
	case 2:
		g.f("path-int")
		g.t(gTight, strconv.Itoa(g.r.Intn(1000)))
	case 3:
		g.f("path-int-odd")
		g.t(gTight, kit.Choose(g.r, []string{"0", "00", "007", "18446744073709551616", "9223372036854775808999"}))
	default:
		g.t(gTight, g.pathIdent(!afterColon))
	}
}

func (g *gen) pathSeg() {
	colon := false
	if g.r.Chance(0.28) {
		g.f("path-var")
		colon = true
		g.t(gTight, ":")
	}
	g.pathFirst(colon)
	k := g.r.Pick(14, 4, 2, 1)
	if k > 0 {
		if colon {
			g.f("path-var-dash")
		} else {
			g.f("path-dash")
		}
	}
	for i := 0; i < k; i++ {
		g.t(gTight, "-")
		g.t(gTight, g.pathIdent(false))
	}
}

// duration: a DURATION literal as scanIntOrDuration reads it - one unit, or several units in
// descending order (h m s ms µs ns), each at most once, e.g. 1h30m, 2m5s, 1s500ms, 3ms20µs10ns.
func (g *gen) duration() string {
	units := []string{"h", "m", "s", "ms", "µs", "ns"}
	num := func() string {
		if g.r.Chance(0.1) {
			return kit.Choose(g.r, []string{"0", "00", "007", "18446744073709551616"})
		}
		return strconv.Itoa(g.r.Range(1, 5000))
	}
	if g.r.Chance(0.55) {
		return num() + kit.Choose(g.r, units)
	}
	g.f("sv-duration-compound")
	var sb strings.Builder
	for sb.Len() == 0 {
		n := 0
		for _, u := range units {
			if g.r.Chance(0.45) {
				sb.WriteString(num() + u)
				n++
			}
		}
		if n < 2 {
			sb.Reset()
		}
	}
	return sb.String()
}

func (g *gen) atServer(gp gap) {
	g.open("at-server")
	defer g.close()
	g.t(gp, "@server")
	g.t(gFreeOpt, "(")
	n := g.r.Range(1, 6)
	if g.cfg.degenerate && g.r.Chance(0.12) {
		n = 0
		g.p.degenerate = true
		g.f("empty-at-server")
	}
	keys := []string{"group", "prefix", "jwt", "middleware", "timeout", "maxBytes", "signature", "summary", "tags", "x"}
	allZero := g.cfg.degenerate && n > 0 && g.r.Chance(0.1)
	if allZero {
		g.p.degenerate = true
		g.f("at-server-all-zero-strings")
	}
	for i := 0; i < n; i++ {
		g.open("kv")
		gp := gLine
		if i == 0 {
			gp = gOpen
		}
		g.t(gp, g.looseIdent(kit.Choose(g.r, keys)))
		g.t(gGlue, ":")
		g.open("at-server-value")
		if allZero {
			g.f("zero-string")
			g.t(gFreeOpt, `""`)
			g.close()
			g.close()
			continue
		}
		switch g.r.Pick(5, 3, 2, 2, 2, 2, 2, 2) {
		case 0:
			g.f("sv-ident")
			g.t(gFreeOpt, g.looseIdent(g.anyIdent()))
		case 1: // /a/b-c
			g.f("sv-path")
			g.t(gFreeOpt, "/")
			k := g.r.Range(1, 3)
			for j := 0; j < k; j++ {
				if j > 0 {
					g.t(gTight, "/")
				}
				g.t(gTight, g.looseIdent(g.lowerIdent()))
				if g.r.Chance(0.25) {
					g.t(gTight, "-")
					g.t(gTight, g.looseIdent(g.lowerIdent()))
				}
			}
		case 2: // a/b/c
			g.f("sv-ident-path")
			g.t(gFreeOpt, g.looseIdent(g.lowerIdent()))
			k := g.r.Range(1, 3)
			for j := 0; j < k; j++ {
				g.t(gTight, "/")
				g.t(gTight, g.looseIdent(g.lowerIdent()))
				if g.r.Chance(0.25) {
					g.t(gTight, "-")
					g.t(gTight, g.looseIdent(g.lowerIdent()))
				}
			}
		case 3: // A,B,C
			g.f("sv-comma-list")
			g.t(gFreeOpt, g.looseIdent(g.upperIdent()))
			k := g.r.Range(1, 3)
			for j := 0; j < k; j++ {
				g.t(gTight, ",")
				g.t(gTight, g.looseIdent(g.upperIdent()))
			}
		case 4: // a-b-c
			g.f("sv-dash-list")
			g.t(gFreeOpt, g.looseIdent(g.lowerIdent()))
			k := g.r.Range(1, 3)
			for j := 0; j < k; j++ {
				g.t(gTight, "-")
				g.t(gTight, g.looseIdent(g.lowerIdent()))
			}
		case 5:
			g.f("sv-duration")
			g.t(gFreeOpt, g.duration())
		case 6:
			g.f("sv-int")
			g.t(gFreeOpt, strconv.Itoa(g.r.Intn(1<<20)))
		case 7:
			g.f("sv-string")
			if g.cfg.degenerate && g.r.Chance(0.3) {
				g.p.degenerate = true
				g.f("zero-string")
				g.t(gFreeOpt, `""`)
			} else {
				g.t(gFreeOpt, g.str())
			}
		}
		g.close()
		g.close()
	}
	g.t(gClose, ")")
}

func (g *gen) serviceItem(gp gap) {
	g.open("route-item")
	defer g.close()
	switch g.r.Pick(5, 3, 2) {
	case 1:
		g.open("at-doc-lit")
		g.t(gp, "@doc")
		if g.cfg.degenerate && g.r.Chance(0.2) {
			g.p.degenerate = true
			g.f("zero-string")
			g.t(gFree, `""`)
		} else {
			g.t(gFreeOpt, g.str())
		}
		g.close()
		gp = gLine
	case 2:
		g.open("at-doc-group")
		g.t(gp, "@doc")
		g.t(gFreeOpt, "(")
		n := g.r.Range(1, 3)
		if g.r.Chance(0.2) {
			n = g.r.Range(4, 6)
		}
		if g.cfg.degenerate && g.r.Chance(0.2) {
			n = 0
			g.p.degenerate = true
			g.f("empty-at-doc")
		}
		allZero := g.cfg.degenerate && n > 0 && g.r.Chance(0.1)
		if allZero {
			g.p.degenerate = true
			g.f("at-doc-all-zero-strings")
		}
		for i := 0; i < n; i++ {
			g.open("kv")
			gq := gLine
			if i == 0 {
				gq = gOpen
			}
			g.t(gq, g.looseIdent(kit.Choose(g.r, []string{"summary", "desc", "description", "x"})))
			g.t(gGlue, ":")
			if allZero {
				g.f("zero-string")
				g.t(gFreeOpt, kit.Choose(g.r, []string{`""`, "``"}))
			} else {
				g.t(gFreeOpt, g.infoValue())
			}
			g.close()
		}
		g.t(gClose, ")")
		g.close()
		gp = gLine
	}
	g.open("at-handler")
	g.t(gp, "@handler")
	g.t(gFree, g.looseIdent(g.anyIdent()))
	g.close()

	g.open("route")
	g.t(gLine, kit.Choose(g.r, methods))
	g.open("path")
	g.t(gFree, "/")
	k := g.r.Pick(1, 4, 4, 2, 1)
	if k == 0 {
		g.f("path-root")
	}
	for i := 0; i < k; i++ {
		if i > 0 {
			g.t(gTight, "/")
		}
		g.pathSeg()
	}
	if k > 0 && g.r.Chance(0.05) {
		g.f("path-trailing-slash")
		g.t(gTight, "/")
	}
	g.close()
	hasReq := g.r.Chance(0.65)
	hasResp := g.r.Chance(0.6)
	if hasReq {
		g.body("request", gFree)
	}
	if hasResp {
		g.t(gFree, "returns")
		g.body("response", gFreeOpt)
	}
	g.close()
}

func (g *gen) body(kind string, gp gap) {
	g.open(kind)
	defer g.close()
	g.t(gp, "(")
	if g.cfg.degenerate && g.r.Chance(0.15) {
		g.p.degenerate = true
		g.f("empty-body")
		g.t(gGlue, ")")
		return
	}
	switch g.r.Pick(8, 2, 2, 2) {
	case 1:
		g.f("body-slice")
		g.t(gGlue, "[")
		g.t(gGlue, "]")
	case 2:
		g.f("body-ptr")
		g.t(gGlue, "*")
	case 3:
		g.f("body-slice-ptr")
		g.t(gGlue, "[")
		g.t(gGlue, "]")
		g.t(gGlue, "*")
	}
	if g.r.Chance(0.1) {
		g.t(gGlue, kit.Choose(g.r, baseTypes))
	} else {
		g.t(gGlue, g.looseIdent(g.upperIdent()))
	}
	g.t(gGlue, ")")
}

func generate(r *kit.Rand, cfg genCfg) *program {
	g := &gen{r: r, cfg: cfg, p: &program{feat: map[string]int{}}}
	g.program()
	return g.p
}
