package c20

import (
	"bytes"
	"fmt"
	"os"
	"path/filepath"
	"sort"
	"testing"

	"github.com/zeromicro/go-zero/tools/goctl/pkg/parser/api/format"
)

func fmtOnce(src []byte) (out string, err error, pan any) {
	defer func() {
		if r := recover(); r != nil {
			pan = r
		}
	}()
	var b bytes.Buffer
	err = format.Source(src, &b)
	return b.String(), err, nil
}

func TestProbe(t *testing.T) {
	dir := os.Getenv("PROBE_DIR")
	if dir == "" {
		t.Skip()
	}
	files, _ := filepath.Glob(filepath.Join(dir, "*.api"))
	sort.Strings(files)
	for _, f := range files {
		src, _ := os.ReadFile(f)
		o1, err, pan := fmtOnce(src)
		fmt.Printf("=== %s\n", filepath.Base(f))
		if pan != nil {
			fmt.Printf("PANIC: %v\n", pan)
			continue
		}
		if err != nil {
			fmt.Printf("ERR: %v\n", err)
			continue
		}
		fmt.Printf("--- pass1\n%s", o1)
		o2, err, pan := fmtOnce([]byte(o1))
		if pan != nil || err != nil {
			fmt.Printf("PASS2 FAIL: %v %v\n", err, pan)
			continue
		}
		if o2 != o1 {
			fmt.Printf("--- NOT IDEMPOTENT pass2\n%s", o2)
		} else {
			fmt.Printf("--- idempotent\n")
		}
	}
}
