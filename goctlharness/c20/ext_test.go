// Extension families for C20 (round 3/4 of the seeded-change audit and the reach audit):
//
//	kw-subst   bounded-exhaustive: every word of a few small valid programs that together contain
//	           every construct (multi-name members, nested structs, every @server value shape, ...)
//	           is replaced by every Go keyword, every API keyword and a plain identifier - a keyword
//	           where an identifier is required, and an identifier where a keyword is required.
//	cut-at-token  bounded-exhaustive: the same programs cut before (and inside) every lexeme, the
//	           cut followed by nothing or by a lexeme at which the scanner itself fails (open
//	           string, open raw string, open block comment, '@x', '@', NUL, a malformed duration).
//	durations  every DURATION shape (each subset of h m s ms µs ns in descending order) as a valid @server value.
//	file-io    format.File on a file in the scratch directory: same verdict and same text as
//	           format.Source of the same bytes; parser.New on the file name; missing file, directory.
//	node-api   the exported methods of every node of a parsed AST (Pos, End, Format, comment
//	           accessors, RawText, ...), of every token (token.Token helpers), ParseForUintTest /
//	           FormatForUnitTest, the scanner's input kinds: no panic, and for comment-free programs
//	           Format() of a node carries exactly the node's tokens.
package c20

import (
	"bytes"
	"fmt"
	"io"
	"os"
	"path/filepath"
	"reflect"
	"strings"
	"testing"

	"github.com/zeromicro/go-zero/tools/goctl/pkg/parser/api/ast"
	"github.com/zeromicro/go-zero/tools/goctl/pkg/parser/api/format"
	"github.com/zeromicro/go-zero/tools/goctl/pkg/parser/api/parser"
	"github.com/zeromicro/go-zero/tools/goctl/pkg/parser/api/scanner"
	"github.com/zeromicro/go-zero/tools/goctl/pkg/parser/api/token"

	"verifharness/kit"
)

// basePrograms: small valid sources; together they use every production of the grammar.
var basePrograms = []struct{ name, src string }{
	{"types", `syntax = "v1"

info (
	title: "demo"
	desc: ` + "`raw text`" + `
)

import "base.api"

import (
	"a/b.api"
	"c.api"
)

type Req {
	Id int64 ` + "`json:\"id\"`" + `
	Name, Nick string ` + "`form:\"name,optional\"`" + `
	A, B, C int64
	Tags []string
	Arr [3]int
	Any [...]any
	M map[string]*Item
	P *Item
	I interface{}
	Inner {
		X bool ` + "`json:\"x\"`" + `
		U, V uint8
		Deep []{
			Y uint8
		} ` + "`json:\"deep\"`" + `
	} ` + "`json:\"inner\"`" + `
	MS map[string]{
		Z int
	}
	Base
	*Ptr
	Emb ` + "`json:\"emb\"`" + `
}

type Alias = map[string][]int

type Empty {}

type (
	Resp {
		Code int ` + "`json:\"code\"`" + `
		Msg, Detail string
	}
	Item = [2]*Req
	Num int64
)
`},
	{"service", `@server (
	group: user
	prefix: /api/v1
	jwt: Auth
	middleware: A,B
	timeout: 1h30m
	maxBytes: 1024
	tags: "x y"
	host: a-b-c
	mod: a/b/c-d
)
service user-api {
	@doc "login"
	@handler login
	post /user/login (Req) returns (Resp)

	@doc (
		summary: "info"
		desc: ` + "`more`" + `
	)
	@handler info
	get /user/:id/2fa-x/3 returns ([]*Item)

	@handler ping
	get /

	@handler del
	delete /user/:id (*Req);

	@handler up
	put /a-b/c_d/ ([]Item) returns (*Resp)
}

service plain {
	@handler h
	head /h returns (string)
}
`},
	{"mixed-one-line", "type T { A, B int `t` }\n" +
		"type ( U { M, N map[int]string } )\n" +
		"@server ( a: b ) service s { @handler h get /x/:y (T) returns (U) }\n"},
	{"mixed", `type (
	Pair {
		K, V string ` + "`json:\"kv\"`" + `
		Next *Pair
		L []map[string]int
	}
)
`},
}

// substitution words: every Go keyword, the words the API parser treats specially, plain identifiers
// (the first nPlainGoKeywords entries are Go keywords the API parser does not look at by name)
var substWords = []string{"break", "case", "chan", "const", "continue", "default", "defer", "else", "fallthrough", "for",
	"func", "go", "goto", "if", "package", "range", "return", "select", "struct", "switch", "var",
	"import", "interface", "map", "type",
	"syntax", "info", "service", "returns", "any", "api", "get", "post", "delete", "interface{}",
	"@doc", "@handler", "@server", "zed", "Zed", "_", "7", "1s"}

const nPlainGoKeywords = 21

type wordPos struct {
	prog  int
	start int
	end   int
}

func wordPositions() []wordPos {
	var out []wordPos
	for pi, bp := range basePrograms {
		for _, l := range lex(bp.src) {
			if l.kind == 'w' {
				out = append(out, wordPos{pi, l.start, l.end})
			}
		}
	}
	return out
}

type cutPos struct {
	prog int
	at   int
}

func cutPositions() []cutPos {
	var out []cutPos
	for pi, bp := range basePrograms {
		for _, l := range lex(bp.src) {
			out = append(out, cutPos{pi, l.start})
			if l.end-l.start > 1 {
				out = append(out, cutPos{pi, l.start + 1})
			}
		}
		out = append(out, cutPos{pi, len(bp.src)})
	}
	return out
}

// what follows the cut: nothing, or a lexeme at which the scanner itself reports an error / an illegal token
var cutEndings = []string{"", `"abc`, "`abc", "/* open", "/* open *", "@x", "@", "\x00", "1nx", "1s5mx", "// c", " /**/ ", "'"}

func scratchDir() string {
	if d := os.Getenv("VERIF_SCRATCH_DIR"); d != "" {
		return d
	}
	return "/var/tmp"
}

// ---------------------------------------------------------------- node API

type nodeRec struct {
	n      ast.Node
	typ    string
	leaves string // texts of the node's tokens, in order, white space removed
}

var nodeIface = reflect.TypeOf((*ast.Node)(nil)).Elem()

// collectNodes walks the AST reflectively (exported fields in declaration order, which is source
// order in every node type) and returns every node in pre-order together with its token texts.
func collectNodes(v reflect.Value, out *[]nodeRec) string {
	switch v.Kind() {
	case reflect.Interface:
		if v.IsNil() {
			return ""
		}
		return collectNodes(v.Elem(), out)
	case reflect.Ptr:
		if v.IsNil() {
			return ""
		}
		if v.Type() == tokenNodeType {
			tn := v.Interface().(*ast.TokenNode)
			txt := stripSpace(tn.Token.Text)
			*out = append(*out, nodeRec{tn, "TokenNode", txt})
			return txt
		}
		idx := -1
		if v.Type().Implements(nodeIface) && v.Elem().Kind() == reflect.Struct {
			if _, isComment := v.Interface().(*ast.CommentStmt); isComment {
				return ""
			}
			idx = len(*out)
			*out = append(*out, nodeRec{v.Interface().(ast.Node), v.Elem().Type().Name(), ""})
		}
		txt := collectNodes(v.Elem(), out)
		if idx >= 0 {
			(*out)[idx].leaves = txt
		}
		return txt
	case reflect.Struct:
		var sb strings.Builder
		t := v.Type()
		for i := 0; i < t.NumField(); i++ {
			if t.Field(i).IsExported() {
				sb.WriteString(collectNodes(v.Field(i), out))
			}
		}
		return sb.String()
	case reflect.Slice:
		var sb strings.Builder
		for i := 0; i < v.Len(); i++ {
			sb.WriteString(collectNodes(v.Index(i), out))
		}
		return sb.String()
	}
	return ""
}

// scanJoined returns the non-comment token texts of s, concatenated without white space.
func scanJoined(s string) (string, error) {
	if strings.TrimSpace(s) == "" {
		return "", nil
	}
	sc, err := scanner.NewScanner("", []byte(s))
	if err != nil {
		return "", err
	}
	var sb strings.Builder
	for i := 0; i < len(s)+8; i++ {
		t, err := sc.NextToken()
		if err != nil {
			return sb.String(), err
		}
		switch t.Type {
		case token.EOF:
			return sb.String(), nil
		case token.COMMENT, token.DOCUMENT:
		default:
			sb.WriteString(stripSpace(t.Text))
		}
	}
	return sb.String(), fmt.Errorf("no EOF")
}

type nodeAPIResult struct {
	nodes, methods int
	typesSeen      map[string]int
	bad            []rawFinding
	parseErr       bool
}

// exerciseNodes parses src afresh (Format mutates nodes) and calls the exported API of every node.
// strict: the program has no comment and declares something everywhere, so Format() of each node
// must carry exactly the node's tokens.
func exerciseNodes(src []byte, strict bool) (nodeAPIResult, *crash, *hang) {
	var res nodeAPIResult // written by the guarded goroutine only
	res.typesSeen = map[string]int{}
	recordInput(src)
	current := ""
	cr, hg := guarded(func() {
		p := parser.New("", src)
		a := p.Parse()
		if p.CheckErrors() != nil || a == nil {
			res.parseErr = true
			return
		}
		var nodes []nodeRec
		for _, st := range a.Stmts {
			collectNodes(reflect.ValueOf(st), &nodes)
		}
		seenBad := map[string]bool{}
		for _, nr := range nodes {
			current = nr.typ
			n := nr.n
			_ = n.Pos()
			_ = n.End()
			_ = n.HasHeadCommentGroup()
			_ = n.HasLeadingCommentGroup()
			h, l := n.CommentGroup()
			_, _, _, _ = h.List(), h.String(), l.Join(" "), l.Valid()
			txt := n.Format("")
			_ = n.Format("\t")
			res.methods += 8
			switch x := n.(type) {
			case *ast.TokenNode:
				_, _, _ = x.RawText(), x.IsEmptyString(), x.IsZeroString()
				_, _ = x.PeekFirstHeadComment(), x.PeekFirstLeadingComment()
				_ = x.Equal(x.Token.Text)
				res.methods += 6
			case *ast.BodyExpr:
				_ = x.IsArrayType()
				res.methods++
			case *ast.ElemExpr:
				_ = x.IsAnonymous()
				res.methods++
			}
			if dt, ok := n.(ast.DataType); ok {
				_, _, _ = dt.RawText(), dt.CanEqual(), dt.ContainsStruct()
				res.methods += 3
			}
			res.nodes++
			res.typesSeen[nr.typ]++
			if strict && !seenBad[nr.typ] {
				// the commas between the names of a member are not nodes of the AST
				got, err := scanJoined(txt)
				if err != nil || strings.ReplaceAll(got, ",", "") != strings.ReplaceAll(nr.leaves, ",", "") {
					seenBad[nr.typ] = true
					res.bad = append(res.bad, rawFinding{
						Key: "C20/node-format/" + nr.typ,
						What: fmt.Sprintf("Format() of a %s node does not carry the node's tokens: node has %q, formatted text has %q (scan error: %v)",
							nr.typ, clip(nr.leaves, 120), clip(got, 120), err),
						Witness: map[string]any{"input": string(src), "node_type": nr.typ, "node_tokens": nr.leaves, "node_format": txt},
					})
				}
			}
		}
		current = "AST.FormatForUnitTest"
		a.FormatForUnitTest(io.Discard)
		res.methods++
	})
	if hg != nil && hg.waited > patience {
		return nodeAPIResult{}, cr, hg
	}
	if cr != nil {
		cr.msg = "while calling the methods of a " + current + " node: " + cr.msg
	}
	return res, cr, hg
}

// exerciseTokens calls every helper of token.Token on every token of src.
func exerciseTokens(src []byte) (n int, counts map[string]int, cr *crash, hg *hang) {
	counts = map[string]int{}
	recordInput(src)
	cr, hg = guarded(func() {
		sc, err := scanner.NewScanner("", src)
		if err != nil {
			return
		}
		for i := 0; i < len(src)+8; i++ {
			t, err := sc.NextToken()
			if err != nil || t.Type == token.EOF {
				return
			}
			n++
			f := t.Fork(token.IDENT)
			_ = f.String()
			_ = t.String()
			_ = t.Line()
			_ = t.Valid()
			_ = t.IsType(t.Type)
			if t.IsEmptyString() {
				counts["empty_string"]++
			}
			if t.IsComment() {
				counts["comment"]++
			}
			if t.IsDocument() {
				counts["document"]++
			}
			if t.IsKeyword() {
				counts["keyword"]++
			}
			if kt, ok := token.LookupKeyword(t.Text); ok && t.Fork(kt).IsKeyword() {
				counts["keyword_text"]++
			}
			if t.IsBaseType() {
				counts["base_type"]++
			}
			if t.IsHttpMethod() {
				counts["http_method"]++
			}
			if t.Is("service", "type", "returns") {
				counts["is_word"]++
			}
		}
	})
	return
}

// miscAPI: entry points that take no program.
func miscAPI() (cr *crash, hg *hang) {
	return guarded(func() {
		_ = token.Type(9999).String()
		_ = token.ErrorToken.String()
		_ = token.EofToken.String()
		_ = token.NewIllegalToken('x', token.Position{}).String()
		w := ast.NewWriter(io.Discard)
		_ = w.String()
		w.Write()
		w.WriteText("x")
		w.NewLine()
		w.Flush()
		bw := ast.NewBufferWriter()
		bw.Write()
		_ = bw.String()
		_ = ast.SyntaxError(token.Position{}, "x %d", 1)
		_ = ast.DuplicateStmtError(token.Position{}, "x")
		_ = ast.NewTokenNode(token.Token{Text: "`x`"}).RawText()
		_ = ast.NewTokenNode(token.Token{Text: `"x"`}).RawText()
		_ = ast.NewTokenNode(token.Token{Text: "x"}).RawText()
		_ = ast.NewTokenNode(token.Token{}).IsEmptyString()
	})
}

// scannerInputKinds hands the same text to the scanner as []byte, string, *bytes.Buffer, through a
// file name, and as an unsupported type; returns how many kinds produced a scanner.
func scannerInputKinds(src []byte, file string) (ok int, unsupportedRejected bool, cr *crash, hg *hang) {
	cr, hg = guarded(func() {
		drain := func(s *scanner.Scanner) {
			for i := 0; i < len(src)+8; i++ {
				t, err := s.NextToken()
				if err != nil || t.Type == token.EOF {
					return
				}
			}
		}
		for _, in := range []any{src, string(src), bytes.NewBuffer(src)} {
			if s, err := scanner.NewScanner("", in); err == nil {
				ok++
				drain(s)
			}
		}
		if file != "" {
			if s, err := scanner.NewScanner(file, nil); err == nil {
				ok++
				drain(s)
			}
		}
		if _, err := scanner.NewScanner("", 42); err != nil {
			unsupportedRejected = true
		}
		if len(src) > 0 {
			drain(scanner.MustNewScanner("", src))
			ok++
		}
	})
	return
}

// unitTestSnippets: sources for ParseForUintTest (it accepts @server / @handler / @doc statements only)
var unitTestSnippets = []string{
	"@server(a:b)", "@server(a:/b/c-d\nt:1h5m\nn:7\ns:\"x\")", "@server()", "@server(", "@server(a:)", "@handler h", "@handler",
	"@handler func", "@doc \"x\"", "@doc (a:\"b\" c:`d`)", "@doc (", "@doc", "@doc ()", "@handler h @doc \"x\" @server(a:b)",
	"type T {}", "x", "@server(a:b) @handler", "@doc \"", "@handler h // c", "/* c */ @handler h",
}

func runExtFamilies(t *testing.T) {
	words := wordPositions()
	cuts := cutPositions()

	// ---- self-check of the base programs: they must be valid (full oracle of valid sources)
	kit.Run(t, "C20", "base-programs", len(basePrograms)*2, func(c *kit.Case) {
		bp := basePrograms[c.Index%len(basePrograms)]
		src := bp.src
		if c.Index >= len(basePrograms) {
			src = strings.ReplaceAll(src, "\n", "\r\n")
		}
		o := checkOpts{valid: true}
		res := check([]byte(src), o)
		tally(c, "base", res)
		c.Sig(res.accepted, "base", hashOf(src))
		report(c, res, src, o, nil, map[string]any{"family": "base-programs", "program": bp.name})
	})

	// ---- every duration literal shape: each non-empty subset of the units h m s ms µs ns in descending order
	units := []string{"h", "m", "s", "ms", "µs", "ns"}
	kit.Run(t, "C20", "durations", 63, func(c *kit.Case) {
		var d strings.Builder
		for i, u := range units {
			if (c.Index+1)&(1<<i) != 0 {
				d.WriteString(fmt.Sprint(c.R.Range(1, 999)) + u)
			}
		}
		src := "@server (\n\ttimeout: " + d.String() + "\n\tt2: " + d.String() + " // c\n)\nservice x {\n\t@handler h\n\tget /a\n}\n"
		o := checkOpts{valid: true}
		res := check([]byte(src), o)
		tally(c, "duration", res)
		c.Sig(res.accepted, "durations", c.Index)
		report(c, res, src, o, nil, map[string]any{"family": "durations", "duration": d.String()})
	})

	// ---- a keyword where an identifier is required, an identifier where a keyword is required
	kit.Run(t, "C20", "kw-subst", len(words), func(c *kit.Case) {
		wp := words[c.Index]
		bp := basePrograms[wp.prog]
		orig := bp.src[wp.start:wp.end]
		for wi, w := range substWords {
			if w == orig {
				continue
			}
			// quick: the words the API parser treats specially at every position, the other Go
			// keywords in rotation (4 per position); thorough: every word at every position
			if !kit.Thorough() && wi < nPlainGoKeywords && (wi+c.Index)%5 != 0 {
				continue
			}
			src := bp.src[:wp.start] + w + bp.src[wp.end:]
			o := checkOpts{degenerate: true, mutant: true}
			res := check([]byte(src), o)
			tally(c, "kwsubst", res)
			if goKeywords[w] {
				c.Obs("kwsubst_go_keyword_tried", 1)
			}
			c.Sig(!res.accepted, "kwsubst", hashOf(src))
			report(c, res, src, o, nil, map[string]any{"family": "kw-subst", "program": bp.name, "replaced": orig, "by": w, "offset": wp.start})
			c.Evals(1)
		}
		if c.Index%97 == 0 {
			c.Sample("kw-subst", 2, map[string]any{"program": bp.name, "replaced": orig, "offset": wp.start, "by": "each of " + strings.Join(substWords, " ")})
		}
	})

	// ---- cut before / inside every lexeme, followed by a lexeme the scanner fails at
	kit.Run(t, "C20", "cut-at-token", len(cuts), func(c *kit.Case) {
		cp := cuts[c.Index]
		bp := basePrograms[cp.prog]
		for ei, e := range cutEndings {
			if !kit.Thorough() && ei > 0 && (ei+c.Index)%3 != 0 {
				continue
			}
			src := bp.src[:cp.at] + e
			o := checkOpts{degenerate: true, mutant: true}
			res := check([]byte(src), o)
			tally(c, "cut", res)
			c.Sig(!res.accepted, "cut", hashOf(src))
			report(c, res, src, o, nil, map[string]any{"family": "cut-at-token", "program": bp.name, "cut_at": cp.at, "ending": e})
			c.Evals(1)
		}
	})

	// ---- format.File against format.Source, parser and scanner reading the file themselves
	kit.Run(t, "C20", "file-io", kit.N(160, 3000), func(c *kit.Case) {
		dir := scratchDir()
		path := filepath.Join(dir, fmt.Sprintf("c20-file-%s-%d.api", os.Getenv("VERIF_SHARD"), os.Getpid()))
		defer os.Remove(path)
		var src, kind string
		p := generate(c.R, genCfg{maxStmts: c.R.Range(1, 5), maxFields: c.R.Range(1, 5), maxDepth: 2, maxTypeNst: 3, oddNames: c.R.Bool(),
			oddStrings: c.R.Chance(0.3), degenerate: c.R.Chance(0.2)})
		switch c.R.Pick(6, 3, 1, 1) {
		case 0:
			kind = "valid"
			src, _ = render(p, c.R.Uint64(), layoutCfg{mode: c.R.Intn(2), commentP: 0.1, crlf: c.R.Chance(0.1)})
		case 1:
			kind = "mutant"
			src, _ = mutateTokens(p, c.R)
		case 2:
			kind = "missing-file"
		case 3:
			kind = "directory"
			path = dir
		}
		c.Obs("file_case_"+kind, 1)
		viol := func(rf rawFinding) {
			c.Obs("oracle_failed_file", 1)
			rf.Witness["kind"] = kind
			c.Viol(rf.Key, rf.What, rf.Witness)
		}
		if kind == "missing-file" || kind == "directory" {
			if kind == "missing-file" {
				os.Remove(path)
			}
			var err error
			cr, hg := guarded(func() { err = format.File(path) })
			switch {
			case cr != nil:
				viol(crashFinding(cr, "format.File on a "+kind, nil))
			case hg != nil && hg.waited > patience:
				viol(hangFinding(hg, "format.File", nil))
			case err == nil:
				viol(rawFinding{Key: "C20/file-vs-source/no-error-for-unreadable-file", What: "format.File returned nil for a " + kind,
					Witness: map[string]any{"path": path}})
			default:
				c.Obs("file_unreadable_reported_as_error", 1)
			}
			c.Sig(true, "file-io", kind)
			return
		}
		if err := os.WriteFile(path, []byte(src), 0o644); err != nil {
			c.Inconclusive("cannot write the scratch file: " + err.Error())
			return
		}
		want := runFormat([]byte(src))
		if want.crash != nil || want.hang != nil {
			return // reported by the other families (same input classes)
		}
		var err error
		cr, hg := guarded(func() { err = format.File(path) })
		if cr != nil {
			viol(crashFinding(cr, "format.File", []byte(src)))
			return
		}
		if hg != nil {
			if hg.waited > patience {
				viol(hangFinding(hg, "format.File", []byte(src)))
			} else {
				c.Inconclusive("format.File needed more than " + patience.String())
			}
			return
		}
		after, rerr := os.ReadFile(path)
		if rerr != nil {
			c.Inconclusive("cannot read the scratch file back: " + rerr.Error())
			return
		}
		c.Sig(err == nil, "file-io", hashOf(src))
		switch {
		case (err == nil) != (want.err == nil):
			viol(rawFinding{Key: "C20/file-vs-source/verdict", What: fmt.Sprintf("format.File says %v, format.Source of the same bytes says %v", err, want.err),
				Witness: map[string]any{"input": src}})
		case err == nil && string(after) != want.out:
			viol(rawFinding{Key: "C20/file-vs-source/content", What: "format.File wrote a text different from what format.Source produces for the same bytes",
				Witness: map[string]any{"input": src, "file_after": string(after), "source_output": want.out}})
		case err == nil:
			c.Obs("file_same_as_source", 1)
			// second pass over the file it wrote: same as Source over Source's output
			want2 := runFormat([]byte(want.out))
			var err2 error
			cr2, hg2 := guarded(func() { err2 = format.File(path) })
			after2, _ := os.ReadFile(path)
			if cr2 != nil {
				viol(crashFinding(cr2, "format.File (second pass)", after))
			} else if hg2 == nil && want2.crash == nil && want2.hang == nil {
				if (err2 == nil) != (want2.err == nil) || (err2 == nil && string(after2) != want2.out) {
					viol(rawFinding{Key: "C20/file-vs-source/second-pass", What: "the second format.File pass differs from format.Source of the first result",
						Witness: map[string]any{"input": src, "file_after_2": string(after2), "source_output_2": want2.out}})
				} else {
					c.Obs("file_second_pass_same_as_source", 1)
				}
			}
		default:
			c.Obs("file_rejected_like_source", 1)
			if string(after) == src {
				c.Obs("file_untouched_when_rejected", 1)
			}
		}
		// parser and scanner reading the file themselves (name ends in .api and exists)
		_ = os.WriteFile(path, []byte(src), 0o644)
		var perr error
		crp, hgp := guarded(func() {
			p := parser.New(path, nil)
			a := p.Parse()
			perr = p.CheckErrors()
			if perr == nil && a != nil {
				a.Format(io.Discard)
			}
		})
		if crp != nil {
			viol(crashFinding(crp, "parser.New(<file>).Parse", []byte(src)))
		} else if hgp == nil {
			if perr == nil {
				c.Obs("file_parsed_by_name_accepted", 1)
			} else {
				c.Obs("file_parsed_by_name_rejected", 1)
			}
		}
		ok, unsup, crs, _ := scannerInputKinds([]byte(src), path)
		if crs != nil {
			viol(crashFinding(crs, "scanner.NewScanner over the input kinds", []byte(src)))
		}
		c.Obs("scanner_input_kinds_ok", int64(ok))
		if unsup {
			c.Obs("scanner_unsupported_type_rejected", 1)
		}
	})

	// ---- the exported API of nodes and tokens
	nGen := kit.N(260, 5000)
	nFixed := len(basePrograms) + len(unitTestSnippets) + 1
	kit.Run(t, "C20", "node-api", nFixed+nGen, func(c *kit.Case) {
		viol := func(rf rawFinding) {
			c.Obs("oracle_failed_node_api", 1)
			c.Viol(rf.Key, rf.What, rf.Witness)
		}
		if c.Index == 0 {
			cr, _ := miscAPI()
			if cr != nil {
				viol(crashFinding(cr, "calling writer/token helpers", nil))
			}
			c.Obs("misc_api_called", 1)
			c.Sig(true, "node-api", "misc")
			return
		}
		if i := c.Index - 1 - len(basePrograms); i >= 0 && i < len(unitTestSnippets) {
			src := unitTestSnippets[i]
			var got bool
			cr, _ := guarded(func() {
				p := parser.New("", []byte(src))
				a := p.ParseForUintTest()
				_ = p.CheckErrors()
				if a != nil {
					got = true
					a.FormatForUnitTest(io.Discard)
				}
			})
			if cr != nil {
				viol(crashFinding(cr, "ParseForUintTest / FormatForUnitTest", []byte(src)))
			}
			if got {
				c.Obs("unit_test_parser_accepted", 1)
			} else {
				c.Obs("unit_test_parser_rejected", 1)
			}
			c.Sig(true, "node-api", "unit", hashOf(src))
			return
		}
		var src string
		strict := false
		if c.Index-1 < len(basePrograms) {
			src = basePrograms[c.Index-1].src
			strict = true
		} else {
			p := generate(c.R, genCfg{maxStmts: c.R.Range(1, 6), maxFields: c.R.Range(1, 6), maxDepth: 3, maxTypeNst: 4,
				oddNames: c.R.Bool(), degenerate: c.R.Chance(0.15), oddStrings: c.R.Chance(0.2)})
			lc := layoutCfg{mode: layCanonical}
			switch c.R.Pick(5, 3, 2) {
			case 1:
				lc = layoutCfg{mode: layCommon, commentP: 0}
			case 2:
				lc = layoutCfg{mode: c.R.Range(1, 2), commentP: kit.Choose(c.R, []float64{0.2, 0.5}), multiBlk: true}
			}
			var comments []placed
			src, comments = render(p, c.R.Uint64(), lc)
			// a comment-free program that declares something everywhere: Format() of every node is decidable
			strict = len(comments) == 0 && !p.degenerate && !strings.Contains(src, "//") && !strings.Contains(src, "/*")
		}
		res, cr, hg := exerciseNodes([]byte(src), strict)
		if hg != nil && hg.waited > patience {
			// the goroutine is still running: its results must not be touched
			viol(hangFinding(hg, "node-api", []byte(src)))
			return
		}
		if cr != nil {
			viol(crashFinding(cr, "calling the exported methods of AST nodes", []byte(src)))
		}
		for _, rf := range res.bad {
			viol(rf)
		}
		c.Obs("node_api_nodes_walked", int64(res.nodes))
		c.Obs("node_api_methods_called", int64(res.methods))
		if strict && !res.parseErr {
			c.Obs("node_api_format_tokens_checked", int64(res.nodes))
		}
		for k, n := range res.typesSeen {
			c.Obs("node_type_"+k, int64(n))
		}
		nt, counts, crt, _ := exerciseTokens([]byte(src))
		if crt != nil {
			viol(crashFinding(crt, "calling the helpers of token.Token", []byte(src)))
		}
		c.Obs("token_helpers_tokens", int64(nt))
		for k, n := range counts {
			c.Obs("token_is_"+k, int64(n))
		}
		c.Sig(!res.parseErr && res.nodes >= 20, "node-api", hashOf(src))
		if res.parseErr {
			// generated programs are valid: the valid-* families report a rejection; here it only means nothing was walked
			c.Obs("node_api_program_rejected", 1)
		}
	})
}
