package c20

import (
	"fmt"
	"os"
	"strings"
	"testing"
)

// temporary probe: VERIF_C20_PROBE=<file>, sources separated by lines "-----"
func TestProbe(t *testing.T) {
	f := os.Getenv("VERIF_C20_PROBE")
	if f == "" {
		t.Skip()
	}
	installFatalTrap()
	b, _ := os.ReadFile(f)
	for _, src := range strings.Split(string(b), "\n-----\n") {
		o := checkOpts{valid: true}
		res := check([]byte(src), o)
		st := "REJECT"
		if res.accepted {
			st = "ok"
		}
		msg := ""
		if !res.accepted {
			if fr := runFormat([]byte(src)); fr.err != nil {
				msg = strings.SplitN(fr.err.Error(), "\n", 2)[0]
			}
		}
		var keys []string
		for _, fd := range classify(src, res, o, nil) {
			keys = append(keys, fd.Key)
		}
		fmt.Printf("%-6s %-60q %s %v\n", st, src, msg, keys)
		if os.Getenv("VERIF_C20_PROBE_V") != "" && res.accepted {
			fmt.Printf("%s\n", res.formatted)
		}
	}
}
