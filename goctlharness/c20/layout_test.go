// Layout: token stream -> source text (whitespace, line breaks, comments).
package c20

import (
	"strconv"
	"strings"

	"verifharness/kit"
)

const (
	layCanonical = iota // one item per line, single blanks, no comments
	layCommon           // comments on their own lines and at line ends, irregular blanks and indentation
	layExotic           // comments and line breaks in every gap that allows them, items sharing a line, ';', CRLF
)

type layoutCfg struct {
	mode     int
	commentP float64 // probability of a comment per eligible slot
	oddText  bool    // '%', tabs, ... inside comments
	multiBlk bool    // block comments spanning lines
	crlf     bool
	semis    bool // optional ';' after routes

	// ablation switches: the same random draws are made, the feature is just not emitted
	noInsideComments bool // no comment between two tokens of one statement
	noFreeBreaks     bool // no line break between two tokens of one statement
	noSameLine       bool // list items never share a line
}

// placed is one comment put into the text, and where.
type placed struct {
	ID    string // unique marker contained in the text
	Text  string
	Where string // <position>@<gap kind>: trailing|own-line|inline @ line|open|close|free|space|glue|eof
	Prev  string // token before
	Next  string // token after
}

type layouter struct {
	r    *kit.Rand
	lc   layoutCfg
	sb   strings.Builder
	cs   []placed
	n    int
	prev string // text of the previous token
	last byte // 'l' if the text so far ends inside a line comment (a newline must follow)
}

var gapNames = map[gap]string{gTight: "tight", gGlue: "glue", gSpace: "space", gFree: "free", gFreeOpt: "free", gLine: "line",
	gLineStrict: "line", gOpen: "open", gClose: "close"}

func (l *layouter) blanks(min int) string {
	if l.lc.mode == layCanonical {
		return strings.Repeat(" ", min)
	}
	switch l.r.Pick(12, 2, 2, 1) {
	case 1:
		return strings.Repeat(" ", min+l.r.Range(1, 6))
	case 2:
		return "\t"
	case 3:
		return " \t "
	}
	return strings.Repeat(" ", min)
}

func (l *layouter) indent(depth int) string {
	if l.lc.mode == layCanonical {
		return strings.Repeat("\t", depth)
	}
	switch l.r.Pick(6, 2, 2, 1, 1) {
	case 0:
		return strings.Repeat("\t", depth)
	case 1:
		return strings.Repeat("    ", depth)
	case 2:
		return strings.Repeat("  ", depth)
	case 3:
		return ""
	}
	return strings.Repeat(" ", l.r.Intn(9))
}

func (l *layouter) commentWords() string {
	w := []string{"", " note", " the user id", " TODO: fix", " a b  c", " x", " 中文", " see RFC-1"}
	s := kit.Choose(l.r, w)
	if l.lc.oddText && l.r.Chance(0.15) {
		s += kit.Choose(l.r, []string{" 100%", " %d", " a\tb", " `q`", ` "quoted"`, " //nested", " @doc", " {", " )"})
	}
	return s
}

func (l *layouter) newID() string {
	l.n++
	return "c" + strconv.Itoa(l.n) + "x"
}

func (l *layouter) lineComment(where string) string {
	id := l.newID()
	var s string
	switch l.r.Pick(6, 2, 1, 1) {
	case 0:
		s = "// " + id + l.commentWords()
	case 1:
		s = "//" + id + l.commentWords()
	case 2:
		s = "///  " + id + l.commentWords()
	case 3:
		s = "// " + id + l.commentWords() + "  "
	}
	l.cs = append(l.cs, placed{ID: id, Text: s, Where: where})
	l.last = 'l'
	return s
}

func (l *layouter) blockComment(where string, multiOK bool) string {
	id := l.newID()
	var s string
	w := []int{5, 3, 1, 0, 0, 0}
	if multiOK && l.lc.multiBlk {
		w = []int{5, 3, 1, 2, 2, 1}
	}
	switch l.r.Pick(w...) {
	case 0:
		s = "/* " + id + l.commentWords() + " */"
	case 1:
		s = "/*" + id + "*/"
	case 2:
		s = "/** " + id + l.commentWords() + " **/"
	case 3:
		s = "/*\n * " + id + l.commentWords() + "\n * more\n */"
	case 4:
		s = "/*\n" + kit.Choose(l.r, []string{"  ", "    ", "\t", " ", ""}) + id + l.commentWords() + "\n" +
			kit.Choose(l.r, []string{"      ", "  ", "\t\t", ""}) + "more\n*/"
	case 5:
		s = "/* " + id + "\n\n   spaced */"
	}
	l.cs = append(l.cs, placed{ID: id, Text: s, Where: where})
	return s
}

func (l *layouter) nl() string {
	l.last = 0
	if l.lc.crlf {
		return "\r\n"
	}
	return "\n"
}

// lineBreak writes [trailing comment] newline [blank lines] [own-line comments] indent.
func (l *layouter) lineBreak(kind string, depth int, atStart bool) {
	cp := l.lc.commentP
	if l.lc.mode == layCanonical {
		if !atStart {
			l.sb.WriteString(l.nl())
		}
		l.sb.WriteString(l.indent(depth))
		return
	}
	if !atStart {
		if l.last != 'l' && l.r.Chance(cp) {
			if strings.HasSuffix(l.prev, "/") {
				l.sb.WriteString(" ") // "/" + "//c" would read as one comment
			}
			l.sb.WriteString(l.blanks(0))
			if l.r.Chance(0.75) {
				l.sb.WriteString(l.lineComment("trailing@" + kind))
			} else {
				l.sb.WriteString(l.blockComment("trailing@"+kind, false))
				if l.r.Chance(0.2) {
					l.sb.WriteString(" " + l.lineComment("trailing@"+kind))
				}
			}
		} else if l.r.Chance(0.05) {
			l.sb.WriteString(l.blanks(1)) // trailing white space
		}
		l.sb.WriteString(l.nl())
	}
	for l.r.Chance(0.15) {
		if l.r.Chance(0.2) {
			l.sb.WriteString(l.blanks(1))
		}
		l.sb.WriteString(l.nl())
	}
	for l.r.Chance(cp * 0.8) {
		l.sb.WriteString(l.indent(depth))
		if l.r.Chance(0.7) {
			l.sb.WriteString(l.lineComment("own-line@" + kind))
		} else {
			l.sb.WriteString(l.blockComment("own-line@"+kind, true))
			if l.r.Chance(0.1) { // token follows the block comment on the same line
				l.sb.WriteString(l.blanks(1))
				return
			}
		}
		l.sb.WriteString(l.nl())
		if l.r.Chance(0.1) {
			l.sb.WriteString(l.nl())
		}
	}
	l.sb.WriteString(l.indent(depth))
}

// render is a pure function of (program, seed, cfg); the random decisions of
// each gap come from a generator derived from (seed, token index), so that
// switching a feature off (ablation) leaves every other decision unchanged.
func render(p *program, seed uint64, lc layoutCfg) (string, []placed) {
	base := kit.NewRand(seed)
	l := &layouter{r: base, lc: lc}
	if len(p.toks) == 0 {
		return "", nil
	}
	depth := 0
	exotic := lc.mode == layExotic
	for i, t := range p.toks {
		l.r = kit.NewRand(base.At(uint64(i)))
		l.prev = ""
		if i > 0 {
			l.prev = p.toks[i-1].s
		}
		first := len(l.cs)
		if (t.g == gClose || (t.g == gLineStrict && t.s == "}")) && depth > 0 {
			depth--
		}
		switch t.g {
		case gTight:
		case gGlue, gSpace:
			if t.g == gSpace {
				l.sb.WriteString(l.blanks(1))
			} else if exotic && l.r.Chance(0.08) {
				l.sb.WriteString(l.blanks(1))
			}
			if exotic && !lc.noInsideComments && l.r.Chance(lc.commentP*0.3) {
				if strings.HasSuffix(l.prev, "/") && t.g == gGlue {
					l.sb.WriteString(" ")
				}
				l.sb.WriteString(l.blockComment("inline@"+gapNames[t.g], false))
				if t.g == gSpace || l.r.Bool() {
					l.sb.WriteString(l.blanks(1))
				}
			}
		case gFree, gFreeOpt:
			done := false
			if exotic {
				choice := l.r.Pick(30, 2, 2, 1, 1)
				if choice >= 2 && lc.noInsideComments {
					choice = 0
				}
				if (choice == 1 || choice >= 3) && lc.noFreeBreaks {
					choice = 0
				}
				switch choice {
				case 1: // plain line break
					l.sb.WriteString(l.nl() + l.indent(depth))
					done = true
				case 2: // inline block comment
					l.sb.WriteString(l.blanks(1) + l.blockComment("inline@free", false) + l.blanks(1))
					done = true
				case 3: // trailing line comment, token continues on the next line
					l.sb.WriteString(l.blanks(1) + l.lineComment("trailing@free") + l.nl() + l.indent(depth))
					done = true
				case 4: // comment on its own line between the two tokens
					l.sb.WriteString(l.nl() + l.indent(depth) + l.lineComment("own-line@free") + l.nl() + l.indent(depth))
					done = true
				}
			}
			if !done {
				if t.g == gFree || l.lc.mode == layCanonical || l.r.Chance(0.8) {
					l.sb.WriteString(l.blanks(1))
				}
			}
		case gLine, gLineStrict, gOpen, gClose:
			inline := exotic && t.g != gLineStrict && i > 0 && l.last != 'l' && l.r.Chance(0.04) && !lc.noSameLine
			if inline {
				l.sb.WriteString(l.blanks(1))
				if l.r.Chance(lc.commentP*0.3) && !lc.noInsideComments {
					l.sb.WriteString(l.blockComment("inline@"+gapNames[t.g], false) + l.blanks(1))
				}
			} else {
				l.lineBreak(gapNames[t.g], depth, i == 0)
			}
		}
		for k := first; k < len(l.cs); k++ {
			if i > 0 {
				l.cs[k].Prev = p.toks[i-1].s
			}
			l.cs[k].Next = t.s
		}
		l.sb.WriteString(t.s)
		if lc.semis && t.el >= 0 && i+1 < len(p.toks) && l.r.Chance(0.3) && routeEndsAt(p, i) {
			l.sb.WriteString(kit.Choose(l.r, []string{";", " ;"}))
		}
		if i+1 < len(p.toks) && p.toks[i+1].g == gOpen {
			depth++
		}
	}
	// end of file
	l.r = kit.NewRand(base.At(uint64(len(p.toks))))
	l.prev = p.toks[len(p.toks)-1].s
	if lc.mode != layCanonical {
		first := len(l.cs)
		if l.r.Chance(lc.commentP) {
			l.sb.WriteString(" " + l.lineComment("trailing@eof"))
		}
		for l.r.Chance(lc.commentP * 0.5) {
			l.sb.WriteString(l.nl())
			if l.r.Chance(0.7) {
				l.sb.WriteString(l.lineComment("own-line@eof"))
			} else {
				l.sb.WriteString(l.blockComment("own-line@eof", true))
			}
		}
		for k := first; k < len(l.cs); k++ {
			l.cs[k].Prev = p.toks[len(p.toks)-1].s
			l.cs[k].Next = "<eof>"
		}
		for l.r.Chance(0.5) {
			l.sb.WriteString(l.nl())
		}
	} else {
		l.sb.WriteString("\n")
	}
	s := l.sb.String()
	if lc.crlf {
		// multi-line block comments were written with bare \n
		s = strings.ReplaceAll(strings.ReplaceAll(s, "\r\n", "\n"), "\n", "\r\n")
	}
	return s, l.cs
}

// routeEndsAt reports whether token i is the last token of a route element.
func routeEndsAt(p *program, i int) bool {
	for e := p.toks[i].el; e >= 0; e = parentOf(p, e) {
		if p.els[e].kind == "route" {
			return p.els[e].end == i+1
		}
	}
	return false
}

func parentOf(p *program, e int) int {
	// elements are recorded in opening order; the parent is the closest earlier
	// element whose range encloses e
	for k := e - 1; k >= 0; k-- {
		if p.els[k].start <= p.els[e].start && p.els[k].end >= p.els[e].end {
			return k
		}
	}
	return -1
}
