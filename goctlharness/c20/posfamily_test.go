// Bounded-exhaustive family "positions": every statement kind x every token gap x every way a
// comment or a line break can sit there, one minimal program each (plus pairs of gaps within one
// statement). The list of instances is a pure function of this file - identical at every seed
// and tier. The set of (symptom, position) classes this family yields on the unchanged tree is
// THE list of known comment-placement findings (known_findings.d/C20.json).
package c20

import (
	"encoding/json"
	"fmt"
	"os"
	"path/filepath"
	"reflect"
	"runtime"
	"runtime/debug"
	"sort"
	"strconv"
	"strings"
	"testing"

	"verifharness/kit"
)

type posBase struct {
	name       string
	src        string
	degenerate bool     // contains constructs that declare nothing
	focus      []string // the gaps next to a token inside one of these substrings are enumerated (none: all)
}

const bq = "`"

// posBases: minimal programs, one-item-per-line layout, no comments. Together they contain every
// statement kind in every form the formatter distinguishes (struct member shapes, route shapes,
// @server value shapes, first / middle / last position in a list, constructs that declare nothing).
var posBases = []posBase{
	{"syntax", "syntax = \"v1\"\n\ntype T {}\n", false, []string{"syntax = \"v1\""}},
	{"info", "info (\n\ttitle: \"t\"\n\tdesc: " + bq + "raw" + bq + "\n\tauthor: \"a\"\n)\n", false, nil},
	{"imports", "import \"a.api\"\n\nimport \"b.api\"\n\ntype T {}\n", false, []string{"import \"a.api\"", "import \"b.api\""}},
	{"import-group", "import (\n\t\"a.api\"\n\t\"b.api\"\n\t\"c.api\"\n)\n", false, nil},
	{"type-struct", "type T {\n\tA int " + bq + "json:\"a\"" + bq + "\n\tB string\n\tC bool " + bq + "json:\"c\"" + bq + "\n}\n", false, nil},
	{"type-struct-assign", "type T = {\n\tA int\n}\n\ntype E {}\n", false, []string{"type T = {", "}", "type E {}"}},
	{"type-alias", "type A = []int\n\ntype M map[string]*T\n\ntype N [3]int\n\ntype O [...]T\n\ntype P *T\n\ntype I interface{}\n\ntype Y any\n\ntype Z = T\n", false, nil},
	{"type-group", "type (\n\tT {\n\t\tA int " + bq + "t:\"a\"" + bq + "\n\t}\n\tU = []int\n\tV string\n\tW {}\n)\n", false, nil},
	{"fields", "type T {\n\tA, B int " + bq + "t:\"a\"" + bq + "\n\tP *T\n\tS []T " + bq + "t:\"s\"" + bq + "\n\tR [2]T\n\tM map[string]int " + bq + "t:\"m\"" + bq + "\n\tI interface{}\n\tX, Y2, Z map[int][]*T\n}\n", false,
		[]string{"A, B int " + bq + "t:\"a\"" + bq, "P *T", "S []T " + bq + "t:\"s\"" + bq, "R [2]T", "M map[string]int " + bq + "t:\"m\"" + bq, "I interface{}", "X, Y2, Z map[int][]*T"}},
	{"fields-embedded", "type T {\n\tBase\n\t*Ptr\n\tEmb " + bq + "t:\"e\"" + bq + "\n\tA int\n\tLast\n}\n", false, []string{"Base", "*Ptr", "Emb " + bq + "t:\"e\"" + bq, "Last"}},
	{"nested", "type T {\n\tInner {\n\t\tX int " + bq + "t:\"x\"" + bq + "\n\t\tY string\n\t} " + bq + "t:\"inner\"" + bq + "\n\tA int\n\tLast {\n\t\tX int\n\t}\n}\n", false,
		[]string{"Inner {", "X int " + bq + "t:\"x\"" + bq, "Y string", "} " + bq + "t:\"inner\"" + bq, "Last {", "\t}\n}"}},
	{"nested-behind", "type T {\n\tL []{\n\t\tX int\n\t} " + bq + "t:\"l\"" + bq + "\n\tR [2]{\n\t\tX int\n\t}\n\tM map[string]{\n\t\tX int\n\t} " + bq + "t:\"m\"" + bq + "\n}\n", false,
		[]string{"L []{", "} " + bq + "t:\"l\"" + bq, "R [2]{", "M map[string]{", "} " + bq + "t:\"m\"" + bq}},
	{"nested-deep", "type T {\n\tInner {\n\t\tDeep {\n\t\t\tX int\n\t\t} " + bq + "t:\"d\"" + bq + "\n\t}\n}\n", false, []string{"Deep {", "} " + bq + "t:\"d\"" + bq}},
	{"at-server", "@server (\n\tgroup: user\n\tprefix: /api/v1\n\tmod: a/b/c-d\n\tmiddleware: A,B\n\thost: a-b-c\n\ttimeout: 1h30m\n\tmaxBytes: 1024\n\ttags: \"x y\"\n)\nservice x {\n\t@handler h\n\tget /a\n}\n", false,
		[]string{"@server (\n\tgroup: user\n\tprefix: /api/v1\n\tmod: a/b/c-d\n\tmiddleware: A,B\n\thost: a-b-c\n\ttimeout: 1h30m\n\tmaxBytes: 1024\n\ttags: \"x y\"\n)"}},
	{"service", "type T {}\n\nservice x-api {\n\t@handler h\n\tget /a (T) returns (T)\n}\n\nservice y {\n\t@handler g\n\tget /b\n}\n\nservice z {}\n", false,
		[]string{"service x-api {", "}\n\nservice y {", "}\n\nservice z {}"}},
	{"at-doc", "service x {\n\t@doc \"d\"\n\t@handler h\n\tget /a\n\n\t@doc \"e\"\n\t@handler g\n\tget /b (Req)\n}\n", false, []string{"@doc \"d\"", "@doc \"e\"", "@handler h", "@handler g"}},
	{"at-doc-group", "service x {\n\t@doc (\n\t\tsummary: \"s\"\n\t\tdesc: " + bq + "raw" + bq + "\n\t)\n\t@handler h\n\tget /a (Req)\n\n\t@doc (\n\t\ttitle: \"t\"\n\t)\n\t@handler g\n\tget /b\n}\n", false,
		[]string{"@doc (\n\t\tsummary: \"s\"\n\t\tdesc: " + bq + "raw" + bq + "\n\t)", "@doc (\n\t\ttitle: \"t\"\n\t)"}},
	{"route-plain", "service x {\n\t@handler a\n\tget /a\n\n\t@handler b\n\tget /\n\n\t@handler c\n\tget /a/:id/b-c\n}\n", false, []string{"get /a\n", "get /\n", "get /a/:id/b-c"}},
	{"route-request", "service x {\n\t@handler a\n\tget /a (Req)\n\n\t@handler b\n\tpost /b ([]Req)\n\n\t@handler c\n\tput /c (*Req)\n\n\t@handler d\n\tput /d ([]*Req)\n}\n", false,
		[]string{"get /a (Req)", "post /b ([]Req)", "put /c (*Req)", "put /d ([]*Req)"}},
	{"route-response", "service x {\n\t@handler a\n\tget /a returns (Resp)\n\n\t@handler b\n\tpost /b returns ([]Resp)\n\n\t@handler c\n\tput /c returns (*Resp)\n\n\t@handler d\n\tput /d returns ([]*Resp)\n}\n", false,
		[]string{"get /a returns (Resp)", "post /b returns ([]Resp)", "put /c returns (*Resp)", "put /d returns ([]*Resp)"}},
	{"route-both", "service x {\n\t@handler a\n\tget /a (Req) returns (Resp)\n\n\t@handler b\n\tpost /b/:id ([]*Req) returns ([]*Resp)\n}\n", false,
		[]string{"get /a (Req) returns (Resp)", "post /b/:id ([]*Req) returns ([]*Resp)"}},
	{"route-semicolon", "service x {\n\t@handler a\n\tget /a;\n\n\t@handler b\n\tpost /b (Req);\n\n\t@handler c\n\tput /c (Req) returns (Resp);\n\n\t@handler d\n\tput /d returns (Resp);\n}\n", false,
		[]string{"get /a;", "post /b (Req);", "put /c (Req) returns (Resp);", "put /d returns (Resp);"}},
	// constructs that declare nothing
	{"empty-info", "syntax = \"v1\"\n\ninfo ()\n\ntype T {}\n", true, []string{"info ()"}},
	{"empty-info-zero", "syntax = \"v1\"\n\ninfo (\n\ttitle: \"\"\n\tdesc: " + bq + bq + "\n)\n\ntype T {}\n", true, []string{"info (\n\ttitle: \"\"\n\tdesc: " + bq + bq + "\n)"}},
	{"empty-import", "syntax = \"v1\"\n\nimport \"\"\n\ntype T {}\n", true, []string{"import \"\""}},
	{"empty-import-group", "syntax = \"v1\"\n\nimport ()\n\ntype T {}\n", true, []string{"import ()"}},
	{"empty-import-group-zero", "syntax = \"v1\"\n\nimport (\n\t\"\"\n)\n\ntype T {}\n", true, []string{"import (\n\t\"\"\n)"}},
	{"empty-type-group", "syntax = \"v1\"\n\ntype ()\n\ntype T {}\n", true, []string{"type ()"}},
	{"empty-at-server", "@server ()\nservice x {\n\t@handler h\n\tget /a\n}\n", true, []string{"@server ()"}},
	{"empty-at-server-zero", "@server (\n\tgroup: \"\"\n)\nservice x {\n\t@handler h\n\tget /a\n}\n", true, []string{"@server (\n\tgroup: \"\"\n)"}},
	{"empty-at-doc", "service x {\n\t@doc \"\"\n\t@handler h\n\tget /a\n}\n", true, []string{"@doc \"\""}},
	{"empty-at-doc-group", "service x {\n\t@doc ()\n\t@handler h\n\tget /a\n}\n", true, []string{"@doc ()"}},
	{"empty-at-doc-group-zero", "service x {\n\t@doc (\n\t\tsummary: \"\"\n\t)\n\t@handler h\n\tget /a\n}\n", true, []string{"@doc (\n\t\tsummary: \"\"\n\t)"}},
	{"empty-bodies", "service x {\n\t@handler a\n\tget /a ()\n\n\t@handler b\n\tget /b () returns ()\n\n\t@handler c\n\tget /c (Req) returns ()\n\n\t@handler d\n\tget /d returns ()\n\n\t@handler e\n\tget /e () returns (Resp)\n}\n", true,
		[]string{"get /a ()", "get /b () returns ()", "get /c (Req) returns ()", "get /d returns ()", "get /e () returns (Resp)"}},
	{"zero-among-values", "info (\n\ttitle: \"\"\n\tdesc: \"d\"\n)\n\nimport (\n\t\"\"\n\t\"a.api\"\n)\n", true, []string{"title: \"\"", "\t\"\"\n"}},
}

// posVariant: one way a comment / line break can sit in a gap.
type posVariant struct {
	name string
	// text builds the gap content for an inner gap; ind is the indentation of continuation lines
	text func(ind string) string
	// where it goes in a list gap: 'a' after the previous token (same line), 'b' on lines of its own
	// before the next token, 't' directly before the next token on its line, 0 not applicable
	list byte
	// text inserted for list == 'a' / 'b' / 't'
	ins func(ind string) string
	// legality by the generator's grammar
	hasBreak bool // contains a line break outside comments or a line comment
	genInner bool // the grammar generator emits this form in inner gaps that allow it
	genList  bool // ... in list gaps
}

var posVariants = []posVariant{
	{"line-eol", func(ind string) string { return " // c1x\n" + ind }, 'a', func(string) string { return " // c1x" }, true, true, true},
	{"line-own", func(ind string) string { return "\n" + ind + "// c1x\n" + ind }, 'b', func(ind string) string { return ind + "// c1x\n" }, true, true, true},
	{"block-inline", func(string) string { return " /* c1x */ " }, 0, nil, false, true, false},
	{"block-eol", func(ind string) string { return " /* c1x */\n" + ind }, 'a', func(string) string { return " /* c1x */" }, true, false, true},
	{"block-own", func(ind string) string { return "\n" + ind + "/* c1x */\n" + ind }, 'b', func(ind string) string { return ind + "/* c1x */\n" }, true, false, true},
	{"block-own-then-token", func(ind string) string { return "\n" + ind + "/* c1x */ " }, 't', func(string) string { return "/* c1x */ " }, true, false, true},
	// (no tab and no indentation inside the comment: a tab inside a token is a finding of its own)
	{"mblock-inline", func(ind string) string { return " /* c1x\nmore */ " }, 0, nil, false, false, false},
	{"mblock-eol", func(ind string) string { return " /* c1x\nmore */\n" + ind }, 0, nil, true, false, false},
	{"mblock-own", func(ind string) string { return "\n" + ind + "/*\n * c1x\n */\n" + ind }, 'b', func(ind string) string { return ind + "/*\n * c1x\n */\n" }, true, false, true},
	{"multi-eol", nil, 'a', func(string) string { return " /* c1x */ // c2x" }, true, false, true},
	{"multi-own-spread", func(ind string) string { return "\n" + ind + "// c1x\n" + ind + "/* c2x */\n" + ind }, 'b', func(ind string) string { return ind + "// c1x\n" + ind + "/* c2x */\n" }, true, false, true},
	{"multi-inline", func(string) string { return " /* c1x */ /* c2x */ " }, 0, nil, false, true, false},
	{"multi-eol-spread", func(ind string) string { return " // c1x\n" + ind + "// c2x\n" + ind }, 0, nil, true, false, false},
	{"break", func(ind string) string { return "\n" + ind }, 0, nil, true, true, false},
	{"blank-line", func(ind string) string { return "\n\n" + ind }, 0, nil, true, false, false},
}

// freeGap: inner gaps in which the generator's grammar allows a line break (gFree / gFreeOpt in
// gen_test.go). In all other inner gaps only a block comment on the line is certainly legal; what
// else the parser accepts there without reading another structure is found out by asking it.
func freeGap(pos string) bool {
	kind, gapn, _ := strings.Cut(pos, ":")
	a, b, _ := strings.Cut(gapn, "|")
	kind = strings.TrimPrefix(kind, "empty-")
	switch kind {
	case "syntax":
		return true
	case "info", "import-group", "type-group", "at-server", "at-doc-group":
		return b == "lparen" || (kind == "type-group" && a == "lparen" && b == "rparen")
	case "info-kv", "at-server-kv", "at-doc-kv":
		return a == "colon"
	case "import", "at-doc", "at-handler":
		return true
	case "type-decl", "type-group-item":
		return a == "type" || a == "name" || a == "assign"
	case "struct":
		return a == "lbrace" && b == "rbrace"
	case "struct-field":
		return a == "rbrace" && b == "tag"
	case "service":
		return a == "service" || a == "name" || (a == "lbrace" && b == "rbrace")
	}
	if strings.HasPrefix(kind, "route") && !strings.HasSuffix(kind, "-request") && !strings.HasSuffix(kind, "-response") {
		return a != "semi" && b != "semi"
	}
	return false
}

type posInstance struct {
	base     int
	gaps     []int // token index the gap precedes (1 or 2 gaps)
	variants []int
	pos      []string // expected position names
	must     bool     // legal by the generator's grammar: must be accepted
	text     string
}

func indentOfLine(src string, off int) string {
	ls := strings.LastIndexByte(src[:off], '\n') + 1
	e := ls
	for e < len(src) && (src[e] == '\t' || src[e] == ' ') {
		e++
	}
	return src[ls:e]
}

// posEdit describes one insertion into a base program.
type posEdit struct {
	from, to int
	text     string
}

// buildEdit returns the edit that puts variant v into the gap before token g of ps, the expected
// position name and whether the generator's grammar makes the result a valid program.
func buildEdit(ps *pstruct, g int, v posVariant) (posEdit, string, bool, bool) {
	src := ps.src
	nt := len(ps.toks)
	inner := false
	var com int
	if g > 0 && g < nt {
		var list bool
		com, list = ps.common(ps.toks[g-1], ps.toks[g])
		inner = !list
	}
	if inner {
		if v.text == nil {
			return posEdit{}, "", false, false
		}
		pos := ps.cons[com].kind + ":" + ps.toks[g-1].role + "|" + ps.toks[g].role
		ind := indentOfLine(src, ps.toks[g-1].start) + "\t"
		must := v.genInner && (!v.hasBreak || freeGap(pos))
		switch v.name {
		case "block-eol", "block-own", "block-own-then-token", "blank-line", "multi-own-spread", "multi-eol-spread":
			// combinations of what the generator emits one at a time
			must = freeGap(pos)
		}
		return posEdit{ps.toks[g-1].end, ps.toks[g].start, v.text(ind)}, pos, must, true
	}
	switch v.list {
	case 'a':
		if g == 0 {
			return posEdit{}, "", false, false
		}
		ind := indentOfLine(src, ps.toks[g-1].start)
		return posEdit{ps.toks[g-1].end, ps.toks[g-1].end, v.ins(ind)}, "after:" + ps.tokName(ps.toks[g-1]), v.genList, true
	case 'b', 't':
		if g == nt {
			if v.list == 't' {
				return posEdit{}, "", false, false
			}
			at := len(src)
			return posEdit{at, at, v.ins("")}, "before:eof", v.genList, true
		}
		if v.list == 't' {
			return posEdit{ps.toks[g].start, ps.toks[g].start, v.ins(indentOfLine(src, ps.toks[g].start))}, "before:" + ps.tokName(ps.toks[g]), v.genList, true
		}
		ls := strings.LastIndexByte(src[:ps.toks[g].start], '\n') + 1
		if g > 0 && ls < ps.toks[g-1].end {
			return posEdit{}, "", false, false // the two items share a line in the base program
		}
		return posEdit{ls, ls, v.ins(indentOfLine(src, ps.toks[g].start))}, "before:" + ps.tokName(ps.toks[g]), v.genList, true
	}
	return posEdit{}, "", false, false
}

func applyEdits(src string, es []posEdit) string {
	sort.Slice(es, func(i, j int) bool { return es[i].from < es[j].from })
	var sb strings.Builder
	last := 0
	for _, e := range es {
		sb.WriteString(src[last:e.from])
		sb.WriteString(e.text)
		last = e.to
	}
	sb.WriteString(src[last:])
	return sb.String()
}

var pairVariants = []string{"line-own", "block-inline", "break"}

// how many programs carry the same (position, variant) / the same pair
var (
	posPerClass  = 2
	pairPerClass = 1
)

var posInstanceCache []posInstance

// posInstances enumerates the family.
func posInstances() []posInstance {
	if posInstanceCache != nil {
		return posInstanceCache
	}
	var out []posInstance
	vIdx := map[string]int{}
	for i, v := range posVariants {
		vIdx[v.name] = i
	}
	count := map[string]int{}
	for bi, b := range posBases {
		ps, err := labelSource(b.src)
		if err != nil {
			panic(fmt.Sprintf("positions: base program %s: %v", b.name, err))
		}
		nt := len(ps.toks)
		inFocus := func(t ptok) bool {
			if len(b.focus) == 0 {
				return true
			}
			for _, f := range b.focus {
				for from := 0; ; {
					k := strings.Index(b.src[from:], f)
					if k < 0 {
						break
					}
					if t.start >= from+k && t.end <= from+k+len(f) {
						return true
					}
					from += k + 1
				}
			}
			return false
		}
		for _, f := range b.focus {
			if !strings.Contains(b.src, f) {
				panic(fmt.Sprintf("positions: base program %s: focus %q not found", b.name, f))
			}
		}
		focusGap := func(g int) bool {
			return (g > 0 && inFocus(ps.toks[g-1])) || (g < nt && inFocus(ps.toks[g]))
		}
		for g := 0; g <= nt; g++ {
			if !focusGap(g) {
				continue
			}
			for vi, v := range posVariants {
				e, pos, must, ok := buildEdit(ps, g, v)
				if !ok {
					continue
				}
				if count[pos+"/"+v.name] >= posPerClass {
					continue
				}
				count[pos+"/"+v.name]++
				out = append(out, posInstance{base: bi, gaps: []int{g}, variants: []int{vi}, pos: []string{pos}, must: must,
					text: applyEdits(b.src, []posEdit{e})})
			}
		}
		// pairs of neighbouring inner gaps (gaps on both sides of one token)
		for g1 := 1; g1+1 < nt; g1++ {
			g2 := g1 + 1
			if !focusGap(g1) || !focusGap(g2) {
				continue
			}
			if _, list := ps.common(ps.toks[g1-1], ps.toks[g1]); list {
				continue
			}
			if _, list := ps.common(ps.toks[g2-1], ps.toks[g2]); list {
				continue
			}
			for _, n1 := range pairVariants {
				for _, n2 := range pairVariants {
					e1, p1, m1, _ := buildEdit(ps, g1, posVariants[vIdx[n1]])
					e2, p2, m2, _ := buildEdit(ps, g2, posVariants[vIdx[n2]])
					k := p1 + "/" + n1 + "+" + p2 + "/" + n2
					if count[k] >= pairPerClass {
						continue
					}
					count[k]++
					e2.text = strings.ReplaceAll(e2.text, "c1x", "c3x")
					out = append(out, posInstance{base: bi, gaps: []int{g1, g2}, variants: []int{vIdx[n1], vIdx[n2]},
						pos: []string{p1, p2}, must: m1 && m2, text: applyEdits(b.src, []posEdit{e1, e2})})
				}
			}
		}
	}
	posInstanceCache = out
	return out
}

// posOutcome is what one instance yields.
type posOutcome struct {
	status string // must | optional-accepted | optional-rejected | optional-other-structure
	res    outcome
	o      checkOpts
}

var baseDigests = map[int][]dig{}

func baseDigest(bi int) []dig {
	if d, ok := baseDigests[bi]; ok {
		return d
	}
	p := runParse([]byte(posBases[bi].src))
	var d []dig
	if p.crash == nil && p.err == nil && p.ast != nil {
		d = digest(p.ast, true)
	}
	baseDigests[bi] = d
	return d
}

func evalPosInstance(in posInstance) posOutcome {
	b := posBases[in.base]
	var po posOutcome
	po.o = checkOpts{valid: true, degenerate: b.degenerate, posFirst: true}
	po.status = "must"
	if !in.must {
		// beyond the generator's grammar: the parser decides whether this is a valid program, and
		// it counts as the same program in another layout only when it parses to the same description
		p := runParse([]byte(in.text))
		switch {
		case p.crash != nil || p.hang != nil:
			po.o.valid = false // crash / hang are reported by check
			po.status = "optional-accepted"
		case p.err != nil || p.ast == nil:
			po.status = "optional-rejected"
			po.o.valid = false
		case !reflect.DeepEqual(digest(p.ast, true), baseDigest(in.base)):
			po.status = "optional-other-structure"
			po.o.valid = false
		default:
			po.status = "optional-accepted"
		}
	}
	po.res = check([]byte(in.text), po.o)
	if po.status == "optional-rejected" || po.status == "optional-other-structure" {
		// only crash-freedom is demanded of these
		var keep []rawFinding
		for _, rf := range po.res.raw {
			if rf.Oracle == "" {
				keep = append(keep, rf)
			}
		}
		po.res.raw = keep
	}
	return po
}

// selfCheckPosInstance verifies that the labeller finds the inserted features where the family put them.
func selfCheckPosInstance(in posInstance) error {
	ps, err := labelSource(in.text)
	if err != nil {
		return err
	}
	fs := ps.features()
	if len(fs) != len(in.pos) {
		return fmt.Errorf("expected %d feature(s) %v, labeller found %d: %+v", len(in.pos), in.pos, len(fs), fs)
	}
	for i, f := range fs {
		if f.pos != in.pos[i] || f.variant != posVariants[in.variants[i]].name {
			return fmt.Errorf("feature %d: expected %s/%s, labeller says %s/%s", i, in.pos[i], posVariants[in.variants[i]].name, f.pos, f.variant)
		}
	}
	return nil
}

func kindOfPos(p string) string {
	p = strings.TrimPrefix(strings.TrimPrefix(p, "after:"), "before:")
	p, _, _ = strings.Cut(p, ":")
	p, _, _ = strings.Cut(p, ".")
	return p
}

func runPosFamily(t *testing.T) {
	ins := posInstances()
	kit.Run(t, "C20", "positions", len(ins), func(c *kit.Case) {
		in := ins[c.Index]
		b := posBases[in.base]
		po := evalPosInstance(in)
		names := make([]string, len(in.variants))
		for i, v := range in.variants {
			names[i] = in.pos[i] + "/" + posVariants[v].name
		}
		c.Obs("pos_instances", 1)
		if len(in.gaps) > 1 {
			c.Obs("pos_pair_instances", 1)
		}
		c.Obs("pos_"+strings.ReplaceAll(po.status, "-", "_"), 1)
		if po.status == "must" || po.status == "optional-accepted" {
			if err := selfCheckPosInstance(in); err != nil {
				panic(fmt.Sprintf("positions: base %s, %v: %v\n%s", b.name, names, err, in.text))
			}
			for _, v := range in.variants {
				c.Obs("pos_variant_"+posVariants[v].name, 1)
			}
			for _, p := range in.pos {
				c.Obs("pos_kind_"+kindOfPos(p), 1)
			}
		}
		tally(c, "pos", po.res)
		if po.res.accepted && len(po.res.raw) == 0 {
			c.Obs("pos_clean", 1)
		}
		for _, rf := range po.res.raw {
			if rf.Oracle != "" {
				c.Obs("pos_symptom_"+kindOf[rf.Oracle], 1)
			}
		}
		c.Sig(po.res.accepted, "positions", b.name, strings.Join(names, "+"))
		report(c, po.res, in.text, po.o, nil, map[string]any{"family": "positions", "base": b.name, "inserted": names, "legal_by": po.status})
		if c.Index%397 == 0 {
			c.Sample("positions", 3, map[string]any{"base": b.name, "inserted": names, "source": in.text, "status": po.status, "formatted": clip(po.res.formatted, 600)})
		}
	})
}

// TestVerifC20PosTable regenerates, from the tree it is run against, the table that says how much of
// the variant a position's class name carries, and the list of known position classes:
// VERIF_C20_POSTABLE=<dir> go test -tags verif -run TestVerifC20PosTable ./c20
// writes <dir>/postable_test.go, <dir>/known.json and <dir>/report.txt; nothing is written otherwise.
func TestVerifC20PosTable(t *testing.T) {
	dir := os.Getenv("VERIF_C20_POSTABLE")
	if dir == "" {
		t.Skip()
	}
	installFatalTrap()
	runtime.GOMAXPROCS(3)
	debug.SetGCPercent(800)
	if n, err := strconv.Atoi(os.Getenv("VERIF_C20_POSCAP")); err == nil {
		posPerClass, pairPerClass = n, n
	}
	type cell struct {
		passed  map[string]string // variant -> a source in which it does not show the symptom
		tested  map[string]bool   // variants tested (per symptom kind: comments-altered counts single comments)
		failed  map[string]bool   // variants that show the symptom
		witness map[string]string // variant -> shortest source
	}
	cells := map[string]*cell{} // kind + "/" + pos
	get := func(kind, pos string) *cell {
		k := kind + "/" + pos
		if cells[k] == nil {
			cells[k] = &cell{tested: map[string]bool{}, failed: map[string]bool{}, witness: map[string]string{}, passed: map[string]string{}}
		}
		return cells[k]
	}
	other := map[string]string{}
	status := map[string]int{}
	var report0 strings.Builder
	for _, in := range posInstances() {
		po := evalPosInstance(in)
		status[po.status]++
		if po.status != "must" && po.status != "optional-accepted" {
			continue
		}
		if err := selfCheckPosInstance(in); err != nil {
			t.Fatalf("base %s %v: %v\n%s", posBases[in.base].name, in.pos, err, in.text)
		}
		ps, _ := labelSource(in.text)
		failedHere := map[string]bool{}
		defer0 := func() {
			for _, f := range ps.features() {
				if !failedHere["not-idempotent/"+f.pos+"/"+f.variant] {
					get("not-idempotent", f.pos).passed[f.variant] = in.text
				}
				for _, c := range f.cs {
					v := variantOf(in.text, f.gs, f.ge, f.all, []lx{c}, f.ge < len(in.text))
					if !failedHere["comments-altered/"+f.pos+"/"+v] {
						get("comments-altered", f.pos).passed[v] = in.text
					}
				}
			}
		}
		for _, f := range ps.features() {
			get("not-idempotent", f.pos).tested[f.variant] = true
			for _, c := range f.cs {
				get("comments-altered", f.pos).tested[variantOf(in.text, f.gs, f.ge, f.all, []lx{c}, f.ge < len(in.text))] = true
			}
		}
		seen := map[string]bool{}
		for _, rf := range po.res.raw {
			kind := kindOf[rf.Oracle]
			if rf.Oracle == "" || !positionalKinds[kind] {
				other[rf.Key+"|"+rf.Oracle+"|"+rf.Detail] = in.text
				continue
			}
			if seen[kind] {
				continue
			}
			seen[kind] = true
			pcs := positionalRaw(in.text, rf.Oracle, po.o, nil)
			if pcs == nil {
				other["unlocated|"+rf.Oracle+"|"+rf.Detail] = in.text
				continue
			}
			for _, pc := range pcs {
				if len(pc.units) != 1 {
					other["together|"+kind+"|"+strings.TrimPrefix(pc.name(kind), "together:")] = in.text
					continue
				}
				u := pc.units[0]
				cl := get(kind, u.pos)
				cl.failed[u.variant] = true
				failedHere[kind+"/"+u.pos+"/"+u.variant] = true
				if w, ok := cl.witness[u.variant]; !ok || len(in.text) < len(w) {
					cl.witness[u.variant] = in.text
				}
			}
		}
		defer0()
	}
	var keys []string
	for k := range cells {
		keys = append(keys, k)
	}
	sort.Strings(keys)
	for _, k := range keys {
		for v := range cells[k].failed {
			if w, ok := cells[k].passed[v]; ok {
				fmt.Fprintf(&report0, "MIXED %s/%s fails in %q but not in %q\n", k, v, cells[k].witness[v], w)
			}
		}
	}
	type known struct {
		Property string `json:"property"`
		Key      string `json:"key"`
		Status   string `json:"status"`
		What     string `json:"what"`
	}
	var kn []known
	levels := map[string]int{}
	var report strings.Builder
	for _, k := range keys {
		cl := cells[k]
		if len(cl.failed) == 0 {
			continue
		}
		kind, pos, _ := strings.Cut(k, "/")
		level := 3
		for l := 0; l <= 3; l++ {
			ok := true
			grpFail, grpPass := map[string]bool{}, map[string]bool{}
			for v := range cl.tested {
				if cl.failed[v] {
					grpFail[variantGroup(v, l)] = true
				} else {
					grpPass[variantGroup(v, l)] = true
				}
			}
			for g := range grpFail {
				if grpPass[g] {
					ok = false
				}
			}
			if ok {
				level = l
				break
			}
		}
		var tested, failed []string
		for v := range cl.tested {
			tested = append(tested, v)
		}
		for v := range cl.failed {
			failed = append(failed, v)
			if !cl.tested[v] {
				fmt.Fprintf(&report, "NOTE %s: failing variant %s is not among the tested ones\n", k, v)
			}
		}
		sort.Strings(tested)
		sort.Strings(failed)
		fmt.Fprintf(&report, "%-18s %-44s level %d fails %d/%d: %v\n", kind, pos, level, len(failed), len(tested), failed)
		if level > 0 {
			levels[k] = level
		}
		groups := map[string]string{}
		for _, v := range failed {
			g := variantGroup(v, level)
			if w, ok := groups[g]; !ok || len(cl.witness[v]) < len(w) {
				groups[g] = cl.witness[v]
			}
		}
		var gs []string
		for g := range groups {
			gs = append(gs, g)
		}
		sort.Strings(gs)
		for _, g := range gs {
			key := "C20/" + kind + "/" + pos
			if g != "" {
				key += "/" + g
			}
			kn = append(kn, known{"C20", key, "known", whatOf(kind, pos, g, groups[g])})
		}
	}
	var oth []string
	for k := range other {
		oth = append(oth, k)
	}
	sort.Strings(oth)
	for _, k := range oth {
		fmt.Fprintf(&report, "OTHER %s\n      %q\n", k, other[k])
		if strings.HasPrefix(k, "together|") {
			parts := strings.SplitN(k, "|", 3)
			kn = append(kn, known{"C20", "C20/" + parts[1] + "/together:" + parts[2], "known", whatOf(parts[1], parts[2], "", other[k])})
		}
	}
	report.WriteString(report0.String())
	fmt.Fprintf(&report, "status %v\n", status)
	var sb strings.Builder
	sb.WriteString("// Code generated by TestVerifC20PosTable from the unchanged tree; DO NOT EDIT.\n\npackage c20\n\n")
	sb.WriteString("// posVariantLevel: (symptom kind)/(position) -> how much of the variant the class name carries, for the\n// positions at which only some of the ways a comment or a line break can sit there show the symptom on\n// the unchanged tree: 1 the side (same-line / own-line / break), 2 the shape, 3 the full variant name.\n")
	sb.WriteString("var posVariantLevel = map[string]int{\n")
	var lk []string
	for k := range levels {
		lk = append(lk, k)
	}
	sort.Strings(lk)
	for _, k := range lk {
		fmt.Fprintf(&sb, "\t%q: %d,\n", k, levels[k])
	}
	sb.WriteString("}\n")
	os.WriteFile(filepath.Join(dir, "postable_test.go"), []byte(sb.String()), 0o644)
	kb, _ := json.MarshalIndent(kn, "", " ")
	os.WriteFile(filepath.Join(dir, "known.json"), kb, 0o644)
	os.WriteFile(filepath.Join(dir, "report.txt"), []byte(report.String()), 0o644)
}

func whatOf(kind, pos, group, witness string) string {
	s := "comment"
	if group == "break" || group == "blank-line" {
		s = "line break"
	}
	v := ""
	if group != "" {
		v = " (" + group + ")"
	}
	sym := "is dropped by the formatter"
	if kind == "not-idempotent" {
		sym = "makes the second formatting pass differ from the first"
	}
	return fmt.Sprintf("a %s at %s%s %s, e.g. %q; see findings/C20-comments-inside-statements.md", s, pos, v, sym, witness)
}
