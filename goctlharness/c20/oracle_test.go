// Oracles for C20: crash-freedom, meaning preservation, idempotence.
package c20

import (
	"bytes"
	"fmt"
	"log"
	"os"
	"path/filepath"
	"reflect"
	"regexp"
	"runtime"
	"sort"
	"strings"
	"time"
	"unicode"

	"github.com/zeromicro/go-zero/tools/goctl/pkg/parser/api/ast"
	"github.com/zeromicro/go-zero/tools/goctl/pkg/parser/api/format"
	"github.com/zeromicro/go-zero/tools/goctl/pkg/parser/api/parser"
	"github.com/zeromicro/go-zero/tools/goctl/pkg/parser/api/scanner"
	"github.com/zeromicro/go-zero/tools/goctl/pkg/parser/api/token"
)

// ---------------------------------------------------------------- log.Fatal trap
//
// scanner.MustNewScanner and parser.New end the process with log.Fatalln. The
// standard logger writes the message to its output *before* calling os.Exit, so
// a writer installed with log.SetOutput sees the call. It panics with a
// sentinel when (and only when) the write comes from log.Fatal*, which unwinds
// through log.Fatalln (its mutex is released by a deferred Unlock) into the
// recover() of safeCall: the process exit becomes an attributable event and the
// shard keeps running. Ordinary log.Print output is discarded.

type fatalExit struct {
	msg    string
	caller string // first go-zero function above package log
}

type fatalTrap struct{}

func (fatalTrap) Write(b []byte) (int, error) {
	pcs := make([]uintptr, 32)
	n := runtime.Callers(2, pcs)
	frames := runtime.CallersFrames(pcs[:n])
	fatal := false
	for {
		fr, more := frames.Next()
		if strings.HasPrefix(fr.Function, "log.Fatal") || strings.HasPrefix(fr.Function, "log.(*Logger).Fatal") {
			fatal = true
		} else if fatal && !strings.HasPrefix(fr.Function, "log.") {
			panic(fatalExit{msg: strings.TrimSpace(string(b)), caller: shortFunc(fr.Function)})
		}
		if !more {
			break
		}
	}
	if fatal {
		panic(fatalExit{msg: strings.TrimSpace(string(b)), caller: "?"})
	}
	return len(b), nil
}

func installFatalTrap() {
	log.SetFlags(0)
	log.SetOutput(fatalTrap{})
}

func shortFunc(f string) string {
	f = strings.TrimPrefix(f, "github.com/zeromicro/go-zero/tools/goctl/pkg/parser/api/")
	f = strings.TrimPrefix(f, "github.com/zeromicro/go-zero/tools/goctl/")
	f = strings.TrimPrefix(f, "github.com/zeromicro/go-zero/")
	return f
}

// ---------------------------------------------------------------- guarded calls

type crash struct {
	kind  string // panic | process-exit
	where string // innermost go-zero frame (panic) / caller of log.Fatal
	msg   string
	stack string
}

var scratchFile = func() string {
	dir := os.Getenv("VERIF_SCRATCH_DIR")
	if dir == "" {
		return ""
	}
	return filepath.Join(dir, fmt.Sprintf("c20-last-input-%s-%d.api", os.Getenv("VERIF_SHARD"), os.Getpid()))
}()

// recordInput writes the input to the scratch directory before it is handed to
// go-zero, so that an unrecoverable fatal error is attributable.
func recordInput(src []byte) {
	if scratchFile != "" {
		_ = os.WriteFile(scratchFile, src, 0o644)
	}
}

var frameRe = regexp.MustCompile(`(?m)^(github\.com/zeromicro/go-zero/[^\s(]+(?:\(\*?[A-Za-z]+\))?[^\s(]*)\(`)

func panicSite(stack string) string {
	for _, m := range frameRe.FindAllStringSubmatch(stack, -1) {
		return shortFunc(m[1])
	}
	return "outside-go-zero"
}

const (
	patience     = 30 * time.Second // first watchdog period
	patienceLong = 300 * time.Second
)

type hang struct{ waited time.Duration }

// guarded runs fn on its own goroutine under recover() and a generous watchdog.
// It returns (crash, hang); both nil when fn returned normally.
func guarded(fn func()) (*crash, *hang) {
	done := make(chan *crash, 1)
	go func() {
		defer func() {
			if r := recover(); r != nil {
				if fe, ok := r.(fatalExit); ok {
					done <- &crash{kind: "process-exit", where: "log.Fatal@" + fe.caller, msg: fe.msg}
					return
				}
				buf := make([]byte, 16<<10)
				buf = buf[:runtime.Stack(buf, false)]
				st := string(buf)
				// drop the frames of the recover machinery itself
				if i := strings.Index(st, "panic("); i >= 0 {
					st = st[i:]
				}
				done <- &crash{kind: "panic", where: panicSite(st), msg: fmt.Sprint(r), stack: st}
				return
			}
			done <- nil
		}()
		fn()
	}()
	t := time.NewTimer(patience)
	defer t.Stop()
	select {
	case c := <-done:
		return c, nil
	case <-t.C:
	}
	t2 := time.NewTimer(patienceLong)
	defer t2.Stop()
	select {
	case c := <-done:
		return c, &hang{waited: patience} // slow, but it did return
	case <-t2.C:
		return nil, &hang{waited: patience + patienceLong}
	}
}

type fmtResult struct {
	out   string
	err   error
	crash *crash
	hang  *hang
}

func runFormat(src []byte) fmtResult {
	recordInput(src)
	var res fmtResult
	var b bytes.Buffer
	res.crash, res.hang = guarded(func() { res.err = format.Source(src, &b) })
	if res.crash == nil && (res.hang == nil || res.hang.waited <= patience) {
		res.out = b.String()
	}
	return res
}

type parseResult struct {
	ast   *ast.AST
	err   error
	crash *crash
	hang  *hang
}

func runParse(src []byte) parseResult {
	recordInput(src)
	var res parseResult
	res.crash, res.hang = guarded(func() {
		p := parser.New("", src)
		res.ast = p.Parse()
		res.err = p.CheckErrors()
	})
	return res
}

type lexTok struct {
	Type string
	Text string
}

type scanResult struct {
	toks     []lexTok // non-comment tokens
	comments []string
	err      error
	crash    *crash
	hang     *hang
}

func runScan(src []byte) scanResult {
	recordInput(src)
	var res scanResult
	res.crash, res.hang = guarded(func() {
		s, err := scanner.NewScanner("", src)
		if err != nil {
			res.err = err
			return
		}
		for i := 0; i < len(src)+8; i++ {
			t, err := s.NextToken()
			if err != nil {
				res.err = err
				return
			}
			switch t.Type {
			case token.EOF:
				return
			case token.COMMENT, token.DOCUMENT:
				res.comments = append(res.comments, t.Text)
			default:
				res.toks = append(res.toks, lexTok{t.Type.String(), t.Text})
			}
		}
		res.err = fmt.Errorf("scanner produced more tokens than the input has bytes (no EOF)")
	})
	return res
}

// ---------------------------------------------------------------- digest

// dig is one leaf of the flattened API description: where it sits and what it says.
type dig struct {
	Path string // struct/field path without indices
	Val  string // token type and text
}

var tokenNodeType = reflect.TypeOf((*ast.TokenNode)(nil))

// digest flattens the parsed AST reflectively: every exported field of every
// node is visited in declaration order; a *TokenNode contributes its token type
// and text only (no position, no comment groups); comment statements and nil
// fields contribute nothing. With normalize, statements that declare nothing
// are dropped the way the formatter is entitled to drop them (DESIGN §7.1).
func digest(a *ast.AST, normalize bool) []dig {
	var out []dig
	for _, st := range a.Stmts {
		if _, ok := st.(*ast.CommentStmt); ok {
			continue
		}
		if normalize && declaresNothing(st) {
			continue
		}
		walk(reflect.ValueOf(st), typeName(st), normalize, &out)
	}
	return out
}

func typeName(v any) string {
	t := reflect.TypeOf(v)
	for t.Kind() == reflect.Ptr {
		t = t.Elem()
	}
	return t.Name()
}

func zeroTok(t *ast.TokenNode) bool { return t != nil && (t.Token.Text == `""` || t.Token.Text == "``") }

func allZeroKV(kvs []*ast.KVExpr) bool {
	for _, kv := range kvs {
		if !zeroTok(kv.Value) {
			return false
		}
	}
	return true
}

func declaresNothing(st any) bool {
	switch v := st.(type) {
	case *ast.TypeGroupStmt:
		return len(v.ExprList) == 0
	case *ast.ImportLiteralStmt:
		return zeroTok(v.Value)
	case *ast.ImportGroupStmt:
		for _, x := range v.Values {
			if !zeroTok(x) {
				return false
			}
		}
		return true
	case *ast.InfoStmt:
		return allZeroKV(v.Values)
	case *ast.AtServerStmt:
		return v == nil || allZeroKV(v.Values)
	case *ast.AtDocLiteralStmt:
		return v == nil || zeroTok(v.Value)
	case *ast.AtDocGroupStmt:
		return v == nil || allZeroKV(v.Values)
	case *ast.BodyStmt:
		return v == nil || v.Body == nil
	}
	return false
}

func walk(v reflect.Value, path string, normalize bool, out *[]dig) {
	switch v.Kind() {
	case reflect.Interface:
		if v.IsNil() {
			return
		}
		walk(v.Elem(), path, normalize, out)
	case reflect.Ptr:
		if v.IsNil() {
			return
		}
		if v.Type() == tokenNodeType {
			tn := v.Interface().(*ast.TokenNode)
			*out = append(*out, dig{path, tn.Token.Type.String() + " " + tn.Token.Text})
			return
		}
		if normalize && v.CanInterface() {
			switch x := v.Interface().(type) {
			case *ast.AtServerStmt, *ast.AtDocLiteralStmt, *ast.AtDocGroupStmt, *ast.BodyStmt:
				if declaresNothing(x) {
					return
				}
			}
		}
		if v.Elem().Kind() == reflect.Struct {
			path = path + ">" + v.Elem().Type().Name()
		}
		walk(v.Elem(), path, normalize, out)
	case reflect.Struct:
		t := v.Type()
		var route *ast.RouteStmt
		if normalize && v.CanAddr() {
			route, _ = v.Addr().Interface().(*ast.RouteStmt)
		}
		for i := 0; i < t.NumField(); i++ {
			f := t.Field(i)
			if !f.IsExported() {
				continue
			}
			if route != nil && f.Name == "Returns" && declaresNothing(route.Response) {
				continue // `returns ()` declares no response
			}
			walk(v.Field(i), path+"."+f.Name, normalize, out)
		}
	case reflect.Slice:
		for i := 0; i < v.Len(); i++ {
			walk(v.Index(i), path, normalize, out)
		}
	case reflect.String:
		// only AST.Filename, which is not reached (statements are walked one by one)
	}
}

// firstDigDiff returns the first position at which two digests differ.
func firstDigDiff(a, b []dig) (int, bool) {
	n := len(a)
	if len(b) < n {
		n = len(b)
	}
	for i := 0; i < n; i++ {
		if a[i] != b[i] {
			return i, true
		}
	}
	if len(a) != len(b) {
		return n, true
	}
	return 0, false
}

func digAt(d []dig, i int) dig {
	if i < len(d) {
		return d[i]
	}
	return dig{"<end>", "<end>"}
}

func stripSpace(s string) string {
	return strings.Map(func(r rune) rune {
		if unicode.IsSpace(r) {
			return -1
		}
		return r
	}, s)
}

// ---------------------------------------------------------------- checking one input

type finding struct {
	Key     string
	What    string
	Witness map[string]any
	raw     rawFinding
}

// rawFinding is a failed oracle before its cause has been attributed.
type rawFinding struct {
	Oracle  string // empty for crashes and hangs (Key is then complete)
	Key     string
	Detail  string // structural detail, used in the key when no known peculiarity explains the failure
	What    string
	Witness map[string]any
}

type checkOpts struct {
	valid      bool // produced by the grammar generator: format must succeed
	degenerate bool // may contain statements that declare nothing: normalised digest, no token-stream equality
	// mutant: the text is a mutated program that the parser happened to accept. Crash-freedom,
	// re-parsability and meaning are checked always; the comment and idempotence oracles only
	// when the text has no comment (without the generator's knowledge of where a comment sits
	// relative to its statement a failure could not be told from the known placement defects).
	mutant bool
	// posFirst: the text is a minimal program of the positions family (no other peculiarity than where
	// a comment / a line break sits): the per-position ablation is tried before the coarse one, no shrinking.
	posFirst bool
}

type outcome struct {
	raw       []rawFinding
	accepted  bool // format.Source returned nil
	inconcl   string
	formatted string
	nStmts    int
	nComments int
	idemDone  bool
}

func clip(s string, n int) string {
	if len(s) > n {
		return s[:n] + fmt.Sprintf("…(+%d bytes)", len(s)-n)
	}
	return s
}

var (
	reDigits  = regexp.MustCompile(`\d+`)
	reKeyJunk = regexp.MustCompile(`[^A-Za-z0-9'|@{}()\[\]*/:=,.-]+`)
)

func errClass(err error) string {
	if err == nil {
		return "nil"
	}
	ln := strings.SplitN(err.Error(), "\n", 2)[0]
	if i := strings.Index(ln, "syntax error:"); i >= 0 {
		ln = ln[i:]
	} else if i := strings.Index(ln, "expected"); i >= 0 {
		ln = ln[i:]
	}
	ln = reDigits.ReplaceAllString(ln, "N")
	ln = reKeyJunk.ReplaceAllString(ln, "_")
	if len(ln) > 70 {
		ln = ln[:70]
	}
	return ln
}

func crashFinding(c *crash, stage string, src []byte) rawFinding {
	return rawFinding{
		Key:  "C20/" + c.kind + "/" + c.where,
		What: fmt.Sprintf("%s while %s: %s", c.kind, stage, clip(c.msg, 200)),
		Witness: map[string]any{"input": string(src), "stage": stage, "message": c.msg,
			"stack": clip(c.stack, 3000)},
	}
}

func hangFinding(h *hang, stage string, src []byte) rawFinding {
	return rawFinding{
		Key:     "C20/hang/" + stage,
		What:    fmt.Sprintf("%s did not return within %s", stage, h.waited),
		Witness: map[string]any{"input": string(src), "stage": stage},
	}
}

// check runs every oracle on one source text.
func check(src []byte, o checkOpts) (res outcome) {
	add := func(f rawFinding) { res.raw = append(res.raw, f) }
	slow := func(h *hang, stage string) bool {
		if h == nil {
			return false
		}
		if h.waited > patience {
			add(hangFinding(h, stage, src))
			return true
		}
		res.inconcl = fmt.Sprintf("%s needed more than %s (returned eventually)", stage, patience)
		return false
	}

	// scanner alone (the statement names it separately)
	sc0 := runScan(src)
	if sc0.crash != nil {
		add(crashFinding(sc0.crash, "scanning", src))
	}
	if slow(sc0.hang, "scan") {
		return
	}

	f1 := runFormat(src)
	if f1.crash != nil {
		add(crashFinding(f1.crash, "formatting", src))
		return
	}
	if slow(f1.hang, "format") {
		return
	}
	if f1.err != nil {
		if o.valid {
			add(rawFinding{
				Oracle:  "valid-source-rejected",
				Detail:  errClass(f1.err),
				What:    "format.Source rejects a program that is valid by construction: " + clip(f1.err.Error(), 300),
				Witness: map[string]any{"input": string(src), "error": f1.err.Error()},
			})
		}
		return
	}
	res.accepted = true
	res.formatted = f1.out

	// ---- meaning
	p0 := runParse(src)
	if p0.crash != nil {
		add(crashFinding(p0.crash, "parsing", src))
		return
	}
	if slow(p0.hang, "parse") {
		return
	}
	if p0.err != nil || p0.ast == nil {
		// format.Source accepted what Parse+CheckErrors rejects: cannot happen (same calls)
		add(rawFinding{Key: "C20/format-accepts-what-parser-rejects", What: fmt.Sprint(p0.err),
			Witness: map[string]any{"input": string(src)}})
		return
	}
	if strings.TrimSpace(f1.out) == "" {
		// Everything the source contained was skipped as declaring nothing (e.g. only
		// `type ()`). The scanner refuses an empty text by design, so the formatted text
		// cannot be re-parsed; it describes the empty API, and so must the original.
		if d0 := digest(p0.ast, o.degenerate); len(d0) > 0 {
			add(rawFinding{
				Oracle:  "meaning-changed",
				Detail:  "formatted-text-empty",
				What:    fmt.Sprintf("the formatted text is empty but the original declares something: %q", clip(d0[0].Val, 100)),
				Witness: map[string]any{"input": string(src), "formatted": f1.out},
			})
		}
		return
	}
	p1 := runParse([]byte(f1.out))
	if p1.crash != nil {
		add(crashFinding(p1.crash, "parsing the formatted text", []byte(f1.out)))
		return
	}
	if slow(p1.hang, "parse") {
		return
	}
	if p1.err != nil || p1.ast == nil {
		add(rawFinding{
			Oracle: "formatted-text-unparsable",
			Detail: errClass(p1.err),
			What:   "the formatter's output is rejected by the parser: " + clip(fmt.Sprint(p1.err), 300),
			Witness: map[string]any{"input": string(src), "formatted": f1.out,
				"error": fmt.Sprint(p1.err)},
		})
		return
	}
	d0, d1 := digest(p0.ast, o.degenerate), digest(p1.ast, o.degenerate)
	res.nStmts = len(d0)
	meaningOK := true
	if i, diff := firstDigDiff(d0, d1); diff {
		meaningOK = false
		a, b := digAt(d0, i), digAt(d1, i)
		where := a.Path
		if where == "<end>" {
			where = b.Path
		}
		if a.Path != b.Path && a.Path != "<end>" && b.Path != "<end>" {
			where = a.Path + "~" + b.Path
		}
		add(rawFinding{
			Oracle: "meaning-changed",
			Detail: where,
			What: fmt.Sprintf("the formatted text parses to a different API description: at %s original has %q, formatted has %q",
				a.Path, clip(a.Val, 120), clip(b.Val, 120)),
			Witness: map[string]any{"input": string(src), "formatted": f1.out, "digest_index": i,
				"original_leaf": a, "formatted_leaf": b},
		})
	}

	// ---- non-comment token streams (up to optional ';'), comments
	sc1 := runScan([]byte(f1.out))
	if sc1.crash != nil {
		add(crashFinding(sc1.crash, "scanning the formatted text", []byte(f1.out)))
		return
	}
	if o.mutant && len(sc0.comments) > 0 {
		return
	}
	if sc0.err == nil && sc1.err == nil {
		if meaningOK && !o.degenerate {
			t0, t1 := dropSemis(sc0.toks), dropSemis(sc1.toks)
			if i, diff := firstTokDiff(t0, t1); diff {
				a, b := tokAt(t0, i), tokAt(t1, i)
				add(rawFinding{
					Oracle: "tokens-changed",
					Detail: a.Type + "~" + b.Type,
					What: fmt.Sprintf("non-comment token streams differ at token %d: original %s %q, formatted %s %q",
						i, a.Type, clip(a.Text, 80), b.Type, clip(b.Text, 80)),
					Witness: map[string]any{"input": string(src), "formatted": f1.out},
				})
			}
		}
		res.nComments = len(sc0.comments)
		lost, invented := commentDiff(sc0.comments, sc1.comments)
		if len(lost) > 0 {
			add(rawFinding{
				Oracle:  "comment-lost",
				Detail:  positionOfComment(string(src), lost[0]),
				What:    fmt.Sprintf("%d comment(s) of the original are missing from the formatted text, first: %q", len(lost), clip(lost[0], 80)),
				Witness: map[string]any{"input": string(src), "formatted": f1.out, "lost": lost},
			})
		}
		if len(invented) > 0 {
			add(rawFinding{
				Oracle:  "comment-invented",
				Detail:  "text",
				What:    fmt.Sprintf("%d comment(s) of the formatted text are not in the original, first: %q", len(invented), clip(invented[0], 80)),
				Witness: map[string]any{"input": string(src), "formatted": f1.out, "invented": invented},
			})
		}
	}

	// ---- idempotence
	f2 := runFormat([]byte(f1.out))
	if f2.crash != nil {
		add(crashFinding(f2.crash, "formatting the formatted text", []byte(f1.out)))
		return
	}
	if slow(f2.hang, "format") {
		return
	}
	if f2.err != nil {
		return // reported above as formatted-text-unparsable
	}
	res.idemDone = true
	if f2.out != f1.out {
		cls, l1, l2 := idemClass(f1.out, f2.out)
		add(rawFinding{
			Oracle: "not-idempotent",
			Detail: cls,
			What: fmt.Sprintf("format(format(s)) != format(s); first differing line: %q vs %q",
				clip(l1, 100), clip(l2, 100)),
			Witness: map[string]any{"input": string(src), "pass1": f1.out, "pass2": f2.out},
		})
	}
	return
}

// kindOf groups the oracles into the kinds used in violation keys.
var kindOf = map[string]string{
	"valid-source-rejected":     "valid-source-rejected",
	"formatted-text-unparsable": "meaning-changed",
	"meaning-changed":           "meaning-changed",
	"tokens-changed":            "meaning-changed",
	"comment-lost":              "comments-altered",
	"comment-invented":          "comments-altered",
	"not-idempotent":            "not-idempotent",
}

// classify turns failed oracles into keyed findings: C20/<kind>/<cause>, the
// cause found by ablation. When no known peculiarity of the input explains
// the failure the key carries the oracle's structural detail instead, so that
// an unexplained failure never coincides with the key of an explained one.
func classify(src string, res outcome, o checkOpts, g *genCtx) []finding {
	var out []finding
	seen := map[string]bool{}
	// the per-position attribution concerns the oracle kind: done once per kind and input
	posDone := map[string]bool{}
	posRes := map[string][]posClass{}
	positionalOnce := func(oracle string) []posClass {
		k := kindOf[oracle]
		if !posDone[k] {
			posDone[k] = true
			posRes[k] = positionalRaw(src, oracle, o, g)
		}
		return posRes[k]
	}
	for _, rf := range res.raw {
		key := rf.Key
		if rf.Oracle != "" {
			kind := kindOf[rf.Oracle]
			var pcs []posClass
			cause := ""
			if o.posFirst && positionalKinds[kind] {
				if pcs = positionalOnce(rf.Oracle); pcs != nil {
					cause = "position"
				}
			}
			if pcs == nil {
				cause = attribute(src, rf.Oracle, o, g)
			}
			// Per-position keys are emitted for the bounded-exhaustive positions family only (its key set is
			// a pure function of the tree, identical at every seed). For the random families the per-position
			// classes did not close within this round (nested data-type gaps such as lbrack|lbrack, rbrack|map
			// combine freely): they keep the coarse cause keys. positionalEverywhere switches the refinement on.
			if positionalKinds[kind] && (pcs != nil || (positionalCauses[cause] && positionalEverywhere)) {
				// the cause is where a comment / a line break sits: one key per attributed position
				if pcs == nil && !o.posFirst {
					pcs = positionalOnce(rf.Oracle)
				}
				if pcs != nil {
					for _, pc := range pcs {
						k := "C20/" + kind + "/" + pc.name(kind)
						if seen[k] {
							continue
						}
						seen[k] = true
						w := map[string]any{}
						for wk, wv := range rf.Witness {
							w[wk] = wv
						}
						var where []string
						for _, u := range pc.units {
							where = append(where, u.pos+"/"+u.variant+": "+clip(u.text, 120))
						}
						w["oracle"], w["cause"], w["detail"], w["position"] = rf.Oracle, cause, rf.Detail, where
						out = append(out, finding{Key: k, What: rf.What + " [attributed by ablation to " + strings.Join(where, "; ") + "]", Witness: w, raw: rf})
					}
					continue
				}
				if coarseKeyRetired[cause] || (kind == "comments-altered" && (cause == "semicolon" || cause == "declares-nothing")) {
					cause += "/unlocated:" + rf.Oracle + ":" + rf.Detail
				}
			}
			key = "C20/" + kindOf[rf.Oracle] + "/" + cause
			switch cause {
			case "plain", "other-comment":
				key += "/" + rf.Oracle + ":" + rf.Detail
			}
			rf.Witness["oracle"] = rf.Oracle
			rf.Witness["cause"] = cause
			rf.Witness["detail"] = rf.Detail
		}
		if seen[key] {
			continue
		}
		seen[key] = true
		out = append(out, finding{Key: key, What: rf.What, Witness: rf.Witness, raw: rf})
	}
	return out
}

func dropSemis(ts []lexTok) []lexTok {
	out := ts[:0:0]
	for _, t := range ts {
		if t.Type != ";" {
			out = append(out, t)
		}
	}
	return out
}

func firstTokDiff(a, b []lexTok) (int, bool) {
	n := len(a)
	if len(b) < n {
		n = len(b)
	}
	for i := 0; i < n; i++ {
		if a[i] != b[i] {
			return i, true
		}
	}
	if len(a) != len(b) {
		return n, true
	}
	return 0, false
}

func tokAt(t []lexTok, i int) lexTok {
	if i < len(t) {
		return t[i]
	}
	return lexTok{"EOF", ""}
}

// commentDiff compares comments as multisets, ignoring white space inside them
// ("only whitespace and comment placement may differ").
func commentDiff(orig, formatted []string) (lost, invented []string) {
	m := map[string]int{}
	for _, c := range formatted {
		m[stripSpace(c)]++
	}
	for _, c := range orig {
		k := stripSpace(c)
		if m[k] > 0 {
			m[k]--
		} else {
			lost = append(lost, c)
		}
	}
	m2 := map[string]int{}
	for _, c := range orig {
		m2[stripSpace(c)]++
	}
	for _, c := range formatted {
		k := stripSpace(c)
		if m2[k] > 0 {
			m2[k]--
		} else {
			invented = append(invented, c)
		}
	}
	sort.Strings(invented)
	return
}

// idemClass classifies the first difference between two formatting passes.
func idemClass(a, b string) (cls, la, lb string) {
	al, bl := strings.Split(a, "\n"), strings.Split(b, "\n")
	inBlock := false
	i := 0
	for ; i < len(al) && i < len(bl); i++ {
		if al[i] != bl[i] {
			break
		}
		ln := al[i]
		for {
			if !inBlock {
				j := strings.Index(ln, "/*")
				k := strings.Index(ln, "//")
				if j < 0 || (k >= 0 && k < j) {
					break
				}
				inBlock = true
				ln = ln[j+2:]
			} else {
				j := strings.Index(ln, "*/")
				if j < 0 {
					break
				}
				inBlock = false
				ln = ln[j+2:]
			}
		}
	}
	if i < len(al) {
		la = al[i]
	}
	if i < len(bl) {
		lb = bl[i]
	}
	// what differs overall?
	sa, sb := runScan([]byte(a)), runScan([]byte(b))
	tokensSame := sa.err == nil && sb.err == nil && reflect.DeepEqual(sa.toks, sb.toks)
	commentsVerbatim := reflect.DeepEqual(sa.comments, sb.comments)
	switch {
	case !tokensSame:
		return "tokens-differ", la, lb
	case inBlock && !commentsVerbatim:
		return "white-space-inside-block-comment", la, lb
	case !commentsVerbatim:
		return "comment-text", la, lb
	case stripSpace(la) == "" || stripSpace(lb) == "":
		return "blank-lines", la, lb
	case stripSpace(la) == stripSpace(lb):
		return "alignment", la, lb
	}
	return "line-structure", la, lb
}
