// Package color is a tiny local stand-in for github.com/gookit/color (not in the
// offline module cache). It provides only the symbols goctl's util/console and
// util/pathx reference; none of them is on the API formatter's execution path.
// No terminal escape codes are produced: text is returned unchanged.
package color

import "fmt"

// Color is a foreground/background/option code.
type Color uint8

const (
	Bold Color = 1
)

const (
	BgRed Color = 41
)

const (
	LightRed    Color = 91
	LightGreen  Color = 92
	LightYellow Color = 93
	LightCyan   Color = 96
)

// Sprintf formats without colouring.
func (c Color) Sprintf(format string, a ...any) string { return fmt.Sprintf(format, a...) }

// Sprint formats without colouring.
func (c Color) Sprint(a ...any) string { return fmt.Sprint(a...) }

// Render formats without colouring.
func (c Color) Render(a ...any) string { return fmt.Sprint(a...) }

// Style is a list of colour codes.
type Style []Color

// New returns a Style.
func New(colors ...Color) Style { return Style(colors) }

// Render formats without colouring.
func (s Style) Render(a ...any) string { return fmt.Sprint(a...) }

// Sprintf formats without colouring.
func (s Style) Sprintf(format string, a ...any) string { return fmt.Sprintf(format, a...) }
