// Package structtag is a tiny local stand-in for github.com/fatih/structtag (not
// in the offline module cache). It provides the symbols goctl's api/spec uses
// (Parse, Tags.Tags, Tag{Key,Name,Options}); it is not on the API formatter's
// execution path. Parsing follows reflect.StructTag conventions.
package structtag

import (
	"errors"
	"strconv"
	"strings"
)

// Tag is one key:"name,opt1,opt2" entry.
type Tag struct {
	Key     string
	Name    string
	Options []string
}

// Tags is a parsed struct tag.
type Tags struct {
	tags []*Tag
}

// Tags returns the entries in source order.
func (t *Tags) Tags() []*Tag { return t.tags }

// Get returns the entry with the given key.
func (t *Tags) Get(key string) (*Tag, error) {
	for _, tag := range t.tags {
		if tag.Key == key {
			return tag, nil
		}
	}
	return nil, errors.New("tag does not exist")
}

// Parse parses a struct tag (without the surrounding back quotes).
func Parse(tag string) (*Tags, error) {
	var tags []*Tag
	for tag != "" {
		i := 0
		for i < len(tag) && tag[i] == ' ' {
			i++
		}
		tag = tag[i:]
		if tag == "" {
			break
		}
		i = 0
		for i < len(tag) && tag[i] > ' ' && tag[i] != ':' && tag[i] != '"' && tag[i] != 0x7f {
			i++
		}
		if i == 0 {
			return nil, errors.New("bad syntax for struct tag key")
		}
		if i+1 >= len(tag) || tag[i] != ':' {
			return nil, errors.New("bad syntax for struct tag pair")
		}
		if tag[i+1] != '"' {
			return nil, errors.New("bad syntax for struct tag value")
		}
		key := tag[:i]
		tag = tag[i+1:]
		i = 1
		for i < len(tag) && tag[i] != '"' {
			if tag[i] == '\\' {
				i++
			}
			i++
		}
		if i >= len(tag) {
			return nil, errors.New("bad syntax for struct tag value")
		}
		qvalue := tag[:i+1]
		tag = tag[i+1:]
		value, err := strconv.Unquote(qvalue)
		if err != nil {
			return nil, errors.New("bad syntax for struct tag value")
		}
		res := strings.Split(value, ",")
		t := &Tag{Key: key, Name: res[0]}
		if len(res) > 1 {
			t.Options = res[1:]
		}
		tags = append(tags, t)
	}
	return &Tags{tags: tags}, nil
}
