// Package c08: declarative validation of core/mapping and rest/httpx vs. a
// reference validator (DESIGN.md §4 C08).
//
// Struct types are built with reflect.StructOf from a *descriptor* (fieldD /
// structD). The descriptor is the single source of truth: the struct tags are
// rendered from it, and the oracle reads only the descriptor (it never parses a
// tag), so a misparse of a tag by go-zero cannot be mirrored by the oracle.
package c08

import (
	"fmt"
	"math"
	"reflect"
	"strconv"
	"strings"

	"verifharness/kit"
)

type optMode int

const (
	optNone   optMode = iota // no optional option: required unless defaulted
	optPlain                 // optional
	optDep                   // optional=dep  (both or neither)
	optNotDep                // optional=!dep (exactly one)
)

func (m optMode) String() string {
	switch m {
	case optPlain:
		return "optional"
	case optDep:
		return "optional=dep"
	case optNotDep:
		return "optional=!dep"
	}
	return "required"
}

// rangeD is a declared numeric range.
type rangeD struct {
	HasL, HasR bool
	L, R       float64
	LInc, RInc bool
}

func (r *rangeD) contains(x float64) bool {
	if r.HasL {
		if r.LInc && x < r.L || !r.LInc && x <= r.L {
			return false
		}
	}
	if r.HasR {
		if r.RInc && x > r.R || !r.RInc && x >= r.R {
			return false
		}
	}
	return true
}

func fnum(x float64) string { return strconv.FormatFloat(x, 'f', -1, 64) }

func (r *rangeD) text() string {
	var b strings.Builder
	if r.LInc {
		b.WriteByte('[')
	} else {
		b.WriteByte('(')
	}
	if r.HasL {
		b.WriteString(fnum(r.L))
	}
	b.WriteByte(':')
	if r.HasR {
		b.WriteString(fnum(r.R))
	}
	if r.RInc {
		b.WriteByte(']')
	} else {
		b.WriteByte(')')
	}
	return b.String()
}

func (r *rangeD) shape() string {
	s := r.text()
	l, rr := "v", "v"
	if !r.HasL {
		l = ""
	}
	if !r.HasR {
		rr = ""
	}
	return string(s[0]) + l + ":" + rr + string(s[len(s)-1])
}

// fieldD describes one struct field.
type fieldD struct {
	GoName   string
	Src      string // tag key the field is declared under (json, form, path, header, key, ...)
	Key      string // key part of the tag; "" means the Go field name is the key
	NoTag    bool   // no struct tag at all (key = Go field name, processed under every tag key)
	Ignore   bool   // key "-"
	Kind     reflect.Kind
	Ptr      int     // pointer depth around the value
	Elem     *fieldD // Slice / Map element (Kind, Ptr, Sub only)
	Sub      *structD
	Embedded bool
	Opt      optMode
	Dep      string // key the optional option depends on (optDep / optNotDep)
	HasDef   bool
	Def      string
	DefList  []string // slice fields: the elements of default=[a,b,c] (Def holds the bracketed text)
	Rng      *rangeD
	Options  []string
	OptBrk   bool   // options=[a,b] instead of options=a|b
	FromStr  bool   // the `string` option
	Shuffle  uint64 // != 0: the options are written in a pseudo-random order derived from it
	Inherit  bool   // the `inherit` option: an absent value is taken from the nearest enclosing document level that has the key
	IntKey   bool   // Map: the key type is int (go-zero only fills maps keyed by strings; the reference claims nothing about such a field)
	Spaced   bool   // the segments of the tag are written with blanks around them
	EscComma bool   // commas inside the default= / options=a|b texts are written escaped (\,) in the tag
}

type structD struct {
	Fields []*fieldD
	typ    reflect.Type
	refLvl int // cached refLevel()+1
}

// refLevel says which reference-typed parts a filled target of this type can have: 0 none
// (scalars and nested structs only), 1 pointers only, 2 slices or maps.
func (s *structD) refLevel() int {
	if s.refLvl == 0 {
		lvl := 0
		var walkF func(f *fieldD)
		walkS := func(sd *structD) {
			for _, f := range sd.Fields {
				walkF(f)
			}
		}
		walkF = func(f *fieldD) {
			if f.Ptr > 0 && lvl < 1 {
				lvl = 1
			}
			if f.Kind == reflect.Slice || f.Kind == reflect.Map {
				lvl = 2
			}
			if f.Sub != nil {
				walkS(f.Sub)
			}
			if f.Elem != nil {
				walkF(f.Elem)
			}
		}
		walkS(s)
		s.refLvl = lvl + 1
	}
	return s.refLvl - 1
}

// withSrc returns a deep copy of the descriptor declared under another tag key (the tag text
// after the key stays the same, so go-zero's tag cache is shared between the copies).
func (s *structD) withSrc(src string) *structD {
	out := &structD{}
	for _, f := range s.Fields {
		out.Fields = append(out.Fields, f.withSrc(src))
	}
	return out
}

func (f *fieldD) withSrc(src string) *fieldD {
	c := *f
	c.Src = src
	if f.Elem != nil {
		c.Elem = f.Elem.withSrc(src)
	}
	if f.Sub != nil {
		c.Sub = f.Sub.withSrc(src)
	}
	return &c
}

func (f *fieldD) key() string {
	if f.Key == "" {
		return f.GoName
	}
	return f.Key
}

func (f *fieldD) scalar() bool {
	switch f.Kind {
	case reflect.Slice, reflect.Map, reflect.Struct:
		return false
	}
	return true
}

func isInt(k reflect.Kind) bool  { return k >= reflect.Int && k <= reflect.Int64 }
func isUint(k reflect.Kind) bool { return k >= reflect.Uint && k <= reflect.Uint64 }
func isFloat(k reflect.Kind) bool {
	return k == reflect.Float32 || k == reflect.Float64
}
func isNumeric(k reflect.Kind) bool { return isInt(k) || isUint(k) || isFloat(k) }

func kindClass(k reflect.Kind) string {
	switch {
	case isInt(k):
		return "int"
	case isUint(k):
		return "uint"
	case isFloat(k):
		return "float"
	}
	return k.String()
}

func bitsOf(k reflect.Kind) int {
	switch k {
	case reflect.Int8, reflect.Uint8:
		return 8
	case reflect.Int16, reflect.Uint16:
		return 16
	case reflect.Int32, reflect.Uint32, reflect.Float32:
		return 32
	}
	return 64
}

// intBounds returns the representable interval of an integer kind as float-safe int64/uint64.
func intBounds(k reflect.Kind) (lo int64, hi uint64) {
	b := bitsOf(k)
	if isInt(k) {
		return -(1 << (b - 1)), uint64(1)<<(b-1) - 1
	}
	if b == 64 {
		return 0, math.MaxUint64
	}
	return 0, uint64(1)<<b - 1
}

var primTypes = map[reflect.Kind]reflect.Type{
	reflect.Bool: reflect.TypeOf(false), reflect.String: reflect.TypeOf(""),
	reflect.Int: reflect.TypeOf(int(0)), reflect.Int8: reflect.TypeOf(int8(0)), reflect.Int16: reflect.TypeOf(int16(0)),
	reflect.Int32: reflect.TypeOf(int32(0)), reflect.Int64: reflect.TypeOf(int64(0)),
	reflect.Uint: reflect.TypeOf(uint(0)), reflect.Uint8: reflect.TypeOf(uint8(0)), reflect.Uint16: reflect.TypeOf(uint16(0)),
	reflect.Uint32: reflect.TypeOf(uint32(0)), reflect.Uint64: reflect.TypeOf(uint64(0)),
	reflect.Float32: reflect.TypeOf(float32(0)), reflect.Float64: reflect.TypeOf(float64(0)),
}

var allPrims = []reflect.Kind{reflect.Bool, reflect.Int, reflect.Int8, reflect.Int16, reflect.Int32, reflect.Int64,
	reflect.Uint, reflect.Uint8, reflect.Uint16, reflect.Uint32, reflect.Uint64, reflect.Float32, reflect.Float64, reflect.String}

func (f *fieldD) goType() reflect.Type {
	var t reflect.Type
	switch f.Kind {
	case reflect.Slice:
		t = reflect.SliceOf(f.Elem.goType())
	case reflect.Map:
		kt := primTypes[reflect.String]
		if f.IntKey {
			kt = primTypes[reflect.Int]
		}
		t = reflect.MapOf(kt, f.Elem.goType())
	case reflect.Struct:
		t = f.Sub.goType()
	default:
		t = primTypes[f.Kind]
	}
	for i := 0; i < f.Ptr; i++ {
		t = reflect.PointerTo(t)
	}
	return t
}

// tag renders the struct tag from the descriptor.
func (f *fieldD) tag() reflect.StructTag {
	if f.NoTag {
		return ""
	}
	if f.Ignore {
		return reflect.StructTag(f.Src + `:"-"`)
	}
	var opts []string
	switch f.Opt {
	case optPlain:
		opts = append(opts, "optional")
	case optDep:
		opts = append(opts, "optional="+f.Dep)
	case optNotDep:
		opts = append(opts, "optional=!"+f.Dep)
	}
	esc := func(s string) string {
		if f.EscComma {
			return strings.ReplaceAll(s, ",", `\,`)
		}
		return s
	}
	if f.HasDef {
		opts = append(opts, "default="+esc(f.Def))
	}
	if f.Rng != nil {
		opts = append(opts, "range="+f.Rng.text())
	}
	if len(f.Options) > 0 {
		if f.OptBrk {
			opts = append(opts, "options=["+strings.Join(f.Options, ",")+"]")
		} else {
			opts = append(opts, "options="+esc(strings.Join(f.Options, "|")))
		}
	}
	if f.FromStr {
		opts = append(opts, "string")
	}
	if f.Inherit {
		opts = append(opts, "inherit")
	}
	if f.Shuffle != 0 && len(opts) > 1 {
		p := make([]string, len(opts))
		for i, j := range kit.NewRand(f.Shuffle).Perm(len(opts)) {
			p[i] = opts[j]
		}
		opts = p
	}
	v := f.Key
	if f.Spaced {
		v = " " + v + " "
		if len(opts) > 0 {
			v += ", " + strings.Join(opts, " , ") + " "
		}
	} else if len(opts) > 0 {
		v += "," + strings.Join(opts, ",")
	}
	return reflect.StructTag(f.Src + ":" + strconv.Quote(v))
}

func (s *structD) goType() reflect.Type {
	if s.typ != nil {
		return s.typ
	}
	sf := make([]reflect.StructField, len(s.Fields))
	for i, f := range s.Fields {
		sf[i] = reflect.StructField{Name: f.GoName, Type: f.goType(), Tag: f.tag(), Anonymous: f.Embedded}
	}
	s.typ = reflect.StructOf(sf)
	return s.typ
}

// describe renders the type the way a Go programmer would write it (goes into witnesses).
func (s *structD) describe() string {
	var b strings.Builder
	b.WriteString("struct{ ")
	for _, f := range s.Fields {
		if f.Embedded {
			b.WriteString("/*embedded*/ ")
		}
		b.WriteString(f.GoName + " " + f.typeText())
		if t := f.tag(); t != "" {
			b.WriteString(" `" + string(t) + "`")
		}
		b.WriteString("; ")
	}
	b.WriteString("}")
	return b.String()
}

func (f *fieldD) typeText() string {
	p := strings.Repeat("*", f.Ptr)
	switch f.Kind {
	case reflect.Slice:
		return p + "[]" + f.Elem.typeText()
	case reflect.Map:
		if f.IntKey {
			return p + "map[int]" + f.Elem.typeText()
		}
		return p + "map[string]" + f.Elem.typeText()
	case reflect.Struct:
		return p + f.Sub.describe()
	}
	return p + f.Kind.String()
}

// shape is the structural signature of a field (no concrete bounds / names).
func (f *fieldD) shape() string {
	var b strings.Builder
	fmt.Fprintf(&b, "%s%s", strings.Repeat("*", f.Ptr), f.Kind)
	if f.Elem != nil {
		b.WriteString("<" + f.Elem.shape() + ">")
	}
	if f.Sub != nil {
		b.WriteString("{")
		for _, c := range f.Sub.Fields {
			b.WriteString(c.shape() + ";")
		}
		b.WriteString("}")
	}
	if f.Embedded {
		b.WriteString(",emb")
	}
	if f.NoTag {
		b.WriteString(",notag")
	}
	if f.Ignore {
		b.WriteString(",-")
	}
	b.WriteString("," + f.Src + "," + f.Opt.String())
	if f.HasDef {
		b.WriteString(",def")
	}
	if f.Rng != nil {
		b.WriteString(",range" + f.Rng.shape())
	}
	if len(f.Options) > 0 {
		if f.OptBrk {
			b.WriteString(",opts[]")
		} else {
			b.WriteString(",opts|")
		}
	}
	if f.FromStr {
		b.WriteString(",string")
	}
	if f.Inherit {
		b.WriteString(",inherit")
	}
	if f.EscComma {
		b.WriteString(",esc")
	}
	if f.Spaced {
		b.WriteString(",spaced")
	}
	if f.IntKey {
		b.WriteString(",intkey")
	}
	return b.String()
}

func (s *structD) shape() string {
	var b strings.Builder
	for _, f := range s.Fields {
		b.WriteString(f.shape() + ";")
	}
	return b.String()
}
