package c08

// History independence of the unmarshaller (statement: "... and then the target holds exactly
// the supplied values with defaults filled for the absent ones", "input meeting all declared
// constraints ... is accepted" - for EVERY call, whatever the process did before).
//
// core/mapping keeps process-global caches (parsed tag options by tag text, parsed default=
// lists by default text, per-type information), so the outcome of one call can depend on
// earlier calls. Three mechanisms look for that:
//
//  1. scribble + repeat (every family that goes through evalOne): after a successful call the
//     caller's side of the result is overwritten - every slice element up to the capacity,
//     every map entry, every pointee of the filled target, and the input containers that were
//     handed to go-zero by reference - and the same (type, input) is unmarshalled again from a
//     fresh copy of the input into a fresh target. It must be accepted again and hold the
//     same values as the first result held before it was overwritten.
//  2. cold vs. warm: a sample of the evaluations of every case is repeated at the end of the
//     case (after everything else of the case ran) and must give the same verdict/target.
//  3. families "isolation" (default= on slices, several targets, one default text under
//     several element types) and "xum" (one tag text under several unmarshaler
//     configurations, in varying order and interleaved); see the run* functions below.

import (
	"encoding/json"
	"fmt"
	"reflect"
	"sort"
	"strconv"
	"strings"
	"testing"

	"verifharness/kit"
)

// ---------------------------------------------------------------- deep dump of a target

func dumpValue(b *strings.Builder, v reflect.Value) {
	switch v.Kind() {
	case reflect.Ptr:
		if v.IsNil() {
			b.WriteString("nil")
			return
		}
		b.WriteByte('&')
		dumpValue(b, v.Elem())
	case reflect.Slice:
		if v.IsNil() {
			b.WriteString("nil[]")
			return
		}
		b.WriteByte('[')
		for i := 0; i < v.Len(); i++ {
			if i > 0 {
				b.WriteByte(' ')
			}
			dumpValue(b, v.Index(i))
		}
		b.WriteByte(']')
	case reflect.Map:
		if v.IsNil() {
			b.WriteString("nil{}")
			return
		}
		keys := v.MapKeys()
		sort.Slice(keys, func(i, j int) bool { return keys[i].String() < keys[j].String() })
		b.WriteString("map{")
		for i, k := range keys {
			if i > 0 {
				b.WriteByte(' ')
			}
			b.WriteString(strconv.Quote(k.String()))
			b.WriteByte(':')
			dumpValue(b, v.MapIndex(k))
		}
		b.WriteByte('}')
	case reflect.Struct:
		b.WriteByte('{')
		for i := 0; i < v.NumField(); i++ {
			if i > 0 {
				b.WriteByte(' ')
			}
			b.WriteString(v.Type().Field(i).Name)
			b.WriteByte(':')
			dumpValue(b, v.Field(i))
		}
		b.WriteByte('}')
	case reflect.String:
		b.WriteString(strconv.Quote(v.String()))
	case reflect.Bool:
		b.WriteString(strconv.FormatBool(v.Bool()))
	case reflect.Float32, reflect.Float64:
		b.WriteString(strconv.FormatFloat(v.Float(), 'g', -1, 64))
	default:
		switch {
		case v.CanInt():
			b.WriteString(strconv.FormatInt(v.Int(), 10))
		case v.CanUint():
			b.WriteString(strconv.FormatUint(v.Uint(), 10))
		default:
			fmt.Fprintf(b, "%v", v.Interface())
		}
	}
}

// dumpTop renders every top-level field of a struct value separately.
func dumpTop(sv reflect.Value) []string {
	out := make([]string, sv.NumField())
	var b strings.Builder
	for i := range out {
		b.Reset()
		dumpValue(&b, sv.Field(i))
		out[i] = b.String()
	}
	return out
}

// ---------------------------------------------------------------- scribbling

const poisonString = "\x00scribbled-by-the-caller"

func poisonScalar(v reflect.Value) {
	if !v.CanSet() {
		return
	}
	switch {
	case v.Kind() == reflect.String:
		v.SetString(poisonString)
	case v.Kind() == reflect.Bool:
		v.SetBool(!v.Bool())
	case v.CanInt():
		v.SetInt(-85)
	case v.CanUint():
		v.SetUint(170)
	case v.CanFloat():
		v.SetFloat(-850000.5)
	}
}

// scribbleValue overwrites everything a caller can reach through the value without
// re-assigning its reference-typed parts: slice elements (up to the capacity), map entries,
// pointees - the in-place modifications an application makes to a result it owns.
func scribbleValue(v reflect.Value) {
	switch v.Kind() {
	case reflect.Ptr:
		if !v.IsNil() {
			scribbleValue(v.Elem())
		}
	case reflect.Slice:
		if v.IsNil() {
			return
		}
		full := v.Slice(0, v.Cap())
		for i := 0; i < full.Len(); i++ {
			scribbleValue(full.Index(i))
		}
	case reflect.Map:
		if v.IsNil() {
			return
		}
		et := v.Type().Elem()
		for _, k := range v.MapKeys() {
			nv := reflect.New(et).Elem()
			nv.Set(v.MapIndex(k))
			scribbleValue(nv) // shared parts of the entry are overwritten in place, the entry itself is replaced
			v.SetMapIndex(k, nv)
		}
		if v.Type().Key().Kind() == reflect.String {
			v.SetMapIndex(reflect.ValueOf(poisonString).Convert(v.Type().Key()), reflect.Zero(et))
		}
	case reflect.Struct:
		for i := 0; i < v.NumField(); i++ {
			scribbleValue(v.Field(i))
		}
	default:
		poisonScalar(v)
	}
}

func deepCopyTree(x any) any {
	switch t := x.(type) {
	case map[string]any:
		m := make(map[string]any, len(t))
		for k, v := range t {
			m[k] = deepCopyTree(v)
		}
		return m
	case []any:
		if t == nil {
			return t
		}
		a := make([]any, len(t), cap(t))
		for i, v := range t {
			a[i] = deepCopyTree(v)
		}
		return a
	case []string:
		if t == nil {
			return t
		}
		return append(make([]string, 0, cap(t)), t...)
	}
	return x
}

// scribbleTree overwrites an input document that was handed to go-zero by reference.
func scribbleTree(x any) {
	switch t := x.(type) {
	case map[string]any:
		for k, v := range t {
			switch v.(type) {
			case map[string]any, []any, []string:
				scribbleTree(v)
			default:
				t[k] = poisonString
			}
		}
		t[poisonString] = json.Number("-85")
	case []any:
		for i, v := range t {
			switch v.(type) {
			case map[string]any, []any, []string:
				scribbleTree(v)
			default:
				t[i] = poisonString
			}
		}
	case []string:
		for i := range t {
			t[i] = poisonString
		}
	}
}

// ---------------------------------------------------------------- scribble + repeat

// fieldClass names the top-level field whose value differs between two results.
func fieldClass(q *evalReq, i int) string {
	f := q.sd.Fields[i]
	if f.Embedded {
		return "embedded"
	}
	what := "scalar"
	switch {
	case f.Kind == reflect.Slice || f.Kind == reflect.Map || f.Kind == reflect.Struct:
		what = f.Kind.String()
		if f.Ptr > 0 {
			what = "pointer-to-" + what
		}
	case f.Ptr > 0:
		what = "pointer"
	}
	present := false
	for _, s := range readers(q.ss.all(), f) {
		if _, ok := s.tree[s.ctx.canon(f.key())]; ok {
			present = true
		}
	}
	switch {
	case present:
		return "supplied-" + what
	case f.HasDef:
		return "default-" + what
	}
	return "absent-" + what
}

func firstDiff(a, b []string) int {
	for i := range a {
		if i >= len(b) || a[i] != b[i] {
			return i
		}
	}
	return -1
}

// afterAccept is the scribble + repeat step; target holds the (already checked) first result.
func (h *harness) afterAccept(c *kit.Case, q *evalReq, target reflect.Value, docText string) {
	lvl := q.sd.refLevel()
	if lvl == 0 && !q.passesRef {
		return
	}
	repeats := 1 + q.extraTargets
	if lvl == 0 {
		repeats = 0
	} else if lvl == 1 && q.extraTargets == 0 {
		// results whose only reference-typed parts are pointers to scalars: a quarter of them
		h.ptrOnly++
		if h.ptrOnly%4 != 0 {
			repeats = 0
		}
	}
	var first []string
	if repeats > 0 {
		first = dumpTop(target.Elem())
	}
	scribbleValue(target.Elem())
	kit.Obs("results_scribbled", 1)
	if q.scribbleInput != nil {
		q.scribbleInput()
		kit.Obs("inputs_scribbled", 1)
	}
	for n := 0; n < repeats; n++ {
		t2 := reflect.New(q.sd.goType())
		record := func() string {
			return fmt.Sprintf("case=%s entry=%s (repeat %d after the first result was overwritten) type=%s input=%s", c.ID, q.entry, n+1, q.sd.describe(), docText)
		}
		err, pan := h.fc.guard(record, func() error { return q.call(t2.Interface()) })
		kit.Obs("repeat_calls", 1)
		w := map[string]any{"type": q.sd.describe(), "entry": q.entry, "input": docText, "generator_classes": q.classes,
			"first_result": strings.Join(first, " | "),
			"history":      "call 1 was accepted and checked; the caller then overwrote every slice element (up to the capacity), map entry and pointee of that result" + map[bool]string{true: " and of the input containers it had passed in", false: ""}[q.scribbleInput != nil] + fmt.Sprintf("; this is call %d of the same (type, input) from a fresh copy of the input into a fresh target", n+2)}
		switch {
		case pan != nil:
			kit.Obs("panics", 1)
			w["panic"], w["stack"] = pan.Msg, pan.Stack
			c.Viol(pan.key(), "the unmarshaller panicked when the same input was unmarshalled again: "+pan.Msg, w)
			return
		case err != nil:
			w["error"] = err.Error()
			c.Viol("C08/history-dependent/second-unmarshal-of-accepted-input-rejected/"+q.ctxName+"/"+errClass(err),
				"the same input was accepted before, now: "+err.Error(), w)
			return
		}
		second := dumpTop(t2.Elem())
		if i := firstDiff(first, second); i >= 0 {
			w["second_result"] = strings.Join(second, " | ")
			w["field"] = q.sd.Fields[i].key()
			c.Viol("C08/target-mismatch/second-unmarshal-sees-mutation-of-first-result/"+fieldClass(q, i),
				fmt.Sprintf("%s: first target held %s; after the caller overwrote its own result, a fresh target filled from the same input holds %s",
					q.sd.Fields[i].key(), first[i], second[i]), w)
			return
		}
		kit.Obs("repeat_same_result", 1)
		scribbleValue(t2.Elem())
		if q.scribbleInput != nil {
			q.scribbleInput()
		}
	}
}

// ---------------------------------------------------------------- cold vs. warm

type memo struct {
	q       *evalReq
	docText string
	verdict string // acc | rej
	dump    string
}

// every 41st evaluation of a case (counted from the case's index, so that short cases take their
// turn too) is repeated at the end of the case
const memoEvery = 41

func (h *harness) begin(c *kit.Case) {
	h.memos = h.memos[:0]
	h.ordinal = 0
	h.ptrOnly = 0
}

// remember is called by evalOne before the result is overwritten.
func (h *harness) remember(q *evalReq, docText string, accepted bool, target reflect.Value) {
	m := &memo{q: q, docText: docText, verdict: "rej"}
	if accepted {
		m.verdict = "acc"
		m.dump = strings.Join(dumpTop(target.Elem()), " | ")
	}
	h.memos = append(h.memos, m)
}

// recheck repeats the remembered evaluations of this case; by now go-zero's caches have seen
// everything else the case did.
func (h *harness) recheck(c *kit.Case) {
	memos := h.memos
	h.memos = nil
	for _, m := range memos {
		h.reeval(c, m, "at the end of the case, after every other evaluation of the case ran")
	}
}

func (h *harness) reeval(c *kit.Case, m *memo, when string) {
	q := m.q
	t2 := reflect.New(q.sd.goType())
	record := func() string {
		return fmt.Sprintf("case=%s entry=%s (re-evaluation %s) type=%s input=%s", c.ID, q.entry, when, q.sd.describe(), m.docText)
	}
	err, pan := h.fc.guard(record, func() error { return q.call(t2.Interface()) })
	kit.Obs("warm_reevaluations", 1)
	w := map[string]any{"type": q.sd.describe(), "entry": q.entry, "input": m.docText, "generator_classes": q.classes,
		"first_verdict": m.verdict, "first_result": m.dump, "history": "evaluated once when first generated and again " + when}
	switch {
	case pan != nil:
		kit.Obs("panics", 1)
		w["panic"], w["stack"] = pan.Msg, pan.Stack
		c.Viol(pan.key(), "the unmarshaller panicked when an earlier input was unmarshalled again: "+pan.Msg, w)
	case err != nil && m.verdict == "acc":
		w["error"] = err.Error()
		c.Viol("C08/history-dependent/"+q.ctxName+"/accepted-then-rejected", "accepted when first evaluated, later: "+err.Error(), w)
	case err == nil && m.verdict == "rej":
		w["second_result"] = strings.Join(dumpTop(t2.Elem()), " | ")
		c.Viol("C08/history-dependent/"+q.ctxName+"/rejected-then-accepted", "rejected when first evaluated, accepted later", w)
	case err == nil:
		if d := strings.Join(dumpTop(t2.Elem()), " | "); d != m.dump {
			w["second_result"] = d
			c.Viol("C08/history-dependent/"+q.ctxName+"/different-target", "the same input filled the target differently later", w)
		} else {
			kit.Obs("warm_same_result", 1)
		}
		scribbleValue(t2.Elem())
		if q.scribbleInput != nil {
			q.scribbleInput()
		}
	default:
		kit.Obs("warm_same_result", 1)
	}
}

// run wraps kit.Run with the per-case bookkeeping of the cold/warm check.
func (h *harness) run(t *testing.T, family string, n int, fn func(c *kit.Case)) {
	kit.Run(t, "C08", family, n, func(c *kit.Case) {
		h.begin(c)
		fn(c)
		h.recheck(c)
	})
}

// ---------------------------------------------------------------- family: isolation (default= on slices, several targets)

func defaultElems(k reflect.Kind, variant int) []string {
	switch {
	case k == reflect.String:
		return [][]string{{"zeta", "alpha", "mid"}, {"q", "r"}}[variant%2]
	case k == reflect.Bool:
		return [][]string{{"true", "false", "true"}, {"false", "false", "true", "true"}}[variant%2]
	case isFloat(k):
		return [][]string{{"2.5", "1", "0.5"}, {"7.25", "3"}}[variant%2]
	}
	return [][]string{{"3", "1", "2"}, {"9", "4"}}[variant%2]
}

func setSliceDefault(f *fieldD, elems []string) {
	f.HasDef, f.DefList, f.Def = true, elems, "["+strings.Join(elems, ",")+"]"
}

func (h *harness) runIsolation(t *testing.T) {
	type shape struct {
		name string
		mk   func(k reflect.Kind) *fieldD
	}
	shapes := []shape{
		{"slice", func(k reflect.Kind) *fieldD { return &fieldD{Kind: reflect.Slice, Elem: &fieldD{Kind: k}} }},
		{"ptr-to-slice", func(k reflect.Kind) *fieldD { return &fieldD{Kind: reflect.Slice, Ptr: 1, Elem: &fieldD{Kind: k}} }},
		{"slice-of-ptr", func(k reflect.Kind) *fieldD { return &fieldD{Kind: reflect.Slice, Elem: &fieldD{Kind: k, Ptr: 1}} }},
	}
	ents := []string{"json", "yaml", "jsonmap", "key", "lower", "formlike", "headerlike", "strvals", "conf"}
	// one case per primitive kind: default slices, three targets per (type, input)
	h.run(t, "isolation", len(allPrims), func(c *kit.Case) {
		k := allPrims[c.Index]
		for si, sh := range shapes {
			for oi, opt := range []optMode{optNone, optPlain} {
				for ei, en := range ents {
					e := entries[en]
					f := sh.mk(k)
					f.GoName, f.Src, f.Key, f.Opt = "A", e.Ctx.TagKey, "a", opt
					setSliceDefault(f, defaultElems(k, si+oi+ei))
					// a second type with the same default text: a pointer scalar beside it
					sd := &structD{Fields: []*fieldD{f, {GoName: "Z", Src: e.Ctx.TagKey, Key: "z", Kind: reflect.Int, Ptr: (si + ei) % 2, Opt: optPlain, HasDef: true, Def: "5"}}}
					for i := 0; i < 4; i++ {
						ig := &inputGen{r: c.R, e: e}
						tree := map[string]any{}
						switch i {
						case 0, 3: // absent: the default fills the slice
							ig.note(f, "absent")
						case 1:
							v, ok := ig.validValue(f, e, 0)
							if !ok {
								continue
							}
							tree[e.Ctx.canon("a")] = v
							ig.note(f, "valid")
						case 2:
							if e.Ctx.AllFromString {
								continue
							}
							tree[e.Ctx.canon("a")] = []any{}
							ig.note(f, "->empty-list")
						}
						h.evalEntryN(c, sd, e, tree, "isolation:"+sh.name+":"+strings.Join(ig.classes, ","), 2)
					}
				}
			}
		}
		c.Sample("isolation", 1, map[string]any{"kind": k.String(), "shapes": []string{"[]T", "*[]T", "[]*T"}, "entries": ents,
			"note": "each accepted (type, input) is unmarshalled into three targets; the caller overwrites each result before the next call"})
	})
	// one default text under several element types, both orders (go-zero caches parsed defaults by their text)
	type pair struct {
		text  []string
		kinds []reflect.Kind
	}
	pairs := []pair{
		{[]string{"true", "false"}, []reflect.Kind{reflect.Bool, reflect.String}},
		{[]string{"false", "true"}, []reflect.Kind{reflect.String, reflect.Bool}},
		{[]string{"1", "2", "3"}, []reflect.Kind{reflect.Int, reflect.String, reflect.Float64}},
		{[]string{"3", "2", "1"}, []reflect.Kind{reflect.String, reflect.Uint8, reflect.Int64}},
		{[]string{"1.5", "2"}, []reflect.Kind{reflect.Float64, reflect.String, reflect.Float32}},
		{[]string{"2", "1.5"}, []reflect.Kind{reflect.String, reflect.Float32}},
		{[]string{"7", "8"}, []reflect.Kind{reflect.Int8, reflect.Uint16, reflect.Float32, reflect.String}},
	}
	h.run(t, "isolation-shared-default-text", len(pairs), func(c *kit.Case) {
		p := pairs[c.Index]
		e := entries["json"]
		for round := 0; round < 2; round++ {
			for ki, k := range p.kinds {
				f := &fieldD{GoName: "A", Src: "json", Key: "a", Kind: reflect.Slice, Elem: &fieldD{Kind: k}}
				setSliceDefault(f, p.text)
				sd := &structD{Fields: []*fieldD{f}}
				ctx := "json"
				if ki > 0 || round > 0 {
					ctx = "json+default-text-first-seen-on-" + kindClass(p.kinds[0]) + "-elements"
				}
				q := entryReq(sd, e, map[string]any{}, fmt.Sprintf("shared-default-text:a=absent,elem=%s,first=%s", kindClass(k), kindClass(p.kinds[0])))
				q.ctxName, q.extraTargets = ctx, 1
				h.evalOne(c, q)
			}
		}
	})
}

// ---------------------------------------------------------------- family: xum (one tag text, several unmarshaler configurations)

// xumConfigs: unmarshaler configurations that can read a flat struct of scalars (and lists of
// scalars); they differ in tag key, canonical key function, string values, opaque keys.
var xumConfigs = []string{"json", "jsonmap", "custom", "strvals", "formlike", "pathlike", "headerlike", "lower", "upper", "conf", "httphdr"}

func init() {
	// httpx.Parse on a request that carries only headers: the production user of the header unmarshaler
	entries["httphdr"] = &entry{Name: "httphdr", Ctx: httpCtx["header"], NoNull: true, NoMaps: true,
		Doc: func(t map[string]any) string { return (&httpInput{Header: t}).doc() },
		Call: func(t map[string]any, v any) error {
			return (&httpInput{JSON: map[string]any{}, Form: map[string]any{}, Path: map[string]any{}, Header: t}).call(v)
		}}
}

type xumInput struct {
	tree    map[string]any
	classes string
	verdict string
	dump    string
}

func (h *harness) runXum(t *testing.T, n int) {
	h.run(t, "xum", n, func(c *kit.Case) {
		r := c.R
		// keys that every canonical key function spells differently, unique to this case (so that
		// the first configuration of the case is the first one go-zero sees the tag text with)
		uniq := strconv.Itoa(c.Index)
		keyOf := func(p string) string { return p + "-x" + uniq }
		g := &typeGen{r: r, e: entries["json"], tagKey: "json"}
		self := &fieldD{GoName: "S", Src: "json", Key: keyOf("sF"), Kind: g.scalarKind(), Ptr: r.Pick(5, 1)}
		dep := &fieldD{GoName: "D", Src: "json", Key: keyOf("dP"), Kind: kit.Choose(r, []reflect.Kind{reflect.String, reflect.String, reflect.Int}), Opt: optPlain}
		fields := []*fieldD{self, dep}
		sibs := []string{dep.Key}
		if r.Chance(0.5) {
			third := &fieldD{GoName: "T", Src: "json", Key: keyOf("tH"), Kind: g.scalarKind()}
			g.decorate(third, []string{self.Key, dep.Key})
			fields = append(fields, third)
			sibs = append(sibs, third.Key)
		}
		g.decorate(self, sibs)
		if r.Chance(0.75) && self.Opt != optDep && self.Opt != optNotDep {
			// the family is about dependency keys above all
			self.Opt, self.Dep = optMode(r.Range(int(optDep), int(optNotDep))), dep.Key
		}
		switch r.Pick(5, 3, 2) {
		case 1:
			dep.Opt = optNone
		case 2:
			dep.Opt, dep.HasDef, dep.Def = optNone, true, "7"
		}
		lists := r.Chance(0.3)
		if lists {
			k := g.scalarKind()
			lf := &fieldD{GoName: "L", Src: "json", Key: keyOf("lS"), Kind: reflect.Slice, Ptr: r.Pick(4, 1), Elem: &fieldD{Kind: k}, Opt: optMode(r.Pick(1, 1))}
			if r.Chance(0.7) {
				setSliceDefault(lf, defaultElems(k, r.Intn(2)))
			}
			fields = append(fields, lf)
		}
		perm := r.Perm(len(fields))
		shuffled := make([]*fieldD, len(fields))
		for i, j := range perm {
			shuffled[i] = fields[j]
		}
		base := &structD{Fields: shuffled}

		// the configurations of this case, in the order in which they first see the tag text
		var cfgs []*entry
		for _, i := range r.Perm(len(xumConfigs)) {
			e := entries[xumConfigs[i]]
			if lists && e.NoLists {
				continue
			}
			cfgs = append(cfgs, e)
		}
		cfgs = cfgs[:r.Range(3, len(cfgs))]
		types := map[string]*structD{} // one Go type per tag key; "lower", "upper", "conf", "json" share theirs
		sdOf := func(e *entry) *structD {
			if types[e.Ctx.TagKey] == nil {
				types[e.Ctx.TagKey] = base.withSrc(e.Ctx.TagKey)
			}
			return types[e.Ctx.TagKey]
		}
		var order []string
		inputs := map[string][]*xumInput{}
		for _, e := range cfgs {
			order = append(order, e.Name)
			sd := sdOf(e)
			for i := 0; i < 6; i++ {
				ig := &inputGen{r: r, e: e}
				tree := map[string]any{}
				if i < 2 {
					tree = ig.validTree(sd, e, 0)
				} else {
					// the presence patterns of (field, dependency) that decide the dependency rule
					for _, f := range sd.Fields {
						p := r.Chance(0.6)
						switch f.GoName {
						case "S":
							p = i == 3 || i == 4
						case "D":
							p = i == 2 || i == 4
						}
						if !p {
							ig.note(f, "absent")
							continue
						}
						if v, ok := ig.validValue(f, e, 0); ok {
							tree[e.Ctx.canon(f.key())] = v
							ig.note(f, "valid")
						}
					}
				}
				if i == 5 {
					var slots []slot
					collectSlots(sd.Fields, e.Ctx, tree, &slots)
					ig.perturb(kit.Choose(r, slots), e)
				}
				inputs[e.Name] = append(inputs[e.Name], &xumInput{tree: tree, classes: strings.Join(ig.classes, ",")})
			}
		}
		hist := "configurations in the order in which they first saw this tag text: " + strings.Join(order, ", ")
		eval := func(e *entry, in *xumInput, round int) {
			sd := sdOf(e)
			res := h.evalEntryX(c, sd, e, in.tree, fmt.Sprintf("xum:%s", in.classes), hist)
			if res == nil {
				return
			}
			if round == 0 {
				in.verdict, in.dump = res.verdict, res.dump
				return
			}
			if res.verdict != in.verdict || res.dump != in.dump {
				how := in.verdict + "-then-" + res.verdict
				if in.verdict == res.verdict {
					how = "different-target"
				}
				c.Viol("C08/history-dependent/"+e.Ctx.Name+"/"+how,
					"the same (type, input, configuration) gave another outcome after other configurations used the same tag text",
					map[string]any{"type": sd.describe(), "entry": e.Name, "input": e.Doc(in.tree), "history": hist,
						"first": in.verdict + " " + in.dump, "second": res.verdict + " " + res.dump})
			}
		}
		// round 0: configuration by configuration; round 1: interleaved, input by input
		for _, e := range cfgs {
			for _, in := range inputs[e.Name] {
				eval(e, in, 0)
			}
		}
		for i := 0; i < 6; i++ {
			for j := len(cfgs) - 1; j >= 0; j-- {
				eval(cfgs[j], inputs[cfgs[j].Name][i], 1)
			}
		}
		if c.Index < 2 {
			c.Sample("xum", 2, map[string]any{"type": base.describe(), "configurations": order})
		}
	})
}
