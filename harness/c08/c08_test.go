package c08

import (
	"bytes"
	"encoding/json"
	"fmt"
	"net/textproto"
	"os"
	"reflect"
	"regexp"
	"strings"
	"testing"

	"github.com/zeromicro/go-zero/core/logx"
	"github.com/zeromicro/go-zero/core/mapping"

	"verifharness/kit"
)

// ---------------------------------------------------------------- one evaluation

type harness struct {
	fc      *fence
	memos   []*memo // evaluations of the running case that are repeated at its end (cold vs. warm)
	ordinal int     // evaluations of the running case so far
	ptrOnly int     // accepted pointer-only results of the running case so far
}

var (
	quotedRe = regexp.MustCompile("\"[^\"]*\"|`[^`]*`|'[^']*'")
	digitsRe = regexp.MustCompile(`[0-9]+`)
)

func errClass(err error) string {
	s := err.Error()
	if i, j := strings.Index(s, "`"), strings.LastIndex(s, "`"); i >= 0 && j > i {
		s = s[:i] + "Q" + s[j+1:]
	}
	s = quotedRe.ReplaceAllString(s, "Q")
	s = digitsRe.ReplaceAllString(s, "N")
	return kit.KeyPart(s)
}

var tokenRe = regexp.MustCompile("\"([^\"]*)\"|`([^`]*)`")

// suspectShape names the coarse shape of the field an error message points at (so that a
// completeness key says which kind of field was refused), "?" if none can be identified.
func suspectShape(sd *structD, err error) string {
	var exact, loose *fieldD
	for _, m := range tokenRe.FindAllStringSubmatch(err.Error(), -1) {
		tok := m[1] + m[2]
		if i := strings.LastIndex(tok, "."); i >= 0 {
			tok = tok[i+1:]
		}
		if i := strings.Index(tok, "["); i >= 0 {
			tok = tok[:i]
		}
		if tok == "" {
			continue
		}
		var walk func(fs []*fieldD)
		walk = func(fs []*fieldD) {
			for _, f := range fs {
				if !f.Embedded {
					k := f.key()
					switch {
					case exact == nil && (k == tok || textproto.CanonicalMIMEHeaderKey(k) == tok || strings.ToLower(k) == tok):
						exact = f
					case loose == nil && strings.EqualFold(k, tok):
						loose = f
					}
				}
				if f.Sub != nil {
					walk(f.Sub.Fields)
				}
				if f.Elem != nil && f.Elem.Sub != nil {
					walk(f.Elem.Sub.Fields)
				}
			}
		}
		walk(sd.Fields)
	}
	pick := exact
	if pick == nil {
		pick = loose
	}
	if pick == nil {
		return "?"
	}
	if pick.scalar() {
		return "scalar"
	}
	if pick.Ptr > 0 {
		return "pointer-to-" + pick.Kind.String()
	}
	return pick.Kind.String()
}

type evalReq struct {
	ctxName string // class of the entry context (goes into completeness keys)
	sd      *structD
	ss      sources
	entry   string
	doc     func() string
	call    func(target any) error
	classes string // what the generator supplied, for signatures
	// history independence (isolation_test.go)
	scribbleInput func() // overwrites the input containers the last call handed to go-zero by reference (nil: none)
	passesRef     bool   // scribbleInput applies
	extraTargets  int    // additional repeats of an accepted (type, input) into fresh targets
	wantDump      bool   // the caller compares results: evalOne returns the dump of an accepted target
	history       string // what ran before, for witnesses
	memoAlways    bool   // the evaluation is always repeated at the end of the case (cold vs. warm), not only every 41st
}

// evalRes is what evalOne saw.
type evalRes struct {
	verdict string // acc | rej | panic
	dump    string // accepted target, field by field (only if wantDump)
}

// evalOne runs one (type, input) through go-zero and through the reference, and compares.
func (h *harness) evalOne(c *kit.Case, q *evalReq) *evalRes {
	res := &evalRes{verdict: "rej"}
	h.ordinal++
	ref := reference(q.sd, q.ss)
	target := reflect.New(q.sd.goType())
	var docText string
	record := func() string {
		docText = q.doc()
		return fmt.Sprintf("case=%s entry=%s type=%s input=%s", c.ID, q.entry, q.sd.describe(), docText)
	}
	err, pan := h.fc.guard(record, func() error { return q.call(target.Interface()) })
	witness := func(extra map[string]any) map[string]any {
		if docText == "" {
			docText = q.doc()
		}
		w := map[string]any{"type": q.sd.describe(), "entry": q.entry, "input": docText, "generator_classes": q.classes}
		if err != nil {
			w["error"] = err.Error()
		} else if pan == nil {
			w["target"] = fmt.Sprintf("%+v", target.Elem().Interface())
		}
		if len(ref.unknown) > 0 {
			w["reference_does_not_demand_acceptance_because"] = ref.unknown
		}
		if q.history != "" {
			w["history"] = q.history
		}
		for k, v := range extra {
			w[k] = v
		}
		return w
	}
	c.Evals(1)
	kit.Obs("calls", 1)
	kit.Obs("calls_"+q.entry, 1)
	switch {
	case pan != nil:
		kit.Obs("panics", 1)
		res.verdict = "panic"
		c.Viol(pan.key(), "the unmarshaller panicked: "+pan.Msg, witness(map[string]any{"panic": pan.Msg, "stack": pan.Stack}))
	case err == nil:
		kit.Obs("accepted", 1)
		res.verdict = "acc"
		for _, m := range ref.must {
			c.Viol("C08/"+m.Kind+"/"+m.Class, fmt.Sprintf("accepted although %s: %s", m.Path, m.What),
				witness(map[string]any{"field": m.Path, "clause": m.Kind}))
		}
		cmp := compareTarget(q.sd, target.Elem(), q.ss)
		kit.Obs("target_fields_compared", int64(cmp.compared))
		for _, mm := range cmp.out {
			c.Viol("C08/target-mismatch/"+mm.Class+"/"+mm.Kind, fmt.Sprintf("%s: %s", mm.Path, mm.What), witness(map[string]any{"field": mm.Path}))
		}
		if ref.acceptDemanded() {
			kit.Obs("accepted_and_reference_accepts", 1)
		} else if len(ref.must) == 0 {
			kit.Obs("accepted_reference_silent", 1)
		}
		if docText == "" {
			docText = q.doc()
		}
		if q.wantDump {
			res.dump = strings.Join(dumpTop(target.Elem()), " | ")
		}
		if q.memoAlways || (h.ordinal+c.Index)%memoEvery == 0 {
			h.remember(q, docText, true, target)
		}
		// the caller overwrites its result; the same input must give the same result again
		h.afterAccept(c, q, target, docText)
	default:
		kit.Obs("rejected", 1)
		if q.memoAlways || (h.ordinal+c.Index)%memoEvery == 0 {
			if docText == "" {
				docText = q.doc()
			}
			h.remember(q, docText, false, target)
		}
		if ref.acceptDemanded() {
			c.Viol("C08/valid-input-rejected/"+q.ctxName+"/"+errClass(err)+"/"+suspectShape(q.sd, err), "input meets every declared constraint with correctly typed values, yet: "+err.Error(), witness(nil))
		} else if len(ref.must) > 0 {
			kit.Obs("rejected_and_reference_rejects", 1)
		} else {
			kit.Obs("rejected_reference_silent", 1)
		}
	}
	kit.Obs("ref_range_in", int64(ref.nRangeIn))
	kit.Obs("ref_range_out", int64(ref.nRangeOut))
	kit.Obs("ref_option_in", int64(ref.nOptIn))
	kit.Obs("ref_option_out", int64(ref.nOptOut))
	kit.Obs("ref_dep_rules", int64(ref.nDep))
	kit.Obs("ref_dep_rules_broken", int64(ref.nDepReject))
	kit.Obs("ref_defaults_expected", int64(ref.nDefault))
	kit.Obs("ref_required_missing", int64(ref.nRequiredMissing))
	kit.Obs("ref_supplied_fields", int64(ref.nSupplied))
	if ref.nNullRequired+ref.nNullOptional+ref.nNullSilent > 0 {
		kit.Obs("ref_null_for_scalar_required_in_context", int64(ref.nNullRequired))
		kit.Obs("ref_null_for_optional_scalar", int64(ref.nNullOptional))
		kit.Obs("ref_null_statement_silent", int64(ref.nNullSilent))
		if err == nil && pan == nil && ref.nNullOptional > 0 && len(ref.must) == 0 {
			kit.Obs("null_for_optional_scalar_accepted_and_target_compared", 1)
		}
	}
	verdict := "rej"
	if err == nil && pan == nil {
		verdict = "acc"
	}
	c.Sig(ref.nontrivial(), q.entry, q.sd.shape(), q.classes, verdict)
	return res
}

func oneSource(e *entry, tree map[string]any) sources {
	return sources{e.Ctx.TagKey: {ctx: e.Ctx, tree: tree}}
}

// entryReq builds the evaluation of one input tree through one entry point. Entries that take the
// tree itself get a private deep copy per call, which is overwritten after an accepted call.
func entryReq(sd *structD, e *entry, tree map[string]any, classes string) *evalReq {
	q := &evalReq{sd: sd, ss: oneSource(e, tree), entry: e.Name, ctxName: e.Ctx.Name, classes: classes,
		doc: func() string { return e.Doc(tree) }}
	if e.Respell {
		// the reference reads the canonical tree; the document spells the keys as declared
		written := respell(sd.Fields, e.Ctx, tree)
		q.doc = func() string { return e.Doc(written) }
		q.call = func(t any) error { return e.Call(written, t) }
		return q
	}
	if !e.ByRef {
		q.call = func(t any) error { return e.Call(tree, t) }
		return q
	}
	var passed map[string]any
	q.call = func(t any) error {
		passed = deepCopyTree(tree).(map[string]any)
		return e.Call(passed, t)
	}
	q.passesRef = true
	q.scribbleInput = func() { scribbleTree(passed) }
	return q
}

// respell returns the tree with every key that belongs to a field spelled as the field's tag
// declares it (the tree itself holds the canonical spellings); keys of maps are data and stay.
func respell(fields []*fieldD, ctx *ctxD, tree map[string]any) map[string]any {
	out := make(map[string]any, len(tree))
	for k, v := range tree {
		out[k] = v
	}
	var level func(fs []*fieldD)
	level = func(fs []*fieldD) {
		for _, f := range fs {
			if f.Ignore || (!f.NoTag && f.Src != ctx.TagKey) {
				continue
			}
			if f.Embedded {
				level(f.Sub.Fields)
				continue
			}
			ck := ctx.canon(f.key())
			v, ok := tree[ck]
			if !ok {
				continue
			}
			delete(out, ck)
			out[f.key()] = respellValue(f, ctx, v)
		}
	}
	level(fields)
	return out
}

func respellValue(f *fieldD, ctx *ctxD, v any) any {
	switch f.Kind {
	case reflect.Struct:
		if m, ok := v.(map[string]any); ok {
			return respell(f.Sub.Fields, ctx, m)
		}
	case reflect.Slice:
		if arr, ok := v.([]any); ok && arr != nil {
			out := make([]any, len(arr))
			for i, el := range arr {
				out[i] = respellValue(f.Elem, ctx, el)
			}
			return out
		}
	case reflect.Map:
		if m, ok := v.(map[string]any); ok {
			out := make(map[string]any, len(m))
			for k, el := range m {
				out[k] = respellValue(f.Elem, ctx, el)
			}
			return out
		}
	}
	return v
}

func (h *harness) evalEntry(c *kit.Case, sd *structD, e *entry, tree map[string]any, classes string) {
	h.evalOne(c, entryReq(sd, e, tree, classes))
}

// evalEntryN: an accepted (type, input) is unmarshalled into 1+extra further targets.
func (h *harness) evalEntryN(c *kit.Case, sd *structD, e *entry, tree map[string]any, classes string, extra int) {
	q := entryReq(sd, e, tree, classes)
	q.extraTargets = extra
	h.evalOne(c, q)
}

// evalEntryX: the caller compares the outcome with that of another evaluation.
func (h *harness) evalEntryX(c *kit.Case, sd *structD, e *entry, tree map[string]any, classes, history string) *evalRes {
	q := entryReq(sd, e, tree, classes)
	q.wantDump, q.history = true, history
	return h.evalOne(c, q)
}

// ---------------------------------------------------------------- family: bounded-exhaustive single field (+ dependency field)

type exhCombo struct {
	kind    reflect.Kind
	opt     optMode
	def     int // 0 none, 1 inside the range, 2 outside the range
	rng     int // 0 none, 1..16: bracket/open-end variant x bound pair
	opts    int // 0 none, 1 a|b, 2 [a,b]
	fromStr bool
}

var exhEntries = []string{"json", "keynative", "formlike", "headerlike"}

// dependency combinations: additionally the lower-casing configuration, on a subset of the classes
var exhEntriesDep = []string{"json", "keynative", "formlike", "headerlike", "lower"}

var exhLowerClasses = map[vclass]bool{vcAbsent: true, vcValid: true, vcBelowLo: true, vcAboveHi: true, vcFar: true, vcOptOut: true}

func exhCombos(k reflect.Kind) []exhCombo {
	var out []exhCombo
	nr, no := 1, 1
	if isNumeric(k) {
		nr = 17
	}
	if isInt(k) || isUint(k) || k == reflect.String {
		no = 3
	}
	for opt := optNone; opt <= optNotDep; opt++ {
		for rng := 0; rng < nr; rng++ {
			for def := 0; def < 3; def++ {
				if def == 2 && rng == 0 {
					continue
				}
				for o := 0; o < no; o++ {
					for fs := 0; fs < 2; fs++ {
						out = append(out, exhCombo{k, opt, def, rng, o, fs == 1})
					}
				}
			}
		}
	}
	return out
}

func exhRange(k reflect.Kind, v int) *rangeD {
	if v == 0 {
		return nil
	}
	v--
	pair, form := v/8, v%8
	var l, r float64
	switch {
	case isFloat(k):
		l, r = []float64{1, -2.5}[pair], []float64{5, 7.25}[pair]
	case isUint(k):
		l, r = []float64{1, 2}[pair], []float64{5, 9}[pair]
	default:
		l, r = []float64{1, -4}[pair], []float64{5, 7}[pair]
	}
	rg := &rangeD{L: l, R: r}
	switch form {
	case 0:
		rg.HasL, rg.HasR, rg.LInc, rg.RInc = true, true, true, true
	case 1:
		rg.HasL, rg.HasR, rg.LInc, rg.RInc = true, true, true, false
	case 2:
		rg.HasL, rg.HasR, rg.LInc, rg.RInc = true, true, false, true
	case 3:
		rg.HasL, rg.HasR, rg.LInc, rg.RInc = true, true, false, false
	case 4:
		rg.HasL, rg.LInc, rg.RInc = true, true, true
	case 5:
		rg.HasL, rg.LInc, rg.RInc = true, false, false
	case 6:
		rg.HasR, rg.LInc, rg.RInc = true, true, true
	default:
		rg.HasR, rg.LInc, rg.RInc = true, false, false
	}
	return rg
}

func (cb exhCombo) build(e *entry, ptr int, shuffle uint64) *structD {
	k := cb.kind
	// the same keys (and the same option order) under every entry: the tag text after the tag key
	// is then identical for all unmarshaler configurations of a combination, and go-zero shares
	// what it caches by tag text between them
	selfKey, depKey := "x-Self", "x-Dep"
	f := &fieldD{GoName: "A", Src: e.Ctx.TagKey, Key: selfKey, Kind: k, Ptr: ptr, Opt: cb.opt, FromStr: cb.fromStr, Shuffle: shuffle}
	if cb.opt == optDep || cb.opt == optNotDep {
		f.Dep = depKey
	}
	f.Rng = exhRange(k, cb.rng)
	if cb.opts > 0 {
		f.OptBrk = cb.opts == 2
		switch {
		case k == reflect.String:
			f.Options = []string{"ab", "cd"}
		case f.Rng != nil && f.Rng.L == 1:
			f.Options = []string{"2", "4", "9"}
		case f.Rng != nil && f.Rng.L == 2:
			f.Options = []string{"3", "8", "15"}
		case f.Rng != nil:
			f.Options = []string{"-2", "5", "12"}
		default:
			f.Options = []string{"2", "4", "9"}
		}
	}
	switch cb.def {
	case 1:
		f.HasDef = true
		switch {
		case k == reflect.String:
			f.Def = "dflt"
		case k == reflect.Bool:
			f.Def = "true"
		case isFloat(k):
			f.Def = "2.5"
		default:
			f.Def = "3"
		}
	case 2:
		f.HasDef, f.Def = true, "100"
	}
	d := &fieldD{GoName: "D", Src: e.Ctx.TagKey, Key: depKey, Kind: reflect.String, Opt: optPlain}
	return &structD{Fields: []*fieldD{f, d}}
}

func (h *harness) runExhaustive(t *testing.T) {
	const chunk = 24
	for _, k := range allPrims {
		combos := exhCombos(k)
		fam := "exh-" + k.String()
		n := (len(combos) + chunk - 1) / chunk
		h.run(t, fam, n, func(c *kit.Case) {
			lo, hi := c.Index*chunk, (c.Index+1)*chunk
			if hi > len(combos) {
				hi = len(combos)
			}
			for ci := lo; ci < hi; ci++ {
				cb := combos[ci]
				withDep := cb.opt == optDep || cb.opt == optNotDep
				shuffle := c.R.Uint64() | 1
				// the configurations take turns in being the first to see a combination's tag text;
				// dependency combinations also run under a second canonicalising configuration
				// (lower-casing, as core/conf uses it) on the classes that decide the dependency rule
				names := exhEntries
				if withDep {
					names = exhEntriesDep
				}
				for t := 0; t < len(names); t++ {
					ei := (t + ci) % len(names)
					en := names[ei]
					e := entries[en]
					ptr := 0
					if (ci+ei)%3 == 0 {
						ptr = 1
					}
					sd := cb.build(e, ptr, shuffle)
					f := sd.Fields[0]
					depStates := []bool{false}
					if withDep {
						depStates = []bool{false, true}
					}
					for cls := vcAbsent; cls < vcNumClasses; cls++ {
						if en == "lower" && !exhLowerClasses[cls] {
							continue
						}
						if cls == vcEmptyList && cb.rng > 1 && cb.rng != 9 {
							continue // a key without values: once per bound pair is enough, the range form plays no part
						}
						var leaf any
						ok := true
						if cls != vcAbsent {
							leaf, ok = genLeaf(f, cls, e, c.R)
						}
						if !ok {
							continue
						}
						for _, dep := range depStates {
							tree := map[string]any{}
							if cls != vcAbsent {
								tree[e.Ctx.canon(f.key())] = leaf
							}
							if dep {
								tree[e.Ctx.canon(sd.Fields[1].key())] = "x"
							}
							h.evalEntry(c, sd, e, tree, fmt.Sprintf("self=%s,dep=%v", cls, dep))
						}
					}
				}
			}
			if c.Index == 0 {
				c.Sample("exhaustive", 1, map[string]any{"family": fam, "option_combinations": len(combos), "entries": exhEntries,
					"input_classes": vclassNames[:], "note": "every applicable (combination, entry, input class, dependency present/absent) is evaluated; all entries of a combination share one tag text and take turns in seeing it first; dependency combinations also run under the lower-casing configuration on the classes absent/valid/below-lo/above-hi/far/opt-out"})
			}
		})
	}
}

// ---------------------------------------------------------------- family: random composite types

var randomEntries = []string{"json", "json", "json", "jsonreader", "yaml", "toml", "key", "keynative", "jsonmap", "custom", "strvals", "formlike", "pathlike", "headerlike", "lower", "conf",
	"yamlreader", "tomlreader", "valuer", "confyaml", "conftoml"}

func (h *harness) runRandom(t *testing.T, n int) {
	h.run(t, "random", n, func(c *kit.Case) {
		r := c.R
		e := entries[kit.Choose(r, randomEntries)]
		g := &typeGen{r: r, e: e, tagKey: e.Ctx.TagKey, maxDeep: 2, noIgnore: e.Ctx.Name == "conf"}
		if kit.Thorough() && r.Chance(0.3) {
			g.maxDeep = 3
		}
		sd := g.genStruct(0, 1, 6)
		inputs := 10
		for i := 0; i < inputs; i++ {
			ig := &inputGen{r: r, e: e}
			tree := ig.validTree(sd, e, 0)
			if i >= 3 {
				var slots []slot
				collectSlots(sd.Fields, e.Ctx, tree, &slots)
				for p := 0; p < r.Pick(0, 5, 3, 1) && len(slots) > 0; p++ {
					ig.perturb(kit.Choose(r, slots), e)
				}
			}
			h.evalEntry(c, sd, e, tree, strings.Join(ig.classes, ","))
			if c.Index < 2 && i == 4 {
				c.Sample("random", 2, map[string]any{"entry": e.Name, "type": sd.describe(), "input": e.Doc(tree), "generator_classes": ig.classes})
			}
		}
	})
}

// ---------------------------------------------------------------- family: httpx.Parse

func (h *harness) runHTTP(t *testing.T, n int) {
	h.run(t, "http", n, func(c *kit.Case) {
		r := c.R
		g := &typeGen{r: r, http: true, maxDeep: 1}
		sd := &structD{}
		srcEntries := map[string]*entry{}
		for _, src := range []string{"json", "form", "path", "header"} {
			if !r.Chance(0.75) {
				continue
			}
			g.tagKey = src
			g.e = &entry{Name: "http-" + src, Ctx: httpCtx[src], NoNull: src != "json", NoMaps: src != "json", NoLists: src == "path"}
			srcEntries[src] = g.e
			part := g.genStruct(0, 1, 3)
			sd.Fields = append(sd.Fields, part.Fields...)
		}
		if len(sd.Fields) == 0 {
			g.tagKey, g.e = "form", &entry{Name: "http-form", Ctx: httpCtx["form"], NoNull: true, NoMaps: true}
			srcEntries["form"] = g.e
			sd.Fields = g.genStruct(0, 1, 3).Fields
		}
		perm := r.Perm(len(sd.Fields))
		fs := make([]*fieldD, len(perm))
		for i, j := range perm {
			fs[i] = sd.Fields[j]
		}
		sd.Fields = fs
		for i := 0; i < 8; i++ {
			in := &httpInput{JSON: map[string]any{}, Form: map[string]any{}, Path: map[string]any{}, Header: map[string]any{}, SendBody: r.Bool()}
			trees := map[string]map[string]any{"json": in.JSON, "form": in.Form, "path": in.Path, "header": in.Header}
			var classes []string
			for _, src := range []string{"json", "form", "path", "header"} {
				e := srcEntries[src]
				if e == nil {
					continue
				}
				ig := &inputGen{r: r, e: e}
				ig.fillLevel(sd.Fields, e, trees[src], 0)
				if i >= 3 && r.Chance(0.5) {
					var slots []slot
					collectSlots(sd.Fields, e.Ctx, trees[src], &slots)
					if len(slots) > 0 {
						ig.perturb(kit.Choose(r, slots), e)
					}
				}
				classes = append(classes, src+":"+strings.Join(ig.classes, ","))
			}
			// the real request drops what HTTP cannot carry; keep the oracle's view identical
			sanitizeHTTP(in)
			h.evalOne(c, &evalReq{sd: sd, ss: in.sources(), entry: "httpx.Parse", ctxName: "http", classes: strings.Join(classes, ";"),
				doc: in.doc, call: in.call})
			if c.Index < 2 && i == 4 {
				c.Sample("http", 2, map[string]any{"type": sd.describe(), "request": in.doc()})
			}
		}
	})
}

// sanitizeHTTP normalises the parts of an input that an HTTP request cannot express the way
// the tree says (non-string leaves in string-only sources).
func sanitizeHTTP(in *httpInput) {
	for i, m := range []map[string]any{in.Form, in.Path, in.Header} {
		// a header key may be present without any value (http.Header is a plain map of lists);
		// a query string cannot express that, and httpx drops form keys without non-empty values
		keepEmpty := i == 2
		for k, v := range m {
			switch x := v.(type) {
			case string:
				if x == "" {
					delete(m, k)
				}
			case []string:
				if len(x) > 0 || !keepEmpty {
					delete(m, k)
				}
			case []any:
				ok := len(x) > 0 || keepEmpty
				for _, el := range x {
					if s, isStr := el.(string); !isStr || s == "" {
						ok = false
					}
				}
				if !ok {
					delete(m, k)
				}
			default:
				delete(m, k)
			}
		}
	}
	for k, v := range in.Path {
		if _, ok := v.(string); !ok {
			delete(in.Path, k)
		}
	}
}

// ---------------------------------------------------------------- family: pointer / container shapes

func (h *harness) runShapes(t *testing.T) {
	type shape struct {
		name string
		mk   func(k reflect.Kind) *fieldD
	}
	sub := func() *structD {
		return &structD{Fields: []*fieldD{{GoName: "X", Src: "json", Key: "x", Kind: reflect.Int, Rng: &rangeD{HasL: true, HasR: true, L: 1, R: 5, LInc: true, RInc: true}},
			{GoName: "Y", Src: "json", Key: "y", Kind: reflect.String, Opt: optPlain, HasDef: true, Def: "dy"},
			{GoName: "W", Src: "json", Key: "Wk", Kind: reflect.String}}}
	}
	shapes := []shape{
		{"scalar-ptr1", func(k reflect.Kind) *fieldD { return &fieldD{Kind: k, Ptr: 1} }},
		{"scalar-ptr2", func(k reflect.Kind) *fieldD { return &fieldD{Kind: k, Ptr: 2} }},
		{"scalar-ptr3", func(k reflect.Kind) *fieldD { return &fieldD{Kind: k, Ptr: 3} }},
		{"slice", func(k reflect.Kind) *fieldD { return &fieldD{Kind: reflect.Slice, Elem: &fieldD{Kind: k}} }},
		{"slice-of-ptr", func(k reflect.Kind) *fieldD { return &fieldD{Kind: reflect.Slice, Elem: &fieldD{Kind: k, Ptr: 1}} }},
		{"slice-of-ptr2", func(k reflect.Kind) *fieldD { return &fieldD{Kind: reflect.Slice, Elem: &fieldD{Kind: k, Ptr: 2}} }},
		{"slice-of-slice", func(k reflect.Kind) *fieldD {
			return &fieldD{Kind: reflect.Slice, Elem: &fieldD{Kind: reflect.Slice, Elem: &fieldD{Kind: k}}}
		}},
		{"ptr-to-slice", func(k reflect.Kind) *fieldD { return &fieldD{Kind: reflect.Slice, Ptr: 1, Elem: &fieldD{Kind: k}} }},
		{"map", func(k reflect.Kind) *fieldD { return &fieldD{Kind: reflect.Map, Elem: &fieldD{Kind: k}} }},
		{"map-of-ptr", func(k reflect.Kind) *fieldD { return &fieldD{Kind: reflect.Map, Elem: &fieldD{Kind: k, Ptr: 1}} }},
		{"map-of-slice", func(k reflect.Kind) *fieldD {
			return &fieldD{Kind: reflect.Map, Elem: &fieldD{Kind: reflect.Slice, Elem: &fieldD{Kind: k}}}
		}},
		{"ptr-to-map", func(k reflect.Kind) *fieldD { return &fieldD{Kind: reflect.Map, Ptr: 1, Elem: &fieldD{Kind: k}} }},
		{"struct-ptr1", func(k reflect.Kind) *fieldD { return &fieldD{Kind: reflect.Struct, Ptr: 1, Sub: sub()} }},
		{"struct-ptr2", func(k reflect.Kind) *fieldD { return &fieldD{Kind: reflect.Struct, Ptr: 2, Sub: sub()} }},
		{"slice-of-struct", func(k reflect.Kind) *fieldD {
			return &fieldD{Kind: reflect.Slice, Elem: &fieldD{Kind: reflect.Struct, Sub: sub()}}
		}},
		{"slice-of-struct-ptr", func(k reflect.Kind) *fieldD {
			return &fieldD{Kind: reflect.Slice, Elem: &fieldD{Kind: reflect.Struct, Ptr: 1, Sub: sub()}}
		}},
		{"map-of-struct", func(k reflect.Kind) *fieldD {
			return &fieldD{Kind: reflect.Map, Elem: &fieldD{Kind: reflect.Struct, Sub: sub()}}
		}},
		{"map-of-struct-ptr", func(k reflect.Kind) *fieldD {
			return &fieldD{Kind: reflect.Map, Elem: &fieldD{Kind: reflect.Struct, Ptr: 1, Sub: sub()}}
		}},
		// containers nested directly in containers, the element struct has a mixed-case key
		{"slice-of-slice-of-struct", func(k reflect.Kind) *fieldD {
			return &fieldD{Kind: reflect.Slice, Elem: &fieldD{Kind: reflect.Slice, Elem: &fieldD{Kind: reflect.Struct, Sub: sub()}}}
		}},
		{"slice-of-slice-of-struct-ptr", func(k reflect.Kind) *fieldD {
			return &fieldD{Kind: reflect.Slice, Elem: &fieldD{Kind: reflect.Slice, Elem: &fieldD{Kind: reflect.Struct, Ptr: 1, Sub: sub()}}}
		}},
		{"slice-of-map-of-struct", func(k reflect.Kind) *fieldD {
			return &fieldD{Kind: reflect.Slice, Elem: &fieldD{Kind: reflect.Map, Elem: &fieldD{Kind: reflect.Struct, Sub: sub()}}}
		}},
		{"map-of-slice-of-struct", func(k reflect.Kind) *fieldD {
			return &fieldD{Kind: reflect.Map, Elem: &fieldD{Kind: reflect.Slice, Elem: &fieldD{Kind: reflect.Struct, Sub: sub()}}}
		}},
		{"map-of-slice-of-slice-of-struct", func(k reflect.Kind) *fieldD {
			return &fieldD{Kind: reflect.Map, Elem: &fieldD{Kind: reflect.Slice, Elem: &fieldD{Kind: reflect.Slice, Elem: &fieldD{Kind: reflect.Struct, Sub: sub()}}}}
		}},
		// maps nested in maps / lists, a map that is not keyed by strings
		{"map-of-map", func(k reflect.Kind) *fieldD {
			return &fieldD{Kind: reflect.Map, Elem: &fieldD{Kind: reflect.Map, Elem: &fieldD{Kind: k}}}
		}},
		{"slice-of-map", func(k reflect.Kind) *fieldD {
			return &fieldD{Kind: reflect.Slice, Elem: &fieldD{Kind: reflect.Map, Elem: &fieldD{Kind: k}}}
		}},
		{"map-of-map-of-struct", func(k reflect.Kind) *fieldD {
			return &fieldD{Kind: reflect.Map, Elem: &fieldD{Kind: reflect.Map, Elem: &fieldD{Kind: reflect.Struct, Sub: sub()}}}
		}},
		{"map-of-ptr-to-map", func(k reflect.Kind) *fieldD {
			return &fieldD{Kind: reflect.Map, Elem: &fieldD{Kind: reflect.Map, Ptr: 1, Elem: &fieldD{Kind: k}}}
		}},
		{"map-int-key", func(k reflect.Kind) *fieldD {
			return &fieldD{Kind: reflect.Map, IntKey: true, Elem: &fieldD{Kind: k}}
		}},
		{"embedded-ptr", func(k reflect.Kind) *fieldD {
			return &fieldD{Kind: reflect.Struct, Ptr: 1, Embedded: true, NoTag: true, Sub: sub()}
		}},
		{"embedded-optional", func(k reflect.Kind) *fieldD {
			return &fieldD{Kind: reflect.Struct, Embedded: true, Opt: optPlain, Sub: sub()}
		}},
		{"embedded-optional-ptr", func(k reflect.Kind) *fieldD {
			return &fieldD{Kind: reflect.Struct, Ptr: 1, Embedded: true, Opt: optPlain, Sub: sub()}
		}},
	}
	ents := []string{"json", "yaml", "toml", "jsonmap", "lower", "conf"}
	h.run(t, "shapes", len(shapes), func(c *kit.Case) {
		sh := shapes[c.Index]
		kinds := allPrims
		if probe := sh.mk(reflect.Int); probe.Sub != nil || hasSub(probe.Elem) {
			kinds = []reflect.Kind{reflect.Int} // the shape does not depend on a primitive kind
		}
		for _, k := range kinds {
			for _, en := range ents {
				e := entries[en]
				for _, opt := range []optMode{optNone, optPlain} {
					f := sh.mk(k)
					f.GoName, f.Src = "A", "json"
					if !f.Embedded {
						f.Key = "a"
						f.Opt = opt
					} else if opt == optPlain {
						continue
					}
					sd := &structD{Fields: []*fieldD{f, {GoName: "Z", Src: "json", Key: "z", Kind: reflect.Int, Opt: optPlain}}}
					for i := 0; i < 7; i++ {
						ig := &inputGen{r: c.R, e: e}
						tree := ig.validTree(sd, e, 0)
						switch {
						case i >= 5:
							// a null / a wrongly shaped member inside the list or map
							var bad any
							if i == 6 {
								bad = kit.Choose(c.R, []any{json.Number("5"), "x", true, []any{}, map[string]any{}})
							} else if e.NoNull {
								continue
							}
							switch cur := tree["a"].(type) {
							case []any:
								tree["a"] = append(append([]any{}, cur...), bad)
							case map[string]any:
								cur["mbad"] = bad
							default:
								continue
							}
							ig.note(f, map[bool]string{true: "->null-member", false: "->misshaped-member"}[i == 5])
						case i == 3:
							var slots []slot
							collectSlots(sd.Fields, e.Ctx, tree, &slots)
							ig.perturb(kit.Choose(c.R, slots), e)
						case i == 4 && f.Kind == reflect.Slice:
							tree["a"] = []any{}
							ig.note(f, "->empty-list")
						case i == 4 && f.Kind == reflect.Map:
							tree["a"] = map[string]any{}
							ig.note(f, "->empty-object")
						case i == 4:
							continue
						}
						h.evalEntry(c, sd, e, tree, sh.name+":"+strings.Join(ig.classes, ","))
					}
				}
			}
		}
		c.Sample("shapes", 1, map[string]any{"shape": sh.name})
	})
}

func hasSub(f *fieldD) bool {
	for ; f != nil; f = f.Elem {
		if f.Sub != nil {
			return true
		}
	}
	return false
}

// ---------------------------------------------------------------- family: hand-written (compiled) struct types

type HwInner struct {
	X int    `json:"x,range=[1:5]"`
	Y string `json:"y,optional,options=a|b"`
}

type HwBase struct {
	ID   int64  `json:"id,range=(0:]"`
	Name string `json:"name,default=anon"`
}

type HwOptBase struct {
	P int `json:"p,range=[0:10)"`
	Q int `json:"q,optional"`
}

type HwOuter1 struct {
	HwBase
	In    HwInner  `json:"in"`
	InPtr *HwInner `json:"inptr,optional"`
	Tags  []string `json:"tags,optional"`
}

type HwOuter2 struct {
	*HwBase
	HwOptBase `json:",optional"`
	Level     uint8              `json:"level,optional=mode,range=[1:3]"`
	Mode      string             `json:"mode,optional,options=[fast,slow]"`
	Alt       float64            `json:"alt,optional=!level,range=(0:1)"`
	M         map[string]HwInner `json:"m,optional"`
}

type HwOuter3 struct {
	List []HwInner `json:"list"`
	Deep struct {
		HwBase
		K int8 `json:"k,default=7,range=[-8:8]"`
	} `json:"deep,optional"`
	Flag *bool `json:"flag,string,optional"`
}

func rg(l, r float64, hasL, hasR, li, ri bool) *rangeD {
	return &rangeD{L: l, R: r, HasL: hasL, HasR: hasR, LInc: li, RInc: ri}
}

func hwInnerD() *structD {
	return &structD{typ: reflect.TypeOf(HwInner{}), Fields: []*fieldD{
		{GoName: "X", Src: "json", Key: "x", Kind: reflect.Int, Rng: rg(1, 5, true, true, true, true)},
		{GoName: "Y", Src: "json", Key: "y", Kind: reflect.String, Opt: optPlain, Options: []string{"a", "b"}},
	}}
}

func hwBaseD() *structD {
	return &structD{typ: reflect.TypeOf(HwBase{}), Fields: []*fieldD{
		{GoName: "ID", Src: "json", Key: "id", Kind: reflect.Int64, Rng: rg(0, 0, true, false, false, true)},
		{GoName: "Name", Src: "json", Key: "name", Kind: reflect.String, HasDef: true, Def: "anon"},
	}}
}

func hwOptBaseD() *structD {
	return &structD{typ: reflect.TypeOf(HwOptBase{}), Fields: []*fieldD{
		{GoName: "P", Src: "json", Key: "p", Kind: reflect.Int, Rng: rg(0, 10, true, true, true, false)},
		{GoName: "Q", Src: "json", Key: "q", Kind: reflect.Int, Opt: optPlain},
	}}
}

func handWritten() []*structD {
	o1 := &structD{typ: reflect.TypeOf(HwOuter1{}), Fields: []*fieldD{
		{GoName: "HwBase", Src: "json", Kind: reflect.Struct, Embedded: true, NoTag: true, Sub: hwBaseD()},
		{GoName: "In", Src: "json", Key: "in", Kind: reflect.Struct, Sub: hwInnerD()},
		{GoName: "InPtr", Src: "json", Key: "inptr", Kind: reflect.Struct, Ptr: 1, Opt: optPlain, Sub: hwInnerD()},
		{GoName: "Tags", Src: "json", Key: "tags", Kind: reflect.Slice, Opt: optPlain, Elem: &fieldD{Kind: reflect.String}},
	}}
	o2 := &structD{typ: reflect.TypeOf(HwOuter2{}), Fields: []*fieldD{
		{GoName: "HwBase", Src: "json", Kind: reflect.Struct, Ptr: 1, Embedded: true, NoTag: true, Sub: hwBaseD()},
		{GoName: "HwOptBase", Src: "json", Kind: reflect.Struct, Embedded: true, Opt: optPlain, Sub: hwOptBaseD()},
		{GoName: "Level", Src: "json", Key: "level", Kind: reflect.Uint8, Opt: optDep, Dep: "mode", Rng: rg(1, 3, true, true, true, true)},
		{GoName: "Mode", Src: "json", Key: "mode", Kind: reflect.String, Opt: optPlain, Options: []string{"fast", "slow"}, OptBrk: true},
		{GoName: "Alt", Src: "json", Key: "alt", Kind: reflect.Float64, Opt: optNotDep, Dep: "level", Rng: rg(0, 1, true, true, false, false)},
		{GoName: "M", Src: "json", Key: "m", Kind: reflect.Map, Opt: optPlain, Elem: &fieldD{Kind: reflect.Struct, Sub: hwInnerD()}},
	}}
	deepT, _ := reflect.TypeOf(HwOuter3{}).FieldByName("Deep")
	deep := &structD{typ: deepT.Type, Fields: []*fieldD{
		{GoName: "HwBase", Src: "json", Kind: reflect.Struct, Embedded: true, NoTag: true, Sub: hwBaseD()},
		{GoName: "K", Src: "json", Key: "k", Kind: reflect.Int8, HasDef: true, Def: "7", Rng: rg(-8, 8, true, true, true, true)},
	}}
	o3 := &structD{typ: reflect.TypeOf(HwOuter3{}), Fields: []*fieldD{
		{GoName: "List", Src: "json", Key: "list", Kind: reflect.Slice, Elem: &fieldD{Kind: reflect.Struct, Sub: hwInnerD()}},
		{GoName: "Deep", Src: "json", Key: "deep", Kind: reflect.Struct, Opt: optPlain, Sub: deep},
		{GoName: "Flag", Src: "json", Key: "flag", Kind: reflect.Bool, Ptr: 1, Opt: optPlain, FromStr: true},
	}}
	return []*structD{o1, o2, o3}
}

func (h *harness) runHandWritten(t *testing.T, n int) {
	types := handWritten()
	ents := []string{"json", "yaml", "toml", "jsonreader", "jsonmap"}
	h.run(t, "handwritten", n, func(c *kit.Case) {
		r := c.R
		sd := types[c.Index%len(types)]
		e := entries[kit.Choose(r, ents)]
		for i := 0; i < 10; i++ {
			ig := &inputGen{r: r, e: e}
			tree := ig.validTree(sd, e, 0)
			if i >= 2 {
				var slots []slot
				collectSlots(sd.Fields, e.Ctx, tree, &slots)
				for p := 0; p < r.Range(1, 2); p++ {
					ig.perturb(kit.Choose(r, slots), e)
				}
			}
			h.evalEntry(c, sd, e, tree, strings.Join(ig.classes, ","))
		}
		if c.Index < 3 {
			c.Sample("handwritten", 3, map[string]any{"type": sd.describe()})
		}
	})
}

// ---------------------------------------------------------------- family: damaged documents (no panic; soundness if still parseable)

func (h *harness) runDamaged(t *testing.T, n int) {
	kit.Run(t, "C08", "damaged", n, func(c *kit.Case) {
		r := c.R
		format := kit.Choose(r, []string{"json", "json", "yaml", "toml"})
		e := entries[format]
		g := &typeGen{r: r, e: e, tagKey: "json", maxDeep: 2}
		sd := g.genStruct(0, 1, 5)
		for i := 0; i < 12; i++ {
			ig := &inputGen{r: r, e: e}
			tree := ig.validTree(sd, e, 0)
			var doc []byte
			switch format {
			case "json":
				doc = renderJSON(tree)
			case "yaml":
				doc = renderYAML(tree)
			default:
				doc = renderTOML(tree)
			}
			doc = damage(r, doc)
			target := reflect.New(sd.goType())
			record := func() string {
				return fmt.Sprintf("case=%s entry=%s-damaged type=%s input=%q", c.ID, format, sd.describe(), doc)
			}
			err, pan := h.fc.guard(record, func() error {
				switch format {
				case "json":
					return mapping.UnmarshalJsonBytes(doc, target.Interface())
				case "yaml":
					return mapping.UnmarshalYamlBytes(doc, target.Interface())
				}
				return mapping.UnmarshalTomlBytes(doc, target.Interface())
			})
			c.Evals(1)
			kit.Obs("calls", 1)
			kit.Obs("calls_damaged_"+format, 1)
			if pan != nil {
				kit.Obs("panics", 1)
				c.Viol(pan.key(), "the unmarshaller panicked on a damaged document: "+pan.Msg,
					map[string]any{"type": sd.describe(), "entry": format, "input": string(doc), "panic": pan.Msg, "stack": pan.Stack})
				continue
			}
			if err != nil {
				kit.Obs("rejected", 1)
				c.Sig(false, "damaged", format, "rej", errClass(err))
				continue
			}
			kit.Obs("accepted", 1)
			// accepted: if the damaged text is still a JSON object, the soundness clauses apply to it
			nontrivial := false
			if format == "json" {
				var m map[string]any
				dec := json.NewDecoder(bytes.NewReader(doc))
				dec.UseNumber()
				if dec.Decode(&m) == nil && m != nil && !dec.More() {
					ss := oneSource(e, m)
					ref := reference(sd, ss)
					nontrivial = ref.nontrivial()
					w := map[string]any{"type": sd.describe(), "entry": "json(damaged)", "input": string(doc), "target": fmt.Sprintf("%+v", target.Elem().Interface())}
					for _, m := range ref.must {
						c.Viol("C08/"+m.Kind+"/"+m.Class, fmt.Sprintf("accepted although %s: %s", m.Path, m.What), w)
					}
					cmp := compareTarget(sd, target.Elem(), ss)
					for _, mm := range cmp.out {
						c.Viol("C08/target-mismatch/"+mm.Class+"/"+mm.Kind, fmt.Sprintf("%s: %s", mm.Path, mm.What), w)
					}
					kit.Obs("damaged_accepted_and_checked", 1)
				}
			}
			c.Sig(nontrivial, "damaged", format, "acc", sd.shape(), len(doc))
		}
	})
}

func damage(r *kit.Rand, doc []byte) []byte {
	d := append([]byte(nil), doc...)
	for k := 0; k < r.Range(1, 3); k++ {
		if len(d) == 0 {
			return []byte(kit.Choose(r, []string{"", "null", "[]", "0", "\"\"", "{", "}", "[1]", "true"}))
		}
		switch r.Pick(3, 3, 2, 2, 2, 1) {
		case 0: // truncate
			d = d[:r.Intn(len(d)+1)]
		case 1: // replace a byte by a structural / odd one
			d[r.Intn(len(d))] = kit.Choose(r, []byte{'{', '}', '[', ']', ',', ':', '"', '\\', '-', '.', 'e', '0', '9', ' ', '\n', 0, 0xff, '#', '=', '\t'})
		case 2: // delete a byte
			i := r.Intn(len(d))
			d = append(d[:i], d[i+1:]...)
		case 3: // duplicate a span
			i := r.Intn(len(d))
			j := i + r.Intn(len(d)-i)
			d = append(d[:j], append(append([]byte(nil), d[i:j]...), d[j:]...)...)
		case 4: // replace a number-like byte sequence by a huge / odd number
			i := r.Intn(len(d))
			ins := kit.Choose(r, []string{"1e999", "-0", "99999999999999999999999", "0.0000000000000000000000001", "null", "true", "[]", "{}", "\"\"", "1e-999", "-"})
			d = append(d[:i], append([]byte(ins), d[i:]...)...)
		default: // whole-document replacements
			d = []byte(kit.Choose(r, []string{"", "null", "[]", "0", "\"x\"", "{", "[[[[[[[[", "{\"a\":{\"a\":{\"a\":{\"a\":{}}}}}", "true", " "}))
		}
	}
	return d
}

// ---------------------------------------------------------------- test

func TestVerifC08(t *testing.T) {
	logx.Disable()
	h := &harness{fc: newFence()}
	defer h.fc.close()
	// debugging aid (never set by the driver): C08_FAMILIES=nulls,reparse runs only these groups
	only := map[string]bool{}
	for _, f := range strings.Split(os.Getenv("C08_FAMILIES"), ",") {
		if f != "" {
			only[f] = true
		}
	}
	group := func(name string, fn func()) {
		if len(only) == 0 || only[name] {
			fn()
		}
	}
	group("exh", func() { h.runExhaustive(t) })
	group("shapes", func() { h.runShapes(t) })
	group("isolation", func() { h.runIsolation(t) })
	group("xum", func() { h.runXum(t, kit.N(320, 6000)) })
	group("handwritten", func() { h.runHandWritten(t, kit.N(900, 10000)) })
	group("random", func() { h.runRandom(t, kit.N(10000, 250000)) })
	group("http", func() { h.runHTTP(t, kit.N(4000, 60000)) })
	group("damaged", func() { h.runDamaged(t, kit.N(2500, 30000)) })
	group("numshapes", func() { h.runNumShapes(t) })
	group("sepvals", func() { h.runSepVals(t) })
	group("inherit", func() { h.runInherit(t, kit.N(1500, 30000)) })
	group("httpwire", func() { h.runHTTPWire(t, kit.N(2500, 40000)) })
	group("confload", func() { h.runConfLoad(t, kit.N(1200, 20000)) })
	group("badtags", func() { h.runBadTags(t) })
	group("damaged-entries", func() { h.runDamagedEntries(t, kit.N(1400, 20000)) })
	group("toplevel", func() { h.runTopLevel(t, kit.N(900, 15000)) })
	group("nulls", func() { h.runNulls(t); h.runNullsComposite(t) })
	group("reparse", func() { h.runReparse(t, kit.N(1200, 24000)) })
	kit.Obs("inputs_written_to_disk_before_the_call", h.fc.writes)
	kit.End()
}
