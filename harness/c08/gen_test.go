package c08

import (
	"encoding/json"
	"fmt"
	"math"
	"math/big"
	"reflect"
	"strconv"
	"strings"

	"verifharness/kit"
)

// ---------------------------------------------------------------- value classes

type vclass int

const (
	vcAbsent vclass = iota
	vcNull
	vcValid
	vcBelowLo // nearest value of the kind below the lower bound
	vcAtLo
	vcAboveLo
	vcBelowHi
	vcAtHi
	vcAboveHi
	vcFar        // far outside the range
	vcOptOut     // not one of the options (inside the range if there is one)
	vcOptOutRng  // one of the options, but outside the range
	vcWrongStr   // a non-numeric string / a string for a bool
	vcWrongBool  // a JSON bool for a non-bool
	vcCross      // number where a string is expected and vice versa (numeric string)
	vcNonCanon   // same value in a non-canonical spelling (+5, 05, 5.0, 1e0, TRUE)
	vcOverflow   // beyond the kind's representable interval
	vcNegative   // negative for unsigned
	vcFraction   // 1.5 for an integer kind
	vcEmptyStr   // ""
	vcObject     // {} / {"x":1} for a scalar
	vcArray      // [v] for a scalar
	vcKindEdge   // the kind's own minimum / maximum
	vcEmptyList  // an empty or nil value list where the unmarshaler takes the first of several values (WithFromArray)
	vcSepValue   // a text with list separators, quotes or blanks around/inside it (string-valued sources and string fields)
	vcNumClasses // sentinel
)

var vclassNames = [...]string{"absent", "null", "valid", "below-lo", "at-lo", "above-lo", "below-hi", "at-hi", "above-hi", "far",
	"opt-out", "opt-in-out-of-range", "wrong-string", "wrong-bool", "cross-type", "non-canonical", "overflow", "negative", "fraction",
	"empty-string", "object", "array", "kind-edge", "empty-list", "separators-in-value"}

func (c vclass) String() string { return vclassNames[c] }

// perturbations tried by the random families (absent/null/valid are handled separately)
var perturbClasses = []vclass{vcBelowLo, vcAtLo, vcAboveLo, vcBelowHi, vcAtHi, vcAboveHi, vcFar, vcOptOut, vcOptOutRng,
	vcWrongStr, vcWrongBool, vcCross, vcNonCanon, vcOverflow, vcNegative, vcFraction, vcEmptyStr, vcObject, vcArray, vcKindEdge, vcEmptyList, vcSepValue}

func kindMin(k reflect.Kind) *big.Int {
	lo, _ := intBounds(k)
	return big.NewInt(lo)
}

func kindMax(k reflect.Kind) *big.Int {
	_, hi := intBounds(k)
	return new(big.Int).SetUint64(hi)
}

func fitsKind(k reflect.Kind, v *big.Int) bool {
	return v.Cmp(kindMin(k)) >= 0 && v.Cmp(kindMax(k)) <= 0
}

func floatText(v float64, k reflect.Kind) string {
	return strconv.FormatFloat(v, 'g', -1, bitsOf(k))
}

func nextUp(v float64, k reflect.Kind) float64 {
	if k == reflect.Float32 {
		return float64(math.Nextafter32(float32(v), float32(math.Inf(1))))
	}
	return math.Nextafter(v, math.Inf(1))
}

func nextDown(v float64, k reflect.Kind) float64 {
	if k == reflect.Float32 {
		return float64(math.Nextafter32(float32(v), float32(math.Inf(-1))))
	}
	return math.Nextafter(v, math.Inf(-1))
}

// numLeaf wraps the text of a number the way the entry's context delivers it.
func numLeaf(f *fieldD, e *entry, text string) (any, bool) {
	if e.Ctx.AllFromString || f.FromStr {
		return text, true
	}
	if e.Ctx.Native {
		want, ok := interpret(f.Kind, json.Number(text))
		if !ok {
			return nil, false
		}
		rv := reflect.New(primTypes[f.Kind]).Elem()
		switch w := want.(type) {
		case int64:
			rv.SetInt(w)
		case uint64:
			rv.SetUint(w)
		case float64:
			rv.SetFloat(w)
		}
		return rv.Interface(), true
	}
	return json.Number(text), true
}

func strLeaf(s string) (any, bool) { return s, true }

func token(r *kit.Rand) string {
	n := r.Range(1, 6)
	b := make([]byte, n)
	for i := range b {
		b[i] = byte('a' + r.Intn(26))
	}
	return string(b)
}

// intCandidates: integers the kind can hold that satisfy the range (small search window).
func validInt(f *fieldD, r *kit.Rand) (*big.Int, bool) {
	lo, hi := kindMin(f.Kind), kindMax(f.Kind)
	if f.Rng == nil {
		switch r.Pick(6, 1, 1) {
		case 1:
			return lo, true
		case 2:
			return hi, true
		}
		v := int64(r.Range(-50, 200))
		if isUint(f.Kind) && v < 0 {
			v = -v
		}
		if bitsOf(f.Kind) == 8 && v > 127 {
			v %= 128
		}
		return big.NewInt(v), true
	}
	a, b := int64(-1000), int64(1000)
	if f.Rng.HasL {
		a = int64(math.Ceil(f.Rng.L))
	}
	if f.Rng.HasR {
		b = int64(math.Floor(f.Rng.R))
	}
	if !f.Rng.HasL && f.Rng.HasR {
		a = b - 1000
	}
	if f.Rng.HasL && !f.Rng.HasR {
		b = a + 1000
	}
	if big.NewInt(a).Cmp(lo) < 0 {
		a = lo.Int64()
	}
	if big.NewInt(b).Cmp(hi) > 0 {
		b = hi.Int64()
	}
	for try := 0; try < 8; try++ {
		if a > b {
			return nil, false
		}
		var v int64
		switch try {
		case 0, 1, 2:
			span := b - a
			if span > 40 && try > 0 {
				span = 40
			}
			v = a + r.Int63n(span+1)
		case 3:
			v = a
		case 4:
			v = b
		case 5:
			v = a + 1
		case 6:
			v = b - 1
		default:
			v = (a + b) / 2
		}
		if v >= a && v <= b && f.Rng.contains(float64(v)) {
			return big.NewInt(v), true
		}
	}
	return nil, false
}

func validFloat(f *fieldD, r *kit.Rand) (float64, bool) {
	k := f.Kind
	if f.Rng == nil {
		v := float64(r.Range(-4000, 4000)) / 8
		switch r.Pick(75, 15, 10) {
		case 1:
			v = float64(r.Range(-1000000, 1000000)) * 1.0009765625
			if k == reflect.Float32 {
				v = float64(float32(v))
			}
		case 2:
			// few significant digits, large or tiny magnitude (the shortest text of the value is in
			// exponent notation): 2e+06, 3e-07, 1.5e+10
			v = magnitudeFloat(r, k)
		}
		return v, true
	}
	a, b := -1000.0, 1000.0
	if f.Rng.HasL {
		a = f.Rng.L
	}
	if f.Rng.HasR {
		b = f.Rng.R
	}
	if !f.Rng.HasL && f.Rng.HasR {
		a = b - 1000
	}
	if f.Rng.HasL && !f.Rng.HasR {
		b = a + 1000
	}
	for try := 0; try < 8; try++ {
		var v float64
		switch try {
		case 0, 1:
			v = a + math.Round((b-a)*r.Float64()*8)/8
		case 2:
			v = a
		case 3:
			v = b
		case 4:
			v = nextUp(a, k)
		case 5:
			v = nextDown(b, k)
		default:
			v = (a + b) / 2
		}
		if k == reflect.Float32 {
			v = float64(float32(v))
		}
		if f.Rng.contains(v) {
			return v, true
		}
	}
	return 0, false
}

// magnitudeFloat: d x 10^e (d of one or two significant digits) as the nearest value of the kind.
func magnitudeFloat(r *kit.Rand, k reflect.Kind) float64 {
	d := strconv.Itoa(r.Range(1, 9))
	if r.Chance(0.3) {
		d += "." + strconv.Itoa(r.Range(1, 9))
	}
	if r.Bool() {
		d = "-" + d
	}
	exp := r.Range(6, 30)
	if r.Bool() {
		exp = -r.Range(5, 30)
	}
	v, _ := strconv.ParseFloat(d+"e"+strconv.Itoa(exp), bitsOf(k))
	return v
}

// sepTexts: realistic header / parameter texts with separators in them.
var sepTexts = []string{"Wed, 21 Oct 2015 07:28:00 GMT", "Mozilla/5.0 (X11; Linux) AppleWebKit/537.36 (KHTML, like Gecko)", "gzip, deflate, br",
	"text/html,application/xml;q=0.9,*/*;q=0.8", "a,b", "a, b", ",", "a,", ",a", "a,,b", "a;b", "a|b", `"a,b"`, `a,"b,c"`, " a", "a ", " a , b ",
	"a\tb", "k=v&x=y", "%2C", "[1,2]", `{"a":1}`, "1,2", "1.5,2.5", "true,false", "null", "ü,ñ", "a\\,b", "'a','b'"}

// sepValue: a supplied text with list separators, quotes or blanks in or around it. For a string
// field it is an ordinary value (it must arrive verbatim; with options it is one of them only if
// the whole text is), for the other kinds it is not a value of the kind at all.
func sepValue(f *fieldD, e *entry, r *kit.Rand) any {
	k := f.Kind
	part := func(valid bool) string {
		cls := vcValid
		if !valid && isNumeric(k) && f.Rng != nil {
			cls = vcFar
		}
		if !valid && len(f.Options) > 0 {
			cls = vcOptOut
		}
		plain := &fieldD{Kind: k, Rng: f.Rng, Options: f.Options}
		leaf, ok := genLeaf(plain, cls, entries["strvals"], r)
		if !ok {
			leaf, ok = genLeaf(&fieldD{Kind: k}, vcValid, entries["strvals"], r)
		}
		if s, isStr := leaf.(string); ok && isStr && s != "" {
			return s
		}
		return "7"
	}
	a, b := part(true), part(r.Bool())
	var text string
	switch r.Pick(5, 3, 2, 2, 1, 1, 1, 1, 1, 1, 1, 1, 1, 3) {
	case 0:
		text = a + "," + b
	case 1:
		text = a + ", " + b
	case 2:
		text = a + ";" + b
	case 3:
		text = a + " " + b
	case 4:
		text = " " + a
	case 5:
		text = a + " "
	case 6:
		text = `"` + a + `"`
	case 7:
		text = a + ","
	case 8:
		text = "," + a
	case 9:
		text = a + ",," + b
	case 10:
		text = a + "\t"
	case 11:
		text = a + "|" + b
	case 12:
		text = a + "," + b + "," + a
	default:
		if k == reflect.String {
			text = kit.Choose(r, sepTexts)
		} else {
			text = a + "," + b
		}
	}
	if e.Ctx.FromArray && r.Chance(0.2) {
		// several values, the first of them with separators
		return []any{text, a}
	}
	return text
}

func optionsInRange(f *fieldD, in bool) []string {
	var out []string
	for _, o := range f.Options {
		ok := true
		if f.Rng != nil && isNumeric(f.Kind) {
			x, err := strconv.ParseFloat(o, 64)
			ok = err == nil && f.Rng.contains(x)
		}
		if ok == in {
			out = append(out, o)
		}
	}
	return out
}

// genLeaf produces a leaf of the requested class for a scalar field; ok=false if the class
// does not apply to this field in this entry.
func genLeaf(f *fieldD, cls vclass, e *entry, r *kit.Rand) (any, bool) {
	k := f.Kind
	ctx := e.Ctx
	fromStr := ctx.AllFromString || f.FromStr
	stringOnly := ctx.AllFromString && ctx.Name != "strvals"
	hasOpts := len(f.Options) > 0 && (isInt(k) || isUint(k) || k == reflect.String)
	switch cls {
	case vcNull:
		if e.NoNull {
			return nil, false
		}
		return nil, true
	case vcValid:
		if hasOpts {
			in := optionsInRange(f, true)
			if len(in) == 0 {
				return nil, false
			}
			o := kit.Choose(r, in)
			if k == reflect.String {
				return strLeaf(o)
			}
			if !canonicalInt(o, k) {
				return nil, false
			}
			return numLeaf(f, e, o)
		}
		switch {
		case isInt(k) || isUint(k):
			v, ok := validInt(f, r)
			if !ok || (e.Int63 && !v.IsInt64()) {
				return nil, false
			}
			return numLeaf(f, e, v.String())
		case isFloat(k):
			v, ok := validFloat(f, r)
			if !ok {
				return nil, false
			}
			return numLeaf(f, e, floatText(v, k))
		case k == reflect.Bool:
			b := r.Bool()
			if fromStr {
				return strLeaf(strconv.FormatBool(b))
			}
			return b, true
		default:
			return strLeaf(token(r))
		}
	case vcBelowLo, vcAtLo, vcAboveLo, vcBelowHi, vcAtHi, vcAboveHi, vcFar:
		if f.Rng == nil || !isNumeric(k) {
			return nil, false
		}
		var bound float64
		switch cls {
		case vcBelowLo, vcAtLo, vcAboveLo:
			if !f.Rng.HasL {
				return nil, false
			}
			bound = f.Rng.L
		case vcBelowHi, vcAtHi, vcAboveHi:
			if !f.Rng.HasR {
				return nil, false
			}
			bound = f.Rng.R
		}
		if isFloat(k) {
			var v float64
			switch cls {
			case vcAtLo, vcAtHi:
				v = bound
			case vcBelowLo, vcBelowHi:
				v = nextDown(bound, k)
			case vcAboveLo, vcAboveHi:
				v = nextUp(bound, k)
			default:
				if f.Rng.HasR {
					v = f.Rng.R + 1000.5
				} else {
					v = f.Rng.L - 1000.5
				}
			}
			if k == reflect.Float32 && float64(float32(v)) != v {
				v = float64(float32(v))
			}
			return numLeaf(f, e, floatText(v, k))
		}
		var v int64
		switch cls {
		case vcAtLo, vcAtHi:
			if bound != math.Trunc(bound) {
				return nil, false
			}
			v = int64(bound)
		case vcBelowLo, vcBelowHi:
			v = int64(math.Ceil(bound)) - 1
		case vcAboveLo, vcAboveHi:
			v = int64(math.Floor(bound)) + 1
		default:
			if f.Rng.HasR {
				v = int64(f.Rng.R) + 100
			} else {
				v = int64(f.Rng.L) - 100
			}
		}
		if ctx.Native && !fitsKind(k, big.NewInt(v)) {
			return nil, false
		}
		return numLeaf(f, e, strconv.FormatInt(v, 10))
	case vcOptOut:
		if !hasOpts {
			return nil, false
		}
		if k == reflect.String {
			for i := 0; i < 4; i++ {
				t := token(r) + "z"
				if !containsStr(f.Options, t) {
					return strLeaf(t)
				}
			}
			return nil, false
		}
		// an integer the kind holds, inside the range, not among the options
		for i := 0; i < 6; i++ {
			v, ok := validInt(f, r)
			if !ok {
				break
			}
			if !containsStr(f.Options, v.String()) && !(e.Int63 && !v.IsInt64()) {
				return numLeaf(f, e, v.String())
			}
		}
		return nil, false
	case vcOptOutRng:
		if !hasOpts || f.Rng == nil || k == reflect.String {
			return nil, false
		}
		out := optionsInRange(f, false)
		if len(out) == 0 {
			return nil, false
		}
		o := kit.Choose(r, out)
		if ctx.Native {
			if _, ok := interpret(k, json.Number(o)); !ok {
				return nil, false
			}
		}
		return numLeaf(f, e, o)
	case vcWrongStr:
		if k == reflect.String {
			return nil, false
		}
		return strLeaf(kit.Choose(r, []string{"abc", "x1", "1x", "true1", "--1", "0x", "NaN", "Inf", "1_000", " 1", "1 "}))
	case vcWrongBool:
		if k == reflect.Bool || stringOnly {
			return nil, false
		}
		return r.Bool(), true
	case vcCross:
		// numeric kinds: the number as a string where a number is expected, or a bare number
		// where a string is expected; strings: a number; bools: 1/0
		if stringOnly {
			return nil, false
		}
		switch {
		case isNumeric(k):
			var text string
			if isFloat(k) {
				v, ok := validFloat(f, r)
				if !ok {
					return nil, false
				}
				text = floatText(v, k)
			} else {
				v, ok := validInt(f, r)
				if !ok || (e.Int63 && !v.IsInt64()) {
					return nil, false
				}
				text = v.String()
			}
			if fromStr {
				return json.Number(text), true
			}
			return text, true
		case k == reflect.String:
			return json.Number(strconv.Itoa(r.Range(0, 99))), true
		default:
			return json.Number(strconv.Itoa(r.Intn(2))), true
		}
	case vcNonCanon:
		if e.Canonical || ctx.Native {
			return nil, false
		}
		switch {
		case isInt(k) || isUint(k):
			v, ok := validInt(f, r)
			if !ok || v.Sign() < 0 {
				return nil, false
			}
			forms := []string{v.String() + ".0", v.String() + "e0", "-0"}
			if fromStr {
				forms = append(forms, "+"+v.String(), "0"+v.String(), "00"+v.String())
			}
			return numLeaf(f, e, kit.Choose(r, forms))
		case isFloat(k):
			v, ok := validFloat(f, r)
			if !ok {
				return nil, false
			}
			t := strconv.FormatFloat(v, 'e', -1, bitsOf(k))
			forms := []string{t, strconv.FormatFloat(v, 'E', -1, bitsOf(k)), strconv.FormatFloat(v, 'f', 3, 64)}
			if fromStr {
				forms = append(forms, "+"+floatText(v, k), "0"+strconv.FormatFloat(math.Abs(v), 'f', -1, bitsOf(k)))
			}
			return numLeaf(f, e, kit.Choose(r, forms))
		case k == reflect.Bool:
			if !fromStr {
				return nil, false
			}
			return strLeaf(kit.Choose(r, []string{"TRUE", "False", "1", "0", "True", "tRuE"}))
		}
		return nil, false
	case vcOverflow:
		if ctx.Native || !isNumeric(k) {
			return nil, false
		}
		if isFloat(k) {
			if k == reflect.Float32 {
				return numLeaf(f, e, kit.Choose(r, []string{"3.5e38", "-3.5e38", "1e39"}))
			}
			if e.Canonical {
				return nil, false
			}
			return numLeaf(f, e, kit.Choose(r, []string{"1e309", "-1e309", "1e400"}))
		}
		var v *big.Int
		if r.Bool() && isInt(k) {
			v = new(big.Int).Sub(kindMin(k), big.NewInt(1))
		} else {
			v = new(big.Int).Add(kindMax(k), big.NewInt(1))
		}
		if e.Int63 && !v.IsInt64() {
			return nil, false
		}
		if e.Canonical && !v.IsInt64() && !v.IsUint64() {
			return nil, false
		}
		return numLeaf(f, e, v.String())
	case vcNegative:
		if !isUint(k) || ctx.Native {
			return nil, false
		}
		return numLeaf(f, e, strconv.Itoa(-r.Range(1, 9)))
	case vcFraction:
		if !(isInt(k) || isUint(k)) || ctx.Native {
			return nil, false
		}
		return numLeaf(f, e, kit.Choose(r, []string{"1.5", "2.25", "0.5", "3.75"}))
	case vcEmptyStr:
		if ctx.AllFromString && ctx.Name != "strvals" {
			return nil, false // httpx drops empty form values; an empty header/path value is not "supplied" either way
		}
		return strLeaf("")
	case vcObject:
		if stringOnly {
			return nil, false
		}
		if r.Bool() {
			return map[string]any{}, true
		}
		return map[string]any{"x": json.Number("1")}, true
	case vcArray:
		if stringOnly && !ctx.FromArray {
			return nil, false
		}
		v, ok := genLeaf(f, vcValid, e, r)
		if !ok {
			return nil, false
		}
		if r.Chance(0.3) {
			v2, _ := genLeaf(f, vcValid, e, r)
			return []any{v, v2}, true
		}
		return []any{v}, true
	case vcEmptyList:
		if !ctx.FromArray {
			return nil, false
		}
		return emptyList(r), true
	case vcSepValue:
		if ctx.Native || !(ctx.AllFromString || k == reflect.String) {
			return nil, false
		}
		return sepValue(f, e, r), true
	case vcKindEdge:
		if !(isInt(k) || isUint(k)) {
			return nil, false
		}
		v := kindMax(k)
		if r.Bool() {
			v = kindMin(k)
		}
		if e.Int63 && !v.IsInt64() {
			return nil, false
		}
		return numLeaf(f, e, v.String())
	}
	return nil, false
}

// emptyList: a key that is present without any value - legal in an http.Header / url.Values
// (plain maps of string lists) and in a decoded document.
func emptyList(r *kit.Rand) any {
	kit.Obs("empty_value_lists_generated", 1)
	switch r.Intn(4) {
	case 0:
		return []string{}
	case 1:
		return []string(nil)
	case 2:
		return []any(nil)
	}
	return []any{}
}

// ---------------------------------------------------------------- type generation

type typeGen struct {
	r        *kit.Rand
	e        *entry
	tagKey   string
	nextKey  int
	http     bool
	maxDeep  int
	inOptEmb bool // generating the members of an optional embedded struct: plain members only
	noIgnore bool // no `-` keys (core/conf refuses a struct with two of them as a key conflict)
}

func (g *typeGen) newKey() string {
	g.nextKey++
	i := g.nextKey
	switch g.tagKey {
	case "header":
		return kit.Choose(g.r, []string{"x-h", "X-Hd-", "h"}) + strconv.Itoa(i)
	}
	if g.e != nil && g.e.Ctx.Canon != nil {
		return kit.Choose(g.r, []string{"Kf", "kF", "K"}) + strconv.Itoa(i)
	}
	return kit.Choose(g.r, []string{"k", "f_", "a"}) + strconv.Itoa(i)
}

func genRange(r *kit.Rand, k reflect.Kind) *rangeD {
	rg := &rangeD{LInc: r.Bool(), RInc: r.Bool()}
	switch r.Pick(6, 2, 2) {
	case 0:
		rg.HasL, rg.HasR = true, true
	case 1:
		rg.HasL = true
	default:
		rg.HasR = true
	}
	if isFloat(k) || r.Chance(0.12) {
		rg.L = float64(r.Range(-80, 160)) / 4
		rg.R = rg.L + float64(r.Range(0, 120))/4
	} else {
		lo := -20
		if isUint(k) && r.Chance(0.85) {
			lo = 0
		}
		rg.L = float64(r.Range(lo, 60))
		rg.R = rg.L + float64(r.Range(0, 60))
	}
	if rg.HasL && rg.HasR && rg.L == rg.R {
		rg.LInc, rg.RInc = true, true // [2:2] is the only legal form
	}
	return rg
}

func genOptions(r *kit.Rand, f *fieldD) {
	n := r.Range(1, 4)
	seen := map[string]bool{}
	for i := 0; i < n; i++ {
		var o string
		if f.Kind == reflect.String {
			o = token(r)
		} else {
			// mostly inside the range (if any), sometimes outside
			if f.Rng != nil && r.Chance(0.7) {
				if v, ok := validInt(f, r); ok {
					o = v.String()
				}
			}
			if o == "" {
				v := r.Range(-9, 120)
				if isUint(f.Kind) && v < 0 {
					v = -v
				}
				o = strconv.Itoa(v)
			}
		}
		if !seen[o] {
			seen[o] = true
			f.Options = append(f.Options, o)
		}
	}
	f.OptBrk = r.Bool()
}

func genDefault(r *kit.Rand, f *fieldD) {
	k := f.Kind
	e := entries["json"]
	plain := &fieldD{Kind: k, Rng: f.Rng, Options: f.Options}
	cls := vcValid
	if f.Rng != nil && r.Chance(0.4) {
		cls = vcFar // defaults are not range-checked by go-zero nor by the oracle
		plain.Options = nil
	}
	leaf, ok := genLeaf(plain, cls, e, r)
	if !ok {
		plain.Options, plain.Rng = nil, nil
		leaf, ok = genLeaf(plain, vcValid, e, r)
		if !ok {
			return
		}
	}
	var text string
	switch x := leaf.(type) {
	case json.Number:
		text = string(x)
	case string:
		text = x
	case bool:
		text = strconv.FormatBool(x)
	}
	if text == "" {
		return
	}
	if _, ok := interpret(k, text); !ok {
		return // a default the kind cannot hold makes every absent input fail; not generated
	}
	f.HasDef, f.Def = true, text
}

// genSliceDefault gives a slice-of-scalars field a default=[a,b,c] option.
func genSliceDefault(r *kit.Rand, f *fieldD) {
	k := f.Elem.Kind
	n := r.Range(1, 4)
	elems := make([]string, 0, n)
	for i := 0; i < n; i++ {
		switch {
		case k == reflect.String:
			elems = append(elems, "d"+token(r)) // never a literal of another kind
		case k == reflect.Bool:
			elems = append(elems, strconv.FormatBool(r.Bool()))
		case isFloat(k):
			elems = append(elems, floatText(float64(r.Range(-400, 400))/8, k))
		case isUint(k) || bitsOf(k) == 8:
			elems = append(elems, strconv.Itoa(r.Range(0, 120)))
		default:
			elems = append(elems, strconv.Itoa(r.Range(-99, 999)))
		}
	}
	f.HasDef, f.DefList, f.Def = true, elems, "["+strings.Join(elems, ",")+"]"
}

// decorate adds tag options to a scalar field.
func (g *typeGen) decorate(f *fieldD, siblings []string) {
	r := g.r
	k := f.Kind
	switch r.Pick(35, 30, 18, 17) {
	case 1:
		f.Opt = optPlain
	case 2:
		f.Opt = optDep
	case 3:
		f.Opt = optNotDep
	}
	if f.Opt == optDep || f.Opt == optNotDep {
		if len(siblings) == 0 || r.Chance(0.08) {
			f.Dep = "nokey" + strconv.Itoa(r.Intn(3))
			if g.tagKey == "header" {
				f.Dep = "x-" + f.Dep
			}
		} else {
			f.Dep = kit.Choose(r, siblings)
		}
	}
	if f.scalar() {
		if isNumeric(k) && r.Chance(0.5) {
			f.Rng = genRange(r, k)
		} else if !isNumeric(k) && r.Chance(0.02) {
			f.Rng = genRange(r, reflect.Int)
		}
		if (isInt(k) || isUint(k) || k == reflect.String) && r.Chance(0.3) {
			genOptions(r, f)
		} else if (k == reflect.Bool || isFloat(k)) && r.Chance(0.02) {
			f.Options = []string{"true", "1.5"}
		}
		if r.Chance(0.3) {
			genDefault(r, f)
		}
		if r.Chance(0.12) {
			f.FromStr = true
		}
	}
	f.Shuffle = r.Uint64() | 1
}

func (g *typeGen) scalarKind() reflect.Kind {
	r := g.r
	switch r.Pick(30, 15, 15, 25, 15) {
	case 0:
		return reflect.Int
	case 1:
		return kit.Choose(r, []reflect.Kind{reflect.Int8, reflect.Int16, reflect.Int32, reflect.Int64})
	case 2:
		return kit.Choose(r, []reflect.Kind{reflect.Uint, reflect.Uint8, reflect.Uint16, reflect.Uint32, reflect.Uint64})
	case 3:
		return kit.Choose(r, []reflect.Kind{reflect.String, reflect.String, reflect.Bool})
	}
	return kit.Choose(r, []reflect.Kind{reflect.Float32, reflect.Float64})
}

// genStruct builds a random struct descriptor. keys collects every key visible at this
// level (embedded members share the level's namespace).
func (g *typeGen) genStruct(depth int, nmin, nmax int) *structD {
	r := g.r
	n := r.Range(nmin, nmax)
	sd := &structD{}
	var level []string // keys at this level, for dependencies
	var fields []*fieldD
	for i := 0; i < n; i++ {
		f := &fieldD{GoName: fmt.Sprintf("F%d", g.nextKey+1), Src: g.tagKey}
		f.Key = g.newKey()
		compositeOK := depth < g.maxDeep
		noMaps := g.e != nil && g.e.NoMaps
		noLists := g.e != nil && g.e.NoLists
		if g.http && g.tagKey != "json" {
			noMaps = true
			noLists = g.tagKey == "path"
			compositeOK = false
		}
		switch c := r.Pick(70, 8, 6, 11, 5); {
		case c == 1 && !noLists:
			f.Kind = reflect.Slice
			f.Elem = &fieldD{Kind: g.scalarKind()}
			if compositeOK && !noMaps && r.Chance(0.2) {
				f.Elem = &fieldD{Kind: reflect.Struct, Sub: g.genStruct(depth+1, 1, 3), Ptr: r.Pick(3, 1)}
				// containers nested directly in the list: [][]T, [][]*T, []map[string]T
				switch r.Pick(6, 2, 1) {
				case 1:
					f.Elem = &fieldD{Kind: reflect.Slice, Elem: f.Elem}
				case 2:
					f.Elem.Ptr = 0
					f.Elem = &fieldD{Kind: reflect.Map, Elem: f.Elem}
				}
			} else if r.Chance(0.15) {
				f.Elem.Ptr = 1
			}
		case c == 2 && !noMaps:
			f.Kind = reflect.Map
			f.Elem = &fieldD{Kind: g.scalarKind()}
			if compositeOK && r.Chance(0.2) {
				f.Elem = &fieldD{Kind: reflect.Struct, Sub: g.genStruct(depth+1, 1, 3)}
				if r.Chance(0.25) { // map[string][]T
					f.Elem = &fieldD{Kind: reflect.Slice, Elem: f.Elem}
				}
			} else if r.Chance(0.1) {
				f.Elem = &fieldD{Kind: reflect.Slice, Elem: &fieldD{Kind: g.scalarKind()}}
			}
		case c == 3 && compositeOK && !noMaps:
			f.Kind = reflect.Struct
			f.Sub = g.genStruct(depth+1, 1, 4)
			f.Ptr = r.Pick(3, 1)
		case c == 4 && compositeOK && !noMaps && !g.inOptEmb:
			f.Kind = reflect.Struct
			f.Embedded = true
			if r.Chance(0.3) {
				f.Opt = optPlain
				g.inOptEmb = true
			}
			f.Sub = g.genStruct(depth+1, 1, 3)
			g.inOptEmb = false
			f.Ptr = r.Pick(3, 1)
			f.GoName = fmt.Sprintf("E%d", g.nextKey)
		default:
			f.Kind = g.scalarKind()
			f.Ptr = r.Pick(16, 3, 1)
		}
		fields = append(fields, f)
		if f.Embedded {
			for _, c := range f.Sub.Fields {
				if !c.Embedded {
					level = append(level, c.key())
				}
			}
		} else {
			level = append(level, f.key())
		}
	}
	for _, f := range fields {
		var sib []string
		for _, k := range level {
			if k != f.key() {
				sib = append(sib, k)
			}
		}
		switch {
		case f.Embedded:
			// untagged (required, flattened) or `,optional`
			if f.Opt == optPlain {
				f.Key = ""
			} else {
				f.NoTag = true
			}
		default:
			g.decorate(f, sib)
			if f.Kind == reflect.Slice && f.Elem.scalar() && g.r.Chance(0.3) {
				genSliceDefault(g.r, f)
			}
			single := !g.http
			if g.inOptEmb {
				break
			}
			switch c := r.Pick(88, 3, 4, 2, 3); {
			case c == 1 && single && f.Opt == optNone && !f.HasDef && f.Rng == nil && len(f.Options) == 0 && !f.FromStr:
				f.NoTag, f.Key = true, ""
			case c == 2:
				f.Key = "" // `json:",optional"`: the Go field name is the key
			case c == 3 && !g.noIgnore:
				f.Ignore, f.Key = true, "-"
			case c == 4:
				f.Src = "other"
			}
		}
	}
	sd.Fields = fields
	return sd
}

// ---------------------------------------------------------------- input generation

// fieldChoice records what the generator supplied for one field (for signatures / samples).
type inputGen struct {
	r       *kit.Rand
	e       *entry
	classes []string
}

func (ig *inputGen) note(f *fieldD, cls string) { ig.classes = append(ig.classes, f.key()+"="+cls) }

// validValue generates a correctly typed, constraint-satisfying value for f (any kind).
func (ig *inputGen) validValue(f *fieldD, e *entry, depth int) (any, bool) {
	r := ig.r
	switch f.Kind {
	case reflect.Struct:
		return ig.validTree(f.Sub, e, depth+1), true
	case reflect.Slice:
		n := r.Pick(1, 4, 3, 2)
		if e.Ctx.AllFromString && n == 0 {
			n = 1
		}
		arr := make([]any, 0, n)
		for i := 0; i < n; i++ {
			v, ok := ig.validElem(f.Elem, e, depth)
			if !ok {
				return nil, false
			}
			arr = append(arr, v)
		}
		return arr, true
	case reflect.Map:
		n := r.Pick(1, 4, 3)
		m := map[string]any{}
		for i := 0; i < n; i++ {
			v, ok := ig.validElem(f.Elem, e, depth)
			if !ok {
				return nil, false
			}
			m["m"+strconv.Itoa(i)] = v
		}
		return m, true
	}
	return genLeaf(f, vcValid, e, r)
}

func (ig *inputGen) validElem(el *fieldD, e *entry, depth int) (any, bool) {
	switch el.Kind {
	case reflect.Struct:
		return ig.validTree(el.Sub, e, depth+1), true
	case reflect.Slice:
		n := ig.r.Range(0, 2)
		arr := make([]any, 0, n)
		for i := 0; i < n; i++ {
			v, ok := ig.validElem(el.Elem, e, depth)
			if !ok {
				return nil, false
			}
			arr = append(arr, v)
		}
		return arr, true
	case reflect.Map:
		n := ig.r.Range(0, 2)
		m := map[string]any{}
		for i := 0; i < n; i++ {
			v, ok := ig.validElem(el.Elem, e, depth)
			if !ok {
				return nil, false
			}
			m["m"+strconv.Itoa(i)] = v
		}
		return m, true
	}
	plain := &fieldD{Kind: el.Kind}
	// list/map elements are never decoded through the `string` option or native kinds
	ee := e
	if e.Ctx.Native {
		ee = entries["key"]
	}
	return genLeaf(plain, vcValid, ee, ig.r)
}

// validTree generates an input that satisfies every declared constraint of sd as far as the
// generator can arrange it (dependency cycles may make that impossible; the reference decides).
func (ig *inputGen) validTree(sd *structD, e *entry, depth int) map[string]any {
	tree := map[string]any{}
	ig.fillLevel(sd.Fields, e, tree, depth)
	return tree
}

func (ig *inputGen) fillLevel(fields []*fieldD, e *entry, tree map[string]any, depth int) {
	r := ig.r
	ctx := e.Ctx
	var flat []*fieldD
	var collect func(fs []*fieldD, optionalEmb bool)
	embOptional := map[*fieldD]bool{}
	collect = func(fs []*fieldD, inOptEmb bool) {
		for _, f := range fs {
			if f.Ignore || (!f.NoTag && f.Src != ctx.TagKey) {
				continue
			}
			if f.Embedded {
				collect(f.Sub.Fields, inOptEmb || f.Opt != optNone)
				continue
			}
			flat = append(flat, f)
			if inOptEmb {
				embOptional[f] = true
			}
		}
	}
	collect(fields, false)
	present := map[string]bool{}
	decided := map[*fieldD]bool{}
	for _, f := range flat {
		if f.Opt == optDep || f.Opt == optNotDep {
			continue
		}
		p := true
		switch {
		case f.Opt == optPlain:
			p = r.Chance(0.6)
		case f.HasDef:
			p = r.Chance(0.5)
		}
		if embOptional[f] {
			p = true // keep optional embedded structs fully supplied
		}
		present[ctx.canon(f.key())] = p
		decided[f] = true
	}
	for round := 0; round < len(flat)+1; round++ {
		for _, f := range flat {
			if decided[f] {
				continue
			}
			d := present[ctx.canon(f.Dep)]
			if f.Opt == optDep {
				present[ctx.canon(f.key())] = d
			} else {
				present[ctx.canon(f.key())] = !d
			}
		}
	}
	for _, f := range flat {
		k := ctx.canon(f.key())
		if !present[k] {
			ig.note(f, "absent")
			continue
		}
		v, ok := ig.validValue(f, e, depth)
		if !ok {
			ig.note(f, "absent(no-valid-value)")
			continue
		}
		tree[k] = v
		ig.note(f, "valid")
	}
	if r.Chance(0.15) {
		if ctx.AllFromString {
			tree[ctx.canon("extra"+strconv.Itoa(r.Intn(3)))] = "7"
		} else {
			tree[ctx.canon("extra"+strconv.Itoa(r.Intn(3)))] = json.Number("7")
		}
	}
}

// flatten lists the leaves (scalar fields and composite fields) reachable for perturbation:
// each with the tree that holds its key.
type slot struct {
	f    *fieldD
	tree map[string]any
}

func collectSlots(fields []*fieldD, ctx *ctxD, tree map[string]any, out *[]slot) {
	for _, f := range fields {
		if f.Ignore || (!f.NoTag && f.Src != ctx.TagKey) {
			continue
		}
		if f.Embedded {
			collectSlots(f.Sub.Fields, ctx, tree, out)
			continue
		}
		*out = append(*out, slot{f, tree})
		if f.Kind == reflect.Struct {
			if m, ok := tree[ctx.canon(f.key())].(map[string]any); ok {
				collectSlots(f.Sub.Fields, ctx, m, out)
			}
		}
	}
}

// perturb changes the input of one field to a random class.
func (ig *inputGen) perturb(sl slot, e *entry) {
	r := ig.r
	f := sl.f
	k := e.Ctx.canon(f.key())
	switch c := r.Pick(22, 6, 10, 62); c {
	case 0:
		delete(sl.tree, k)
		ig.note(f, "->absent")
		return
	case 1:
		if !e.NoNull {
			sl.tree[k] = nil
			ig.note(f, "->null")
			return
		}
	case 2:
		if v, ok := ig.validValue(f, e, 1); ok {
			sl.tree[k] = v
			ig.note(f, "->valid")
			return
		}
	}
	if !f.scalar() {
		// composite: wrong shapes
		switch r.Pick(2, 2, 2, 2, 1) {
		case 4:
			// a text where a list / object is expected (go-zero reads it as a JSON text, or as base64
			// for []byte); the reference does not model what such a text supplies
			if !e.Ctx.Native {
				switch f.Kind {
				case reflect.Slice:
					sl.tree[k] = kit.Choose(r, []string{"AQID", "[1,2,3]", `["a","b"]`, "[]", "not-json", "[1,", "", "[null]", `[{"x":1}]`, "[1.5,true]"})
				case reflect.Map:
					sl.tree[k] = kit.Choose(r, []string{`{"m0":1}`, "{}", `{"m0":"a"}`, "not-json", `{"m0":`, "", "null", `{"m0":{"x":100}}`})
				default:
					sl.tree[k] = kit.Choose(r, []string{"{}", "x", ""})
				}
				ig.note(f, "->text-for-composite")
			}
		case 0:
			if !e.Ctx.AllFromString || e.Ctx.Name == "strvals" {
				sl.tree[k] = json.Number("5")
			} else {
				sl.tree[k] = "5"
			}
			ig.note(f, "->scalar-for-composite")
		case 1:
			if e.Ctx.FromArray && r.Bool() {
				sl.tree[k] = emptyList(r)
			} else if e.Ctx.AllFromString && e.Ctx.Name != "strvals" {
				sl.tree[k] = "[1,2]"
			} else {
				sl.tree[k] = []any{}
			}
			ig.note(f, "->empty-list")
		case 2:
			if e.Ctx.AllFromString && e.Ctx.Name != "strvals" {
				sl.tree[k] = "x"
			} else {
				sl.tree[k] = map[string]any{}
			}
			ig.note(f, "->empty-object")
		default:
			if f.Kind == reflect.Slice && f.Elem.scalar() {
				bad, ok := genLeaf(&fieldD{Kind: f.Elem.Kind}, kit.Choose(r, []vclass{vcWrongStr, vcOverflow, vcFraction, vcNegative, vcWrongBool}), e, r)
				if ok {
					sl.tree[k] = []any{bad}
					ig.note(f, "->bad-element")
				}
			}
		}
		return
	}
	for try := 0; try < 6; try++ {
		cls := kit.Choose(r, perturbClasses)
		if v, ok := genLeaf(f, cls, e, r); ok {
			sl.tree[k] = v
			ig.note(f, "->"+cls.String())
			return
		}
	}
}
