package c08

// Extensions of the C08 check (round 3), second part:
//
//   - family httpwire: httpx.Parse on requests that net/http itself parsed from their wire text
//     (header lines in any spelling of the key, repeated lines, blanks around values; the form in
//     the query string, in an urlencoded body or in a multipart body; the JSON body under the
//     Content-Type variants; path variables), all four sources on one target; the reference reads
//     what net/http delivers for a second parse of the same text. With a request validator
//     installed through httpx.SetValidator or a target that implements validation.Validator.
//   - family confload: conf.Load from files of every recognised extension, with and without
//     conf.UseEnv (placeholders of the process environment in string and number values),
//     conf.FillDefault, struct types with conflicting keys.
//   - family badtags: malformed tag options (no panic; a range no number lies in must not let a
//     supplied number through).

import (
	"bufio"
	"bytes"
	"encoding/json"
	"errors"
	"fmt"
	"mime/multipart"
	"net/http"
	"net/url"
	"os"
	"reflect"
	"sort"
	"strconv"
	"strings"
	"testing"

	"github.com/zeromicro/go-zero/core/conf"
	"github.com/zeromicro/go-zero/core/mapping"
	"github.com/zeromicro/go-zero/rest/httpx"
	"github.com/zeromicro/go-zero/rest/pathvar"

	"verifharness/kit"
)

// ---------------------------------------------------------------- family: httpwire

// HwReq is a compiled request type with all four sources that validates itself.
type HwReq struct {
	ID    int      `path:"id,range=[1:1000]"`
	Mode  string   `header:"X-Mode,options=fast|safe"`
	Trace *string  `header:"x-trace-id,optional"`
	Limit int      `form:"limit,range=[1:100],default=10"`
	Tags  []string `form:"tags,optional"`
	Name  string   `json:"name"`
	Level *uint8   `json:"level,optional,range=[0:9]"`
}

var errVfRejected = errors.New("rejected by the validator of the harness")

// vfVal is the state of the two validators of the harness (the test runs its cases one by one).
var vfVal struct {
	calls int
	err   error
}

// Validate implements validation.Validator.
func (r *HwReq) Validate() error {
	vfVal.calls++
	return vfVal.err
}

type vfReqValidator struct{}

func (vfReqValidator) Validate(r *http.Request, data any) error {
	vfVal.calls++
	return vfVal.err
}

func hwReqD() *structD {
	return &structD{typ: reflect.TypeOf(HwReq{}), Fields: []*fieldD{
		{GoName: "ID", Src: "path", Key: "id", Kind: reflect.Int, Rng: rg(1, 1000, true, true, true, true)},
		{GoName: "Mode", Src: "header", Key: "X-Mode", Kind: reflect.String, Options: []string{"fast", "safe"}},
		{GoName: "Trace", Src: "header", Key: "x-trace-id", Kind: reflect.String, Ptr: 1, Opt: optPlain},
		{GoName: "Limit", Src: "form", Key: "limit", Kind: reflect.Int, Rng: rg(1, 100, true, true, true, true), HasDef: true, Def: "10"},
		{GoName: "Tags", Src: "form", Key: "tags", Kind: reflect.Slice, Opt: optPlain, Elem: &fieldD{Kind: reflect.String}},
		{GoName: "Name", Src: "json", Key: "name", Kind: reflect.String},
		{GoName: "Level", Src: "json", Key: "level", Kind: reflect.Uint8, Ptr: 1, Opt: optPlain, Rng: rg(0, 9, true, true, true, true)},
	}}
}

type wireReq struct {
	method  string
	target  string
	lines   [][2]string // header lines in wire order
	body    []byte
	chunked bool
	vars    map[string]string
}

func (w *wireReq) text() []byte {
	var b bytes.Buffer
	fmt.Fprintf(&b, "%s %s HTTP/1.1\r\nHost: localhost\r\n", w.method, w.target)
	for _, l := range w.lines {
		fmt.Fprintf(&b, "%s:%s\r\n", l[0], l[1])
	}
	switch {
	case w.chunked:
		b.WriteString("Transfer-Encoding: chunked\r\n\r\n")
		if len(w.body) > 0 {
			fmt.Fprintf(&b, "%x\r\n%s\r\n", len(w.body), w.body)
		}
		b.WriteString("0\r\n\r\n")
	case w.body != nil:
		fmt.Fprintf(&b, "Content-Length: %d\r\n\r\n%s", len(w.body), w.body)
	default:
		b.WriteString("\r\n")
	}
	return b.Bytes()
}

func (w *wireReq) parse() (*http.Request, error) {
	return http.ReadRequest(bufio.NewReader(bytes.NewReader(w.text())))
}

func spellKey(r *kit.Rand, k string) string {
	switch r.Intn(4) {
	case 0:
		return strings.ToLower(k)
	case 1:
		return strings.ToUpper(k)
	case 2:
		return http.CanonicalHeaderKey(k)
	}
	return k
}

func padValue(r *kit.Rand, v string) string {
	return kit.Choose(r, []string{" ", "", "  ", "\t", " "}) + v + kit.Choose(r, []string{"", "", " ", "  ", "\t"})
}

// wireSafe: can the text stand in a header line (no line breaks / control characters)?
func wireSafe(s string) bool {
	for i := 0; i < len(s); i++ {
		if c := s[i]; c < 0x20 && c != '\t' || c == 0x7f {
			return false
		}
	}
	return true
}

func leafStrings(v any) []string {
	switch x := v.(type) {
	case string:
		return []string{x}
	case []string:
		return x
	case []any:
		out := make([]string, 0, len(x))
		for _, el := range x {
			out = append(out, fmt.Sprint(el))
		}
		return out
	}
	return nil
}

var jsonContentTypes = []string{"application/json", "application/json", "application/json; charset=utf-8", "application/json;charset=UTF-8", "application/json ; q=1"}

// content types under which the statement does not say whether the body is a JSON body
var otherContentTypes = []string{"text/plain", "", "application/x-json", "Application/JSON", "application/jsonp", "application/vnd.api+json", "application/xml"}

// buildWire renders the four-part input as a request text. how names the carriers chosen.
func buildWire(r *kit.Rand, in *httpInput) (w *wireReq, how string, judged bool) {
	w = &wireReq{method: http.MethodGet, vars: map[string]string{}}
	judged = true
	for k, v := range in.Path {
		w.vars[k] = fmt.Sprint(v)
	}
	for _, k := range sortedKeys(in.Header) {
		for _, val := range leafStrings(in.Header[k]) {
			if !wireSafe(val) {
				continue
			}
			w.lines = append(w.lines, [2]string{spellKey(r, k), padValue(r, val)})
		}
	}
	if len(w.lines) > 1 && r.Chance(0.3) {
		p := r.Perm(len(w.lines))
		ls := make([][2]string, len(p))
		for i, j := range p {
			ls[i] = w.lines[j]
		}
		w.lines = ls
	}
	form := url.Values{}
	for _, k := range sortedKeys(in.Form) {
		for _, val := range leafStrings(in.Form[k]) {
			form.Add(k, val)
		}
	}
	carrier := "query"
	if len(in.JSON) == 0 && !in.SendBody {
		carrier = kit.Choose(r, []string{"query", "query", "urlencoded", "multipart", "query+urlencoded"})
	}
	w.target = "/x"
	switch carrier {
	case "query":
		if len(form) > 0 || r.Chance(0.2) {
			w.target += "?" + form.Encode()
		}
	case "urlencoded":
		w.method = http.MethodPost
		w.lines = append(w.lines, [2]string{"Content-Type", " application/x-www-form-urlencoded"})
		w.body = []byte(form.Encode())
	case "query+urlencoded":
		w.method = kit.Choose(r, []string{http.MethodPost, http.MethodPut, http.MethodPatch})
		q, b := url.Values{}, url.Values{}
		for k, vs := range form {
			if r.Bool() {
				q[k] = vs
			} else {
				b[k] = vs
			}
		}
		w.target += "?" + q.Encode()
		w.lines = append(w.lines, [2]string{"content-type", " application/x-www-form-urlencoded; charset=utf-8"})
		w.body = []byte(b.Encode())
	case "multipart":
		w.method = http.MethodPost
		var mb bytes.Buffer
		mw := multipart.NewWriter(&mb)
		keys := make([]string, 0, len(form))
		for k := range form {
			keys = append(keys, k)
		}
		sort.Strings(keys)
		for _, k := range keys {
			for _, val := range form[k] {
				mw.WriteField(k, val)
			}
		}
		mw.Close()
		w.lines = append(w.lines, [2]string{"Content-Type", " " + mw.FormDataContentType()})
		w.body = mb.Bytes()
	}
	how = "form-in-" + carrier
	if carrier != "query" {
		return w, how + ",no-json-body", judged
	}
	switch {
	case in.bodySent():
		body := renderJSON(in.JSON)
		w.method = kit.Choose(r, []string{http.MethodPost, http.MethodPost, http.MethodPut, http.MethodPatch, http.MethodDelete, http.MethodGet})
		switch r.Pick(12, 2, 2) {
		case 0:
			ct := kit.Choose(r, jsonContentTypes)
			w.lines = append(w.lines, [2]string{spellKey(r, "Content-Type"), " " + ct})
			w.body = body
			how += ",json-body:" + ct
		case 1:
			ct := kit.Choose(r, otherContentTypes)
			if ct != "" {
				w.lines = append(w.lines, [2]string{"Content-Type", " " + ct})
			}
			w.body = body
			how += ",json-text-under-another-content-type"
			judged = false
		default:
			w.lines = append(w.lines, [2]string{"Content-Type", " application/json"})
			w.body, w.chunked = body, true
			how += ",json-body-chunked"
			judged = false
		}
	case r.Chance(0.3):
		// a Content-Type without any body
		w.method = http.MethodPost
		w.lines = append(w.lines, [2]string{"Content-Type", " application/json"})
		w.body = []byte{}
		how += ",json-content-type-empty-body"
	default:
		how += ",no-body"
	}
	return w, how, judged
}

// deliveredSources: the input as net/http delivers it for a parse of the wire text.
func deliveredSources(w *wireReq, in *httpInput) (sources, error) {
	r2, err := w.parse()
	if err != nil {
		return nil, err
	}
	hdr := map[string]any{}
	for k, vs := range r2.Header {
		hdr[k] = append([]string(nil), vs...)
	}
	if err := r2.ParseMultipartForm(32 << 20); err != nil && !errors.Is(err, http.ErrNotMultipart) {
		return nil, err
	}
	form := map[string]any{}
	for k, vs := range r2.Form {
		var kept []string
		for _, v := range vs {
			if v != "" {
				kept = append(kept, v) // httpx documents that empty form values count as not supplied
			}
		}
		if len(kept) > 0 {
			form[k] = kept
		}
	}
	jsonTree := map[string]any{}
	if w.body != nil && !w.chunked && len(w.body) > 0 && strings.Contains(r2.Header.Get("Content-Type"), "application/json") {
		jsonTree = in.JSON
	}
	path := map[string]any{}
	for k, v := range w.vars {
		path[k] = v
	}
	return sources{
		"json":   {ctx: httpCtx["json"], tree: jsonTree},
		"form":   {ctx: httpCtx["form"], tree: form},
		"path":   {ctx: httpCtx["path"], tree: path},
		"header": {ctx: httpCtx["header"], tree: hdr},
	}, nil
}

func genHTTPType(r *kit.Rand) (*structD, map[string]*entry) {
	g := &typeGen{r: r, http: true, maxDeep: 1}
	sd := &structD{}
	srcEntries := map[string]*entry{}
	for _, src := range []string{"json", "form", "path", "header"} {
		if !r.Chance(0.75) {
			continue
		}
		g.tagKey = src
		g.e = &entry{Name: "http-" + src, Ctx: httpCtx[src], NoNull: src != "json", NoMaps: src != "json", NoLists: src == "path"}
		srcEntries[src] = g.e
		sd.Fields = append(sd.Fields, g.genStruct(0, 1, 3).Fields...)
	}
	if len(sd.Fields) == 0 {
		g.tagKey, g.e = "header", &entry{Name: "http-header", Ctx: httpCtx["header"], NoNull: true, NoMaps: true}
		srcEntries["header"] = g.e
		sd.Fields = g.genStruct(0, 1, 3).Fields
	}
	perm := r.Perm(len(sd.Fields))
	fs := make([]*fieldD, len(perm))
	for i, j := range perm {
		fs[i] = sd.Fields[j]
	}
	sd.Fields = fs
	return sd, srcEntries
}

func (h *harness) runHTTPWire(t *testing.T, n int) {
	h.run(t, "httpwire", n, func(c *kit.Case) {
		r := c.R
		var sd *structD
		var srcEntries map[string]*entry
		selfValidating := c.Index%4 == 0
		if selfValidating {
			sd = hwReqD()
			srcEntries = map[string]*entry{}
			for _, src := range []string{"json", "form", "path", "header"} {
				srcEntries[src] = &entry{Name: "http-" + src, Ctx: httpCtx[src], NoNull: src != "json", NoMaps: src != "json", NoLists: src == "path"}
			}
		} else {
			sd, srcEntries = genHTTPType(r)
		}
		defer httpx.SetValidator(nil)
		for i := 0; i < 8; i++ {
			in := &httpInput{JSON: map[string]any{}, Form: map[string]any{}, Path: map[string]any{}, Header: map[string]any{}, SendBody: r.Chance(0.3)}
			trees := map[string]map[string]any{"json": in.JSON, "form": in.Form, "path": in.Path, "header": in.Header}
			var classes []string
			for _, src := range []string{"json", "form", "path", "header"} {
				e := srcEntries[src]
				if e == nil {
					continue
				}
				ig := &inputGen{r: r, e: e}
				ig.fillLevel(sd.Fields, e, trees[src], 0)
				if i >= 3 && r.Chance(0.5) {
					var slots []slot
					collectSlots(sd.Fields, e.Ctx, trees[src], &slots)
					if len(slots) > 0 {
						ig.perturb(kit.Choose(r, slots), e)
					}
				}
				classes = append(classes, src+":"+strings.Join(ig.classes, ","))
			}
			sanitizeHTTP(in)
			w, how, judged := buildWire(r, in)
			malformedQuery := judged && i == 7 && r.Chance(0.25)
			if malformedQuery {
				sep := "?"
				if strings.Contains(w.target, "?") {
					sep = "&"
				}
				w.target += sep + kit.Choose(r, []string{"bad=%zz", "%gg=1", "a=%", "x=1;y=2"})
				how += ",malformed-query"
				judged = false
			}
			// validator: none, accepting, rejecting
			vmode := r.Pick(4, 3, 3)
			install := func() {
				vfVal.calls, vfVal.err = 0, nil
				if vmode == 2 {
					vfVal.err = errVfRejected
				}
				if vmode == 0 {
					httpx.SetValidator(nil)
				} else {
					httpx.SetValidator(vfReqValidator{})
				}
			}
			vname := []string{"no-validator", "accepting-validator", "rejecting-validator"}[vmode]
			if selfValidating {
				vname = "self-" + vname
			}
			call := func(target any) error {
				req, err := w.parse()
				if err != nil {
					return fmt.Errorf("harness: the request text does not parse: %w", err) // checked before the call
				}
				req = pathvar.WithVars(req, w.vars)
				install()
				defer func() {
					// the validator is process-wide: later calls of other families must not see it
					httpx.SetValidator(nil)
					vfVal.err = nil
				}()
				err = httpx.Parse(req, target)
				if vmode == 2 && errors.Is(err, errVfRejected) {
					// every part was parsed and accepted, then the user's validator said no: for the
					// statement this call accepted the input
					kit.Obs("httpwire_validator_consulted_after_parsing", 1)
					return nil
				}
				if err == nil && (vmode != 0 || selfValidating) {
					if vfVal.calls > 0 {
						kit.Obs("httpwire_validator_consulted_after_parsing", 1)
					} else {
						kit.Obs("httpwire_validator_not_consulted", 1)
					}
				}
				return err
			}
			doc := func() string {
				return fmt.Sprintf("%q path-vars=%v validator=%s", w.text(), w.vars, vname)
			}
			if _, err := w.parse(); err != nil {
				panic("harness: net/http does not take the generated request: " + err.Error())
			}
			kit.Obs("httpwire_"+strings.SplitN(how, ",", 2)[0], 1)
			if !judged {
				// the statement does not say what such a request supplies: no panic, outcome observed
				target := reflect.New(sd.goType())
				record := func() string {
					return fmt.Sprintf("case=%s entry=httpwire(unjudged) type=%s input=%s", c.ID, sd.describe(), doc())
				}
				err, pan := h.fc.guard(record, func() error { return call(target.Interface()) })
				c.Evals(1)
				kit.Obs("calls", 1)
				kit.Obs("calls_httpwire_unjudged", 1)
				variant := how[strings.LastIndex(how, ",")+1:]
				switch {
				case pan != nil:
					kit.Obs("panics", 1)
					c.Viol(pan.key(), "httpx.Parse panicked: "+pan.Msg, map[string]any{"type": sd.describe(), "entry": "httpwire", "input": doc(), "panic": pan.Msg, "stack": pan.Stack})
				case err != nil:
					kit.Obs("httpwire_unjudged_"+variant+"_rejected", 1)
					c.Sig(false, "httpwire-unjudged", variant, "rej", errClass(err))
				default:
					kit.Obs("httpwire_unjudged_"+variant+"_accepted", 1)
					c.Sig(false, "httpwire-unjudged", variant, "acc", sd.shape())
				}
				continue
			}
			ss, err := deliveredSources(w, in)
			if err != nil {
				panic("harness: net/http does not take the generated request: " + err.Error())
			}
			kit.Obs("httpwire_"+vname, 1)
			h.evalOne(c, &evalReq{sd: sd, ss: ss, entry: "httpwire", ctxName: "http", classes: how + ";" + vname + ";" + strings.Join(classes, ";"),
				doc: doc, call: call})
			if c.Index < 2 && i == 4 {
				c.Sample("httpwire", 2, map[string]any{"type": sd.describe(), "request": doc()})
			}
		}
	})
}

// ---------------------------------------------------------------- family: confload

const (
	envStrVar   = "C08_ENV_STR"
	envStrVal   = "from-the-environment"
	envInVar    = "C08_ENV_NUM_IN"
	envOutVar   = "C08_ENV_NUM_OUT"
	envUnsetVar = "C08_ENV_UNSET"
	// stands in the rendered document where a number placeholder goes
	envNumSentinel = "918273645001"
)

// confFormats: file extension -> renderer of the document.
var confFormats = []struct {
	ext    string
	format string
}{{".json", "json"}, {".yaml", "yaml"}, {".yml", "yaml"}, {".toml", "toml"}, {".JSON", "json"}, {".Yaml", "yaml"}, {".TOML", "toml"}}

func renderAs(format string, tree map[string]any) []byte {
	switch format {
	case "yaml":
		return renderYAML(tree)
	case "toml":
		return renderTOML(tree)
	}
	return renderJSON(tree)
}

// types with keys that collide once core/conf lower-cases them, and anonymous fields that are
// no structs; the statement says nothing about them: no panic, outcome observed
type VfAnonMap map[string]int
type VfAnonInt int
type cfAnon1 struct {
	VfAnonMap
	Vfanonmap int `json:"vfanonmap,optional"`
}
type cfAnon2 struct {
	VfAnonInt
	Name string `json:"name,optional"`
}
type cfAnon3 struct {
	VfAnonMap `json:"am,optional"`
	A         int `json:"a,default=3"`
}
type cfConflict1 struct {
	CfInner
	Name string `json:"NAME,optional"`
}
type CfInner struct {
	Name string `json:"name,optional"`
	Port int    `json:"port,default=80,range=[1:65535]"`
}
type cfConflict2 struct {
	A int `json:"value,optional"`
	B int `json:"Value,optional"`
}
type cfConflict3 struct {
	CfInner
	M map[string]CfInner `json:"Port,optional"`
}
type cfConflict4 struct {
	CfInner
	In struct {
		CfInner
		Deep []CfInner `json:"deep,optional"`
	} `json:"name,optional"`
}

func (h *harness) runConfLoad(t *testing.T, n int) {
	os.Setenv(envStrVar, envStrVal)
	os.Setenv(envInVar, "42")
	os.Setenv(envOutVar, "420")
	os.Unsetenv(envUnsetVar)
	dir := os.Getenv("VERIF_SCRATCH_DIR")
	if dir == "" {
		dir = "/var/tmp"
	}
	base := fmt.Sprintf("%s/c08-conf-%d-%d", dir, kit.GetEnv().Shard, os.Getpid())
	ce := entries["conf"]
	h.run(t, "confload", n, func(c *kit.Case) {
		r := c.R
		g := &typeGen{r: r, e: ce, tagKey: "json", maxDeep: 2, noIgnore: true}
		sd := g.genStruct(0, 1, 5)
		// two fields that take their values from the environment when conf.UseEnv is given
		sd.Fields = append(sd.Fields,
			&fieldD{GoName: "EnvNum", Src: "json", Key: "envNum", Kind: reflect.Int, Opt: optPlain, Rng: rg(1, 100, true, true, true, true)},
			&fieldD{GoName: "EnvStr", Src: "json", Key: "EnvStr", Kind: reflect.String, Opt: optPlain})
		written := map[string]bool{}
		defer func() {
			for p := range written {
				os.Remove(p)
			}
		}()
		for i := 0; i < 8; i++ {
			ff := kit.Choose(r, confFormats)
			// what a format cannot carry is not generated for it
			fe := entries[map[string]string{"json": "conf", "yaml": "confyaml", "toml": "conftoml"}[ff.format]]
			ig := &inputGen{r: r, e: fe}
			tree := ig.validTree(sd, fe, 0)
			delete(tree, "envnum")
			delete(tree, "envstr")
			if i >= 3 {
				var slots []slot
				collectSlots(sd.Fields[:len(sd.Fields)-2], fe.Ctx, tree, &slots)
				for p := 0; p < r.Pick(3, 5, 2) && len(slots) > 0; p++ {
					ig.perturb(kit.Choose(r, slots), fe)
				}
			}
			useEnv := r.Chance(0.5)
			// the document holds placeholders, the reference reads what they stand for (with UseEnv)
			// or the placeholder text itself (without)
			docTree := respell(sd.Fields, ce.Ctx, tree)
			refTree := map[string]any{}
			for k, v := range tree {
				refTree[k] = v
			}
			envClass := "no-placeholders"
			numVar := ""
			if r.Chance(0.6) {
				ph := kit.Choose(r, []string{"${" + envStrVar + "}", "$" + envStrVar, "pre-${" + envStrVar + "}-post", "${" + envUnsetVar + "}", "x${" + envUnsetVar + "}y", "$" + envStrVar + " $" + envStrVar})
				docTree["EnvStr"] = ph
				refTree["envstr"] = ph
				envClass = "string-placeholder"
				if useEnv {
					refTree["envstr"] = os.ExpandEnv(ph)
				}
				if useEnv && r.Chance(0.6) {
					v := kit.Choose(r, []string{envInVar, envInVar, envOutVar})
					docTree["envNum"] = json.Number(envNumSentinel)
					numVar = v
					refTree["envnum"] = json.Number(os.Getenv(v))
					envClass += "+number-placeholder-" + map[bool]string{true: "in-range", false: "out-of-range"}[v == envInVar]
				}
			}
			content := renderAs(ff.format, docTree)
			if numVar != "" {
				content = bytes.ReplaceAll(content, []byte(envNumSentinel), []byte("${"+numVar+"}"))
			}
			path := base + "-" + strconv.Itoa(i) + ff.ext
			written[path] = true
			var opts []conf.Option
			if useEnv {
				opts = append(opts, conf.UseEnv())
			}
			kit.Obs("confload_files"+strings.ToLower(ff.ext), 1)
			kit.Obs("confload_"+envClass, 1)
			if useEnv {
				kit.Obs("confload_use_env", 1)
			}
			q := &evalReq{sd: sd, ss: sources{"json": {ctx: ce.Ctx, tree: refTree}}, entry: "conf.Load", ctxName: "conf",
				classes: fmt.Sprintf("confload:%s,env=%v,%s;%s", strings.ToLower(ff.ext), useEnv, envClass, strings.Join(ig.classes, ",")),
				doc:     func() string { return fmt.Sprintf("file %s (UseEnv=%v): %s", ff.ext, useEnv, content) },
				call: func(t any) error {
					if err := os.WriteFile(path, content, 0o644); err != nil {
						panic("harness: " + err.Error())
					}
					err := conf.Load(path, t, opts...)
					if err != nil && strings.Contains(err.Error(), path) {
						// keep the scratch path out of the violation key
						return errors.New(strings.ReplaceAll(err.Error(), path, "FILE"+strings.ToLower(ff.ext)))
					}
					return err
				}}
			h.evalOne(c, q)
		}
		// FillDefault: nothing is supplied, the target holds the defaults
		{
			target := reflect.New(sd.goType())
			record := func() string { return fmt.Sprintf("case=%s entry=conf.FillDefault type=%s", c.ID, sd.describe()) }
			err, pan := h.fc.guard(record, func() error { return conf.FillDefault(target.Interface()) })
			c.Evals(1)
			kit.Obs("calls", 1)
			kit.Obs("calls_conf.FillDefault", 1)
			w := map[string]any{"type": sd.describe(), "entry": "conf.FillDefault", "input": "(none)"}
			switch {
			case pan != nil:
				kit.Obs("panics", 1)
				w["panic"], w["stack"] = pan.Msg, pan.Stack
				c.Viol(pan.key(), "conf.FillDefault panicked: "+pan.Msg, w)
			case err != nil:
				kit.Obs("filldefault_errors", 1)
				c.Sig(false, "filldefault", "err", errClass(err))
			default:
				ss := sources{"json": {ctx: ce.Ctx, tree: map[string]any{}}}
				cmp := compareTarget(sd, target.Elem(), ss)
				kit.Obs("filldefault_fields_compared", int64(cmp.compared))
				w["target"] = fmt.Sprintf("%+v", target.Elem().Interface())
				for _, mm := range cmp.out {
					c.Viol("C08/target-mismatch/"+mm.Class+"/"+mm.Kind+"/fill-default", fmt.Sprintf("%s: %s", mm.Path, mm.What), w)
				}
				ref := reference(sd, ss)
				c.Sig(ref.nDefault > 0, "filldefault", "ok", sd.shape())
			}
		}
		// unrecognised extension / missing file: an error, never a panic
		{
			p := base + kit.Choose(r, []string{".txt", ".ini", "", ".json5", ".yaml.bak"})
			written[p] = true
			os.WriteFile(p, []byte("{}"), 0o644)
			missing := r.Chance(0.3)
			if missing {
				p = base + "-does-not-exist.json"
			}
			target := reflect.New(sd.goType())
			record := func() string { return fmt.Sprintf("case=%s entry=conf.Load type=%s file=%s", c.ID, sd.describe(), p) }
			err, pan := h.fc.guard(record, func() error { return conf.Load(p, target.Interface()) })
			c.Evals(1)
			kit.Obs("calls", 1)
			if pan != nil {
				c.Viol(pan.key(), "conf.Load panicked: "+pan.Msg, map[string]any{"type": sd.describe(), "file": p, "panic": pan.Msg, "stack": pan.Stack})
			} else if err != nil {
				kit.Obs("confload_unreadable_or_unrecognised_rejected", 1)
			} else {
				kit.Obs("confload_unreadable_or_unrecognised_accepted", 1)
			}
			c.Sig(false, "confload-unrecognised", missing, err != nil)
		}
		// conflicting keys
		{
			var targets []any
			switch c.Index % 3 {
			case 0:
				targets = []any{&cfAnon1{}, &cfAnon2{}, &cfAnon3{}}
			case 1:
				targets = []any{&cfConflict1{}, &cfConflict2{}, &cfConflict3{}, &cfConflict4{}}
			default:
				// a generated type with one key declared twice in different spellings
				var dup *fieldD
				for _, f := range sd.Fields {
					if !f.Embedded && !f.NoTag && !f.Ignore && f.Key != "" && f.scalar() {
						dup = f
						break
					}
				}
				if dup != nil {
					d2 := *dup
					d2.GoName, d2.Key = "Dup", strings.ToUpper(dup.Key)
					if d2.Key == dup.Key {
						d2.Key = strings.ToLower(dup.Key)
					}
					sd2 := &structD{Fields: append(append([]*fieldD(nil), sd.Fields...), &d2)}
					targets = []any{reflect.New(sd2.goType()).Interface()}
				}
			}
			docs := []string{`{}`, `{"name":"n","port":8080}`, `{"NAME":"n","Port":{"a":{"port":1}}}`, `{"value":1,"Value":2}`, `{"vfanonmap":{"a":1},"VfAnonMap":{"b":2},"VfAnonInt":5,"am":{"x":1},"a":4}`,
				`{"name":{"name":"x","deep":[{"port":0}]},"port":70000}`}
			for _, tg := range targets {
				doc := kit.Choose(r, docs)
				if c.Index%3 == 2 {
					ig := &inputGen{r: r, e: ce}
					doc = string(renderJSON(respell(sd.Fields, ce.Ctx, ig.validTree(sd, ce, 0))))
				}
				record := func() string { return fmt.Sprintf("case=%s entry=conf.LoadFromJsonBytes type=%T input=%s", c.ID, tg, doc) }
				// a fresh target of the same type per call
				fresh := reflect.New(reflect.TypeOf(tg).Elem()).Interface()
				err, pan := h.fc.guard(record, func() error { return conf.LoadFromJsonBytes([]byte(doc), fresh) })
				c.Evals(1)
				kit.Obs("calls", 1)
				kit.Obs("calls_conf_conflicting_keys", 1)
				switch {
				case pan != nil:
					kit.Obs("panics", 1)
					c.Viol(pan.key(), "conf.LoadFromJsonBytes panicked on a type with colliding keys: "+pan.Msg,
						map[string]any{"type": fmt.Sprintf("%T", tg), "input": doc, "panic": pan.Msg, "stack": pan.Stack})
				case err != nil && strings.Contains(err.Error(), "conflict key"):
					kit.Obs("conf_conflict_reported", 1)
					c.Sig(false, "conf-conflict", fmt.Sprintf("%T", tg), "conflict")
				case err != nil:
					kit.Obs("conf_conflict_type_other_error", 1)
					c.Sig(false, "conf-conflict", fmt.Sprintf("%T", tg), errClass(err))
				default:
					kit.Obs("conf_conflict_type_accepted", 1)
					c.Sig(false, "conf-conflict", fmt.Sprintf("%T", tg), "acc")
				}
			}
		}
	})
}

// ---------------------------------------------------------------- family: badtags

type badTag struct {
	opt   string
	class string // empty-range | broken
}

var badTags = []badTag{
	// ranges no number lies in
	{"range=[5:1]", "empty-range"}, {"range=(2:2)", "empty-range"}, {"range=[2:2)", "empty-range"}, {"range=(2:2]", "empty-range"}, {"range=[100:-100]", "empty-range"},
	{"range=(3:3)", "empty-range"}, {"range=[3.5:3]", "empty-range"},
	// broken syntax
	{"range=", "broken"}, {"range", "broken"}, {"range=[", "broken"}, {"range=]", "broken"}, {"range=[1", "broken"}, {"range=[1:", "broken"}, {"range=1:5", "broken"}, {"range=[1:5", "broken"}, {"range=1:5]", "broken"},
	{"range=[a:b]", "broken"}, {"range=[1:b]", "broken"}, {"range=[1:2:3]", "broken"}, {"range=[:]", "broken"}, {"range=(:)", "broken"}, {"range=[1;5]", "broken"}, {"range=[1:5]]", "broken"}, {"range=[[1:5]", "broken"},
	{"range=[ 1 : 5 ]", "broken"}, {"range=[1:5]=x", "broken"}, {"range=[1e400:]", "broken"}, {"range=[:1e400]", "broken"}, {"range=[NaN:5]", "broken"}, {"range=[1:NaN]", "broken"}, {"range=[Inf:5]", "broken"},
	{"range=[-Inf:+Inf]", "broken"}, {"range=[0x1:0x5]", "broken"}, {"range={1:5}", "broken"}, {"range=[1,5]", "broken"}, {"range=[1:5],range=[7:9]", "broken"}, {"rangex=[1:5]", "broken"},
	{"optional=a=b", "broken"}, {"optional=", "broken"}, {"optional=!", "broken"}, {"optional=!!a", "broken"}, {"optionalx", "broken"},
	{"options=", "broken"}, {"options", "broken"}, {"options=a=b", "broken"}, {"options=[", "broken"}, {"options=[]", "broken"}, {"options=|", "broken"}, {"options=[3,3", "broken"},
	{"default=", "broken"}, {"default", "broken"}, {"default=a=b", "broken"}, {"default=[", "broken"}, {"default=x", "broken"}, {"default=99999999999999999999", "broken"},
	{"env=", "broken"}, {"env", "broken"}, {"string=x", "broken"}, {"inherit=x", "broken"}, {"unknown", "broken"}, {"", "broken"}, {",", "broken"}, {"\\", "broken"}, {"a\\", "broken"},
	{"options=[a\\,b]", "broken"}, {"default=[a\\,b]", "broken"}, {"default=[1,2", "broken"}, {"default=[1,x]", "broken"}, {"default=1\\,2", "broken"},
	{"(", "broken"}, {"[", "broken"}, {"range=[1:5", "broken"}, {"optional,range=(", "broken"}, {"=", "broken"}, {"==", "broken"}, {"range==[1:5]", "broken"},
}

func (h *harness) runBadTags(t *testing.T) {
	type ent struct {
		name string
		key  string
		call func(tree map[string]any, v any) error
		str  bool
	}
	ents := []ent{
		{"json", "json", func(t map[string]any, v any) error { return mapping.UnmarshalJsonBytes(renderJSON(t), v) }, false},
		{"formlike", "form", func(t map[string]any, v any) error { return umForm.Unmarshal(stringLists(t, true), v) }, true},
		{"conf", "json", func(t map[string]any, v any) error { return conf.LoadFromJsonBytes(renderJSON(t), v) }, false},
		{"yaml", "json", func(t map[string]any, v any) error { return mapping.UnmarshalYamlBytes(renderYAML(t), v) }, false},
	}
	kinds := []reflect.Kind{reflect.Int, reflect.Float64, reflect.Uint8, reflect.String}
	kit.Run(t, "C08", "badtags", len(badTags), func(c *kit.Case) {
		bt := badTags[c.Index]
		for _, en := range ents {
			for _, k := range kinds {
				tag := reflect.StructTag(en.key + ":" + strconv.Quote("a,"+bt.opt))
				typ := reflect.StructOf([]reflect.StructField{
					{Name: "A", Type: primTypes[k], Tag: tag},
					{Name: "B", Type: reflect.PointerTo(primTypes[k]), Tag: reflect.StructTag(en.key + ":" + strconv.Quote("b,optional,"+bt.opt))},
					{Name: "L", Type: reflect.SliceOf(primTypes[k]), Tag: reflect.StructTag(en.key + ":" + strconv.Quote("l,optional,"+bt.opt))},
					{Name: "Z", Type: primTypes[reflect.Int], Tag: reflect.StructTag(en.key + `:"z,optional"`)},
				})
				num := func(s string) any {
					if en.str {
						return s
					}
					if k == reflect.String {
						return s
					}
					return json.Number(s)
				}
				inputs := []map[string]any{{}, {"a": num("3")}, {"a": num("3"), "b": num("3")}, {"a": num("100")}, {"b": num("2")}, {"a": "x"}, {"a": num("2"), "z": num("1")}, {"a": num("3"), "l": []any{num("3"), num("100")}}, {"l": []any{}}}
				if !en.str && en.name != "yaml" {
					inputs = append(inputs, map[string]any{"a": nil})
				}
				for _, tree := range inputs {
					target := reflect.New(typ)
					record := func() string {
						return fmt.Sprintf("case=%s entry=%s type=struct{A %s `%s`; B *%s ...} input=%s", c.ID, en.name, k, tag, k, renderJSON(tree))
					}
					err, pan := h.fc.guard(record, func() error { return en.call(tree, target.Interface()) })
					c.Evals(1)
					kit.Obs("calls", 1)
					kit.Obs("calls_malformed_tag", 1)
					w := map[string]any{"type": fmt.Sprintf("struct{ A %s `%s`; B *%s `%s:\"b,optional,%s\"`; Z int }", k, tag, k, en.key, bt.opt), "entry": en.name, "input": string(renderJSON(tree))}
					_, hasA := tree["a"]
					_, hasB := tree["b"]
					numericSupplied := (hasA && tree["a"] != nil && tree["a"] != "x" || hasB) && isNumeric(k)
					switch {
					case pan != nil:
						kit.Obs("panics", 1)
						w["panic"], w["stack"] = pan.Msg, pan.Stack
						c.Viol(pan.key(), "the unmarshaller panicked on a malformed tag: "+pan.Msg, w)
					case err != nil:
						kit.Obs("malformed_tag_rejected", 1)
						c.Sig(bt.class == "empty-range" && numericSupplied, "badtag", en.name, k.String(), bt.opt, "rej", errClass(err))
					default:
						kit.Obs("malformed_tag_accepted", 1)
						if bt.class == "empty-range" && numericSupplied {
							w["target"] = fmt.Sprintf("%+v", target.Elem().Interface())
							c.Viol("C08/range-not-enforced/no-number-lies-in-the-declared-range", "accepted a supplied number although the declared "+bt.opt+" holds no number at all", w)
						}
						c.Sig(bt.class == "empty-range" && numericSupplied, "badtag", en.name, k.String(), bt.opt, "acc")
					}
					if bt.class == "empty-range" && numericSupplied {
						kit.Obs("empty_range_with_supplied_number", 1)
					}
				}
			}
		}
	})
}
