package c08

import (
	"bytes"
	"encoding/json"
	"fmt"
	"net/http"
	"net/textproto"
	"net/url"
	"os"
	"reflect"
	"regexp"
	"runtime"
	"sort"
	"strconv"
	"strings"

	"github.com/zeromicro/go-zero/core/conf"
	"github.com/zeromicro/go-zero/core/mapping"
	"github.com/zeromicro/go-zero/rest/httpx"
	"github.com/zeromicro/go-zero/rest/pathvar"

	"verifharness/kit"
)

// ---------------------------------------------------------------- document renderers

func renderJSON(tree any) []byte {
	b, err := json.Marshal(tree)
	if err != nil {
		panic("harness: cannot render JSON: " + err.Error())
	}
	return b
}

func sortedKeys(m map[string]any) []string {
	ks := make([]string, 0, len(m))
	for k := range m {
		ks = append(ks, k)
	}
	sort.Strings(ks)
	return ks
}

func quoted(s string) string {
	b, _ := json.Marshal(s)
	return string(b)
}

// yamlNullText is how the YAML renderer spells a null: null, ~, Null, NULL, or "" (a key without a
// value, block mappings only). The test runs its cases one by one; whoever changes it restores it.
var yamlNullText = "null"

func scalarText(v any) string {
	switch x := v.(type) {
	case nil:
		if yamlNullText == "" {
			return "null" // flow context: a blank would not be a null there
		}
		return yamlNullText
	case json.Number:
		return string(x)
	case litNum:
		return string(x)
	case string:
		return quoted(x)
	case bool:
		return strconv.FormatBool(x)
	}
	return fmt.Sprint(v)
}

// renderYAML: block style for (nested) mappings, flow style inside lists.
func renderYAML(tree map[string]any) []byte {
	var b bytes.Buffer
	if len(tree) == 0 {
		return []byte("{}\n")
	}
	yamlMap(&b, tree, 0)
	return b.Bytes()
}

func yamlMap(b *bytes.Buffer, m map[string]any, indent int) {
	pad := strings.Repeat("  ", indent)
	for _, k := range sortedKeys(m) {
		b.WriteString(pad + quoted(k) + ":")
		switch x := m[k].(type) {
		case map[string]any:
			if len(x) == 0 {
				b.WriteString(" {}\n")
			} else {
				b.WriteString("\n")
				yamlMap(b, x, indent+1)
			}
		case []any:
			if len(x) == 0 {
				b.WriteString(" []\n")
				continue
			}
			b.WriteString("\n")
			for _, el := range x {
				b.WriteString(pad + "  - " + yamlFlow(el) + "\n")
			}
		case nil:
			if yamlNullText == "" {
				b.WriteString("\n") // `key:` - a key without a value is a null
			} else {
				b.WriteString(" " + yamlNullText + "\n")
			}
		default:
			b.WriteString(" " + scalarText(x) + "\n")
		}
	}
}

func yamlFlow(v any) string {
	switch x := v.(type) {
	case map[string]any:
		parts := make([]string, 0, len(x))
		for _, k := range sortedKeys(x) {
			parts = append(parts, quoted(k)+": "+yamlFlow(x[k]))
		}
		return "{" + strings.Join(parts, ", ") + "}"
	case []any:
		parts := make([]string, len(x))
		for i, el := range x {
			parts[i] = yamlFlow(el)
		}
		return "[" + strings.Join(parts, ", ") + "]"
	}
	return scalarText(v)
}

// renderTOML: top-level key/value lines, nested values as inline tables / arrays.
func renderTOML(tree map[string]any) []byte {
	var b bytes.Buffer
	for _, k := range sortedKeys(tree) {
		b.WriteString(quoted(k) + " = " + tomlValue(tree[k]) + "\n")
	}
	return b.Bytes()
}

func tomlValue(v any) string {
	switch x := v.(type) {
	case map[string]any:
		if len(x) == 0 {
			return "{}"
		}
		parts := make([]string, 0, len(x))
		for _, k := range sortedKeys(x) {
			parts = append(parts, quoted(k)+" = "+tomlValue(x[k]))
		}
		return "{ " + strings.Join(parts, ", ") + " }"
	case []any:
		parts := make([]string, len(x))
		for i, el := range x {
			parts[i] = tomlValue(el)
		}
		return "[" + strings.Join(parts, ", ") + "]"
	}
	return scalarText(v)
}

// ---------------------------------------------------------------- entry points

// entry is one public way into the unmarshaller.
type entry struct {
	Name      string
	Ctx       *ctxD
	NoNull    bool // the format cannot carry null (or go-zero's converter turns it into "")
	Canonical bool // numbers are re-rendered by a converter: only canonical literals are generated
	Int63     bool // integers above MaxInt64 cannot be written
	NoMaps    bool // only scalars and lists of scalars
	NoLists   bool
	Respell   bool // the document spells the keys as the struct tags declare them (the entry point itself canonicalises the document's keys)
	ByRef     bool // the input tree itself (maps, lists) is handed to go-zero, not a rendered document
	Call      func(tree map[string]any, target any) error
	Doc       func(tree map[string]any) string
}

var (
	umCustom  = mapping.NewUnmarshaler("cfg")
	umStrVals = mapping.NewUnmarshaler("json", mapping.WithStringValues())
	umForm    = mapping.NewUnmarshaler("form", mapping.WithStringValues(), mapping.WithOpaqueKeys(), mapping.WithFromArray())
	umPath    = mapping.NewUnmarshaler("path", mapping.WithStringValues(), mapping.WithOpaqueKeys())
	// as rest/internal/encoding configures it (value lists, a scalar field takes the first value)
	umHeader  = mapping.NewUnmarshaler("header", mapping.WithStringValues(), mapping.WithCanonicalKeyFunc(textproto.CanonicalMIMEHeaderKey), mapping.WithFromArray())
	umLower   = mapping.NewUnmarshaler("json", mapping.WithCanonicalKeyFunc(strings.ToLower))
	umUpper   = mapping.NewUnmarshaler("json", mapping.WithCanonicalKeyFunc(strings.ToUpper))
)

func jsonDoc(tree map[string]any) string { return string(renderJSON(tree)) }

// stringLists converts []any of strings into []string (what httpx hands to the form and
// header unmarshalers); wrapScalars additionally wraps every scalar into a one-element list.
func stringLists(tree map[string]any, wrapScalars bool) map[string]any {
	m := make(map[string]any, len(tree))
	for k, v := range tree {
		switch x := v.(type) {
		case string:
			if wrapScalars {
				m[k] = []string{x}
			} else {
				m[k] = x
			}
		case []any:
			if len(x) == 0 {
				m[k] = v // an empty (or nil) value list stays what it is
				continue
			}
			ss := make([]string, 0, len(x))
			ok := true
			for _, el := range x {
				s, isStr := el.(string)
				if !isStr {
					ok = false
					break
				}
				ss = append(ss, s)
			}
			if ok {
				m[k] = ss
			} else {
				m[k] = v
			}
		default:
			m[k] = v
		}
	}
	return m
}

var entries = map[string]*entry{
	"json": {Name: "json", Ctx: &ctxD{Name: "json", TagKey: "json"}, Doc: jsonDoc,
		Call: func(t map[string]any, v any) error { return mapping.UnmarshalJsonBytes(renderJSON(t), v) }},
	"jsonreader": {Name: "jsonreader", Ctx: &ctxD{Name: "json", TagKey: "json"}, Doc: jsonDoc,
		Call: func(t map[string]any, v any) error {
			return mapping.UnmarshalJsonReader(bytes.NewReader(renderJSON(t)), v)
		}},
	"yaml": {Name: "yaml", Ctx: &ctxD{Name: "json", TagKey: "json"}, NoNull: true, Canonical: true,
		Doc:  func(t map[string]any) string { return string(renderYAML(t)) },
		Call: func(t map[string]any, v any) error { return mapping.UnmarshalYamlBytes(renderYAML(t), v) }},
	"toml": {Name: "toml", Ctx: &ctxD{Name: "json", TagKey: "json"}, NoNull: true, Canonical: true, Int63: true,
		Doc:  func(t map[string]any) string { return string(renderTOML(t)) },
		Call: func(t map[string]any, v any) error { return mapping.UnmarshalTomlBytes(renderTOML(t), v) }},
	"key": {Name: "key", ByRef: true, Ctx: &ctxD{Name: "key", TagKey: "key"}, Doc: jsonDoc,
		Call: func(t map[string]any, v any) error { return mapping.UnmarshalKey(t, v) }},
	"keynative": {Name: "keynative", ByRef: true, Ctx: &ctxD{Name: "keynative", TagKey: "key", Native: true}, NoMaps: true, NoLists: true,
		Doc:  func(t map[string]any) string { return fmt.Sprintf("%#v", t) },
		Call: func(t map[string]any, v any) error { return mapping.UnmarshalKey(t, v) }},
	"jsonmap": {Name: "jsonmap", ByRef: true, Ctx: &ctxD{Name: "json", TagKey: "json"}, Doc: jsonDoc,
		Call: func(t map[string]any, v any) error { return mapping.UnmarshalJsonMap(t, v) }},
	"custom": {Name: "custom", ByRef: true, Ctx: &ctxD{Name: "cfg", TagKey: "cfg"}, Doc: jsonDoc,
		Call: func(t map[string]any, v any) error { return umCustom.Unmarshal(t, v) }},
	"strvals": {Name: "strvals", ByRef: true, Ctx: &ctxD{Name: "strvals", TagKey: "json", AllFromString: true}, NoNull: true, NoMaps: true, Doc: jsonDoc,
		Call: func(t map[string]any, v any) error { return umStrVals.Unmarshal(t, v) }},
	"formlike": {Name: "formlike", ByRef: true, Ctx: &ctxD{Name: "form", TagKey: "form", AllFromString: true, FromArray: true}, NoNull: true, NoMaps: true, Doc: jsonDoc,
		Call: func(t map[string]any, v any) error { return umForm.Unmarshal(stringLists(t, true), v) }},
	"pathlike": {Name: "pathlike", ByRef: true, Ctx: &ctxD{Name: "path", TagKey: "path", AllFromString: true}, NoNull: true, NoMaps: true, NoLists: true, Doc: jsonDoc,
		Call: func(t map[string]any, v any) error { return umPath.Unmarshal(t, v) }},
	"headerlike": {Name: "headerlike", ByRef: true, Ctx: &ctxD{Name: "header", TagKey: "header", AllFromString: true, FromArray: true, Canon: textproto.CanonicalMIMEHeaderKey}, NoNull: true, NoMaps: true, Doc: jsonDoc,
		Call: func(t map[string]any, v any) error { return umHeader.Unmarshal(stringLists(t, true), v) }},
	"lower": {Name: "lower", ByRef: true, Ctx: &ctxD{Name: "lower", TagKey: "json", Canon: strings.ToLower}, Doc: jsonDoc,
		Call: func(t map[string]any, v any) error { return umLower.Unmarshal(t, v) }},
	// a second canonicalising configuration over the same tag key as "lower" (shares struct types with it)
	"upper": {Name: "upper", ByRef: true, Ctx: &ctxD{Name: "upper", TagKey: "json", Canon: strings.ToUpper}, Doc: jsonDoc,
		Call: func(t map[string]any, v any) error { return umUpper.Unmarshal(t, v) }},
	// core/conf: lower-cases the document's keys and unmarshals with a lower-casing canonical key function
	"conf": {Name: "conf", Respell: true, Ctx: &ctxD{Name: "conf", TagKey: "json", Canon: strings.ToLower}, Doc: jsonDoc,
		Call: func(t map[string]any, v any) error { return conf.LoadFromJsonBytes(renderJSON(t), v) }},
}

// ---- httpx.Parse

var httpCtx = map[string]*ctxD{
	"json":   {Name: "http-json", TagKey: "json"},
	"form":   {Name: "http-form", TagKey: "form", AllFromString: true, FromArray: true},
	"path":   {Name: "http-path", TagKey: "path", AllFromString: true},
	"header": {Name: "http-header", TagKey: "header", AllFromString: true, FromArray: true, Canon: textproto.CanonicalMIMEHeaderKey},
}

// httpInput is the four-part input of one request.
type httpInput struct {
	JSON, Form, Path, Header map[string]any
	SendBody                 bool // send a JSON body even if JSON is empty
}

func (in *httpInput) sources() sources {
	return sources{
		"json":   {ctx: httpCtx["json"], tree: in.JSON},
		"form":   {ctx: httpCtx["form"], tree: in.Form},
		"path":   {ctx: httpCtx["path"], tree: in.Path},
		"header": {ctx: httpCtx["header"], tree: in.Header},
	}
}

func (in *httpInput) doc() string {
	return fmt.Sprintf("POST(GET if no body) /x?%s  path-vars=%s  headers=%s  body=%s (sent=%v)", in.query(), renderJSON(in.Path), renderJSON(in.Header), renderJSON(in.JSON), in.bodySent())
}

func (in *httpInput) bodySent() bool { return in.SendBody || len(in.JSON) > 0 }

func (in *httpInput) query() string {
	q := url.Values{}
	for k, v := range in.Form {
		switch x := v.(type) {
		case string:
			q.Add(k, x)
		case []any:
			for _, el := range x {
				q.Add(k, fmt.Sprint(el))
			}
		}
	}
	return q.Encode()
}

func (in *httpInput) request() *http.Request {
	var r *http.Request
	var err error
	if in.bodySent() {
		r, err = http.NewRequest(http.MethodPost, "http://localhost/x?"+in.query(), bytes.NewReader(renderJSON(in.JSON)))
		if err == nil {
			r.Header.Set("Content-Type", "application/json")
		}
	} else {
		r, err = http.NewRequest(http.MethodGet, "http://localhost/x?"+in.query(), nil)
	}
	if err != nil {
		panic("harness: " + err.Error())
	}
	for k, v := range in.Header {
		switch x := v.(type) {
		case string:
			r.Header[k] = []string{x}
		case []any:
			r.Header[k] = []string{} // a key without values is legal in an http.Header
			for _, el := range x {
				r.Header[k] = append(r.Header[k], fmt.Sprint(el))
			}
		case []string:
			r.Header[k] = x // possibly empty or nil
		}
	}
	vars := map[string]string{}
	for k, v := range in.Path {
		vars[k] = fmt.Sprint(v)
	}
	return pathvar.WithVars(r, vars)
}

func (in *httpInput) call(target any) error { return httpx.Parse(in.request(), target) }

// ---------------------------------------------------------------- panic fence (DESIGN §3.9)

type panicInfo struct {
	Msg   string
	Func  string // innermost go-zero function on the panicking stack
	Stack string
}

var typeWords = regexp.MustCompile(`(\*|\[\]|map\[string\])*(u?int(8|16|32|64)?|float(32|64)|string|bool|struct \{[^}]*\}|json\.Number|interface \{\})`)

func (p *panicInfo) key() string {
	msg := typeWords.ReplaceAllString(p.Msg, "T")
	return "C08/panic/" + kit.KeyPart(p.Func) + "/" + kit.KeyPart(msg)
}

type fence struct {
	f      *os.File
	path   string
	echo   bool
	writes int64
}

func newFence() *fence {
	dir := os.Getenv("VERIF_SCRATCH_DIR")
	if dir == "" {
		dir = "/var/tmp"
	}
	fc := &fence{echo: kit.GetEnv().Only != ""}
	fc.path = fmt.Sprintf("%s/c08-last-input-%d-%d.txt", dir, kit.GetEnv().Shard, os.Getpid())
	f, err := os.OpenFile(fc.path, os.O_CREATE|os.O_RDWR|os.O_TRUNC, 0o644)
	if err == nil {
		fc.f = f
	}
	return fc
}

func (fc *fence) close() {
	if fc.f != nil {
		fc.f.Close()
		os.Remove(fc.path)
	}
}

// guard writes the input to disk, then runs fn under recover().
func (fc *fence) guard(record func() string, fn func() error) (err error, pan *panicInfo) {
	if fc.f != nil || fc.echo {
		rec := record()
		if fc.f != nil {
			buf := fmt.Sprintf("%08d\n%s\n", len(rec), rec)
			fc.f.WriteAt([]byte(buf), 0)
			fc.writes++
		}
		if fc.echo {
			fmt.Fprintln(os.Stderr, "C08 input:", rec)
		}
	}
	defer func() {
		if r := recover(); r != nil {
			pan = &panicInfo{Msg: fmt.Sprint(r)}
			pcs := make([]uintptr, 64)
			n := runtime.Callers(2, pcs)
			frames := runtime.CallersFrames(pcs[:n])
			var sb strings.Builder
			for {
				fr, more := frames.Next()
				fmt.Fprintf(&sb, "%s\n\t%s:%d\n", fr.Function, fr.File, fr.Line)
				if pan.Func == "" && strings.Contains(fr.Function, "zeromicro/go-zero/") {
					fn := fr.Function
					if i := strings.LastIndex(fn, "/"); i >= 0 {
						fn = fn[i+1:]
					}
					pan.Func = fn
				}
				if !more {
					break
				}
			}
			pan.Stack = sb.String()
		}
	}()
	err = fn()
	return
}

var _ = reflect.TypeOf
