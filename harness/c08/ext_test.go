package c08

// Extensions of the C08 check (round 3):
//
//   - further entry points: UnmarshalYamlReader / UnmarshalTomlReader, Unmarshaler.UnmarshalValuer with
//     a Valuer of the harness, conf.LoadFromYamlBytes / LoadFromTomlBytes, httpx.Parse on requests
//     that carry only a query string resp. only path variables;
//   - family numshapes: number literals in every spelling the formats allow (exponent notation, one
//     significant digit at large / tiny magnitudes, whole values beyond 2^53 / 2^63, negative zero,
//     the extremes of the float and integer kinds, subnormals, integers for float fields) in JSON,
//     YAML and TOML documents; the reference decides on the numeric value;
//   - family sepvals: texts with list separators, quotes and blanks in header / form / path / string
//     values (the supplied text must arrive verbatim; such a text is no number; with options= the
//     whole text must be an option), options and defaults that contain commas themselves (escaped
//     in the tag), tags with blanks around their segments;
//   - family inherit: the `inherit` option (reference: the value supplied at the field's own
//     document level wins, else the nearest enclosing level that has the key, else the
//     required / optional / default rules).

import (
	"bytes"
	"encoding/json"
	"fmt"
	"math"
	"math/big"
	"reflect"
	"strconv"
	"strings"
	"testing"

	"github.com/zeromicro/go-zero/core/conf"
	"github.com/zeromicro/go-zero/core/mapping"

	"verifharness/kit"
)

// ---------------------------------------------------------------- further entry points

// vfValuer is a mapping.Valuer of the harness (UnmarshalValuer takes any implementation).
type vfValuer struct{ m map[string]any }

func (v vfValuer) Value(key string) (any, bool) {
	x, ok := v.m[key]
	return x, ok
}

var umValuer = mapping.NewUnmarshaler("json")

func init() {
	jsonCtx := func() *ctxD { return &ctxD{Name: "json", TagKey: "json"} }
	confCtx := func() *ctxD { return &ctxD{Name: "conf", TagKey: "json", Canon: strings.ToLower} }
	entries["yamlreader"] = &entry{Name: "yamlreader", Ctx: jsonCtx(), NoNull: true, Canonical: true,
		Doc: func(t map[string]any) string { return string(renderYAML(t)) },
		Call: func(t map[string]any, v any) error {
			return mapping.UnmarshalYamlReader(bytes.NewReader(renderYAML(t)), v)
		}}
	entries["tomlreader"] = &entry{Name: "tomlreader", Ctx: jsonCtx(), NoNull: true, Canonical: true, Int63: true,
		Doc: func(t map[string]any) string { return string(renderTOML(t)) },
		Call: func(t map[string]any, v any) error {
			return mapping.UnmarshalTomlReader(bytes.NewReader(renderTOML(t)), v)
		}}
	entries["valuer"] = &entry{Name: "valuer", ByRef: true, Ctx: jsonCtx(), Doc: jsonDoc,
		Call: func(t map[string]any, v any) error { return umValuer.UnmarshalValuer(vfValuer{t}, v) }}
	entries["confyaml"] = &entry{Name: "confyaml", Respell: true, Ctx: confCtx(), NoNull: true, Canonical: true,
		Doc:  func(t map[string]any) string { return string(renderYAML(t)) },
		Call: func(t map[string]any, v any) error { return conf.LoadFromYamlBytes(renderYAML(t), v) }}
	entries["conftoml"] = &entry{Name: "conftoml", Respell: true, Ctx: confCtx(), NoNull: true, Canonical: true, Int63: true,
		Doc:  func(t map[string]any) string { return string(renderTOML(t)) },
		Call: func(t map[string]any, v any) error { return conf.LoadFromTomlBytes(renderTOML(t), v) }}
	// httpx.Parse on a request that carries only a query string / only path variables
	entries["httpform"] = &entry{Name: "httpform", Ctx: httpCtx["form"], NoNull: true, NoMaps: true,
		Doc: func(t map[string]any) string { return (&httpInput{Form: t}).doc() },
		Call: func(t map[string]any, v any) error {
			return (&httpInput{JSON: map[string]any{}, Form: t, Path: map[string]any{}, Header: map[string]any{}}).call(v)
		}}
	entries["httppath"] = &entry{Name: "httppath", Ctx: httpCtx["path"], NoNull: true, NoMaps: true, NoLists: true,
		Doc: func(t map[string]any) string { return (&httpInput{Path: t}).doc() },
		Call: func(t map[string]any, v any) error {
			return (&httpInput{JSON: map[string]any{}, Form: map[string]any{}, Path: t, Header: map[string]any{}}).call(v)
		}}
}

// ---------------------------------------------------------------- family: numshapes

// litNum is a number leaf of a document tree that is written with exactly this literal (the
// tree the reference reads holds the same value as a canonical json.Number).
type litNum string

func (l litNum) MarshalJSON() ([]byte, error) { return []byte(l), nil }

type numLit struct {
	shape string
	text  string
}

// shortExp turns 2e+06 / 1E-05 into 2e6 / 1E-5.
func shortExp(s string) string {
	i := strings.IndexAny(s, "eE")
	if i < 0 {
		return s
	}
	mant, exp := s[:i+1], s[i+1:]
	neg := strings.HasPrefix(exp, "-")
	exp = strings.TrimLeft(exp, "+-")
	exp = strings.TrimLeft(exp, "0")
	if exp == "" {
		exp = "0"
	}
	if neg {
		exp = "-" + exp
	}
	return mant + exp
}

// floatLiterals: the spellings of v (a value of the kind) the formats allow.
func floatLiterals(v float64, k reflect.Kind, e *entry) []numLit {
	bits := bitsOf(k)
	g := strconv.FormatFloat(v, 'g', -1, bits)
	ee := strconv.FormatFloat(v, 'e', -1, bits)
	f := strconv.FormatFloat(v, 'f', -1, bits)
	out := []numLit{{"shortest", g}, {"exp", ee}, {"EXP", strings.ToUpper(ee)}, {"exp-short", shortExp(ee)}}
	whole := !strings.ContainsRune(f, '.')
	if whole {
		out = append(out, numLit{"fixed-point-zero-fraction", f + ".0"})
		// an integer literal for a float field; TOML integers are 64 bit, and a float without
		// fraction beyond that cannot be written there
		if !e.Int63 || math.Abs(v) < 1<<62 {
			out = append(out, numLit{"integer-literal", f})
		}
	} else {
		out = append(out, numLit{"fixed", f})
	}
	if v == 0 && math.Signbit(v) {
		// -0 as an integer literal is the integer 0 in YAML / TOML
		out = []numLit{{"shortest", "-0.0"}, {"exp", "-0e0"}, {"exp-short", "-0.0e0"}}
	}
	seen := map[string]bool{}
	uniq := out[:0]
	for _, l := range out {
		if !seen[l.text] {
			seen[l.text] = true
			uniq = append(uniq, l)
		}
	}
	return uniq
}

func pow2(n int) float64 { return math.Ldexp(1, n) }

// numValues: the values of a float kind that the family writes.
func numFloatValues(k reflect.Kind, r *kit.Rand) []float64 {
	vs := []float64{0, 1, -1.5, 0.5, 100, 999999, 1000000, 0.0001, 0.00009, 1500000, 0.00015,
		// one significant digit, magnitude >= 1e6 or < 1e-4
		1e6, 2e6, -4e6, 3e7, 5e9, 1e10, 7e15, 1e20, 1e21, 1e22, 6e30, 1e-5, 2e-5, -9e-5, 3e-7, 5e-10, 1e-20, 8e-30,
		// two significant digits
		2.5e10, 1.5e-5, -3.5e21,
		// whole values around 2^53, 2^63, 2^64
		pow2(53), pow2(53) + 2, -pow2(53), pow2(62), pow2(63), -pow2(63), pow2(64), pow2(65),
		math.Copysign(0, -1),
		math.MaxFloat32, -math.MaxFloat32, math.SmallestNonzeroFloat32, float64(math.Float32frombits(0x00800000)), 1e38, 1e-38, 1e-45}
	if k == reflect.Float64 {
		vs = append(vs, math.MaxFloat64, -math.MaxFloat64, math.SmallestNonzeroFloat64, 2.2250738585072014e-308, 1e100, 7e100, 1e300, 1e-100, 1e-300, 3e-320, pow2(53)+1)
	}
	for i := 0; i < 6; i++ {
		vs = append(vs, magnitudeFloat(r, k))
	}
	out := vs[:0]
	for _, v := range vs {
		if k == reflect.Float32 {
			v = float64(float32(v))
			if math.IsInf(v, 0) {
				continue
			}
		}
		out = append(out, v)
	}
	return out
}

var numShapeEntries = []string{"json", "jsonreader", "yaml", "yamlreader", "toml", "tomlreader", "conf", "confyaml", "conftoml"}

func (h *harness) runNumShapes(t *testing.T) {
	var kinds []reflect.Kind
	for _, k := range allPrims {
		if isNumeric(k) {
			kinds = append(kinds, k)
		}
	}
	h.run(t, "numshapes", len(kinds)*len(numShapeEntries), func(c *kit.Case) {
		k := kinds[c.Index%len(kinds)]
		e := entries[numShapeEntries[c.Index/len(kinds)]]
		r := c.R
		mk := func(rng *rangeD, ptr int) *structD {
			return &structD{Fields: []*fieldD{
				{GoName: "A", Src: "json", Key: "a", Kind: k, Ptr: ptr, Rng: rng},
				{GoName: "L", Src: "json", Key: "l", Kind: reflect.Slice, Opt: optPlain, Elem: &fieldD{Kind: k}},
				{GoName: "M", Src: "json", Key: "m", Kind: reflect.Map, Opt: optPlain, Elem: &fieldD{Kind: k}},
				{GoName: "Z", Src: "json", Key: "z", Kind: reflect.String, Opt: optPlain, HasDef: true, Def: "dz"},
			}}
		}
		eval := func(sd *structD, canon, lit, classes string, everywhere bool) {
			ref := map[string]any{"a": json.Number(canon)}
			doc := map[string]any{"a": litNum(lit)}
			if everywhere {
				ref["l"], ref["m"] = []any{json.Number(canon)}, map[string]any{"m0": json.Number(canon)}
				doc["l"], doc["m"] = []any{litNum(lit)}, map[string]any{"m0": litNum(lit)}
			}
			kit.Obs("number_literals_written", 1)
			h.evalOne(c, &evalReq{sd: sd, ss: oneSource(e, ref), entry: e.Name, ctxName: e.Ctx.Name, classes: classes,
				doc: func() string { return e.Doc(doc) }, call: func(t any) error { return e.Call(doc, t) }})
		}
		if isFloat(k) {
			ranges := []*rangeD{nil, rg(0, 0, true, false, true, true), rg(0, 1, true, true, false, true), rg(-1e12, 1e12, true, true, true, true), rg(0, 1e300, false, true, true, false)}
			for vi, v := range numFloatValues(k, r) {
				rng := ranges[(vi+c.Index)%len(ranges)]
				sd := mk(rng, (vi+c.Index)%3/2)
				canon := floatText(v, k)
				mag := "mid"
				switch a := math.Abs(v); {
				case a == 0:
					mag = "zero"
				case a >= 1e21:
					mag = "huge"
				case a >= 1e6:
					mag = "large"
				case a < 1e-4:
					mag = "tiny"
				}
				for li, l := range floatLiterals(v, k, e) {
					kit.Obs("float_literal_"+l.shape, 1)
					if mag == "large" || mag == "huge" || mag == "tiny" {
						kit.Obs("float_literals_magnitude_outside_1e-4_1e6", 1)
					}
					eval(sd, canon, l.text, fmt.Sprintf("numshapes:float:%s:%s", mag, l.shape), li%2 == 0)
				}
			}
			return
		}
		// integer kinds: the extremes of every width (and their neighbours), as decimal literals
		lo, hi := kindMin(k), kindMax(k)
		type iv struct {
			name string
			text string
		}
		var ivs []iv
		add := func(name string, b interface{ String() string }) { ivs = append(ivs, iv{name, b.String()}) }
		add("kind-min", lo)
		add("kind-max", hi)
		add("kind-min-1", new(big.Int).Sub(lo, big.NewInt(1)))
		add("kind-max+1", new(big.Int).Add(hi, big.NewInt(1)))
		add("kind-max-1", new(big.Int).Sub(hi, big.NewInt(1)))
		for _, w := range []reflect.Kind{reflect.Int8, reflect.Int16, reflect.Int32, reflect.Int64, reflect.Uint8, reflect.Uint16, reflect.Uint32, reflect.Uint64} {
			add("min-of-"+w.String(), kindMin(w))
			add("max-of-"+w.String(), kindMax(w))
			add("max-of-"+w.String()+"+1", new(big.Int).Add(kindMax(w), big.NewInt(1)))
		}
		ivs = append(ivs, iv{"zero", "0"}, iv{"minus-one", "-1"}, iv{"2^53+1", "9007199254740993"})
		ranges := []*rangeD{nil, rg(0, 0, true, false, true, true), rg(-1000, 1000, true, true, true, true), rg(0, 1.8446744073709552e19, true, true, false, true)}
		for vi, x := range ivs {
			b, _ := new(big.Int).SetString(x.text, 10)
			if e.Int63 && !b.IsInt64() {
				continue
			}
			if e.Canonical && !b.IsInt64() && !b.IsUint64() {
				continue
			}
			rng := ranges[(vi+c.Index)%len(ranges)]
			sd := mk(rng, (vi+c.Index)%3/2)
			kit.Obs("integer_extremes_written", 1)
			eval(sd, x.text, x.text, "numshapes:int:"+x.name, vi%2 == 0)
		}
	})
}

// ---------------------------------------------------------------- family: sepvals

var sepValEntries = []string{"headerlike", "formlike", "pathlike", "httphdr", "httpform", "httppath", "strvals", "json", "yaml", "toml"}

// fixed texts for string fields: what real clients send in such parameters
var sepStringValues = append([]string{"plain", "fast,turbo", "fast, safe", "fast", "safe", " fast", "fast ", "fast;safe", "fast|safe", `"fast"`, "fast,", ",fast", "fast,fast",
	"a,b", "a,b,c", "c"}, sepTexts...)

func (h *harness) runSepVals(t *testing.T) {
	type sepCase struct {
		e *entry
		k reflect.Kind
	}
	var cases []sepCase
	for _, en := range sepValEntries {
		e := entries[en]
		if !e.Ctx.AllFromString {
			// number / bool leaves of a document have no separators; the string field is the subject there
			cases = append(cases, sepCase{e, reflect.String})
			continue
		}
		for _, k := range allPrims {
			cases = append(cases, sepCase{e, k})
		}
	}
	h.run(t, "sepvals", len(cases), func(c *kit.Case) {
		k, e := cases[c.Index].k, cases[c.Index].e
		r := c.R
		src := e.Ctx.TagKey
		type variant struct {
			opt     optMode
			options []string
			esc     bool
			brk     bool
			rng     *rangeD
			def     string
			ptr     int
			spaced  bool
		}
		var vars []variant
		switch {
		case k == reflect.String:
			vars = []variant{{}, {opt: optPlain}, {options: []string{"fast", "safe"}}, {options: []string{"fast", "safe"}, brk: true, opt: optPlain},
				{options: []string{"a,b", "c"}, esc: true}, {options: []string{"fast,turbo", "fast, safe", "x"}, esc: true, ptr: 1},
				{def: "d,e", esc: true}, {def: "fast", options: []string{"fast", "safe"}, spaced: true}, {ptr: 1, spaced: true}}
		case isInt(k) || isUint(k):
			vars = []variant{{}, {rng: rg(1, 100, true, true, true, true)}, {options: []string{"5", "7"}}, {rng: rg(1, 100, true, true, true, false), opt: optPlain, ptr: 1},
				{rng: rg(1, 100, true, true, true, true), def: "10", spaced: true}, {options: []string{"5", "7"}, brk: true, rng: rg(1, 9, true, true, true, true)}}
		case isFloat(k):
			vars = []variant{{}, {rng: rg(1, 100, true, true, true, true)}, {rng: rg(0.5, 0, true, false, false, true), opt: optPlain, ptr: 1}, {def: "2.5", spaced: true}}
		default:
			vars = []variant{{}, {opt: optPlain, ptr: 1}, {def: "true", spaced: true}}
		}
		for vi, va := range vars {
			f := &fieldD{GoName: "A", Src: src, Key: "x-Val", Kind: k, Ptr: va.ptr, Opt: va.opt, Options: va.options, OptBrk: va.brk, EscComma: va.esc, Rng: va.rng, Spaced: va.spaced}
			if va.def != "" {
				f.HasDef, f.Def = true, va.def
			}
			fields := []*fieldD{f}
			var lf *fieldD
			if !e.NoLists {
				lf = &fieldD{GoName: "L", Src: src, Key: "x-List", Kind: reflect.Slice, Opt: optPlain, Elem: &fieldD{Kind: k}, Spaced: va.spaced}
				fields = append(fields, lf)
			}
			fields = append(fields, &fieldD{GoName: "Z", Src: src, Key: "x-Other", Kind: reflect.Int, Opt: optPlain})
			sd := &structD{Fields: fields}
			key, lkey := e.Ctx.canon("x-Val"), e.Ctx.canon("x-List")
			n := 14
			if k == reflect.String {
				n = len(sepStringValues)
			}
			for i := 0; i < n; i++ {
				tree := map[string]any{}
				var val any
				cls := "separators-in-value"
				if k == reflect.String {
					val = sepStringValues[i]
				} else {
					val = sepValue(f, e, r)
				}
				tree[key] = val
				if lf != nil && (i+vi)%3 == 0 {
					// the same text (and a plain one) as members of a list field; repeated header lines /
					// repeated form keys
					first := val
					if arr, ok := val.([]any); ok {
						first = arr[0]
					}
					plain, _ := genLeaf(&fieldD{Kind: k}, vcValid, e, r)
					if (i+vi)%2 == 0 {
						tree[lkey] = []any{first, plain}
					} else {
						tree[lkey] = []any{plain, first, plain}
					}
					cls += ",list-members-with-separators"
				}
				if (i+vi)%5 == 4 && e.Ctx.FromArray {
					// repeated lines / keys for the scalar field
					if s, ok := val.(string); ok {
						plain, _ := genLeaf(f, vcValid, e, r)
						tree[key] = []any{s, plain}
						cls += ",repeated-key-for-scalar"
					}
				}
				kit.Obs("values_with_separators_supplied", 1)
				h.evalEntry(c, sd, e, tree, "sepvals:"+cls)
			}
		}
		if c.Index < 2 {
			c.Sample("sepvals", 2, map[string]any{"entry": e.Name, "kind": k.String(), "string_values": sepStringValues})
		}
	})
}

// ---------------------------------------------------------------- family: inherit

// resolveInherit returns the tree the reference reads: for every field tagged `inherit` the value
// supplied at the field's own level, else the one of the nearest enclosing document level that has
// the key (object values: the members the inner object lacks are taken from the enclosing one).
// chain holds the enclosing document levels, outermost first.
func resolveInherit(fields []*fieldD, tree map[string]any, chain []map[string]any, st *inheritStats) map[string]any {
	out := make(map[string]any, len(tree))
	for k, v := range tree {
		out[k] = v
	}
	levels := append(append([]map[string]any(nil), chain...), tree)
	for _, f := range fields {
		k := f.key()
		if f.Inherit {
			var cur any
			has := false
			for _, lv := range levels {
				v, ok := lv[k]
				if !ok {
					continue
				}
				vm, isMap := v.(map[string]any)
				cm, curMap := cur.(map[string]any)
				if has && isMap && curMap {
					merged := make(map[string]any, len(vm)+len(cm))
					for mk, mv := range cm {
						merged[mk] = mv
					}
					for mk, mv := range vm {
						merged[mk] = mv
					}
					cur = merged
					st.merged++
				} else {
					cur = v
				}
				has = true
			}
			_, own := tree[k]
			switch {
			case own:
				st.own++
			case has:
				st.fromEnclosing++
			default:
				st.nowhere++
			}
			if has {
				out[k] = cur
			}
		}
		if f.Kind == reflect.Struct && !f.Embedded {
			if m, ok := out[k].(map[string]any); ok {
				out[k] = resolveInherit(f.Sub.Fields, m, levels, st)
			}
		}
	}
	return out
}

type inheritStats struct{ own, fromEnclosing, nowhere, merged int }

var inheritEntries = []string{"json", "jsonmap", "yaml", "toml", "conf", "valuer", "lower", "jsonreader"}

func (h *harness) runInherit(t *testing.T, n int) {
	h.run(t, "inherit", n, func(c *kit.Case) {
		r := c.R
		e := entries[kit.Choose(r, inheritEntries)]
		g := &typeGen{r: r, e: e, tagKey: "json"}
		// the keys that are inherited: name, kind and constraints are the same at every level
		nk := r.Range(1, 3)
		var keys []*fieldD
		for i := 0; i < nk; i++ {
			p := &fieldD{Src: "json", Key: []string{"host", "port", "mode"}[i] + strconv.Itoa(r.Intn(3)), Kind: g.scalarKind()}
			if isNumeric(p.Kind) && r.Chance(0.6) {
				p.Rng = genRange(r, p.Kind)
			}
			if (isInt(p.Kind) || isUint(p.Kind) || p.Kind == reflect.String) && r.Chance(0.35) {
				genOptions(r, p)
			}
			keys = append(keys, p)
		}
		// a struct-typed inherited key (as zrpc's `Etcd discov.EtcdConf json:",optional,inherit"`)
		withObj := r.Chance(0.4)
		objSub := func() *structD {
			return &structD{Fields: []*fieldD{
				{GoName: "Hosts", Src: "json", Key: "hosts", Kind: reflect.Slice, Elem: &fieldD{Kind: reflect.String}},
				{GoName: "Key", Src: "json", Key: "key", Kind: reflect.String},
				{GoName: "Ttl", Src: "json", Key: "ttl", Kind: reflect.Int, Opt: optPlain, Rng: rg(1, 60, true, true, true, true)},
			}}
		}
		depth := r.Range(2, 3)
		var build func(level int) *structD
		nextName := 0
		build = func(level int) *structD {
			sd := &structD{}
			for _, p := range keys {
				declared := r.Chance(0.7)
				if level == depth {
					declared = true
				}
				if !declared {
					continue
				}
				f := *p
				nextName++
				f.GoName = fmt.Sprintf("K%d", nextName)
				f.Inherit = level > 0 && r.Chance(0.85) || level == 0 && r.Chance(0.2)
				f.Ptr = r.Pick(5, 1)
				switch r.Pick(4, 3, 2) {
				case 1:
					f.Opt = optPlain
				case 2:
					genDefault(r, &f)
				}
				f.Shuffle = r.Uint64() | 1
				sd.Fields = append(sd.Fields, &f)
			}
			if withObj && (level > 0 || r.Bool()) {
				nextName++
				sd.Fields = append(sd.Fields, &fieldD{GoName: fmt.Sprintf("O%d", nextName), Src: "json", Key: "etcd", Kind: reflect.Struct, Sub: objSub(),
					Opt: optMode(r.Pick(1, 2)), Inherit: level > 0, Ptr: r.Pick(4, 1)})
			}
			if level < depth {
				nextName++
				sd.Fields = append(sd.Fields, &fieldD{GoName: fmt.Sprintf("S%d", nextName), Src: "json", Key: []string{"mid", "leaf", "deep"}[level], Kind: reflect.Struct,
					Sub: build(level + 1), Ptr: r.Pick(3, 1), Opt: optMode(r.Pick(3, 1))})
			}
			if r.Chance(0.3) {
				nextName++
				sd.Fields = append(sd.Fields, &fieldD{GoName: fmt.Sprintf("X%d", nextName), Src: "json", Key: "other" + strconv.Itoa(level), Kind: reflect.Int, Opt: optPlain})
			}
			return sd
		}
		sd := build(0)
		for i := 0; i < 10; i++ {
			ig := &inputGen{r: r, e: e}
			var fill func(sd *structD, level int) map[string]any
			fill = func(sd *structD, level int) map[string]any {
				tree := map[string]any{}
				// every inherited key may be written at every level, declared there or not
				for _, p := range keys {
					if !r.Chance(0.45) {
						continue
					}
					cls := vcValid
					if i >= 4 && r.Chance(0.2) {
						cls = kit.Choose(r, []vclass{vcFar, vcOptOut, vcBelowLo, vcAboveHi, vcWrongStr})
					}
					if v, ok := genLeaf(p, cls, e, r); ok {
						tree[p.key()] = v
						ig.classes = append(ig.classes, fmt.Sprintf("L%d.%s=%s", level, p.key(), cls))
					}
				}
				if withObj && r.Chance(0.45) {
					o := ig.validTree(objSub(), e, 1)
					if r.Chance(0.5) {
						// a partial object: the enclosing one completes it
						delete(o, kit.Choose(r, []string{"hosts", "key", "ttl"}))
					}
					if i >= 4 && r.Chance(0.15) {
						o["ttl"] = json.Number("99")
					}
					tree["etcd"] = o
					ig.classes = append(ig.classes, fmt.Sprintf("L%d.etcd=%d-members", level, len(o)))
				}
				for _, f := range sd.Fields {
					if f.Kind == reflect.Struct && f.Key != "etcd" {
						// the structs of the chain are always supplied (possibly empty)
						tree[f.key()] = fill(f.Sub, level+1)
					}
					if strings.HasPrefix(f.Key, "other") && r.Bool() {
						tree[f.key()] = json.Number("3")
					}
				}
				return tree
			}
			tree := fill(sd, 0)
			st := &inheritStats{}
			resolved := resolveInherit(sd.Fields, tree, nil, st)
			kit.Obs("inherit_value_at_own_level", int64(st.own))
			kit.Obs("inherit_value_from_enclosing_level", int64(st.fromEnclosing))
			kit.Obs("inherit_value_nowhere", int64(st.nowhere))
			kit.Obs("inherit_objects_merged", int64(st.merged))
			q := entryReq(sd, e, tree, "inherit:"+strings.Join(ig.classes, ","))
			q.ss = oneSource(e, resolved)
			q.ctxName = "inherit-" + e.Ctx.Name
			h.evalOne(c, q)
			if c.Index < 2 && i == 5 {
				c.Sample("inherit", 2, map[string]any{"entry": e.Name, "type": sd.describe(), "input": e.Doc(tree), "effective_input_for_the_reference": jsonDoc(resolved)})
			}
		}
	})
}
