package c08

import (
	"encoding/json"
	"fmt"
	"math"
	"reflect"
	"strconv"
	"strings"
)

// ctxD says how one unmarshaler instance reads its input (which tag key, whether
// every value arrives as a string, key canonicalisation).
type ctxD struct {
	Name          string
	TagKey        string
	AllFromString bool // WithStringValues
	FromArray     bool // WithFromArray
	Native        bool // leaves are Go values of the field's own kind (UnmarshalKey on a hand-built map)
	Canon         func(string) string
	NullClass     string // how a null reaches go-zero ("" = as a nil value: JSON null, nil map value; "yaml-null": a YAML null that the YAML->JSON step renders); goes into keys
}

// nullClass names the kind of null of this context for violation keys.
func (c *ctxD) nullClass() string {
	if c.NullClass != "" {
		return c.NullClass
	}
	return "null"
}

func (c *ctxD) canon(k string) string {
	if c.Canon != nil {
		return c.Canon(k)
	}
	return k
}

// source = one input tree together with the unmarshaler context that reads it.
type source struct {
	ctx  *ctxD
	tree map[string]any
}

// sources maps a tag key to the source that feeds the fields declared under it.
type sources map[string]*source

func (ss sources) all() []*source {
	out := make([]*source, 0, len(ss))
	for _, k := range []string{"json", "form", "path", "header", "key", "cfg"} {
		if s := ss[k]; s != nil {
			out = append(out, s)
		}
	}
	return out
}

// readers: the sources (of the candidates) whose unmarshaler reads field f: go-zero skips a
// tagged field that lacks the unmarshaler's tag key; an untagged field is read by everyone.
func readers(cands []*source, f *fieldD) []*source {
	var out []*source
	for _, s := range cands {
		if f.NoTag || f.Src == s.ctx.TagKey {
			out = append(out, s)
		}
	}
	return out
}

type reason struct {
	Kind     string // required-missing | range-not-enforced | option-not-enforced
	Class    string // option combination + dependency state
	Path     string
	What     string
	Supplied bool // the clause is about a supplied value (binds even inside optional embedded structs)
}

// verdict of the reference validator for one (type, input).
type verdict struct {
	must    []reason // if the call succeeds, each of these is a soundness violation
	unknown []string // reasons why acceptance is not demanded (completeness not asserted)
	// what the reference looked at
	nRangeIn, nRangeOut, nOptIn, nOptOut, nDep, nDepReject, nDefault, nRequiredMissing, nSupplied, nAbsentOptional int
	// explicit nulls: for a scalar that is required in its context (must be rejected), for an optional scalar
	// (zero / nil expected), where the statement is silent (defaulted, non-scalar, ambiguous dependency)
	nNullRequired, nNullOptional, nNullSilent int
}

func (v *verdict) acceptDemanded() bool { return len(v.must) == 0 && len(v.unknown) == 0 }

func (v *verdict) nontrivial() bool {
	return v.nRangeIn+v.nRangeOut+v.nOptIn+v.nOptOut+v.nDep+v.nDefault+v.nRequiredMissing > 0
}

func (v *verdict) unk(format string, a ...any) {
	if len(v.unknown) < 8 {
		v.unknown = append(v.unknown, fmt.Sprintf(format, a...))
	} else {
		v.unknown = append(v.unknown[:8], "…")
	}
}

func (v *verdict) mustReject(kind, class, path, what string) {
	v.must = append(v.must, reason{kind, class, path, what, kind != "required-missing"})
}

func joinPath(a, b string) string {
	if a == "" {
		return b
	}
	return a + "." + b
}

// reference evaluates the declared constraints of sd against the inputs.
func reference(sd *structD, ss sources) *verdict {
	v := &verdict{}
	v.evalFields(sd.Fields, ss.all(), nil, "")
	return v
}

// evalFields: cands are the sources that read the enclosing struct. tree == nil means "each
// source's own top-level tree" (top level and untagged embedded structs below it).
func (v *verdict) evalFields(fields []*fieldD, cands []*source, tree map[string]any, path string) {
	for _, f := range fields {
		if f.Ignore {
			continue
		}
		for _, s := range readers(cands, f) {
			t := tree
			if t == nil {
				t = s.tree
			}
			if f.Embedded {
				v.evalEmbedded(f, s, tree, t, path)
			} else {
				v.evalField(f, s, t, path)
			}
		}
	}
}

func (v *verdict) evalEmbedded(f *fieldD, s *source, inherited, tree map[string]any, path string) {
	if f.Opt == optNone {
		v.evalFields(f.Sub.Fields, []*source{s}, inherited, path)
		return
	}
	// `,optional` on an embedded struct: go-zero fills it only if some member is present and
	// then wants all non-optional members. The statement does not define this; the reference
	// only demands acceptance when no member or every member is present.
	present, all := 0, true
	for _, c := range f.Sub.Fields {
		if _, ok := tree[s.ctx.canon(c.key())]; ok {
			present++
		} else if c.Opt != optPlain {
			all = false
		}
		if c.Opt == optDep || c.Opt == optNotDep {
			v.unk("optional embedded struct %s has a member with a dependency rule", f.GoName)
		}
	}
	if present == 0 {
		return
	}
	if !all {
		v.unk("optional embedded struct %s partially supplied", f.GoName)
	}
	for _, c := range f.Sub.Fields {
		sub := &verdict{}
		sub.evalFields([]*fieldD{c}, []*source{s}, tree, path)
		// range / option violations of supplied members still bind; a missing direct member of
		// an optional embedded struct is not claimed either way
		own := joinPath(path, c.key())
		for _, r := range sub.must {
			if r.Kind == "required-missing" && r.Path == own {
				v.unk("member %s of optional embedded struct %s missing", own, f.GoName)
				continue
			}
			r.Class = "in-optional-embedded" // one key class for everything below an optional embedded struct
			v.must = append(v.must, r)
		}
		v.unknown = append(v.unknown, sub.unknown...)
		v.add(sub)
	}
}

func (v *verdict) add(o *verdict) {
	v.nRangeIn += o.nRangeIn
	v.nRangeOut += o.nRangeOut
	v.nOptIn += o.nOptIn
	v.nOptOut += o.nOptOut
	v.nDep += o.nDep
	v.nDepReject += o.nDepReject
	v.nDefault += o.nDefault
	v.nRequiredMissing += o.nRequiredMissing
	v.nSupplied += o.nSupplied
	v.nAbsentOptional += o.nAbsentOptional
	v.nNullRequired += o.nNullRequired
	v.nNullOptional += o.nNullOptional
	v.nNullSilent += o.nNullSilent
}

func (v *verdict) evalField(f *fieldD, s *source, tree map[string]any, path string) {
	ctx := s.ctx
	leaf, present := tree[ctx.canon(f.key())]
	null := present && leaf == nil
	p := joinPath(path, f.key())
	cls := f.Opt.String()
	if f.Inherit {
		cls += "+inherit"
	}
	optional := f.Opt == optPlain
	ambiguous := false // the dependency key is in the document with a null value
	if f.Opt == optDep || f.Opt == optNotDep {
		v.nDep++
		dleaf, dpresent := tree[ctx.canon(f.Dep)]
		switch {
		case dpresent && dleaf == nil:
			cls += "+dep-present" // the key is in the document (with a null value)
			ambiguous = true
		case dpresent:
			cls += "+dep-present"
		default:
			cls += "+dep-absent"
		}
		if ctx.Canon != nil {
			cls += "+canon-keys"
		}
		if ambiguous {
			// was the dependency supplied? the statement does not say what a null dependency means
			v.unk("dependency rule of %s evaluated on a null value", p)
			optional = true
		} else if null {
			// the field's own key carries null: nothing was supplied for it. Whether it had to be
			// supplied follows from the dependency alone (optional=dep: required iff dep was supplied,
			// optional=!dep: required iff dep was not); the both-or-neither / exactly-one rule is not
			// claimed either way for a key that is present without a value (unknown below)
			if f.Opt == optDep {
				optional = !dpresent
			} else {
				optional = dpresent
			}
		} else if f.Opt == optDep {
			optional = !dpresent
			if dpresent != present {
				v.nDepReject++
				v.unk("%s: optional=%s wants both or neither", p, f.Dep)
			}
		} else {
			optional = dpresent
			if dpresent == present {
				v.nDepReject++
				v.unk("%s: optional=!%s wants exactly one", p, f.Dep)
			}
		}
	}

	if !present {
		switch {
		case f.scalar():
			if f.HasDef {
				v.nDefault++
			} else if !optional {
				v.nRequiredMissing++
				v.mustReject("required-missing", cls, p, "scalar field without optional/default was not supplied")
			} else {
				v.nAbsentOptional++
			}
		case f.Kind == reflect.Struct:
			if optional {
				v.nAbsentOptional++
				return
			}
			// an absent non-optional struct: its own required scalars were not supplied either
			v.unk("non-optional struct %s absent", p)
			v.evalFields(f.Sub.Fields, []*source{s}, map[string]any{}, p)
		default:
			if f.Kind == reflect.Slice && f.HasDef {
				v.nDefault++
			} else if !optional && !f.HasDef {
				v.unk("non-optional %s %s absent", f.Kind, p)
			}
		}
		return
	}
	if null {
		v.unk("null supplied for %s", p)
		switch {
		case !f.scalar() || f.HasDef || ambiguous:
			v.nNullSilent++ // the statement is silent: no panic, the same outcome on a repeat
		case !optional:
			// a scalar that is neither optional nor defaulted in this context, and no value for it
			v.nRequiredMissing++
			v.nNullRequired++
			v.mustReject("required-missing", ctx.nullClass()+"/"+cls, p, "null for a scalar field that is neither optional nor defaulted in this context: it was not supplied")
		default:
			v.nNullOptional++ // accepted: zero value / nil pointer (compareTarget)
		}
		return
	}
	v.nSupplied++
	switch f.Kind {
	case reflect.Struct:
		m, ok := leaf.(map[string]any)
		if !ok {
			v.unk("%s: not an object", p)
			return
		}
		v.evalFields(f.Sub.Fields, []*source{s}, m, p)
	case reflect.Slice:
		arr, ok := asArray(leaf)
		if !ok {
			v.unk("%s: not an array", p)
			return
		}
		if len(arr) == 0 && ctx.AllFromString {
			v.unk("%s: empty list in a string-valued source", p)
		}
		for i, el := range arr {
			v.evalElem(f.Elem, s, el, fmt.Sprintf("%s[%d]", p, i))
		}
		if f.Rng != nil || len(f.Options) > 0 || f.FromStr {
			v.unk("%s: scalar options on a slice", p)
		}
	case reflect.Map:
		if f.IntKey {
			v.unk("%s: a map that is not keyed by strings", p)
			return
		}
		m, ok := leaf.(map[string]any)
		if !ok {
			v.unk("%s: not an object", p)
			return
		}
		for k, el := range m {
			v.evalElem(f.Elem, s, el, fmt.Sprintf("%s[%s]", p, k))
		}
		if f.Rng != nil || len(f.Options) > 0 || f.FromStr {
			v.unk("%s: scalar options on a map", p)
		}
	default:
		v.evalScalar(f, ctx, leaf, p, cls)
	}
}

func (v *verdict) evalElem(e *fieldD, s *source, el any, p string) {
	if el == nil {
		v.nNullSilent++
		v.unk("%s: null element", p)
		return
	}
	switch e.Kind {
	case reflect.Struct:
		m, ok := el.(map[string]any)
		if !ok {
			v.unk("%s: element is not an object", p)
			return
		}
		v.evalFields(e.Sub.Fields, []*source{s}, m, p)
	case reflect.Slice:
		arr, ok := asArray(el)
		if !ok {
			v.unk("%s: element is not an array", p)
			return
		}
		for i, x := range arr {
			v.evalElem(e.Elem, s, x, fmt.Sprintf("%s[%d]", p, i))
		}
	case reflect.Map:
		m, ok := el.(map[string]any)
		if !ok {
			v.unk("%s: element is not an object", p)
			return
		}
		for k, x := range m {
			v.evalElem(e.Elem, s, x, fmt.Sprintf("%s[%s]", p, k))
		}
	default:
		if !typedCorrect(e.Kind, el, s.ctx, s.ctx.AllFromString) {
			v.unk("%s: element not correctly typed", p)
		}
	}
}

func (v *verdict) evalScalar(f *fieldD, ctx *ctxD, leaf any, p, cls string) {
	if ctx.FromArray {
		if arr, ok := asArray(leaf); ok {
			if len(arr) != 1 {
				v.unk("%s: several values for a scalar", p)
			}
			if len(arr) == 0 {
				return
			}
			leaf = arr[0]
		}
	}
	fromStr := ctx.AllFromString || f.FromStr
	if !typedCorrect(f.Kind, leaf, ctx, fromStr) {
		v.unk("%s: value not correctly typed for %s", p, f.Kind)
	}
	if f.FromStr && f.Kind == reflect.String {
		v.unk("%s: `string` option on a string field", p)
	}
	if f.Rng != nil {
		if isNumeric(f.Kind) {
			if x, ok := numericValue(leaf); ok {
				if math.IsNaN(x) {
					v.nRangeOut++
					v.must = append(v.must, reason{"range-not-enforced", "NaN", p, fmt.Sprintf("supplied %v is not a number inside range=%s", show(leaf), f.Rng.text()), true})
				} else if f.Rng.contains(x) {
					v.nRangeIn++
				} else {
					v.nRangeOut++
					v.mustReject("range-not-enforced", cls, p, fmt.Sprintf("supplied %v lies outside range=%s", show(leaf), f.Rng.text()))
				}
			}
		} else {
			v.unk("%s: range on a %s field", p, f.Kind)
		}
	}
	if len(f.Options) > 0 {
		if isInt(f.Kind) || isUint(f.Kind) || f.Kind == reflect.String {
			if text, ok := leafText(leaf); ok {
				switch {
				case containsStr(f.Options, text):
					v.nOptIn++
				case f.Kind != reflect.String && canonicalIntIn(f.Options, text):
					v.unk("%s: option given in non-canonical spelling", p)
				default:
					v.nOptOut++
					v.mustReject("option-not-enforced", cls, p, fmt.Sprintf("supplied %v is not one of options %v", show(leaf), f.Options))
				}
			}
		} else {
			v.unk("%s: options on a %s field", p, f.Kind)
		}
	}
}

func show(leaf any) string {
	switch x := leaf.(type) {
	case json.Number:
		return string(x)
	case string:
		return strconv.Quote(x)
	}
	return fmt.Sprintf("%T(%v)", leaf, leaf)
}

func containsStr(xs []string, s string) bool {
	for _, x := range xs {
		if x == s {
			return true
		}
	}
	return false
}

func canonicalIntIn(opts []string, text string) bool {
	if i, err := strconv.ParseInt(text, 10, 64); err == nil {
		return containsStr(opts, strconv.FormatInt(i, 10))
	}
	if u, err := strconv.ParseUint(text, 10, 64); err == nil {
		return containsStr(opts, strconv.FormatUint(u, 10))
	}
	return false
}

func asArray(leaf any) ([]any, bool) {
	switch x := leaf.(type) {
	case []any:
		return x, true
	case []string:
		r := make([]any, len(x))
		for i, s := range x {
			r[i] = s
		}
		return r, true
	}
	return nil, false
}

// leafText is the text a textual constraint (options) is compared with.
func leafText(leaf any) (string, bool) {
	switch x := leaf.(type) {
	case json.Number:
		return string(x), true
	case string:
		return x, true
	case bool, nil, []any, map[string]any, []string:
		return "", false
	}
	rv := reflect.ValueOf(leaf)
	switch {
	case rv.CanInt():
		return strconv.FormatInt(rv.Int(), 10), true
	case rv.CanUint():
		return strconv.FormatUint(rv.Uint(), 10), true
	}
	return "", false
}

// numericValue is the number a supplied leaf denotes (for the range clause).
func numericValue(leaf any) (float64, bool) {
	switch x := leaf.(type) {
	case json.Number:
		f, err := strconv.ParseFloat(string(x), 64)
		return f, err == nil
	case string:
		f, err := strconv.ParseFloat(x, 64)
		return f, err == nil
	case bool, nil, []any, map[string]any, []string:
		return 0, false
	}
	rv := reflect.ValueOf(leaf)
	switch {
	case rv.CanInt():
		return float64(rv.Int()), true
	case rv.CanUint():
		return float64(rv.Uint()), true
	case rv.CanFloat():
		return rv.Float(), true
	}
	return 0, false
}

func canonicalInt(s string, k reflect.Kind) bool {
	if isInt(k) {
		i, err := strconv.ParseInt(s, 10, bitsOf(k))
		return err == nil && strconv.FormatInt(i, 10) == s
	}
	u, err := strconv.ParseUint(s, 10, bitsOf(k))
	return err == nil && strconv.FormatUint(u, 10) == s
}

func canonicalFloat(s string, k reflect.Kind) bool {
	bits := bitsOf(k)
	f, err := strconv.ParseFloat(s, bits)
	if err != nil || math.IsInf(f, 0) || math.IsNaN(f) {
		return false
	}
	if s == "-0" {
		return false
	}
	return strconv.FormatFloat(f, 'g', -1, bits) == s || strconv.FormatFloat(f, 'f', -1, bits) == s
}

// typedCorrect: is the leaf a "correctly typed value" for a field of this kind in this
// context (the completeness clause is only claimed for those).
func typedCorrect(k reflect.Kind, leaf any, ctx *ctxD, fromStr bool) bool {
	if fromStr {
		s, ok := leaf.(string)
		if !ok {
			return false
		}
		switch {
		case isInt(k) || isUint(k):
			return canonicalInt(s, k)
		case isFloat(k):
			return canonicalFloat(s, k)
		case k == reflect.Bool:
			return s == "true" || s == "false"
		case k == reflect.String:
			return s != "" || !ctx.AllFromString
		}
		return false
	}
	switch x := leaf.(type) {
	case json.Number:
		switch {
		case isInt(k) || isUint(k):
			return canonicalInt(string(x), k)
		case isFloat(k):
			return canonicalFloat(string(x), k)
		}
		return false
	case string:
		return k == reflect.String
	case bool:
		return k == reflect.Bool
	case nil, []any, map[string]any, []string:
		return false
	}
	// Go-native leaf: exactly the field's kind
	return ctx.Native && reflect.ValueOf(leaf).Kind() == k
}

// interpret: the value a supplied leaf denotes for a field of kind k, read leniently (any
// spelling the kind's standard parser takes). ok=false: the leaf denotes no value of that kind.
func interpret(k reflect.Kind, leaf any) (any, bool) {
	var text string
	switch x := leaf.(type) {
	case json.Number:
		text = string(x)
	case string:
		text = x
	case bool:
		return x, k == reflect.Bool
	case nil, []any, map[string]any, []string:
		return nil, false
	default:
		rv := reflect.ValueOf(leaf)
		if rv.Kind() != k {
			return nil, false
		}
		switch {
		case rv.CanInt():
			return rv.Int(), true
		case rv.CanUint():
			return rv.Uint(), true
		case rv.CanFloat():
			return rv.Float(), true
		}
		return nil, false
	}
	switch {
	case isInt(k):
		i, err := strconv.ParseInt(text, 10, bitsOf(k))
		return i, err == nil
	case isUint(k):
		u, err := strconv.ParseUint(text, 10, bitsOf(k))
		return u, err == nil
	case isFloat(k):
		f, err := strconv.ParseFloat(text, 64)
		if err != nil {
			return nil, false
		}
		if k == reflect.Float32 {
			// a text is a float32 value iff the standard parser takes it with 32 bits (texts just
			// above MaxFloat32 round down to it)
			if _, err32 := strconv.ParseFloat(text, 32); err32 != nil {
				return nil, false
			}
			return float64(float32(f)), true
		}
		return f, true
	case k == reflect.Bool:
		switch strings.ToLower(text) {
		case "1", "true":
			return true, true
		case "0", "false":
			return false, true
		}
		return nil, false
	case k == reflect.String:
		return text, true
	}
	return nil, false
}

// ---------------------------------------------------------------- target comparison

type mismatch struct {
	Class string // supplied | default | absent | ignored
	Kind  string
	Path  string
	What  string
}

type comparer struct {
	ss       sources
	out      []mismatch
	compared int
	optEmb   bool // currently comparing something below an optional embedded struct
	inherit  bool // currently comparing a field tagged `inherit` (or something below it)
}

func (c *comparer) bad(class string, k reflect.Kind, path, format string, a ...any) {
	kind := kindClass(k)
	if c.inherit {
		class += "-or-inherited"
	}
	if c.optEmb {
		class, kind = "in-optional-embedded", "member"
	}
	if len(c.out) < 10 {
		c.out = append(c.out, mismatch{class, kind, path, fmt.Sprintf(format, a...)})
	}
}

func deref(v reflect.Value) (reflect.Value, bool) {
	for v.Kind() == reflect.Ptr {
		if v.IsNil() {
			return v, false
		}
		v = v.Elem()
	}
	return v, true
}

func derefZero(v reflect.Value) bool {
	d, ok := deref(v)
	return !ok || d.IsZero()
}

// compareTarget checks "the target holds exactly the supplied values with defaults filled
// for the absent ones" after a successful call.
func compareTarget(sd *structD, target reflect.Value, ss sources) *comparer {
	c := &comparer{ss: ss}
	c.fields(sd.Fields, target, ss.all(), nil, "", false)
	return c
}

// fields: see verdict.evalFields for cands / tree.
func (c *comparer) fields(fields []*fieldD, sv reflect.Value, cands []*source, tree map[string]any, path string, lenientAbsent bool) {
	for i, f := range fields {
		fv := sv.Field(i)
		p := joinPath(path, f.key())
		rd := readers(cands, f)
		if len(rd) == 0 || f.Ignore {
			c.compared++
			if !derefZero(fv) {
				c.bad("ignored", f.Kind, p, "field is not read under this tag key, yet holds %v", fv.Interface())
			}
			continue
		}
		if f.Embedded {
			d, ok := deref(fv)
			if f.Opt == optNone {
				if !ok {
					c.bad("supplied", f.Kind, p, "embedded struct pointer left nil")
					continue
				}
				c.fields(f.Sub.Fields, d, rd, tree, path, lenientAbsent)
				continue
			}
			s := rd[0]
			t := tree
			if t == nil {
				t = s.tree
			}
			anyPresent := false
			for _, ch := range f.Sub.Fields {
				if _, has := t[s.ctx.canon(ch.key())]; has {
					anyPresent = true
				}
			}
			prev := c.optEmb
			c.optEmb = true // everything below an optional embedded struct gets its own key class
			if !ok {
				if anyPresent {
					c.bad("supplied", f.Kind, p, "members of the optional embedded struct were supplied but it was left nil")
				}
			} else {
				c.fields(f.Sub.Fields, d, rd[:1], t, path, true)
			}
			c.optEmb = prev
			continue
		}
		if len(rd) > 1 {
			continue // an untagged field read by several unmarshalers: not generated, not modelled
		}
		t := tree
		if t == nil {
			t = rd[0].tree
		}
		c.field(f, fv, rd[0], t, p, lenientAbsent)
	}
}

func (c *comparer) field(f *fieldD, fv reflect.Value, s *source, tree map[string]any, p string, lenientAbsent bool) {
	if f.Inherit && !c.inherit {
		c.inherit = true
		defer func() { c.inherit = false }()
	}
	ctx := s.ctx
	leaf, present := tree[ctx.canon(f.key())]
	null := present && leaf == nil
	c.compared++
	if !present || null {
		switch {
		case f.scalar():
			d, ok := deref(fv)
			if f.HasDef {
				want, wok := interpret(f.Kind, f.Def)
				if !wok {
					return
				}
				if null || lenientAbsent {
					if !ok || d.IsZero() {
						return
					}
				}
				if !ok {
					c.bad("default", f.Kind, p, "absent field with default=%s left nil", f.Def)
				} else if !sameScalar(f.Kind, d, want) {
					c.bad("default", f.Kind, p, "absent field with default=%s holds %v", f.Def, d.Interface())
				}
				return
			}
			switch {
			case ok && !d.IsZero() && null:
				c.bad(ctx.nullClass(), f.Kind, p, "null was accepted for the field (no default), yet it holds %v", d.Interface())
			case ok && !d.IsZero():
				c.bad("absent", f.Kind, p, "field was not supplied and has no default, yet holds %v", d.Interface())
			case null && f.Ptr > 0 && !fv.IsNil():
				// nothing was supplied: the pointer holds nothing
				c.bad(ctx.nullClass(), f.Kind, p, "null was accepted for the pointer field, yet the pointer was set (to %s)", showValue(fv))
			}
		case f.Kind == reflect.Struct:
			if null || f.Opt != optNone {
				return
			}
			d, ok := deref(fv)
			if !ok {
				return
			}
			c.fields(f.Sub.Fields, d, []*source{s}, map[string]any{}, p, lenientAbsent)
		default:
			if f.HasDef {
				if f.Kind == reflect.Slice && f.DefList != nil {
					c.defaultSlice(f, fv, p, null || lenientAbsent)
				}
				return
			}
			if d, ok := deref(fv); ok && d.Len() != 0 {
				c.bad("absent", f.Kind, p, "%s was not supplied, yet holds %v", f.Kind, d.Interface())
			}
		}
		return
	}
	switch f.Kind {
	case reflect.Struct:
		m, ok := leaf.(map[string]any)
		if !ok {
			c.bad("supplied", f.Kind, p, "accepted %s for a struct field", show(leaf))
			return
		}
		d, dok := deref(fv)
		if !dok {
			c.bad("supplied", f.Kind, p, "struct was supplied but the pointer was left nil")
			return
		}
		c.fields(f.Sub.Fields, d, []*source{s}, m, p, false)
	case reflect.Slice:
		arr, ok := asArray(leaf)
		if !ok {
			return // a string for a slice is parsed as a JSON list / base64 by go-zero: not modelled
		}
		d, dok := deref(fv)
		if !dok {
			if len(arr) > 0 {
				c.bad("supplied", f.Kind, p, "list was supplied but the pointer was left nil")
			}
			return
		}
		c.elems(f.Elem, d, arr, s, p)
	case reflect.Map:
		m, ok := leaf.(map[string]any)
		if !ok || f.IntKey {
			return
		}
		d, dok := deref(fv)
		if !dok {
			if len(m) > 0 {
				c.bad("supplied", f.Kind, p, "map was supplied but the pointer was left nil")
			}
			return
		}
		if d.Len() != len(m) {
			c.bad("supplied", f.Kind, p, "map has %d entries, %d supplied", d.Len(), len(m))
			return
		}
		for k, el := range m {
			ev := d.MapIndex(reflect.ValueOf(k))
			if !ev.IsValid() {
				c.bad("supplied", f.Kind, p, "map lacks supplied key %q", k)
				return
			}
			c.elem(f.Elem, ev, el, s, fmt.Sprintf("%s[%s]", p, k))
		}
	default:
		// several values for a scalar: go-zero takes the first one under WithFromArray
		if arr, ok := asArray(leaf); ok {
			if len(arr) == 0 {
				// a key without any value: if that is accepted at all, nothing was supplied
				if d, dok := deref(fv); ctx.FromArray && dok && !d.IsZero() {
					if want, wok := interpret(f.Kind, f.Def); !(f.HasDef && wok && sameScalar(f.Kind, d, want)) {
						c.bad("supplied", f.Kind, p, "an empty value list was accepted, yet the target holds %v", d.Interface())
					}
				}
				return
			}
			leaf = arr[0]
		}
		want, ok := interpret(f.Kind, leaf)
		if !ok {
			c.bad("supplied", f.Kind, p, "accepted %s, which denotes no %s value", show(leaf), f.Kind)
			return
		}
		d, dok := deref(fv)
		if !dok {
			c.bad("supplied", f.Kind, p, "supplied %s but the pointer was left nil", show(leaf))
			return
		}
		if !sameScalar(f.Kind, d, want) {
			if f.Kind == reflect.Float32 {
				// the string path parses straight to float32, the number path rounds twice
				if t, ok := leafText(leaf); ok {
					if f32, err := strconv.ParseFloat(t, 32); err == nil && d.Float() == f32 {
						return
					}
				}
			}
			c.bad("supplied", f.Kind, p, "supplied %s, target holds %v", show(leaf), d.Interface())
		}
	}
}

// defaultSlice: an absent slice field with default=[a,b,c] holds exactly those elements.
func (c *comparer) defaultSlice(f *fieldD, fv reflect.Value, p string, lenient bool) {
	d, ok := deref(fv)
	if lenient && (!ok || d.Len() == 0) {
		return
	}
	if !ok {
		c.bad("default", f.Kind, p, "absent slice with default=%s left nil", f.Def)
		return
	}
	if d.Len() != len(f.DefList) {
		c.bad("default", f.Kind, p, "absent slice with default=%s holds %d elements: %v", f.Def, d.Len(), showValue(d))
		return
	}
	for i, text := range f.DefList {
		want, wok := interpret(f.Elem.Kind, text)
		if !wok {
			return
		}
		ev, eok := deref(d.Index(i))
		if !eok || !sameScalar(f.Elem.Kind, ev, want) {
			c.bad("default", f.Kind, p, "absent slice with default=%s holds %v", f.Def, showValue(d))
			return
		}
	}
}

func showValue(v reflect.Value) string {
	var b strings.Builder
	dumpValue(&b, v)
	return b.String()
}

func (c *comparer) elems(e *fieldD, d reflect.Value, arr []any, s *source, p string) {
	for _, el := range arr {
		if el == nil {
			return // null elements are skipped by go-zero; not modelled
		}
	}
	if d.Len() != len(arr) {
		c.bad("supplied", reflect.Slice, p, "list has %d elements, %d supplied", d.Len(), len(arr))
		return
	}
	for i, el := range arr {
		c.elem(e, d.Index(i), el, s, fmt.Sprintf("%s[%d]", p, i))
	}
}

func (c *comparer) elem(e *fieldD, ev reflect.Value, el any, s *source, p string) {
	c.compared++
	if el == nil {
		return
	}
	d, ok := deref(ev)
	if !ok {
		c.bad("supplied", e.Kind, p, "element supplied but left nil")
		return
	}
	switch e.Kind {
	case reflect.Struct:
		m, mok := el.(map[string]any)
		if !mok {
			c.bad("supplied", e.Kind, p, "accepted %s for a struct element", show(el))
			return
		}
		c.fields(e.Sub.Fields, d, []*source{s}, m, p, false)
	case reflect.Slice:
		arr, aok := asArray(el)
		if !aok {
			return
		}
		c.elems(e.Elem, d, arr, s, p)
	case reflect.Map:
		m, mok := el.(map[string]any)
		if !mok {
			return
		}
		if d.Len() != len(m) {
			c.bad("supplied", reflect.Map, p, "map element has %d entries, %d supplied", d.Len(), len(m))
			return
		}
		for k, x := range m {
			ev := d.MapIndex(reflect.ValueOf(k))
			if !ev.IsValid() {
				c.bad("supplied", reflect.Map, p, "map element lacks supplied key %q", k)
				return
			}
			c.elem(e.Elem, ev, x, s, fmt.Sprintf("%s[%s]", p, k))
		}
	default:
		want, wok := interpret(e.Kind, el)
		if !wok {
			c.bad("supplied", e.Kind, p, "accepted element %s, which denotes no %s value", show(el), e.Kind)
			return
		}
		if !sameScalar(e.Kind, d, want) {
			c.bad("supplied", e.Kind, p, "supplied element %s, target holds %v", show(el), d.Interface())
		}
	}
}

func sameScalar(k reflect.Kind, d reflect.Value, want any) bool {
	switch w := want.(type) {
	case int64:
		return d.CanInt() && d.Int() == w
	case uint64:
		return d.CanUint() && d.Uint() == w
	case float64:
		return d.CanFloat() && (d.Float() == w || math.IsNaN(w) && math.IsNaN(d.Float()))
	case bool:
		return d.Kind() == reflect.Bool && d.Bool() == w
	case string:
		return d.Kind() == reflect.String && d.String() == w
	}
	return false
}
