package c08

// Extensions of the C08 check (round 5):
//
//   - family nulls / nulls-composite: an explicit null (JSON null; the YAML nulls `null`, `~`, `Null`,
//     `NULL` and a key without a value; a nil value in the map[string]any handed to an Unmarshaler)
//     as the input of a field of every kind and option combination (required, optional,
//     optional=dep, optional=!dep x default x range x options x `string` x pointer), at the top
//     level, in a nested struct, behind a pointer, in the element struct of a list / a map,
//     through every unmarshaler configuration (including the canonicalising ones, core/conf and
//     the JSON body of httpx.Parse). Reference (oracle_test.go): a scalar that is neither optional
//     nor defaulted in the context at hand (optional=dep with dep supplied, optional=!dep with
//     dep absent, plainly required) and whose key carries null was not supplied: the call must
//     fail; an optional scalar with null: zero value / nil pointer and every other field as
//     supplied; null for a defaulted field, for a list / map / struct field, inside containers,
//     or for the dependency key itself: the statement is silent - no panic, and the same verdict
//     and target when the evaluation is repeated at the end of the case.
//   - family reparse: ONE *http.Request parsed two or three times (Parse then Parse; ParseForm /
//     ParseHeaders / ParsePath / GetFormValues then Parse; Parse into two different target types),
//     with repeated form / query / POST-form parameters and repeated header lines that have EMPTY
//     occurrences at every position (first, middle, last, all, around, interleaved). The supplied
//     values are those of the request as it was sent: every parse must yield what the same call
//     yields on a freshly built identical request, and what later readers see of the request
//     (r.Form, r.PostForm, r.Header, r.URL, the path variables) must be what net/http alone
//     delivers for it. The first parse is also judged by the reference (empty form values count
//     as not supplied, as httpx.GetFormValues documents).

import (
	"bytes"
	"errors"
	"fmt"
	"mime/multipart"
	"net/http"
	"net/url"
	"reflect"
	"sort"
	"strings"
	"testing"

	"github.com/zeromicro/go-zero/rest/httpx"
	"github.com/zeromicro/go-zero/rest/pathvar"

	"verifharness/kit"
)

// ---------------------------------------------------------------- family: nulls

// nullEntry is an entry point together with the way a null reaches it.
type nullEntry struct {
	e    *entry
	yaml bool // the document is YAML: the null is spelled in one of YAML's ways
	flat bool // only flat types (no nested structs, lists of structs, maps)
}

var nullEntryList []*nullEntry

// initNullEntries runs at the start of the null families (the init functions of the other files
// have registered their entries by then).
func initNullEntries() {
	if nullEntryList != nil {
		return
	}
	entries["httpjson"] = &entry{Name: "httpjson", Ctx: httpCtx["json"],
		Doc: func(t map[string]any) string { return (&httpInput{JSON: t}).doc() },
		Call: func(t map[string]any, v any) error {
			return (&httpInput{JSON: t, Form: map[string]any{}, Path: map[string]any{}, Header: map[string]any{}}).call(v)
		}}
	for _, n := range []string{"json", "jsonreader", "jsonmap", "key", "custom", "lower", "upper", "conf", "valuer", "httpjson"} {
		nullEntryList = append(nullEntryList, &nullEntry{e: entries[n]})
	}
	nullEntryList = append(nullEntryList, &nullEntry{e: entries["keynative"], flat: true})
	// YAML: the YAML->JSON step of go-zero renders the null; the reference reads a null
	for _, n := range []string{"yaml", "yamlreader", "confyaml"} {
		c := *entries[n]
		ctx := *c.Ctx
		ctx.NullClass = "yaml-null"
		c.Ctx, c.NoNull, c.Name = &ctx, false, n+"-null"
		nullEntryList = append(nullEntryList, &nullEntry{e: &c, yaml: true})
	}
	// a nil value in the map handed to the string-valued unmarshalers (as httpx configures them)
	for _, n := range []string{"strvals", "formlike", "pathlike", "headerlike"} {
		c := *entries[n]
		c.NoNull, c.Name = false, n+"-nil"
		nullEntryList = append(nullEntryList, &nullEntry{e: &c, flat: true})
	}
}

var yamlNullSpellings = []string{"null", "~", "", "Null", "NULL"}

type nullCombo struct {
	kind    reflect.Kind
	opt     optMode
	def     bool
	rng     bool
	opts    bool
	fromStr bool
	ptr     int
}

func nullCombos(k reflect.Kind) []nullCombo {
	var out []nullCombo
	nr, no := 1, 1
	if isNumeric(k) {
		nr = 2
	}
	if isInt(k) || isUint(k) || k == reflect.String {
		no = 2
	}
	for opt := optNone; opt <= optNotDep; opt++ {
		for def := 0; def < 2; def++ {
			for rng := 0; rng < nr; rng++ {
				for o := 0; o < no; o++ {
					for fs := 0; fs < 2; fs++ {
						for ptr := 0; ptr < 2; ptr++ {
							out = append(out, nullCombo{k, opt, def == 1, rng == 1, o == 1, fs == 1, ptr})
						}
					}
				}
			}
		}
	}
	return out
}

// inner: the struct with the field under test (A) and its dependency field (D); the same keys and
// option order as family exh, so that the tag texts (and what go-zero caches by them) are shared.
func (cb nullCombo) inner(src string, shuffle uint64) *structD {
	k := cb.kind
	f := &fieldD{GoName: "A", Src: src, Key: "x-Self", Kind: k, Ptr: cb.ptr, Opt: cb.opt, FromStr: cb.fromStr, Shuffle: shuffle}
	if cb.opt == optDep || cb.opt == optNotDep {
		f.Dep = "x-Dep"
	}
	if cb.rng {
		f.Rng = rg(1, 5, true, true, true, true)
	}
	if cb.opts {
		if k == reflect.String {
			f.Options = []string{"ab", "cd"}
		} else {
			f.Options = []string{"2", "4", "9"}
		}
	}
	if cb.def {
		f.HasDef = true
		switch {
		case k == reflect.String:
			f.Def = "dflt"
			if cb.opts {
				f.Def = "ab"
			}
		case k == reflect.Bool:
			f.Def = "true"
		case isFloat(k):
			f.Def = "2.5"
		default:
			f.Def = "4"
		}
	}
	d := &fieldD{GoName: "D", Src: src, Key: "x-Dep", Kind: reflect.String, Opt: optPlain}
	return &structD{Fields: []*fieldD{f, d}}
}

// nullWrap says where the struct under test sits in the target type and in the document.
type nullWrap struct {
	name string
	mk   func(inner *structD, src string) *structD
	tree func(ctx *ctxD, in map[string]any) map[string]any
}

const nullWrapKey = "In-W"

var nullWraps = []nullWrap{
	{"top", func(in *structD, src string) *structD { return in }, func(ctx *ctxD, in map[string]any) map[string]any { return in }},
	{"struct-member", func(in *structD, src string) *structD {
		return &structD{Fields: []*fieldD{{GoName: "W", Src: src, Key: nullWrapKey, Kind: reflect.Struct, Sub: in}}}
	}, func(ctx *ctxD, in map[string]any) map[string]any { return map[string]any{ctx.canon(nullWrapKey): in} }},
	{"pointer-to-struct-member", func(in *structD, src string) *structD {
		return &structD{Fields: []*fieldD{{GoName: "W", Src: src, Key: nullWrapKey, Kind: reflect.Struct, Ptr: 1, Opt: optPlain, Sub: in}}}
	}, func(ctx *ctxD, in map[string]any) map[string]any { return map[string]any{ctx.canon(nullWrapKey): in} }},
	{"list-element", func(in *structD, src string) *structD {
		return &structD{Fields: []*fieldD{{GoName: "W", Src: src, Key: nullWrapKey, Kind: reflect.Slice, Elem: &fieldD{Kind: reflect.Struct, Sub: in}}}}
	}, func(ctx *ctxD, in map[string]any) map[string]any { return map[string]any{ctx.canon(nullWrapKey): []any{in}} }},
	{"list-of-pointers-element", func(in *structD, src string) *structD {
		return &structD{Fields: []*fieldD{{GoName: "W", Src: src, Key: nullWrapKey, Kind: reflect.Slice, Elem: &fieldD{Kind: reflect.Struct, Ptr: 1, Sub: in}}}}
	}, func(ctx *ctxD, in map[string]any) map[string]any { return map[string]any{ctx.canon(nullWrapKey): []any{in}} }},
	{"map-element", func(in *structD, src string) *structD {
		return &structD{Fields: []*fieldD{{GoName: "W", Src: src, Key: nullWrapKey, Kind: reflect.Map, Elem: &fieldD{Kind: reflect.Struct, Sub: in}}}}
	}, func(ctx *ctxD, in map[string]any) map[string]any {
		return map[string]any{ctx.canon(nullWrapKey): map[string]any{"m0": in}}
	}},
}

// nullInput: what the document says about the field under test and its dependency.
type nullInput struct {
	name      string
	self, dep string // "absent" | "null" | "value"
	depModes  bool   // only for optional=dep / optional=!dep fields
}

var nullInputs = []nullInput{
	{"self=null,dep=absent", "null", "absent", false},
	{"self=null,dep=value", "null", "value", false},
	{"self=null,dep=null", "null", "null", true},
	{"self=value,dep=null", "value", "null", true},
	{"self=absent,dep=null", "absent", "null", true},
}

// evalNull runs one request of the null families: YAML entries get their spelling of the null.
func (h *harness) evalNull(c *kit.Case, ne *nullEntry, sd *structD, tree map[string]any, classes, spelling string, memoAlways bool) {
	q := entryReq(sd, ne.e, tree, classes)
	q.memoAlways = memoAlways
	if ne.yaml {
		call, doc := q.call, q.doc
		with := func(fn func()) {
			old := yamlNullText
			yamlNullText = spelling
			defer func() { yamlNullText = old }()
			fn()
		}
		q.call = func(t any) (err error) {
			with(func() { err = call(t) })
			return
		}
		q.doc = func() (s string) {
			with(func() { s = doc() })
			return
		}
	}
	kit.Obs("null_inputs_generated", 1)
	h.evalOne(c, q)
}

func (h *harness) runNulls(t *testing.T) {
	initNullEntries()
	nEnt := len(nullEntryList)
	// one case per (kind, entry point, optional mode): a case reports at most 20 violations
	h.run(t, "nulls", len(allPrims)*nEnt*4, func(c *kit.Case) {
		k := allPrims[c.Index%len(allPrims)]
		ei := c.Index / len(allPrims) % nEnt
		mode := optMode(c.Index / len(allPrims) / nEnt)
		ne := nullEntryList[ei]
		e := ne.e
		r := c.R
		// the quick tier runs the full cross product for one kind of every class (bool, int, uint64,
		// float64, string) and a half fraction for the other widths: the combinations in which an even
		// number of {default, range, options, `string`, pointer} is set (every pair of them still
		// occurs in all four ways); the thorough tier runs everything
		fullCross := kit.Thorough() || k == reflect.Bool || k == reflect.Int || k == reflect.Uint64 || k == reflect.Float64 || k == reflect.String
		for ci, cb := range nullCombos(k) {
			if cb.opt != mode {
				continue
			}
			if !fullCross {
				bits := cb.ptr
				for _, b := range []bool{cb.def, cb.rng, cb.opts, cb.fromStr} {
					if b {
						bits++
					}
				}
				if bits%2 != 0 {
					continue
				}
			}
			withDep := cb.opt == optDep || cb.opt == optNotDep
			wraps := nullWraps[:1]
			if !ne.flat {
				// every combination under one of the places (they take turns), all of them in the thorough tier
				if kit.Thorough() {
					wraps = nullWraps
				} else {
					wraps = nullWraps[(ci+ei)%len(nullWraps):][:1]
				}
			}
			for _, w := range wraps {
				inner := cb.inner(e.Ctx.TagKey, r.Uint64()|1)
				sd := w.mk(inner, e.Ctx.TagKey)
				f := inner.Fields[0]
				for ii, ni := range nullInputs {
					if ni.depModes && !withDep {
						continue
					}
					in := map[string]any{}
					switch ni.self {
					case "null":
						in[e.Ctx.canon("x-Self")] = nil
					case "value":
						v, ok := genLeaf(f, vcValid, e, r)
						if !ok {
							continue
						}
						in[e.Ctx.canon("x-Self")] = v
					}
					switch ni.dep {
					case "null":
						in[e.Ctx.canon("x-Dep")] = nil
					case "value":
						in[e.Ctx.canon("x-Dep")] = "x"
					}
					spelling := ""
					cls := "nulls:" + w.name + ":" + ni.name
					if ne.yaml {
						spelling = yamlNullSpellings[(ci+ii+c.Index)%len(yamlNullSpellings)]
						cls += ":yaml-spelling=" + map[bool]string{true: "key-without-value", false: spelling}[spelling == ""]
						kit.Obs("null_yaml_spellings_written", 1)
					}
					if e.Ctx.FromArray {
						kit.Obs("nil_map_value_under_WithFromArray", 1)
					}
					kit.Obs("nulls_"+ni.name, 1)
					// where the statement is silent the evaluation is always repeated at the end of the case
					// (every second of them in the quick tier; the others take the usual turn of every 41st)
					silent := (cb.def || ni.dep == "null") && (kit.Thorough() || (ci+ii+ei)%2 == 0)
					h.evalNull(c, ne, sd, w.tree(e.Ctx, in), cls, spelling, silent)
				}
			}
		}
		if c.Index < 2 {
			c.Sample("nulls", 2, map[string]any{"entry": e.Name, "kind": k.String(), "optional_mode": mode.String(), "combinations_of_the_kind": len(nullCombos(k)), "inputs": nullInputs, "places": len(nullWraps),
				"note": "every option combination of the kind with this optional mode x this entry point x {self null, dependency absent / a value / null; self a value or absent with a null dependency}"})
		}
	})
}

// ---- null for list / map / struct fields and inside containers (the statement is silent: no panic, same outcome on a repeat)

func (h *harness) runNullsComposite(t *testing.T) {
	initNullEntries()
	type shape struct {
		name   string
		perK   bool
		mk     func(k reflect.Kind) *fieldD
		holed  func(valid any) []any // documents of the field with nulls inside
		listOf bool                  // a list of scalars at the top: the string-valued unmarshalers can carry it
	}
	sub := func() *structD {
		return &structD{Fields: []*fieldD{{GoName: "X", Src: "json", Key: "x", Kind: reflect.Int, Rng: rg(1, 5, true, true, true, true)},
			{GoName: "Y", Src: "json", Key: "Yk", Kind: reflect.String, Opt: optPlain}}}
	}
	inList := func(v any) []any {
		arr, _ := v.([]any)
		first := any(nil)
		if len(arr) > 0 {
			first = arr[0]
		}
		return []any{[]any{nil}, []any{first, nil}, []any{nil, first}, []any{nil, nil}, []any{first, nil, first}}
	}
	inMap := func(v any) []any {
		m, _ := v.(map[string]any)
		var first any
		for _, k := range sortedKeys(m) {
			first = m[k]
			break
		}
		return []any{map[string]any{"m0": nil}, map[string]any{"m0": first, "m1": nil}, map[string]any{"m0": nil, "m1": nil}}
	}
	shapes := []shape{
		{"slice", true, func(k reflect.Kind) *fieldD { return &fieldD{Kind: reflect.Slice, Elem: &fieldD{Kind: k}} }, inList, true},
		{"slice-of-ptr", true, func(k reflect.Kind) *fieldD { return &fieldD{Kind: reflect.Slice, Elem: &fieldD{Kind: k, Ptr: 1}} }, inList, true},
		{"ptr-to-slice", true, func(k reflect.Kind) *fieldD { return &fieldD{Kind: reflect.Slice, Ptr: 1, Elem: &fieldD{Kind: k}} }, inList, true},
		{"slice-of-slice", true, func(k reflect.Kind) *fieldD {
			return &fieldD{Kind: reflect.Slice, Elem: &fieldD{Kind: reflect.Slice, Elem: &fieldD{Kind: k}}}
		}, func(v any) []any {
			arr, _ := v.([]any)
			inner := any([]any{})
			if len(arr) > 0 {
				inner = arr[0]
			}
			return []any{[]any{nil}, []any{inner, nil}, []any{[]any{nil}}, []any{nil, inner}}
		}, false},
		{"map", true, func(k reflect.Kind) *fieldD { return &fieldD{Kind: reflect.Map, Elem: &fieldD{Kind: k}} }, inMap, false},
		{"map-of-ptr", true, func(k reflect.Kind) *fieldD { return &fieldD{Kind: reflect.Map, Elem: &fieldD{Kind: k, Ptr: 1}} }, inMap, false},
		{"ptr-to-map", true, func(k reflect.Kind) *fieldD { return &fieldD{Kind: reflect.Map, Ptr: 1, Elem: &fieldD{Kind: k}} }, inMap, false},
		{"map-of-slice", true, func(k reflect.Kind) *fieldD {
			return &fieldD{Kind: reflect.Map, Elem: &fieldD{Kind: reflect.Slice, Elem: &fieldD{Kind: k}}}
		}, func(v any) []any {
			return []any{map[string]any{"m0": nil}, map[string]any{"m0": []any{nil}}, map[string]any{"m0": []any{}, "m1": nil}}
		}, false},
		{"struct", false, func(k reflect.Kind) *fieldD { return &fieldD{Kind: reflect.Struct, Sub: sub()} }, nil, false},
		{"ptr-to-struct", false, func(k reflect.Kind) *fieldD { return &fieldD{Kind: reflect.Struct, Ptr: 1, Sub: sub()} }, nil, false},
		{"slice-of-struct", false, func(k reflect.Kind) *fieldD {
			return &fieldD{Kind: reflect.Slice, Elem: &fieldD{Kind: reflect.Struct, Sub: sub()}}
		}, inList, false},
		{"slice-of-struct-ptr", false, func(k reflect.Kind) *fieldD {
			return &fieldD{Kind: reflect.Slice, Elem: &fieldD{Kind: reflect.Struct, Ptr: 1, Sub: sub()}}
		}, inList, false},
		{"map-of-struct", false, func(k reflect.Kind) *fieldD {
			return &fieldD{Kind: reflect.Map, Elem: &fieldD{Kind: reflect.Struct, Sub: sub()}}
		}, inMap, false},
		{"map-of-struct-ptr", false, func(k reflect.Kind) *fieldD {
			return &fieldD{Kind: reflect.Map, Elem: &fieldD{Kind: reflect.Struct, Ptr: 1, Sub: sub()}}
		}, inMap, false},
	}
	kinds := []reflect.Kind{reflect.Int, reflect.String, reflect.Uint8, reflect.Float32, reflect.Bool}
	type variant struct {
		name    string
		opt     optMode
		dep     bool // the dependency key is supplied
		defList bool
	}
	variants := []variant{{"required", optNone, false, false}, {"optional", optPlain, true, false}, {"optional=dep+dep-present", optDep, true, false},
		{"optional=!dep+dep-absent", optNotDep, false, false}, {"optional=dep+dep-absent", optDep, false, false}, {"default-list", optNone, false, true}}
	h.run(t, "nulls-composite", len(shapes), func(c *kit.Case) {
		sh := shapes[c.Index]
		r := c.R
		ks := kinds
		if !sh.perK {
			ks = kinds[:1]
		}
		for _, k := range ks {
			for ei, ne := range nullEntryList {
				e := ne.e
				if ne.flat && !(sh.listOf && e.Ctx.FromArray) {
					continue // only lists of scalars can be carried there (form values, header lines)
				}
				for vi, va := range variants {
					f := sh.mk(k)
					if va.defList && !(f.Kind == reflect.Slice && f.Elem.scalar()) {
						continue
					}
					f.GoName, f.Src, f.Key, f.Opt = "A", e.Ctx.TagKey, "x-Comp", va.opt
					if va.opt == optDep || va.opt == optNotDep {
						f.Dep = "x-Dep"
					}
					if va.defList {
						setSliceDefault(f, defaultElems(k, vi+ei))
					}
					if f.Sub != nil || hasSub(f.Elem) {
						retag(f, e.Ctx.TagKey)
					}
					sd := &structD{Fields: []*fieldD{f, {GoName: "D", Src: e.Ctx.TagKey, Key: "x-Dep", Kind: reflect.String, Opt: optPlain},
						{GoName: "Z", Src: e.Ctx.TagKey, Key: "x-Other", Kind: reflect.Int, Opt: optPlain}}}
					ig := &inputGen{r: r, e: e}
					valid, ok := ig.validValue(f, e, 0)
					docs := []any{nil}
					if ok && sh.holed != nil {
						docs = append(docs, sh.holed(valid)...)
					}
					for di, doc := range docs {
						tree := map[string]any{e.Ctx.canon("x-Comp"): doc}
						if va.dep {
							tree[e.Ctx.canon("x-Dep")] = "x"
						}
						if (di+vi)%2 == 0 {
							tree[e.Ctx.canon("x-Other")] = func() any { v, _ := genLeaf(sd.Fields[2], vcValid, e, r); return v }()
						}
						spelling := ""
						if ne.yaml {
							spelling = yamlNullSpellings[(di+vi+ei)%len(yamlNullSpellings)]
						}
						cls := fmt.Sprintf("nulls-composite:%s:%s:", sh.name, va.name)
						if di == 0 {
							cls += "field=null"
							kit.Obs("null_for_non_scalar_field", 1)
						} else {
							cls += fmt.Sprintf("null-inside-%d", di)
							kit.Obs("null_inside_container", 1)
						}
						if e.Ctx.FromArray {
							kit.Obs("nil_map_value_under_WithFromArray", 1)
						}
						h.evalNull(c, ne, sd, tree, cls, spelling, true)
					}
				}
			}
		}
		c.Sample("nulls-composite", 1, map[string]any{"shape": sh.name, "variants": variants})
	})
}

// retag declares everything below f under another tag key.
func retag(f *fieldD, src string) {
	f.Src = src
	if f.Sub != nil {
		for _, c := range f.Sub.Fields {
			retag(c, src)
		}
	}
	if f.Elem != nil {
		retag(f.Elem, src)
	}
}

// ---------------------------------------------------------------- family: reparse

type rpPair struct{ k, v string }

// rpReq describes a request; build() makes a fresh, identical *http.Request from it every time.
type rpReq struct {
	method    string
	query     []rpPair // in wire order
	form      []rpPair // parameters in the body
	bodyForm  bool     // the body carries a form (possibly an empty one)
	multipart bool
	jsonBody  []byte // nil: none
	header    map[string][]string
	vars      map[string]string
}

func encodePairs(ps []rpPair) string {
	parts := make([]string, len(ps))
	for i, p := range ps {
		parts[i] = url.QueryEscape(p.k) + "=" + url.QueryEscape(p.v)
	}
	return strings.Join(parts, "&")
}

const rpBoundary = "vfboundary7d1c0a"

func (q *rpReq) body() (body []byte, contentType string) {
	switch {
	case q.jsonBody != nil:
		return q.jsonBody, "application/json"
	case q.bodyForm && q.multipart:
		var mb bytes.Buffer
		mw := multipart.NewWriter(&mb)
		mw.SetBoundary(rpBoundary)
		for _, p := range q.form {
			mw.WriteField(p.k, p.v)
		}
		mw.Close()
		return mb.Bytes(), mw.FormDataContentType()
	case q.bodyForm:
		return []byte(encodePairs(q.form)), "application/x-www-form-urlencoded"
	}
	return nil, ""
}

func (q *rpReq) target() string {
	t := "http://localhost/x"
	if len(q.query) > 0 {
		t += "?" + encodePairs(q.query)
	}
	return t
}

func (q *rpReq) build() *http.Request {
	body, ct := q.body()
	var r *http.Request
	var err error
	if body != nil {
		r, err = http.NewRequest(q.method, q.target(), bytes.NewReader(body)) // sets GetBody
	} else {
		r, err = http.NewRequest(q.method, q.target(), nil)
	}
	if err != nil {
		panic("harness: " + err.Error())
	}
	if ct != "" {
		r.Header.Set("Content-Type", ct)
	}
	for k, vs := range q.header {
		r.Header[k] = append(make([]string, 0, len(vs)), vs...)
	}
	vars := make(map[string]string, len(q.vars))
	for k, v := range q.vars {
		vars[k] = v
	}
	return pathvar.WithVars(r, vars)
}

func (q *rpReq) text() string {
	body, ct := q.body()
	var hs []string
	for _, k := range sortedStrKeys(q.header) {
		hs = append(hs, fmt.Sprintf("%s: %q", k, q.header[k]))
	}
	return fmt.Sprintf("%s %s  content-type=%q body=%q  headers={%s}  path-vars=%v", q.method, q.target(), ct, body, strings.Join(hs, "; "), q.vars)
}

func sortedStrKeys(m map[string][]string) []string {
	ks := make([]string, 0, len(m))
	for k := range m {
		ks = append(ks, k)
	}
	sort.Strings(ks)
	return ks
}

func copyValues(m map[string][]string) map[string][]string {
	if m == nil {
		return nil
	}
	out := make(map[string][]string, len(m))
	for k, vs := range m {
		out[k] = append(make([]string, 0, len(vs)), vs...)
	}
	return out
}

// diffValues: the first key (in sorted order) whose value list differs; "" if none.
func diffValues(got, want map[string][]string) string {
	keys := map[string]bool{}
	for k := range got {
		keys[k] = true
	}
	for k := range want {
		keys[k] = true
	}
	ks := make([]string, 0, len(keys))
	for k := range keys {
		ks = append(ks, k)
	}
	sort.Strings(ks)
	for _, k := range ks {
		g, gok := got[k]
		w, wok := want[k]
		if gok != wok || len(g) != len(w) {
			return k
		}
		for i := range g {
			if g[i] != w[i] {
				return k
			}
		}
	}
	return ""
}

// emptyPatterns: where the empty occurrences of a repeated parameter stand.
var emptyPatterns = []string{"empty-first", "empty-middle", "empty-last", "all-empty", "empty-around", "empty-interleaved", "two-empty-first", "no-empty-member"}

func injectEmpties(vals []string, pat string) []string {
	out := []string{}
	switch pat {
	case "empty-first":
		out = append(append(out, ""), vals...)
	case "empty-middle":
		if len(vals) < 2 {
			return append(append(out, ""), vals...)
		}
		out = append(append(append(out, vals[0]), ""), vals[1:]...)
	case "empty-last":
		out = append(append(out, vals...), "")
	case "all-empty":
		for range vals {
			out = append(out, "")
		}
		out = append(out, "")
	case "empty-around":
		out = append(append(append(out, ""), vals...), "")
	case "empty-interleaved":
		for _, v := range vals {
			out = append(out, v, "")
		}
	case "two-empty-first":
		out = append(append(out, "", ""), vals...)
	default:
		out = append(out, vals...)
	}
	return out
}

// deliveredForm: what net/http alone delivers for a fresh copy of the request (Form, PostForm),
// and the form input as httpx documents it (empty values are not supplied; `name[]` is `name`).
func deliveredForm(q *rpReq) (form, postForm url.Values, tree map[string]any, err error) {
	r := q.build()
	if err = r.ParseMultipartForm(32 << 20); err != nil && !errors.Is(err, http.ErrNotMultipart) {
		return nil, nil, nil, err
	}
	tree = map[string]any{}
	for k, vs := range r.Form {
		var kept []string
		for _, v := range vs {
			if v != "" {
				kept = append(kept, v)
			}
		}
		if len(kept) > 0 {
			tree[strings.TrimSuffix(k, "[]")] = kept
		}
	}
	return r.Form, r.PostForm, tree, nil
}

type rpStep struct {
	op  string // Parse | ParseForm | ParseHeaders | ParsePath | GetFormValues
	typ int    // 0: the request type, 1: a second type over the same parameters (all strings)
}

var rpSequences = []struct {
	name  string
	steps []rpStep
}{
	{"Parse,Parse", []rpStep{{"Parse", 0}, {"Parse", 0}}},
	{"ParseForm,Parse", []rpStep{{"ParseForm", 0}, {"Parse", 0}}},
	{"Parse(A),Parse(B)", []rpStep{{"Parse", 0}, {"Parse", 1}}},
	{"Parse(B),Parse(A)", []rpStep{{"Parse", 1}, {"Parse", 0}}},
	{"Parse,Parse,Parse", []rpStep{{"Parse", 0}, {"Parse", 0}, {"Parse", 0}}},
	{"ParseForm,ParseHeaders,Parse", []rpStep{{"ParseForm", 0}, {"ParseHeaders", 0}, {"Parse", 0}}},
	{"GetFormValues,Parse", []rpStep{{"GetFormValues", 0}, {"Parse", 0}}},
	{"ParseHeaders,ParsePath,Parse", []rpStep{{"ParseHeaders", 0}, {"ParsePath", 0}, {"Parse", 0}}},
	{"Parse(A),ParseForm(B),Parse(A)", []rpStep{{"Parse", 0}, {"ParseForm", 1}, {"Parse", 0}}},
	{"ParseForm(B),ParseForm(A)", []rpStep{{"ParseForm", 1}, {"ParseForm", 0}}},
}

// stringsView: a second request type over the same form / path / header parameters, every one of
// them an optional string (or list of strings).
func stringsView(sd *structD) *structD {
	out := &structD{}
	for _, f := range sd.Fields {
		if f.Ignore || f.Embedded || f.NoTag || (f.Src != "form" && f.Src != "path" && f.Src != "header") {
			continue
		}
		g := &fieldD{GoName: f.GoName, Src: f.Src, Key: f.key(), Kind: reflect.String, Opt: optPlain}
		if f.Kind == reflect.Slice {
			g.Kind, g.Elem = reflect.Slice, &fieldD{Kind: reflect.String}
		}
		out.Fields = append(out.Fields, g)
	}
	if len(out.Fields) == 0 {
		out.Fields = []*fieldD{{GoName: "None", Src: "form", Key: "none", Kind: reflect.String, Opt: optPlain}}
	}
	return out
}

// rpFixedD: a request type with list and scalar parameters in the form and in the headers.
func rpFixedD(r *kit.Rand) *structD {
	ik := kit.Choose(r, []reflect.Kind{reflect.Int, reflect.Int64, reflect.Uint16, reflect.Float64, reflect.String})
	return &structD{Fields: []*fieldD{
		{GoName: "IDs", Src: "form", Key: "ids", Kind: reflect.Slice, Opt: optPlain, Elem: &fieldD{Kind: ik}},
		{GoName: "Tags", Src: "form", Key: "tags", Kind: reflect.Slice, Opt: optMode(r.Pick(1, 2)), Elem: &fieldD{Kind: reflect.String}},
		{GoName: "Limit", Src: "form", Key: "limit", Kind: reflect.Int, HasDef: true, Def: "20", Rng: rg(1, 100, true, true, true, true)},
		{GoName: "Name", Src: "form", Key: "name", Kind: reflect.String, Ptr: r.Pick(1, 1), Opt: optPlain},
		{GoName: "Vals", Src: "header", Key: "X-Vals", Kind: reflect.Slice, Opt: optPlain, Elem: &fieldD{Kind: reflect.String}},
		{GoName: "Nums", Src: "header", Key: "X-Nums", Kind: reflect.Slice, Opt: optPlain, Elem: &fieldD{Kind: ik}},
		{GoName: "Trace", Src: "header", Key: "X-Trace", Kind: reflect.String, Opt: optPlain},
		{GoName: "Item", Src: "path", Key: "item", Kind: reflect.Int, Opt: optMode(r.Pick(1, 1)), Rng: rg(1, 1000, true, true, true, true)},
	}}
}

// genHTTPTypeOf: a random request type with fields under the given sources (see genHTTPType).
func genHTTPTypeOf(r *kit.Rand, srcs []string) (*structD, map[string]*entry) {
	g := &typeGen{r: r, http: true, maxDeep: 1}
	sd := &structD{}
	srcEntries := map[string]*entry{}
	for i, src := range srcs {
		if i > 0 && !r.Chance(0.7) {
			continue
		}
		g.tagKey = src
		g.e = &entry{Name: "http-" + src, Ctx: httpCtx[src], NoNull: src != "json", NoMaps: src != "json", NoLists: src == "path"}
		srcEntries[src] = g.e
		sd.Fields = append(sd.Fields, g.genStruct(0, 1, 4).Fields...)
	}
	perm := r.Perm(len(sd.Fields))
	fs := make([]*fieldD, len(perm))
	for i, j := range perm {
		fs[i] = sd.Fields[j]
	}
	sd.Fields = fs
	return sd, srcEntries
}

func (h *harness) runReparse(t *testing.T, n int) {
	h.run(t, "reparse", n, func(c *kit.Case) {
		r := c.R
		var sd *structD
		srcEntries := map[string]*entry{}
		if c.Index%3 == 0 {
			sd = rpFixedD(r)
			for _, src := range []string{"form", "path", "header"} {
				srcEntries[src] = &entry{Name: "http-" + src, Ctx: httpCtx[src], NoNull: true, NoMaps: true, NoLists: src == "path"}
			}
		} else if c.Index%3 == 1 {
			sd, srcEntries = genHTTPTypeOf(r, []string{"form", "path", "header"}) // no JSON body: the form travels in every carrier
		} else {
			sd, srcEntries = genHTTPType(r)
		}
		sdB := stringsView(sd)
		types := []*structD{sd, sdB}
		for i := 0; i < 4; i++ {
			in := &httpInput{JSON: map[string]any{}, Form: map[string]any{}, Path: map[string]any{}, Header: map[string]any{}, SendBody: r.Chance(0.2)}
			trees := map[string]map[string]any{"json": in.JSON, "form": in.Form, "path": in.Path, "header": in.Header}
			var classes []string
			for _, src := range []string{"json", "form", "path", "header"} {
				e := srcEntries[src]
				if e == nil {
					continue
				}
				ig := &inputGen{r: r, e: e}
				ig.fillLevel(sd.Fields, e, trees[src], 0)
				if i == 3 && r.Chance(0.5) {
					var slots []slot
					collectSlots(sd.Fields, e.Ctx, trees[src], &slots)
					if len(slots) > 0 {
						ig.perturb(kit.Choose(r, slots), e)
					}
				}
				classes = append(classes, src+":"+strings.Join(ig.classes, ","))
			}
			sanitizeHTTP(in)
			q := &rpReq{method: http.MethodGet, header: map[string][]string{}, vars: map[string]string{}}
			for k, v := range in.Path {
				q.vars[k] = fmt.Sprint(v)
			}
			// the form parameters, with empty occurrences in the pattern whose turn it is
			patOf := map[string]string{} // parameter / header name -> pattern
			var pairs []rpPair
			anyEmpty := false
			formKeys := sortedKeys(in.Form)
			isList := map[string]bool{}
			for _, f := range sd.Fields {
				if f.Src == "form" && !f.Ignore && !f.Embedded {
					isList[f.key()] = f.Kind == reflect.Slice
					if _, has := in.Form[f.key()]; !has && r.Chance(0.4) {
						// a parameter that is only sent without a value: `ids=` / `ids=&ids=`
						formKeys = append(formKeys, f.key())
					}
				}
			}
			for ki, k := range formKeys {
				vals := leafStrings(in.Form[k])
				pat := emptyPatterns[(c.Index+i+ki)%len(emptyPatterns)]
				if len(vals) == 0 {
					pat = "all-empty"
				}
				name := k
				if isList[k] && r.Chance(0.15) {
					name += "[]" // bracket notation
				}
				sent := injectEmpties(vals, pat)
				for _, v := range sent {
					pairs = append(pairs, rpPair{name, v})
					if v == "" {
						anyEmpty = true
					}
				}
				patOf[name] = pat
				kit.Obs("reparse_form_parameter_"+pat, 1)
			}
			carrier := "query"
			if in.bodySent() {
				q.jsonBody = renderJSON(in.JSON)
				q.method = http.MethodPost
				q.query = pairs
				carrier = "query+json-body"
			} else {
				switch carrier = kit.Choose(r, []string{"query", "query", "urlencoded", "multipart", "query+urlencoded"}); carrier {
				case "query":
					q.query = pairs
				case "urlencoded":
					q.method, q.bodyForm, q.form = http.MethodPost, true, pairs
				case "multipart":
					q.method, q.bodyForm, q.multipart, q.form = http.MethodPost, true, true, pairs
				default:
					q.method, q.bodyForm = kit.Choose(r, []string{http.MethodPost, http.MethodPut, http.MethodPatch}), true
					inBody := map[string]bool{}
					for _, p := range pairs {
						if _, seen := inBody[p.k]; !seen {
							inBody[p.k] = r.Bool()
						}
						// a parameter is sent as a whole in one of the two places, or split between them
						if inBody[p.k] != r.Chance(0.15) {
							q.form = append(q.form, p)
						} else {
							q.query = append(q.query, p)
						}
					}
				}
			}
			// header lines; list-typed header fields sometimes get empty occurrences as well
			for _, k := range sortedKeys(in.Header) {
				vals := leafStrings(in.Header[k])
				ok := true
				for _, v := range vals {
					ok = ok && wireSafe(v)
				}
				if !ok {
					delete(in.Header, k)
					continue
				}
				if arr, isArr := in.Header[k].([]any); isArr && len(arr) > 0 && r.Chance(0.5) {
					pat := emptyPatterns[(c.Index+i)%len(emptyPatterns)]
					vals = injectEmpties(vals, pat)
					lst := make([]any, len(vals))
					for j, v := range vals {
						lst[j] = v
						if v == "" {
							anyEmpty = true
						}
					}
					in.Header[k] = lst
					patOf[k] = pat
					kit.Obs("reparse_header_lines_"+pat, 1)
				}
				q.header[k] = vals
			}
			expForm, expPost, formTree, derr := deliveredForm(q)
			if derr != nil {
				panic("harness: net/http does not take the generated request: " + derr.Error())
			}
			seq := rpSequences[(c.Index+i)%len(rpSequences)]
			classText := fmt.Sprintf("reparse:%s;%s;%s", seq.name, carrier, strings.Join(classes, ";"))

			// (1) the first parse of a fresh request, judged by the reference
			ss := sources{
				"json":   {ctx: httpCtx["json"], tree: in.JSON},
				"form":   {ctx: httpCtx["form"], tree: formTree},
				"path":   {ctx: httpCtx["path"], tree: in.Path},
				"header": {ctx: httpCtx["header"], tree: in.Header},
			}
			h.evalOne(c, &evalReq{sd: sd, ss: ss, entry: "httpx.Parse-fresh", ctxName: "http", classes: classText,
				doc: q.text, call: func(t any) error { return httpx.Parse(q.build(), t) }})

			// (2) the same request parsed several times
			shared := q.build()
			origHeader := copyValues(shared.Header)
			origURL, origRawQuery := shared.URL.String(), shared.URL.RawQuery
			origVars := map[string]string{}
			for k, v := range pathvar.Vars(shared) {
				origVars[k] = v
			}
			var hist []string
			apply := func(req *http.Request, st rpStep, target any) error {
				switch st.op {
				case "Parse":
					return httpx.Parse(req, target)
				case "ParseForm":
					return httpx.ParseForm(req, target)
				case "ParseHeaders":
					return httpx.ParseHeaders(req, target)
				case "ParsePath":
					return httpx.ParsePath(req, target)
				}
				_, err := httpx.GetFormValues(req)
				return err
			}
			sigParts := []any{"reparse", seq.name, carrier}
			for si, st := range seq.steps {
				typ := types[st.typ]
				stepName := fmt.Sprintf("%s(%s)", st.op, map[int]string{0: "A", 1: "B"}[st.typ])
				outcome := func(req *http.Request, which string) (string, string, error, *panicInfo) {
					target := reflect.New(typ.goType())
					record := func() string {
						return fmt.Sprintf("case=%s entry=reparse step=%d %s on %s type=%s request=%s earlier=%v", c.ID, si+1, stepName, which, typ.describe(), q.text(), hist)
					}
					if req.GetBody != nil {
						// a middleware that buffers the body hands every reader a fresh copy of it
						req.Body, _ = req.GetBody()
					}
					err, pan := h.fc.guard(record, func() error { return apply(req, st, target.Interface()) })
					switch {
					case pan != nil:
						return "panic", "", nil, pan
					case err != nil:
						return "rej", "", err, nil
					}
					return "acc", strings.Join(dumpTop(target.Elem()), " | "), nil, nil
				}
				fv, fdump, ferr, fpan := outcome(q.build(), "a fresh identical request")
				sv, sdump, serr, span := outcome(shared, "the request that was parsed before")
				c.Evals(1)
				kit.Obs("calls", 2)
				kit.Obs("reparse_steps", 1)
				if si > 0 {
					kit.Obs("reparse_parses_of_an_already_parsed_request", 1)
				}
				w := map[string]any{"request": q.text(), "type_A": sd.describe(), "type_B": sdB.describe(), "sequence": seq.name, "step": si + 1, "call": stepName,
					"earlier_calls_on_this_request": append([]string(nil), hist...), "on_a_fresh_identical_request": fv + " " + fdump, "on_this_request": sv + " " + sdump,
					"generator_classes": classText}
				if ferr != nil {
					w["error_on_fresh"] = ferr.Error()
				}
				if serr != nil {
					w["error_on_this_request"] = serr.Error()
				}
				for _, p := range []*panicInfo{fpan, span} {
					if p != nil {
						kit.Obs("panics", 1)
						w["panic"], w["stack"] = p.Msg, p.Stack
						c.Viol(p.key(), "httpx panicked: "+p.Msg, w)
					}
				}
				if fpan == nil && span == nil {
					switch {
					case fv != sv:
						c.Viol("C08/history-dependent/re-parse/"+fv+"-on-fresh-"+sv+"-on-reparsed",
							fmt.Sprintf("step %d %s: a fresh identical request gives %s, the request that was parsed before gives %s", si+1, stepName, fv, sv), w)
					case fv == "acc" && fdump != sdump:
						fd, sdm := strings.Split(fdump, " | "), strings.Split(sdump, " | ")
						fi := firstDiff(fd, sdm)
						fld := typ.Fields[fi]
						what := "scalar"
						if fld.Kind == reflect.Slice {
							what = "list"
						}
						w["field"] = fld.key()
						c.Viol("C08/target-mismatch/re-parse/"+fld.Src+"-"+what,
							fmt.Sprintf("step %d %s, field %s: a fresh identical request yields %s, the request that was parsed before yields %s", si+1, stepName, fld.key(), fd[fi], sdm[fi]), w)
					default:
						kit.Obs("reparse_same_as_fresh", 1)
					}
				}
				hist = append(hist, stepName+"="+sv)
				sigParts = append(sigParts, stepName, sv)
				// what later readers see of the request
				checked := 0
				alter := func(part, name, got, want string) {
					pat := patOf[name]
					if pat == "" {
						pat = "no-empty-member"
					}
					if part == "url" || part == "path-vars" {
						pat = "any" // no repeated parameters there
					}
					w2 := map[string]any{}
					for k, v := range w {
						w2[k] = v
					}
					w2["part"], w2["name"], w2["now"], w2["as_sent"] = part, name, got, want
					c.Viol("C08/request-altered-by-parse/"+part+"/"+pat,
						fmt.Sprintf("after step %d %s the request's %s reads %s for %q; as sent (and as net/http alone delivers it): %s", si+1, stepName, part, got, name, want), w2)
				}
				if shared.Form != nil {
					checked++
					if k := diffValues(shared.Form, expForm); k != "" {
						alter("form", k, fmt.Sprintf("%q", shared.Form[k]), fmt.Sprintf("%q", expForm[k]))
					}
				}
				if shared.PostForm != nil {
					checked++
					if k := diffValues(shared.PostForm, expPost); k != "" {
						alter("postform", k, fmt.Sprintf("%q", shared.PostForm[k]), fmt.Sprintf("%q", expPost[k]))
					}
				}
				checked++
				if k := diffValues(shared.Header, origHeader); k != "" {
					alter("header", k, fmt.Sprintf("%q", shared.Header[k]), fmt.Sprintf("%q", origHeader[k]))
				}
				checked++
				if shared.URL.String() != origURL || shared.URL.RawQuery != origRawQuery {
					alter("url", "", shared.URL.String(), origURL)
				}
				checked++
				now := pathvar.Vars(shared)
				for _, k := range sortedKeys(in.Path) {
					if now[k] != origVars[k] {
						alter("path-vars", k, fmt.Sprintf("%q", now[k]), fmt.Sprintf("%q", origVars[k]))
						break
					}
				}
				if len(now) != len(origVars) {
					alter("path-vars", "", fmt.Sprint(now), fmt.Sprint(origVars))
				}
				kit.Obs("reparse_request_parts_compared_with_as_sent", int64(checked))
			}
			if anyEmpty {
				kit.Obs("reparse_requests_with_empty_occurrences", 1)
			}
			kit.Obs("reparse_carrier_"+carrier, 1)
			c.Sig(anyEmpty, sigParts...)
			if c.Index < 2 && i == 1 {
				c.Sample("reparse", 2, map[string]any{"request": q.text(), "type_A": sd.describe(), "type_B": sdB.describe(), "sequence": seq.name})
			}
		}
	})
}
