package c08

// Extensions of the C08 check (round 3), third part: damaged documents through the reader and
// core/conf entry points (and readers that fail halfway), list documents into slice targets,
// pointer-to-pointer targets, targets and documents of the wrong top-level shape (no panic).

import (
	"bytes"
	"errors"
	"fmt"
	"io"
	"net/http"
	"reflect"
	"strings"
	"testing"

	"github.com/zeromicro/go-zero/core/conf"
	"github.com/zeromicro/go-zero/core/mapping"
	"github.com/zeromicro/go-zero/rest/httpx"

	"verifharness/kit"
)

// failingReader delivers the first n bytes and then an error.
type failingReader struct {
	data []byte
	n    int
}

var errVfRead = errors.New("read failed (harness)")

func (f *failingReader) Read(p []byte) (int, error) {
	if f.n <= 0 || len(f.data) == 0 {
		return 0, errVfRead
	}
	k := len(p)
	if k > f.n {
		k = f.n
	}
	if k > len(f.data) {
		k = len(f.data)
	}
	copy(p, f.data[:k])
	f.data, f.n = f.data[k:], f.n-k
	return k, nil
}

func (h *harness) runDamagedEntries(t *testing.T, n int) {
	type via struct {
		name   string
		format string
		reader bool
		call   func(doc []byte, rd io.Reader, v any) error
	}
	vias := []via{
		{"jsonreader", "json", true, func(d []byte, rd io.Reader, v any) error { return mapping.UnmarshalJsonReader(rd, v) }},
		{"yamlreader", "yaml", true, func(d []byte, rd io.Reader, v any) error { return mapping.UnmarshalYamlReader(rd, v) }},
		{"tomlreader", "toml", true, func(d []byte, rd io.Reader, v any) error { return mapping.UnmarshalTomlReader(rd, v) }},
		{"conf-json", "json", false, func(d []byte, rd io.Reader, v any) error { return conf.LoadFromJsonBytes(d, v) }},
		{"conf-yaml", "yaml", false, func(d []byte, rd io.Reader, v any) error { return conf.LoadFromYamlBytes(d, v) }},
		{"conf-toml", "toml", false, func(d []byte, rd io.Reader, v any) error { return conf.LoadFromTomlBytes(d, v) }},
		{"http-body", "json", false, func(d []byte, rd io.Reader, v any) error {
			req, err := http.NewRequest(http.MethodPost, "http://localhost/x", bytes.NewReader(d))
			if err != nil {
				return err
			}
			req.Header.Set("Content-Type", "application/json")
			return httpx.Parse(req, v)
		}},
	}
	kit.Run(t, "C08", "damaged-entries", n, func(c *kit.Case) {
		r := c.R
		v := vias[c.Index%len(vias)]
		e := entries[v.format]
		g := &typeGen{r: r, e: e, tagKey: "json", maxDeep: 2, noIgnore: strings.HasPrefix(v.name, "conf")}
		sd := g.genStruct(0, 1, 5)
		for i := 0; i < 10; i++ {
			ig := &inputGen{r: r, e: e}
			tree := ig.validTree(sd, e, 0)
			doc := renderAs(v.format, tree)
			whole := i == 0 // the undamaged document through a reader that fails halfway
			if !whole {
				doc = damage(r, doc)
			}
			failAt := -1
			if v.reader && (whole || r.Chance(0.25)) {
				failAt = r.Intn(len(doc) + 1)
			}
			target := reflect.New(sd.goType())
			record := func() string {
				return fmt.Sprintf("case=%s entry=%s-damaged type=%s input=%q reader-fails-after=%d", c.ID, v.name, sd.describe(), doc, failAt)
			}
			err, pan := h.fc.guard(record, func() error {
				var rd io.Reader = bytes.NewReader(doc)
				if failAt >= 0 {
					rd = &failingReader{data: append([]byte(nil), doc...), n: failAt}
				}
				return v.call(doc, rd, target.Interface())
			})
			c.Evals(1)
			kit.Obs("calls", 1)
			kit.Obs("calls_damaged_"+v.name, 1)
			w := map[string]any{"type": sd.describe(), "entry": v.name, "input": string(doc), "reader_fails_after_bytes": failAt}
			switch {
			case pan != nil:
				kit.Obs("panics", 1)
				w["panic"], w["stack"] = pan.Msg, pan.Stack
				c.Viol(pan.key(), "the unmarshaller panicked on a damaged document: "+pan.Msg, w)
			case err != nil:
				kit.Obs("rejected", 1)
				if failAt >= 0 && errors.Is(err, errVfRead) {
					kit.Obs("reader_failures_reported", 1)
				}
				c.Sig(false, "damaged-entries", v.name, "rej", errClass(err), failAt >= 0)
			default:
				kit.Obs("accepted", 1)
				c.Sig(false, "damaged-entries", v.name, "acc", sd.shape(), failAt >= 0)
			}
		}
	})
}

// ---------------------------------------------------------------- family: toplevel

func renderAny(format string, v any) []byte {
	if format == "yaml" {
		return []byte(yamlFlow(v) + "\n")
	}
	return renderJSON(v)
}

func (h *harness) runTopLevel(t *testing.T, n int) {
	vias := []string{"json", "jsonreader", "yaml", "http-body", "ptrptr", "ptrptr-jsonmap"}
	h.run(t, "toplevel", n, func(c *kit.Case) {
		r := c.R
		via := vias[c.Index%len(vias)]
		e := entries["json"]
		if via == "yaml" {
			e = entries["yaml"]
		}
		g := &typeGen{r: r, e: e, tagKey: "json", maxDeep: 1}
		if strings.HasPrefix(via, "ptrptr") {
			// a pointer to a pointer to the struct as the target
			sd := g.genStruct(0, 1, 5)
			for i := 0; i < 8; i++ {
				ig := &inputGen{r: r, e: e}
				tree := ig.validTree(sd, e, 0)
				if i >= 3 {
					var slots []slot
					collectSlots(sd.Fields, e.Ctx, tree, &slots)
					if len(slots) > 0 {
						ig.perturb(kit.Choose(r, slots), e)
					}
				}
				nilInner := r.Bool()
				call := func(t any) error {
					pp := reflect.New(reflect.TypeOf(t)) // **T
					if !nilInner {
						pp.Elem().Set(reflect.New(reflect.TypeOf(t).Elem()))
					}
					var err error
					if via == "ptrptr" {
						err = mapping.UnmarshalJsonBytes(renderJSON(tree), pp.Interface())
					} else {
						err = mapping.UnmarshalJsonMap(deepCopyTree(tree).(map[string]any), pp.Interface())
					}
					if err == nil && !pp.Elem().IsNil() {
						reflect.ValueOf(t).Elem().Set(pp.Elem().Elem())
					} else if err == nil {
						return errors.New("harness: accepted, but the inner pointer of the **T target was left nil")
					}
					return err
				}
				kit.Obs("pointer_to_pointer_targets", 1)
				h.evalOne(c, &evalReq{sd: sd, ss: oneSource(e, tree), entry: "json-" + via, ctxName: "json", classes: "toplevel:**T;" + strings.Join(ig.classes, ","),
					doc: func() string { return "target **T; " + jsonDoc(tree) }, call: call})
			}
			return
		}
		// a list document into a slice target: the reference sees the list as the value of a slice field
		elem := g.genStruct(0, 1, 4)
		lf := &fieldD{GoName: "L", Src: "json", Key: "l", Kind: reflect.Slice, Elem: &fieldD{Kind: reflect.Struct, Sub: elem, Ptr: r.Pick(3, 1)}}
		if r.Chance(0.25) {
			lf.Elem = &fieldD{Kind: g.scalarKind(), Ptr: r.Pick(3, 1)}
		}
		wrap := &structD{Fields: []*fieldD{lf}}
		for i := 0; i < 8; i++ {
			ig := &inputGen{r: r, e: e}
			v, ok := ig.validValue(lf, e, 0)
			if !ok {
				continue
			}
			arr := v.([]any)
			if i >= 3 && len(arr) > 0 && lf.Elem.Sub != nil {
				if m, isMap := arr[r.Intn(len(arr))].(map[string]any); isMap {
					var slots []slot
					collectSlots(elem.Fields, e.Ctx, m, &slots)
					if len(slots) > 0 {
						ig.perturb(kit.Choose(r, slots), e)
					}
				}
			}
			if i == 7 && !e.NoNull {
				arr = append(arr, nil)
				ig.classes = append(ig.classes, "null-element")
			}
			tree := map[string]any{"l": arr}
			call := func(t any) error {
				sl := reflect.ValueOf(t).Elem().Field(0).Addr().Interface() // *[]Elem
				switch via {
				case "json":
					return mapping.UnmarshalJsonBytes(renderAny("json", arr), sl)
				case "jsonreader":
					return mapping.UnmarshalJsonReader(bytes.NewReader(renderAny("json", arr)), sl)
				case "yaml":
					return mapping.UnmarshalYamlBytes(renderAny("yaml", arr), sl)
				}
				req, err := http.NewRequest(http.MethodPost, "http://localhost/x?l=1", bytes.NewReader(renderAny("json", arr)))
				if err != nil {
					return err
				}
				req.Header.Set("Content-Type", "application/json")
				return httpx.Parse(req, sl)
			}
			kit.Obs("list_documents_into_slice_targets", 1)
			h.evalOne(c, &evalReq{sd: wrap, ss: oneSource(e, tree), entry: "list-" + via, ctxName: "json-list", classes: "toplevel:list;" + strings.Join(ig.classes, ","),
				doc: func() string { return "target *[]T; " + string(renderAny("json", arr)) }, call: call})
		}
		// targets / documents of the wrong top-level shape: an error, never a panic
		sd := g.genStruct(0, 1, 3)
		docs := []string{`5`, `"x"`, `null`, `true`, `[1,2]`, `[[{}]]`, `[{}]`, `{}`, `[]`, `{"l":[]}`, `[null]`, `1.5e3`, ``}
		targets := []func() any{
			func() any { return reflect.New(sd.goType()).Interface() },                   // *T
			func() any { return reflect.New(sd.goType()).Elem().Interface() },            // T (not a pointer)
			func() any { return reflect.Zero(reflect.PointerTo(sd.goType())).Interface() }, // (*T)(nil)
			func() any { return nil },
			func() any { return new(int) },
			func() any { return new([]int) },
			func() any { return new(map[string]any) },
			func() any { return new([]map[string]int) },
			func() any { return reflect.New(reflect.SliceOf(sd.goType())).Interface() },
			func() any { return new(any) },
			func() any { return new([][]int) },
			func() any { return new([3]int) },
		}
		for i := 0; i < 10; i++ {
			doc := kit.Choose(r, docs)
			ti := r.Intn(len(targets))
			tg := targets[ti]()
			how := kit.Choose(r, []string{"json", "jsonreader", "yaml", "toml", "jsonmap-nil", "conf", "http-body"})
			record := func() string {
				return fmt.Sprintf("case=%s entry=%s target=%T input=%q", c.ID, how, tg, doc)
			}
			err, pan := h.fc.guard(record, func() error {
				switch how {
				case "json":
					return mapping.UnmarshalJsonBytes([]byte(doc), tg)
				case "jsonreader":
					return mapping.UnmarshalJsonReader(strings.NewReader(doc), tg)
				case "yaml":
					return mapping.UnmarshalYamlBytes([]byte(doc), tg)
				case "toml":
					return mapping.UnmarshalTomlBytes([]byte("a = 1\n"), tg)
				case "jsonmap-nil":
					return mapping.UnmarshalJsonMap(nil, tg)
				case "conf":
					return conf.LoadFromJsonBytes([]byte(doc), tg)
				}
				req, rerr := http.NewRequest(http.MethodPost, "http://localhost/x", strings.NewReader(doc))
				if rerr != nil {
					return rerr
				}
				req.Header.Set("Content-Type", "application/json")
				return httpx.Parse(req, tg)
			})
			c.Evals(1)
			kit.Obs("calls", 1)
			kit.Obs("calls_wrong_top_level_shape", 1)
			if pan != nil {
				// a target that is no pointer to a struct / slice is a programming error of the caller,
				// not an input: only panics on pointer-to-struct and pointer-to-slice-of-struct targets count
				if ti == 0 || ti == 8 {
					kit.Obs("panics", 1)
					c.Viol(pan.key(), "the unmarshaller panicked on a document of the wrong top-level shape: "+pan.Msg,
						map[string]any{"target": fmt.Sprintf("%T", tg), "type": sd.describe(), "entry": how, "input": doc, "panic": pan.Msg, "stack": pan.Stack})
				} else {
					kit.Obs("panics_on_targets_that_are_no_struct_pointers", 1)
					c.Sample("panic-on-unsupported-target", 3, map[string]any{"target": fmt.Sprintf("%T", tg), "entry": how, "input": doc, "panic": pan.Msg})
				}
				c.Sig(false, "toplevel-wrong-shape", how, ti, "panic")
				continue
			}
			if err != nil {
				kit.Obs("wrong_top_level_shape_rejected", 1)
			} else {
				kit.Obs("wrong_top_level_shape_accepted", 1)
			}
			c.Sig(false, "toplevel-wrong-shape", how, ti, err != nil)
		}
	})
}
