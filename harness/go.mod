module verifharness

go 1.21

require (
	github.com/anishathalye/porcupine v1.3.0
	github.com/zeromicro/go-zero v0.0.0
)

require (
	github.com/fatih/color v1.18.0 // indirect
	github.com/mattn/go-colorable v0.1.13 // indirect
	github.com/mattn/go-isatty v0.0.20 // indirect
	github.com/spaolacci/murmur3 v1.1.0 // indirect
	go.opentelemetry.io/otel v1.24.0 // indirect
	go.opentelemetry.io/otel/trace v1.24.0 // indirect
	go.uber.org/automaxprocs v1.6.0 // indirect
	golang.org/x/sys v0.30.0 // indirect
)

replace github.com/zeromicro/go-zero => /repo
