module verifharness

go 1.21

require (
	github.com/alicebob/miniredis/v2 v2.34.0
	github.com/anishathalye/porcupine v1.3.0
	github.com/go-sql-driver/mysql v1.9.0
	github.com/golang-jwt/jwt/v4 v4.5.2
	github.com/pelletier/go-toml/v2 v2.2.2
	github.com/redis/go-redis/v9 v9.7.3
	github.com/zeromicro/go-zero v0.0.0
	go.etcd.io/etcd/api/v3 v3.5.15
	go.etcd.io/etcd/client/v3 v3.5.15
	google.golang.org/grpc v1.65.0
	gopkg.in/yaml.v2 v2.4.0
)

require (
	filippo.io/edwards25519 v1.1.0 // indirect
	github.com/alicebob/gopher-json v0.0.0-20230218143504-906a9b012302 // indirect
	github.com/beorn7/perks v1.0.1 // indirect
	github.com/cenkalti/backoff/v4 v4.3.0 // indirect
	github.com/cespare/xxhash/v2 v2.3.0 // indirect
	github.com/coreos/go-semver v0.3.1 // indirect
	github.com/coreos/go-systemd/v22 v22.5.0 // indirect
	github.com/davecgh/go-spew v1.1.1 // indirect
	github.com/dgryski/go-rendezvous v0.0.0-20200823014737-9f7001d12a5f // indirect
	github.com/emicklei/go-restful/v3 v3.11.0 // indirect
	github.com/fatih/color v1.18.0 // indirect
	github.com/go-logr/logr v1.4.2 // indirect
	github.com/go-logr/stdr v1.2.2 // indirect
	github.com/go-openapi/jsonpointer v0.19.6 // indirect
	github.com/go-openapi/jsonreference v0.20.2 // indirect
	github.com/go-openapi/swag v0.22.4 // indirect
	github.com/gogo/protobuf v1.3.2 // indirect
	github.com/golang/mock v1.6.0 // indirect
	github.com/golang/protobuf v1.5.4 // indirect
	github.com/google/gnostic-models v0.6.8 // indirect
	github.com/google/go-cmp v0.6.0 // indirect
	github.com/google/gofuzz v1.2.0 // indirect
	github.com/google/uuid v1.6.0 // indirect
	github.com/grpc-ecosystem/grpc-gateway/v2 v2.20.0 // indirect
	github.com/josharian/intern v1.0.0 // indirect
	github.com/json-iterator/go v1.1.12 // indirect
	github.com/klauspost/compress v1.17.11 // indirect
	github.com/mailru/easyjson v0.7.7 // indirect
	github.com/mattn/go-colorable v0.1.13 // indirect
	github.com/mattn/go-isatty v0.0.20 // indirect
	github.com/modern-go/concurrent v0.0.0-20180306012644-bacd9c7ef1dd // indirect
	github.com/modern-go/reflect2 v1.0.2 // indirect
	github.com/munnerz/goautoneg v0.0.0-20191010083416-a7dc8b61c822 // indirect
	github.com/openzipkin/zipkin-go v0.4.3 // indirect
	github.com/prometheus/client_golang v1.21.1 // indirect
	github.com/prometheus/client_model v0.6.1 // indirect
	github.com/prometheus/common v0.62.0 // indirect
	github.com/prometheus/procfs v0.15.1 // indirect
	github.com/spaolacci/murmur3 v1.1.0 // indirect
	github.com/yuin/gopher-lua v1.1.1 // indirect
	go.etcd.io/etcd/client/pkg/v3 v3.5.15 // indirect
	go.opentelemetry.io/otel v1.24.0 // indirect
	go.opentelemetry.io/otel/exporters/jaeger v1.17.0 // indirect
	go.opentelemetry.io/otel/exporters/otlp/otlptrace v1.24.0 // indirect
	go.opentelemetry.io/otel/exporters/otlp/otlptrace/otlptracegrpc v1.24.0 // indirect
	go.opentelemetry.io/otel/exporters/otlp/otlptrace/otlptracehttp v1.24.0 // indirect
	go.opentelemetry.io/otel/exporters/stdout/stdouttrace v1.24.0 // indirect
	go.opentelemetry.io/otel/exporters/zipkin v1.24.0 // indirect
	go.opentelemetry.io/otel/metric v1.24.0 // indirect
	go.opentelemetry.io/otel/sdk v1.24.0 // indirect
	go.opentelemetry.io/otel/trace v1.24.0 // indirect
	go.opentelemetry.io/proto/otlp v1.3.1 // indirect
	go.uber.org/atomic v1.10.0 // indirect
	go.uber.org/automaxprocs v1.6.0 // indirect
	go.uber.org/multierr v1.9.0 // indirect
	go.uber.org/zap v1.24.0 // indirect
	golang.org/x/net v0.35.0 // indirect
	golang.org/x/oauth2 v0.24.0 // indirect
	golang.org/x/sys v0.30.0 // indirect
	golang.org/x/term v0.29.0 // indirect
	golang.org/x/text v0.22.0 // indirect
	golang.org/x/time v0.10.0 // indirect
	google.golang.org/genproto/googleapis/api v0.0.0-20240711142825-46eb208f015d // indirect
	google.golang.org/genproto/googleapis/rpc v0.0.0-20240701130421-f6361c86f094 // indirect
	google.golang.org/protobuf v1.36.5 // indirect
	gopkg.in/inf.v0 v0.9.1 // indirect
	gopkg.in/yaml.v3 v3.0.1 // indirect
	k8s.io/api v0.29.3 // indirect
	k8s.io/apimachinery v0.29.4 // indirect
	k8s.io/client-go v0.29.3 // indirect
	k8s.io/klog/v2 v2.110.1 // indirect
	k8s.io/kube-openapi v0.0.0-20231010175941-2dd684a91f00 // indirect
	k8s.io/utils v0.0.0-20240711033017-18e509b52bc8 // indirect
	sigs.k8s.io/json v0.0.0-20221116044647-bc3834ca7abd // indirect
	sigs.k8s.io/structured-merge-diff/v4 v4.4.1 // indirect
	sigs.k8s.io/yaml v1.3.0 // indirect
)

replace github.com/zeromicro/go-zero => /repo
