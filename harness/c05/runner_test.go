package c05

import (
	"errors"
	"fmt"
	"runtime"
	"strings"
	"sync/atomic"
	"time"

	"github.com/zeromicro/go-zero/core/threading"

	"verifharness/kit"
)

type trTask struct {
	Method string `json:"method"` // Schedule | ScheduleImmediately
	H      hold   `json:"hold"`
	Panic  bool   `json:"panic,omitempty"`
}

type trPlan struct {
	N        int        `json:"n"`
	G        int        `json:"submitters"`
	PanicPct int        `json:"panic_pct"`
	Tasks    [][]trTask `json:"tasks"`
}

func genTrPlan(r *kit.Rand) trPlan {
	n := pickN(r)
	g := pickG(r, n)
	p := trPlan{N: n, G: g, PanicPct: kit.Choose(r, []int{0, 0, 5, 15, 40})}
	immPct := kit.Choose(r, []int{0, 20, 50, 100})
	for i := 0; i < g; i++ {
		ts := make([]trTask, r.Range(1, 4))
		for j := range ts {
			ts[j] = trTask{Method: "Schedule", H: genHold(r), Panic: r.Intn(100) < p.PanicPct}
			if r.Intn(100) < immPct {
				ts[j].Method = "ScheduleImmediately"
			}
		}
		p.Tasks = append(p.Tasks, ts)
	}
	return p
}

// taskRunnerCase: the task body is the guarded region. acquired/released count
// started/finished bodies. Quiescence = Wait() returned.
func taskRunnerCase(c *kit.Case) {
	if skipAfterLeak(c, "taskrunner") {
		return
	}
	p := genTrPlan(c.R)
	m := newMon(c, "taskrunner", p.N, p)
	tr := threading.NewTaskRunner(p.N)
	l := newLauncher(launchGo)
	var accepted atomic.Int64
	for gi := range p.Tasks {
		ts := p.Tasks[gi]
		a := m.actor()
		gname := fmt.Sprintf("g%d", gi)
		l.start(m, func() {
			for ti, t := range ts {
				t := t
				who := fmt.Sprintf("%s.t%d", gname, ti)
				ta := m.actor()
				body := func() {
					m.acquired.Add(1)
					defer m.released.Add(1)
					m.enter(ta, who)
					defer m.exit(ta, who)
					t.H.do(m)
					if t.Panic {
						m.panics.Add(1)
						panic(verifPanic{who})
					}
				}
				if t.Method == "Schedule" {
					m.pending.Add(1)
					tr.Schedule(body)
					m.pending.Add(-1)
					accepted.Add(1)
					a.Rec("sched", who, nil, nil)
					continue
				}
				if err := tr.ScheduleImmediately(body); err != nil {
					a.Rec("refused", who, nil, nil)
					m.refused.Add(1)
					if !errors.Is(err, threading.ErrTaskRunnerBusy) {
						c.Obs("taskrunner_other_error", 1)
					}
				} else {
					accepted.Add(1)
					a.Rec("sched", who, nil, nil)
				}
			}
		})
	}
	ok := m.await(l.done(), "the submitters")
	if ok {
		// quiescence of the holders: every accepted task body has returned (or panicked)
		if ok = waitUntil(func() bool { return m.released.Load() == accepted.Load() }, caseWatchdog); !ok {
			c.Inconclusive("taskrunner: accepted tasks did not all run")
		}
	}
	if ok {
		c.Obs("taskrunner_tasks_accepted", accepted.Load())
		phase := "after-normal-exits"
		if m.panics.Load() > 0 {
			phase = "after-task-panics"
		}
		trProbe(m, tr, p.N, phase, trWait(m, tr))
	}
	m.finish(p.G)
	if c.Index < 2 {
		c.Sample("taskrunner", 2, map[string]any{"plan": p, "max_tasks_running_seen": m.g.Max(), "refusals": m.refused.Load(), "accepted": accepted.Load()})
	}
}

// trWait calls Wait(). If it does not return although every task body has ended, it
// keeps waiting as long as a task goroutine of the runner still exists (it may be
// about to release its slot); once none exists (consecutive dumps) nothing can
// release a slot or complete the wait any more, and false is returned: the caller
// then decides about the capacity with non-blocking calls only.
func trWait(m *mon, tr *threading.TaskRunner) bool {
	done := make(chan struct{})
	go func() { tr.Wait(); close(done) }()
	select {
	case <-done:
		return true
	case <-time.After(patience()):
		patienceExpired()
	}
	t0 := time.Now()
	none := 0
	for time.Since(t0) < caseWatchdog {
		select {
		case <-done:
			return true
		case <-time.After(stuckEvery):
		}
		if strings.Contains(stacks(), "threading.(*TaskRunner).Schedule") {
			none = 0
		} else if none++; none >= stuckSamples {
			m.c.Obs("taskrunner_wait_never_returned_with_no_task_goroutine_left", 1)
			return false
		}
	}
	m.c.Inconclusive("taskrunner: Wait did not return and task goroutines are still around")
	return false
}

// trProbe: every task has ended and (waited) Wait() returned. Exactly n
// ScheduleImmediately must be accepted (their bodies are held by the harness), the
// (n+1)-th must be refused with ErrTaskRunnerBusy, and a blocking Schedule must not
// start its task before a slot is released. If Wait() can never return (!waited:
// no task goroutine is left) only the non-blocking part runs.
func trProbe(m *mon, tr *threading.TaskRunner, n int, phase string, waited bool) {
	m.probeObs()
	release := make(chan struct{})
	var entered, left atomic.Int64
	got := 0
	for i := 0; i < n; i++ {
		who := fmt.Sprintf("probe%d", i)
		err := tr.ScheduleImmediately(func() {
			defer left.Add(1)
			m.enter(nil, who)
			defer m.exit(nil, who)
			entered.Add(1)
			<-release
		})
		if err != nil {
			what := "after Wait() returned"
			if !waited {
				what = "with every task ended, no task goroutine left (and Wait() never returning)"
			}
			m.viol("leak/"+phase, fmt.Sprintf("%s, ScheduleImmediately #%d of %d was refused (%v): capacity was lost", what, i+1, n, err),
				map[string]any{"accepted": got, "wait_returned": waited})
			break
		}
		got++
	}
	if !waitUntil(func() bool { return entered.Load() == int64(got) }, caseWatchdog) {
		m.c.Inconclusive("taskrunner probe: accepted tasks did not start")
		close(release)
		return
	}
	var extraRan atomic.Bool
	schedReturned := make(chan struct{})
	if got == n {
		err := tr.ScheduleImmediately(func() {
			m.enter(nil, "probe-extra")
			m.exit(nil, "probe-extra")
		})
		if err == nil {
			m.viol("inflated/"+phase, fmt.Sprintf("ScheduleImmediately #%d was accepted by a runner of %d while %d tasks are running", n+1, n, n), nil)
		} else if !errors.Is(err, threading.ErrTaskRunnerBusy) {
			m.viol("refusal-other-error", fmt.Sprintf("refusal at full capacity is %v, not ErrTaskRunnerBusy", err), nil)
		} else {
			m.c.Obs("taskrunner_probe_refused_beyond_cap", 1)
		}
	}
	if got == n && waited {
		go func() {
			tr.Schedule(func() {
				extraRan.Store(true)
				m.enter(nil, "probe-blocked")
				m.exit(nil, "probe-blocked")
			})
			close(schedReturned)
		}()
		for i := 0; i < 100; i++ {
			runtime.Gosched()
		}
		if extraRan.Load() {
			m.viol("inflated/"+phase, fmt.Sprintf("a task given to the blocking Schedule ran while all %d slots were taken", n), nil)
		} else {
			m.c.Obs("taskrunner_probe_blocking_schedule_held_back", 1)
		}
	} else {
		close(schedReturned)
	}
	close(release)
	select {
	case <-schedReturned:
	case <-time.After(caseWatchdog):
		m.c.Inconclusive("taskrunner probe: the blocking Schedule did not return after the slots were released")
		return
	}
	if !waitUntil(func() bool { return left.Load() == int64(got) }, caseWatchdog) {
		m.c.Inconclusive("taskrunner probe: held tasks did not end after their release")
		return
	}
	if waited {
		done := make(chan struct{})
		go func() { tr.Wait(); close(done) }()
		select {
		case <-done:
		case <-time.After(caseWatchdog):
			m.c.Inconclusive("taskrunner: Wait after the probe did not return")
		}
	}
}

// workerGroupCase: NewWorkerGroup(job, n).Start() runs the job on n goroutines;
// at most n are inside the job at once, Start returns also when jobs panic.
func workerGroupCase(c *kit.Case) {
	r := c.R
	n := pickN(r)
	panicPct := kit.Choose(r, []int{0, 10, 50, 100})
	holds := make([]hold, n)
	pan := make([]bool, n)
	for i := range holds {
		holds[i] = genHold(r)
		pan[i] = r.Intn(100) < panicPct
	}
	plan := map[string]any{"workers": n, "holds": fmt.Sprint(holds), "panics": fmt.Sprint(pan)}
	m := newMon(c, "workergroup", n, plan)
	var idx atomic.Int64
	job := func() {
		i := int(idx.Add(1) - 1)
		who := fmt.Sprintf("w%d", i)
		a := m.actor()
		m.enter(a, who)
		defer m.exit(a, who)
		if i < n {
			holds[i].do(m)
			if pan[i] {
				m.panics.Add(1)
				panic(verifPanic{who})
			}
		}
	}
	done := make(chan struct{})
	go func() {
		threading.NewWorkerGroup(job, n).Start()
		close(done)
	}()
	select {
	case <-done:
		c.Obs("workergroup_job_runs", idx.Load())
		if idx.Load() != int64(n) {
			c.Obs("workergroup_runs_differ_from_workers", 1)
		}
	case <-time.After(caseWatchdog):
		c.Inconclusive("WorkerGroup.Start did not return")
	}
	m.finish()
}
